(** C11 (round 5) — clause 1 for disconnected graphs, semantically: the reported number (product of the per-component
    numbers) is the number of label-preserving automorphisms of the WHOLE graph that map every component onto itself -
    "component swaps deliberately excluded".  Proof: the listed automorphisms that keep the components correspond one to one
    to the tuples of component automorphisms (restriction / combination by cases).  Stdlib lists. *)
From Coq Require Import List NArith ZArith Bool Arith Lia Permutation.
From SK Require Import lib.Tok lib.LGraph lib.Mono lib.Reach model.C11_Model
     proof.C11_Aut proof.C11_WL proof.C11_Dedup proof.C11_Main proof.C11_Comp proof.C11_Extend.
Import ListNotations.

(** ---------- tuples: the product of a list of lists ---------- *)
Fixpoint prodl {B} (Ps : list (list B)) : list (list B) :=
  match Ps with
  | [] => [[]]
  | P :: r => flat_map (fun b => map (cons b) (prodl r)) P
  end.

Lemma in_prodl {B} (Ps : list (list B)) : forall t, In t (prodl Ps) <-> Forall2 (fun b P => In b P) t Ps.
Proof.
  induction Ps as [|P r IH]; intros t; simpl.
  - split; [intros [<-|[]]; constructor | intros H; inversion H; left; reflexivity].
  - rewrite in_flat_map. split.
    + intros (b & Hb & Ht). apply in_map_iff in Ht. destruct Ht as (t' & <- & Ht'). constructor; [exact Hb | apply IH; exact Ht'].
    + intros H. inversion H as [|b P' t' r' Hb Ht']; subst. exists b. split; [exact Hb|].
      apply in_map_iff. exists t'. split; [reflexivity | apply IH; exact Ht'].
Qed.

Lemma length_prodl {B} (Ps : list (list B)) : length (prodl Ps) = fold_right Nat.mul 1%nat (map (@length B) Ps).
Proof.
  induction Ps as [|P r IH]; simpl; [reflexivity|]. rewrite <- IH. generalize (prodl r). intros Q.
  induction P as [|b P' IHP]; simpl; [reflexivity|]. rewrite app_length, map_length, IHP. reflexivity.
Qed.

Lemma nodup_prodl {B} (Ps : list (list B)) : (forall P, In P Ps -> NoDup P) -> NoDup (prodl Ps).
Proof.
  induction Ps as [|P r IH]; simpl; intros H; [repeat constructor; intros []|].
  apply NoDup_flat_map.
  - apply H. left. reflexivity.
  - intros b _. apply FinFun.Injective_map_NoDup; [intros x y E; inversion E; reflexivity|].
    apply IH. intros Q HQ. apply H. right. exact HQ.
  - intros b b' t _ _ H1 H2. apply in_map_iff in H1. apply in_map_iff in H2.
    destruct H1 as (t1 & <- & _). destruct H2 as (t2 & E & _). inversion E. reflexivity.
Qed.

(** counting through a bijection onto the tuples *)
Lemma count_by_tuples {A B} (L : list A) (Ps : list (list B)) (F : A -> list B) :
  NoDup L -> (forall P, In P Ps -> NoDup P) ->
  (forall a, In a L -> In (F a) (prodl Ps)) ->
  (forall a a', In a L -> In a' L -> F a = F a' -> a = a') ->
  (forall t, In t (prodl Ps) -> exists a, In a L /\ F a = t) ->
  length L = fold_right Nat.mul 1%nat (map (@length B) Ps).
Proof.
  intros HL HPs Hin Hinj Hsur. rewrite <- length_prodl, <- (map_length F L).
  apply Permutation_length. apply NoDup_Permutation.
  - apply (inj_in_NoDup_map F L HL). exact Hinj.
  - apply nodup_prodl. exact HPs.
  - intros t. rewrite in_map_iff. split.
    + intros (a & <- & Ha). apply Hin. exact Ha.
    + intros Ht. destruct (Hsur t Ht) as (a & Ha & <-). exists a. split; [reflexivity | exact Ha].
Qed.

(** ---------- automorphisms as functions: only the values on the nodes matter ---------- *)
Lemma is_automorphism_ext fn fe (g : graph) s s' :
  (forall u, In u (node_ids g) -> s u = s' u) -> is_automorphism fn fe g s -> is_automorphism fn fe g s'.
Proof.
  intros E (S1 & S2 & S3 & S4). split; [|split; [|split]].
  - intros u Hu. rewrite <- (E u Hu). apply S1. exact Hu.
  - intros u v Hu Hv. rewrite <- (E u Hu), <- (E v Hv). apply S2; assumption.
  - intros u Hu. rewrite <- (E u Hu). apply S3. exact Hu.
  - intros u v Hu Hv. rewrite <- (E u Hu), <- (E v Hv). apply S4; assumption.
Qed.

Lemma aut_pairs_ext (g : graph) s s' : (forall u, In u (node_ids g) -> s u = s' u) -> aut_pairs g s = aut_pairs g s'.
Proof. intros E. unfold aut_pairs. f_equal. apply map_ext_in. intros u Hu. rewrite (E u Hu). reflexivity. Qed.

Lemma aut_pairs_inj (g : graph) s s' : aut_pairs g s = aut_pairs g s' -> forall u, In u (node_ids g) -> s u = s' u.
Proof.
  unfold aut_pairs. intros E u Hu. apply (f_equal (@rev _)) in E. rewrite !rev_involutive in E.
  induction (node_ids g) as [|a r IH]; [destruct Hu|]. simpl in E. inversion E as [[E1 E2]].
  destruct Hu as [<-|Hu]; [exact E1 | exact (IH E2 Hu)].
Qed.

Lemma Forall2_impl_in {X Y} (P Q : X -> Y -> Prop) (t : list X) (cs : list Y) :
  Forall2 P t cs -> (forall m c, In c cs -> P m c -> Q m c) -> Forall2 Q t cs.
Proof.
  induction 1 as [|m c t' cs' H H' IH]; intros HQ; constructor.
  - apply HQ; [left; reflexivity | exact H].
  - apply IH. intros m' c' Hc'. apply HQ. right. exact Hc'.
Qed.

Lemma Forall2_and {X Y} (P Q : X -> Y -> Prop) (t : list X) (cs : list Y) :
  Forall2 P t cs -> Forall2 Q t cs -> Forall2 (fun m c => P m c /\ Q m c) t cs.
Proof.
  induction 1 as [|m c t' cs' H H' IH]; intros HQ; inversion HQ; subst; constructor; [split; assumption | apply IH; assumption].
Qed.

Lemma Forall2_map_eq {X Y} (R : X -> Y -> Prop) (f : Y -> X) (t : list X) (cs : list Y) :
  Forall2 R t cs -> (forall m c, In c cs -> R m c -> f c = m) -> map f cs = t.
Proof.
  induction 1 as [|m c t' cs' H H' IH]; intros Hf; simpl; [reflexivity|]. f_equal.
  - apply Hf; [left; reflexivity | exact H].
  - apply IH. intros m' c' Hc'. apply Hf. right. exact Hc'.
Qed.

Lemma Forall2_maps {X Y Z} (f : Z -> X) (h : Z -> Y) (R : X -> Y -> Prop) (l : list Z) :
  (forall z, In z l -> R (f z) (h z)) -> Forall2 R (map f l) (map h l).
Proof.
  induction l as [|z r IH]; simpl; intros H; constructor; [apply H; left; reflexivity | apply IH; intros z' Hz'; apply H; right; exact Hz'].
Qed.

Lemma filter_keep_all {X} (f : X -> bool) l : (forall x, In x l -> f x = true) -> filter f l = l.
Proof.
  induction l as [|x r IH]; simpl; intros H; [reflexivity|].
  rewrite (H x (or_introl eq_refl)). f_equal. apply IH. intros y Hy. apply H. right. exact Hy.
Qed.

Lemma fold_left_mul_nat (l : list nat) : forall a,
  fold_left N.mul (map N.of_nat l) a = (a * N.of_nat (fold_right Nat.mul 1%nat l))%N.
Proof.
  induction l as [|x r IH]; intros a; simpl; [lia|]. rewrite IH. lia.
Qed.

(** ---------- combination of component automorphisms by cases ---------- *)
Fixpoint combine_auts (cs : list (list N)) (t : list mapping) (u : N) : N :=
  match cs, t with
  | c :: cs', m :: t' => if LGraph.mem u c then app_map m u else combine_auts cs' t' u
  | _, _ => u
  end.

Definition keepsb (g : graph) (m : mapping) : bool :=
  forallb (fun c => forallb (fun x => LGraph.mem (app_map m x) c) c) (components g).

Lemma keepsb_spec (g : graph) m : keepsb g m = true <-> keeps_components g (app_map m).
Proof.
  unfold keepsb, keeps_components. rewrite forallb_forall. split.
  - intros H c x Hc Hx. specialize (H c Hc). rewrite forallb_forall in H. apply LGraph.mem_spec. exact (H x Hx).
  - intros H c Hc. apply forallb_forall. intros x Hx. apply LGraph.mem_spec. exact (H c x Hc Hx).
Qed.

Section Count.
Variable fn : nlab -> N.
Variable fe : elab -> N.
Variable g : graph.
Hypothesis Hwf : wf g.

Let Hs : simple_graph g := wf_simple g Hwf.

Lemma listed_fun m : In m (auts fn fe g) ->
  is_automorphism fn fe g (app_map m) /\ m = aut_pairs g (app_map m).
Proof.
  intros Hm. apply (auts_listing fn fe g Hs) in Hm. destruct Hm as (s & Hsa & ->).
  assert (E : forall u, In u (node_ids g) -> s u = app_map (aut_pairs g s) u).
  { intros u Hu. symmetry. apply app_map_aut_pairs; [exact (proj1 Hs) | exact Hu]. }
  split; [exact (is_automorphism_ext fn fe g s _ E Hsa) | exact (aut_pairs_ext g s _ E)].
Qed.

Lemma listed_fun_comp c m : In m (auts fn fe (induced_sub g c)) ->
  is_automorphism fn fe (induced_sub g c) (app_map m) /\ m = aut_pairs (induced_sub g c) (app_map m).
Proof.
  pose proof (induced_simple g c Hs) as Hsc.
  intros Hm. apply (auts_listing fn fe (induced_sub g c) Hsc) in Hm. destruct Hm as (s & Hsa & ->).
  assert (E : forall u, In u (node_ids (induced_sub g c)) -> s u = app_map (aut_pairs (induced_sub g c) s) u).
  { intros u Hu. symmetry. apply app_map_aut_pairs; [exact (proj1 Hsc) | exact Hu]. }
  split; [exact (is_automorphism_ext fn fe _ s _ E Hsa) | exact (aut_pairs_ext _ s _ E)].
Qed.

Lemma combine_spec cs : forall t,
  (forall c, In c cs -> In c (components g)) -> pairwise_disjoint cs ->
  Forall2 (fun m c => In m (auts fn fe (induced_sub g c))) t cs ->
  is_automorphism fn fe g (combine_auts cs t) /\ keeps_components g (combine_auts cs t) /\
  (forall u, (forall c, In c cs -> ~ In u c) -> combine_auts cs t u = u) /\
  Forall2 (fun m c => forall u, In u c -> combine_auts cs t u = app_map m u) t cs.
Proof.
  induction cs as [|c cs IH]; intros t Hsub Hdisj Ht.
  - inversion Ht; subst. refine (conj _ (conj _ (conj _ _))).
    + exact (proj1 (aut_group fn fe g Hs)).
    + intros c x _ Hx. exact Hx.
    + intros u _. reflexivity.
    + constructor.
  - inversion Ht as [|m c' t' cs' Hm Ht']; subst. simpl in Hdisj. destruct Hdisj as [Hd Hdisj'].
    assert (Hcin : In c (components g)) by (apply Hsub; left; reflexivity).
    destruct (IH t' (fun c0 H0 => Hsub c0 (or_intror H0)) Hdisj' Ht') as (R1 & R2 & R3 & R4).
    set (rest := combine_auts cs t') in *.
    destruct (listed_fun_comp c m Hm) as (Hs1 & _).
    set (E := extend_by_id c (app_map m)).
    assert (HE1 : is_automorphism fn fe g E) by exact (component_aut_extends fn fe g Hwf c Hcin _ Hs1).
    assert (HE2 : keeps_components g E) by exact (extension_keeps_components fn fe g Hwf c Hcin _ Hs1).
    assert (Hrest_c : forall u, In u c -> rest u = u).
    { intros u Hu. apply R3. intros c0 Hc0 Hu0. exact (Hd c0 Hc0 u Hu Hu0). }
    assert (Hnotc : forall u, ~ In u c -> ~ In (rest u) c).
    { intros u Hu Hru. destruct (existsb (fun c0 => LGraph.mem u c0) cs) eqn:Ex.
      - apply existsb_exists in Ex. destruct Ex as (c0 & Hc0 & Mu). apply LGraph.mem_spec in Mu.
        pose proof (R2 c0 u (Hsub c0 (or_intror Hc0)) Mu) as Hr0. exact (Hd c0 Hc0 (rest u) Hru Hr0).
      - assert (Hid : rest u = u).
        { apply R3. intros c0 Hc0 Hu0. assert (existsb (fun c1 => LGraph.mem u c1) cs = true); [|congruence].
          apply existsb_exists. exists c0. split; [exact Hc0 | apply LGraph.mem_spec; exact Hu0]. }
        rewrite Hid in Hru. contradiction. }
    assert (Heq : forall u, (if LGraph.mem u c then app_map m u else rest u) = E (rest u)).
    { intros u. unfold E, extend_by_id. destruct (LGraph.mem u c) eqn:Mu.
      - apply LGraph.mem_spec in Mu. rewrite (Hrest_c u Mu), (proj2 (LGraph.mem_spec u c) Mu). reflexivity.
      - assert (Hu : ~ In u c) by (intros H; apply LGraph.mem_spec in H; congruence).
        destruct (LGraph.mem (rest u) c) eqn:Mr; [|reflexivity].
        apply LGraph.mem_spec in Mr. exfalso. exact (Hnotc u Hu Mr). }
    refine (conj _ (conj _ (conj _ _))).
    + apply (is_automorphism_ext fn fe g (fun u => E (rest u))); [intros u _; symmetry; apply Heq|].
      apply (proj1 (proj2 (aut_group fn fe g Hs))); assumption.
    + intros c0 x Hc0 Hx. cbn [combine_auts]. fold rest. rewrite Heq. apply HE2; [exact Hc0|]. apply R2; assumption.
    + intros u Hu. cbn [combine_auts]. fold rest. assert (Mu : LGraph.mem u c = false).
      { destruct (LGraph.mem u c) eqn:M; [|reflexivity]. apply LGraph.mem_spec in M. exfalso. exact (Hu c (or_introl eq_refl) M). }
      rewrite Mu. apply R3. intros c0 Hc0. apply Hu. right. exact Hc0.
    + constructor.
      * intros u Hu. cbn [combine_auts]. rewrite (proj2 (LGraph.mem_spec u c) Hu). reflexivity.
      * apply (Forall2_impl_in _ _ _ _ R4). intros m0 c0 Hc0 H0 u Hu. cbn [combine_auts]. fold rest.
        assert (Mu : LGraph.mem u c = false).
        { destruct (LGraph.mem u c) eqn:M; [|reflexivity]. apply LGraph.mem_spec in M. exfalso. exact (Hd c0 Hc0 u M Hu). }
        rewrite Mu. apply H0. exact Hu.
Qed.

Definition kept_auts : list mapping := filter (keepsb g) (auts fn fe g).
Definition restrictions (m : mapping) : list mapping :=
  map (fun c => aut_pairs (induced_sub g c) (app_map m)) (components g).
Definition comp_auts : list (list mapping) := map (fun c => auts fn fe (induced_sub g c)) (components g).

Lemma kept_spec m : In m kept_auts <->
  exists s, is_automorphism fn fe g s /\ keeps_components g s /\ m = aut_pairs g s.
Proof.
  unfold kept_auts. rewrite filter_In, keepsb_spec. split.
  - intros (Hm & Hk). destruct (listed_fun m Hm) as (Ha & E). exists (app_map m). auto.
  - intros (s & Ha & Hk & ->). split; [apply (auts_listing fn fe g Hs); exists s; auto|].
    intros c x Hc Hx. rewrite app_map_aut_pairs; [apply Hk; assumption | exact (proj1 Hs) | exact (comp_nodes g Hwf c Hc x Hx)].
Qed.

Lemma kept_count : length kept_auts = fold_right Nat.mul 1%nat (map (@length mapping) comp_auts).
Proof.
  destruct (components_spec g Hwf) as (_ & Hdisj & Hcover).
  apply (count_by_tuples kept_auts comp_auts restrictions).
  - apply NoDup_filter. apply (auts_nodup fn fe g Hs).
  - intros P HP. unfold comp_auts in HP. apply in_map_iff in HP. destruct HP as (c & <- & _).
    apply auts_nodup. apply induced_simple. exact Hs.
  - intros m Hm. apply in_prodl. unfold restrictions, comp_auts. apply Forall2_maps. intros c Hc.
    unfold kept_auts in Hm. apply filter_In in Hm. destruct Hm as (Hm & Hk). apply keepsb_spec in Hk.
    destruct (listed_fun m Hm) as (Ha & _).
    apply (auts_listing fn fe (induced_sub g c) (induced_simple g c Hs)). exists (app_map m).
    split; [exact (restriction_is_aut fn fe g c Hc _ Ha Hk) | reflexivity].
  - intros m m' Hm Hm' E. unfold kept_auts in Hm, Hm'. apply filter_In in Hm. apply filter_In in Hm'.
    destruct (listed_fun m (proj1 Hm)) as (_ & E1). destruct (listed_fun m' (proj1 Hm')) as (_ & E2).
    rewrite E1, E2. apply aut_pairs_ext. intros u Hu.
    destruct (Hcover u Hu) as (c & Hc & Huc).
    assert (Ec : aut_pairs (induced_sub g c) (app_map m) = aut_pairs (induced_sub g c) (app_map m')).
    { unfold restrictions in E. clear -E Hc. induction (components g) as [|c0 r IH]; [destruct Hc|].
      simpl in E. inversion E as [[E0 Er]]. destruct Hc as [<-|Hc]; [exact E0 | exact (IH Er Hc)]. }
    apply (aut_pairs_inj _ _ _ Ec u). apply induced_node; assumption.
  - intros t Ht. apply in_prodl in Ht. unfold comp_auts in Ht.
    assert (Ht' : Forall2 (fun m c => In m (auts fn fe (induced_sub g c))) t (components g)).
    { clear -Ht. remember (components g) as cs eqn:Ecs. clear Ecs. revert t Ht.
      induction cs as [|c r IH]; intros t Ht; simpl in Ht; inversion Ht; subst; constructor; [assumption | apply IH; assumption]. }
    destruct (combine_spec (components g) t (fun c H => H) Hdisj Ht') as (C1 & C2 & _ & C4).
    set (comb := combine_auts (components g) t) in *.
    exists (aut_pairs g comb). split.
    + apply kept_spec. exists comb. auto.
    + unfold restrictions. apply (Forall2_map_eq _ _ _ _ (Forall2_and _ _ _ _ Ht' C4)).
      intros m c Hc (Hm & Hagree). destruct (listed_fun_comp c m Hm) as (_ & Em). rewrite Em.
      apply aut_pairs_ext. intros u Hu. destruct (induced_nodes_in g c u Hu) as [Hun Huc].
      rewrite app_map_aut_pairs; [apply Hagree; exact Huc | exact (proj1 Hs) | exact Hun].
Qed.

Theorem count_no_swaps :
  a_count (analyze fn fe g) = N.of_nat (length kept_auts) /\
  (forall m, In m kept_auts <-> exists s, is_automorphism fn fe g s /\ keeps_components g s /\ m = aut_pairs g s).
Proof.
  split; [|exact kept_spec].
  destruct (aut_count_all fn fe g Hs) as (_ & _ & Hc & _). rewrite Hc.
  destruct (length (components g) <=? 1)%nat eqn:E.
  - (* at most one component: every listed automorphism keeps it *)
    f_equal. unfold kept_auts. symmetry. f_equal. apply filter_keep_all. intros m Hm. apply keepsb_spec.
    destruct (listed_fun m Hm) as ((S1 & _) & _). intros c x Hcin Hx.
    destruct (components_spec g Hwf) as (_ & _ & C3).
    destruct (C3 (app_map m x) (S1 x (comp_nodes g Hwf c Hcin x Hx))) as (c' & Hc' & Hsx).
    apply Nat.leb_le in E.
    assert (c' = c).
    { destruct (components g) as [|c0 [|c1 r]]; simpl in E; try lia; [destruct Hcin|].
      destruct Hcin as [<-|[]]. destruct Hc' as [<-|[]]. reflexivity. }
    subst c'. exact Hsx.
  - rewrite kept_count. unfold comp_auts. rewrite map_map.
    rewrite <- (map_map (fun c => length (auts fn fe (induced_sub g c))) N.of_nat).
    rewrite fold_left_mul_nat. lia.
Qed.
End Count.

(** non-vacuity: two edges C-C . C-C: 8 automorphisms of the whole graph, 4 of them keep the components = the reported 4 *)
Example ex_count :
  length (auts n_exact e_order ex_2e) = 8%nat /\ length (kept_auts n_exact e_order ex_2e) = 4%nat /\
  a_count (analyze n_exact e_order ex_2e) = 4%N /\
  keepsb ex_2e [(4, 3); (3, 4); (2, 1); (1, 2)]%N = true /\ keepsb ex_2e [(4, 2); (3, 1); (2, 4); (1, 3)]%N = false.
Proof. vm_compute. repeat split. Qed.
