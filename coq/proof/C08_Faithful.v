(** C08 — faithfulness and onto-1..N for the back-ends that rebuild the graph in a sorted node order
    (generic; wl and morgan for ANY colour / label ranking). *)
From Coq Require Import List NArith ZArith Bool Arith Lia Permutation.
From SK Require Import lib.LGraph model.C08_Model proof.C08_Spec proof.C08_Sort.
Import ListNotations.

Lemma inj_on_same f l : C08_Sort.inj_on f l -> C08_Spec.inj_on f l.
Proof. exact (fun H => H). Qed.

Lemma attr_of_in (g : graph) p : NoDup (node_ids g) -> In p (gnodes g) -> attr_of g (fst p) = snd p.
Proof.
  intros Hnd Hin. unfold attr_of, label. destruct p as [k a]. simpl.
  rewrite (assoc_nodup_in k (gnodes g) a); auto.
Qed.

Lemma gnodes_relabel_as_ids (g : graph) f : NoDup (node_ids g) ->
  gnodes (relabel f g) = map (fun v => (f v, attr_of g v)) (node_ids g).
Proof.
  intros Hnd. unfold relabel, node_ids. simpl. rewrite map_map.
  apply map_ext_in. intros p Hp. rewrite (attr_of_in g p); auto.
Qed.

Lemma rebuild_spec (g : graph) order : NoDup (node_ids g) -> Permutation order (node_ids g) ->
  faithful g (rebuild g order) /\ node_ids (rebuild g order) = map N.of_nat (seq 1 (length (gnodes g))).
Proof.
  intros Hnd Hp.
  assert (Hndo : NoDup order) by (eapply Permutation_NoDup; [apply Permutation_sym; exact Hp|exact Hnd]).
  split.
  - exists (apply_map (mapping_of order)). split; [|split].
    + apply inj_on_same. eapply inj_on_perm; [exact Hp|]. apply mapping_of_inj; auto.
    + unfold rebuild. cbn [gnodes]. rewrite gnodes_relabel_as_ids by auto. apply Permutation_map. exact Hp.
    + reflexivity.
  - unfold rebuild, node_ids. cbv zeta. cbn [gnodes]. rewrite map_map.
    rewrite (map_ext _ (apply_map (mapping_of order))) by reflexivity.
    rewrite (mapping_of_map order Hndo). f_equal. f_equal.
    rewrite (Permutation_length Hp). unfold node_ids. apply map_length.
Qed.

Lemma generic_order_perm (g : graph) : Permutation (map fst (sort_by nkey_id (gnodes g))) (node_ids g).
Proof. unfold node_ids. apply Permutation_map. apply sort_by_perm. Qed.

Theorem faithful_generic (g : graph) : NoDup (node_ids g) -> faithful g (canon_generic g).
Proof. intros H. apply rebuild_spec; auto. apply generic_order_perm. Qed.
Theorem onto_generic (g : graph) : NoDup (node_ids g) -> onto_1N g (canon_generic g).
Proof.
  intros H. unfold onto_1N. destruct (rebuild_spec g _ H (generic_order_perm g)) as [_ E].
  unfold canon_generic. rewrite E. apply Permutation_refl.
Qed.

(* wl / morgan: whatever ranks the colour oracle returns *)
Theorem faithful_rank (ranks : list (N * Z)) (g : graph) : NoDup (node_ids g) -> faithful g (canon_rank ranks g).
Proof. intros H. apply rebuild_spec; auto. apply sort_by_perm. Qed.
Theorem onto_rank (ranks : list (N * Z)) (g : graph) : NoDup (node_ids g) -> onto_1N g (canon_rank ranks g).
Proof.
  intros H. unfold onto_1N, canon_rank.
  match goal with |- context [rebuild g ?o] => destruct (rebuild_spec g o H (sort_by_perm _ (node_ids g))) as [_ E] end.
  rewrite E. apply Permutation_refl.
Qed.

(* non-vacuity *)
Definition ex_g : graph :=
  LG [(7%N, NA [67%N] false 0 0 None); (3%N, NA [79%N] false 0 1 None); (5%N, NA [67%N] false 0 0 None)]
     [(7%N, 3%N, EA 2 None); (5%N, 3%N, EA 4 None)].
Example ex_generic_ids : node_ids (canon_generic ex_g) = [1%N; 2%N; 3%N] /\ NoDup (node_ids ex_g).
Proof. split; [vm_compute; reflexivity|]. repeat constructor; simpl; intuition discriminate. Qed.
Example ex_rank_ids : node_ids (canon_rank [(7%N, 1%Z); (3%N, 0%Z); (5%N, 1%Z)] ex_g) = [1%N; 2%N; 3%N].
Proof. vm_compute. reflexivity. Qed.
