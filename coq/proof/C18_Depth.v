(** C18 — max_depth (model/C18_DepthModel.v): without the option the depth-bounded search is the search of the base model;
    whenever it does not report an early stop its answer is the exact one; a bound of at least the number of nodes never stops
    early. *)
From Coq Require Import List NArith ZArith Bool Arith Lia Permutation.
From SK Require Import lib.IRSortKeys lib.IRCore lib.IRSearch lib.C18_IRValid model.C18_Model model.C18_DepthModel
  proof.C18_Order proof.C18_Spec proof.C18_Graph proof.C18_Canon.
From SK Require lib.IRInst.
Import ListNotations.

Lemma pruned_no_bound (a : acc (list N)) pre : pruned lexlebN no_bound a pre = false.
Proof.
  unfold pruned, no_bound. destruct (fst a) as [[bl bp]|]; auto.
  unfold ltb. rewrite lexlebN_nil. simpl. apply andb_false_r.
Qed.

(** if the bounded search did not stop early it computed what the unbounded search computes *)
Theorem search_md_exact g rf md : forall fuel depth P pre a,
  snd (search_md g rf md fuel depth P pre a) = false ->
  fst (search_md g rf md fuel depth P pre a) = search lexleb (sig g) rf lexlebN (label g) no_bound fuel P pre a.
Proof.
  induction fuel as [|f IH]; intros depth P pre a; [reflexivity|].
  cbn [search_md search]. destruct (exceeded depth md); [discriminate|].
  destruct (first_big (refine lexleb (sig g) rf P)) as [i|]; [|reflexivity].
  generalize (nth i (refine lexleb (sig g) rf P) []) as vs. intros vs. revert a.
  induction vs as [|v vs IHvs]; intros a; [reflexivity|].
  cbn [fold_left]. rewrite pruned_no_bound.
  destruct (snd (search_md g rf md f (S depth) (individualise (refine lexleb (sig g) rf P) i v) (pre ++ [v]) a)) eqn:E; [discriminate|].
  intros H. rewrite (IH _ _ _ _ E) in H |- *. apply IHvs. exact H.
Qed.

(** no bound: never early, same result *)
Theorem search_md_none g rf : forall fuel depth P pre a,
  search_md g rf None fuel depth P pre a = (search lexleb (sig g) rf lexlebN (label g) no_bound fuel P pre a, false).
Proof.
  induction fuel as [|f IH]; intros depth P pre a; [reflexivity|].
  cbn [search_md search exceeded].
  destruct (first_big (refine lexleb (sig g) rf P)) as [i|]; [|reflexivity].
  generalize (nth i (refine lexleb (sig g) rf P) []) as vs. intros vs. revert a.
  induction vs as [|v vs IHvs]; intros a; [reflexivity|].
  cbn [fold_left]. rewrite pruned_no_bound, IH. cbn [fst snd]. apply IHvs.
Qed.

(** a bound of at least the number of nodes is never exceeded: along a branch every individualisation adds a cell and a
    partition of n nodes has at most n cells *)
Theorem search_md_enough g rf d nodes : NoDup nodes -> length nodes <= d -> forall fuel depth P pre a,
  vpart nodes P -> depth <= length P -> snd (search_md g rf (Some d) fuel depth P pre a) = false.
Proof.
  intros Hnd Hd. induction fuel as [|f IH]; intros depth P pre a HP Hdep; [reflexivity|].
  cbn [search_md exceeded].
  pose proof (vpart_length nodes P HP) as Hlen.
  destruct (Nat.ltb_spec d depth) as [Hlt|_]; [lia|].
  pose proof (refine_vpart _ lexleb IRInst.lexleb_total (fun a b c H1 H2 => IRInst.lexleb_trans a b c H1 H2) IRInst.lexleb_antisym
                (sig g) nodes rf P HP) as HP'.
  pose proof (refine_length _ lexleb (sig g) rf P) as Hl.
  destruct (first_big (refine lexleb (sig g) rf P)) as [i|] eqn:Efb; [|reflexivity].
  assert (Hin : forall v, In v (nth i (refine lexleb (sig g) rf P) []) -> In v (nth i (refine lexleb (sig g) rf P) [])) by auto.
  revert Hin. generalize (nth i (refine lexleb (sig g) rf P) []) at 1 3 as vs. intros vs. revert a.
  induction vs as [|v vs IHvs]; intros a Hin; [reflexivity|].
  destruct (individualise_props nodes _ i v Hnd HP' Efb (Hin v (or_introl eq_refl))) as [HPi Hli].
  rewrite (IH (S depth) _ (pre ++ [v]) a HPi) by (rewrite Hli; lia).
  apply IHvs. intros w Hw. apply Hin. right. exact Hw.
Qed.

(* ---------------- statements about the canonicaliser ---------------- *)
Theorem canon_md_none g : canon_search_md g None = (canon_search g, false).
Proof. apply search_md_none. Qed.

Theorem canon_md_exact g md : snd (canon_search_md g md) = false -> fst (canon_search_md g md) = canon_search g.
Proof. apply search_md_exact. Qed.

Theorem canon_md_enough g d : wf g -> length (vnodes g) <= d -> canon_search_md g (Some d) = (canon_search g, false).
Proof.
  intros Hw Hd.
  assert (E : snd (canon_search_md g (Some d)) = false).
  { unfold canon_search_md. apply (search_md_enough g _ d (node_ids g)); [apply Hw| |apply init_part_vpart; apply Hw|lia].
    unfold node_ids. rewrite map_length. exact Hd. }
  pose proof (canon_md_exact g (Some d) E) as H. destruct (canon_search_md g (Some d)) as [r e]. simpl in *. subst. reflexivity.
Qed.
