(** C20 — siphon_persistence_condition (model/C20_Persist.v): the verdict is exactly "every reported siphon contains a
    non-empty support", the reported siphons being the minimal siphons characterised in proof/C20_Siphon.v. *)
From Coq Require Import ZArith List Bool Arith Lia.
Import ListNotations.
From SK Require Import model.C20_Model model.C20_Persist proof.C20_Spec proof.C20_Siphon.
Require SK.lib.Tok.

Lemma nonempty_spec T : nonempty T = true <-> T <> [].
Proof. destruct T; simpl; split; congruence. Qed.

Theorem persistence_verdict_spec siphons supports :
  persistence_verdict siphons supports = true <->
  (forall S, In S siphons -> exists T, In T supports /\ T <> [] /\ incl T S).
Proof.
  unfold persistence_verdict. destruct siphons as [|S0 siphons].
  - split; auto. intros _ S [].
  - destruct (filter nonempty supports) as [|T0 sup] eqn:Ef.
    + split; [discriminate|]. intros H. destruct (H S0 (or_introl eq_refl)) as [T [HT [Hne _]]].
      assert (Hin : In T (filter nonempty supports)) by (apply filter_In; split; auto; now apply nonempty_spec).
      rewrite Ef in Hin. destruct Hin.
    + rewrite <- Ef. rewrite forallb_forall. split.
      * intros H S HS. specialize (H S HS). apply existsb_exists in H as [T [HT Hsub]].
        apply filter_In in HT as [HT Hne]. exists T. split; auto. split; [now apply nonempty_spec|now apply subset_spec].
      * intros H S HS. destruct (H S HS) as [T [HT [Hne Hincl]]]. apply existsb_exists. exists T. split.
        -- apply filter_In. split; auto. now apply nonempty_spec.
        -- now apply subset_spec.
Qed.

(** on the export of a network with species and reactions the function answers, and its answer is the set condition over
    the siphons that find_siphons reports (by find_siphons_spec: exactly the minimal non-empty siphons of at most max_size
    members) *)
Theorem persistence_condition_spec n rs max_size supports :
  wf_net n rs -> n <> 0 -> rs <> [] ->
  exists sip b, find_siphons (bipartite_of n rs) max_size = Some sip /\
    siphon_persistence_condition (bipartite_of n rs) max_size supports = Some b /\
    (b = true <-> forall S, In S sip -> exists T, In T supports /\ T <> [] /\ incl T S).
Proof.
  intros Hwf Hn Hrs. destruct (find_siphons_spec n rs max_size Hwf Hn Hrs) as [sip [Hs _]].
  exists sip, (persistence_verdict sip supports). split; auto. split.
  - unfold siphon_persistence_condition. now rewrite Hs.
  - apply persistence_verdict_spec.
Qed.

(** non-vacuity: A -> B, B -> A has the single minimal siphon {A, B}; the conservation law A + B (support {0, 1}) lies in
    it; a basis whose only support were {0, 2} would not *)
Example persistence_example :
  let rs := [([(0, 1%Z)], [(1, 1%Z)]); ([(1, 1%Z)], [(0, 1%Z)])] in
  find_siphons (bipartite_of 2 rs) None = Some [[0; 1]] /\
  siphon_persistence_condition (bipartite_of 2 rs) None [[0; 1]] = Some true /\
  siphon_persistence_condition (bipartite_of 2 rs) None [[]; [0; 2]] = Some false /\
  siphon_persistence_condition (bipartite_of 2 rs) None [] = Some false /\
  siphon_persistence_condition (bipartite_of 0 []) None [[0]] = None.
Proof. vm_compute. repeat split; reflexivity. Qed.

(** the observable [run_net_p] (which let-binds the two siphon enumerations to evaluate them once) is [run_net] followed by the two
    verdicts of [siphon_persistence_condition] *)
Lemma run_net_p_is_run_net n rs und k cands order sup :
  run_net_p n rs und k cands order sup =
  let G0 := with_species_order order (bipartite_of n rs) in
  let G := if und then orient_undirected (undirected_view G0) else G0 in
  match run_net n rs und k cands order with
  | SK.lib.Tok.L l => if split_ok G then SK.lib.Tok.L (l ++ [SK.lib.Tok.L [SK.lib.Tok.topt SK.lib.Tok.tbool (siphon_persistence_condition G None sup);
                                                      SK.lib.Tok.topt SK.lib.Tok.tbool (siphon_persistence_condition G (Some k) sup)]]) else SK.lib.Tok.L l
  | t => t
  end.
Proof.
  unfold run_net_p, run_graph_p, run_net, siphon_persistence_condition, persistence_of. cbv zeta.
  destruct (split_ok _); reflexivity.
Qed.

(* ------------------------------------------------------------------ the analyzer's persistence field *)
From SK Require Import proof.C20_Analyzer.

Fixpoint base_ops (ops : list anp_op) : list an_op :=
  match ops with
  | [] => []
  | PBase o :: r => o :: base_ops r
  | PCheck _ :: r => base_ops r
  | PAll _ :: r => AnCompute :: base_ops r
  end.

(** the network and the supports of the last successful check_persistence / compute_all ([acc] before the calls) *)
Fixpoint checked_for (cur : network) (acc : option (network * list (list nat))) (ops : list anp_op)
  : option (network * list (list nat)) :=
  match ops with
  | [] => acc
  | PBase (AnEdit n) :: r => checked_for n acc r
  | PBase _ :: r => checked_for cur acc r
  | PCheck sup :: r => checked_for cur (if computable cur then Some (cur, sup) else acc) r
  | PAll sup :: r => checked_for cur (if computable cur then Some (cur, sup) else acc) r
  end.

Definition persist_of (k : option nat) (acc : option (network * list (list nat))) : option bool :=
  match acc with
  | None => None
  | Some (net, sup) => siphon_persistence_condition (bipartite_of (fst net) (snd net)) k sup
  end.

Lemma an_step_net k st op :
  an_net (fst (an_step k st op)) = match op with AnEdit n => n | _ => an_net st end.
Proof.
  destruct op; simpl; auto.
  destruct (find_siphons _ k); simpl; auto. destruct (find_traps _ k); simpl; auto.
Qed.

Lemma spc_computable net k sup :
  (computable net = true -> exists b, siphon_persistence_condition (bipartite_of (fst net) (snd net)) k sup = Some b) /\
  (computable net = false -> siphon_persistence_condition (bipartite_of (fst net) (snd net)) k sup = None).
Proof.
  unfold computable, siphon_persistence_condition, find_siphons. split; intros H.
  - destruct (find_sets_some is_siphon_indices _ k H) as [s Hs]. rewrite Hs. eauto.
  - now rewrite (find_sets_none _ _ k H).
Qed.

Lemma an_compute_err k st :
  snd (an_step k st AnCompute) = AnErr <-> computable (an_net st) = false.
Proof.
  simpl. unfold computable. destruct (split_ok (bipartite_of (fst (an_net st)) (snd (an_net st)))) eqn:E.
  - destruct (find_sets_some is_siphon_indices _ k E) as [s Hs]. destruct (find_sets_some is_trap_indices _ k E) as [t Ht].
    unfold find_siphons, find_traps. rewrite Hs, Ht. simpl. split; discriminate.
  - unfold find_siphons. rewrite (find_sets_none _ _ k E). simpl. split; auto.
Qed.

Lemma anp_check_inv k st sup acc :
  anp_persist st = persist_of k acc ->
  anp_base (fst (anp_check k st sup)) = anp_base st /\
  anp_persist (fst (anp_check k st sup)) =
    persist_of k (if computable (an_net (anp_base st)) then Some (an_net (anp_base st), sup) else acc).
Proof.
  intros H. unfold anp_check.
  destruct (spc_computable (an_net (anp_base st)) k sup) as [H1 H2].
  destruct (computable (an_net (anp_base st))) eqn:E.
  - destruct (H1 eq_refl) as [b Hb]. rewrite Hb. simpl. split; auto.
  - rewrite (H2 eq_refl). simpl. split; auto.
Qed.

Lemma anp_step_inv k st op acc :
  anp_persist st = persist_of k acc ->
  anp_base (fst (anp_step k st op)) = an_exec k (anp_base st) (base_ops [op]) /\
  anp_persist (fst (anp_step k st op)) = persist_of k (checked_for (an_net (anp_base st)) acc [op]).
Proof.
  intros H. destruct op as [op|sup|sup].
  - destruct op as [| |n]; cbn [anp_step base_ops checked_for].
    + destruct (an_step k (anp_base st) AnCompute) as [b a] eqn:E. cbn [fst anp_base anp_persist].
      split; [|exact H]. unfold an_exec. cbn [fold_left]. now rewrite E.
    + split; [reflexivity|exact H].
    + destruct (an_step k (anp_base st) (AnEdit n)) as [b a] eqn:E. cbn [fst anp_base anp_persist].
      split; [|exact H]. unfold an_exec. cbn [fold_left]. now rewrite E.
  - simpl base_ops. simpl checked_for. destruct (anp_check_inv k st sup acc H) as [H1 H2]. simpl. split; auto.
  - cbn [anp_step base_ops checked_for].
    destruct (an_step k (anp_base st) AnCompute) as [b a] eqn:E.
    assert (Hb : b = an_exec k (anp_base st) [AnCompute]) by (unfold an_exec; cbn [fold_left]; now rewrite E).
    assert (Hnet : an_net b = an_net (anp_base st)).
    { pose proof (an_step_net k (anp_base st) AnCompute) as Hn. rewrite E in Hn. exact Hn. }
    pose proof (an_compute_err k (anp_base st)) as Herr. rewrite E in Herr. simpl in Herr.
    destruct a.
    + destruct (computable (an_net (anp_base st))) eqn:Ec; [|exfalso; destruct Herr as [_ Hx]; discriminate (Hx eq_refl)].
      destruct (anp_check_inv k (ANP b (anp_persist st)) sup acc H) as [H1 H2]. simpl in H1, H2.
      rewrite Hnet, Ec in H2. split; [rewrite H1; exact Hb|exact H2].
    + destruct (computable (an_net (anp_base st))) eqn:Ec; [|exfalso; destruct Herr as [_ Hx]; discriminate (Hx eq_refl)].
      destruct (anp_check_inv k (ANP b (anp_persist st)) sup acc H) as [H1 H2]. simpl in H1, H2.
      rewrite Hnet, Ec in H2. split; [rewrite H1; exact Hb|exact H2].
    + destruct Herr as [Hx _]. rewrite (Hx eq_refl). simpl. split; auto.
Qed.

Lemma an_exec_app k ops1 : forall st ops2, an_exec k st (ops1 ++ ops2) = an_exec k (an_exec k st ops1) ops2.
Proof. intros. unfold an_exec. apply fold_left_app. Qed.

Lemma last_net_single cur op : last_net cur [op] = match op with AnEdit n => n | _ => cur end.
Proof. destruct op; reflexivity. Qed.

Lemma anp_exec_inv k ops : forall st acc,
  anp_persist st = persist_of k acc ->
  anp_base (anp_exec k st ops) = an_exec k (anp_base st) (base_ops ops) /\
  anp_persist (anp_exec k st ops) = persist_of k (checked_for (an_net (anp_base st)) acc ops).
Proof.
  induction ops as [|op ops IH]; intros st acc H; [split; [reflexivity|exact H]|].
  change (anp_exec k st (op :: ops)) with (anp_exec k (fst (anp_step k st op)) ops).
  destruct (anp_step_inv k st op acc H) as [Hb Hp].
  destruct (IH _ _ Hp) as [Hb' Hp'].
  assert (Hnet : an_net (anp_base (fst (anp_step k st op))) =
                 match op with PBase (AnEdit n) => n | _ => an_net (anp_base st) end).
  { rewrite Hb. destruct op as [o|sup|sup]; simpl base_ops.
    - unfold an_exec. simpl. rewrite an_step_net. destruct o; reflexivity.
    - reflexivity.
    - unfold an_exec. simpl. destruct (find_siphons _ k); simpl; auto. destruct (find_traps _ k); simpl; auto. }
  split.
  - rewrite Hb', Hb. destruct op as [o|sup|sup]; reflexivity.
  - rewrite Hp', Hnet. destruct op as [o|sup|sup]; [destruct o|..]; reflexivity.
Qed.

(** after ANY history of compute / check / compute_all / read / edit calls on one analyzer: the siphon / trap fields are those of the
    base machine run on the projected history (so [main_analyzer_no_stale] applies to them), and the stored persistence verdict is
    exactly the verdict for the network AS IT WAS at the last successful check (with the semiflow supports computed then) — never an
    earlier one, never one for a network edited since *)
Theorem anp_no_stale k net0 ops :
  let st := anp_exec k (ANP (AN net0 None None) None) ops in
  anp_base st = an_exec k (AN net0 None None) (base_ops ops) /\
  anp_persist st = match checked_for net0 None ops with
                   | None => None
                   | Some (net, sup) => siphon_persistence_condition (bipartite_of (fst net) (snd net)) k sup
                   end.
Proof. intros st. exact (anp_exec_inv k ops (ANP (AN net0 None None) None) None eq_refl). Qed.

Lemma anp_run_app k ops1 : forall st ops2,
  anp_run k st (ops1 ++ ops2) = anp_run k st ops1 ++ anp_run k (anp_exec k st ops1) ops2.
Proof.
  induction ops1 as [|op ops1 IH]; intros st ops2; simpl; [reflexivity|].
  change (anp_exec k st (op :: ops1)) with (anp_exec k (fst (anp_step k st op)) ops1).
  destruct (anp_step k st op) as [st' a]. cbn [fst app]. now rewrite IH.
Qed.

Lemma anp_run_length k ops : forall st, length (anp_run k st ops) = length ops.
Proof.
  induction ops as [|op ops IH]; intros st; simpl; [reflexivity|].
  destruct (anp_step k st op). simpl. now rewrite IH.
Qed.

(** a read at any position returns the stored fields *)
Theorem anp_read k st ops1 ops2 :
  nth_error (anp_run k st (ops1 ++ PBase AnRead :: ops2)) (length ops1) =
  Some (let s := anp_exec k st ops1 in PRead (an_siphons (anp_base s)) (an_traps (anp_base s)) (anp_persist s)).
Proof.
  rewrite anp_run_app. rewrite nth_error_app2 by (rewrite anp_run_length; lia).
  rewrite anp_run_length, Nat.sub_diag. reflexivity.
Qed.

(** non-vacuity: A -> B checked (siphon {A}; the only conservation law has support {A, B}, not inside {A}: False); B -> A added to
    the same network: a read still shows False; compute_all on the edited network stores True *)
Example ex_analyzer_persistence :
  anp_run None (ANP (AN exa_net1 None None) None)
          [PBase AnRead; PCheck [[0; 1]]; PBase AnRead; PBase (AnEdit exa_net2); PBase AnRead; PAll [[0; 1]]; PBase AnRead] =
  [PRead None None None; PDone; PRead None None (Some false); PDone; PRead None None (Some false); PDone;
   PRead (Some [[0; 1]]) (Some [[0; 1]]) (Some true)].
Proof. vm_compute. reflexivity. Qed.
