(** C18 — the canonical graph is the view relabelled by a bijection onto k+1..k+n (C18_canon_iso), and equal canonical
    graphs force isomorphic views (C18_canon_complete). *)
From Coq Require Import List NArith ZArith Bool Arith Lia Permutation.
From SK Require Import lib.IRSortKeys lib.IRCore lib.IRSearch lib.C18_IRValid model.C18_Model
  proof.C18_Order proof.C18_Spec proof.C18_Graph.
From SK Require lib.IRInst.
Import ListNotations.

(* ---------------- orders ---------------- *)
Lemma Zleb_total a b : Z.leb a b = true \/ Z.leb b a = true.
Proof. destruct (Z.leb_spec a b); auto. right. apply Z.leb_le. lia. Qed.
Lemma Zleb_trans a b c : Z.leb a b = true -> Z.leb b c = true -> Z.leb a c = true.
Proof. rewrite !Z.leb_le. lia. Qed.
Lemma Zleb_antisym a b : Z.leb a b = true -> Z.leb b a = true -> a = b.
Proof. rewrite !Z.leb_le. lia. Qed.
Lemma Nleb_total a b : N.leb a b = true \/ N.leb b a = true.
Proof. destruct (N.leb_spec a b); auto. right. apply N.leb_le. lia. Qed.
Lemma Nleb_trans a b c : N.leb a b = true -> N.leb b c = true -> N.leb a c = true.
Proof. rewrite !N.leb_le. lia. Qed.
Lemma Nleb_antisym a b : N.leb a b = true -> N.leb b a = true -> a = b.
Proof. rewrite !N.leb_le. lia. Qed.
Lemma eqb_Zleb a b : eqb Z.leb a b = Z.eqb a b.
Proof. unfold eqb. destruct (Z.leb_spec a b), (Z.leb_spec b a), (Z.eqb_spec a b); auto; lia. Qed.

Lemma sortN_in l x : In x (sortN l) <-> In x l.
Proof. apply (sort_dedup_in N.leb Nleb_antisym). Qed.
Lemma sortN_nodup l : NoDup (sortN l).
Proof. apply (ssorted_NoDup _ N.leb Nleb_total). apply (sort_dedup_sorted N.leb Nleb_total Nleb_trans Nleb_antisym). Qed.
Lemma sortN_perm l : NoDup l -> Permutation (sortN l) l.
Proof. intros H. apply NoDup_Permutation; auto; [apply sortN_nodup|apply sortN_in]. Qed.

(* ---------------- the initial partition ---------------- *)
Lemma concat_perm_pointwise {A X} (F G : X -> list A) ks :
  (forall k, In k ks -> Permutation (F k) (G k)) -> Permutation (concat (map F ks)) (concat (map G ks)).
Proof. induction ks; simpl; intros H; auto. apply Permutation_app; auto. Qed.

Lemma kind_cell g k : NoDup (node_ids g) ->
  map fst (filter (fun p => Z.eqb (snd p) k) (vnodes g)) = filter (fun v => eqb Z.leb (kind_of g v) k) (node_ids g).
Proof.
  intros Hnd. unfold node_ids. apply map_filter_comm. intros [v k'] I. simpl.
  unfold kind_of. rewrite (kind_of_l_in _ v k' Hnd I). apply eqb_Zleb.
Qed.

Lemma init_part_vpart g : NoDup (node_ids g) -> vpart (node_ids g) (init_part g).
Proof.
  intros Hnd. unfold init_part. split.
  - eapply perm_trans.
    + apply (concat_perm_pointwise _ (fun k => filter (fun v => eqb Z.leb (kind_of g v) k) (node_ids g))).
      intros k _. rewrite kind_cell; auto. apply sortN_perm. apply NoDup_filter. auto.
    + rewrite concat_map_flat_map.
      apply (groups_perm _ Z.leb Zleb_total Zleb_antisym (kind_of g)).
      * apply (ssorted_NoDup _ Z.leb Zleb_total). apply (sort_dedup_sorted Z.leb Zleb_total Zleb_trans Zleb_antisym).
      * intros v Hv. apply (sort_dedup_in Z.leb Zleb_antisym).
        destruct (in_map_fst_ex _ _ Hv) as (k & Ik). unfold kind_of. rewrite (kind_of_l_in _ v k Hnd Ik).
        apply in_map_iff. exists (v, k). auto.
  - apply Forall_forall. intros c Hc. apply in_map_iff in Hc. destruct Hc as (k & <- & Hk).
    apply (proj1 (sort_dedup_in Z.leb Zleb_antisym _ _)) in Hk. apply in_map_iff in Hk. destruct Hk as ([v k'] & E & I).
    simpl in E. subst k'. intro E.
    assert (Hin : In v (sortN (map fst (filter (fun p => Z.eqb (snd p) k) (vnodes g))))).
    { apply sortN_in. apply in_map_iff. exists (v, k). split; auto. apply filter_In. split; auto. simpl. apply Z.eqb_refl. }
    rewrite E in Hin. contradiction.
Qed.

(* ---------------- what the fold of [visit] returns ---------------- *)
Section Fold.
Variable L : Type.
Variable leb : L -> L -> bool.
Variable label : list N -> L.
Lemma fold_visit_best l : forall a bl bp,
  (forall bl0 bp0, fst a = Some (bl0, bp0) -> bl0 = label bp0 /\ In bp0 l) ->
  fst (fold_left (visit leb label) l a) = Some (bl, bp) -> bl = label bp /\ In bp l.
Proof.
  assert (G : forall l' a bl bp, incl l' l ->
    (forall bl0 bp0, fst a = Some (bl0, bp0) -> bl0 = label bp0 /\ In bp0 l) ->
    fst (fold_left (visit leb label) l' a) = Some (bl, bp) -> bl = label bp /\ In bp l).
  { induction l' as [|p l' IH]; simpl; intros a bl bp Hi Ha H; [apply Ha; auto|].
    eapply IH; [intros x Hx; apply Hi; right; auto| |exact H].
    intros bl0 bp0. unfold visit. destruct (fst a) as [[b q]|] eqn:Ea.
    - destruct (ltb leb (label p) b); simpl.
      + intros E; inversion E; subst. split; auto. apply Hi. left. auto.
      + destruct (eqb leb (label p) b); simpl; rewrite ?Ea; intros E; inversion E; subst; apply Ha; auto.
    - simpl. intros E; inversion E; subst. split; auto. apply Hi. left. auto. }
  intros a bl bp. apply G. apply incl_refl.
Qed.
Lemma fold_visit_some l : forall a, (l <> [] \/ fst a <> None) -> fst (fold_left (visit leb label) l a) <> None.
Proof.
  induction l as [|p l IH]; simpl; intros a [H|H]; try congruence.
  - apply IH. right. unfold visit. destruct (fst a) as [[b q]|] eqn:Ea; simpl; [|discriminate].
    destruct (ltb leb (label p) b); simpl; [discriminate|]. destruct (eqb leb (label p) b); simpl; rewrite ?Ea; discriminate.
  - apply IH. right. unfold visit. destruct (fst a) as [[b q]|] eqn:Ea; simpl; [|discriminate].
    destruct (ltb leb (label p) b); simpl; [discriminate|]. destruct (eqb leb (label p) b); simpl; rewrite ?Ea; discriminate.
Qed.
End Fold.

(* ---------------- leaves of the model ---------------- *)
Lemma lexleb_total : forall a b, IRInst.lexleb a b = true \/ IRInst.lexleb b a = true.
Proof. exact IRInst.lexleb_total. Qed.

Lemma leaves_of_shape g p : wf g -> In p (leaves_of g) ->
  exists pre r, p = pre ++ r /\ Permutation r (node_ids g).
Proof.
  intros (Hnd & _) Hin. unfold leaves_of in Hin.
  destruct (leaves_shape _ IRInst.lexleb IRInst.lexleb_total
              (fun a b c H1 H2 => IRInst.lexleb_trans a b c H1 H2) IRInst.lexleb_antisym
              (sig g) _ (node_ids g) Hnd _ _ _ _ (init_part_vpart g Hnd) Hin) as (ext & r & -> & Hr & _).
  exists ext, r. auto.
Qed.

Lemma leaves_of_nonempty g : wf g -> leaves_of g <> [].
Proof.
  intros (Hnd & _). unfold leaves_of.
  apply (leaves_nonempty _ IRInst.lexleb IRInst.lexleb_total
              (fun a b c H1 H2 => IRInst.lexleb_trans a b c H1 H2) IRInst.lexleb_antisym
              (sig g) _ (node_ids g) Hnd); [apply init_part_vpart; auto|].
  unfold node_ids. rewrite map_length. lia.
Qed.

Lemma best_is_leaf g lab perm : fst (canon_search g) = Some (lab, perm) -> lab = label g perm /\ In perm (leaves_of g).
Proof.
  rewrite canon_search_fold. apply fold_visit_best. simpl. intros; discriminate.
Qed.

Theorem canon_found g : wf g -> fst (canon_search g) <> None.
Proof.
  intros Hw. rewrite canon_search_fold. apply fold_visit_some. left. apply leaves_of_nonempty. auto.
Qed.

(* ---------------- (1) the canonical graph is an isomorphic copy ---------------- *)
Theorem canon_iso g lab perm : wf g -> fst (canon_search g) = Some (lab, perm) ->
  canon_graph g perm = relabel (cid perm) g /\
  inj_on (cid perm) (node_ids g) /\
  (exists k, Permutation (node_ids (canon_graph g perm)) (map N.of_nat (seq (S k) (length (vnodes g))))) /\
  wf (canon_graph g perm) /\
  (forall v, In v (node_ids g) -> kind_of (canon_graph g perm) (cid perm v) = kind_of g v) /\
  (forall u v, In u (node_ids g) -> In v (node_ids g) ->
     find_arc (canon_graph g perm) (cid perm u) (cid perm v) = find_arc g u v).
Proof.
  intros Hw Hb. destruct (best_is_leaf g lab perm Hb) as [_ Hl].
  destruct (leaves_of_shape g perm Hw Hl) as (pre & r & -> & Hr).
  assert (Hndr : NoDup r) by (eapply Permutation_NoDup; [apply Permutation_sym; exact Hr|apply Hw]).
  pose proof (cid_inj_on pre r (node_ids g) Hndr Hr) as Hinj.
  change (canon_graph g (pre ++ r)) with (relabel (cid (pre ++ r)) g).
  split; [reflexivity|]. split; [exact Hinj|]. split; [|split; [|split]].
  - exists (length pre). rewrite node_ids_relabel.
    replace (length (vnodes g)) with (length (node_ids g)) by (unfold node_ids; apply map_length).
    apply cid_range; auto.
  - apply wf_relabel; auto.
  - intros v Hv. apply kind_of_relabel; auto.
  - intros u v Hu Hv. apply find_arc_relabel; auto.
Qed.

Corollary canon_iso_iso g lab perm : wf g -> fst (canon_search g) = Some (lab, perm) -> iso g (canon_graph g perm).
Proof.
  intros Hw Hb. destruct (canon_iso g lab perm Hw Hb) as (E & Hinj & _).
  exists (cid perm). split; auto. rewrite E. apply geq_refl.
Qed.

(* ---------------- (3) completeness ---------------- *)
Theorem canon_complete g1 g2 l1 p1 l2 p2 : wf g1 -> wf g2 ->
  fst (canon_search g1) = Some (l1, p1) -> fst (canon_search g2) = Some (l2, p2) ->
  geq (canon_graph g1 p1) (canon_graph g2 p2) -> iso g1 g2.
Proof.
  intros W1 W2 B1 B2 Hg.
  eapply iso_trans; [apply (canon_iso_iso g1 l1 p1 W1 B1)|].
  eapply iso_trans; [apply geq_iso; exact Hg|].
  apply iso_sym; auto. apply (canon_iso_iso g2 l2 p2 W2 B2).
Qed.
