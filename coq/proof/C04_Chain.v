(** C04 — the whole chain through the reactor object (model/C04_Reactor.v) for the exhaustive strategy in implicit mode:
    own substrate -> find_subgraph_mappings (C06's call interface on the VF2 contract) -> pruning by the automorphisms
    of the rule (C11's prune on the canonical codes) -> _glue_graph -> its_list -> smarts_list.
    Composes identity_among_raw (proof/C04_Engine.v) with pruned_results (proof/C04_Prune.v). *)
From Coq Require Import List NArith ZArith Bool Arith Lia Permutation SetoidList.
From SK Require Import lib.Tok lib.LGraph lib.Mono model.C06_Model lib.C06_Spec proof.C06_All model.C11_Model.
From SK Require Import model.C03_Model model.C04_Model model.C04_Reactor proof.C03_Proof proof.C04_Glue proof.C04_Template proof.C04_Proof
                       proof.C04_Engine proof.C04_Prune proof.C04_Object.
Import ListNotations.
Local Open Scope Z_scope.

(** * the canonical codes are faithful *)
Lemma list_eqb_N a : forall b, list_eqb N.eqb a b = true -> a = b.
Proof.
  induction a as [|x a IH]; intros [|y b] E; simpl in E; try discriminate; [reflexivity|].
  apply andb_prop in E. destruct E as [E1 E2]. apply N.eqb_eq in E1. rewrite E1, (IH b E2). reflexivity.
Qed.
Lemma nattr_eqb_eq x y : nattr_eqb x y = true -> x = y.
Proof.
  unfold nattr_eqb. intros E. apply andb_prop in E. destruct E as [E E5]. apply andb_prop in E. destruct E as [E E4].
  apply andb_prop in E. destruct E as [E E3]. apply andb_prop in E. destruct E as [E1 E2].
  apply N.eqb_eq in E1. apply Bool.eqb_prop in E2. apply Z.eqb_eq in E3. apply Z.eqb_eq in E4. apply list_eqb_N in E5.
  destruct x, y; simpl in *. subst. reflexivity.
Qed.
Lemma inode_eqb_tuples a b : inode_eqb a b = true -> iG a = iG b /\ iH a = iH b.
Proof.
  unfold inode_eqb. intros E. apply andb_prop in E. destruct E as [E _]. apply andb_prop in E. destruct E as [E1 E2].
  split; apply nattr_eqb_eq; assumption.
Qed.
Lemma iedge_eqb_eq x z : iedge_eqb x z = true -> x = z.
Proof.
  unfold iedge_eqb, eG, eH, eS. intros E. apply andb_prop in E. destruct E as [E E3]. apply andb_prop in E. destruct E as [E1 E2].
  apply Z.eqb_eq in E1. apply Z.eqb_eq in E2. apply Z.eqb_eq in E3. destruct x as [[x1 x2] x3], z as [[z1 z2] z3]; simpl in *. subst. reflexivity.
Qed.
Lemma list_eqb_N_refl a : list_eqb N.eqb a a = true.
Proof. induction a as [|x a IH]; simpl; [reflexivity|]. rewrite N.eqb_refl. exact IH. Qed.
Lemma nattr_eqb_refl x : nattr_eqb x x = true.
Proof. unfold nattr_eqb. rewrite N.eqb_refl, Bool.eqb_reflx, !Z.eqb_refl, list_eqb_N_refl. reflexivity. Qed.
Lemma inode_eqb_refl a : inode_eqb a a = true.
Proof.
  unfold inode_eqb. rewrite !nattr_eqb_refl. simpl. destruct (i_hp a) as [hp|]; simpl; [apply list_eqb_N_refl|reflexivity].
Qed.
Lemma iedge_eqb_refl x : iedge_eqb x x = true.
Proof. unfold iedge_eqb. rewrite !Z.eqb_refl. reflexivity. Qed.

(** [index_where] returns the position of an element that satisfies the test, whenever one does *)
Lemma index_where_hit {X} (f : X -> bool) (l : list X) : forall i, (exists x, In x l /\ f x = true) ->
  exists y, nth_error l (N.to_nat (index_where f l i - i)) = Some y /\ f y = true /\ (i <= index_where f l i)%N.
Proof.
  induction l as [|x r IH]; intros i (z & Iz & Fz); [destruct Iz|]. simpl.
  destruct (f x) eqn:Fx.
  - exists x. rewrite N.sub_diag. simpl. split; [reflexivity|]. split; [exact Fx|lia].
  - destruct Iz as [->|Iz]; [congruence|].
    destruct (IH (N.succ i) (ex_intro _ z (conj Iz Fz))) as (y & Ey & Fy & Hle).
    exists y. split; [|split; [exact Fy|lia]].
    replace (N.to_nat (index_where f r (N.succ i) - i)) with (S (N.to_nat (index_where f r (N.succ i) - N.succ i))) by lia.
    simpl. exact Ey.
Qed.

Lemma canon_faithful (t : its) : faithful (cn_of t) (ce_of t) t.
Proof.
  split.
  - intros n a n' b Ia Ib E. unfold cn_of in E.
    destruct (index_where_hit (fun p : N * inode => inode_eqb (snd p) a) (gnodes t) 0%N) as (y & Ey & Fy & _).
    { exists (n, a). split; [exact Ia|]. simpl. apply inode_eqb_refl. }
    destruct (index_where_hit (fun p : N * inode => inode_eqb (snd p) b) (gnodes t) 0%N) as (y' & Ey' & Fy' & _).
    { exists (n', b). split; [exact Ib|]. simpl. apply inode_eqb_refl. }
    rewrite E in Ey. rewrite Ey in Ey'. inversion Ey'; subst y'.
    destruct (inode_eqb_tuples _ _ Fy) as [A1 A2]. destruct (inode_eqb_tuples _ _ Fy') as [B1 B2]. split; congruence.
  - intros u v x u' v' z Ix Iz E. unfold ce_of in E.
    destruct (index_where_hit (fun e : N * N * iedge => iedge_eqb (snd e) x) (gedges t) 0%N) as (y & Ey & Fy & _).
    { exists (u, v, x). split; [exact Ix|]. simpl. apply iedge_eqb_refl. }
    destruct (index_where_hit (fun e : N * N * iedge => iedge_eqb (snd e) z) (gedges t) 0%N) as (y' & Ey' & Fy' & _).
    { exists (u', v', z). split; [exact Iz|]. simpl. apply iedge_eqb_refl. }
    rewrite E in Ey. rewrite Ey in Ey'. inversion Ey'; subst y'.
    apply iedge_eqb_eq in Fy. apply iedge_eqb_eq in Fy'. congruence.
Qed.

(** * membership in the list the object builds *)
Lemma in_concat_mapi {X Y} (f : nat -> X -> list Y) (l : list X) (m : X) (y : Y) :
  (forall i, In y (f i m)) -> In m l -> In y (concat (mapi f l)).
Proof.
  intros Hf. unfold mapi. generalize 0%nat. induction l as [|x r IH]; intros k I; [destruct I|]. simpl.
  apply in_or_app. destruct I as [->|I]; [left; apply Hf|right; apply IH; exact I].
Qed.

Lemma in_mapi_from_nth {X Y} (f : nat -> X -> Y) (l : list X) : forall i k x, nth_error l i = Some x -> In (f (k + i)%nat x) (mapi_from f k l).
Proof.
  induction l as [|y r IH]; intros i k x E; [destruct i; discriminate|].
  destruct i as [|i]; simpl in E.
  - inversion E; subst y. simpl. rewrite Nat.add_0_r. left. reflexivity.
  - simpl. right. replace (k + S i)%nat with (S k + i)%nat by lia. apply IH. exact E.
Qed.
Lemma in_mapi_nth {X Y} (f : nat -> X -> Y) (l : list X) i x : nth_error l i = Some x -> In (f i x) (mapi f l).
Proof. intros E. exact (in_mapi_from_nth f l i 0 x E). Qed.

Section Chain.
  Variable enum : list N -> list N -> list C06_Model.mapping.
  Variable rematch : nat -> hostg -> molg -> list C03_Model.mapping.
  Variable ser : nat -> its -> option bytes * option bytes.
  Variables (core invert : bool) (G H : hostg).
  Variable thr : option N.
  Hypothesis W : pair_wfb G H = true.
  Hypothesis NH : no_explicit_H G = true.
  Hypothesis CC : core = true -> centre_carries (its_construct G H) = true.
  Let A := if invert then H else G.
  Let B := if invert then G else H.
  Let tpl := template core invert G H.
  Let left := dec_side iG eG tpl.
  Let rule : triple := (tpl, left, dec_side iH eH tpl).
  Let host := substrate invert G H.
  (** the reactor for the reaction's own template in implicit mode, exhaustive strategy, no pre-filter *)
  Let o := own_opts invert false (SMember 0%N) thr false.
  (** hydrogen counts of the pattern are not negative (boolean evaluated by the correspondence) *)
  Hypothesis Hnn : forallb (fun p => 0 <=? m_hc (snd p)) (gnodes (pattern_of left)) = true.
  (** C06's contract for the one VF2 enumeration the exhaustive strategy makes; the number of matches does not exceed the
      threshold (embed_threshold, default 5000: beyond it the engine returns nothing, by design) *)
  Hypothesis Hvf2 : vf2_contract enum (tr_host host) (tr_pat (pattern_of left))
                                 (node_ids (tr_host host)) (node_ids (tr_pat (pattern_of left))).
  Hypothesis Hthr : (lenN (enum (node_ids (tr_host host)) (node_ids (tr_pat (pattern_of left)))) <= dflt DEFAULT_THRESHOLD thr)%N.

  Lemma rule_eq : rule_of core invert G H = Some rule.
  Proof. exact (rule_is_template core invert G H W NH). Qed.

  Lemma engine_result :
    api_engine enum (o_strategy o) (o_thr o) (o_pref o) (tr_host host) (tr_pat (pattern_of left)) =
    Result (C06_Model.find enum (Cfg 0 0 (dflt DEFAULT_THRESHOLD thr) true false) (tr_host host) (tr_pat (pattern_of left))).
  Proof. reflexivity. Qed.

  Theorem chain_mappings :
    exists ms T, compute_mappings (api_engine enum) o host rule = Some ms /\
                 In (Some T) (its_list core invert G H ms) /\ regen_exact T A B = true.
  Proof.
    set (raw := C06_Model.find enum (Cfg 0 0 (dflt DEFAULT_THRESHOLD thr) true false) (tr_host host) (tr_pat (pattern_of left))).
    exists (C11_Model.prune (fun m : C03_Model.mapping => m) (rule_graph tpl) raw).
    assert (PL : pattern_of left = left) by exact (pattern_is_left core invert G H W NH).
    assert (PI : node_ids left = node_ids tpl) by exact (pattern_ids core invert G H).
    destruct (all_exact enum (dflt DEFAULT_THRESHOLD thr) true (tr_host host) (tr_pat (pattern_of left)) Hvf2 Hthr) as (Hsound & _ & _).
    destruct (identity_among_raw core invert G H enum (dflt DEFAULT_THRESHOLD thr) true tpl left (dec_side iH eH tpl) W NH rule_eq Hnn Hvf2 Hthr)
      as (m0 & I0 & P0).
    destruct (pruned_results_all (cn_of tpl) (ce_of tpl) core invert G H raw (canon_faithful tpl) W NH CC) as (T & IT & RT).
    - intros m Im. destruct (Hsound m Im) as (K1 & K2 & K3 & _). split; [exact K1|]. split; [exact K3|].
      intros p h Iph. fold tpl. rewrite <- PI, <- PL, <- tr_pat_ids. apply K2. change p with (fst (p, h)). apply in_map. exact Iph.
    - exists m0. split; [exact I0|]. fold tpl. rewrite <- PI, <- PL. exact P0.
    - exists T. split; [|split; [exact IT|exact RT]].
      unfold compute_mappings. cbn [fst snd rule]. rewrite engine_result. reflexivity.
  Qed.

  (** the same through the object: a fresh reactor's its_list contains an ITS that decomposes to the reaction *)
  Theorem chain_its :
    exists gs T, fst (read_its (api_engine enum) rematch o host rule fresh) = Some gs /\ In T gs /\ regen_exact T A B = true.
  Proof.
    destruct chain_mappings as (ms & T & Em & IT & RT).
    assert (Hf : has_XH left = false).
    { pose proof (pattern_is_left core invert G H W NH) as PL. fold tpl in PL. fold left in PL. unfold pattern_of in PL.
      destruct (has_XH left) eqn:E; [|reflexivity]. exfalso.
      unfold has_XH in E. apply existsb_exists in E. destruct E as ([[u v] x] & _ & Hx).
      rewrite !(left_no_H core invert G H W NH) in Hx. discriminate. }
    exists (concat (mapi (glue_graph rematch host rule false) ms)), T.
    split; [|split; [|exact RT]].
    - unfold read_its, read_mappings. cbn [fresh s_its s_maps s_flag s_smarts]. rewrite Em. cbn [fst snd rule s_flag orb].
      rewrite Hf. reflexivity.
    - unfold its_list in IT. rewrite rule_eq in IT. unfold rule in IT.
      rewrite (mode_implicit G H W NH) in IT. apply in_map_iff in IT. destruct IT as (m & Eg & Im).
      apply (in_concat_mapi (glue_graph rematch host rule false) ms m T); [|exact Im].
      assert (Eg2 : glue host tpl m = Some T).
      { unfold finish in Eg. fold host in Eg. fold tpl in Eg. destruct (glue host tpl m); [exact Eg|discriminate]. }
      intros i. unfold glue_graph. cbn [fst snd rule]. simpl. rewrite Eg2. left. reflexivity.
  Qed.

  (** ... and, if RDKit writes its two sides as [r] and [p], smarts_list contains the reaction (reversed back when the
      reactor runs backwards) *)
  Theorem chain_smarts :
    exists gs T, fst (read_its (api_engine enum) rematch o host rule fresh) = Some gs /\ In T gs /\ regen_exact T A B = true /\
      forall i r p, nth_error gs i = Some T -> ser i T = (Some r, Some p) -> r ++ arrow ++ p <> [] -> no_gt r -> no_gt p ->
        exists ss, fst (read_smarts (api_engine enum) rematch ser o host rule fresh) = Some ss /\
                   In (if invert then p ++ arrow ++ r else r ++ arrow ++ p) ss.
  Proof.
    destruct chain_its as (gs & T & Ei & IT & RT). exists gs, T. split; [exact Ei|]. split; [exact IT|]. split; [exact RT|].
    intros i r p En Es Hne Hr Hp.
    exists (smarts_of ser o gs). split.
    - unfold read_smarts. cbn [fresh s_smarts]. destruct (read_its (api_engine enum) rematch o host rule fresh) as [og st1].
      simpl in Ei. subst og. reflexivity.
    - unfold smarts_of. cbn [o own_opts o_invert].
      assert (Hin : In (r ++ arrow ++ p) (flat_map truthy (mapi (fun i g => to_smarts (ser i g)) gs))).
      { apply in_flat_map. exists (Some (r ++ arrow ++ p)). split.
        - pose proof (in_mapi_nth (fun i g => to_smarts (ser i g)) gs i T En) as Q. simpl in Q. rewrite Es in Q. exact Q.
        - unfold truthy. destruct (r ++ arrow ++ p) as [|c s] eqn:E; [contradiction Hne; reflexivity|]. left. reflexivity. }
      destruct invert.
      + rewrite <- (reverse_reaction_swaps r p Hr Hp). apply in_map. exact Hin.
      + exact Hin.
  Qed.

  Theorem chain_full :
    rule_of core invert G H = Some rule /\
    exists gs T, fst (read_its (api_engine enum) rematch o host rule fresh) = Some gs /\ In T gs /\ regen_exact T A B = true /\
      forall i r p, nth_error gs i = Some T -> ser i T = (Some r, Some p) -> r ++ arrow ++ p <> [] -> no_gt r -> no_gt p ->
        exists ss, fst (read_smarts (api_engine enum) rematch ser o host rule fresh) = Some ss /\
                   In (if invert then p ++ arrow ++ r else r ++ arrow ++ p) ss.
  Proof. split; [exact rule_eq|exact chain_smarts]. Qed.
End Chain.
