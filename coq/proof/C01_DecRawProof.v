(** C01 — its_decompose on arbitrary ITS-shaped graphs (model/C01_DecRaw.v): on a well-formed ITS of the model it IS
    its_decompose (no node is created by add_edge, no edge is merged), and the node pass in closed form *)
From Coq Require Import List NArith ZArith Bool Lia.
From SK Require Import lib.LGraph lib.C01_GraphLemmas model.C01_Model model.C01_String model.C01_DecRaw proof.C01_Proof.
Import ListNotations.
Local Open Scope Z_scope.

Definition decE (se : iedge -> Z) (l : list (N * N * iedge)) : list (N * N * Z) :=
  flat_map (fun e : N * N * iedge => let '(u, v, x) := e in if 0 <? se x then [(u, v, se x)] else []) l.
Definition embE (l : list (N * N * iedge)) : list (N * N * option (Z * Z)) :=
  map (fun e : N * N * iedge => let '(u, v, x) := e in (u, v, Some (e_G x, e_H x))) l.

Lemma find_edge_decE_none se a b l : find_edge a b l = None -> find_edge a b (decE se l) = None.
Proof.
  induction l as [|[[u v] x] r IH]; [reflexivity|]. cbn [find_edge decE flat_map].
  destruct ((N.eqb u a && N.eqb v b) || (N.eqb u b && N.eqb v a)) eqn:M; [discriminate|]. intros E.
  fold (decE se r). destruct (0 <? se x); cbn [app find_edge]; [rewrite M|]; apply IH; exact E.
Qed.

Lemma ensure_o_present n ns : assoc n ns <> None -> ensure_o n ns = ns.
Proof. unfold ensure_o. destruct (assoc n ns); [reflexivity|congruence]. Qed.

Section Fold.
Variable se : iedge -> Z.
Variable sele : Z * Z -> Z.
Hypothesis Hsel : forall x, sele (e_G x, e_H x) = se x.
Variable ns : list (N * option gnode).

Lemma raw_fold l2 : forall l1,
  (forall a b x, In (a, b, x) l2 -> assoc a ns <> None /\ assoc b ns <> None) ->
  (forall p a b x q, l1 ++ l2 = p ++ (a, b, x) :: q -> find_edge a b p = None) ->
  fold_left (raw_edge_step sele) (embE l2) (LG ns (decE se l1)) = LG ns (decE se (l1 ++ l2)).
Proof.
  induction l2 as [|[[u v] x] r IH]; intros l1 Hn Hs.
  - rewrite app_nil_r. reflexivity.
  - cbn [embE map fold_left raw_edge_step]. rewrite Hsel.
    assert (decE se (l1 ++ [(u, v, x)]) = if 0 <? se x then decE se l1 ++ [(u, v, se x)] else decE se l1) as ED.
    { unfold decE. rewrite flat_map_app. cbn [flat_map]. destruct (0 <? se x); [reflexivity|]. rewrite !app_nil_r. reflexivity. }
    assert (find_edge u v (decE se l1) = None) as FN by (apply find_edge_decE_none; apply (Hs l1 u v x r); reflexivity).
    destruct (Hn u v x (or_introl eq_refl)) as [Au Av].
    assert ((if 0 <? se x then add_edge_o u v (se x) (LG ns (decE se l1)) else LG ns (decE se l1)) = LG ns (decE se (l1 ++ [(u, v, x)]))) as ->.
    { rewrite ED. destruct (0 <? se x); [|reflexivity]. unfold add_edge_o. cbn [gnodes gedges].
      rewrite (ensure_o_present u ns Au), (ensure_o_present v ns Av). unfold upsert_edge. rewrite FN. reflexivity. }
    fold (embE r). replace (l1 ++ (u, v, x) :: r) with ((l1 ++ [(u, v, x)]) ++ r) by (rewrite <- app_assoc; reflexivity).
    apply IH.
    + intros a b y I. apply (Hn a b y). right. exact I.
    + intros p a b y q E. apply (Hs p a b y q). rewrite <- app_assoc in E. exact E.
Qed.
End Fold.

Lemma assoc_map_some {V W} (f : N * V -> W) (l : list (N * V)) n :
  In n (map fst l) -> assoc n (map (fun p => (fst p, Some (f p))) l) <> None.
Proof.
  induction l as [|[k v] r IH]; cbn; [intros []|]. intros [->|I]; [rewrite N.eqb_refl; discriminate|].
  destruct (N.eqb n k); [discriminate|apply IH; exact I].
Qed.

Lemma dec_side_raw_embed sn se seln sele (I : its) : wf I ->
  (forall a, seln (i_G a, Some (i_H a)) = Some (sn a)) -> (forall x, sele (e_G x, e_H x) = se x) ->
  dec_side_raw seln sele (embed_its I) = some_nodes (dec_side sn se I).
Proof.
  intros W Hn He. unfold dec_side_raw, embed_its, some_nodes, dec_side. cbn [gnodes gedges].
  set (ns := map (fun p : N * gnode => (fst p, Some (snd p))) (map (fun p : N * inode => (fst p, dec_node (sn (snd p)) (fst p))) (gnodes I))).
  assert (raw_nodes seln (LG (map (fun p : N * inode => (fst p, Some (i_G (snd p), Some (i_H (snd p))))) (gnodes I))
                             (map (fun e : N * N * iedge => let '(u, v, x) := e in (u, v, Some (e_G x, e_H x))) (gedges I))) = ns) as ->.
  { unfold raw_nodes, ns. cbn [gnodes]. rewrite map_map. induction (gnodes I) as [|[k a] r IH]; [reflexivity|].
    cbn [map flat_map fst snd]. rewrite Hn. cbn [app]. f_equal. exact IH. }
  fold (embE (gedges I)). change (@nil (N * N * Z)) with (decE se []).
  rewrite (raw_fold se sele He ns (gedges I) []).
  - reflexivity.
  - intros a b x Ie. destruct (wf_edge_nodes W Ie) as (Ia & Ib & _). unfold ns. rewrite map_map. cbn [fst snd].
    split; apply (assoc_map_some (fun p : N * inode => dec_node (sn (snd p)) (fst p))); assumption.
  - intros p a b x q E. cbn [app] in E. destruct W as (_ & _ & W3). apply (W3 p a b x q E).
Qed.

(** C01_decompose_raw: on a well-formed ITS the branch-complete model is its_decompose *)
Theorem decompose_raw_embed (I : its) : wf I ->
  its_decompose_raw (embed_its I) = (some_nodes (fst (its_decompose I)), some_nodes (snd (its_decompose I))).
Proof.
  intros W. unfold its_decompose_raw, its_decompose. cbn [fst snd]. f_equal.
  - apply (dec_side_raw_embed i_G e_G); [exact W|reflexivity|reflexivity].
  - apply (dec_side_raw_embed i_H e_H); [exact W|reflexivity|reflexivity].
Qed.

(** the node pass: a node without typesGH is skipped on both sides, an empty product tuple skips the product side only *)
Theorem raw_nodes_spec (I : rits) n (o : option gnode) :
  (In (n, o) (raw_nodes (fun t => Some (fst t)) I) <-> exists g h, In (n, Some (g, h)) (gnodes I) /\ o = Some (dec_node g n)) /\
  (In (n, o) (raw_nodes snd I) <-> exists g h, In (n, Some (g, Some h)) (gnodes I) /\ o = Some (dec_node h n)).
Proof.
  unfold raw_nodes. split; rewrite in_flat_map; split.
  - intros ([k [[g h]|]] & Ik & K); cbn in K; [|destruct K]. destruct K as [K|[]]. inversion K; subst. eauto.
  - intros (g & h & Ik & ->). exists (n, Some (g, h)). split; [exact Ik|]. left. reflexivity.
  - intros ([k t] & Ik & K). cbn [snd fst] in K. destruct t as [[g h]|]; [|destruct K]. cbn [snd] in K.
    destruct h as [h|]; [|destruct K]. destruct K as [K|[]]. inversion K; subst. eauto.
  - intros (g & h & Ik & ->). exists (n, Some (g, Some h)). split; [exact Ik|]. left. reflexivity.
Qed.

(** non-vacuity: node 2 has no typesGH, node 3 an empty product tuple, the bond 1-2 creates an attribute-less node 2 on the
    reactant side, the bond 1-3 (product order 1) creates an attribute-less node 3 on the product side, the bond 3-1 without
    order is skipped *)
Definition ex_raw : rits :=
  LG [(1%N, Some (NA 70%N false 3 0 [], Some (NA 70%N false 2 0 []))); (2%N, None); (3%N, Some (NA 82%N false 1 0 [], None))]
     [(1%N, 2%N, Some (2, 0)); (1%N, 3%N, Some (0, 2)); (3%N, 1%N, None)].
Example C01_decompose_raw_nonvacuous :
  map fst (gnodes (fst (its_decompose_raw ex_raw))) = [1; 3; 2]%N /\ assoc 2%N (gnodes (fst (its_decompose_raw ex_raw))) = Some None /\
  gedges (fst (its_decompose_raw ex_raw)) = [(1%N, 2%N, 2)] /\
  gnodes (snd (its_decompose_raw ex_raw)) = [(1%N, Some (dec_node (NA 70%N false 2 0 []) 1%N)); (3%N, None)] /\
  gedges (snd (its_decompose_raw ex_raw)) = [(1%N, 3%N, 2)].
Proof. repeat split; reflexivity. Qed.
