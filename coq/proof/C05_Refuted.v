(** C05 — a clause that the code (kept as it is) violates on the explicit-hydrogen path, with its witness.
    When the pattern keeps explicit X-H bonds (implicit_temp=True with explicit hydrogens in the template), _glue_graph
    re-matches the explicit pattern on the hydrogen-expanded substrate WITH THE STRATEGY AGAIN; for BACKTRACK the
    fallback to the exhaustive search is therefore re-decided per kept match.  Here (Data/Testcase reaction 47, centre
    template, forwards on its own reactants, implicit mode): the component-aware search keeps 3 matches, the re-match of
    the first finds nothing component-aware (the expansion lowered the hydrogen count of the mapped acid oxygen below the
    pattern's implicit count), BACKTRACK falls back for that match alone and glues two placements inside ONE molecule:
    4 glued graphs against the component-aware 2, although the component-aware result is not empty. *)
From Coq Require Import List NArith ZArith Bool.
From SK Require Import lib.Tok lib.LGraph model.C03_Model model.C05_Model.
Import ListNotations.

(* the cap of these examples: the engine's default (no embed_threshold given) *)
#[local] Instance default_thr : Thr := thr_of None.

Definition bx_host : hostg := (LG [(1%N, (NA 67%N false (3)%Z (0)%Z [79%N])); (2%N, (NA 79%N false (0)%Z (0)%Z [67%N; 67%N])); (3%N, (NA 67%N true (0)%Z (0)%Z [67%N; 67%N; 79%N])); (4%N, (NA 67%N true (1)%Z (0)%Z [67%N; 67%N])); (5%N, (NA 67%N true (1)%Z (0)%Z [67%N; 67%N])); (6%N, (NA 67%N true (1)%Z (0)%Z [67%N; 67%N])); (7%N, (NA 67%N true (1)%Z (0)%Z [67%N; 67%N])); (8%N, (NA 67%N true (0)%Z (0)%Z [67%N; 67%N; 67%N])); (9%N, (NA 67%N false (0)%Z (0)%Z [67%N; 67%N; 67%N; 79%N])); (10%N, (NA 79%N false (1)%Z (0)%Z [67%N])); (11%N, (NA 67%N false (1)%Z (0)%Z [67%N; 67%N; 79%N])); (12%N, (NA 79%N false (1)%Z (0)%Z [67%N])); (13%N, (NA 67%N false (2)%Z (0)%Z [67%N; 67%N])); (14%N, (NA 67%N false (0)%Z (0)%Z [67%N; 67%N; 67%N; 67%N])); (15%N, (NA 67%N true (0)%Z (0)%Z [67%N; 67%N; 67%N])); (16%N, (NA 67%N true (1)%Z (0)%Z [67%N; 67%N])); (17%N, (NA 67%N true (1)%Z (0)%Z [67%N; 67%N])); (18%N, (NA 67%N true (1)%Z (0)%Z [67%N; 67%N])); (19%N, (NA 67%N true (1)%Z (0)%Z [67%N; 67%N])); (20%N, (NA 67%N true (1)%Z (0)%Z [67%N; 67%N])); (21%N, (NA 67%N true (0)%Z (0)%Z [67%N; 67%N; 67%N])); (22%N, (NA 67%N true (1)%Z (0)%Z [67%N; 67%N])); (23%N, (NA 67%N true (1)%Z (0)%Z [67%N; 67%N])); (24%N, (NA 67%N true (1)%Z (0)%Z [67%N; 67%N])); (25%N, (NA 67%N true (1)%Z (0)%Z [67%N; 67%N])); (26%N, (NA 67%N true (1)%Z (0)%Z [67%N; 67%N])); (27%N, (NA 67%N false (1)%Z (0)%Z [67%N; 67%N; 67%N])); (28%N, (NA 67%N false (2)%Z (0)%Z [67%N; 78%N])); (29%N, (NA 78%N false (1)%Z (0)%Z [67%N; 67%N])); (30%N, (NA 67%N false (2)%Z (0)%Z [67%N; 78%N])); (31%N, (NA 67%N false (1)%Z (0)%Z [67%N; 67%N; 67%N])); (32%N, (NA 79%N false (0)%Z (0)%Z [67%N])); (33%N, (NA 67%N false (0)%Z (0)%Z [67%N; 79%N; 79%N])); (34%N, (NA 79%N false (1)%Z (0)%Z [67%N])); (35%N, (NA 67%N false (2)%Z (0)%Z [67%N; 67%N])); (36%N, (NA 67%N true (0)%Z (0)%Z [67%N; 67%N; 67%N])); (37%N, (NA 67%N true (1)%Z (0)%Z [67%N; 78%N])); (38%N, (NA 78%N true (1)%Z (0)%Z [67%N; 67%N])); (39%N, (NA 67%N true (0)%Z (0)%Z [67%N; 67%N; 78%N])); (40%N, (NA 67%N true (1)%Z (0)%Z [67%N; 67%N])); (41%N, (NA 67%N true (1)%Z (0)%Z [67%N; 67%N])); (42%N, (NA 67%N true (1)%Z (0)%Z [67%N; 67%N])); (43%N, (NA 67%N true (1)%Z (0)%Z [67%N; 67%N])); (44%N, (NA 67%N true (0)%Z (0)%Z [67%N; 67%N; 67%N]))] [(1%N, 2%N, (2)%Z); (2%N, 3%N, (2)%Z); (3%N, 4%N, (3)%Z); (3%N, 8%N, (3)%Z); (4%N, 5%N, (3)%Z); (5%N, 6%N, (3)%Z); (6%N, 7%N, (3)%Z); (7%N, 8%N, (3)%Z); (8%N, 9%N, (2)%Z); (9%N, 10%N, (2)%Z); (9%N, 11%N, (2)%Z); (9%N, 31%N, (2)%Z); (11%N, 12%N, (2)%Z); (11%N, 13%N, (2)%Z); (13%N, 14%N, (2)%Z); (14%N, 15%N, (2)%Z); (14%N, 21%N, (2)%Z); (14%N, 27%N, (2)%Z); (15%N, 16%N, (3)%Z); (15%N, 20%N, (3)%Z); (16%N, 17%N, (3)%Z); (17%N, 18%N, (3)%Z); (18%N, 19%N, (3)%Z); (19%N, 20%N, (3)%Z); (21%N, 22%N, (3)%Z); (21%N, 26%N, (3)%Z); (22%N, 23%N, (3)%Z); (23%N, 24%N, (3)%Z); (24%N, 25%N, (3)%Z); (25%N, 26%N, (3)%Z); (27%N, 28%N, (2)%Z); (27%N, 31%N, (2)%Z); (28%N, 29%N, (2)%Z); (29%N, 30%N, (2)%Z); (30%N, 31%N, (2)%Z); (32%N, 33%N, (4)%Z); (33%N, 34%N, (2)%Z); (33%N, 35%N, (2)%Z); (35%N, 36%N, (2)%Z); (36%N, 37%N, (3)%Z); (36%N, 44%N, (3)%Z); (37%N, 38%N, (3)%Z); (38%N, 39%N, (3)%Z); (39%N, 40%N, (3)%Z); (39%N, 44%N, (3)%Z); (40%N, 41%N, (3)%Z); (41%N, 42%N, (3)%Z); (42%N, 43%N, (3)%Z); (43%N, 44%N, (3)%Z)]).
Definition bx_tpl : its := (LG [(30%N, IN (NA 78%N false (0)%Z (0)%Z [67%N; 67%N; 72%N]) (NA 78%N false (0)%Z (0)%Z [67%N; 67%N; 67%N]) 0%Z None); (34%N, IN (NA 67%N false (0)%Z (0)%Z [67%N; 79%N; 79%N]) (NA 67%N false (0)%Z (0)%Z [67%N; 78%N; 79%N]) 0%Z None); (31%N, IN (NA 72%N false (0)%Z (0)%Z [78%N]) (NA 72%N false (0)%Z (0)%Z [79%N]) 0%Z None); (35%N, IN (NA 79%N false (1)%Z (0)%Z [67%N]) (NA 79%N false (1)%Z (0)%Z [72%N]) 0%Z None)] [(30%N, 34%N, ((0)%Z, (2)%Z, (-2)%Z)); (30%N, 31%N, ((2)%Z, (0)%Z, (2)%Z)); (34%N, 35%N, ((2)%Z, (0)%Z, (2)%Z)); (31%N, 35%N, ((0)%Z, (2)%Z, (-2)%Z))]).

Definition bx_p : prepared :=
  match prepare false true bx_tpl with Some p => p | None => Prep (LG [] []) (LG [] []) (LG [] []) false (LG [] []) end.

Lemma bt_explicit_path_refuted :
  exists (host : hostg) (p : prepared),
    p_flag p = true /\ raw_of 1%N host p <> [] /\
    length (glued_of 1%N host p) = 2%nat /\ length (glued_of 2%N host p) = 4%nat.
Proof.
  exists bx_host, bx_p. split; [vm_compute; reflexivity|]. split; [vm_compute; discriminate|].
  split; vm_compute; reflexivity.
Qed.
