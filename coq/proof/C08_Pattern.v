(** C08 — the equality-pattern observable.  The correspondence compares the pattern of the implementation's DIGESTS with
    [pattern [] strings] of the model.  The pattern of a list identifies two positions exactly when the entries are equal, so
    "same pattern" says: two digests are equal iff the two serialisation strings of the model are equal - on the strings compared
    in a run the digest neither collides nor differs on equal strings (the premise of the soundness theorems, monitored). *)
From Coq Require Import List NArith ZArith Bool Arith Lia Permutation.
From SK Require Import lib.StrJoin model.C08_Model proof.C08_IR proof.C08_Value.
Import ListNotations.

Lemma index_of_some s l : forall k0 k, index_of s l k0 = Some k -> k0 <= k /\ nth_error l (k - k0) = Some s.
Proof.
  induction l as [|x l IH]; intros k0 k H; simpl in H; [discriminate|].
  destruct (str_eqb s x) eqn:E.
  - inversion H; subst. apply str_eqb_spec in E. subst. rewrite Nat.sub_diag. split; [lia|reflexivity].
  - destruct (IH _ _ H) as [H1 H2]. split; [lia|].
    replace (k - k0) with (S (k - S k0)) by lia. exact H2.
Qed.
Lemma index_of_none s l : forall k0, index_of s l k0 = None -> ~ In s l.
Proof.
  induction l as [|x l IH]; intros k0 H; simpl in H; [intros []|].
  destruct (str_eqb s x) eqn:E; [discriminate|].
  intros [->|I]; [|exact (IH _ H I)].
  assert (str_eqb s s = true) by (apply str_eqb_spec; reflexivity). congruence.
Qed.

Lemma pattern_spec l : forall seen, NoDup seen -> exists news, NoDup (seen ++ news) /\
  forall i s, nth_error l i = Some s -> exists k, nth_error (pattern seen l) i = Some k /\ nth_error (seen ++ news) k = Some s.
Proof.
  induction l as [|s r IH]; intros seen Hnd.
  - exists []. rewrite app_nil_r. split; auto. intros [|i] t H; discriminate.
  - cbn [pattern]. destruct (index_of s seen 0) as [k|] eqn:E.
    + destruct (IH seen Hnd) as (news & Hn & Hs). exists news. split; auto.
      intros [|i] t H; cbn [nth_error] in *.
      * inversion H; subst. exists k. split; auto. destruct (index_of_some _ _ _ _ E) as [_ H2]. rewrite Nat.sub_0_r in H2.
        rewrite nth_error_app1; auto. apply nth_error_Some. rewrite H2. discriminate.
      * apply Hs. exact H.
    + pose proof (index_of_none _ _ _ E) as Hni.
      assert (Hnd' : NoDup (seen ++ [s])).
      { apply NoDup_app_intro; auto.
        - constructor; [intros []|constructor].
        - intros x I1 [<-|[]]. exact (Hni I1). }
      destruct (IH (seen ++ [s]) Hnd') as (news & Hn & Hs). exists (s :: news).
      rewrite <- app_assoc in Hn. cbn [app] in Hn. split; auto.
      intros [|i] t H; cbn [nth_error] in *.
      * inversion H; subst. exists (length seen). split; auto.
        rewrite nth_error_app2 by lia. rewrite Nat.sub_diag. reflexivity.
      * destruct (Hs i t H) as (k & H1 & H2). exists k. split; auto. rewrite <- app_assoc in H2. exact H2.
Qed.

(** two positions of the pattern agree exactly when the entries agree *)
Theorem pattern_eq_iff (l : list str) i j s t : nth_error l i = Some s -> nth_error l j = Some t ->
  (nth_error (pattern [] l) i = nth_error (pattern [] l) j <-> s = t).
Proof.
  intros Hi Hj. destruct (pattern_spec l [] (NoDup_nil _)) as (news & Hn & Hs). cbn [app] in *.
  destruct (Hs i s Hi) as (ki & Pi & Fi). destruct (Hs j t Hj) as (kj & Pj & Fj). rewrite Pi, Pj. split.
  - intros E. inversion E; subst. congruence.
  - intros ->. f_equal.
    assert (Li : ki < length news) by (apply nth_error_Some; rewrite Fi; discriminate).
    apply (proj1 (NoDup_nth_error news) Hn ki kj Li). congruence.
Qed.

(* non-vacuity *)
Example pattern_ex : pattern [] [[1%N]; [2%N]; [1%N]; []; [2%N]] = [0; 1; 0; 2; 1].
Proof. reflexivity. Qed.

Print Assumptions pattern_eq_iff.
