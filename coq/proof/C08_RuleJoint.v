(** C08 — SynRule and ONE bijection (audit finding A2-1).  "Isomorphic content" of a rule is a single map carrying the
    reaction-centre graph, the left and the right fragment simultaneously.  Comparing the three signatures (what SynRule.__eq__
    did until repair 4537ada, model [synrule_eqb]) gives three INDEPENDENT isomorphisms ([C08_Value.synrule_nauty]: the
    componentwise theorems):
      joint => componentwise => signatures equal            (proved here: [synrule_joint_complete])
      signatures equal => joint                             REFUTED ([synrule_joint_refuted]): two double bonds closing to a
        four-ring, product-side charge on the formerly doubly bonded pair {1,2} resp. the formerly unbonded pair {1,4}: the three
        signatures agree (the right fragment alone has the reflection that exchanges the pairs), no single map works.
    The repaired implementation signs the reaction-centre graph with BOTH sides of typesGH in the covered node attributes; that
    graph (node attributes are pairs) is outside this model, the repaired behaviour is checked by the oracle (case kind itsrule). *)
From Coq Require Import String List NArith ZArith Bool Arith Lia Permutation.
From SK Require Import lib.LGraph lib.StrJoin.
From SK Require Import model.C08_Model proof.C08_Spec proof.C08_Sort proof.C08_Faithful proof.C08_Cov proof.C08_SigFun
                       proof.C08_Render proof.C08_Nauty proof.C08_Sound proof.C08_Invariant proof.C08_Value.
Import ListNotations.

(** one map for the three graphs of a rule (rc, left, right) *)
Definition rule_joint_iso (a b : graph * graph * graph) : Prop :=
  exists f, C08_Spec.inj_on f (node_ids (fst (fst a))) /\ C08_Spec.inj_on f (node_ids (snd (fst a))) /\ C08_Spec.inj_on f (node_ids (snd a)) /\
            geq_cov (relabel f (snd (fst a))) (snd (fst b)) /\ geq_cov (relabel f (snd a)) (snd b) /\
            geq_cov (relabel f (fst (fst a))) (fst (fst b)).

Theorem synrule_joint_complete a b : rule_ok a -> rule_ok b -> rule_joint_iso a b -> synrule_eqb ser_nauty a b = true.
Proof.
  intros Ha Hb (f & I1 & I2 & I3 & Q2 & Q3 & Q1). apply (synrule_eqb_nauty a b Ha Hb).
  repeat split; exists f; split; auto.
Qed.

(* ---------------- the witness ---------------- *)
Definition wC (q : Z) : nattr := NA [67%N] false q 0 None.
Definition w_rc : graph :=
  LG [(1%N, wC 0); (2%N, wC 0); (3%N, wC 0); (4%N, wC 0)]
     [(1%N, 2%N, EA3 4 (Some 2%Z) (Some 2%Z)); (3%N, 4%N, EA3 4 (Some 2%Z) (Some 2%Z));
      (1%N, 4%N, EA3 0 (Some (-2)%Z) (Some 2%Z)); (3%N, 2%N, EA3 0 (Some (-2)%Z) (Some 2%Z))].
Definition w_l : graph :=
  LG [(1%N, wC 0); (2%N, wC 0); (3%N, wC 0); (4%N, wC 0)] [(1%N, 2%N, EA 4 None); (3%N, 4%N, EA 4 None)].
Definition w_r (a b : N) : graph :=
  LG (map (fun n => (n, wC (if orb (N.eqb n a) (N.eqb n b) then 1 else 0)%Z)) [1%N; 2%N; 3%N; 4%N])
     [(1%N, 2%N, EA 2 None); (3%N, 4%N, EA 2 None); (1%N, 4%N, EA 2 None); (3%N, 2%N, EA 2 None)].
Definition w_A : graph * graph * graph := (w_rc, w_l, w_r 1 2).
Definition w_B : graph * graph * graph := (w_rc, w_l, w_r 1 4).

Ltac wf4 :=
  split; [repeat constructor; simpl; intuition discriminate|]; split;
  [ intros a b x I; simpl in I; repeat (destruct I as [I|I]; [inversion I; subst; simpl; intuition discriminate|]); contradiction
  | intros l1 a b x l2 E; destruct l1 as [|e1 [|e2 [|e3 [|e4 [|e5 l1]]]]]; simpl in E; inversion E; subst; simpl; auto ].
Ltac els4 := intros p I; simpl in I; repeat (destruct I as [<-|I]; [reflexivity|]); contradiction.

Lemma wf_w_rc : wf w_rc. Proof. wf4. Qed.
Lemma wf_w_l : wf w_l. Proof. wf4. Qed.
Lemma wf_w_r12 : wf (w_r 1 2). Proof. wf4. Qed.
Lemma wf_w_r14 : wf (w_r 1 4). Proof. wf4. Qed.
Lemma w_ok : rule_ok w_A /\ rule_ok w_B.
Proof.
  unfold rule_ok, w_A, w_B. cbn [fst snd].
  split; (split; [split; [apply wf_w_rc|els4]|split; [split; [apply wf_w_l|els4]|split; [first [apply wf_w_r12|apply wf_w_r14]|els4]]]).
Qed.

(* the table of a map on the four nodes *)
Definition tab4 (a b c d : N) (x : N) : N :=
  if N.eqb x 1 then a else if N.eqb x 2 then b else if N.eqb x 3 then c else if N.eqb x 4 then d else 0%N.
Definition joint_b (a b c d : N) : bool :=
  str_eqb (serialise (relabel (tab4 a b c d) w_rc)) (serialise w_rc)
  && str_eqb (serialise (relabel (tab4 a b c d) (w_r 1 2))) (serialise (w_r 1 4)).
Definition four : list N := [1%N; 2%N; 3%N; 4%N].
Lemma no_joint_table : forallb (fun a => forallb (fun b => forallb (fun c => forallb (fun d => negb (joint_b a b c d)) four) four) four) four = true.
Proof. vm_compute. reflexivity. Qed.

Lemma serialise_of_geq g h : wf g -> geq_cov g h -> serialise g = serialise h.
Proof. intros Hg Hq. apply serialise_geq_cov; auto. apply wf_simple. exact Hg. Qed.

Theorem synrule_joint_refuted : rule_ok w_A /\ rule_ok w_B /\ synrule_eqb ser_nauty w_A w_B = true /\ ~ rule_joint_iso w_A w_B.
Proof.
  destruct w_ok as [Ha Hb]. split; [exact Ha|]. split; [exact Hb|]. split; [vm_compute; reflexivity|].
  intros (f & I1 & _ & I3 & _ & Q3 & Q1). unfold w_A, w_B in *. cbn [fst snd] in *.
  destruct Ha as ((Wrc & _) & _ & (Wr & _)).
  (* f maps the four nodes into the four nodes *)
  pose proof (geq_cov_ids _ _ Q1) as Pn. rewrite node_ids_relabel in Pn.
  assert (M : forall x, In x four -> In (f x) four).
  { intros x Ix. apply (Permutation_in _ Pn). apply in_map. exact Ix. }
  (* so f is one of the 256 tables on them *)
  assert (E1 : relabel f w_rc = relabel (tab4 (f 1%N) (f 2%N) (f 3%N) (f 4%N)) w_rc).
  { apply relabel_ext_on; auto. intros x Ix. simpl in Ix. destruct Ix as [<-|[<-|[<-|[<-|[]]]]]; reflexivity. }
  assert (E3 : relabel f (w_r 1 2) = relabel (tab4 (f 1%N) (f 2%N) (f 3%N) (f 4%N)) (w_r 1 2)).
  { apply relabel_ext_on; auto. intros x Ix. simpl in Ix. destruct Ix as [<-|[<-|[<-|[<-|[]]]]]; reflexivity. }
  assert (W1 : wf (relabel f w_rc)) by (apply wf_relabel; auto).
  assert (W3 : wf (relabel f (w_r 1 2))) by (apply wf_relabel; auto).
  pose proof (serialise_of_geq _ _ W1 Q1) as S1. pose proof (serialise_of_geq _ _ W3 Q3) as S3.
  rewrite E1 in S1. rewrite E3 in S3.
  assert (J : joint_b (f 1%N) (f 2%N) (f 3%N) (f 4%N) = true).
  { unfold joint_b. rewrite S1, S3. rewrite andb_true_iff. split; apply str_eqb_spec; reflexivity. }
  pose proof no_joint_table as T. rewrite forallb_forall in T.
  pose proof (T _ (M 1%N (or_introl eq_refl))) as T1. rewrite forallb_forall in T1.
  pose proof (T1 _ (M 2%N (or_intror (or_introl eq_refl)))) as T2. rewrite forallb_forall in T2.
  pose proof (T2 _ (M 3%N (or_intror (or_intror (or_introl eq_refl))))) as T3. rewrite forallb_forall in T3.
  pose proof (T3 _ (M 4%N (or_intror (or_intror (or_intror (or_introl eq_refl)))))) as T4.
  rewrite J in T4. discriminate.
Qed.

(* the attribute-sort back-end happens to tell the two rules apart (tie-break by id), the exact one cannot *)
Example joint_ex : synrule_eqb ser_generic w_A w_B = false /\ synrule_eqb ser_nauty w_A w_A = true /\ rule_joint_iso w_A w_A.
Proof.
  split; [vm_compute; reflexivity|]. split; [vm_compute; reflexivity|].
  destruct w_ok as [((Wrc & _) & (Wl & _) & (Wr & _)) _]. unfold w_A in *. cbn [fst snd] in *.
  exists (fun x => x). repeat split; try (intros x y _ _ E; exact E);
    rewrite (relabel_id_on (fun x => x)); auto; apply geq_cov_refl.
Qed.

(* flat statements for the props file *)
Theorem synrule_joint_complete_flat (rc l r rc' l' r' : graph) :
  wf rc -> wf l -> wf r -> wf rc' -> wf l' -> wf r' ->
  els_ok rc -> els_ok l -> els_ok r -> els_ok rc' -> els_ok l' -> els_ok r' ->
  (exists f, C08_Spec.inj_on f (node_ids rc) /\ C08_Spec.inj_on f (node_ids l) /\ C08_Spec.inj_on f (node_ids r) /\
             geq_cov (relabel f l) l' /\ geq_cov (relabel f r) r' /\ geq_cov (relabel f rc) rc') ->
  synrule_eqb ser_nauty (rc, l, r) (rc', l', r') = true.
Proof.
  intros. apply (synrule_joint_complete (rc, l, r) (rc', l', r')); unfold rule_ok, rule_joint_iso; cbn [fst snd]; auto.
Qed.
Theorem synrule_joint_refuted_flat : exists rc l r rc' l' r' : graph,
  (wf rc /\ wf l /\ wf r /\ wf rc' /\ wf l' /\ wf r') /\
  (els_ok rc /\ els_ok l /\ els_ok r /\ els_ok rc' /\ els_ok l' /\ els_ok r') /\
  synrule_eqb ser_nauty (rc, l, r) (rc', l', r') = true /\
  ~ (exists f, C08_Spec.inj_on f (node_ids rc) /\ C08_Spec.inj_on f (node_ids l) /\ C08_Spec.inj_on f (node_ids r) /\
               geq_cov (relabel f l) l' /\ geq_cov (relabel f r) r' /\ geq_cov (relabel f rc) rc').
Proof.
  exists w_rc, w_l, (w_r 1 2), w_rc, w_l, (w_r 1 4).
  destruct synrule_joint_refuted as (((A1 & A2) & (A3 & A4) & (A5 & A6)) & ((B1 & B2) & (B3 & B4) & (B5 & B6)) & E & N).
  unfold w_A, w_B, rule_joint_iso in *. cbn [fst snd] in *.
  split; [exact (conj A1 (conj A3 (conj A5 (conj B1 (conj B3 B5)))))|]. split; [exact (conj A2 (conj A4 (conj A6 (conj B2 (conj B4 B6)))))|].
  split; [exact E|exact N].
Qed.

Print Assumptions synrule_joint_complete.
Print Assumptions synrule_joint_refuted.
