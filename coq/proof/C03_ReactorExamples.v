(** C03 — non-vacuity of the reactor state machine theorems (proof/C03_ReactorProof.v). *)
From Coq Require Import List NArith ZArith Bool Lia.
From SK Require Import lib.Tok lib.LGraph model.C03_Model model.C03_Order model.C03_Reactor proof.C03_ReactorProof proof.C03_Examples.
Import ListNotations.
Local Open Scope Z_scope.

(** strings *)
Definition s_C : str := [67%N].                 (* "C" *)
Definition s_CO : str := [67%N; 79%N].          (* "CO" *)
Example ex_split : split_gt (join_gt s_C s_CO) = [s_C; s_CO] /\
                   reverse_reaction (join_gt s_C s_CO) = join_gt s_CO s_C /\
                   last_part (join_gt s_C s_CO) = s_CO /\
                   split_gt [67%N; 62%N; 62%N; 62%N; 79%N] = [[67%N]; [62%N; 79%N]] /\      (* "C>>>O".split(">>") = ["C", ">O"] *)
                   reverse_reaction [67%N] = [67%N] /\                                       (* no ">>": returned as is *)
                   split_gt [] = [[]].
Proof. vm_compute. repeat split. Qed.

(** proton transfer O-H . N >> O- . H-N+ (rule with h_pairs) on CH3OH . NH3, default mode, forwards *)
Definition ex_ser : nat -> its -> option str * option str := fun i _ => match i with O => (Some s_CO, Some s_C) | _ => (None, Some s_C) end.
Definition ex_inp (invert : bool) : rin :=
  RI invert true ex_host_h (Some (ex_rc_h, fst (its_decompose ex_rc_h), snd (its_decompose ex_rc_h))) [(ex_m_h, None)] [] ex_ser.

Example ex_nocrash : nocrash (ex_inp false) /\ nocrash (ex_inp true).
Proof. split; intros _; vm_compute; discriminate. Qed.

Definition ex_script : list rop := [Osmiles; Oits; Ocount; Osmarts; Oits; Omappings; Orule; Osmiles].
Example ex_reads_stable : run_ops (ex_inp false) rs0 ex_script = map (spec_val (ex_inp false)) ex_script.
Proof. exact (reads_stable (ex_inp false) ex_script (proj1 ex_nocrash)). Qed.

(** ... and the values say something: one result, the returned reaction is "CO>>C" forwards and "C>>CO" backwards,
    smiles_list extracts the last part *)
Example ex_reads_values :
  spec_val (ex_inp false) Osmarts = Vstrs [join_gt s_CO s_C] /\ spec_val (ex_inp true) Osmarts = Vstrs [join_gt s_C s_CO] /\
  spec_val (ex_inp false) Osmiles = Vstrs [s_C] /\ spec_val (ex_inp true) Osmiles = Vstrs [s_CO] /\
  spec_val (ex_inp false) Ocount = Vnat 1 /\
  spec_val (ex_inp false) Oits = Vits [ex_T_h'].
Proof. vm_compute. repeat split. Qed.

Example ex_smarts_of_spec :
  smarts_of true ex_ser [ex_T_h'; ex_T_h'] = [join_gt s_C s_CO] /\ map last_part (smarts_of true ex_ser [ex_T_h'; ex_T_h']) = [s_CO].
Proof. vm_compute. split; reflexivity. Qed.

(** a rule whose only group has a hydrogen to give and nobody to take it: _explicit_h raises.  Replayed on the
    implementation (notes/C03.md): read 0 raises StopIteration, reads 1 and 2 return one graph without the explicit stage. *)
Definition ex_rc_crash : its := LG [(1%N, IN (at_ Oo 1 0) (at_ Oo 0 (-1)) 1 (Some [1%N]))] [].
Definition ex_host_crash : hostg := LG [(1%N, at_ C 3 0); (2%N, at_ Oo 1 0)] [(1%N, 2%N, 2)].
Definition ex_inp_crash : rin :=
  RI false true ex_host_crash (Some (ex_rc_crash, fst (its_decompose ex_rc_crash), snd (its_decompose ex_rc_crash))) [([(1%N, 2%N)], None)] [] ex_ser.
Example ex_reads_after_crash :
  explicit_all (spec_glued ex_inp_crash) = None /\ length (spec_glued ex_inp_crash) = 1%nat /\
  run_ops ex_inp_crash rs0 [Oits; Oits; Oits] = [Vraise; Vits (map fst (spec_glued ex_inp_crash)); Vits (map fst (spec_glued ex_inp_crash))].
Proof.
  assert (H : explicit_all (spec_glued ex_inp_crash) = None) by reflexivity.
  split; [exact H|]. split; [reflexivity|].
  exact (reads_after_crash ex_inp_crash _ _ _ eq_refl eq_refl H).
Qed.

(** a rule that keeps an explicit X-H hydrogen in its left side: the flag is set by the first read, whatever it is *)
Definition ex_l_xh : molg := LG [(1%N, MN C false 0 0 None); (2%N, MN EL_H false 0 0 None)] [(1%N, 2%N, 2)].
Definition ex_rc_xh : its :=
  LG [(1%N, IN (at_ C 0 0) (at_ C 0 (-1)) 0 None); (2%N, IN (at_ EL_H 0 0) (at_ EL_H 0 1) 0 None)] [(1%N, 2%N, (2, 0, 2))].
Definition ex_host_xh : hostg := LG [(5%N, at_ C 1 0)] [].
Definition ex_inp_xh : rin :=
  RI false false ex_host_xh (Some (ex_rc_xh, ex_l_xh, ex_l_xh)) [([(1%N, 5%N)], Some [[(1%N, 5%N); (2%N, 6%N)]])] [] ex_ser.
Example ex_fresh_its_route :
  has_XH ex_l_xh = true /\
  (forall st' v, step ex_inp_xh rs0 Oits = (st', v) -> s_flag st' = true) /\
  (* the expanded route was taken: the result has the expanded hydrogen 6 and the C-H bond broken on the product side *)
  option_map (fun gs : list its => map (fun g : its => node_ids g) gs) (spec_its ex_inp_xh) = Some [[5%N; 6%N]] /\
  option_map (fun gs : list its => map (fun g : its => adj g 5%N 6%N) gs) (spec_its ex_inp_xh) = Some [Some (2, 0, 2)].
Proof.
  split; [reflexivity|]. split; [|split; reflexivity].
  intros st' v H. assert (Hn : nocrash ex_inp_xh) by (intros C0; discriminate).
  exact (proj1 (fresh_its_route ex_inp_xh _ _ _ eq_refl Hn st' v H)).
Qed.

(** the capstone (proof/C03_Capstone.v): hypotheses hold on the two example reactors, and the conclusion says something *)
From SK Require Import proof.C03_Proof proof.C03_ReactorSpec proof.C03_Capstone.
Example ex_capstone_hyps : hyps_okb (ex_inp false) = true /\ hyps_okb ex_inp_xh = true /\
                           spec_its (ex_inp false) = Some [ex_T_h'] /\ balancedb ex_rc_h = true.
Proof. vm_compute. repeat split. Qed.
Example ex_capstone : instance_of ex_host_h ex_rc_h ex_T_h'.
Proof.
  apply (its_list_sound (ex_inp false) ex_rc_h _ _ [ex_T_h'] eq_refl); try reflexivity. left. reflexivity.
Qed.
Example ex_capstone_reads : forall g, In g [ex_T_h'] -> instance_of ex_host_h ex_rc_h g.
Proof.
  apply (reads_return_instances (ex_inp false) ex_rc_h _ _ eq_refl eq_refl eq_refl eq_refl (proj1 ex_nocrash) [Osmiles; Oits; Oits]).
  vm_compute. right. left. reflexivity.
Qed.

(** the default mode from the template (its_list_default_mode): O-H . N >> O . H-N written with an explicit hydrogen, on
    CH3OH . NH3; the template condition holds (proof/C03_Examples.v, ex_tpl_condition) *)
Definition ex_r_s : molg := match synrule ex_tpl_x true with Some t => snd t | None => LG [] [] end.
Definition ex_inp_d : rin := RI false true ex_host_h (synrule ex_tpl_x true) [(ex_m_s, None)] [] ex_ser.
Example ex_default_mode_hyps :
  synrule ex_tpl_x true = Some (ex_rc_s, ex_l_s, ex_r_s) /\ hyps_okb ex_inp_d = true /\
  option_map (fun gs : list its => map (fun g : its => length (gnodes g)) gs) (spec_its ex_inp_d) = Some [4%nat].
Proof. vm_compute. repeat split. Qed.
Example ex_default_mode : forall gs g, spec_its ex_inp_d = Some gs -> In g gs ->
  forall e, elem_count e (fst (its_decompose g)) = elem_count e (snd (its_decompose g)).
Proof.
  intros gs g Hs Ig.
  refine (proj1 (its_list_default_mode ex_inp_d ex_tpl_x ex_rc_s ex_l_s ex_r_s gs eq_refl (proj1 ex_default_mode_hyps)
            eq_refl _ eq_refl ex_tpl_condition eq_refl eq_refl eq_refl Hs g Ig)).
  intros k a I. simpl in I. destruct I as [I|[I|[I|[]]]]; inversion I; reflexivity.
Qed.

(** the matcher-contract form: all hypotheses as one boolean on the example reactors *)
Example ex_matcher_hyps : matcher_hyps_okb (i_rule (ex_inp false)) ex_host_h (i_calls (ex_inp false)) = true /\
                          matcher_hyps_okb (i_rule ex_inp_d) ex_host_h (i_calls ex_inp_d) = true /\
                          left_of_rcb ex_rc_s ex_l_s = true /\ rule_link_okb (synrule ex_tpl_x true) = true.
Proof. vm_compute. repeat split. Qed.
Example ex_capstone_matcher : instance_of ex_host_h ex_rc_h ex_T_h'.
Proof. apply (its_list_sound_matcher (ex_inp false) ex_rc_h _ _ [ex_T_h'] eq_refl (proj1 ex_matcher_hyps) eq_refl). left. reflexivity. Qed.

(** the default mode end to end from the template (proof/C03_LinkDefault.v): hypotheses on ex_tpl_x, the substrate and the
    matcher's contract only *)
From SK Require Import proof.C03_LinkDefault.
Example ex_default_end_to_end_hyps :
  wf_rcb ex_tpl_x = true /\ edges_closedb ex_tpl_x = true /\ wf_hostb ex_host_h = true /\
  forallb (call_okm ex_host_h ex_l_s) (i_calls ex_inp_d) = true /\
  left_of_rcb ex_rc_s ex_l_s = true /\ edges_closedb ex_rc_s = true /\ wf_rcb ex_rc_s = true.
Proof. vm_compute. repeat split. Qed.
Example ex_default_end_to_end : forall gs g, spec_its ex_inp_d = Some gs -> In g gs ->
  instance_of ex_host_h ex_rc_s g /\ total_charge (fst (its_decompose g)) = total_charge (snd (its_decompose g)).
Proof.
  intros gs g Hs Ig.
  assert (Hel : forall k a, In (k, a) (gnodes ex_tpl_x) -> a_el (iH a) = a_el (iG a)).
  { intros k a I. simpl in I. destruct I as [I|[I|[I|[]]]]; inversion I; reflexivity. }
  destruct (its_list_default_end_to_end ex_inp_d ex_tpl_x ex_rc_s ex_l_s ex_r_s gs eq_refl (proj1 ex_default_mode_hyps) Hel
              eq_refl eq_refl ex_tpl_condition eq_refl eq_refl Hs g Ig) as (A & _ & B). auto.
Qed.

(** the implicit-template mode end to end (proof/C03_LinkImplicit.v), forwards (proton transfer written with counts) and
    backwards (quaternisation applied to CH3NH3+ . Br-) *)
From SK Require Import proof.C03_LinkImplicit.
Definition ex_inp_bwd : rin := RI true false ex_host_bwd (synrule (invert_template ex_rc) false) [(ex_m, None)] [] ex_ser.
Example ex_implicit_hyps :
  i_rule (ex_inp false) = synrule ex_rc_h false /\ wf_rcb ex_rc_h = true /\ edges_closedb ex_rc_h = true /\
  forallb (call_okm ex_host_h (fst (its_decompose ex_rc_h))) (i_calls (ex_inp false)) = true /\
  wf_rcb ex_rc = true /\ edges_closedb ex_rc = true /\ wf_hostb ex_host_bwd = true /\
  forallb (call_okm ex_host_bwd (fst (its_decompose (invert_template ex_rc)))) (i_calls ex_inp_bwd) = true /\
  spec_its ex_inp_bwd = Some [ex_T_bwd] /\ balancedb ex_rc = true.
Proof. vm_compute. repeat split. Qed.
Example ex_implicit_end_to_end :
  instance_of ex_host_h ex_rc_h ex_T_h' /\
  instance_of ex_host_bwd (invert_template ex_rc) ex_T_bwd /\
  total_charge (fst (its_decompose ex_T_bwd)) = total_charge (snd (its_decompose ex_T_bwd)).
Proof.
  destruct ex_implicit_hyps as (H1 & H2 & H3 & H4 & H5 & H6 & H7 & H8 & H9 & H10).
  split; [|].
  - exact (proj1 (its_list_implicit_end_to_end false (ex_inp false) ex_rc_h [ex_T_h'] H1 H2 H3 eq_refl H4 eq_refl ex_T_h' (or_introl eq_refl))).
  - destruct (its_list_implicit_end_to_end true ex_inp_bwd ex_rc [ex_T_bwd] eq_refl H5 H6 H7 H8 H9 ex_T_bwd (or_introl eq_refl)) as [A B].
    split; [exact A|exact (proj2 (B H10))].
Qed.

(** the default mode BACKWARDS from the template as written (proof/C03_LinkBackward.v): O-H . N >> O . H-N applied backwards
    to CH3OH . NH3 (N gives a hydrogen to O) *)
From SK Require Import proof.C03_LinkBackward.
Definition ex_rule_b : triple := match synrule (invert_template ex_tpl_x) true with Some t => t | None => (LG [] [], LG [] [], LG [] []) end.
Definition ex_inp_b : rin := RI true true ex_host_h (synrule (invert_template ex_tpl_x) true) [(ex_m_s, None)] [] ex_ser.
Example ex_backward_default_hyps :
  synrule (invert_template ex_tpl_x) true = Some (fst (fst ex_rule_b), snd (fst ex_rule_b), snd ex_rule_b) /\
  forallb (call_okm ex_host_h (snd (fst ex_rule_b))) (i_calls ex_inp_b) = true /\
  option_map (fun gs : list its => map (fun g : its => (length (gnodes g), adj g 3%N 4%N, adj g 4%N 2%N)) gs) (spec_its ex_inp_b)
    = Some [(4%nat, Some (2, 0, 2), Some (0, 2, -2))].
Proof. vm_compute. repeat split. Qed.
Example ex_backward_default : forall gs g, spec_its ex_inp_b = Some gs -> In g gs ->
  forall e, elem_count e (fst (its_decompose g)) = elem_count e (snd (its_decompose g)).
Proof.
  intros gs g Hs Ig.
  assert (Hel : forall k a, In (k, a) (gnodes ex_tpl_x) -> a_el (iH a) = a_el (iG a)).
  { intros k a I. simpl in I. destruct I as [I|[I|[I|[]]]]; inversion I; reflexivity. }
  destruct ex_backward_default_hyps as (H1 & H2 & _).
  exact (proj1 (proj2 (its_list_default_end_to_end_backward ex_inp_b ex_tpl_x _ _ _ gs eq_refl H1 Hel eq_refl eq_refl ex_tpl_condition
                         eq_refl H2 Hs g Ig))).
Qed.

(** a SynRule object (prepared in the default mode from ex_tpl_x) applied backwards: the prepared rule graph is inverted and
    used as it is *)
Definition ex_inp_ob : rin := RI true true ex_host_h (wrap_template_rule true false (ex_rc_s, ex_l_s, ex_r_s)) [(ex_m_s, None)] [] ex_ser.
Example ex_synrule_object_backward_hyps :
  forallb (call_okm ex_host_h (fst (its_decompose (invert_template ex_rc_s)))) (i_calls ex_inp_ob) = true /\
  (* the inverted prepared rule carries no h_pairs: the hydrogen moves as COUNTS (N 3 -> 2, O 1 -> 2), no H atom is re-materialised *)
  option_map (fun gs : list its => map (fun g : its => (length (gnodes g),
                                                        option_map (fun a => (a_hc (iG a), a_hc (iH a))) (label g 3%N),
                                                        option_map (fun a => (a_hc (iG a), a_hc (iH a))) (label g 2%N))) gs) (spec_its ex_inp_ob)
    = Some [(3%nat, Some (3, 2), Some (1, 2))].
Proof. vm_compute. repeat split. Qed.
Example ex_synrule_object_backward : forall gs g, spec_its ex_inp_ob = Some gs -> In g gs ->
  instance_of ex_host_h (invert_template ex_rc_s) g /\ total_charge (fst (its_decompose g)) = total_charge (snd (its_decompose g)).
Proof.
  intros gs g Hs Ig.
  assert (Hel : forall k a, In (k, a) (gnodes ex_tpl_x) -> a_el (iH a) = a_el (iG a)).
  { intros k a I. simpl in I. destruct I as [I|[I|[I|[]]]]; inversion I; reflexivity. }
  destruct (its_list_synrule_object_backward false ex_inp_ob ex_tpl_x ex_rc_s ex_l_s ex_r_s gs (proj1 ex_default_mode_hyps) eq_refl Hel
              eq_refl eq_refl eq_refl (proj1 ex_synrule_object_backward_hyps) Hs g Ig) as [A B].
  split; [exact A|exact (proj2 (B ex_tpl_condition))].
Qed.

(** the template-side hypotheses as one boolean: true on ex_tpl_x; false on a template whose stripped hydrogen has no
    partner on the product side (O-H >> O . H: the hydrogen leaves) *)
Example ex_default_tpl_okb :
  default_tpl_okb ex_tpl_x = true /\ removedR ex_tpl_x = [2%N] /\ keptK ex_tpl_x = [1%N; 3%N] /\
  default_tpl_okb (LG [(1%N, same (at_ Oo 0 0)); (2%N, same (at_ EL_H 0 0)); (3%N, same (at_ Nn 0 0))]
                      [(1%N, 2%N, (2, 0, 2)); (2%N, 3%N, (0, 2, -2)); (1%N, 3%N, (0, 0, 0))]) = true /\
  default_tpl_okb (LG [(1%N, same (at_ Oo 0 0)); (2%N, same (at_ EL_H 0 0)); (3%N, same (at_ Nn 0 0))]
                      [(1%N, 2%N, (2, 0, 2)); (2%N, 3%N, (2, 2, 0))]) = false.
Proof. vm_compute. repeat split. Qed.
Example ex_default_bool : forall gs g, spec_its ex_inp_b = Some gs -> In g gs ->
  total_charge (fst (its_decompose g)) = total_charge (snd (its_decompose g)).
Proof.
  intros gs g Hs Ig. destruct ex_backward_default_hyps as (H1 & H2 & _).
  exact (proj2 (proj2 (its_list_default_bool true ex_inp_b ex_tpl_x _ _ _ gs (proj1 ex_default_tpl_okb) eq_refl H1 eq_refl H2 Hs g Ig))).
Qed.

(** no crash (proof/C03_NoCrash.v, C03_Total.v) *)
From SK Require Import proof.C03_WiringCount proof.C03_NoCrash proof.C03_Total.
(** the graph glued from the rule prepared from ex_tpl_x on CH3OH . NH3: its one group {2, 3} is exact, _explicit_h cannot
    raise (default_glued_exact builds the ledger: hydrogen 2 of the template leaves the image of atom 1 and joins that of 3) *)
Example ex_default_glued_exact :
  pairs_exactb ex_T_s = true /\ grouped ex_T_s 2%N = true /\ dl_of ex_T_s 2%N = 1 /\ dl_of ex_T_s 3%N = -1 /\
  explicit_h_ord sort_N ex_T_s <> None.
Proof.
  assert (Hel : forall k a, In (k, a) (gnodes ex_tpl_x) -> a_el (iH a) = a_el (iG a)).
  { intros k a I. simpl in I. destruct I as [I|[I|[I|[]]]]; inversion I; reflexivity. }
  destruct ex_default_changed_bonds as (_ & H2 & H3 & H4 & _).
  destruct (default_glued_exact ex_tpl_x ex_rc_s ex_l_s ex_r_s ex_host_h ex_m_s ex_T_s eq_refl Hel eq_refl (proj1 ex_default_mode_hyps)
              ex_tpl_condition H2 H3 H4) as (A & _ & C).
  split; [exact A|]. split; [reflexivity|]. split; [reflexivity|]. split; [reflexivity|].
  apply C; [intros; apply in_sort_N_iff|intros; apply nodup_sort_N; assumption].
Qed.
Example ex_default_reactor_total :
  nocrash ex_inp_d /\ nocrash ex_inp_b /\
  run_ops ex_inp_b rs0 [Osmiles; Oits; Oits; Osmarts] = map (spec_val ex_inp_b) [Osmiles; Oits; Oits; Osmarts] /\
  exists gs, spec_its ex_inp_b = Some gs.
Proof.
  destruct ex_backward_default_hyps as (H1 & H2 & _).
  destruct (default_reactor_total true ex_inp_b ex_tpl_x _ _ _ (proj1 ex_default_tpl_okb) eq_refl H1 eq_refl H2) as (A & B & C & _).
  destruct ex_default_mode_hyps as (F1 & _).
  destruct (default_reactor_total false ex_inp_d ex_tpl_x _ _ _ (proj1 ex_default_tpl_okb) eq_refl F1 eq_refl (proj1 (proj2 (proj2 (proj2 ex_default_end_to_end_hyps))))) as (A' & _).
  split; [exact A'|]. split; [exact A|]. split; [exact (B _)|exact C].
Qed.

(** no pair ids: _explicit_h is the identity (the SynRule object of ex_tpl_x applied backwards) *)
Example ex_no_pairs :
  nocrash ex_inp_ob /\ spec_its ex_inp_ob = Some (map fst (spec_glued ex_inp_ob)) /\ length (spec_glued ex_inp_ob) = 1%nat /\
  explicit_h_ord sort_N (invert_template ex_rc_s) = Some (invert_template ex_rc_s, []).
Proof.
  assert (Hel : forall k a, In (k, a) (gnodes ex_tpl_x) -> a_el (iH a) = a_el (iG a)).
  { intros k a I. simpl in I. destruct I as [I|[I|[I|[]]]]; inversion I; reflexivity. }
  destruct (synrule_object_backward_total false ex_inp_ob ex_tpl_x ex_rc_s ex_l_s ex_r_s (proj1 ex_default_mode_hyps) eq_refl Hel
              eq_refl eq_refl eq_refl (proj1 ex_synrule_object_backward_hyps)) as (A & _ & C).
  split; [exact A|]. split; [exact C|]. split; [reflexivity|]. apply explicit_h_no_pairs. apply invert_no_pairs.
Qed.

(** the implicit-template mode, total: backward quaternisation *)
Example ex_implicit_total : nocrash ex_inp_bwd /\ run_ops ex_inp_bwd rs0 [Osmarts; Oits] = map (spec_val ex_inp_bwd) [Osmarts; Oits].
Proof.
  destruct ex_implicit_hyps as (_ & _ & _ & _ & H5 & H6 & H7 & H8 & _).
  destruct (implicit_reactor_total true ex_inp_bwd ex_rc eq_refl eq_refl H5 H6 H7 H8) as (A & B & _). split; [exact A|exact (B _)].
Qed.
