(** C18 — the slot-based union-find of CRNCanonicalizer._orbits_from_perms never joins nodes that are not exchangeable and
    loses no node (sound half of clause 4 "orbits" for the canonicaliser; the complete half is tested, see props/C18.v). *)
From Coq Require Import List NArith ZArith Bool Arith Lia Permutation.
From SK Require Import lib.IRCore lib.IRSearch model.C18_Model proof.C18_Spec proof.C18_Graph.
Import ListNotations.

(* ---------------- list plumbing ---------------- *)
Lemma set_nth_length {A} i (x : A) l : length (set_nth i x l) = length l.
Proof. revert i. induction l as [|y l IH]; intros [|i]; simpl; auto. Qed.
Lemma nth_set_nth {A} k i (x d : A) l : nth k (set_nth i x l) d = if Nat.eqb k i && Nat.ltb i (length l) then x else nth k l d.
Proof.
  revert k i. induction l as [|y l IH]; intros k i; simpl.
  - destruct k, i; simpl; rewrite ?andb_false_r; auto.
  - destruct i as [|i], k as [|k]; simpl; auto. rewrite IH. reflexivity.
Qed.
Lemma union_set_in a b x : In x (union_set a b) <-> In x a \/ In x b.
Proof.
  unfold union_set. rewrite in_app_iff, filter_In. split; [tauto|].
  intros [H|H]; auto. destruct (memN x a) eqn:E; [left; apply memN_spec; auto|right; split; auto].
Qed.
Lemma omap_get_push o2 i : forall m v, omap_get (fold_left (fun m v => (v, i) :: m) o2 m) v = if memN v o2 then i else omap_get m v.
Proof.
  induction o2 as [|x o2 IH]; intros m v; simpl; auto. rewrite IH. simpl.
  unfold memN. simpl. destruct (existsb (N.eqb v) o2) eqn:E; [rewrite orb_true_r; auto|].
  rewrite orb_false_r. rewrite (N.eqb_sym v x). destruct (N.eqb x v); auto.
Qed.

Section Sound.
Variable first : list N.
Variable R : N -> N -> Prop.
Hypothesis R_sym : forall x y, R x y -> R y x.
Hypothesis R_trans : forall x y z, R x y -> R y z -> R x z.

Definition len := length first.
Definition Inv (s : ostate) : Prop :=
  length (snd s) = len /\
  (forall i, i < len -> nth i (snd s) [] = [] \/ In (nth i first 0%N) (nth i (snd s) [])) /\
  (forall v, In v first -> omap_get (fst s) v < len /\ In v (nth (omap_get (fst s) v) (snd s) [])) /\
  (forall i x y, In x (nth i (snd s) []) -> In y (nth i (snd s) []) -> R x y) /\
  (forall i x, In x (nth i (snd s) []) -> In x first).

Lemma omerge_inv s i v : Inv s -> i < len -> In v first -> R (nth i first 0%N) v -> (forall x, In x first -> R x x) ->
  Inv (omerge s i (omap_get (fst s) v)).
Proof.
  intros (Hl & Hb & Hc & Hd & He) Hi Hv HR Hrefl. destruct (Hc v Hv) as [Hj Hvj].
  set (j := omap_get (fst s) v) in *. unfold omerge.
  destruct (Nat.eqb_spec i j) as [Eij|Hne]; [exact (conj Hl (conj Hb (conj Hc (conj Hd He))))|].
  set (o1 := nth i (snd s) []). set (o2 := nth j (snd s) []).
  assert (Cross : forall x y, In x o1 -> In y o2 -> R x y).
  { intros x y Hx Hy. destruct (Hb i Hi) as [E0|Hf]; [unfold o1 in Hx; rewrite E0 in Hx; contradiction|].
    apply (R_trans x (nth i first 0%N)); [apply (Hd i); auto|]. apply (R_trans _ v); auto. apply (Hd j); auto. }
  (* after the possible swap: receiver a, absorbed b *)
  assert (G : forall a b oa ob, a <> b -> a < len -> b < len -> oa = nth a (snd s) [] -> ob = nth b (snd s) [] ->
            length ob <= length oa -> (forall x y, In x oa -> In y ob -> R x y) ->
            Inv (fold_left (fun m v0 => (v0, a) :: m) ob (fst s), set_nth b [] (set_nth a (union_set oa ob) (snd s)))).
  { intros a b oa ob Hab Ha Hb' Eoa Eob Hsz Hx.
    assert (Nth : forall k, nth k (set_nth b [] (set_nth a (union_set oa ob) (snd s))) []
                  = if Nat.eqb k b then [] else if Nat.eqb k a then union_set oa ob else nth k (snd s) []).
    { intros k. rewrite nth_set_nth, set_nth_length, nth_set_nth, Hl.
      destruct (Nat.eqb_spec k b) as [->|Hkb]; simpl.
      - destruct (Nat.ltb_spec b len); [reflexivity|lia].
      - destruct (Nat.eqb_spec k a) as [->|Hka]; simpl; auto. destruct (Nat.ltb_spec a len); [reflexivity|lia]. }
    split; [simpl; rewrite !set_nth_length; auto|]. split; [|split; [|split]]; simpl.
    - intros k Hk. rewrite Nth. destruct (Nat.eqb_spec k b); auto. destruct (Nat.eqb_spec k a) as [->|Hka]; auto.
      destruct (Hb a Ha) as [E|Hf].
      + left. assert (E1 : oa = []) by (rewrite Eoa; exact E). rewrite E1 in *. destruct ob as [|z ob']; [reflexivity|simpl in Hsz; lia].
      + right. apply union_set_in. left. rewrite Eoa. auto.
    - intros w Hw. rewrite omap_get_push. destruct (Hc w Hw) as [Hwl Hwin]. destruct (memN w ob) eqn:Ew.
      + split; auto. rewrite Nth. destruct (Nat.eqb_spec a b); [congruence|]. rewrite Nat.eqb_refl.
        apply union_set_in. right. apply memN_spec. auto.
      + split; auto. rewrite Nth. destruct (Nat.eqb_spec (omap_get (fst s) w) b) as [Eb|Hnb].
        * exfalso. rewrite Eb, <- Eob in Hwin. apply memN_spec in Hwin. congruence.
        * destruct (Nat.eqb_spec (omap_get (fst s) w) a) as [Ea|Hna]; auto.
          apply union_set_in. left. rewrite Eoa, <- Ea. auto.
    - intros k x y. rewrite Nth. destruct (Nat.eqb_spec k b); [intros []|]. destruct (Nat.eqb_spec k a) as [->|Hka]; [|apply Hd].
      rewrite !union_set_in. intros [H1|H1] [H2|H2].
      + apply (Hd a); rewrite <- Eoa; auto.
      + apply Hx; auto.
      + apply R_sym. apply Hx; auto.
      + apply (Hd b); rewrite <- Eob; auto.
    - intros k x. rewrite Nth. destruct (Nat.eqb_spec k b); [intros []|]. destruct (Nat.eqb_spec k a) as [->|Hka]; [|apply He].
      rewrite union_set_in. intros [H1|H1]; [apply (He a); rewrite <- Eoa; auto|apply (He b); rewrite <- Eob; auto]. }
  destruct (Nat.ltb_spec (length o1) (length o2)).
  - apply (G j i o2 o1); auto; try lia; intros x y Hx Hy; apply R_sym; apply Cross; auto.
  - apply (G i j o1 o2); auto.
Qed.
End Sound.

(* ---------------- the initial state ---------------- *)
Definition push (m : list (N * nat)) (iv : nat * N) : list (N * nat) := (snd iv, fst iv) :: m.

Lemma omap_push_notin l : forall a m v, ~ In v l -> omap_get (fold_left push (combine (seq a (length l)) l) m) v = omap_get m v.
Proof.
  induction l as [|x l IH]; intros a m v Hn; simpl; auto.
  rewrite IH by (intro I; apply Hn; right; auto). simpl.
  destruct (N.eqb_spec x v) as [->|Hne]; auto. exfalso. apply Hn. left. auto.
Qed.
Lemma omap_push_in l : forall a m v, In v l ->
  a <= omap_get (fold_left push (combine (seq a (length l)) l) m) v < a + length l /\
  nth (omap_get (fold_left push (combine (seq a (length l)) l) m) v - a) l 0%N = v.
Proof.
  induction l as [|x l IH]; intros a m v Hv; simpl in *; [contradiction|].
  destruct (in_dec N.eq_dec v l) as [I|I].
  - destruct (IH (S a) (push m (a, x)) v I) as [H1 H2]. split; [lia|].
    set (r := omap_get (fold_left push (combine (seq (S a) (length l)) l) (push m (a, x))) v) in *.
    replace (r - a) with (S (r - S a)) by lia. exact H2.
  - destruct Hv as [->|Hv]; [|contradiction]. rewrite omap_push_notin by auto. simpl. rewrite N.eqb_refl.
    split; [lia|]. rewrite Nat.sub_diag. reflexivity.
Qed.

Lemma nth_map_single (l : list N) i : i < length l -> nth i (map (fun v => [v]) l) [] = [nth i l 0%N].
Proof. revert i. induction l as [|x l IH]; intros [|i] H; simpl in *; try lia; auto. apply IH. lia. Qed.

Lemma Inv_init first (R : N -> N -> Prop) : (forall x, In x first -> R x x) -> Inv first R (oinit first).
Proof.
  intros Hrefl. unfold Inv, oinit, len. simpl. split; [apply map_length|]. split; [|split; [|split]].
  - intros i Hi. right. rewrite nth_map_single by auto. left. auto.
  - intros v Hv. unfold indexed. change (fun (m : list (N * nat)) (iv : nat * N) => (snd iv, fst iv) :: m) with push.
    destruct (omap_push_in first 0 [] v Hv) as [H1 H2]. rewrite Nat.sub_0_r in H2. split; [lia|].
    rewrite nth_map_single by lia. left. auto.
  - intros i x y Hx Hy. destruct (Nat.lt_ge_cases i (length first)) as [Hi|Hi].
    + rewrite nth_map_single in Hx, Hy by auto. destruct Hx as [<-|[]], Hy as [<-|[]]. apply Hrefl. apply nth_In. auto.
    + rewrite nth_overflow in Hx by (rewrite map_length; auto). contradiction.
  - intros i x Hx. destruct (Nat.lt_ge_cases i (length first)) as [Hi|Hi].
    + rewrite nth_map_single in Hx by auto. destruct Hx as [<-|[]]. apply nth_In. auto.
    + rewrite nth_overflow in Hx by (rewrite map_length; auto). contradiction.
Qed.

Lemma in_combine_seq {A} (l : list A) d : forall a i v, In (i, v) (combine (seq a (length l)) l) -> a <= i < a + length l /\ nth (i - a) l d = v.
Proof.
  induction l as [|x l IH]; intros a i v H; simpl in *; [contradiction|].
  destruct H as [E|H].
  - inversion E; subst. split; [lia|]. rewrite Nat.sub_diag. reflexivity.
  - destruct (IH (S a) i v H) as [H1 H2]. split; [lia|]. replace (i - a) with (S (i - S a)) by lia. exact H2.
Qed.

Theorem orbits_from_perms_sound first rest (R : N -> N -> Prop) :
  (forall x y, R x y -> R y x) -> (forall x y z, R x y -> R y z -> R x z) -> (forall x, In x first -> R x x) ->
  (forall q, In q rest -> length q = length first /\
     forall i, i < length first -> In (nth i q 0%N) first /\ R (nth i first 0%N) (nth i q 0%N)) ->
  (forall c, In c (orbits_from_perms (first :: rest)) -> forall x y, In x c -> In y c -> R x y) /\
  (forall v, In v first -> exists c, In c (orbits_from_perms (first :: rest)) /\ In v c).
Proof.
  intros Rs Rt Rr HQ. unfold orbits_from_perms.
  set (stepq := fun (s : ostate) (p : list N) => fold_left (fun s iv => omerge s (fst iv) (omap_get (fst s) (snd iv))) (indexed p) s).
  assert (Hfin : Inv first R (fold_left stepq rest (oinit first))).
  { assert (G : forall qs s, (forall q, In q qs -> In q rest) -> Inv first R s -> Inv first R (fold_left stepq qs s)).
    { induction qs as [|q qs IH]; intros s Hin Hs; simpl; auto. apply IH; [intros; apply Hin; right; auto|].
      destruct (HQ q (Hin q (or_introl eq_refl))) as [Hlq Hq]. unfold stepq, indexed.
      assert (G2 : forall L s0, (forall iv, In iv L -> In iv (combine (seq 0 (length q)) q)) -> Inv first R s0 ->
                   Inv first R (fold_left (fun s iv => omerge s (fst iv) (omap_get (fst s) (snd iv))) L s0)).
      { induction L as [|[i v] L IHL]; intros s0 HL Hs0; simpl; auto. apply IHL; [intros; apply HL; right; auto|].
        destruct (in_combine_seq q 0%N 0 i v (HL _ (or_introl eq_refl))) as [Hi Hn]. rewrite Nat.sub_0_r in Hn.
        assert (Hi' : i < length first) by lia. destruct (Hq i Hi') as [Hin1 HR]. rewrite Hn in *.
        apply omerge_inv; auto. }
      apply G2; auto. }
    apply G; auto. apply Inv_init; auto. }
  destruct Hfin as (Hl & Hb & Hc & Hd & He). split.
  - intros c Hc' x y Hx Hy. apply filter_In in Hc'. destruct Hc' as [Hc' _].
    destruct (In_nth _ _ [] Hc') as (i & _ & <-). apply (Hd i); auto.
  - intros v Hv. destruct (Hc v Hv) as [Hj Hin]. eexists. split; [|exact Hin].
    apply filter_In. split.
    + apply nth_In. unfold len in *. lia.
    + destruct (nth _ _ _); [contradiction|reflexivity].
Qed.
