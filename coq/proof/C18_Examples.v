(** C18 — non-vacuity examples for the theorems of props/C18.v and the witness of the known finding
    C18:view-id-collision.  Intermediate values are top-level definitions (no let-patterns in statements). *)
From Coq Require Import List NArith ZArith Bool Arith Lia Permutation.
From SK Require Import lib.IRSortKeys lib.IRCore lib.IRSearch model.C18_Model
  proof.C18_Order proof.C18_Spec proof.C18_Graph proof.C18_Canon proof.C18_Equiv proof.C18_Label proof.C18_Aut
  proof.C18_Invariant proof.C18_Wf proof.C18_Count proof.C18_View proof.C18_Refine proof.C18_NetBip proof.C18_Net proof.C18_Orbits.
From SK Require Import lib.C18_IRValid model.C18_AttrModel proof.C18_Attr.
Import ListNotations.

(* ---------------- a checker for Permutation on concrete lists ---------------- *)
Section Permb.
Variable A : Type.
Variable eqb : A -> A -> bool.
Hypothesis eqb_eq : forall x y, eqb x y = true -> x = y.
Fixpoint remove1 (x : A) (l : list A) : option (list A) :=
  match l with
  | [] => None
  | y :: r => if eqb x y then Some r else option_map (cons y) (remove1 x r)
  end.
Fixpoint permb (l l' : list A) : bool :=
  match l with
  | [] => match l' with [] => true | _ => false end
  | x :: r => match remove1 x l' with Some l'' => permb r l'' | None => false end
  end.
Lemma remove1_perm x l l' : remove1 x l = Some l' -> Permutation l (x :: l').
Proof.
  revert l'. induction l as [|y r IH]; simpl; intros l' H; [discriminate|].
  destruct (eqb x y) eqn:E.
  - apply eqb_eq in E. subst. inversion H; subst. auto.
  - destruct (remove1 x r) as [r'|]; [|discriminate]. inversion H; subst.
    eapply perm_trans; [apply perm_skip; apply IH; reflexivity|apply perm_swap].
Qed.
Lemma permb_perm l : forall l', permb l l' = true -> Permutation l l'.
Proof.
  induction l as [|x r IH]; intros l' H; simpl in H.
  - destruct l'; [auto|discriminate].
  - destruct (remove1 x l') as [l''|] eqn:E; [|discriminate].
    apply Permutation_sym. eapply perm_trans; [apply remove1_perm; exact E|]. apply perm_skip. apply Permutation_sym. auto.
Qed.
End Permb.

Definition node_eqb (a b : N * Z) : bool := N.eqb (fst a) (fst b) && Z.eqb (snd a) (snd b).
Definition arc_eqb (a b : arc) : bool :=
  N.eqb (asrc a) (asrc b) && N.eqb (adst a) (adst b) && Z.eqb (fst (aattr a)) (fst (aattr b)) && Z.eqb (snd (aattr a)) (snd (aattr b)).
Lemma node_eqb_eq a b : node_eqb a b = true -> a = b.
Proof. destruct a, b. unfold node_eqb. simpl. rewrite andb_true_iff, N.eqb_eq, Z.eqb_eq. intros [-> ->]. auto. Qed.
Lemma arc_eqb_eq a b : arc_eqb a b = true -> a = b.
Proof.
  destruct a as [[a1 a2] [a3 a4]], b as [[b1 b2] [b3 b4]]. unfold arc_eqb, asrc, adst, aattr. simpl.
  rewrite !andb_true_iff, !N.eqb_eq, !Z.eqb_eq. intros [[[-> ->] ->] ->]. auto.
Qed.
Definition geqb (g h : vgraph) : bool := permb _ node_eqb (vnodes g) (vnodes h) && permb _ arc_eqb (varcs g) (varcs h).
Lemma geqb_geq g h : geqb g h = true -> geq g h.
Proof.
  unfold geqb. rewrite andb_true_iff. intros [H1 H2]. split.
  - apply (permb_perm _ node_eqb node_eqb_eq). auto.
  - apply (permb_perm _ arc_eqb arc_eqb_eq). auto.
Qed.

(* ---------------- the running example: A >> C, B >> C and a renamed, re-ordered copy ---------------- *)
(** ids: A=0 B=1 C=2 r_1=3 r_2=4 *)
Definition n1 : net := Net [0;1;2]%N [Rxn 3%N [(0%N, 1%Z)] [(2%N, 1%Z)]; Rxn 4%N [(1%N, 1%Z)] [(2%N, 1%Z)]].
(** the renaming x -> 4 - x on 0..4 (identity elsewhere): species become 4,3,2, reactions 1,0; reactions listed in the other order *)
Definition fx (x : N) : N := if N.ltb x 5 then (4 - x)%N else x.
Definition n2 : net := Net [4;3;2]%N [Rxn 0%N [(3%N, 1%Z)] [(2%N, 1%Z)]; Rxn 1%N [(4%N, 1%Z)] [(2%N, 1%Z)]].
(** same skeleton, one coefficient raised: not isomorphic with stoichiometry *)
Definition n3 : net := Net [0;1;2]%N [Rxn 3%N [(0%N, 2%Z)] [(2%N, 1%Z)]; Rxn 4%N [(1%N, 1%Z)] [(2%N, 1%Z)]].

Definition g1 := view true true n1.
Definition g2 := view true true n2.
Definition g3 := view true true n3.
Definition s1 := canon_search g1.
Definition s2 := canon_search g2.
Definition s3 := canon_search g3.
Definition lab1 := match fst s1 with Some lp => fst lp | None => [] end.
Definition p1 := match fst s1 with Some lp => snd lp | None => [] end.
Definition lab2 := match fst s2 with Some lp => fst lp | None => [] end.
Definition p2 := match fst s2 with Some lp => snd lp | None => [] end.
Definition p3 := match fst s3 with Some lp => snd lp | None => [] end.

Lemma fx_inj x y : fx x = fx y -> x = y.
Proof. unfold fx. destruct (N.ltb_spec x 5), (N.ltb_spec y 5); lia. Qed.

Lemma wf_g1 : wf g1. Proof. apply wfb_wf. vm_compute. reflexivity. Qed.
Lemma wf_g2 : wf g2. Proof. apply wfb_wf. vm_compute. reflexivity. Qed.
Lemma wf_g3 : wf g3. Proof. apply wfb_wf. vm_compute. reflexivity. Qed.
Lemma kinds_g1 : kinds_ok g1. Proof. apply kinds_okb_ok. vm_compute. reflexivity. Qed.
Lemma arcs_g1 : arcs_ok g1. Proof. apply arcs_okb_ok. vm_compute. reflexivity. Qed.
Lemma geq_g2 : geq g2 (relabel fx g1). Proof. apply geqb_geq. vm_compute. reflexivity. Qed.
Lemma best1 : fst s1 = Some (lab1, p1). Proof. vm_compute. reflexivity. Qed.
Lemma best2 : fst s2 = Some (lab2, p2). Proof. vm_compute. reflexivity. Qed.

(** C18_search_is_fold / C18_canon_found: the search of the example needs individualisation (prefix of length 1:
    the best permutation has 6 entries for 5 nodes) and finds two minimal leaves *)
Example ex_found : fst s1 <> None /\ length p1 = 6 /\ length (vnodes g1) = 5 /\ length (snd s1) = 2.
Proof. vm_compute. repeat split; discriminate. Qed.

(** C18_canon_iso: premises hold; the canonical ids are 2..6 *)
Example ex_canon_iso : wf g1 /\ fst s1 = Some (lab1, p1) /\
  Permutation (node_ids (canon_graph g1 p1)) (map N.of_nat (seq 2 5)).
Proof.
  split; [exact wf_g1|]. split; [exact best1|].
  apply (permb_perm _ N.eqb (fun x y H => proj1 (N.eqb_eq x y) H)). vm_compute. reflexivity.
Qed.

(** C18_sig_rel / C18_leaves_equivariant / C18_canon_invariant: all premises hold for (g1, g2, fx) and the two views are
    different presentations (different ids, different arc order); the conclusion is checked independently *)
Example ex_invariant_premises :
  (forall x y, fx x = fx y -> x = y) /\ wf g1 /\ kinds_ok g1 /\ arcs_ok g1 /\ geq g2 (relabel fx g1) /\
  fst s1 = Some (lab1, p1) /\ fst s2 = Some (lab2, p2) /\ g2 <> g1 /\ varcs g2 <> varcs (relabel fx g1).
Proof.
  split; [exact fx_inj|]. split; [exact wf_g1|]. split; [exact kinds_g1|]. split; [exact arcs_g1|].
  split; [exact geq_g2|]. split; [exact best1|]. split; [exact best2|]. split; vm_compute; discriminate.
Qed.
Example ex_invariant_conclusion : lab2 = lab1 /\ geq (canon_graph g2 p2) (canon_graph g1 p1).
Proof. exact (canon_invariant fx fx_inj g1 g2 lab1 p1 lab2 p2 wf_g1 kinds_g1 arcs_g1 geq_g2 best1 best2). Qed.

(** C18_canon_complete: premises hold for (g1, g2); and for the non-isomorphic g3 the canonical graphs differ *)
Example ex_complete : iso g1 g2.
Proof.
  apply (canon_complete g1 g2 lab1 p1 lab2 p2 wf_g1 wf_g2 best1 best2). apply geq_sym. exact (proj2 ex_invariant_conclusion).
Qed.
Example ex_complete_differs : geqb (canon_graph g1 p1) (canon_graph g3 p3) = false.
Proof. vm_compute. reflexivity. Qed.

(* ---------------- the known finding C18:view-id-collision ---------------- *)
(** A >> B with reaction id r_1; ids A=0 B=1 r_1=2.  Renaming species A to "r_1" gives species {B=0, r_1=1} and the
    reaction id r_1=1 in the shared namespace of the view: the species node and the reaction node collapse. *)
Definition nc : net := Net [0;1]%N [Rxn 2%N [(0%N, 1%Z)] [(1%N, 1%Z)]].
Definition nc' : net := Net [0;1]%N [Rxn 1%N [(1%N, 1%Z)] [(0%N, 1%Z)]].
Lemma view_id_collision : length (vnodes (view true true nc)) = 3 /\ length (vnodes (view true true nc')) = 2 /\
  has_arc (view true true nc') 1%N 1%N = true.
Proof. vm_compute. auto. Qed.

(** stated on the network: an injective renaming of the species whose image meets the reaction ids changes the number of
    nodes of the view, so the views (and canonical graphs) of the two networks are not isomorphic *)
Definition fcol (x : N) : N := if N.eqb x 0 then 2%N else x.
Lemma species_renaming_refuted : exists (n : net) (f : N -> N),
  inj_on f (nspecies n) /\ length (vnodes (view true true (rename_species f n))) <> length (vnodes (view true true n)).
Proof.
  exists nc, fcol. split.
  - intros x y Hx Hy. simpl in Hx, Hy. destruct Hx as [<-|[<-|[]]], Hy as [<-|[<-|[]]]; vm_compute; congruence.
  - vm_compute. discriminate.
Qed.

(** C18_aut_count / C18_orbit_relation: the example view has exactly two minimal leaves, i.e. two structure-preserving
    self-maps (identity and A<->B, r_1<->r_2); the second leaf is the image of the first under the swap *)
Definition swapx (x : N) : N :=
  if N.eqb x 0 then 1%N else if N.eqb x 1 then 0%N else if N.eqb x 3 then 4%N else if N.eqb x 4 then 3%N else x.
Definition leaf_a : list N := [3;3;4;1;0;2]%N.
Definition leaf_b : list N := [4;4;3;0;1;2]%N.
Lemma min_leaves_g1 : min_leaves g1 = [leaf_a; leaf_b]. Proof. vm_compute. reflexivity. Qed.
Lemma p1_eq : p1 = leaf_a. Proof. vm_compute. reflexivity. Qed.
Example ex_aut_count : length (min_leaves g1) = 2 /\ leaf_b = map swapx leaf_a /\ leaf_b <> leaf_a.
Proof. rewrite min_leaves_g1. split; [reflexivity|]. split; [reflexivity|discriminate]. Qed.
Example ex_aut_count_thm : exists s, is_aut g1 s /\ leaf_b = map s p1.
Proof.
  assert (I : In leaf_b (min_leaves g1)) by (rewrite min_leaves_g1; right; left; reflexivity).
  pose proof (aut_count g1 lab1 p1 wf_g1 kinds_g1 arcs_g1 best1) as H.
  exact (proj1 (proj1 (proj2 H) leaf_b) I).
Qed.

(** C18_view_wf: the premises hold for the example network *)
Example ex_view_wf : coeffs_ok n1 /\ net_closed n1.
Proof.
  split; intros r Hr sc Hsc; simpl in Hr; destruct Hr as [<-|[<-|[]]]; simpl in Hsc;
    destruct Hsc as [<-|[<-|[]]]; simpl; try lia; auto.
Qed.

(** C18_vf2_count: the reference enumerator finds the same two self-maps *)
Example ex_vf2_count : length (auts g1) = 2 /\ length (auts g3) = 1.
Proof. vm_compute. auto. Qed.

(** C18_refine_stable: the premise holds for the initial partition of the example (and the first refinement splits it) *)
Example ex_refine_stable : vpart (node_ids g1) (init_part g1) /\
  length (init_part g1) = 2 /\ length (refine IRInst.lexleb (sig g1) 6 (init_part g1)) = 3.
Proof. split; [apply init_part_vpart; apply wf_g1|]. vm_compute. auto. Qed.

(** C18_net_canon_invariant_bip: n2 is n1 with species renamed, reactions re-ordered and reaction ids regenerated *)
Lemma nodup_N (l : list N) : nodupb N.eqb l = true -> NoDup l.
Proof. apply (nodupb_spec N.eqb N.eqb_eq). Qed.
Lemma nodup_NN (l : list (N * N)) : nodupb pairN_eqb l = true -> NoDup l.
Proof. apply (nodupb_spec pairN_eqb pairN_eqb_spec). Qed.
Lemma closed_n (n : net) : forallb (fun r => forallb (fun sc => memN (fst sc) (nspecies n)) (lhs r ++ rhs r)) (nrxns n) = true -> net_closed n.
Proof.
  intros H r Hr sc Hsc. rewrite forallb_forall in H. specialize (H r Hr). rewrite forallb_forall in H.
  apply memN_spec. apply H. exact Hsc.
Qed.
Example ex_net_ok : net_ok true n1 /\ net_ok true n2.
Proof.
  split; (split; [apply nodup_N; vm_compute; reflexivity|split; [apply closed_n; vm_compute; reflexivity|apply nodup_NN; vm_compute; reflexivity]]).
Qed.
Example ex_net_variant : net_variant fx n1 n2.
Proof.
  split; [vm_compute; apply Permutation_refl|].
  exists [Rxn 1%N [(4%N, 1%Z)] [(2%N, 1%Z)]; Rxn 0%N [(3%N, 1%Z)] [(2%N, 1%Z)]]. split.
  - repeat constructor.
  - apply perm_swap.
Qed.
Example ex_net_invariant : lab2 = lab1 /\ geq (canon_graph (view true true n2) p2) (canon_graph (view true true n1) p1).
Proof.
  apply (net_canon_invariant_bip true fx n1 n2 lab1 p1 lab2 p2 (proj1 ex_net_ok) (proj2 ex_net_ok) (proj1 ex_view_wf) ex_net_variant).
  - intros x y _ _. apply fx_inj.
  - exact best1.
  - exact best2.
Qed.

(** C18_vf2_orbits: the orbit classes of the example: {A,B}, {C}, {r_1,r_2} *)
Example ex_vf2_orbits : conn (uf_orbits (node_ids g1) (auts g1)) 0%N 1%N /\ length (uf_orbits (node_ids g1) (auts g1)) = 3.
Proof. split; [exists [1;0]%N; vm_compute; auto|vm_compute; reflexivity]. Qed.

(** C18_orbits / C18_orbits_cover: the canonicaliser's orbit list of the example: {r_1,r_2}, {A,B}, {C} *)
Example ex_canon_orbits : orbits_from_perms (min_leaves g1) = [[3;4];[1;0];[2]]%N.
Proof. rewrite min_leaves_g1. vm_compute. reflexivity. Qed.

(** C18_net_renamed_ids: the premises hold for the example network under the renaming fx *)
Example ex_renamed_ids : net_ok true (rename_net fx n1) /\ inj_on fx (nspecies n1 ++ map rid (nrxns n1)) /\
  view true true (rename_net fx n1) <> view true true n1.
Proof.
  split; [split; [apply nodup_N; vm_compute; reflexivity|split; [apply closed_n; vm_compute; reflexivity|apply nodup_NN; vm_compute; reflexivity]]|].
  split; [intros x y _ _; apply fx_inj|vm_compute; discriminate].
Qed.

(** C18_mappings: the two mappings of the example (identity and the swap) *)
Example ex_mappings : length (maps_from_perms leaf_a [leaf_a; leaf_b]) = 2 /\
  existsb (fun kv => N.eqb (fst kv) 0 && N.eqb (snd kv) 1) (nth 1 (maps_from_perms leaf_a [leaf_a; leaf_b]) []) = true.
Proof. vm_compute. split; reflexivity. Qed.

(** C18_attr_default / C18_attr_canon_iso: the example view under the selection (label, bipartite; stoich) with label table
    A,B,C < r (species labelled by name, both reactions by rule "r"): the labels split {A,B}, the search needs no individualisation *)
Definition lt1 : ltab := [(0%N, (0%Z, [65%N])); (1%N, (1%Z, [66%N])); (2%N, (2%Z, [67%N])); (3%N, (3%Z, [114%N])); (4%N, (3%Z, [114%N]))].
Example ex_attr : NoDup (node_ids g1) /\ length (snd (canon_searchA g1 lt1 [NLabel; NBip] [EStoich])) = 1 /\
  length (snd (canon_searchA g1 lt1 [] [])) = 2.
Proof. split; [apply wf_g1|]. vm_compute. auto. Qed.

(** C18_wl_respects_selected_auts / C18_wl_never_splits_orbit / C18_wl_cells_partition: the example view has a non-trivial
    structure-preserving self-map (ex_aut_count_thm: A <-> B, r_1 <-> r_2); the WL colour cells under the default options are
    {r_1,r_2}, {A,B}, {C}; with n_iter = 0 and without neighbours the cells are the coarser {r_1,r_2}, {A,B,C}-split by degree *)
From SK Require Import model.C18_WLModel proof.C18_WL.
Definition wl1 := wl_colors g1 [] [NKind] [ERole; EStoich] true true 20.
Example ex_wl : (exists s, is_aut g1 s /\ leaf_b = map s p1) /\
  wl_cells g1 wl1 = [[3;4];[0;1];[2]]%N /\ map fst wl1 = node_ids g1 /\
  wl_cells g1 (wl_colors g1 lt1 [NLabel] [] false false 3) = [[0];[1];[2];[3;4]]%N.
Proof. split; [exact ex_aut_count_thm|]. vm_compute. auto. Qed.
Example ex_wl_autA : exists s, is_autA g1 lt1 [NKind; NBip; NNone] [EStoich; ENone] s /\ leaf_b = map s p1.
Proof.
  destruct ex_aut_count_thm as (s & Hs & E). exists s. split; auto.
  apply is_aut_is_autA; auto. repeat constructor; discriminate.
Qed.

(** C18_max_depth_*: the example needs one individualisation: max_depth = 0 stops early before any leaf (the code raises), with
    max_depth = 1 the answer is complete and the flag says so; 5 nodes: any bound >= 5 is enough by the theorem *)
From SK Require Import model.C18_DepthModel proof.C18_Depth.
Example ex_max_depth : canon_search_md g1 (Some 0) = ((None, []), true) /\
  canon_search_md g1 (Some 1) = (canon_search g1, false) /\ length (vnodes g1) <= 5 /\ fst (canon_search g1) <> None.
Proof. vm_compute. repeat split; auto; discriminate. Qed.

(** C18_intids_*: the example network under integer_ids: species 1,2,3, reactions 4,5 -- a different view, same canonical graph *)
From SK Require Import model.C18_IntIdsModel proof.C18_IntIds.
Example ex_intids : net_ok true n1 /\ coeffs_ok n1 /\
  intids_net n1 = Net [1;2;3]%N [Rxn 4%N [(1%N, 1%Z)] [(3%N, 1%Z)]; Rxn 5%N [(2%N, 1%Z)] [(3%N, 1%Z)]] /\
  view true true (intids_net n1) <> view true true n1.
Proof. split; [exact (proj1 ex_net_ok)|]. split; [exact (proj1 ex_view_wf)|]. vm_compute. split; [reflexivity|discriminate]. Qed.

(** C18_vf2_uf_*: the structure-following union-find on the two self-maps of the example: parent links after the run, buckets in
    node order {A,B}, {C}, {r_1,r_2}; the bookkeeping of summary(max_count=1) on 2 mappings: stopped early after one *)
From SK Require Import model.C18_UFModel proof.C18_UF.
Example ex_uf : orbits_from_mappings (node_ids g1) (auts g1) = [[0;1];[2];[3;4]]%N /\
  orbits_from_mappings (node_ids g1) (rev (auts g1)) = [[0;1];[2];[3;4]]%N /\
  vf2_bookkeeping 2 1 = (1, true, 1, 1) /\ vf2_bookkeeping 2 100 = (2, false, 2, 2) /\ vf2_bookkeeping 2 (-1) = (1, true, 0, 1).
Proof. vm_compute. auto. Qed.

(** C18_vf2_attr_*: under the selection (label) the two species A and B of the example are told apart: only the identity is left;
    under the empty selection species and reactions are still separated by the arc attributes: 2 self-maps as with (kind) *)
From SK Require Import model.C18_AutAttrModel proof.C18_AutAttr.
Example ex_auts_attr : length (autsA g1 lt1 [NLabel]) = 1 /\ length (autsA g1 lt1 []) = 2 /\ length (autsA g1 lt1 [NKind; NBip]) = 2 /\
  orbits_from_mappings (node_ids g1) (autsA g1 lt1 [NLabel]) = [[0];[1];[2];[3];[4]]%N.
Proof. vm_compute. auto. Qed.

(** C18_spattr_*: 2A >> 3B, 3A + C >> 2B, 4A >> 4B + 2C (ids A=0 B=1 C=2): the arc (A, B) of the species view aggregates three
    contributions to (min 2 3 4, min 3 2 4) = (2, 2); the selection (kind; stoich_r, stoich_p) finds a leaf *)
From SK Require Import model.C18_SpAttrModel proof.C18_SpAttr.
Definition n_agg : net := Net [0;1;2]%N [Rxn 3%N [(0%N, 2%Z)] [(1%N, 3%Z)]; Rxn 4%N [(0%N, 3%Z); (2%N, 1%Z)] [(1%N, 2%Z)];
                                          Rxn 5%N [(0%N, 4%Z)] [(1%N, 4%Z); (2%N, 2%Z)]].
Example ex_spattr : find_arc (view_spS n_agg) 0%N 1%N = Some (2%Z, 2%Z) /\ net_closed n_agg /\
  fst (canon_searchS (view_spS n_agg) [] [NKind] [SR; SP]) <> None /\ node_ids (view_spS n_agg) <> [].
Proof.
  split; [vm_compute; reflexivity|]. split; [apply closed_n; vm_compute; reflexivity|]. split; vm_compute; discriminate.
Qed.

(** max_depth can also stop early AFTER leaves were found, and then the answer may be incomplete: A >> C, C >> A, B >> B in the
    species view (ids A=0 B=1 C=2; a 2-cycle and a loop look alike to the refinement).  Branches A (leaf), B (deeper: stop); the
    branch C with the second minimal leaf is never visited: early_stop = true with 1 leaf, the exact answer has 2 *)
Definition n_loop : net := Net [0;1;2]%N [Rxn 3%N [(0%N, 1%Z)] [(2%N, 1%Z)]; Rxn 4%N [(2%N, 1%Z)] [(0%N, 1%Z)]; Rxn 5%N [(1%N, 1%Z)] [(1%N, 1%Z)]].
Example ex_max_depth_truncated :
  snd (canon_search_md (view false true n_loop) (Some 1)) = true /\
  length (snd (fst (canon_search_md (view false true n_loop) (Some 1)))) = 1 /\
  length (snd (canon_search (view false true n_loop))) = 2.
Proof. vm_compute. auto. Qed.

(** C18_wl_coarser_than_orbits: premises hold for the example (see ex_canon_iso, kinds_g1, arcs_g1); its orbit sets {r_1,r_2},
    {A,B}, {C} coincide with the WL cells (ex_wl) *)
Example ex_wl_coarser : wf g1 /\ kinds_ok g1 /\ arcs_ok g1 /\ fst (canon_search g1) = Some (lab1, p1) /\
  In [1;0]%N (orbits_from_perms (min_leaves g1)).
Proof. split; [exact wf_g1|]. split; [exact kinds_g1|]. split; [exact arcs_g1|]. split; [exact best1|]. rewrite ex_canon_orbits. simpl. auto. Qed.

(** Observation on the known finding C18:view-id-collision: under integer_ids=True species and reactions are numbered separately,
    so the colliding network nc' (species label = reaction id) keeps its three nodes, and its numbered view is the numbered view
    of the collision-free nc up to the naming (canonical graphs geq) *)
Definition cs_nc := canon_search (view true true (intids_net nc)).
Definition cs_nc' := canon_search (view true true (intids_net nc')).
Definition p_nc := match fst cs_nc with Some lp => snd lp | None => [] end.
Definition p_nc' := match fst cs_nc' with Some lp => snd lp | None => [] end.
Example ex_intids_no_collision : length (vnodes (view true true nc')) = 2 /\ length (vnodes (view true true (intids_net nc'))) = 3 /\
  geqb (canon_graph (view true true (intids_net nc')) p_nc') (canon_graph (view true true (intids_net nc)) p_nc) = true.
Proof. vm_compute. auto. Qed.

(** C18_attr_invariant_partial / C18_attr_count_lower_partial: the premises hold for the example pair (g1, g2, fx) with the label
    table lt1, and under the selection (bipartite; stoich) the swap A <-> B, r_1 <-> r_2 preserves the selected attributes *)
From SK Require Import proof.C18_AttrEquiv.
Example ex_attr_invariant : (forall x y, fx x = fx y -> x = y) /\ wf g1 /\ geq g2 (relabel fx g1) /\
  length (snd (canon_searchA g1 lt1 [NBip] [EStoich])) = 2 /\ length (snd (canon_searchA g2 (relab_tab fx lt1) [NBip] [EStoich])) = 2 /\
  length (snd (canon_searchA g1 lt1 [NLabel; NKind] [ERole])) = 1.
Proof. split; [exact fx_inj|]. split; [exact wf_g1|]. split; [exact geq_g2|]. vm_compute. auto. Qed.
Example ex_attr_count_lower : exists s, is_autG g1 (nvA g1 lt1 [NBip]) (evA [EStoich]) s /\ s 0%N = 1%N.
Proof.
  destruct ex_aut_count_thm as (s & Hs & E). exists s. split.
  - destruct Hs as (H1 & H2 & H3 & H4). repeat split; auto.
    + intros v Hv. unfold nvA. simpl. rewrite H3 by auto. reflexivity.
    + intros u v Hu Hv. rewrite H4 by auto. reflexivity.
  - assert (E4 : nth 4 leaf_b 0%N = nth 4 (map s p1) 0%N) by (rewrite E; reflexivity). rewrite p1_eq in E4. vm_compute in E4. auto.
Qed.

(** C18_backend_is_dirty_flags: on the script with an edit behind the hypergraph's back both sides serve the OLD view at the second
    read; C18_intids_species_renaming: the colliding renaming A -> r_1 of nc (fcol) satisfies the premises *)
From SK Require Import model.C18_BackendModel proof.C18_Backend proof.C18_BackendFlags proof.C18_IntIdsRen.
Example ex_dirty_flags : flag_hist n_old [] silent_script = [view true true n_old; view true true n_old] /\
  flag_hist n_old [] method_script = [view true true n_old; view true true n_new].
Proof. vm_compute. auto. Qed.
Example ex_intids_renaming_premises : net_struct nc /\ inj_on fcol (nspecies nc) /\
  length (vnodes (view true true (rename_species fcol nc))) = 2 /\
  length (vnodes (view true true (intids_net (rename_species fcol nc)))) = 3.
Proof.
  split; [|split; [|vm_compute; auto]].
  - split; [apply nodup_N; vm_compute; reflexivity|]. split; [apply nodup_N; vm_compute; reflexivity|]. split; [apply closed_n; vm_compute; reflexivity|].
    intros r [<-|[]]. simpl. split; repeat constructor; simpl; tauto.
  - intros x y Hx Hy. simpl in Hx, Hy. destruct Hx as [<-|[<-|[]]], Hy as [<-|[<-|[]]]; vm_compute; congruence.
Qed.

(** C18_wl_estimate_upper: the example has 2 self-maps; its WL cells have sizes 2, 2, 1: the estimate is 2! * 2! * 1! = 4 >= 2, and
    with cap 3 it is 3 >= min 3 2 *)
From SK Require Import proof.C18_WLBound.
Example ex_wl_estimate : length (auts g1) = 2 /\ estimate (map (@length N) (cellsB g1 true true 20)) 1%N CAP0 = 4%N /\
  estimate (map (@length N) (cellsB g1 true true 20)) 1%N 3%N = 3%N.
Proof. vm_compute. auto. Qed.

(** C18_attr_count_ge_vf2: on the example both tools report 2 under (bipartite), 2 under (kind; absent key) *)
From SK Require Import proof.C18_Cross.
Example ex_cross : length (autsA g1 lt1 [NBip]) = 2 /\ length (snd (canon_searchA g1 lt1 [NBip] [ERole; EStoich])) = 2 /\
  Forall (fun x => x <> NLabel) [NBip].
Proof. split; [vm_compute; reflexivity|]. split; [vm_compute; reflexivity|]. repeat constructor; discriminate. Qed.
