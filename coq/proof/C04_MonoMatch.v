(** C04 — what the search engine returns is a valid match of the RULE: a monomorphism of the translated pattern into the
    translated substrate (C06's specification) satisfies the reactor's predicates on the rule's reactant side ([match_rcb]),
    for a rule whose pattern is its reactant side in both directions ([left_of] and [left_onto]); the default-mode
    preparation returns such a pair. *)
From Coq Require Import List NArith ZArith Bool Arith Lia Permutation.
From SK Require Import lib.Tok lib.LGraph lib.Mono model.C06_Model lib.C06_Spec.
From SK Require Import model.C03_Model model.C04_Model model.C04_Reactor proof.C03_Proof proof.C03_Glue proof.C03_Spec proof.C03_Skeleton proof.C03_StripCounts
                       proof.C03_StripExact proof.C03_StripCor proof.C04_Glue proof.C04_Template proof.C04_Default proof.C04_Engine proof.C04_DefaultChain.
Import ListNotations.
Local Open Scope Z_scope.

(** every bond of the rule that exists on the reactant side is a bond of the pattern with that order *)
Definition left_onto (rc : its) (l : molg) : Prop :=
  forall u v x, In (u, v, x) (gedges rc) -> 0 < eG x -> LGraph.adj l u v = Some (eG x).

Lemma leqb_eq a : forall b, C06_Model.leqb a b = true -> a = b.
Proof.
  induction a as [|x r IH]; intros [|y s] E; simpl in E; try discriminate; [reflexivity|].
  apply andb_prop in E. destruct E as [E1 E2]. apply N.eqb_eq in E1. rewrite E1, (IH s E2). reflexivity.
Qed.

Section MonoMatch.
  Variables (host : hostg) (rc : its) (l : molg) (y : C03_Model.mapping).
  Hypothesis Hwh : wf_hostb host = true.
  Hypothesis Hhc : forall n a, label host n = Some a -> 0 <= a_hc a.
  Hypothesis Hwr : wf_rcb rc = true.
  Hypothesis Hcl : forall u v x, In (u, v, x) (gedges rc) -> In u (node_ids rc) /\ In v (node_ids rc).
  Hypothesis LO : left_of rc l.
  Hypothesis LT : left_onto rc l.
  Hypothesis Hnn : forall k la, label l k = Some la -> 0 <= m_hc la.
  Hypothesis Hmono : is_mono (tr_host host) (tr_pat l) y.

  Let Nrc : NoDup (node_ids rc) := wf_rc_nodup rc Hwr.
  Let Nl : NoDup (node_ids l).
  Proof. rewrite (lo_ids _ _ LO). exact Nrc. Qed.

  Lemma mono_image p : In p (node_ids rc) -> exists h, In (p, h) y /\ mget y p = Some h.
  Proof.
    intros Ip. destruct Hmono as (K1 & K2 & _). rewrite tr_pat_ids, (lo_ids _ _ LO) in K2.
    apply K2 in Ip. apply in_map_iff in Ip. destruct Ip as ([p' h] & E & I). simpl in E. subst p'.
    exists h. split; [exact I|]. unfold mget. apply assoc_nodup_in; [exact K1|exact I].
  Qed.

  Theorem mono_is_match : match_rcb host rc y = true.
  Proof.
    destruct Hmono as (K1 & K2 & K3 & K4 & K5). rewrite tr_pat_ids, (lo_ids _ _ LO) in K2. rewrite tr_host_ids in K4.
    unfold match_rcb. apply andb_true_intro; split; [apply andb_true_intro; split; [apply andb_true_intro; split; [apply andb_true_intro; split|]|]|].
    - apply NoDup_nodupb. exact K1.
    - apply NoDup_nodupb. exact K3.
    - apply Nat.eqb_eq.
      assert (P : Permutation (map fst y) (node_ids rc)) by (apply NoDup_Permutation; [exact K1|exact Nrc|exact K2]).
      apply Permutation_length in P. unfold node_ids in P. rewrite !map_length in P. exact P.
    - apply forallb_forall. intros [k a] I. unfold rc_node_okb. cbn [fst snd].
      assert (Ik : In k (node_ids rc)) by (unfold node_ids; change k with (fst (k, a)); apply in_map; exact I).
      destruct (mono_image k Ik) as (h & Ih & Eh). rewrite Eh.
      destruct (K4 k h Ih) as [Hin Hnm].
      destruct (in_ids_label host h Hin) as [x Ex]. rewrite Ex.
      assert (Ikl : In k (node_ids l)) by (rewrite (lo_ids _ _ LO); exact Ik).
      destruct (in_ids_label l k Ikl) as [la Ela].
      destruct (lo_nodes _ _ LO k la (assoc_in k (gnodes l) Ela)) as (a' & Ea' & E1 & E2 & E3).
      assert (a' = a) by (pose proof (label_in rc k a Nrc I); congruence). subst a'.
      unfold nm, lab in Hnm. rewrite label_tr_host, label_tr_pat, Ex, Ela in Hnm. cbn [option_map fst snd] in Hnm.
      apply andb_prop in Hnm. destruct Hnm as [Hl Hc]. apply leqb_eq in Hl. inversion Hl as [[Q1 Q2]]. apply chcode_inj in Q2.
      apply N.leb_le in Hc. pose proof (Hhc h x Ex). pose proof (Hnn k la Ela).
      rewrite <- E1, <- E2, <- E3, Q1, Q2, N.eqb_refl, Z.eqb_refl. cbn [andb]. apply Z.leb_le. lia.
    - apply forallb_forall. intros [[u v] x] I. unfold rc_edge_okb.
      destruct (Hcl u v x I) as [Iu Iv]. destruct (mono_image u Iu) as (hu & Ihu & Eu). destruct (mono_image v Iv) as (hv & Ihv & Ev).
      rewrite Eu, Ev. destruct (0 <? eG x) eqn:Ep; [|reflexivity]. apply Z.ltb_lt in Ep.
      pose proof (LT u v x I Ep) as Ea.
      assert (Eap : LGraph.adj (tr_pat l) u v = Some [Z.to_N (eG x)]).
      { unfold LGraph.adj, tr_pat; cbn [gedges]. rewrite tr_adj. unfold LGraph.adj in Ea. rewrite Ea. reflexivity. }
      destruct (K5 u hu v hv _ Ihu Ihv Eap) as (b' & Eb & Em). unfold em in Em. apply leqb_eq in Em. subst b'.
      unfold LGraph.adj, tr_host in Eb; cbn [gedges] in Eb. rewrite tr_adj in Eb.
      destruct (find_edge hu hv (gedges host)) as [o|] eqn:Eo; [|discriminate]. cbn [option_map] in Eb. inversion Eb as [Q].
      unfold LGraph.adj. rewrite Eo. apply Z.eqb_eq.
      assert (0 < o) by exact (wf_host_pos host hu hv o Hwh Eo). lia.
  Qed.
End MonoMatch.

(** the default-mode preparation: every reactant-side bond of the rule is a bond of the stripped pattern *)
Theorem default_left_onto (tpl rc : its) (l r : molg) :
  wf_rcb tpl = true -> (forall k a, In (k, a) (gnodes tpl) -> a_el (iH a) = a_el (iG a)) ->
  synrule tpl true = Some (rc, l, r) -> left_onto rc l.
Proof.
  intros Hw Hel H u v x I Hpos.
  assert (Hnd0 : nodupb (node_ids tpl) = true).
  { unfold wf_rcb in Hw. apply andb_prop in Hw. destruct Hw as [Hw _]. apply andb_prop in Hw. exact (proj1 Hw). }
  destruct (synrule_default_exact tpl rc l r Hnd0 Hel H) as (R & _ & (_ & Erc) & (_ & El) & _).
  rewrite Erc in I. apply filter_In in I. destruct I as [I K]. unfold keepe in K. cbn [fst snd] in K.
  apply andb_prop in K. destruct K as [K1 K2]. apply negb_true_iff in K1, K2.
  unfold LGraph.adj. rewrite El. rewrite find_edge_mkeepe by (intros J; apply mem_spec in J; congruence).
  pose proof (simpleP_of_b (gedges tpl) (wf_rc_simple tpl Hw)) as Hs.
  change (find_edge u v (gedges (side0 iG eG tpl))) with (LGraph.adj (dec_side iG eG tpl) u v).
  rewrite (dec_adj iG eG tpl u v Hs). unfold LGraph.adj. rewrite (simple_in_find (gedges tpl) u v x Hs I).
  apply Z.ltb_lt in Hpos. rewrite Hpos. reflexivity.
Qed.
