(** C06 — proofs, part 1: label predicates, the exhaustive strategy, result limits of
    the exhaustive strategy, and "the verified enumerator meets the VF2 contract".
    Stdlib lists. *)
From Coq Require Import List NArith Bool Arith Lia Permutation SetoidList Relations.
From SK Require Import lib.LGraph lib.Mono lib.Reach lib.C01_GraphLemmas model.C06_Model lib.C06_Spec.
Import ListNotations.

(** ---------- label predicates ---------- *)
Lemma leqb_spec a b : leqb a b = true <-> a = b.
Proof.
  revert b. induction a as [|x a IH]; intros [|y b]; simpl; try (split; [discriminate|discriminate]); [tauto|].
  rewrite andb_true_iff, N.eqb_eq, IH. split; [intros [-> ->]; reflexivity|intros [= -> ->]; auto].
Qed.

Lemma nm_spec h p : nm h p = true <-> fst h = fst p /\ (snd p <= snd h)%N.
Proof. unfold nm. rewrite andb_true_iff, leqb_spec, N.leb_le. tauto. Qed.

Lemma em_spec h p : em h p = true <-> h = p.
Proof. apply leqb_spec. Qed.

Lemma is_mono_on_meaning (H P : graph) (hn pn : list N) (m : mapping) :
  is_mono_on H P hn pn m <->
  NoDup (map fst m) /\ (forall p, In p (map fst m) <-> In p pn) /\
  NoDup (map snd m) /\
  (forall p h, In (p, h) m ->
     In h hn /\ fst (lab H h) = fst (lab P p) /\ (snd (lab P p) <= snd (lab H h))%N) /\
  (forall p h p' h' b, In (p, h) m -> In (p', h') m -> LGraph.adj P p p' = Some b ->
     LGraph.adj H h h' = Some b).
Proof.
  unfold is_mono_on. split; intros (A & B & C & D & E); (split; [exact A|split; [exact B|split; [exact C|split]]]).
  - intros p h I. destruct (D p h I) as [I' Hn]. apply nm_spec in Hn. tauto.
  - intros p h p' h' b I I' Eb. destruct (E p h p' h' b I I' Eb) as (b' & Eb' & Hb). apply em_spec in Hb. congruence.
  - intros p h I. destruct (D p h I) as (I' & Hn). split; [exact I'|]. apply nm_spec. exact Hn.
  - intros p h p' h' b I I' Eb. exists b. split; [eauto|]. apply em_spec. reflexivity.
Qed.

(** ---------- limits ---------- *)
Definition guard {X} (thr : N) (r : list X) : list X := if (thr <? lenN r)%N then [] else r.

Lemma guard_nil {X} thr : @guard X thr [] = [].
Proof. unfold guard. destruct (thr <? lenN [])%N; reflexivity. Qed.

Lemma lenN_app {X} (a b : list X) : lenN (a ++ b) = (lenN a + lenN b)%N.
Proof. unfold lenN. rewrite app_length. lia. Qed.
Lemma lenN_cons {X} (x : X) a : lenN (x :: a) = N.succ (lenN a).
Proof. unfold lenN. simpl. lia. Qed.
Lemma lenN_rev {X} (a : list X) : lenN (rev a) = lenN a.
Proof. unfold lenN. rewrite rev_length. reflexivity. Qed.

Lemma capped_spec maxr n : capped maxr n = true <-> (0 < maxr /\ maxr <= n)%N.
Proof. unfold capped. rewrite andb_true_iff, N.ltb_lt, N.leb_le. tauto. Qed.
Lemma capped_false maxr n : capped maxr n = false <-> (maxr = 0 \/ n < maxr)%N.
Proof.
  rewrite <- not_true_iff_false, capped_spec. lia.
Qed.

Lemma map_fst_combine' {X Y} (ps : list X) : forall (hs : list Y), length hs = length ps -> map fst (combine ps hs) = ps.
Proof.
  induction ps as [|p ps IH]; intros [|h hs] Hl; simpl in *; try discriminate; auto.
  f_equal. apply IH. lia.
Qed.

Lemma firstn_all_app {X} (a b : list X) : firstn (length a) (a ++ b) = a.
Proof. rewrite firstn_app, Nat.sub_diag, firstn_all. simpl. apply app_nil_r. Qed.

Lemma limit_unfold {X} maxr thr (U : list X) :
  limit maxr thr U =
  let k := if (maxr =? 0)%N then lenN U else N.min maxr (lenN U) in
  if (thr <? k)%N then [] else firstn (N.to_nat k) U.
Proof. reflexivity. Qed.

Lemma all_loop_limit maxr thr : forall it acc n,
  n = lenN acc -> (n <= thr)%N -> capped maxr n = false ->
  guard thr (all_loop maxr thr it acc n) = limit maxr thr (rev acc ++ it).
Proof.
  induction it as [|m it IH]; intros acc n Hn Hthr Hc; cbn [all_loop].
  - rewrite app_nil_r. unfold guard, limit. rewrite lenN_rev, <- Hn.
    apply capped_false in Hc.
    assert (E : (if (maxr =? 0)%N then n else N.min maxr n) = n).
    { destruct (N.eqb_spec maxr 0); lia. }
    rewrite E. destruct (N.ltb_spec thr n); [lia|].
    rewrite Hn. unfold lenN. rewrite Nat2N.id, <- (rev_length acc), firstn_all. reflexivity.
  - assert (HU : lenN (rev acc ++ m :: it) = (N.succ n + lenN it)%N).
    { rewrite lenN_app, lenN_rev, lenN_cons. lia. }
    destruct (capped maxr (N.succ n)) eqn:Hc'.
    + apply capped_spec in Hc'. apply capped_false in Hc.
      assert (Em : maxr = N.succ n) by lia.
      unfold guard, limit. rewrite HU. destruct (N.eqb_spec maxr 0); [lia|].
      replace (N.min maxr (N.succ n + lenN it)) with (N.succ n) by lia.
      replace (lenN (rev (m :: acc))) with (N.succ n) by (rewrite lenN_rev, lenN_cons; lia).
      destruct (N.ltb_spec thr (N.succ n)); [reflexivity|].
      cbn [rev]. replace (rev acc ++ m :: it) with ((rev acc ++ [m]) ++ it) by (rewrite <- app_assoc; reflexivity).
      replace (N.to_nat (N.succ n)) with (length (rev acc ++ [m])).
      * rewrite firstn_all_app. reflexivity.
      * rewrite app_length, rev_length. simpl. rewrite Hn. unfold lenN. lia.
    + destruct (N.ltb_spec thr (N.succ n)) as [Hlt|Hge].
      * rewrite guard_nil. unfold limit. rewrite HU. apply capped_false in Hc'.
        destruct (N.eqb_spec maxr 0).
        -- destruct (N.ltb_spec thr (N.succ n + lenN it)); [reflexivity|lia].
        -- destruct (N.ltb_spec thr (N.min maxr (N.succ n + lenN it))); [reflexivity|lia].
      * rewrite (IH (m :: acc) (N.succ n)); auto.
        -- cbn [rev]. rewrite <- app_assoc. reflexivity.
        -- rewrite lenN_cons. lia.
Qed.

Section Oracle.
Variable enum : list N -> list N -> list mapping.

(** the public entry point with the exhaustive strategy: exactly "truncate, or empty past the threshold" *)
Lemma find_all_limits maxr thr strict H P :
  find enum (Cfg 0 maxr thr strict false) H P = limit maxr thr (enum (node_ids H) (node_ids P)).
Proof.
  unfold find, find_all. simpl.
  change (if (thr <? lenN ?r)%N then [] else ?r) with (guard thr r).
  apply (all_loop_limit maxr thr (enum (node_ids H) (node_ids P)) [] 0%N); auto; try lia.
  apply capped_false. lia.
Qed.

Lemma limit_none {X} thr (U : list X) : (lenN U <= thr)%N -> limit 0 thr U = U.
Proof.
  intros Hle. unfold limit. simpl. destruct (N.ltb_spec thr (lenN U)); [lia|].
  unfold lenN. rewrite Nat2N.id. apply firstn_all.
Qed.

Lemma find_all_unlimited T strict H P :
  (lenN (enum (node_ids H) (node_ids P)) <= T)%N ->
  find enum (Cfg 0 0 T strict false) H P = enum (node_ids H) (node_ids P).
Proof. intros Hle. rewrite find_all_limits. apply limit_none. exact Hle. Qed.

(** exhaustive strategy, no limits: sound, complete, duplicate-free *)
Lemma all_exact T strict H P :
  vf2_contract enum H P (node_ids H) (node_ids P) ->
  (lenN (enum (node_ids H) (node_ids P)) <= T)%N ->
  let R := find enum (Cfg 0 0 T strict false) H P in
  (forall m, In m R -> is_mono H P m) /\
  (forall m, is_mono H P m -> exists m', In m' R /\ Permutation m m') /\
  NoDupA (@Permutation (N * N)) R.
Proof.
  intros Hc Hle. simpl. rewrite find_all_unlimited by exact Hle. exact Hc.
Qed.
End Oracle.

(** ---------- the verified enumerator meets the contract ---------- *)
(** a total map on [pn] has a rearrangement of the enumerator's shape *)
Lemma canonical_form (pn : list N) (Hpn : NoDup pn) (m : mapping) : NoDup (map fst m) -> (forall p, In p (map fst m) <-> In p pn) ->
  exists hs, length hs = length pn /\ Permutation m (rev (combine pn hs)).
Proof.
  revert m. induction pn as [|p ps IH]; intros m Hnd Hdom.
  - exists []. split; [reflexivity|]. destruct m as [|[a b] m]; [constructor|].
    exfalso. apply (Hdom a). left. reflexivity.
  - inversion Hpn as [|? ? Hnp Hps]; subst.
    assert (Ip : In p (map fst m)) by (apply Hdom; left; reflexivity).
    apply in_map_iff in Ip. destruct Ip as ([p0 h] & E & I). simpl in E. subst p0.
    apply in_split in I. destruct I as (l1 & l2 & ->).
    assert (Hperm : Permutation (l1 ++ (p, h) :: l2) ((p, h) :: l1 ++ l2)) by (apply Permutation_sym, Permutation_middle).
    assert (Hnd' : NoDup (map fst ((p, h) :: l1 ++ l2))).
    { eapply Permutation_NoDup; [apply Permutation_map; exact Hperm|exact Hnd]. }
    simpl in Hnd'. inversion Hnd' as [|? ? Hnot Hnd'']; subst.
    destruct (IH Hps (l1 ++ l2) Hnd'') as (hs & Hl & Hp').
    + intros q. split.
      * intros Iq. assert (H0 : In q (map fst (l1 ++ (p, h) :: l2))).
        { eapply Permutation_in; [apply Permutation_map, Permutation_sym; exact Hperm|]. simpl. right. exact Iq. }
        apply Hdom in H0. destruct H0 as [<-|]; [contradiction|assumption].
      * intros Iq. assert (H0 : In q (map fst ((p, h) :: l1 ++ l2))).
        { eapply Permutation_in; [apply Permutation_map; exact Hperm|]. apply Hdom. right. exact Iq. }
        simpl in H0. destruct H0 as [<-|]; [contradiction|assumption].
    + exists (h :: hs). split; [simpl; lia|]. simpl.
      eapply Permutation_trans; [exact Hperm|].
      eapply Permutation_trans; [|apply Permutation_cons_append]. constructor. exact Hp'.
Qed.

Lemma rev_combine_inj (pn : list N) (Hpn : NoDup pn) (hs hs' : list N) : length hs = length pn -> length hs' = length pn ->
  Permutation (rev (combine pn hs)) (rev (combine pn hs')) -> hs = hs'.
Proof.
  intros Hl Hl' Hp.
  assert (Hp' : Permutation (combine pn hs) (combine pn hs')).
  { eapply Permutation_trans; [apply Permutation_rev|]. eapply Permutation_trans; [exact Hp|]. apply Permutation_sym, Permutation_rev. }
  clear Hp. revert hs hs' Hl Hl' Hp'. induction pn as [|p ps IH]; intros [|h hs] [|h' hs'] Hl Hl' Hp; simpl in *; try discriminate; auto.
  inversion Hpn as [|? ? Hnp Hps]; subst.
  assert (I : In (p, h) ((p, h') :: combine ps hs')) by (eapply Permutation_in; [exact Hp|left; reflexivity]).
  destruct I as [E|I].
  - inversion E; subst. f_equal. apply IH; auto; try lia. eapply Permutation_cons_inv. exact Hp.
  - exfalso. apply Hnp. apply in_combine_l in I. exact I.
Qed.

Section Enum.
Variables H P : graph.
Hypothesis HwfH : gwf H.
Hypothesis HwfP : gwf P.

Lemma no_self_loop (g : graph) u : gwf g -> LGraph.adj g u u = None.
Proof.
  intros [_ Hg]. destruct (LGraph.adj g u u) as [x|] eqn:E; [|reflexivity].
  apply find_edge_some_in in E. destruct E as [E|E]; apply Hg in E; destruct E as (_ & _ & E); congruence.
Qed.

Section OnLists.
Variables hn pn : list N.
Hypothesis Hhn : NoDup hn.
Hypothesis Hpn : NoDup pn.

Let V := valid hn (lab P) (lab H) (LGraph.adj P) (LGraph.adj H) nm em false.
Let EOK := edge_ok (LGraph.adj P) (LGraph.adj H) em false.

Lemma edge_ok_spec p h p' h' :
  EOK p h (p', h') = true <->
  (forall b, LGraph.adj P p p' = Some b -> exists b', LGraph.adj H h h' = Some b' /\ em b' b = true).
Proof.
  unfold EOK, edge_ok. simpl.
  destruct (LGraph.adj P p p') as [b|], (LGraph.adj H h h') as [b'|]; simpl.
  - split.
    + intros E b0 [= <-]. eauto.
    + intros Hx. destruct (Hx b eq_refl) as (b0 & [= <-] & E). exact E.
  - split; [discriminate|]. intros Hx. destruct (Hx b eq_refl) as (b0 & E & _). discriminate.
  - split; [intros _ b0; discriminate|reflexivity].
  - split; [intros _ b0; discriminate|reflexivity].
Qed.

(** pointwise reading of [valid] (both directions) *)
Lemma valid_iff m :
  V m <->
  NoDup (map snd m) /\
  (forall p h, In (p, h) m -> In h hn /\ nm (lab H h) (lab P p) = true) /\
  (forall l1 p h l2 p' h' l3, m = l1 ++ (p, h) :: l2 ++ (p', h') :: l3 -> EOK p h (p', h') = true).
Proof.
  split.
  - intros Hv. apply valid_pointwise in Hv.
    destruct Hv as (A & B & C). auto.
  - induction m as [|[p h] m IH]; intros (Hnd & Hlab & Hedge); [constructor|].
    simpl in Hnd. inversion Hnd as [|? ? Hnot Hnd']; subst.
    constructor.
    + apply IH. split; [exact Hnd'|]. split.
      * intros p0 h0 I. apply Hlab. right. exact I.
      * intros l1 p0 h0 l2 p' h' l3 E. apply (Hedge ((p, h) :: l1) p0 h0 l2 p' h' l3). rewrite E. reflexivity.
    + apply (Hlab p h). left. reflexivity.
    + unfold ok. rewrite !andb_true_iff. split; [split|].
      * apply (Hlab p h). left. reflexivity.
      * apply fresh_spec. exact Hnot.
      * apply forallb_forall. intros [p' h'] I. apply in_split in I. destruct I as (l2 & l3 & ->).
        apply (Hedge [] p h l2 p' h' l3). reflexivity.
Qed.

Lemma is_mono_on_perm m m' : Permutation m m' -> is_mono_on H P hn pn m -> is_mono_on H P hn pn m'.
Proof.
  intros Hp (A & B & C & D & E).
  assert (Hin : forall x, In x m' -> In x m) by (intros x; apply Permutation_in; apply Permutation_sym; exact Hp).
  split; [|split; [|split; [|split]]].
  - eapply Permutation_NoDup; [apply Permutation_map; exact Hp|exact A].
  - intros p. rewrite <- B. split; apply Permutation_in; apply Permutation_map; [apply Permutation_sym|]; exact Hp.
  - eapply Permutation_NoDup; [apply Permutation_map; exact Hp|exact C].
  - intros p h I. apply D. auto.
  - intros p h p' h' b I I'. apply E; auto.
Qed.

Lemma valid_is_mono_on hs : length hs = length pn ->
  V (rev (combine pn hs)) -> is_mono_on H P hn pn (rev (combine pn hs)).
Proof.
  intros Hl Hv. apply valid_iff in Hv. destruct Hv as (Hnd & Hlab & Hedge).
  assert (Hfst : map fst (rev (combine pn hs)) = rev pn).
  { rewrite map_rev. f_equal. apply map_fst_combine'. exact Hl. }
  split; [|split; [|split; [|split]]].
  - rewrite Hfst. apply NoDup_rev. exact Hpn.
  - intros p. rewrite Hfst, <- in_rev. tauto.
  - exact Hnd.
  - exact Hlab.
  - intros p h p' h' b I I' Eb.
    destruct (N.eq_dec p p') as [->|Hne].
    { rewrite (no_self_loop P p' HwfP) in Eb. discriminate. }
    (* the two pairs sit at different positions of the list *)
    apply in_split in I. destruct I as (l1 & l2 & E1).
    rewrite E1 in I'. apply in_app_or in I'. destruct I' as [I'|[I'|I']]; [| congruence |].
    + apply in_split in I'. destruct I' as (l3 & l4 & ->).
      assert (Hx := Hedge l3 p' h' l4 p h l2). rewrite <- app_assoc in E1. simpl in E1. specialize (Hx E1).
      unfold EOK in Hx. rewrite (edge_ok_sym _ _ em false (LGraph.adj_sym P) (LGraph.adj_sym H)) in Hx. fold EOK in Hx.
      exact (proj1 (edge_ok_spec p h p' h') Hx b Eb).
    + apply in_split in I'. destruct I' as (l3 & l4 & ->).
      assert (Hx := Hedge l1 p h l3 p' h' l4 E1). exact (proj1 (edge_ok_spec p h p' h') Hx b Eb).
Qed.

Lemma is_mono_on_valid m : is_mono_on H P hn pn m -> V m.
Proof.
  intros (A & B & C & D & E). apply valid_iff. split; [exact C|]. split; [exact D|].
  intros l1 p h l2 p' h' l3 ->. apply edge_ok_spec. intros b Eb.
  apply (E p h p' h' b); auto; apply in_or_app; right; [left; reflexivity|].
  right. apply in_or_app. right. left. reflexivity.
Qed.

Theorem monos_on_contract : vf2_contract (monos_on H P) H P hn pn.
Proof.
  unfold vf2_contract, monos_on. split; [|split].
  - intros m I. apply monos_only_such in I. destruct I as (hs & Hl & -> & Hv).
    apply valid_is_mono_on; auto.
  - intros m Hm. destruct Hm as (A & B & C) eqn:Em. clear Em.
    destruct (canonical_form pn Hpn m A B) as (hs & Hl & Hp).
    exists (rev (combine pn hs)). split; [|exact Hp].
    apply (monos_spec pn hn (lab P) (lab H) (LGraph.adj P) (LGraph.adj H) nm em false); auto.
    apply is_mono_on_valid. eapply is_mono_on_perm; [exact Hp|]. split; auto.
  - (* NoDup + canonical shape => NoDupA *)
    pose proof (monos_nodup pn (lab P) (lab H) (LGraph.adj P) (LGraph.adj H) nm em false Hhn) as Hnd.
    pose proof (fun m => monos_only_such pn hn (lab P) (lab H) (LGraph.adj P) (LGraph.adj H) nm em false m) as Hshape.
    revert Hnd Hshape.
    generalize (monos pn hn (lab P) (lab H) (LGraph.adj P) (LGraph.adj H) nm em false) as L.
    induction L as [|m L IH]; intros Hnd Hshape; constructor.
    + intros HA. apply InA_alt in HA. destruct HA as (m' & Hp & I').
      inversion Hnd as [|? ? Hnot _]; subst. apply Hnot.
      destruct (Hshape m (or_introl eq_refl)) as (hs & Hl & -> & _).
      destruct (Hshape m' (or_intror I')) as (hs' & Hl' & -> & _).
      rewrite (rev_combine_inj pn Hpn hs hs' Hl Hl' Hp). exact I'.
    + inversion Hnd; subst. apply IH; auto. intros m' I'. apply Hshape. right. exact I'.
Qed.
End OnLists.
End Enum.
