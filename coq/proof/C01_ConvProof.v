(** C01 — the MolToGraph converter object: what survives between calls (model/C01_Conv.v) *)
From Coq Require Import List NArith ZArith Bool.
From SK Require Import lib.LGraph model.C01_Model model.C01_String model.C01_Conv.
Import ListNotations.

(** transform never touches the state and its result does not depend on it *)
Lemma transform_stateless st st' d u m :
  fst (cstep st (OpTransform d u m)) = st /\ snd (cstep st (OpTransform d u m)) = snd (cstep st' (OpTransform d u m)).
Proof. split; reflexivity. Qed.

(** reading .graph never changes the state *)
Lemma graph_read_pure st : fst (cstep st OpGraph) = st.
Proof. reflexivity. Qed.

Lemma cstate_after_last st ops : cstate_after st ops = last_store ops st.
Proof.
  revert st. induction ops as [|op r IH]; intros st; [reflexivity|]. unfold cstate_after in *. cbn [fold_left last_store].
  rewrite IH. destruct op as [d u m|d u m|]; cbn [cstep fst]; [reflexivity| |reflexivity].
  destruct (mol_to_graph d u m); reflexivity.
Qed.

(** after ANY history, .graph returns the graph of the last successful transform_store (whatever transform calls, failed
    transform_store calls and .graph reads came in between), and raises iff there was none *)
Theorem conv_graph_spec ops :
  snd (cstep (cstate_after cinit ops) OpGraph) = match last_store ops None with Some g => CGraph g | None => CErr end.
Proof. rewrite cstate_after_last. reflexivity. Qed.

(** every step of a history returns what the same call returns on a fresh converter, except .graph, which returns the
    last stored graph *)
Theorem conv_history_spec ops1 op ops2 :
  nth_error (crun cinit (ops1 ++ op :: ops2)) (length ops1) =
  Some (match op with
        | OpGraph => match last_store ops1 None with Some g => CGraph g | None => CErr end
        | _ => snd (cstep cinit op)
        end).
Proof.
  assert (forall st, nth_error (crun st (ops1 ++ op :: ops2)) (length ops1) = Some (snd (cstep (cstate_after st ops1) op))) as K.
  { induction ops1 as [|o r IH]; intros st; [reflexivity|]. cbn [app crun length nth_error]. rewrite IH. reflexivity. }
  rewrite K. rewrite cstate_after_last. destruct op as [d u m|d u m|]; [reflexivity| |reflexivity].
  cbn [cstep]. destruct (mol_to_graph d u m); reflexivity.
Qed.

Definition ex_cm : rmol := RM [RA 70%N false 3%Z 0%Z 1%N [82%N]; RA 82%N false 1%Z 0%Z 2%N [70%N]] [(0%nat, 1%nat, 2%Z)].
Example C01_conv_nonvacuous :
  exists g, mol_to_graph true true ex_cm = Some g /\
  crun cinit [OpGraph; OpTransform true true ex_cm; OpGraph; OpStore true true ex_cm; OpStore true false ex_cm; OpGraph] =
    [CErr; CGraph g; CErr; CSelf; CErr; CGraph g].
Proof. eexists. split; reflexivity. Qed.
