(** C13 -- the EXACT sequence of isomorphism tests of GraphCluster.iterative_cluster, as a function of the clusters it returns
    (no reference to the isomorphism test itself): for every returned cluster, in order, its first member i is tested against
    every later position j that carries the same normalised attribute and belongs to no EARLIER cluster -- in list order. *)
From Coq Require Import List NArith ZArith Bool Arith Lia Permutation.
From SK Require Import lib.Tok lib.LGraph lib.Mono model.C13_Model model.C13_Trace proof.C13_Proof proof.C13_Trace.
Import ListNotations.
Local Open Scope nat_scope.

Section Exact.
Variable iso : item -> item -> bool.
Variable mode : attr_mode.

(** one row: the representative (i, xi) against the later entries with equal attribute that are not in [vis] *)
Definition row (i : nat) (xi : item) (rest : list (nat * item)) (vis : list nat) : list (nat * nat) :=
  map (fun jx => (i, fst jx))
      (filter (fun jx => zlist_eqb (gc_key mode xi) (gc_key mode (snd jx)) && negb (memb (fst jx) vis)) rest).

Lemma row_ext i xi rest v1 v2 : (forall j, In j (map fst rest) -> memb j v1 = memb j v2) -> row i xi rest v1 = row i xi rest v2.
Proof.
  intros H. unfold row. f_equal. apply filter_ext_in. intros [j xj] I. simpl.
  rewrite (H j); [reflexivity|]. change j with (fst (j, xj)). now apply in_map.
Qed.

(** the entry (i, xi) of [todo] and what follows it *)
Fixpoint after (i : nat) (todo : list (nat * item)) : option (item * list (nat * item)) :=
  match todo with
  | [] => None
  | (k, x) :: r => if Nat.eqb k i then Some (x, r) else after i r
  end.

(** the tests, given the clusters that were created *)
Fixpoint spec_new (todo : list (nat * item)) (visited : list nat) (new : list (list nat)) : list (nat * nat) :=
  match new with
  | [] => []
  | cl :: more =>
      match cl with
      | [] => []
      | i :: _ =>
          match after i todo with
          | Some (xi, rest) => row i xi rest visited ++ spec_new rest (cl ++ visited) more
          | None => []
          end
      end
  end.

Lemma spec_new_ext new : forall todo v1 v2, (forall j, memb j v1 = memb j v2) -> spec_new todo v1 new = spec_new todo v2 new.
Proof.
  induction new as [|cl more IH]; intros todo v1 v2 H; simpl; [reflexivity|].
  destruct cl as [|i tl]; [reflexivity|]. destruct (after i todo) as [[xi rest]|]; [|reflexivity].
  rewrite (row_ext i xi rest v1 v2) by (intros j _; apply H). f_equal. apply IH.
  intros j. unfold memb in *. rewrite !existsb_app. now rewrite H.
Qed.

(* ---- inner loop ---- *)
Lemma gc_inner_tr_exact i xi c rest : forall cl vis rc tr,
  NoDup (map fst rest) ->
  let res := gc_inner_tr iso mode i xi c rest (cl, vis, rc) tr in
  snd res = tr ++ row i xi rest vis /\
  (exists joined, fst (fst (fst res)) = cl ++ joined /\ incl joined (map fst rest) /\
                  forall k, memb k (snd (fst (fst res))) = memb k (joined ++ vis)).
Proof.
  induction rest as [|[j xj] r IH]; intros cl vis rc tr Hnd; simpl.
  - split; [now rewrite app_nil_r|]. exists []. rewrite app_nil_r. split; [reflexivity|split; [intros x []|reflexivity]].
  - simpl in Hnd. inversion Hnd as [|? ? Hj Hnd']; subst.
    assert (Hrow : forall v, row i xi r (j :: v) = row i xi r v).
    { intros v. apply row_ext. intros k Hk. apply memb_cons_ne. intros ->. contradiction. }
    unfold row at 1. simpl filter.
    destruct (zlist_eqb (gc_key mode xi) (gc_key mode xj) && negb (memb j vis)) eqn:Ec.
    + destruct (iso xi xj).
      * destruct (IH (cl ++ [j]) (j :: vis) (rc ++ [(j, c)]) (tr ++ [(i, j)]) Hnd') as (E & joined & Ecl & Hin & Hv).
        split.
        -- rewrite E, Hrow, <- app_assoc. reflexivity.
        -- exists (j :: joined). split; [rewrite Ecl, <- app_assoc; reflexivity|]. split.
           ++ intros x [<-|Hx]; [now left|right; now apply Hin].
           ++ intros k. rewrite Hv. unfold memb. rewrite !existsb_app. simpl.
              destruct (existsb (Nat.eqb k) joined), (Nat.eqb k j), (existsb (Nat.eqb k) vis); reflexivity.
      * destruct (IH cl vis rc (tr ++ [(i, j)]) Hnd') as (E & joined & Ecl & Hin & Hv).
        split; [rewrite E, <- app_assoc; reflexivity|]. exists joined. split; [exact Ecl|]. split; [|exact Hv].
        intros x Hx. right. now apply Hin.
    + destruct (IH cl vis rc tr Hnd') as (E & joined & Ecl & Hin & Hv).
      split; [exact E|]. exists joined. split; [exact Ecl|]. split; [|exact Hv]. intros x Hx. right. now apply Hin.
Qed.

Lemma after_skip i k x r : k <> i -> after i ((k, x) :: r) = after i r.
Proof. intros H. simpl. apply Nat.eqb_neq in H. now rewrite H. Qed.

(** heads of the created clusters are entries of [todo] *)
Definition heads_in (todo : list (nat * item)) (new : list (list nat)) : Prop :=
  forall cl, In cl new -> exists i tl, cl = i :: tl /\ In i (map fst todo).

Lemma spec_new_skip k x r visited new : ~ In k (map fst r) -> heads_in r new ->
  spec_new ((k, x) :: r) visited new = spec_new r visited new.
Proof.
  intros Hk Hh. destruct new as [|cl more]; [reflexivity|]. simpl.
  destruct (Hh cl (or_introl eq_refl)) as (i & tl & -> & Hi).
  assert (Hne : k <> i) by (intros ->; contradiction). apply Nat.eqb_neq in Hne. now rewrite Hne.
Qed.

(* ---- outer loop ---- *)
Lemma gc_outer_tr_exact todo : forall visited clusters r2c tr,
  NoDup (map fst todo) ->
  let res := gc_outer_tr iso mode todo visited clusters r2c tr in
  exists new, fst (fst res) = clusters ++ new /\ heads_in todo new /\ snd res = tr ++ spec_new todo visited new.
Proof.
  induction todo as [|[i xi] rest IH]; intros visited clusters r2c tr Hnd; simpl.
  - exists []. rewrite !app_nil_r. split; [reflexivity|split; [intros cl []|reflexivity]].
  - simpl in Hnd. inversion Hnd as [|? ? Hi Hnd']; subst.
    destruct (memb i visited) eqn:Ev.
    + destruct (IH visited clusters r2c tr Hnd') as (new & Ecl & Hh & Etr). exists new.
      split; [exact Ecl|]. split.
      * intros cl Hcl. destruct (Hh cl Hcl) as (i0 & tl & E & I0). exists i0, tl. split; [exact E|now right].
      * rewrite Etr. f_equal. symmetry. now apply spec_new_skip.
    + destruct (gc_inner_tr_exact i xi (length clusters) rest [i] (i :: visited) (r2c ++ [(i, length clusters)]) tr Hnd')
        as (Etr1 & joined & Ecl1 & Hin & Hv).
      destruct (gc_inner_tr iso mode i xi (length clusters) rest ([i], i :: visited, r2c ++ [(i, length clusters)]) tr)
        as [[[cl vis] rc] tr'] eqn:Ei. simpl in Etr1, Ecl1, Hv. subst tr' cl.
      change ([i] ++ joined) with (i :: joined) in *.
      destruct (IH vis (clusters ++ [i :: joined]) rc (tr ++ row i xi rest (i :: visited)) Hnd') as (new & Ecl & Hh & Etr).
      exists ((i :: joined) :: new). split; [rewrite Ecl, <- app_assoc; reflexivity|]. split.
      * intros cl [<-|Hcl]; [exists i, joined; split; [reflexivity|now left]|].
        destruct (Hh cl Hcl) as (i0 & tl & E & I0). exists i0, tl. split; [exact E|now right].
      * rewrite Etr. cbn [spec_new app after]. rewrite Nat.eqb_refl, <- app_assoc. f_equal. f_equal.
        -- apply row_ext. intros k Hk. apply memb_cons_ne. intros ->. contradiction.
        -- apply spec_new_ext. intros k. rewrite Hv. unfold memb. simpl. rewrite !existsb_app. simpl.
           destruct (existsb (Nat.eqb k) joined), (Nat.eqb k i), (existsb (Nat.eqb k) visited); reflexivity.
Qed.

(** THE EXACT TRACE *)
Theorem gc_trace_exact data :
  snd (gc_iterative_tr iso mode data) = spec_new (enum_from 0 data) [] (fst (fst (gc_iterative_tr iso mode data))).
Proof.
  unfold gc_iterative_tr.
  assert (Hnd : NoDup (map fst (enum_from 0 data))) by (rewrite enum_from_fst; apply seq_NoDup).
  destruct (gc_outer_tr_exact (enum_from 0 data) [] [] [] [] Hnd) as (new & Ecl & _ & Etr).
  rewrite Etr, Ecl. reflexivity.
Qed.

End Exact.

Module Example_exact.
Import Example_trace.
Example exact_example :
  spec_new AStr (enum_from 0 pool) [] [[0; 1]; [2]; [3]] = [(0, 1); (0, 2)] /\
  snd (gc_iterative_tr isoE AStr pool) = [(0, 1); (0, 2)].
Proof. split; vm_compute; reflexivity. Qed.
End Example_exact.
