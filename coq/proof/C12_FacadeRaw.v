(** C12 -- the property over histories for the ITS facade, on the caller's graphs: find_rc_mapping(rc1, rc2, side, mcs,
    component=False) after any history returns mappings that are valid for the SIDES it selects (corollary of [history_valid_raw]
    and [rc_is_find]). *)
From Coq Require Import List NArith ZArith Bool Arith Lia Permutation.
From SK Require Import lib.Tok lib.LGraph lib.Mono model.C12_Model model.C12_State
     proof.C12_Search proof.C12_Proof proof.C12_Prune proof.C12_State proof.C12_StateRaw.
Import ListNotations.
Local Open Scope nat_scope.

Lemma m_run_step_congr cfg o1 o2 : (forall st, m_step cfg st o1 = m_step cfg st o2) ->
  forall ops rds st, m_run cfg st (ops ++ o1 :: rds) = m_run cfg st (ops ++ o2 :: rds).
Proof.
  intros H ops rds. induction ops as [|o r IH]; intros st; simpl; [now rewrite H|apply IH].
Qed.

Theorem history_rc_valid_raw a cfg st ops x sd mcs ga gb rds :
  mk_config a = Some cfg -> pick_sides x sd = Some (ga, gb) ->
  NoDup (node_ids ga) -> NoDup (node_ids gb) -> forallb is_read rds = true ->
  let stf := m_run cfg st (ops ++ MRc x sd mcs false :: rds) in
  exists l12 l21, m_get stf D12 = Some l12 /\ m_get stf D21 = Some l21 /\
    l21 = map invert_mapping l12 /\ l12 = map invert_mapping l21 /\
    (forall m, In m l12 -> raw_valid cfg ga gb m /\ 1 <= length m) /\
    (forall m, In m l21 -> raw_valid cfg gb ga m /\ 1 <= length m) /\
    (mcs = true -> (forall m, In m l12 -> length m = s_last stf) /\
                   (forall m, raw_valid cfg ga gb m -> length m <= s_last stf)) /\
    (mcs = false -> forall m, raw_valid cfg ga gb m -> 1 <= length m -> exists m', In m' l12 /\ Permutation m m').
Proof.
  intros Ea Ep N1 N2 Hr stf. unfold stf.
  rewrite (m_run_step_congr cfg (MRc x sd mcs false) (MFind ga gb mcs) (fun st0 => rc_is_find cfg st0 x sd mcs ga gb Ep) ops rds st).
  exact (history_valid_raw a cfg st ops ga gb mcs rds Ea N1 N2 Hr).
Qed.
