(** C19 — deficiency with the exact rank, and deficiency >= 0 for every network (MathComp style).
    Ties proof/C19_RankMC.v (abstract: rank S + l <= k) to the model through the index facts of proof/C19_Bridge.v, and
    the certified rank (lib/RankBridge.check_rank_sound) to \rank over rat. *)
From mathcomp Require Import all_ssreflect all_algebra.
From mathcomp Require Import ssrZ zify.
From Coq Require Import ZArith.
From SK Require Import lib.RankBridge proof.C19_RankMC.
Require SK.model.C17_Model SK.model.C19_Model SK.proof.C17_Rank SK.proof.C19_Proof.
Require SK.proof.C19_Complexes SK.proof.C19_Linkage SK.proof.C19_Bridge.
Set Implicit Arguments. Unset Strict Implicit. Unset Printing Implicit Defensive.
Import GRing.Theory.
Local Open Scope ring_scope.

Lemma nth_ssr T (d : T) (s : seq T) n : nth d s n = List.nth n s d.
Proof. by elim: s n => [|a s IH] [|n] //=. Qed.

Lemma zrB x y : zr (x - y)%Z = zr x - zr y.
Proof.
have -> : (x - y)%Z = (x + (-1) * y)%Z by lia.
by rewrite zrD zrM /zr /= mulN1r.
Qed.

Lemma getz_list M i j : getz M i j = List.nth j (List.nth i M nil) 0%Z.
Proof. by rewrite /getz !nth_ssr. Qed.

Section Net.
Variables (net : seq C17_Model.rxn) (iso : seq C17_Model.str).
Let cs := fst (C19_Model.complex_graph net iso).
Let arcs := snd (C19_Model.complex_graph net iso).
Let k := length cs.
Let L := C19_Model.linkage_classes arcs k.
Let l := length L.
Let m := length (C17_Model.species_order net iso).
Let r := length (C17_Model.reaction_order net).
Let S := C17_Model.build_S net iso.

Let OK : C19_Complexes.arcs_ok arcs k := C19_Complexes.complex_graph_arcs_ok net iso.

Lemma u_lt (j : 'I_r) : (C19_Bridge.arc_u net iso j < k)%nat.
Proof. by apply/ltP; apply C19_Bridge.arc_uv_spec; apply/ltP. Qed.
Lemma v_lt (j : 'I_r) : (C19_Bridge.arc_v net iso j < k)%nat.
Proof. by apply/ltP; apply C19_Bridge.arc_uv_spec; apply/ltP. Qed.
Lemma rep_lt (c : 'I_l) : (C19_Bridge.rep L c < k)%nat.
Proof. by apply/ltP; apply (@C19_Bridge.rep_spec arcs k OK); apply/ltP. Qed.

Definition uf (j : 'I_r) : 'I_k := Ordinal (u_lt j).
Definition vf (j : 'I_r) : 'I_k := Ordinal (v_lt j).
Definition repf (c : 'I_l) : 'I_k := Ordinal (rep_lt c).
Definition clsf (c : 'I_l) (i : 'I_k) : bool := C19_Bridge.cls L c i.
Definition Ym : 'M[rat]_(m, k) := \matrix_(i, c) zr (List.nth i (List.nth c cs nil) 0%Z).

Lemma clsf_arc c j : clsf c (uf j) = clsf c (vf j).
Proof.
rewrite /clsf /=. apply: (@C19_Bridge.cls_arc arcs k OK); first by apply/ltP.
by apply C19_Bridge.arc_uv_spec; apply/ltP.
Qed.

Lemma clsf_rep c c' : clsf c (repf c') = (c == c').
Proof.
rewrite /clsf /= (@C19_Bridge.cls_rep arcs k OK); try by apply/ltP.
by rewrite -val_eqE /=; case: Nat.eqb_spec => [->|/eqP/negbTE ->]; rewrite ?eqxx.
Qed.

Lemma S_entry (i : 'I_m) (j : 'I_r) : toM m r S i j = Ym i (vf j) - Ym i (uf j).
Proof.
rewrite !mxE getz_list -zrB /=; congr (zr _).
by apply: C19_Bridge.S_entry_complexes; apply/ltP.
Qed.

(** rank of the stoichiometric matrix + number of linkage classes <= number of complexes *)
Theorem rank_plus_classes : (\rank (toM m r S) + l <= k)%nat.
Proof. exact: (rank_complex_bound clsf_arc clsf_rep S_entry). Qed.
End Net.

(** the same with the standard library's order and addition *)
Theorem rank_bound_le net iso r0 :
  let m := length (C17_Model.species_order net iso) in
  let n := length (C17_Model.reaction_order net) in
  let s := C19_Model.compute_summary net iso r0 in
  Peano.le (Nat.add (\rank (toM m n (C17_Model.build_S net iso))) (C19_Model.n_linkage s)) (C19_Model.n_complexes s).
Proof.
move=> m n s; rewrite /s C19_Linkage.compute_summary_eq /=.
by apply/leP; rewrite plusE; exact: rank_plus_classes.
Qed.

(** the deficiency with the exact rank over the rationals, justified by a checked certificate *)
Theorem deficiency_exact net iso (rc : C17_Model.rcert) :
  let m := length (C17_Model.species_order net iso) in
  let n := length (C17_Model.reaction_order net) in
  let S := C17_Model.build_S net iso in
  C17_Model.rank_checked m n S rc = true ->
  let s := C19_Model.compute_summary net iso (C17_Model.rc_r rc) in
  C19_Model.stoich_rank s = \rank (toM m n S) /\
  C19_Model.deficiency s =
    (Z.of_nat (C19_Model.n_complexes s) - Z.of_nat (C19_Model.n_linkage s) - Z.of_nat (\rank (toM m n S)))%Z.
Proof.
move=> m n S /C17_Rank.rank_checked_sound E s.
have F := C19_Proof.deficiency_formula net iso (C17_Model.rc_r rc).
have R : C19_Model.stoich_rank s = C17_Model.rc_r rc by rewrite /s C19_Linkage.compute_summary_eq.
by split; [rewrite R E | rewrite F R E].
Qed.

(** deficiency >= 0 for every network (CRNT: rank S <= n - l) *)
Theorem deficiency_nonneg net iso (rc : C17_Model.rcert) :
  let m := length (C17_Model.species_order net iso) in
  let n := length (C17_Model.reaction_order net) in
  C17_Model.rank_checked m n (C17_Model.build_S net iso) rc = true ->
  (0 <= C19_Model.deficiency (C19_Model.compute_summary net iso (C17_Model.rc_r rc)))%Z.
Proof.
move=> m n /C17_Rank.rank_checked_sound E.
have B := rank_plus_classes net iso. rewrite E in B.
rewrite C19_Linkage.compute_summary_eq /= /C19_Model.deficiency_of.
lia.
Qed.

Print Assumptions deficiency_nonneg.

(* ------------------------------------------------------------------ sum of the linkage-class deficiencies *)

Lemma sum_nth T (g : T -> nat) (s : seq T) (d : T) :
  (\sum_(0 <= c < length s) g (List.nth c s d))%nat = List.list_sum (List.map g s).
Proof.
elim: s => [|a s IH]; first by rewrite big_geq.
by rewrite /= big_nat_recl //= IH plusE.
Qed.

Section Sum.
Variables (net : seq C17_Model.rxn) (iso : seq C17_Model.str).
Let cs := fst (C19_Model.complex_graph net iso).
Let arcs := snd (C19_Model.complex_graph net iso).
Let L := C19_Model.linkage_classes arcs (length cs).
Let l := length L.
Let m := length (C17_Model.species_order net iso).
Let r := length (C17_Model.reaction_order net).
Let S := C17_Model.build_S net iso.
Let Dl (c : nat) := C19_Bridge.cdiffs net iso c.

Definition dfun (c : 'I_l) : nat := length (Dl c).
Definition Dm (c : 'I_l) : 'M[rat]_(dfun c, m) := toM (dfun c) m (Dl c).

Lemma cols_spec (j : 'I_r) :
  (forall i, toM m r S i j = 0) \/ exists c : 'I_l, exists t : 'I_(dfun c), forall i, toM m r S i j = Dm c t i.
Proof.
have jr : (j < length (C17_Model.reaction_order net))%coq_nat by apply/ltP.
case: (C19_Bridge.column_in_class_diffs net iso j jr) => [z | [c [t [/ltP Hc [/ltP Ht e]]]]].
- by left => i; rewrite mxE getz_list z //; apply/ltP.
- right; exists (Ordinal Hc), (Ordinal Ht) => i; rewrite !mxE !getz_list /=.
  by rewrite e //; apply/ltP.
Qed.

(** exact rank of S <= sum over the linkage classes of the exact ranks of their difference vectors *)
Theorem rank_le_class_ranks : (\rank (toM m r S) <= \sum_(c < l) \rank (Dm c))%nat.
Proof. exact: (rank_blocks cols_spec). Qed.

Theorem linkage_sum (rc : C17_Model.rcert) (ccs : seq C17_Model.rcert) :
  C19_Model.certs_ok net iso rc ccs = true ->
  (C19_Model.zsum (C19_Model.linkage_deficiencies L (List.map C17_Model.rc_r ccs))
   <= C19_Model.deficiency (C19_Model.compute_summary net iso (C17_Model.rc_r rc)))%Z.
Proof.
move=> /C19_Bridge.certs_ok_spec [] /C17_Rank.rank_checked_sound ES [] El Ec.
have B := rank_le_class_ranks; rewrite ES in B.
have E : (\sum_(c < l) \rank (Dm c))%nat = List.list_sum (List.map C17_Model.rc_r ccs).
  rewrite -(sum_nth _ _ C19_Bridge.dummy_cert) El -/L -/l big_mkord.
  apply: eq_bigr => c _; apply: C17_Rank.rank_checked_sound.
  by apply: Ec; apply/ltP.
rewrite E in B.
rewrite C19_Bridge.zsum_linkage_deficiencies; last by rewrite List.map_length.
rewrite C19_Bridge.concat_classes_length C19_Linkage.compute_summary_eq /= /C19_Model.deficiency_of.
rewrite -/cs -/arcs -/L.
lia.
Qed.
End Sum.
Print Assumptions linkage_sum.

(* non-vacuity: A + B <-> C, C -> 2A: S has rank 2 (certificate accepted), 3 complexes, 1 class, deficiency 0 *)
Definition ex_rc : C17_Model.rcert :=
  C17_Model.RCert 2 [:: [:: -1; 2]; [:: -1; 0]; [:: 1; -1]]%Z [:: [:: 1; -1; 0]; [:: 0; 0; 1]]%Z
                    [:: [:: 0; -2; 0]; [:: 1; -1; 0]]%Z [:: [:: 1; 0]; [:: 0; 0]; [:: 0; 1]]%Z 2%Z.
Example ex_deficiency :
  C17_Model.rank_checked 3 3 (C17_Model.build_S C19_Complexes.ex_net nil) ex_rc = true /\
  C19_Model.deficiency (C19_Model.compute_summary C19_Complexes.ex_net nil 2) = 0%Z.
Proof. by split; vm_compute. Qed.

(* non-vacuity for linkage_sum: the single class of the example has difference vectors of rank 2, class deficiency 3-1-2 = 0 *)
Definition ex_cc : C17_Model.rcert :=
  C17_Model.RCert 2 [:: [:: 1; 0]; [:: -1; 0]; [:: 0; 1]]%Z [:: [:: -1; -1; 1]; [:: 2; 0; -1]]%Z
                    [:: [:: 1; 0; 0]; [:: 0; 0; 1]]%Z [:: [:: 0; 1]; [:: -2; -1]; [:: 0; 0]]%Z 2%Z.
Example ex_linkage_sum :
  C19_Model.certs_ok C19_Complexes.ex_net nil ex_rc [:: ex_cc] = true /\
  C19_Model.linkage_deficiencies (C19_Model.linkage_classes C19_Complexes.ex_arcs 3) [:: 2%nat] = [:: 0%Z].
Proof. by split; vm_compute. Qed.

(** each class deficiency, with the exact rank of the class's difference vectors *)
Lemma linkage_deficiency_nth L ranks c : length ranks = length L -> (c < length L)%coq_nat ->
  List.nth c (C19_Model.linkage_deficiencies L ranks) 0%Z
  = (Z.of_nat (length (List.nth c L nil)) - 1 - Z.of_nat (List.nth c ranks 0%nat))%Z.
Proof.
move=> E Hc; rewrite /C19_Model.linkage_deficiencies.
have Hl : (c < length (List.combine L ranks))%coq_nat by rewrite List.combine_length E Nat.min_id.
rewrite (List.nth_indep _ 0%Z ((fun p : seq N * nat => (Z.of_nat (length p.1) - 1 - Z.of_nat p.2)%Z) (nil, 0%nat))); last by rewrite List.map_length.
by rewrite List.map_nth List.combine_nth.
Qed.

Theorem class_deficiency_exact net iso (rc : C17_Model.rcert) (ccs : seq C17_Model.rcert) c :
  C19_Model.certs_ok net iso rc ccs = true ->
  let L := C19_Model.linkage_classes (snd (C19_Model.complex_graph net iso)) (length (fst (C19_Model.complex_graph net iso))) in
  let m := length (C17_Model.species_order net iso) in
  let D := C19_Bridge.cdiffs net iso c in
  (c < length L)%coq_nat ->
  List.nth c (C19_Model.linkage_deficiencies L (List.map C17_Model.rc_r ccs)) 0%Z
  = (Z.of_nat (length (List.nth c L nil)) - 1 - Z.of_nat (\rank (toM (length D) m D)))%Z.
Proof.
move=> /C19_Bridge.certs_ok_spec [] _ [] El Ec L m D Hc.
rewrite linkage_deficiency_nth ?List.map_length //.
rewrite (List.nth_indep _ 0%nat (C17_Model.rc_r C19_Bridge.dummy_cert)); last by rewrite List.map_length El.
by rewrite List.map_nth (C17_Rank.rank_checked_sound (Ec c Hc)).
Qed.
