(** C05 — part 12: rule preparation in the implicit-hydrogen mode does not look at the insertion order of the
    template: two writings of the template ITS (same ids, labels, adjacency) are prepared into two writings of the
    same rule, in both directions.  With parts 10-11 this moves the set-level invariance from the prepared rule to the
    template. Stdlib lists. *)
From Coq Require Import List NArith ZArith Bool Arith Lia Permutation.
From SK Require Import lib.Tok lib.LGraph lib.Mono.
From SK Require Import model.C03_Model proof.C03_Spec proof.C03_Proof proof.C03_Glue proof.C03_Iso proof.C03_Backward.
From SK Require Import model.C05_Model proof.C05_Proof proof.C05_Order.
Import ListNotations.
Local Open Scope Z_scope.

Section WithThr.
Context {TH : Thr}.


(** adjacency through "keep the edges that satisfy [c], relabelled by [f]" *)
Lemma find_edge_flat_sub {B C} (c : B -> bool) (f : B -> C) (es : list (N * N * B)) a b : simpleP (pairs es) ->
  find_edge a b (flat_map (fun e : N * N * B => let '(u, v, x) := e in if c x then [(u, v, f x)] else []) es)
  = match find_edge a b es with Some x => if c x then Some (f x) else None | None => None end.
Proof.
  induction es as [|[[p q] y] r IH]; simpl; intros Hs; [reflexivity|].
  destruct Hs as (Hne & Hr & Hs).
  change ((N.eqb p a && N.eqb q b) || (N.eqb p b && N.eqb q a)) with (peq p q a b).
  destruct (peq p q a b) eqn:E.
  - destruct (c y) eqn:Ey; simpl.
    + change ((N.eqb p a && N.eqb q b) || (N.eqb p b && N.eqb q a)) with (peq p q a b). rewrite E. reflexivity.
    + apply find_edge_none_all. intros u v z I. apply in_flat_map in I. destruct I as ([[u' v'] y'] & I & I').
      destruct (c y'); [|destruct I']. destruct I' as [I'|[]]. inversion I'; subst.
      apply (peq_false_trans u v p q a b); [|exact E]. apply Hr. unfold pairs.
      change (u, v) with (fst (u, v, y')). apply in_map. exact I.
  - destruct (c y); simpl.
    + change ((N.eqb p a && N.eqb q b) || (N.eqb p b && N.eqb q a)) with (peq p q a b). rewrite E. apply IH; exact Hs.
    + apply IH; exact Hs.
Qed.

(** a well-formed writing: distinct ids, simple edge list *)
Definition wf_its (T : its) : Prop := NoDup (node_ids T) /\ simple_edgesb (gedges T) = true.

Section TwoWritings.
  Variables T T' : its.
  Hypothesis HS : same_graph T T'.
  Hypothesis Hw : simple_edgesb (gedges T) = true.
  Hypothesis Hw' : simple_edgesb (gedges T') = true.

  Lemma dec_side_same sn se : same_graph (dec_side sn se T) (dec_side sn se T').
  Proof.
    destruct HS as (L & A & Ids & N1 & N2).
    assert (Eids : forall X : its, node_ids (dec_side sn se X) = node_ids X)
      by (intros X; unfold node_ids, dec_side; simpl; rewrite map_map; reflexivity).
    split; [|split; [|split; [|split]]].
    - intros u. unfold label. rewrite !dec_gnodes, !(assoc_map (fun a => dec_node (sn a))).
      change (assoc u (gnodes T')) with (label T' u). change (assoc u (gnodes T)) with (label T u). rewrite L. reflexivity.
    - intros u v. rewrite (dec_adj sn se T' u v (simpleP_of_b _ Hw')), (dec_adj sn se T u v (simpleP_of_b _ Hw)), A. reflexivity.
    - intros u. rewrite !Eids. apply Ids.
    - rewrite Eids. exact N1.
    - rewrite Eids. exact N2.
  Qed.

  Lemma invert_same : same_graph (invert_template T) (invert_template T').
  Proof.
    destruct HS as (L & A & Ids & N1 & N2).
    split; [|split; [|split; [|split]]].
    - intros u. rewrite !invert_label, L. reflexivity.
    - intros u v.
      assert (Einv : forall X : its, gedges (invert_template X)
                = flat_map (fun e : N * N * iedge => let '(a, b, x) := e in
                     if (0 <? eH x) || (0 <? eG x)
                     then [(a, b, (fun x => let g := if 0 <? eH x then eH x else 0 in let h := if 0 <? eG x then eG x else 0 in (g, h, g - h)) x)]
                     else []) (gedges X))
        by (intros X; unfold invert_template; simpl; apply flat_map_ext; intros [[a b] x]; reflexivity).
      unfold LGraph.adj. rewrite !Einv.
      rewrite (find_edge_flat_sub (fun x => (0 <? eH x) || (0 <? eG x)) _ (gedges T') u v (simpleP_of_b _ Hw')).
      rewrite (find_edge_flat_sub (fun x => (0 <? eH x) || (0 <? eG x)) _ (gedges T) u v (simpleP_of_b _ Hw)).
      change (find_edge u v (gedges T')) with (LGraph.adj T' u v). change (find_edge u v (gedges T)) with (LGraph.adj T u v).
      rewrite A. reflexivity.
    - intros u. rewrite !invert_ids. apply Ids.
    - rewrite invert_ids. exact N1.
    - rewrite invert_ids. exact N2.
  Qed.
End TwoWritings.

(** explicit X-H bonds are a property of labels and adjacency *)
Lemma has_XH_true_iff (g : molg) : simple_edgesb (gedges g) = true ->
  (has_XH g = true <-> exists u v, LGraph.adj g u v <> None /\ xorb (is_H_m g u) (is_H_m g v) = true).
Proof.
  intros Hs. unfold has_XH. rewrite existsb_exists. split.
  - intros ([[u v] x] & I & Hx). exists u, v. split; [|exact Hx].
    unfold LGraph.adj. rewrite (simple_in_find (gedges g) u v x (simpleP_of_b _ Hs) I). discriminate.
  - intros (u & v & Ha & Hx). destruct (LGraph.adj g u v) as [x|] eqn:E; [|congruence].
    unfold LGraph.adj in E. destruct (find_edge_in _ _ _ _ E) as (p & q & I & Hp).
    exists (p, q, x). split; [exact I|].
    unfold peq in Hp. apply orb_prop in Hp.
    destruct Hp as [Hp|Hp]; apply andb_prop in Hp; destruct Hp as [E1 E2]; apply N.eqb_eq in E1, E2; subst; [exact Hx|].
    rewrite xorb_comm. exact Hx.
Qed.

Lemma has_XH_same (g g' : molg) : same_graph g g' ->
  simple_edgesb (gedges g) = true -> simple_edgesb (gedges g') = true -> has_XH g' = has_XH g.
Proof.
  intros (L & A & _) Hs Hs'.
  assert (HH : forall u, is_H_m g' u = is_H_m g u) by (intros u; unfold is_H_m; rewrite L; reflexivity).
  destruct (has_XH g) eqn:E.
  - apply (has_XH_true_iff g' Hs'). apply (has_XH_true_iff g Hs) in E. destruct E as (u & v & Ha & Hx).
    exists u, v. rewrite A, !HH. split; assumption.
  - destruct (has_XH g') eqn:E'; [|reflexivity]. exfalso.
    apply (has_XH_true_iff g' Hs') in E'. destruct E' as (u & v & Ha & Hx).
    assert (has_XH g = true) by (apply (has_XH_true_iff g Hs); exists u, v; rewrite <- A, <- !HH; split; assumption).
    congruence.
Qed.

Lemma dec_side_simple sn se (T : its) : simple_edgesb (gedges T) = true -> simple_edgesb (gedges (dec_side sn se T)) = true.
Proof. intros H. unfold dec_side; simpl. exact (simple_flat_sub (fun x => 0 <? se x) se (gedges T) H). Qed.

(** two writings of the template are prepared into two writings of the same rule (implicit-hydrogen mode, pattern
    without explicit X-H bonds) *)
Theorem prepare_same (inv : bool) (T T' : its) (p : prepared) :
  same_graph T T' -> simple_edgesb (gedges T) = true -> simple_edgesb (gedges T') = true ->
  prepare inv true T = Some p -> p_flag p = false ->
  exists p', prepare inv true T' = Some p' /\ p_flag p' = false /\
             same_graph (p_rc p) (p_rc p') /\ same_graph (p_pat p) (p_pat p').
Proof.
  intros HS Hw Hw' Hprep Hflag.
  set (U := if inv then invert_template T else T). set (U' := if inv then invert_template T' else T').
  assert (HSU : same_graph U U') by (unfold U, U'; destruct inv; [apply invert_same; assumption | exact HS]).
  assert (HwU : simple_edgesb (gedges U) = true).
  { unfold U. destruct inv; [|exact Hw]. unfold invert_template; simpl.
    exact (simple_flat_sub (fun x => (0 <? eH x) || (0 <? eG x))
             (fun x => let g := if 0 <? eH x then eH x else 0 in let h := if 0 <? eG x then eG x else 0 in (g, h, g - h)) (gedges T) Hw). }
  assert (HwU' : simple_edgesb (gedges U') = true).
  { unfold U'. destruct inv; [|exact Hw']. unfold invert_template; simpl.
    exact (simple_flat_sub (fun x => (0 <? eH x) || (0 <? eG x))
             (fun x => let g := if 0 <? eH x then eH x else 0 in let h := if 0 <? eG x then eG x else 0 in (g, h, g - h)) (gedges T') Hw'). }
  destruct HSU as (L & A & Ids & N1 & N2).
  assert (HSU : same_graph U U') by (repeat split; auto; apply Ids).
  unfold prepare in *. change (negb true) with false in *. fold U in Hprep. fold U'.
  assert (Eb : forall X : its, NoDup (node_ids X) -> synrule X false = Some (X, dec_side iG eG X, dec_side iH eH X)).
  { intros X HX. unfold synrule. simpl.
    change (dec_side iG eG X) with (fst (its_decompose X)). change (dec_side iH eH X) with (snd (its_decompose X)).
    rewrite (refresh_types_id X HX). reflexivity. }
  rewrite (Eb U N1) in Hprep. rewrite (Eb U' N2). inversion Hprep; subst p; clear Hprep. simpl in Hflag.
  pose proof (dec_side_same U U' HSU HwU HwU' iG eG) as HL.
  assert (Hx : has_XH (dec_side iG eG U') = false).
  { rewrite (has_XH_same _ _ HL (dec_side_simple iG eG U HwU) (dec_side_simple iG eG U' HwU')). exact Hflag. }
  eexists. split; [reflexivity|]. simpl. rewrite Hx, Hflag. split; [reflexivity|]. split; [exact HSU | exact HL].
Qed.

End WithThr.
