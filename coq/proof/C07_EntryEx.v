(** C07 — round 5: non-vacuity examples for the theorems of proof/C07_Entry.v.  Stdlib lists. *)
From Coq Require Import List NArith Bool Arith Lia.
From SK Require Import lib.Tok lib.LGraph lib.Mono model.C07_Model
  proof.C07_Spec proof.C07_History proof.C07_Filters proof.C07_Main proof.C07_WL proof.C07_Relabel proof.C07_Final proof.C07_Extra
  proof.C07_Examples proof.C07_Entry.
Import ListNotations.

(* keys: 1 element, 2 charge, 4 order; values: C = 1, O = 2, charge 0 = 3, charge -1 = 4, order 1 = 5, "*" = 9 *)
Definition gC_O : graph := LG [(3, aC); (4, aO)]%N [].                 (* C and O, not bonded *)
Lemma wf_gC_O : gwf gC_O. Proof. wf_small. Qed.

(** options as a caller writes them: names [element; charge], defaults ["*"; 0], edge attribute "order", default comparators *)
Definition oDef (filt : bool) (ct : N) : sub_opts := SO [1; 2]%N [9; 3]%N (EaKey 4%N) filt ct None None 0%N.

(** check_type: "induced" (code 0) — C . O is not an induced subgraph of C-O; "monomorphism" (code 1) and the misspelt "Induced"
    (code 7) both run the monomorphism test — it is one *)
Example ex_entry_check_type :
  sub_entry has_mono FnSM (oDef false 0) gC_O gCO = RB false /\
  sub_entry has_mono FnSM (oDef false 1) gC_O gCO = RB true /\
  sub_entry has_mono FnGM (oDef true 7) gC_O gCO = RB true /\
  contained false (nm_subc CEq [(1, 9); (2, 3)]%N) (em_subc CEq (Some 4%N)) gCO gC_O.
Proof.
  split; [vm_compute; reflexivity|]. split; [vm_compute; reflexivity|]. split.
  - change (oDef true 7) with (set_ctype (oDef true 0) 7). rewrite (check_type_spellings has_mono FnGM (oDef true 0) 7); [|discriminate].
    vm_compute. reflexivity.
  - destruct (entry_spec has_mono has_mono_contract FnSM (oDef false 1) gC_O gCO wf_gC_O wf_gCO) as (b & E & S).
    + split; [right; discriminate | discriminate].
    + apply S. assert (Eb : RB b = RB true) by (rewrite <- E; vm_compute; reflexivity). congruence.
Qed.

(** use_filter at the entry points *)
Example ex_entry_filter : sub_entry has_mono FnIS (oDef true 1) gC_O gCO = sub_entry has_mono FnIS (oDef false 1) gC_O gCO.
Proof.
  apply (entry_filter_transparent has_mono has_mono_contract FnIS (oDef false 1) gC_O gCO wf_gC_O wf_gCO).
  split; [right; discriminate | reflexivity].
Qed.

(** names and defaults of different lengths are zipped: names [element; charge] with defaults ["*"] compare the element only,
    so C-O and C-[O-] match although their charges differ *)
Example ex_entry_zip :
  o_sel (SO [1; 2]%N [9]%N (EaKey 4%N) false 0 None None 0%N) = [(1, 9)]%N /\
  sub_entry has_mono FnSM (SO [1; 2]%N [9]%N (EaKey 4%N) true 0 None None 0%N) gCO gCOm = RB true /\
  sub_entry has_mono FnSM (oDef true 0) gCO gCOm = RB false.
Proof. repeat split; vm_compute; reflexivity. Qed.

(** the facade: back-end "nx" (0) is subgraph_isomorphism without comparators — the wildcard comparator a caller may have put into the
    options is dropped; "mod" (1) is not installed: ImportError (2); an unknown name: ValueError (3) *)
Definition oWild (be : N) : sub_opts := SO [1; 2]%N [9; 3]%N (EaKey 4%N) false 0 (Some CAny) (Some CAny) be.
Example ex_facade :
  sub_entry has_mono FnIS (oWild 0) gCO gCOm = sub_entry has_mono FnSM (no_cmps (oWild 0)) gCO gCOm /\
  sub_entry has_mono FnIS (oWild 0) gCO gCOm = RB false /\ sub_entry has_mono FnSM (oWild 0) gCO gCOm = RB true /\
  sub_entry has_mono FnIS (oWild 1) gCO gCOm = RErr 2 /\ sub_entry has_mono FnIS (oWild 17) gCO gCOm = RErr 3.
Proof.
  split; [rewrite is_subgraph_facade; reflexivity|]. repeat split; vm_compute; reflexivity.
Qed.

(** edge_attribute: None raises TypeError in SubgraphMatch — unless the filter answered False before (C-O-C in C-O: too many nodes);
    graph_morphism switches edge matching off; "" is an ordinary absent attribute for SubgraphMatch *)
Definition oEa (a : eattr_raw) (filt : bool) : sub_opts := SO [1; 2]%N [9; 3]%N a filt 0 None None 0%N.
Example ex_entry_edge_attribute :
  sub_entry has_mono FnSM (oEa EaNone false) gCO gOC = RErr 1 /\
  sub_entry has_mono FnSM (oEa EaNone true) gCOC gCO = RB false /\
  sub_entry has_mono FnGM (oEa EaNone false) gCO gOC = RB true /\
  sub_entry has_mono FnSM (oEa (EaEmpty 11) true) gCO gOC = RB true.
Proof. repeat split; vm_compute; reflexivity. Qed.

(** the intermediate value: no matcher is built when the filter rejects (C-O-C in C-O), otherwise check_type picks the method *)
Example ex_entry_trace :
  entry_trace FnSM (oDef true 0) gCOC gCO = 0%N /\ sub_entry has_mono FnSM (oDef true 0) gCOC gCO = RB false /\
  entry_trace FnSM (oDef false 0) gCOC gCO = 2%N /\ entry_trace FnGM (oDef true 5) gCO gOC = 4%N.
Proof.
  split; [vm_compute; reflexivity|]. split; [|split; vm_compute; reflexivity].
  apply (entry_trace_spec has_mono FnSM (oDef true 0) gCOC gCO); [split; [right; discriminate | discriminate]|]. vm_compute. reflexivity.
Qed.

(** find_graph_isomorphism(C-O, O-C): the mapping {1: 5, 2: 7}, keys = nodes of G1, an isomorphism G1 -> G2 *)
Definition fgiEx : option mapping := fgi_map has_mono (monos_g true) true true 9 3 5 gCO gOC.
Example ex_fgi_map : fgiEx = Some [(1, 5); (2, 7)]%N /\
  iso_map (flip2 (fgi_nm true 9 3)) (flip2 (fgi_em true 5)) gOC gCO (mfun [(1, 5); (2, 7)]%N).
Proof.
  assert (E : fgiEx = Some [(1, 5); (2, 7)]%N) by (vm_compute; reflexivity). split; [exact E|].
  apply (fgi_map_spec has_mono (monos_g true) has_mono_contract monos_g_contract true true 9 3 5 gCO gOC wf_gCO wf_gOC). exact E.
Qed.
Example ex_fgi_map_none : fgi_map has_mono (monos_g true) true true 9 3 5 gCO gCOm = Some [(2, 5); (1, 7)]%N /\
                          fgi_map has_mono (monos_g true) true true 9 3 5 gCO gCOC = None.
Proof. split; vm_compute; reflexivity. Qed.

(** intermediate values of isomorphic / get_mappings: C-O-C (index 3) against C-O (index 0): the larger graph is the host of _pre_check
    whatever the argument order, subgraph_is_isomorphic decides; get_mappings enumerates with subgraph_isomorphisms_iter *)
Example ex_iso_trace :
  iso_trace eFull 0 (gnth gsA 0) 3 (gnth gsA 3) [] = [3; 0; 1; 2]%N /\ iso_trace eFull 3 (gnth gsA 3) 0 (gnth gsA 0) [] = [3; 0; 1; 2]%N /\
  maps_trace eFull 3 (gnth gsA 3) 0 (gnth gsA 0) [] = [1; 3]%N /\ maps_trace eFull 0 (gnth gsA 0) 3 (gnth gsA 3) [] = [0; 0]%N /\
  fst (get_mappings has_mono (monos_g true) eFull 0 (gnth gsA 0) 3 (gnth gsA 3) []) = [].
Proof.
  do 4 (split; [vm_compute; reflexivity|]).
  apply maps_trace_verdict. vm_compute. reflexivity.
Qed.

(** relabelling and symmetry of the helpers (proof/C07_Sym.v): C . O renumbered by +10 is still a monomorphic, not an induced,
    subgraph of C-O; graph_isomorphism / find_graph_isomorphism give the same verdict for (C-O, O-C) and (O-C, C-O) *)
From SK Require Import proof.C07_Sym.
Definition rPlus (x : N) : N := (x + 10)%N.
Lemma rPlus_inj l : inj_on rPlus l. Proof. intros a b _ _ E. unfold rPlus in E. lia. Qed.
Example ex_entry_relabel :
  sub_entry has_mono FnSM (oDef true 1) (grelabel rPlus gC_O) gCO = RB true /\
  sub_entry has_mono FnSM (oDef true 0) gC_O (grelabel rPlus gCO) = RB false.
Proof.
  destruct (entry_relabel has_mono has_mono_contract FnSM (oDef true 1) rPlus gC_O gCO wf_gC_O wf_gCO) as (A & _); [split; [right; discriminate | discriminate]|].
  destruct (entry_relabel has_mono has_mono_contract FnSM (oDef true 0) rPlus gC_O gCO wf_gC_O wf_gCO) as (_ & B); [split; [right; discriminate | discriminate]|].
  rewrite (A (rPlus_inj _)), (B (rPlus_inj _)). split; vm_compute; reflexivity.
Qed.
Example ex_helpers_symmetric :
  giso has_mono 9 3 5 gCO gOC = true /\ giso has_mono 9 3 5 gOC gCO = true /\
  fgi has_mono true true 9 3 5 gCOm gCO = fgi has_mono true true 9 3 5 gCO gCOm /\
  giso has_mono 9 3 5 (grelabel rPlus gCO) gCOm = false.
Proof.
  destruct (helpers_symmetric has_mono has_mono_contract gCO gOC wf_gCO wf_gOC) as (A & _).
  destruct (helpers_symmetric has_mono has_mono_contract gCOm gCO wf_gCOm wf_gCO) as (_ & _ & C).
  destruct (helpers_relabel has_mono has_mono_contract gCO gCOm rPlus wf_gCO wf_gCOm) as (D & _).
  split; [vm_compute; reflexivity|]. split; [rewrite <- A; vm_compute; reflexivity|]. split; [apply C|].
  destruct (D (rPlus_inj _)) as (D1 & _). rewrite D1. vm_compute. reflexivity.
Qed.

(** the cache after the history of ex_history (proof/C07_Examples.v): only keys of the two filtering engines, growing query by query;
    isomorphic and get_mappings agree on the equal-sized pair C-O / O-C *)
From SK Require Import proof.C07_Cache.
Example ex_cache_keys_engines : forall k, In k (keys (end_cache has_mono (monos_g true) gsA [eFull; eElem] histQ [])) ->
  key_of_filtering_engine [eFull; eElem] k.
Proof. apply end_cache_keys. apply keys_nil. Qed.
Example ex_cache_trace : cache_trace has_mono (monos_g true) gsA [eFull; eElem] (firstn 2 histQ) [] =
  [[(0%nat, [1; 2]%N); (2%nat, [1; 2]%N)]; [(0%nat, [1]%N); (2%nat, [1]%N); (0%nat, [1; 2]%N); (2%nat, [1; 2]%N)]].
Proof. vm_compute. reflexivity. Qed.
Example ex_iso_maps_consistent :
  fst (isomorphic has_mono eFull 0 (gnth gsA 0) 1 (gnth gsA 1) []) = true /\
  fst (get_mappings has_mono (monos_g true) eFull 0 (gnth gsA 0) 1 (gnth gsA 1) []) <> [].
Proof.
  assert (A : fst (isomorphic has_mono eFull 0 (gnth gsA 0) 1 (gnth gsA 1) []) = true) by (vm_compute; reflexivity).
  split; [exact A|].
  apply (iso_maps_consistent has_mono (monos_g true) has_mono_contract monos_g_contract gsA eFull 0 1 [] [] (cache_inv_nil gsA) (cache_inv_nil gsA)
           (wfA 0 ltac:(lia)) (wfA 1 ltac:(lia))); [reflexivity | discriminate | exact A].
Qed.

(** isomorphic is reflexive and transitive: C-O ~ O-C (a relabelled copy) ~ C-O gives C-O ~ C-O, whatever the caches hold *)
Example ex_iso_preorder : fst (isomorphic has_mono eFull 0 (gnth gsA 0) 0 (gnth gsA 0) []) = true.
Proof.
  destruct (iso_preorder has_mono has_mono_contract gsA eFull) as (_ & T).
  apply (T 0%nat 1%nat 0%nat [] [] [] (cache_inv_nil gsA) (cache_inv_nil gsA) (cache_inv_nil gsA) (wfA 0 ltac:(lia)) (wfA 1 ltac:(lia)) (wfA 0 ltac:(lia)));
    vm_compute; reflexivity.
Qed.

(** induced containment implies monomorphic containment: C-O is an induced subgraph of C-O-C, hence also a monomorphic one *)
Example ex_induced_implies_mono : sub_entry has_mono FnGM (oDef true 1) gCO gCOC = RB true.
Proof.
  apply (entry_induced_implies_mono has_mono has_mono_contract FnGM (oDef true 0) 1%N gCO gCOC wf_gCO wf_gCOC);
    [split; [left; reflexivity | discriminate] | discriminate | vm_compute; reflexivity].
Qed.

(** corollaries: C-O is contained in C-O-C (get_mappings non-empty), C-O-C is not isomorphic to C-O; guards *)
Example ex_embeddings_iff : fst (get_mappings has_mono (monos_g true) eFull 3 (gnth gsA 3) 0 (gnth gsA 0) []) <> [].
Proof.
  apply (embeddings_iff has_mono (monos_g true) has_mono_contract monos_g_contract gsA eFull 3 0 [] (cache_inv_nil gsA) (wfA 3 ltac:(lia)) (wfA 0 ltac:(lia)));
    [discriminate|]. apply (has_mono_contract true _ _ gCOC gCO wf_gCOC wf_gCO). vm_compute. reflexivity.
Qed.
Example ex_iso_unequal_orders : fst (isomorphic has_mono eFull 3 (gnth gsA 3) 0 (gnth gsA 0) []) = false.
Proof.
  apply (iso_unequal_orders has_mono has_mono_contract gsA eFull 3 0 [] (cache_inv_nil gsA) (wfA 3 ltac:(lia)) (wfA 0 ltac:(lia))). vm_compute. lia.
Qed.
Example ex_guards : fst (step has_mono (monos_g true) gsA [eFull] (QObj false 0 None (Some 1%nat)) []) = L [tN 99; tN 1] /\
                    fst (step has_mono (monos_g true) gsA [eFull] (QFgiT 0 1 0 1 true true 9 3 5) []) = tbool false /\
                    fst (step has_mono (monos_g true) gsA [eFull] (QFgiT 0 0 0 1 true true 9 3 5) []) = tbool true.
Proof. repeat split; vm_compute; reflexivity. Qed.

(** when the cache is written: the filtering engine comparing C-O with O-C (equal orders) leaves both entries; comparing C-O-C with
    C-O (different orders) leaves the cache alone *)
Example ex_pre_check_writes :
  In (0%nat, [1; 2]%N) (keys (snd (pre_check eFull 0 (gnth gsA 0) 1 (gnth gsA 1) []))) /\
  snd (pre_check eFull 3 (gnth gsA 3) 0 (gnth gsA 0) []) = [].
Proof.
  split.
  - apply (pre_check_writes eFull 0 (gnth gsA 0) 1 (gnth gsA 1) []). vm_compute. repeat split; lia.
  - apply (pre_check_writes eFull 3 (gnth gsA 3) 0 (gnth gsA 0) []). vm_compute. intros (_ & E & _). discriminate.
Qed.
