(** C09 — remap_graph with its error cases (model/C09_Helpers.v). *)
From Coq Require Import List NArith ZArith Bool.
From SK Require Import lib.LGraph model.C01_Model model.C09_Model model.C09_Helpers proof.C09_Lists proof.C09_Canon proof.C09_Main.
Import ListNotations.

(** ValueError exactly for the empty map; KeyError exactly when some old id of the mapping is not a node; otherwise the
    result is the [remap_graph] of the canonicaliser theorems *)
Theorem remap_graph_full_spec (H : mgraph) (pairs : list (N * N)) :
  (remap_graph_full H pairs = RValueError <-> pairs = []) /\
  (remap_graph_full H pairs = RKeyError <-> pairs <> [] /\ exists old, In old (map fst (remap_mapping pairs)) /\ ~ In old (node_ids H)) /\
  (forall g, remap_graph_full H pairs = ROk g <->
     remap_graph H pairs = Some g /\ forall old, In old (map fst (remap_mapping pairs)) -> In old (node_ids H)).
Proof.
  unfold remap_graph_full, remap_graph. destruct pairs as [|p ps].
  - split; [tauto|]. split; [split; [discriminate|intros (N0 & _); congruence]|]. intros g. split; [discriminate|intros (E & _); discriminate].
  - set (m := remap_mapping (p :: ps)).
    destruct (forallb (fun old => mem old (node_ids H)) (map fst m)) eqn:F.
    + rewrite forallb_forall in F.
      split; [split; discriminate|]. split.
      * split; [discriminate|]. intros (_ & old & I & Hn). specialize (F old I). apply mem_spec in F. contradiction.
      * intros g. split.
        -- intros E. injection E as <-. split; [reflexivity|]. intros old I. apply mem_spec. apply F. exact I.
        -- intros (E & _). injection E as <-. reflexivity.
    + split; [split; discriminate|]. split.
      * split; [intros _|reflexivity]. split; [discriminate|].
        assert (X : exists old, In old (map fst m) /\ mem old (node_ids H) = false).
        { clear -F. induction (map fst m) as [|a l IH]; simpl in F; [discriminate|].
          destruct (mem a (node_ids H)) eqn:Ma; simpl in F.
          - destruct (IH F) as (old & I & Mo). exists old. split; [right; exact I|exact Mo].
          - exists a. split; [left; reflexivity|exact Ma]. }
        destruct X as (old & I & Mo). exists old. split; [exact I|]. intros J. apply mem_spec in J. congruence.
      * intros g. split; [discriminate|]. intros (_ & A).
        assert (T : forallb (fun old => mem old (node_ids H)) (map fst m) = true).
        { apply forallb_forall. intros old I. apply mem_spec. apply A. exact I. }
        congruence.
Qed.

(** the list form on a duplicate-free list of all nodes is the relabelling [sigma_of] (C09_remap_graph_list) *)
Corollary remap_graph_list_full_ok (H : mgraph) (l : list N) :
  wf H -> NoDup l -> (forall n, In n l <-> In n (node_ids H)) -> l <> [] ->
  exists g, remap_graph_list_full H l = ROk g /\ remap_graph_list H l = Some g.
Proof.
  intros WH Hnd Hin Hne. pose proof (remap_graph_list_spec H l WH Hnd Hin Hne) as E.
  exists (relabel (sigma_of l) H). split; [|exact E].
  unfold remap_graph_list_full. apply (proj2 (proj2 (remap_graph_full_spec H _)) _). split; [exact E|].
  intros old I. apply Hin.
  assert (Hl : length (map N.of_nat (seq 1 (length l))) = length l) by (rewrite map_length, seq_length; reflexivity).
  rewrite remap_mapping_spec in I by (rewrite (map_snd_combine _ _ Hl); exact Hnd).
  rewrite map_fst_swap, (map_snd_combine _ _ Hl) in I. exact I.
Qed.

Example ex_remap_errors :
  remap_graph_full ex_H [] = RValueError /\ remap_graph_full ex_H [(5, 9)]%N = RKeyError /\
  (exists g, remap_graph_full ex_H [(5, 7); (5, 2)]%N = ROk g /\ length (gnodes g) = 2%nat) /\
  remap_graph_list_full ex_H [2; 4]%N = RKeyError.
Proof. split; [reflexivity|]. split; [reflexivity|]. split; [eexists; split; [vm_compute; reflexivity|reflexivity]|reflexivity]. Qed.
