(** C18 — WLCanonicalizer._estimate_aut_count is never an under-estimate: the product of the factorials of the colour-cell sizes,
    capped, is at least min(cap, number of structure-preserving self-maps) -- every such self-map permutes each colour cell
    (C18_wl_respects_selected_auts) and is determined by what it does on the cells. *)
From Coq Require Import List NArith ZArith Bool Arith Lia Permutation.
From SK Require Import lib.IRSortKeys lib.IRCore lib.IRSearch lib.C18_IRValid model.C18_Model model.C18_AttrModel model.C18_WLModel
  proof.C18_Spec proof.C18_Graph proof.C18_WL.
Import ListNotations.

(* ---------------- all permutations of a list ---------------- *)
Fixpoint inserts (x : N) (l : list N) : list (list N) :=
  match l with
  | [] => [[x]]
  | y :: r => (x :: y :: r) :: map (cons y) (inserts x r)
  end.
Fixpoint perms (l : list N) : list (list N) :=
  match l with [] => [[]] | x :: r => flat_map (inserts x) (perms r) end.

Lemma inserts_length x l : length (inserts x l) = S (length l).
Proof. induction l; simpl; auto. rewrite map_length, IHl. reflexivity. Qed.
Lemma inserts_elt_length x l q : In q (inserts x l) -> length q = S (length l).
Proof.
  revert q. induction l as [|y r IH]; simpl; intros q [<-|H]; auto; try contradiction.
  apply in_map_iff in H. destruct H as (q' & <- & Hq'). simpl. rewrite (IH _ Hq'). reflexivity.
Qed.
Lemma perms_elt_length l q : In q (perms l) -> length q = length l.
Proof.
  revert q. induction l as [|x r IH]; simpl; intros q H; [destruct H as [<-|[]]; reflexivity|].
  apply in_flat_map in H. destruct H as (q' & Hq' & Hq). rewrite (inserts_elt_length _ _ _ Hq), (IH _ Hq'). reflexivity.
Qed.
Lemma flat_map_const_length {A B} (f : A -> list B) (l : list A) k : (forall a, In a l -> length (f a) = k) ->
  length (flat_map f l) = length l * k.
Proof. induction l; simpl; intros H; auto. rewrite app_length, H, IHl; auto. Qed.
Lemma perms_length l : length (perms l) = fact (length l).
Proof.
  induction l as [|x r IH]; simpl; auto.
  rewrite (flat_map_const_length _ _ (S (length r))).
  - rewrite IH. lia.
  - intros q Hq. rewrite inserts_length, (perms_elt_length _ _ Hq). reflexivity.
Qed.
Lemma inserts_in x a b : In (a ++ x :: b) (inserts x (a ++ b)).
Proof. induction a as [|y a IH]; simpl; [destruct b; simpl; auto|]. right. apply in_map. exact IH. Qed.
Lemma perms_complete l : forall l', Permutation l l' -> In l' (perms l).
Proof.
  induction l as [|x r IH]; intros l' H; simpl.
  - apply Permutation_nil in H. subst. left. reflexivity.
  - assert (Hx : In x l') by (apply (Permutation_in _ H); left; reflexivity).
    apply in_split in Hx. destruct Hx as (a & b & ->).
    apply Permutation_cons_app_inv in H. apply in_flat_map. exists (a ++ b). split; [apply IH; exact H|apply inserts_in].
Qed.

(* ---------------- products over the cells ---------------- *)
Fixpoint prod_perms (cells : list (list N)) : list (list N) :=
  match cells with
  | [] => [[]]
  | c :: r => flat_map (fun q => map (app q) (prod_perms r)) (perms c)
  end.
Fixpoint prod_fact (sizes : list nat) : nat := match sizes with [] => 1 | s :: r => fact s * prod_fact r end.
Lemma prod_perms_length cells : length (prod_perms cells) = prod_fact (map (@length N) cells).
Proof.
  induction cells as [|c r IH]; simpl; auto.
  rewrite (flat_map_const_length _ _ (length (prod_perms r))).
  - rewrite perms_length, IH. reflexivity.
  - intros q _. apply map_length.
Qed.
Lemma prod_perms_in cells (s : N -> N) : (forall c, In c cells -> Permutation c (map s c)) -> In (map s (concat cells)) (prod_perms cells).
Proof.
  induction cells as [|c r IH]; intros H; simpl; [left; reflexivity|].
  rewrite map_app. apply in_flat_map. exists (map s c). split; [apply perms_complete; apply H; left; reflexivity|].
  apply in_map. apply IH. intros c' Hc'. apply H. right. exact Hc'.
Qed.

(* ---------------- the capped arithmetic of _fact_cap / _estimate_aut_count ---------------- *)
Fixpoint rising (k : N) (steps : nat) : N := match steps with O => 1%N | S s => (k * rising (k + 1) s)%N end.
Lemma rising_snoc k steps : rising k (S steps) = (rising k steps * (k + N.of_nat steps))%N.
Proof.
  revert k. induction steps as [|s IH]; intros k; [cbn [rising]; change (N.of_nat 0) with 0%N; lia|].
  change (rising k (S (S s))) with (k * rising (k + 1) (S s))%N. rewrite IH. cbn [rising]. rewrite Nat2N.inj_succ.
  rewrite N.mul_assoc. f_equal. lia.
Qed.
Lemma rising_fact n : rising 2 (n - 1) = N.of_nat (fact n).
Proof.
  destruct n as [|n]; [reflexivity|]. simpl Nat.sub. rewrite Nat.sub_0_r.
  induction n as [|n IH]; [reflexivity|]. rewrite rising_snoc, IH.
  change (fact (S (S n))) with (S (S n) * fact (S n)). rewrite Nat2N.inj_mul. rewrite !Nat2N.inj_succ. rewrite N.mul_comm. f_equal. lia.
Qed.
Lemma fact_cap_from_lb steps : forall k out cap,
  (N.min cap (out * rising k steps) <= fact_cap_from k steps out cap)%N.
Proof.
  induction steps as [|s IH]; intros k out cap; simpl; [lia|].
  destruct (N.leb_spec cap (out * k)) as [H|H]; [lia|].
  specialize (IH (k + 1)%N (out * k)%N cap). lia.
Qed.
Lemma fact_cap_lb n cap : (N.min cap (N.of_nat (fact n)) <= fact_cap n cap)%N.
Proof. unfold fact_cap. pose proof (fact_cap_from_lb (n - 1) 2%N 1%N cap) as H. rewrite rising_fact in H. lia. Qed.
Lemma fact_pos n : (1 <= N.of_nat (fact n))%N.
Proof. pose proof (lt_O_fact n). lia. Qed.

Lemma estimate_lb sizes : forall out cap, (1 <= out)%N ->
  (N.min cap (out * N.of_nat (prod_fact sizes)) <= estimate sizes out cap)%N.
Proof.
  induction sizes as [|s r IH]; intros out cap Ho; simpl; [lia|].
  pose proof (fact_cap_lb s cap) as Hf. pose proof (fact_pos s) as Hp.
  destruct (N.leb_spec cap (out * fact_cap s cap)) as [H|H]; [lia|].
  assert (Hc : (fact_cap s cap < cap)%N) by nia.
  assert (Hfs : (N.of_nat (fact s) <= fact_cap s cap)%N) by lia.
  assert (Ho' : (1 <= out * fact_cap s cap)%N) by nia.
  specialize (IH (out * fact_cap s cap)%N cap Ho').
  rewrite Nat2N.inj_mul.
  assert (Hm : (out * (N.of_nat (fact s) * N.of_nat (prod_fact r)) <= out * fact_cap s cap * N.of_nat (prod_fact r))%N) by nia.
  lia.
Qed.

(* ---------------- counting ---------------- *)
Lemma inj_rel_length {A B} (R : A -> B -> Prop) (L : list A) : forall (L' : list B), NoDup L ->
  (forall x, In x L -> exists y, In y L' /\ R x y) -> (forall x x' y, In x L -> In x' L -> R x y -> R x' y -> x = x') ->
  length L <= length L'.
Proof.
  induction L as [|x L IH]; intros L' Hnd Hex Hinj; simpl; [lia|].
  inversion Hnd; subst. destruct (Hex x (or_introl eq_refl)) as (y & Hy & Rxy).
  apply in_split in Hy. destruct Hy as (a & b & ->). rewrite app_length. simpl.
  assert (length L <= length (a ++ b)); [|rewrite app_length in *; lia].
  apply IH; auto.
  - intros x' Hx'. destruct (Hex x' (or_intror Hx')) as (y' & Hy' & R').
    exists y'. split; auto. apply in_app_or in Hy'. destruct Hy' as [I|[E|I]]; [apply in_or_app; auto| |apply in_or_app; auto].
    subst y'. exfalso. assert (x' = x) by (apply (Hinj x' x y); simpl; auto). subst. contradiction.
  - intros x1 x2 y0 H1' H2'. apply Hinj; simpl; auto.
Qed.

From SK Require Import proof.C18_Label proof.C18_Aut proof.C18_Vf2.

Lemma map_fst_recolor nodes sg : map fst (recolor nodes sg) = nodes.
Proof. unfold recolor. rewrite map_map. simpl. apply map_id. Qed.
Lemma map_fst_rounds g ek inb outb n : forall c, map fst c = node_ids g -> map fst (wl_rounds g ek inb outb n c) = node_ids g.
Proof. induction n as [|n IH]; intros c Hc; simpl; auto. apply IH. apply map_fst_recolor. Qed.
Lemma map_fst_colors g t nk ek inb outb n : map fst (wl_colors g t nk ek inb outb n) = node_ids g.
Proof. unfold wl_colors. apply map_fst_rounds. apply map_fst_recolor. Qed.

Section Bound.
Variables (g : vgraph) (inb outb : bool) (n_iter : nat).
Hypothesis Hw : wf g.
Definition colB := wl_colors g [] [NKind] [ERole; EStoich] inb outb n_iter.
Definition cellsB := wl_cells g colB.

Lemma cell_nodes c v : In c cellsB -> In v c -> In v (node_ids g).
Proof. unfold cellsB, wl_cells. intros Hc Hv. apply in_map_iff in Hc. destruct Hc as (k & <- & _). apply filter_In in Hv. tauto. Qed.
Lemma cell_nodup c : In c cellsB -> NoDup c.
Proof. unfold cellsB, wl_cells. intros Hc. apply in_map_iff in Hc. destruct Hc as (k & <- & _). apply NoDup_filter. apply Hw. Qed.
Lemma cells_cover v : In v (node_ids g) -> In v (concat cellsB).
Proof.
  intros Hv. destruct (wl_cells_cover g colB v Hv) as (c & Hc & Hvc).
  - unfold colB. rewrite map_fst_colors. exact Hv.
  - apply in_concat. eauto.
Qed.

Lemma aut_permutes_cell s c : is_aut g s -> In c cellsB -> Permutation c (map s c).
Proof.
  intros Hs Hc. apply Permutation_sym. apply NoDup_Permutation_bis.
  - apply NoDup_map_inj_on; [|apply cell_nodup; auto]. intros x y Hx Hy. apply Hs; eapply cell_nodes; eauto.
  - rewrite map_length. lia.
  - intros y Hy. apply in_map_iff in Hy. destruct Hy as (v & <- & Hv).
    apply (proj1 (wl_never_splits_orbit g s inb outb n_iter Hw Hs c Hc v (cell_nodes c v Hc Hv))). exact Hv.
Qed.

Theorem auts_le_cell_factorials : length (auts g) <= prod_fact (map (@length N) cellsB).
Proof.
  rewrite <- prod_perms_length.
  destruct (auts_spec g Hw) as (Hnd & _ & Hall).
  pose proof (aut_order_perm g (proj1 Hw)) as Hord.
  set (F := fun s : N -> N => rev (combine (aut_order g) (map s (aut_order g)))).
  apply (inj_rel_length (fun m q => exists s, is_aut g s /\ m = F s /\ q = map s (concat cellsB))); auto.
  - intros m Hm. destruct (Hall m Hm) as (s & Hs & E). exists (map s (concat cellsB)). split.
    + apply prod_perms_in. intros c Hc. apply aut_permutes_cell; auto.
    + exists s. auto.
  - intros m m' q _ _ (s & Hs & -> & ->) (s' & Hs' & -> & E).
    assert (Hag : forall v, In v (node_ids g) -> s v = s' v).
    { intros v Hv. pose proof (cells_cover v Hv) as Hin. revert E Hin. clear. induction (concat cellsB) as [|x l IH]; simpl; [tauto|].
      intros E [<-|Hin]; inversion E; auto. }
    unfold F. f_equal. f_equal. apply map_ext_in. intros v Hv. apply Hag. apply (Permutation_in _ Hord Hv).
Qed.

(** _estimate_aut_count never under-estimates (up to the cap) *)
Theorem wl_estimate_upper cap :
  (N.min cap (N.of_nat (length (auts g))) <= estimate (map (@length N) cellsB) 1%N cap)%N.
Proof.
  pose proof (estimate_lb (map (@length N) cellsB) 1%N cap ltac:(lia)) as H.
  pose proof auts_le_cell_factorials as Hle.
  assert (Hle' : (N.of_nat (length (auts g)) <= N.of_nat (prod_fact (map (@length N) cellsB)))%N) by lia.
  lia.
Qed.
End Bound.
