(** C05 — part 3: the stages between matching and gluing commute with relabelling, composed into the
    result-list theorem for the exhaustive strategy; strategy relation BACKTRACK = COMPONENT when non-empty;
    the pruning loses no class of matches. Stdlib lists. *)
From Coq Require Import List NArith ZArith Bool Arith Lia.
From SK Require Import lib.Tok lib.LGraph lib.Mono.
From SK Require model.C06_Model model.C11_Model.
From SK Require Import model.C03_Model model.C05_Model proof.C05_Proof proof.C05_Glue.
From SK Require proof.C11_Dedup.
Import ListNotations.

Section WithThr.
Context {TH : Thr}.


(** ** conversions to the matcher's graphs commute with relabelling *)
Lemma host_c06_relabel f (g : hostg) : host_c06 (relabel f g) = relabel f (host_c06 g).
Proof.
  unfold host_c06, relabel; simpl. rewrite !map_map. f_equal. apply map_ext. intros [[u v] o]. reflexivity.
Qed.
Lemma pat_c06_relabel f (g : molg) : pat_c06 (relabel f g) = relabel f (pat_c06 g).
Proof.
  unfold pat_c06, relabel; simpl. rewrite !map_map. f_equal. apply map_ext. intros [[u v] o]. reflexivity.
Qed.

Lemma lab_relabel f (Hf : inj f) (g : C06_Model.graph) u : C06_Model.lab (relabel f g) (f u) = C06_Model.lab g u.
Proof. unfold C06_Model.lab. rewrite (label_relabel _ _ f Hf g u). reflexivity. Qed.

Lemma monos_on'_relabel sg pi (Hs : inj sg) (Hp : inj pi) (H P : C06_Model.graph) hn pn :
  monos_on' (relabel pi H) (relabel sg P) (map pi hn) (map sg pn) = map (mv sg pi) (monos_on' H P hn pn).
Proof.
  unfold monos_on'. rewrite !monos'_eq.
  apply (monos_equiv _ _ sg pi Hp hn (C06_Model.lab P) (C06_Model.lab H)).
  - intros p. apply lab_relabel; assumption.
  - intros h. apply lab_relabel; assumption.
  - intros p q. apply adj_relabel; assumption.
  - intros h k. apply adj_relabel; assumption.
Qed.

(** ** the exhaustive strategy *)
Lemma all_loop_map (f : C06_Model.mapping -> C06_Model.mapping) maxr thr it : forall acc n,
  C06_Model.all_loop maxr thr (map f it) (map f acc) n = map f (C06_Model.all_loop maxr thr it acc n).
Proof.
  induction it as [|m it IH]; intros acc n; cbn [C06_Model.all_loop map].
  - rewrite map_rev. reflexivity.
  - destruct (C06_Model.capped maxr (N.succ n)).
    + change (f m :: map f acc) with (map f (m :: acc)). rewrite <- map_rev. reflexivity.
    + destruct (thr <? N.succ n)%N; [reflexivity|]. apply (IH (m :: acc)).
Qed.

Lemma lenN_map {X Y} (f : X -> Y) l : C06_Model.lenN (map f l) = C06_Model.lenN l.
Proof. unfold C06_Model.lenN. rewrite map_length. reflexivity. Qed.

Lemma matches_all_relabel sg pi (Hs : inj sg) (Hp : inj pi) (host : hostg) (pat : molg) :
  matches 0%N (relabel pi host) (relabel sg pat) = map (mv sg pi) (matches 0%N host pat).
Proof.
  unfold matches. rewrite host_c06_relabel, pat_c06_relabel.
  unfold C06_Model.find; simpl. unfold C06_Model.find_all.
  rewrite !(node_ids_relabel). rewrite monos_on'_relabel by assumption.
  rewrite (all_loop_map (mv sg pi) 0%N thr_val _ [] 0%N).
  rewrite lenN_map.
  destruct (thr_val <? _)%N; reflexivity.
Qed.

(** ** rule automorphisms and pruning *)
Lemma rule_auts_relabel sg (Hs : inj sg) (rc : its) : rule_auts (relabel sg rc) = map (mv sg sg) (rule_auts rc).
Proof.
  unfold rule_auts. rewrite !monos'_eq, node_ids_relabel.
  apply (monos_equiv _ _ sg sg Hs (node_ids rc) (label rc) (label rc)).
  - intros p. apply label_relabel; assumption.
  - intros p. apply label_relabel; assumption.
  - intros p q. apply adj_relabel; assumption.
  - intros p q. apply adj_relabel; assumption.
Qed.

Section PruneEquiv.
  Variables sg pi : N -> N.
  Hypothesis sg_inj : inj sg.
  Hypothesis pi_inj : inj pi.

  Lemma pair_mem_mv p h l : C11_Model.pair_mem (sg p, pi h) (mv sg pi l) = C11_Model.pair_mem (p, h) l.
  Proof.
    unfold C11_Model.pair_mem, mv. induction l as [|[q k] r IH]; simpl; [reflexivity|].
    unfold C11_Model.pair_eqb at 1 3; simpl. rewrite (inj_eqb sg p q sg_inj), (inj_eqb pi h k pi_inj), IH. reflexivity.
  Qed.

  Lemma forallb_mem_mv a b :
    forallb (fun x => C11_Model.pair_mem x (mv sg pi b)) (mv sg pi a) = forallb (fun x => C11_Model.pair_mem x b) a.
  Proof.
    induction a as [|[p h] r IH]; simpl; [reflexivity|]. rewrite pair_mem_mv. f_equal. apply IH.
  Qed.

  Lemma set_eqb_mv a b : C11_Model.set_eqb (mv sg pi a) (mv sg pi b) = C11_Model.set_eqb a b.
  Proof. unfold C11_Model.set_eqb. rewrite !forallb_mem_mv. reflexivity. Qed.

  Lemma act_mv s m : C11_Model.act (mv sg sg s) (mv sg pi m) = mv sg pi (C11_Model.act s m).
  Proof.
    unfold C11_Model.act, mv. rewrite !map_map. apply map_ext. intros [p h]; simpl.
    pose proof (mget_mv sg sg sg_inj s p) as E. unfold mget, mv in E. rewrite E.
    destruct (assoc p s); reflexivity.
  Qed.

  Lemma existsb_set_eqb_mv x seen :
    existsb (C11_Model.set_eqb (mv sg pi x)) (map (mv sg pi) seen) = existsb (C11_Model.set_eqb x) seen.
  Proof. induction seen as [|y r IH]; simpl; [reflexivity|]. rewrite set_eqb_mv, IH. reflexivity. Qed.

  Lemma dedup_aut_go_mv A xs : forall seen,
    C11_Model.dedup_aut_go (fun m => m) (map (mv sg sg) A) (map (mv sg pi) xs) (map (mv sg pi) seen)
    = map (mv sg pi) (C11_Model.dedup_aut_go (fun m => m) A xs seen).
  Proof.
    induction xs as [|x r IH]; intros seen; cbn [map C11_Model.dedup_aut_go]; [reflexivity|].
    rewrite existsb_set_eqb_mv. destruct (existsb (C11_Model.set_eqb x) seen); [apply IH|].
    cbn [map]. f_equal.
    etransitivity; [|apply (IH (x :: map (fun s => C11_Model.act s x) A ++ seen))]. f_equal.
    cbn [map]. f_equal. rewrite map_app, !map_map. f_equal. apply map_ext. intros s. apply act_mv.
  Qed.

  Lemma prune_relabel (rc : its) raw :
    prune (relabel sg rc) (map (mv sg pi) raw) = map (mv sg pi) (prune rc raw).
  Proof.
    unfold prune. rewrite map_length. unfold mapping. destruct (1 <? length raw)%nat; [|reflexivity].
    unfold C11_Model.dedup_aut. rewrite rule_auts_relabel by assumption.
    apply (dedup_aut_go_mv (rule_auts rc) raw []).
  Qed.
End PruneEquiv.

(** ** results of the exhaustive strategy, pattern without explicit X-H bonds *)
Definition relabel_prep (sg : N -> N) (p : prepared) : prepared :=
  Prep (relabel sg (p_rc p)) (relabel sg (p_l p)) (relabel sg (p_r p)) (p_flag p) (relabel sg (p_pat p)).

Lemma kept_all_relabel sg pi (Hs : inj sg) (Hp : inj pi) host p :
  kept_of 0%N (relabel pi host) (relabel_prep sg p) = map (mv sg pi) (kept_of 0%N host p).
Proof.
  unfold kept_of, raw_of; simpl. rewrite matches_all_relabel by assumption. apply prune_relabel; assumption.
Qed.

Lemma glued_all_relabel sg pi (Hs : inj sg) (Hp : inj pi) host p :
  p_flag p = false ->
  glued_of 0%N (relabel pi host) (relabel_prep sg p) = map (relabel pi) (glued_of 0%N host p).
Proof.
  intros Hflag. unfold glued_of. rewrite kept_all_relabel by assumption.
  rewrite flat_map_map', map_flat_map'. apply flat_map_ext. intros m.
  unfold glue_all, glue_base; simpl. rewrite Hflag. simpl. rewrite !app_nil_r.
  rewrite glue_equivariant by assumption. destruct (glue host (p_rc p) m); reflexivity.
Qed.

Lemma results_all_relabel sg pi (Hs : inj sg) (Hp : inj pi) host p :
  p_flag p = false ->
  results_of false 0%N (relabel pi host) (relabel_prep sg p) = option_map (map (relabel pi)) (results_of false 0%N host p).
Proof. intros Hflag. unfold results_of. simpl. rewrite glued_all_relabel by assumption. reflexivity. Qed.

(** ** strategies: BACKTRACK returns the COMPONENT result whenever that is non-empty *)
Lemma matches_bt_comp host pat : matches 1%N host pat <> [] -> matches 2%N host pat = matches 1%N host pat.
Proof.
  unfold matches, C06_Model.find; simpl. unfold C06_Model.find_bt.
  set (H := host_c06 host). set (P := pat_c06 pat).
  destruct (C06_Model.find_comp (monos_on' H P) 0 thr_val true H P) as [|m r] eqn:E; [|reflexivity].
  simpl. intros Hne. exfalso. apply Hne. destruct (thr_val <? _)%N; reflexivity.
Qed.

Lemma kept_bt_comp host p : raw_of 1%N host p <> [] -> kept_of 2%N host p = kept_of 1%N host p.
Proof. intros H. unfold kept_of, raw_of in *. rewrite matches_bt_comp by exact H. reflexivity. Qed.

Lemma glued_bt_comp host p : p_flag p = false -> raw_of 1%N host p <> [] -> glued_of 2%N host p = glued_of 1%N host p.
Proof.
  intros Hflag H. unfold glued_of. rewrite kept_bt_comp by exact H.
  apply flat_map_ext. intros m. unfold glue_all, glue_base. rewrite Hflag. reflexivity.
Qed.

(** when the substrate has fewer components than the pattern the component-aware search IS the exhaustive search *)
Lemma matches_comp_all_few host pat :
  (length (C06_Model.comps (pat_c06 pat)) <> 0)%nat ->
  (length (C06_Model.comps (host_c06 host)) < length (C06_Model.comps (pat_c06 pat)))%nat ->
  matches 1%N host pat = matches 0%N host pat.
Proof.
  intros Hne Hlt. unfold matches, C06_Model.find; simpl. unfold C06_Model.find_comp.
  apply Nat.eqb_neq in Hne. rewrite Hne. apply Nat.ltb_lt in Hlt. rewrite Hlt. reflexivity.
Qed.

(** ** the pruning keeps its input order and loses no class of matches *)
Lemma prune_subseq rc raw : C11_Dedup.subseq (prune rc raw) raw.
Proof.
  unfold prune. destruct (1 <? length raw)%nat; [apply C11_Dedup.dedup_aut_subseq | apply C11_Dedup.subseq_refl].
Qed.

Lemma prune_complete rc raw m : In m raw ->
  exists k, In k (prune rc raw) /\
    (k = m \/ C11_Model.set_eqb m k = true \/ exists s, In s (rule_auts rc) /\ C11_Model.set_eqb m (C11_Model.act s k) = true).
Proof.
  intros Hin. unfold prune. destruct (1 <? length raw)%nat.
  - destruct (C11_Dedup.dedup_aut_complete _ (fun m => m) (rule_auts rc) raw m Hin) as (k & Hk & Hc).
    exists k. split; [exact Hk | exact Hc].
  - exists m. split; auto.
Qed.

End WithThr.
