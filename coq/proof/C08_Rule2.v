(** C08 — the repaired SynRule equality (model/C08_Rule2.v): the signature of the two-sided reaction-centre graph is equal exactly
    for ITS graphs that are isomorphic by ONE bijection preserving the (before, after) labels of atoms and bonds; hence
    SynRule.__eq__ = True implies such a bijection, and - the fragments being derived from the ITS graph - conversely. *)
From Coq Require Import String List NArith ZArith Bool Arith Lia Permutation.
From SK Require Import lib.LGraph lib.StrJoin.
From SK Require Import model.C08_Model model.C08_Rule2 proof.C08_Spec proof.C08_Rule2Spec proof.C08_Sort proof.C08_Faithful proof.C08_Cov
                       proof.C08_SigFun proof.C08_Render proof.C08_Nauty proof.C08_Sound proof.C08_Invariant proof.C08_Value.
Import ListNotations.

(* ---------------- the encoding is injective on the covered attributes ---------------- *)
Lemma alnum_elc c : alnum c = true -> elc c = true.
Proof. unfold alnum, elc. intros H. rewrite H. reflexivity. Qed.
Lemma alnum_not_star : alnum 42%N = false.
Proof. reflexivity. Qed.
Lemma dig_alnum c : isdig c = true -> alnum c = true.
Proof. unfold isdig, alnum. intros ->. reflexivity. Qed.
Lemma alpha_alnum c : isalpha c = true -> alnum c = true.
Proof. unfold isalpha, alnum. intros H. destruct ((48 <=? c)%N && (c <=? 57)%N); [reflexivity|]. simpl. exact H. Qed.
Lemma zenc_alnum z : forallb alnum (zenc z) = true.
Proof.
  unfold zenc. cbn [forallb]. rewrite (forallb_weaken isdig alnum _ dig_alnum (decN_dig _)).
  destruct (z <? 0)%Z; reflexivity.
Qed.
Lemma zenc_inj a b : zenc a = zenc b -> a = b.
Proof.
  unfold zenc. intros E. inversion E as [[E1 E2]]. apply decN_inj in E2.
  destruct (Z.ltb_spec a 0), (Z.ltb_spec b 0); try discriminate; lia.
Qed.
Lemma pybool_alnum b : forallb alnum (pybool b) = true.
Proof. apply (forallb_weaken isalpha alnum _ alpha_alnum). apply pybool_alpha. Qed.

Definition cv := (list N * Z * bool * Z)%type.
Definition EC2 (c : cv * cv) : cv :=
  let '((e0, c0, a0, h0), (e1, c1, a1, h1)) := c in (join 42%N [e0; e1; pybool a1; zenc c1; zenc h1], c0, a0, h0).
Definition cv_ok (c : cv * cv) : Prop := el2_ok (fst (fst (fst (fst c)))) /\ el2_ok (fst (fst (fst (snd c)))).
Lemma ncov_enc a : ncov (enc_attr a) = EC2 (ncov2 a).
Proof. destruct a as [[e0 a0 c0 h0 m0] [e1 a1 c1 h1 m1]]. reflexivity. Qed.
Lemma nostar x : forallb alnum x = true -> nosep 42%N x.
Proof. intros H. apply (cls_nosep alnum); auto. Qed.
Lemma EC2_inj c d : cv_ok c -> cv_ok d -> EC2 c = EC2 d -> c = d.
Proof.
  destruct c as [[[[e0 c0] a0] h0] [[[e1 c1] a1] h1]], d as [[[[e0' c0'] a0'] h0'] [[[e1' c1'] a1'] h1']].
  unfold cv_ok, el2_ok. cbn [fst snd]. intros [K0 K1] [K0' K1'] E. unfold EC2 in E.
  assert (Ej : join 42%N [e0; e1; pybool a1; zenc c1; zenc h1] = join 42%N [e0'; e1'; pybool a1'; zenc c1'; zenc h1']) by congruence.
  assert (Ec : c0 = c0') by congruence. assert (Ea : a0 = a0') by congruence. assert (Eh : h0 = h0') by congruence. subst. clear E.
  apply join_inj in Ej; try discriminate.
  - pose proof (f_equal (fun l : list str => nth 0 l []) Ej) as E1. pose proof (f_equal (fun l : list str => nth 1 l []) Ej) as E2.
    pose proof (f_equal (fun l : list str => nth 2 l []) Ej) as E3. pose proof (f_equal (fun l : list str => nth 3 l []) Ej) as E4.
    pose proof (f_equal (fun l : list str => nth 4 l []) Ej) as E5. cbn [nth] in E1, E2, E3, E4, E5.
    apply pybool_inj in E3. apply zenc_inj in E4. apply zenc_inj in E5. subst. reflexivity.
  - repeat constructor; apply nostar; auto using pybool_alnum, zenc_alnum.
  - repeat constructor; apply nostar; auto using pybool_alnum, zenc_alnum.
Qed.

(* ---------------- the encoded graph ---------------- *)
Definition ek (c : N * (cv * cv)) : N * cv := (fst c, EC2 (snd c)).
Lemma cov_nodes_enc g : cov_nodes (enc2 g) = map ek (cov2_nodes g).
Proof.
  unfold cov_nodes, cov2_nodes, enc2. cbn [gnodes]. rewrite !map_map. apply map_ext. intros [n a]. unfold covn, ek. cbn [fst snd].
  rewrite ncov_enc. reflexivity.
Qed.
Lemma cov_edges_enc g : cov_edges (enc2 g) = cov2_edges g.
Proof. reflexivity. Qed.
Lemma node_ids_enc g : node_ids (enc2 g) = node_ids g.
Proof. unfold node_ids, enc2. cbn [gnodes]. rewrite map_map. reflexivity. Qed.
Lemma enc_relabel f g : enc2 (relabel f g) = relabel f (enc2 g).
Proof. unfold enc2, relabel. cbn [gnodes gedges]. rewrite !map_map. reflexivity. Qed.
Lemma wf_enc g : wf (enc2 g) <-> wf g.
Proof. unfold wf. rewrite node_ids_enc. reflexivity. Qed.

Lemma cov2_ok g : els2_ok g -> Forall (fun c => cv_ok (snd c)) (cov2_nodes g).
Proof.
  intros H. apply Forall_forall. intros c I. unfold cov2_nodes in I. apply in_map_iff in I. destruct I as ([n [a0 a1]] & <- & I).
  destruct (H _ I) as [H0 H1]. unfold cv_ok, ncov2, ncov. cbn [fst snd] in *. auto.
Qed.
Lemma ek_inj c d : cv_ok (snd c) -> cv_ok (snd d) -> ek c = ek d -> c = d.
Proof. destruct c as [n c], d as [m d]. unfold ek. cbn [fst snd]. intros Hc Hd E. inversion E. f_equal. apply EC2_inj; auto. Qed.

Lemma forallb_join (P : N -> bool) sep xs : P sep = true -> Forall (fun x => forallb P x = true) xs -> forallb P (join sep xs) = true.
Proof.
  intros Hs. induction 1 as [|x xs Hx Hxs IH]; [reflexivity|].
  destruct xs as [|x2 xs]; [exact Hx|].
  change (join sep (x :: x2 :: xs)) with (x ++ sep :: join sep (x2 :: xs)).
  rewrite forallb_app. cbn [forallb]. rewrite Hx, Hs, IH. reflexivity.
Qed.
Lemma els_ok_enc g : els2_ok g -> els_ok (enc2 g).
Proof.
  intros H p I. unfold enc2 in I. cbn [gnodes] in I. apply in_map_iff in I. destruct I as ([n [a0 a1]] & <- & I).
  destruct (H _ I) as [H0 H1]. cbn [fst snd] in *. unfold el_ok, enc_attr, enc_el. cbn [el fst snd].
  apply forallb_join; [reflexivity|].
  repeat constructor; apply (forallb_weaken alnum elc _ alnum_elc); auto using pybool_alnum, zenc_alnum.
Qed.
Lemma els2_ok_relabel f g : els2_ok g -> els2_ok (relabel f g).
Proof.
  intros H p I. unfold relabel in I. cbn [gnodes] in I. apply in_map_iff in I. destruct I as (q & <- & I). cbn [snd]. apply H. exact I.
Qed.

Lemma geq2_enc g h : els2_ok g -> els2_ok h -> (geq2 g h <-> geq_cov (enc2 g) (enc2 h)).
Proof.
  intros Kg Kh. unfold geq2, geq_cov. rewrite !cov_nodes_enc, !cov_edges_enc. split; intros [H1 H2]; split; auto.
  - apply Permutation_map. exact H1.
  - apply Permutation_sym in H1. apply Permutation_map_inv in H1. destruct H1 as (l3 & E & P).
    assert (F3 : Forall (fun c => cv_ok (snd c)) l3).
    { apply Forall_forall. intros c I. pose proof (cov2_ok g Kg) as F. rewrite Forall_forall in F. apply F.
      apply (Permutation_in _ (Permutation_sym P)). exact I. }
    assert (El : cov2_nodes h = l3).
    { revert E. apply (map_inj_in ek (fun c => cv_ok (snd c))); auto; [|apply cov2_ok; auto]. intros x y Hx Hy. apply ek_inj; auto. }
    rewrite El. exact P.
Qed.

Theorem iso2_enc g h : els2_ok g -> els2_ok h -> (iso2 g h <-> iso_cov (enc2 g) (enc2 h)).
Proof.
  intros Kg Kh. unfold iso2, iso_cov. rewrite node_ids_enc. split; intros (f & Hf & Hq); exists f; split; auto.
  - rewrite <- enc_relabel. apply (geq2_enc _ _ (els2_ok_relabel f g Kg) Kh). exact Hq.
  - apply (geq2_enc _ _ (els2_ok_relabel f g Kg) Kh). rewrite enc_relabel. exact Hq.
Qed.

(* ---------------- the two-sided reaction-centre signature is exact ---------------- *)
Theorem rc2_sig_exact g h : wf g -> wf h -> els2_ok g -> els2_ok h -> (rc2_sig g = rc2_sig h <-> iso2 g h).
Proof.
  intros Wg Wh Kg Kh. rewrite (iso2_enc g h Kg Kh). unfold rc2_sig.
  apply (syngraph_nauty str (fun s => s) (enc2 g) (enc2 h)); auto; try (apply wf_enc; auto); apply els_ok_enc; auto.
Qed.

(* ---------------- SynRule.__eq__ after the repair ---------------- *)
Definition rule2_ok (a : rule2) : Prop :=
  (wf (fst (fst a)) /\ els2_ok (fst (fst a))) /\ (wf (snd (fst a)) /\ els_ok (snd (fst a))) /\ (wf (snd a) /\ els_ok (snd a)).

Theorem rule2_eqb_spec a b : rule2_ok a -> rule2_ok b ->
  (rule2_eqb a b = true <-> iso2 (fst (fst a)) (fst (fst b)) /\ iso_cov (snd (fst a)) (snd (fst b)) /\ iso_cov (snd a) (snd b)).
Proof.
  intros ((W1 & K1) & (W2 & K2) & (W3 & K3)) ((W1' & K1') & (W2' & K2') & (W3' & K3')).
  unfold rule2_eqb. rewrite !andb_true_iff, !str_eqb_spec.
  rewrite (rc2_sig_exact _ _ W1 W1' K1 K1').
  rewrite (syngraph_nauty str (fun s => s) _ _ W2 W2' K2 K2' (fun e => e)).
  rewrite (syngraph_nauty str (fun s => s) _ _ W3 W3' K3 K3' (fun e => e)). tauto.
Qed.

(* equal rules are isomorphic as rules: ONE bijection preserving the ITS graph with its two-sided labels *)
Theorem rule2_eq_sound a b : rule2_ok a -> rule2_ok b -> rule2_eqb a b = true -> iso2 (fst (fst a)) (fst (fst b)).
Proof. intros Ha Hb E. apply (rule2_eqb_spec a b Ha Hb) in E. tauto. Qed.

(* the fragments are derived from the ITS graph (its_decompose, hydrogen handling: other properties): isomorphic ITS graphs have
   isomorphic fragments.  Under that premise equality is EXACTLY isomorphism of the ITS graphs. *)
Definition fragments_derived (a b : rule2) : Prop :=
  iso2 (fst (fst a)) (fst (fst b)) -> iso_cov (snd (fst a)) (snd (fst b)) /\ iso_cov (snd a) (snd b).
Theorem rule2_eq_exact a b : rule2_ok a -> rule2_ok b -> fragments_derived a b ->
  (rule2_eqb a b = true <-> iso2 (fst (fst a)) (fst (fst b))).
Proof.
  intros Ha Hb Hd. rewrite (rule2_eqb_spec a b Ha Hb). split; [tauto|]. intros Hi. destruct (Hd Hi). auto.
Qed.

(* non-vacuity: the audit witness (C08_RuleJoint.v: the three one-sided signatures agree, [synrule_eqb] = true) with the two-sided
   reaction-centre graph: the repaired comparison tells the rules apart; a renumbered copy of a rule compares equal *)
From SK Require Import proof.C08_RuleJoint.
Definition w2_its (a b : N) (ids : list N) : graph2 :=
  let q n := (if orb (N.eqb n a) (N.eqb n b) then 1 else 0)%Z in
  let id k := nth (N.to_nat k - 1) ids 0%N in
  LG (map (fun n => (id n, (wC 0, wC (q n)))) [1%N; 2%N; 3%N; 4%N])
     [(id 1%N, id 2%N, EA3 4 (Some 2%Z) (Some 2%Z)); (id 3%N, id 4%N, EA3 4 (Some 2%Z) (Some 2%Z));
      (id 1%N, id 4%N, EA3 0 (Some (-2)%Z) (Some 2%Z)); (id 3%N, id 2%N, EA3 0 (Some (-2)%Z) (Some 2%Z))].
Definition w2_A : rule2 := (w2_its 1 2 [1%N; 2%N; 3%N; 4%N], w_l, w_r 1 2).
Definition w2_B : rule2 := (w2_its 1 4 [1%N; 2%N; 3%N; 4%N], w_l, w_r 1 4).
Definition w2_A' : rule2 := (w2_its 1 2 [7%N; 3%N; 9%N; 5%N], w_l, w_r 1 2).
Example rule2_ex : synrule_eqb ser_nauty w_A w_B = true /\ rule2_eqb w2_A w2_B = false /\ rule2_eqb w2_A w2_A' = true
                   /\ gnodes (fst (fst w2_A)) <> gnodes (fst (fst w2_A')).
Proof. split; [vm_compute; reflexivity|]. split; [vm_compute; reflexivity|]. split; [vm_compute; reflexivity|]. vm_compute. discriminate. Qed.

Print Assumptions rc2_sig_exact.
Print Assumptions rule2_eqb_spec.
Print Assumptions rule2_eq_exact.

(* flat statements for the props file *)
Theorem rule2_eq_sound_flat (its its' : graph2) (l r l' r' : graph) :
  wf its -> wf l -> wf r -> wf its' -> wf l' -> wf r' -> els2_ok its -> els_ok l -> els_ok r -> els2_ok its' -> els_ok l' -> els_ok r' ->
  rule2_eqb (its, l, r) (its', l', r') = true ->
  exists f, C08_Spec.inj_on f (node_ids its) /\ geq2 (relabel f its) its'.
Proof. intros. apply (rule2_eq_sound (its, l, r) (its', l', r')); unfold rule2_ok; cbn [fst snd]; auto. Qed.
Theorem rule2_eq_exact_flat (its its' : graph2) (l r l' r' : graph) :
  wf its -> wf l -> wf r -> wf its' -> wf l' -> wf r' -> els2_ok its -> els_ok l -> els_ok r -> els2_ok its' -> els_ok l' -> els_ok r' ->
  ((exists f, C08_Spec.inj_on f (node_ids its) /\ geq2 (relabel f its) its') -> iso_cov l l' /\ iso_cov r r') ->
  (rule2_eqb (its, l, r) (its', l', r') = true <-> exists f, C08_Spec.inj_on f (node_ids its) /\ geq2 (relabel f its) its').
Proof. intros. apply (rule2_eq_exact (its, l, r) (its', l', r')); unfold rule2_ok, fragments_derived; cbn [fst snd]; auto. Qed.
Theorem rule2_eqb_spec_flat (its its' : graph2) (l r l' r' : graph) :
  wf its -> wf l -> wf r -> wf its' -> wf l' -> wf r' -> els2_ok its -> els_ok l -> els_ok r -> els2_ok its' -> els_ok l' -> els_ok r' ->
  (rule2_eqb (its, l, r) (its', l', r') = true <->
   (exists f, C08_Spec.inj_on f (node_ids its) /\ geq2 (relabel f its) its') /\ iso_cov l l' /\ iso_cov r r').
Proof. intros. apply (rule2_eqb_spec (its, l, r) (its', l', r')); unfold rule2_ok; cbn [fst snd]; auto. Qed.
