(** C01 — proofs about model/C01_String.v, part 4: h_to_explicit on an ITS (rsmi_to_its(explicit_hydrogen=True)) *)
From Coq Require Import List NArith ZArith Bool Lia Arith.
From SK Require Import lib.LGraph lib.C01_GraphLemmas model.C01_Model model.C02_Model model.C01_String proof.C01_Proof.
Import ListNotations.
Local Open Scope Z_scope.

Definition st_nodes (st : hx_state) : list (N * inode) := fst (fst st).
Definition st_edges (st : hx_state) : list (N * N * iedge) := snd (fst st).
Definition st_max (st : hx_state) : N := snd st.

(** what happens to the attributes of an original atom: nothing if it has no hydrogen on both sides, else the common
    hydrogens leave hcount and both halves of typesGH *)
Definition hx_upd (a : inode) : inode := if hx_count a <=? 0 then a else hx_dec a (hx_count a).

Lemma assoc_map_upd h c (ns : list (N * inode)) n :
  assoc n (map (fun q => if N.eqb (fst q) h then (fst q, hx_dec (snd q) c) else q) ns) =
  option_map (fun a => if N.eqb n h then hx_dec a c else a) (assoc n ns).
Proof.
  rewrite (map_ext _ (fun p => (fst p, (fun key (a : inode) => if N.eqb key h then hx_dec a c else a) (fst p) (snd p)))).
  - apply (assoc_map_val (fun key (a : inode) => if N.eqb key h then hx_dec a c else a)).
  - intros [key a]. cbn [fst snd]. destruct (N.eqb key h); reflexivity.
Qed.

(** one step: nodes *)
Lemma hx_step_assoc st h n a : assoc n (st_nodes st) = Some a ->
  assoc n (st_nodes (hx_step st h)) = Some (if N.eqb n h then hx_upd a else a).
Proof.
  destruct st as [[ns es] mx]. unfold st_nodes. cbn [fst snd]. intros L. unfold hx_step.
  destruct (assoc h ns) as [b|] eqn:Lh.
  - destruct (N.eqb_spec n h) as [->|Hne].
    + rewrite L in Lh. inversion Lh; subst b. unfold hx_upd. destruct (hx_count a <=? 0); cbn [fst]; [exact L|].
      rewrite assoc_app, assoc_map_upd, L. cbn [option_map]. rewrite N.eqb_refl. reflexivity.
    + destruct (hx_count b <=? 0); cbn [fst]; [exact L|].
      rewrite assoc_app, assoc_map_upd, L. cbn [option_map]. destruct (N.eqb_spec n h); [congruence|reflexivity].
  - cbn [fst]. destruct (N.eqb_spec n h) as [->|Hne]; [congruence|exact L].
Qed.

Lemma hx_fold_assoc l : NoDup l -> forall st n a, assoc n (st_nodes st) = Some a ->
  assoc n (st_nodes (fold_left hx_step l st)) = Some (if mem n l then hx_upd a else a).
Proof.
  induction l as [|h r IH]; intros Hn st n a L; [exact L|]. inversion Hn as [|? ? Hh Hr]; subst.
  cbn [fold_left]. rewrite (IH Hr _ n _ (hx_step_assoc st h n a L)). cbn [mem existsb]. fold (mem n r).
  destruct (N.eqb_spec n h) as [->|Hne]; cbn [orb]; [|reflexivity].
  destruct (mem h r) eqn:M; [apply mem_spec in M; contradiction|reflexivity].
Qed.

(** one step: the shape of what is appended *)
Definition new_node_ok (mx0 : N) (p : N * inode) : Prop := (mx0 < fst p)%N /\ snd p = h_inode.
Definition new_edge_ok (mx0 : N) (e : N * N * iedge) : Prop :=
  let '(u, v, x) := e in (mx0 < v)%N /\ x = IE 2 2 0.

Lemma hx_step_shape mx0 st h : (mx0 <= st_max st)%N -> (h <= mx0)%N ->
  exists (f : N * inode -> N * inode) nn ne,
    (forall q, fst (f q) = fst q) /\ (forall q, (mx0 < fst q)%N -> f q = q) /\
    st_nodes (hx_step st h) = map f (st_nodes st) ++ nn /\ st_edges (hx_step st h) = st_edges st ++ ne /\
    Forall (new_node_ok mx0) nn /\ Forall (new_edge_ok mx0) ne /\ (mx0 <= st_max (hx_step st h))%N.
Proof.
  destruct st as [[ns es] mx]. unfold st_nodes, st_edges, st_max. cbn [fst snd]. intros Hm Hh. unfold hx_step.
  assert (exists (f : N * inode -> N * inode) nn ne,
            (forall q, fst (f q) = fst q) /\ (forall q, (mx0 < fst q)%N -> f q = q) /\
            ns = map f ns ++ nn /\ es = es ++ ne /\
            Forall (new_node_ok mx0) nn /\ Forall (new_edge_ok mx0) ne /\ (mx0 <= mx)%N) as Same.
  { exists (fun q => q), [], []. rewrite map_id, !app_nil_r. repeat split; auto. }
  destruct (assoc h ns) as [b|]; [|exact Same].
  destruct (hx_count b <=? 0); [exact Same|]. cbn [fst snd].
  set (new := map (fun i => (mx + N.of_nat i)%N) (seq 1 (Z.to_nat (hx_count b)))).
  assert (forall n', In n' new -> (mx0 < n')%N) as Hnew.
  { intros n' I'. apply in_map_iff in I'. destruct I' as (i & <- & Ii). apply in_seq in Ii. lia. }
  exists (fun q => if N.eqb (fst q) h then (fst q, hx_dec (snd q) (hx_count b)) else q),
         (map (fun n' => (n', h_inode)) new), (map (fun n' => (h, n', IE 2 2 0)) new).
  split; [|split; [|split; [reflexivity|split; [reflexivity|split; [|split]]]]].
  - intros q. destruct (N.eqb (fst q) h); reflexivity.
  - intros q Hq. destruct (N.eqb_spec (fst q) h); [lia|reflexivity].
  - apply Forall_forall. intros p Ip. apply in_map_iff in Ip. destruct Ip as (n' & <- & I'). split; [apply Hnew; exact I'|reflexivity].
  - apply Forall_forall. intros e Ie. apply in_map_iff in Ie. destruct Ie as (n' & <- & I'). split; [apply Hnew; exact I'|reflexivity].
  - lia.
Qed.

Lemma hx_fold_shape mx0 l : (forall h, In h l -> (h <= mx0)%N) -> forall st, (mx0 <= st_max st)%N ->
  exists (f : N * inode -> N * inode) nn ne,
    (forall q, fst (f q) = fst q) /\ (forall q, (mx0 < fst q)%N -> f q = q) /\
    st_nodes (fold_left hx_step l st) = map f (st_nodes st) ++ nn /\ st_edges (fold_left hx_step l st) = st_edges st ++ ne /\
    Forall (new_node_ok mx0) nn /\ Forall (new_edge_ok mx0) ne.
Proof.
  induction l as [|h r IH]; intros Hl st Hm.
  - exists (fun q => q), [], []. cbn [fold_left]. rewrite map_id, !app_nil_r. repeat split; auto.
  - cbn [fold_left].
    destruct (hx_step_shape mx0 st h Hm (Hl h (or_introl eq_refl))) as (f1 & n1 & e1 & K1 & I1 & N1 & E1 & F1 & G1 & M1).
    destruct (IH (fun x Hx => Hl x (or_intror Hx)) (hx_step st h) M1) as (f2 & n2 & e2 & K2 & I2 & N2 & E2 & F2 & G2).
    exists (fun q => f2 (f1 q)), (map f2 n1 ++ n2), (e1 ++ e2). split; [|split; [|split; [|split; [|split]]]].
    + intros q. rewrite K2, K1. reflexivity.
    + intros q Hq. rewrite (I1 q Hq). apply I2. exact Hq.
    + rewrite N2, N1, map_app, map_map, app_assoc. reflexivity.
    + rewrite E2, E1, app_assoc. reflexivity.
    + apply Forall_app. split; [|exact F2]. apply Forall_forall. intros p Ip. apply in_map_iff in Ip.
      destruct Ip as (q & <- & Iq). rewrite Forall_forall in F1. destruct (F1 q Iq) as [Hq1 Hq2].
      rewrite (I2 q Hq1). split; assumption.
    + apply Forall_app. split; assumption.
Qed.

Lemma fold_max_ge (l : list N) : forall m n, (In n l \/ n <= m)%N -> (n <= fold_left N.max l m)%N.
Proof.
  induction l as [|x l IH]; intros m n H; cbn [fold_left].
  - destruct H as [[]|H]; exact H.
  - apply IH. destruct H as [[->|H]|H]; [right; lia|left; exact H|right; lia].
Qed.

(** C01_h_to_explicit_its *)
Theorem h_to_explicit_its_spec (I : its) : wf I ->
  let J := fst (h_to_explicit_its I) in
  let mx0 := fold_left N.max (node_ids I) 0%N in
  (* original atoms: the hydrogens common to both sides leave hcount and both halves of typesGH, nothing else changes *)
  (forall n a, label I n = Some a -> (n <= mx0)%N /\ label J n = Some (hx_upd a)) /\
  (* the atoms that are added are hydrogen atoms (H, no charge, atom_map 0, typesGH (H, H)) with fresh ids *)
  (exists nn, node_ids J = node_ids I ++ map fst nn /\ Forall (new_node_ok mx0) nn /\
              forall p, In p nn -> In p (gnodes J)) /\
  (* the bonds that are added are single bonds on both sides (order (1, 1), standard_order 0) to a fresh atom;
     every bond between original atoms is unchanged *)
  (exists ne, gedges J = gedges I ++ ne /\ Forall (new_edge_ok mx0) ne) /\
  (forall u v, (u <= mx0)%N -> (v <= mx0)%N -> adj J u v = adj I u v).
Proof.
  intros W J mx0. subst J. unfold h_to_explicit_its. fold mx0.
  set (st0 := (gnodes I, gedges I, mx0) : hx_state).
  assert (forall h, In h (node_ids I) -> (h <= mx0)%N) as Hle by (intros h Ih; apply fold_max_ge; left; exact Ih).
  destruct (hx_fold_shape mx0 (node_ids I) Hle st0 (N.le_refl _)) as (f & nn & ne & K & Ifix & Nn & Ne & Fn & Fe).
  pose proof (hx_fold_assoc (node_ids I) (proj1 W) st0) as HA.
  destruct (fold_left hx_step (node_ids I) st0) as [[ns es] mx] eqn:Efold.
  unfold st_nodes, st_edges in *. cbn [fst snd] in *. subst st0. cbn [fst snd] in *.
  split; [|split; [|split]].
  - intros n a L. split; [apply Hle; eapply label_some_node; eauto|].
    unfold label at 1. cbn [gnodes]. rewrite (HA n a L).
    assert (mem n (node_ids I) = true) as -> by (apply mem_spec; eapply label_some_node; eauto). reflexivity.
  - exists nn. split; [|split; [exact Fn|]].
    + unfold node_ids. cbn [gnodes]. rewrite Nn, map_app, map_map. f_equal. apply map_ext. intros q. apply K.
    + intros p Ip. cbn [gnodes]. rewrite Nn. apply in_app_iff. right. exact Ip.
  - exists ne. split; [exact Ne|exact Fe].
  - intros u v Hu Hv. unfold adj. cbn [gedges]. rewrite Ne, find_edge_app.
    destruct (find_edge u v (gedges I)) as [x|]; [reflexivity|].
    apply find_edge_none. intros x. rewrite Forall_forall in Fe. split; intros F; specialize (Fe _ F); cbn in Fe; lia.
Qed.

(** non-vacuity: CH3-OH -> CH3-OH2+ : the carbon's three hydrogens and the oxygen's common hydrogen become atoms, the
    hydrogen the oxygen gains stays implicit on the product side *)
Definition ex_eh : its :=
  LG [(1%N, IN 70%N 0 1 (Some (false, 3, [82%N])) (NA 70%N false 3 0 [82%N]) (NA 70%N false 3 0 [82%N]));
      (2%N, IN 82%N 0 2 (Some (false, 1, [70%N])) (NA 82%N false 1 0 [70%N]) (NA 82%N false 2 1 [70%N]))]
     [(1%N, 2%N, IE 2 2 0)].
Example C01_h_to_explicit_its_nonvacuous :
  wf ex_eh /\ node_ids (fst (h_to_explicit_its ex_eh)) = [1; 2; 3; 4; 5; 6]%N /\ snd (h_to_explicit_its ex_eh) = [3; 4; 5; 6]%N /\
  option_map (fun a => (a_hc (i_G a), a_hc (i_H a))) (label (fst (h_to_explicit_its ex_eh)) 2%N) = Some (0, 1) /\
  adj (fst (h_to_explicit_its ex_eh)) 2%N 6%N = Some (IE 2 2 0) /\
  option_map g_hc (label (snd (its_to_graphs (fst (h_to_explicit_its ex_eh)))) 2%N) = Some 1.
Proof.
  split; [|repeat split].
  apply wf_intro; cbn.
  - repeat constructor; cbn; intuition discriminate.
  - intros a b x [E|[]]; inversion E; subst; cbn; intuition discriminate.
  - repeat constructor.
Qed.

(** * how many hydrogens each atom gets *)
Definition step_edges (st : hx_state) (h : N) : list (N * N * iedge) :=
  match assoc h (st_nodes st) with
  | None => []
  | Some b =>
      if hx_count b <=? 0 then []
      else map (fun n' => (h, n', IE 2 2 0)) (map (fun i => (st_max st + N.of_nat i)%N) (seq 1 (Z.to_nat (hx_count b))))
  end.

Lemma hx_step_edges st h : st_edges (hx_step st h) = st_edges st ++ step_edges st h.
Proof.
  destruct st as [[ns es] mx]. unfold step_edges, st_edges, st_nodes, st_max, hx_step. cbn [fst snd].
  destruct (assoc h ns) as [b|]; [|cbn [fst snd]; rewrite app_nil_r; reflexivity].
  destruct (hx_count b <=? 0); cbn [fst snd]; [rewrite app_nil_r|]; reflexivity.
Qed.

Lemma filter_all_true {X} (p : X -> bool) (l : list X) : (forall x, In x l -> p x = true) -> filter p l = l.
Proof.
  induction l as [|a l IH]; intros H; [reflexivity|]. cbn [filter]. rewrite (H a (or_introl eq_refl)). f_equal.
  apply IH. intros x Hx. apply H. right. exact Hx.
Qed.

Definition from (n : N) (e : N * N * iedge) : bool := N.eqb (fst (fst e)) n.

Lemma step_edges_from st h n a : assoc n (st_nodes st) = Some a ->
  length (filter (from n) (step_edges st h)) = if N.eqb n h then Z.to_nat (Z.max 0 (hx_count a)) else 0%nat.
Proof.
  intros L. unfold step_edges. destruct (N.eqb_spec n h) as [->|Hne].
  - rewrite L. destruct (Z.leb_spec (hx_count a) 0) as [Hc|Hc].
    + rewrite Z.max_l by lia. reflexivity.
    + rewrite Z.max_r by lia. rewrite filter_all_true.
      * rewrite !map_length, seq_length. reflexivity.
      * intros e Ie. apply in_map_iff in Ie. destruct Ie as (n' & <- & _). unfold from. cbn [fst]. apply N.eqb_refl.
  - destruct (assoc h (st_nodes st)) as [b|]; [|reflexivity]. destruct (hx_count b <=? 0); [reflexivity|].
    induction (map (fun i => (st_max st + N.of_nat i)%N) (seq 1 (Z.to_nat (hx_count b)))) as [|x l IH]; [reflexivity|].
    cbn [map filter]. unfold from at 1. cbn [fst]. destruct (N.eqb_spec h n); [congruence|exact IH].
Qed.

Lemma hx_fold_count l : NoDup l -> forall st n a, assoc n (st_nodes st) = Some a ->
  exists ne, st_edges (fold_left hx_step l st) = st_edges st ++ ne /\
             length (filter (from n) ne) = if mem n l then Z.to_nat (Z.max 0 (hx_count a)) else 0%nat.
Proof.
  induction l as [|h r IH]; intros Hn st n a L.
  - exists []. cbn [fold_left]. rewrite app_nil_r. split; reflexivity.
  - inversion Hn as [|? ? Hh Hr]; subst. cbn [fold_left].
    destruct (IH Hr (hx_step st h) n _ (hx_step_assoc st h n a L)) as (ne & E & C).
    exists (step_edges st h ++ ne). split; [rewrite E, hx_step_edges, app_assoc; reflexivity|].
    rewrite filter_app, app_length, (step_edges_from st h n a L), C. cbn [mem existsb]. fold (mem n r).
    destruct (N.eqb_spec n h) as [->|Hne]; cbn [orb].
    + destruct (mem h r) eqn:M; [apply mem_spec in M; contradiction|]. lia.
    + destruct (mem n r); reflexivity.
Qed.

(** C01_h_to_explicit_count: every original atom gets exactly as many hydrogen atoms as leave its hcount and both
    halves of its typesGH, so its hydrogen total is unchanged on both sides *)
Theorem h_to_explicit_count (I : its) : wf I -> forall n a, label I n = Some a ->
  let J := fst (h_to_explicit_its I) in
  let c := Z.max 0 (hx_count a) in
  exists ne, gedges J = gedges I ++ ne /\
    length (filter (fun e : N * N * iedge => N.eqb (fst (fst e)) n) ne) = Z.to_nat c /\
    (forall b, label J n = Some b ->
       a_hc (i_G b) + c = a_hc (i_G a) /\ a_hc (i_H b) + c = a_hc (i_H a) /\ top_hc b + c = top_hc a).
Proof.
  intros W n a L J c. subst J.
  destruct (h_to_explicit_its_spec I W) as (HL & _).
  destruct (HL n a L) as [_ LJ].
  unfold h_to_explicit_its in *.
  set (st0 := (gnodes I, gedges I, fold_left N.max (node_ids I) 0%N) : hx_state) in *.
  destruct (hx_fold_count (node_ids I) (proj1 W) st0 n a L) as (ne & E & C).
  destruct (fold_left hx_step (node_ids I) st0) as [[ns es] mx] eqn:Efold.
  unfold st_edges in E. cbn [fst snd] in *. exists ne. split; [exact E|]. split.
  - assert (mem n (node_ids I) = true) as M by (apply mem_spec; eapply label_some_node; eauto).
    rewrite M in C. exact C.
  - intros b Lb. rewrite LJ in Lb. inversion Lb; subst b. clear Lb. subst c. unfold hx_upd.
    destruct (Z.leb_spec (hx_count a) 0) as [Hc|Hc].
    + rewrite Z.max_l by lia. repeat split; lia.
    + rewrite Z.max_r by lia. unfold hx_dec, top_hc. cbn [i_G i_H i_extra set_hc_n a_hc].
      repeat split; try lia. destruct (i_extra a) as [[[ar hc] nb]|] eqn:Ex; [lia|].
      exfalso. unfold hx_count, top_hc in Hc. rewrite Ex in Hc. lia.
Qed.

Example C01_h_to_explicit_count_nonvacuous :
  option_map hx_count (label ex_eh 1%N) = Some 3 /\ option_map hx_count (label ex_eh 2%N) = Some 1 /\
  length (filter (from 1%N) (skipn 1 (gedges (fst (h_to_explicit_its ex_eh))))) = 3%nat /\
  length (filter (from 2%N) (skipn 1 (gedges (fst (h_to_explicit_its ex_eh))))) = 1%nat.
Proof. repeat split. Qed.
