(** C17 — rank and kernel dimensions from a checked certificate (MathComp style).
    The executable checker is lib/RankBridge.check_rank (sound w.r.t. \rank over rat); here it is tied to the
    model's [rank_checked] and the kernel dimensions are derived. *)
From mathcomp Require Import all_ssreflect all_algebra.
From mathcomp Require Import ssrZ.
From Coq Require Import ZArith.
From SK Require Import lib.RankBridge.
Require SK.model.C17_Model.
Set Implicit Arguments. Unset Strict Implicit. Unset Printing Implicit Defensive.
Import GRing.Theory.
Local Open Scope ring_scope.

Lemma rank_checked_sound m n (S : seq (seq Z)) (c : C17_Model.rcert) :
  C17_Model.rank_checked m n S c = true -> \rank (toM m n S) = C17_Model.rc_r c.
Proof. by rewrite /C17_Model.rank_checked => /check_rank_sound. Qed.

(** left kernel {y | y S = 0} has dimension m - r, right kernel {v | S v = 0} has dimension n - r *)
Lemma kernel_dims m n (S : seq (seq Z)) (c : C17_Model.rcert) :
  C17_Model.rank_checked m n S c = true ->
  \rank (kermx (toM m n S)) = (m - C17_Model.rc_r c)%nat /\ \rank (kermx (toM m n S)^T) = (n - C17_Model.rc_r c)%nat.
Proof. by move=> /rank_checked_sound H; rewrite !mxrank_ker mxrank_tr H. Qed.

Lemma rank_bounds m n (S : seq (seq Z)) (c : C17_Model.rcert) :
  C17_Model.rank_checked m n S c = true -> (C17_Model.rc_r c <= m)%nat /\ (C17_Model.rc_r c <= n)%nat.
Proof. by move=> /rank_checked_sound <-; rewrite rank_leq_row rank_leq_col. Qed.

(** every kernel vector really annihilates the matrix (definition of kermx) *)
Lemma kernel_annihilates m n (S : seq (seq Z)) : kermx (toM m n S) *m toM m n S = 0.
Proof. exact: mulmx_ker. Qed.

(* non-vacuity: the certificate of A + B <-> C  (S = [[-1,1],[-1,1],[1,-1]], rank 1) is accepted *)
Example ex_rank_ABC :
  C17_Model.rank_checked 3 2 [:: [:: -1; 1]; [:: -1; 1]; [:: 1; -1]]%Z
    (C17_Model.RCert 1 [:: [:: -1]; [:: -1]; [:: 1]]%Z [:: [:: 1; -1]]%Z [:: [:: -1; 0; 0]]%Z [:: [:: 1]; [:: 0]]%Z 1%Z) = true.
Proof. by vm_compute. Qed.
