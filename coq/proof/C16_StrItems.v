(** C16 — parse_rxns with explicit per-line rules (tuples / mapping / rules=): which source of the rule wins, and the two
    round trips that go through this entry point. *)
From stdpp Require Import gmap strings sets pretty sorting.
From Coq Require Import Ascii.
From SK Require Import lib.Tok model.C15_Model proof.C15_Proof model.C16_Model proof.C16_Defs proof.C16_Chars proof.C16_Str.
Local Open Scope string_scope.
Local Open Scope list_scope.

(** plain strings are items without an explicit rule *)
Lemma parse_items_plain s lines dr ps pf :
  parse_items s ((λ l, (l, None)) <$> lines) dr ps pf = parse_rxns s lines dr ps pf.
Proof. unfold parse_items, parse_rxns. by rewrite foldl_fmap. Qed.

(** the network items in printing order *)
Definition print_items (H : net) (sort : bool) : list (string * rxn) :=
  if sort then sort_by_key (map_to_list (edges H)) else edge_seq H.
Lemma printed_lines H ir ii sort :
  hypergraph_to_rxn_strings H ir ii sort = (λ p, fmt_line ir ii p.1 p.2) <$> print_items H sort.
Proof. reflexivity. Qed.
Lemma print_items_perm H sort : wf_order H → print_items H sort ≡ₚ map_to_list (edges H).
Proof. intros Ho. unfold print_items. destruct sort; [apply merge_sort_Permutation|by apply edge_seq_perm]. Qed.

(** * the suffix test of parse_rxns *)
Lemma bar_rule_search_free l : Forall (λ a, is_char "|" a = false) l → bar_rule_search l = false.
Proof. induction 1 as [|a l Ha _ IH]; [done|]. cbn. by rewrite Ha, IH. Qed.
Lemma bar_rule_search_hit x y : is_Some (rule_at (drop_while py_space y)) → bar_rule_search (x ++ "|"%char :: y) = true.
Proof.
  intros Hy. induction x as [|a x IH]; cbn.
  - by rewrite bool_decide_eq_true_2.
  - rewrite IH. apply orb_true_r.
Qed.

Lemma rule_at_printed r z : valid_rule r = true → z = [] ∨ (∃ z', z = " "%char :: z') →
  rule_at (to_chars "rule=" ++ to_chars r ++ z) = Some (to_chars r).
Proof.
  intros (t & b & Hr & Hns & _)%valid_rule_chars Hz. rewrite Hr. simpl. rewrite <-(assoc_L (++)).
  assert (take_while (λ a, negb (py_space a)) (t ++ [b] ++ z) = t ++ [b]) as Htw.
  { rewrite (assoc_L (++)). destruct Hz as [->|[z' ->]]; [rewrite app_nil_r; by apply take_while_all|by apply take_while_app]. }
  assert (∃ a0 l0, t ++ [b] ++ z = a0 :: l0 ∧ py_space a0 = false) as (a0 & l0 & E0 & Ha0).
  { destruct t as [|a0 t]; simpl; eexists _, _; (split; [done|]); apply Forall_inv in Hns; by apply negb_true_iff. }
  rewrite E0. simpl. rewrite Ha0. rewrite <-E0, Htw. by destruct t.
Qed.

(** * printed lines *)
Definition plain_chars (rx : rxn) : chars := side_chars (r_lhs rx) ++ arrow_sep ++ side_chars (r_rhs rx).
Lemma fmt_line_plain_chars e rx : to_chars (fmt_line false false e rx) = plain_chars rx.
Proof. unfold fmt_line, plain_chars, side_chars, arrow_sep. cbn. by rewrite !to_chars_app. Qed.

Lemma line_has_rule_suffix ii e rx : rxn_ok rx → bar_rule_search (line_chars ii e rx) = true.
Proof.
  intros (Hrule & _).
  assert (line_chars ii e rx = (plain_chars rx ++ [" "%char]) ++ "|"%char ::
            ([" "%char] ++ to_chars "rule=" ++ to_chars (r_rule rx) ++ id_tail ii e)) as ->.
  { unfold line_chars, plain_chars. rewrite <-!(assoc_L (++)). done. }
  apply bar_rule_search_hit.
  assert (drop_while py_space ([" "%char] ++ to_chars "rule=" ++ to_chars (r_rule rx) ++ id_tail ii e)
          = to_chars "rule=" ++ to_chars (r_rule rx) ++ id_tail ii e) as -> by done.
  rewrite rule_at_printed; [eauto|done|]. unfold id_tail. destruct ii; [right; by eexists|by left].
Qed.

Lemma plain_chars_bar_free rx : side_labels_ok (r_lhs rx) = true → side_labels_ok (r_rhs rx) = true →
  Forall (λ a, is_char "|" a = false) (plain_chars rx).
Proof.
  intros Hl Hr. unfold plain_chars. rewrite !Forall_app. split_and!.
  - eapply Forall_impl; [exact (side_chars_bar_gt_free _ Hl)|]. by intros a [? _].
  - by repeat constructor.
  - eapply Forall_impl; [exact (side_chars_bar_gt_free _ Hr)|]. by intros a [? _].
Qed.

(** a line printed without suffix, parsed with an explicit rule *)
Lemma add_from_str_plain s rx r : side_labels_ok (r_lhs rx) = true → side_labels_ok (r_rhs rx) = true → rxn_empty rx = false →
  ∃ s' e', add_from_str s (of_chars (plain_chars rx)) (Some r) false = (s', None) ∧ edges s !! e' = None ∧
           edges s' = <[ e' := Rxn (norm_rule r) (r_lhs rx) (r_rhs rx) ]> (edges s).
Proof.
  intros Hl Hr Hem.
  pose proof (side_chars_edge_clean _ Hl) as HLc. pose proof (side_chars_edge_clean _ Hr) as HRc.
  pose proof (side_chars_bar_gt_free _ Hl) as HLf.
  unfold add_from_str. rewrite to_of_chars. cbn [andb].
  rewrite (strip_clean (plain_chars rx)) by (by apply edge_clean_app).
  unfold plain_chars, arrow_sep.
  change (to_chars " >> ") with ([" "%char] ++ ">"%char :: ">"%char :: [" "%char]).
  replace (side_chars (r_lhs rx) ++ ([" "%char] ++ ">"%char :: ">"%char :: [" "%char]) ++ side_chars (r_rhs rx))
    with ((side_chars (r_lhs rx) ++ [" "%char]) ++ ">"%char :: ">"%char :: ([" "%char] ++ side_chars (r_rhs rx))).
  2:{ rewrite <-!(assoc_L (++)). done. }
  rewrite split_arrow_app.
  2:{ rewrite Forall_app. split; [|by repeat constructor]. eapply Forall_impl; [exact HLf|]. by intros a [_ ?]. }
  pose proof (from_chars_side _ [] [" "%char] Hl ltac:(constructor) ltac:(by repeat constructor)) as HL.
  rewrite app_nil_l in HL. rewrite HL.
  pose proof (from_chars_side _ [" "%char] [] Hr ltac:(by repeat constructor) ltac:(constructor)) as HR.
  rewrite app_nil_r in HR. rewrite HR. cbn [default]. unfold id.
  destruct (add_generated_ok s (r_lhs rx) (r_rhs rx) r) as (s' & e' & -> & Hfresh & Hedges).
  { by destruct rx. }
  exists s', e'. done.
Qed.

Lemma parse_item_plain s rx r dr ps pf :
  side_labels_ok (r_lhs rx) = true → side_labels_ok (r_rhs rx) = true →
  parse_item s (of_chars (plain_chars rx)) (Some r) dr ps pf = add_from_str s (of_chars (plain_chars rx)) (Some r) false.
Proof.
  intros Hl Hr. unfold parse_item. rewrite to_of_chars, bar_rule_search_free by (by apply plain_chars_bar_free).
  by destruct (pf && ps).
Qed.
Lemma parse_item_suffixed s ii e rx (q : option string) dr : rxn_ok rx →
  parse_item s (of_chars (line_chars ii e rx)) q dr true true = add_from_str s (of_chars (line_chars ii e rx)) None true.
Proof.
  intros Hok. unfold parse_item. destruct q; [|by rewrite (rule_or_default_line ii e rx dr Hok)].
  cbn [andb]. by rewrite to_of_chars, line_has_rule_suffix.
Qed.

(** * round trips through parse_rxns with explicit rules *)
(** rules carried out of band: lines printed WITHOUT suffixes, each paired with the rule of its reaction (tuples, mapping or
    rules=), any parser flags *)
Lemma strings_roundtrip_explicit_rules (H : net) (sort : bool) (dr : string) (ps pf : bool) :
  wf16 H → strings_domain H = true →
  (parse_items empty_net ((λ p, (fmt_line false false p.1 p.2, Some (r_rule p.2))) <$> print_items H sort) dr ps pf).2 = None ∧
  rxns_of (parse_items empty_net ((λ p, (fmt_line false false p.1 p.2, Some (r_rule p.2))) <$> print_items H sort) dr ps pf).1
    ≡ₚ rxns_of H.
Proof.
  intros (Hwf & _ & Hord & _) Hdom. unfold strings_domain in Hdom. rewrite bool_decide_eq_true in Hdom.
  pose proof (print_items_perm H sort Hord) as Hperm.
  assert (Forall (λ p : string * rxn, rxn_ok p.2 ∧ r_rule p.2 ≠ "") (print_items H sort)) as Hok.
  { apply Forall_forall. intros [e rx] Hin. rewrite Hperm in Hin. apply elem_of_map_to_list in Hin.
    destruct (Hdom e rx Hin) as (? & ? & ?). destruct (Hwf e rx Hin) as [? ?]. done. }
  assert (∀ s, ∃ s', parse_items s ((λ p, (fmt_line false false p.1 p.2, Some (r_rule p.2))) <$> print_items H sort) dr ps pf = (s', None)
                      ∧ rxns_of s' ≡ₚ (print_items H sort).*2 ++ rxns_of s) as Hgen.
  { revert Hok. generalize (print_items H sort). intros l. induction 1 as [|[e rx] l [(Hrule & Hl & Hr & Hem) Hne] _ IH]; intros s.
    - exists s. done.
    - unfold parse_items. cbn [fmap list_fmap foldl fst snd].
      rewrite <-(of_to_chars (fmt_line false false e rx)), fmt_line_plain_chars, parse_item_plain by done.
      destruct (add_from_str_plain s rx (r_rule rx) Hl Hr Hem) as (s1 & e1 & -> & Hfresh & Hedges).
      destruct (IH s1) as (s' & Hparse & Hp). exists s'. split; [exact Hparse|].
      rewrite Hp. unfold rxns_of at 1. rewrite Hedges, map_to_list_insert by done. cbn.
      rewrite norm_rule_id, rxn_eta by done. unfold rxns_of. by rewrite Permutation_middle. }
  destruct (Hgen empty_net) as (s' & -> & Hp). split; [done|]. cbn. rewrite Hp. unfold rxns_of at 1. cbn.
  rewrite map_to_list_empty. cbn. rewrite app_nil_r. unfold rxns_of. by rewrite Hperm.
Qed.

(** lines printed WITH the rule suffix, parsed with [prefer_suffix]: the suffix wins over ANY explicit per-line rule *)
Lemma strings_roundtrip_prefer_suffix (H : net) (include_id sort : bool) (dr : string) (q : string → rxn → option string) :
  wf16 H → strings_domain H = true →
  (parse_items empty_net ((λ p, (fmt_line true include_id p.1 p.2, q p.1 p.2)) <$> print_items H sort) dr true true).2 = None ∧
  rxns_of (parse_items empty_net ((λ p, (fmt_line true include_id p.1 p.2, q p.1 p.2)) <$> print_items H sort) dr true true).1
    ≡ₚ rxns_of H.
Proof.
  intros (Hwf & _ & Hord & _) Hdom. unfold strings_domain in Hdom. rewrite bool_decide_eq_true in Hdom.
  pose proof (print_items_perm H sort Hord) as Hperm.
  assert (Forall (λ p : string * rxn, rxn_ok p.2 ∧ r_rule p.2 ≠ "") (print_items H sort)) as Hok.
  { apply Forall_forall. intros [e rx] Hin. rewrite Hperm in Hin. apply elem_of_map_to_list in Hin.
    destruct (Hdom e rx Hin) as (? & ? & ?). destruct (Hwf e rx Hin) as [? ?]. done. }
  assert (∀ s, ∃ s', parse_items s ((λ p, (fmt_line true include_id p.1 p.2, q p.1 p.2)) <$> print_items H sort) dr true true = (s', None)
                      ∧ rxns_of s' ≡ₚ (print_items H sort).*2 ++ rxns_of s) as Hgen.
  { revert Hok. generalize (print_items H sort). intros l. induction 1 as [|[e rx] l [Hrx Hne] _ IH]; intros s.
    - exists s. done.
    - unfold parse_items. cbn [fmap list_fmap foldl fst snd].
      rewrite <-(of_to_chars (fmt_line true include_id e rx)), fmt_line_chars, parse_item_suffixed by done.
      destruct (add_from_str_line s include_id e rx Hrx) as (s1 & e1 & -> & Hfresh & Hedges).
      destruct (IH s1) as (s' & Hparse & Hp). exists s'. split; [exact Hparse|].
      rewrite Hp. unfold rxns_of at 1. rewrite Hedges, map_to_list_insert by done. cbn.
      unfold rxns_of. by rewrite Permutation_middle. }
  destruct (Hgen empty_net) as (s' & -> & Hp). split; [done|]. cbn. rewrite Hp. unfold rxns_of at 1. cbn.
  rewrite map_to_list_empty. cbn. rewrite app_nil_r. unfold rxns_of. by rewrite Hperm.
Qed.

(** * non-vacuity *)
Definition ex_items_net : net :=
  mk_net [] [(None, "hyd", [("A", 1%Z); ("W", 1%Z)], [("B", 1%Z)]); (None, "con", [("B", 2%Z)], [("CC(=O)O", 12%Z); ("W", 1%Z)])] [].
Definition ex_items : list (string * option string) :=
  (λ p, (fmt_line false false p.1 p.2, Some (r_rule p.2))) <$> print_items ex_items_net true.
Example ex_items_printed : ex_items = [("2B >> 12CC(=O)O + W", Some "con"); ("A + W >> B", Some "hyd")].
Proof. by vm_compute. Qed.
Example ex_items_premises : bool_decide (wf16 ex_items_net) = true ∧ strings_domain ex_items_net = true.
Proof. by vm_compute. Qed.
(** without [prefer_suffix] an explicit rule wins and the suffix text is swallowed by the product side *)
Definition ex_items_explicit_wins : net :=
  (parse_items empty_net [("A >> B | rule=S", Some "X")] "r" true false).1.
Example ex_explicit_rule_wins : bool_decide (species ex_items_explicit_wins = {[ "A"; "B | rule=S" ]}) = true.
Proof. by vm_compute. Qed.

(** * (round 5, after the repo fix) the default rule of parse_rxns: a line WITHOUT a rule suffix gets [default_rule] also when
      suffix parsing is on (before the fix it got add_rxn's "r"); a line with a rule suffix keeps its own rule *)
Lemma parse_rxns_one s line dr pf :
  parse_rxns s [line] dr true pf
  = add_from_str s line (match suffix_rule line with Some _ => None | None => Some dr end) true.
Proof. done. Qed.
Definition ex_dr_net : net := (rxns_to_hypergraph ["A+B>>C | rule=R1"; "2A>>D"; "C>>A | id=3"; "X >> Y | id=3 rule=Q"] "R0" true false).1.
Example ex_default_rule :
  suffix_rule "2A>>D" = None ∧ suffix_rule "C>>A | id=3" = None ∧ is_Some (suffix_rule "X >> Y | id=3 rule=Q") ∧
  ((λ p : string * rxn, (p.1, r_rule p.2)) <$> edge_seq ex_dr_net) = [("R1_1", "R1"); ("R0_1", "R0"); ("R0_2", "R0"); ("Q_1", "Q")].
Proof. split_and!; try (by vm_compute). vm_compute. eauto. Qed.
