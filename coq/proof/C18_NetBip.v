(** C18 — network-level reading of clause 2 for the bipartite view: when species labels and reaction ids are pairwise
    distinct and no ordered (species, reaction) incidence is listed twice, the view has a closed form, and a network whose
    species are renamed, whose reactions are re-ordered (also inside a side) and whose reaction ids are regenerated has the
    view of the original network renamed and re-presented -- the hypothesis of C18_canon_invariant. *)
From Coq Require Import List NArith ZArith Bool Arith Lia Permutation.
From SK Require Import lib.IRCore lib.C18_IRValid model.C18_Model proof.C18_Spec proof.C18_Graph proof.C18_View.
Import ListNotations.

(* ---------------- insertion of fresh keys appends ---------------- *)
Lemma set_node_fresh v k l : ~ In v (map fst l) -> set_node v k l = l ++ [(v, k)].
Proof.
  induction l as [|[u k'] l IH]; simpl; intros H; auto.
  destruct (N.eqb_spec u v) as [->|Hne]; [exfalso; auto|]. f_equal. apply IH. auto.
Qed.
Lemma ensure_node_fresh v k l : ~ In v (map fst l) -> ensure_node v k l = l ++ [(v, k)].
Proof.
  induction l as [|[u k'] l IH]; simpl; intros H; auto.
  destruct (N.eqb_spec u v) as [->|Hne]; [exfalso; auto|]. f_equal. apply IH. auto.
Qed.
Lemma ensure_node_present v k l : In v (map fst l) -> ensure_node v k l = l.
Proof.
  induction l as [|[u k'] l IH]; simpl; intros H; [contradiction|].
  destruct (N.eqb_spec u v) as [->|Hne]; auto. f_equal. apply IH. destruct H; [congruence|auto].
Qed.
Lemma set_arc_fresh u v a l : ~ In (u, v) (map akey l) -> set_arc u v a l = l ++ [(u, v, a)].
Proof.
  induction l as [|e l IH]; simpl; intros H; auto.
  destruct (N.eqb (asrc e) u && N.eqb (adst e) v) eqn:E.
  - apply akey_eqb in E. exfalso. auto.
  - f_equal. apply IH. auto.
Qed.

Definition set_arc' (l : list arc) (e : arc) : list arc := set_arc (asrc e) (adst e) (aattr e) l.
Lemma fold_set_arc_fresh L : forall acc, NoDup (map akey (acc ++ L)) -> fold_left set_arc' L acc = acc ++ L.
Proof.
  induction L as [|e L IH]; intros acc H; simpl; [rewrite app_nil_r; auto|].
  unfold set_arc' at 2. rewrite set_arc_fresh.
  - destruct e as [[u v] a]. unfold asrc, adst, aattr. simpl. rewrite IH; rewrite <- app_assoc; auto.
  - rewrite map_app in H. simpl in H. apply NoDup_remove_2 in H. intro I. apply H. apply in_or_app. left. exact I.
Qed.

(* ---------------- the arcs of the bipartite view ---------------- *)
Definition arcs_of_rxn (st : bool) (r : rxn) : list arc :=
  map (fun sc => (fst sc, rid r, (RREACTANT, stv st (snd sc)))) (lhs r)
  ++ map (fun sc => (rid r, fst sc, (RPRODUCT, stv st (snd sc)))) (rhs r).
Definition arcs_of (st : bool) (n : net) : list arc := flat_map (arcs_of_rxn st) (nrxns n).

Lemma varcs_side (F : vgraph -> N * Z -> list (N * Z)) (A : N * Z -> arc) side : forall g,
  varcs (fold_left (fun g sc => VG (F g sc) (set_arc (asrc (A sc)) (adst (A sc)) (aattr (A sc)) (varcs g))) side g)
  = fold_left set_arc' (map A side) (varcs g).
Proof. induction side as [|sc side IH]; intros g; simpl; auto. rewrite IH. reflexivity. Qed.
Lemma vnodes_side (F : list (N * Z) -> N * Z -> list (N * Z)) (A : vgraph -> N * Z -> list arc) side : forall g,
  vnodes (fold_left (fun g sc => VG (F (vnodes g) sc) (A g sc)) side g) = fold_left F side (vnodes g).
Proof. induction side as [|sc side IH]; intros g; simpl; auto. rewrite IH. reflexivity. Qed.

Lemma varcs_add_rxn st g r : varcs (bip_add_rxn st g r) = fold_left set_arc' (arcs_of_rxn st r) (varcs g).
Proof.
  unfold bip_add_rxn, arcs_of_rxn. rewrite fold_left_app.
  rewrite (varcs_side (fun g sc => ensure_node (fst sc) KSPECIES (vnodes g))
             (fun sc => (rid r, fst sc, (RPRODUCT, stv st (snd sc))))).
  rewrite (varcs_side (fun g sc => ensure_node (fst sc) KSPECIES (vnodes g))
             (fun sc => (fst sc, rid r, (RREACTANT, stv st (snd sc))))).
  reflexivity.
Qed.
Lemma vnodes_add_rxn st g r : vnodes (bip_add_rxn st g r)
  = fold_left (fun l sc => ensure_node (fst sc) KSPECIES l) (lhs r ++ rhs r) (set_node (rid r) KREACTION (vnodes g)).
Proof.
  unfold bip_add_rxn. rewrite fold_left_app.
  rewrite (vnodes_side (fun l sc => ensure_node (fst sc) KSPECIES l)
             (fun g sc => set_arc (rid r) (fst sc) (RPRODUCT, stv st (snd sc)) (varcs g))).
  rewrite (vnodes_side (fun l sc => ensure_node (fst sc) KSPECIES l)
             (fun g sc => set_arc (fst sc) (rid r) (RREACTANT, stv st (snd sc)) (varcs g))).
  reflexivity.
Qed.

Lemma varcs_view_bip st n : varcs (view_bip st n) = fold_left set_arc' (arcs_of st n) [].
Proof.
  unfold view_bip, arcs_of.
  assert (G : forall rs g, varcs (fold_left (bip_add_rxn st) rs g) = fold_left set_arc' (flat_map (arcs_of_rxn st) rs) (varcs g)).
  { induction rs as [|r rs IH]; intros g; simpl; auto. rewrite IH, fold_left_app, varcs_add_rxn. reflexivity. }
  rewrite G. reflexivity.
Qed.

Definition sp_node (s : N) : N * Z := (s, KSPECIES).
Definition rx_node (r : rxn) : N * Z := (rid r, KREACTION).

Lemma species_nodes_closed l : NoDup l -> fold_left (fun l s => ensure_node s KSPECIES l) l [] = map sp_node l.
Proof.
  assert (G : forall l acc, NoDup (acc ++ l) ->
            fold_left (fun l s => ensure_node s KSPECIES l) l (map sp_node acc) = map sp_node (acc ++ l)).
  { clear l. induction l as [|x l IH]; intros acc H; simpl; [rewrite app_nil_r; auto|].
    rewrite ensure_node_fresh.
    - change (map sp_node acc ++ [(x, KSPECIES)]) with (map sp_node acc ++ map sp_node [x]). rewrite <- map_app.
      rewrite IH; rewrite <- app_assoc; auto.
    - unfold sp_node. rewrite map_map. simpl. rewrite map_id. apply NoDup_remove_2 in H. intro I. apply H. apply in_or_app. auto. }
  intros H. apply (G l [] H).
Qed.

Theorem view_bip_closed st n :
  NoDup (nspecies n ++ map rid (nrxns n)) -> net_closed n -> NoDup (map akey (arcs_of st n)) ->
  view_bip st n = VG (map sp_node (nspecies n) ++ map rx_node (nrxns n)) (arcs_of st n).
Proof.
  intros Hnd Hcl Hk.
  assert (EA : varcs (view_bip st n) = arcs_of st n) by (rewrite varcs_view_bip; apply (fold_set_arc_fresh _ []); auto).
  assert (EN : vnodes (view_bip st n) = map sp_node (nspecies n) ++ map rx_node (nrxns n)).
  { unfold view_bip.
    assert (G : forall rs done g, vnodes g = map sp_node (nspecies n) ++ map rx_node done ->
              NoDup (nspecies n ++ map rid (done ++ rs)) -> (forall r, In r rs -> In r (nrxns n)) ->
              vnodes (fold_left (bip_add_rxn st) rs g) = map sp_node (nspecies n) ++ map rx_node (done ++ rs)).
    { induction rs as [|r rs IH]; intros done g Hg Hn Hin; simpl; [rewrite app_nil_r; auto|].
      replace (done ++ r :: rs) with ((done ++ [r]) ++ rs) in * by (rewrite <- app_assoc; reflexivity).
      apply IH; auto; [|intros r' I; apply Hin; right; auto].
      rewrite vnodes_add_rxn, Hg.
      assert (Hfresh : ~ In (rid r) (map fst (map sp_node (nspecies n) ++ map rx_node done))).
      { rewrite map_app, !map_map. simpl. rewrite map_id.
        assert (Hn' : NoDup ((nspecies n ++ map rid done) ++ [rid r])).
        { rewrite !map_app in Hn. simpl in Hn. rewrite !app_assoc in Hn. apply NoDup_app_l in Hn. exact Hn. }
        apply NoDup_remove_2 in Hn'. rewrite app_nil_r in Hn'. exact Hn'. }
      rewrite set_node_fresh by auto.
      assert (P : forall (side : list (N * Z)) (l0 : list (N * Z)), (forall sc, In sc side -> In (fst sc) (map fst l0)) ->
                fold_left (fun l sc => ensure_node (fst sc) KSPECIES l) side l0 = l0).
      { induction side as [|sc side IHs]; intros l0 H; simpl; auto.
        rewrite ensure_node_present by (apply H; left; auto). apply IHs. intros; apply H; right; auto. }
      rewrite P.
      - rewrite map_app. simpl. rewrite <- app_assoc. reflexivity.
      - intros sc Hsc. rewrite !map_app. apply in_or_app. left. apply in_or_app. left.
        rewrite map_map. simpl. rewrite map_id. apply (Hcl r); [apply Hin; left; auto|auto]. }
    rewrite (G (nrxns n) [] _); auto.
    - simpl. rewrite app_nil_r. apply species_nodes_closed. apply NoDup_app_l in Hnd. auto.
  }
  destruct (view_bip st n) as [ns es]. simpl in *. subst. reflexivity.
Qed.

(* ---------------- renamed / re-ordered / re-identified networks ---------------- *)
Definition net_ok (st : bool) (n : net) : Prop :=
  NoDup (nspecies n ++ map rid (nrxns n)) /\ net_closed n /\ NoDup (map akey (arcs_of st n)).
Definition rxn_variant (f : N -> N) (r r' : rxn) : Prop :=
  rid r' = f (rid r) /\ Permutation (rename_side f (lhs r)) (lhs r') /\ Permutation (rename_side f (rhs r)) (rhs r').
Definition net_variant (f : N -> N) (n n' : net) : Prop :=
  Permutation (map f (nspecies n)) (nspecies n') /\
  exists rs, Forall2 (rxn_variant f) (nrxns n) rs /\ Permutation rs (nrxns n').

Definition relab (f : N -> N) (e : arc) : arc := (f (asrc e), f (adst e), aattr e).

Lemma arcs_of_rxn_variant st f r r' : rxn_variant f r r' ->
  Permutation (arcs_of_rxn st r') (map (relab f) (arcs_of_rxn st r)).
Proof.
  intros (Er & Hl & Hr). unfold arcs_of_rxn. rewrite map_app, !map_map. apply Permutation_app.
  - eapply perm_trans; [apply Permutation_map; apply Permutation_sym; exact Hl|].
    unfold rename_side. rewrite map_map. rewrite Er. apply Permutation_refl.
  - eapply perm_trans; [apply Permutation_map; apply Permutation_sym; exact Hr|].
    unfold rename_side. rewrite map_map. rewrite Er. apply Permutation_refl.
Qed.

Theorem net_variant_bip st f n n' : net_ok st n -> net_ok st n' -> net_variant f n n' ->
  geq (view_bip st n') (relabel f (view_bip st n)).
Proof.
  intros (H1 & H2 & H3) (H1' & H2' & H3') (Hs & rs & HF & Hp).
  rewrite (view_bip_closed st n H1 H2 H3), (view_bip_closed st n' H1' H2' H3').
  unfold relabel, geq. simpl. split.
  - rewrite map_app, !map_map. apply Permutation_app.
    + change (fun x : N => (f (fst (sp_node x)), snd (sp_node x))) with (fun x : N => sp_node (f x)).
      rewrite <- (map_map f sp_node). apply Permutation_map. apply Permutation_sym. auto.
    + eapply perm_trans; [apply Permutation_map; apply Permutation_sym; exact Hp|].
      clear - HF. induction HF as [|r r' l l' (Er & _) HF IH]; simpl; auto.
      unfold rx_node in *. simpl. rewrite Er. apply perm_skip. exact IH.
  - unfold arcs_of. eapply perm_trans; [apply Permutation_flat_map; apply Permutation_sym; exact Hp|].
    clear - HF. induction HF as [|r r' l l' Hv HF IH]; simpl; auto.
    rewrite map_app. apply Permutation_app; auto. apply arcs_of_rxn_variant. auto.
Qed.

Lemma node_ids_view_bip st n : net_ok st n -> node_ids (view_bip st n) = nspecies n ++ map rid (nrxns n).
Proof.
  intros (H1 & H2 & H3). rewrite (view_bip_closed st n H1 H2 H3). unfold node_ids. simpl.
  rewrite map_app, !map_map. simpl. rewrite map_id. reflexivity.
Qed.
