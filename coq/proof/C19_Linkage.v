(** C19 — linkage classes and weak reversibility of model/C19_Model.v.
    The linkage classes are exactly the connected components of the undirected complex graph (a partition of the complex
    indices; same class iff joined by an undirected path); the weak-reversibility verdict is true iff every class is
    strongly connected, iff every arc y -> y' has a directed return path y' -> ... -> y.  The fuel (number of complexes
    + 1) always suffices.  Built on lib/Reach.v.  Style: stdlib lists. *)
From Coq Require Import List NArith ZArith Bool Arith Lia.
From SK Require Import lib.Reach model.C17_Model model.C19_Model proof.C19_Complexes.
Import ListNotations.
Local Open Scope nat_scope.

(* ------------------------------------------------------------------ specification: paths in the complex graph *)

(** directed path u ->* w along the arcs *)
Inductive dpath (arcs : list (nat * nat)) : nat -> nat -> Prop :=
| dp_refl u : dpath arcs u u
| dp_step u v w : dpath arcs u v -> In (v, w) arcs -> dpath arcs u w.
(** undirected path: every step follows an arc forwards or backwards *)
Inductive upath (arcs : list (nat * nat)) : nat -> nat -> Prop :=
| up_refl u : upath arcs u u
| up_step u v w : upath arcs u v -> In (v, w) arcs \/ In (w, v) arcs -> upath arcs u w.

Lemma dpath_trans arcs u v w : dpath arcs u v -> dpath arcs v w -> dpath arcs u w.
Proof. intros H1 H2. induction H2 as [|v w x H IH I]; [exact H1|]. eapply dp_step; [apply IH; exact H1|exact I]. Qed.
Lemma upath_trans arcs u v w : upath arcs u v -> upath arcs v w -> upath arcs u w.
Proof. intros H1 H2. induction H2 as [|v w x H IH I]; [exact H1|]. eapply up_step; [apply IH; exact H1|exact I]. Qed.
Lemma upath_sym arcs u v : upath arcs u v -> upath arcs v u.
Proof.
  induction 1 as [u|u v w H IH S]; [constructor|].
  eapply upath_trans; [|exact IH]. eapply up_step; [constructor|]. tauto.
Qed.
Lemma dpath_upath arcs u v : dpath arcs u v -> upath arcs u v.
Proof. induction 1; [constructor|]. eapply up_step; eauto. Qed.

(* ------------------------------------------------------------------ neighbour lists *)

Lemma nn_inj a b : nn a = nn b -> a = b.
Proof. apply Nat2N.inj. Qed.

Lemma succs_in arcs x y : In y (succs arcs x) <-> exists a, In a arcs /\ nn (fst a) = x /\ y = nn (snd a).
Proof.
  unfold succs. rewrite in_flat_map. split; intros (a & I & H); exists a; (split; [exact I|]).
  - destruct (N.eqb_spec (nn (fst a)) x); [|destruct H]. destruct H as [H|[]]. auto.
  - destruct H as [-> ->]. rewrite N.eqb_refl. left. reflexivity.
Qed.
Lemma preds_in arcs x y : In y (preds arcs x) <-> exists a, In a arcs /\ nn (snd a) = x /\ y = nn (fst a).
Proof.
  unfold preds. rewrite in_flat_map. split; intros (a & I & H); exists a; (split; [exact I|]).
  - destruct (N.eqb_spec (nn (snd a)) x); [|destruct H]. destruct H as [H|[]]. auto.
  - destruct H as [-> ->]. rewrite N.eqb_refl. left. reflexivity.
Qed.
Lemma und_in arcs x y : In y (und_nbr arcs x) <-> In y (succs arcs x) \/ In y (preds arcs x).
Proof. unfold und_nbr. apply in_app_iff. Qed.

Lemma succs_nn arcs u w : In (nn w) (succs arcs (nn u)) <-> In (u, w) arcs.
Proof.
  rewrite succs_in. split.
  - intros ([a b] & I & H1 & H2). simpl in *. apply nn_inj in H1, H2. subst. exact I.
  - intros I. exists (u, w). auto.
Qed.
Lemma preds_nn arcs u w : In (nn w) (preds arcs (nn u)) <-> In (w, u) arcs.
Proof.
  rewrite preds_in. split.
  - intros ([a b] & I & H1 & H2). simpl in *. apply nn_inj in H1, H2. subst. exact I.
  - intros I. exists (w, u). auto.
Qed.

Lemma NoDup_app_intro {A} (l1 l2 : list A) : NoDup l1 -> NoDup l2 -> (forall y, In y l1 -> In y l2 -> False) -> NoDup (l1 ++ l2).
Proof.
  induction l1 as [|a l1 IH]; intros N1 N2 D; simpl; auto. inversion N1; subst. constructor.
  - rewrite in_app_iff. intros [I|I]; auto. apply (D a); simpl; auto.
  - apply IH; auto. intros y I1 I2. apply (D y); simpl; auto.
Qed.

Definition nodes (k : nat) : list N := map nn (seq 0 k).
Lemma nodes_in k x : In x (nodes k) <-> exists i, i < k /\ x = nn i.
Proof.
  unfold nodes. rewrite in_map_iff. split.
  - intros (i & <- & I). apply in_seq in I. exists i. split; [lia|reflexivity].
  - intros (i & L & ->). exists i. split; auto. apply in_seq. lia.
Qed.
Lemma nodes_length k : length (nodes k) = k.
Proof. unfold nodes. rewrite map_length, seq_length. reflexivity. Qed.

Section Graph.
Variable arcs : list (nat * nat).
Variable k : nat.
Hypothesis OK : arcs_ok arcs k.

Lemma succs_nodes u v : In v (succs arcs u) -> In v (nodes k).
Proof. rewrite succs_in. intros (a & I & _ & ->). apply nodes_in. exists (snd a). split; auto. apply (OK a I). Qed.
Lemma preds_nodes u v : In v (preds arcs u) -> In v (nodes k).
Proof. rewrite preds_in. intros (a & I & _ & ->). apply nodes_in. exists (fst a). split; auto. apply (OK a I). Qed.
Lemma und_nodes u v : In v (und_nbr arcs u) -> In v (nodes k).
Proof. rewrite und_in. intros [H|H]; [eapply succs_nodes | eapply preds_nodes]; eauto. Qed.

(** conn of lib/Reach.v = the paths above *)
Lemma conn_succs u x : conn (succs arcs) [nn u] x <-> exists w, x = nn w /\ dpath arcs u w.
Proof.
  split.
  - induction 1 as [x [<-|[]]|y z H (w & -> & P) I].
    + exists u. split; auto. constructor.
    + apply succs_in in I. destruct I as ([a b] & I & H1 & ->). simpl in *. apply nn_inj in H1. subst.
      exists b. split; auto. eapply dp_step; eauto.
  - intros (w & -> & P). induction P as [u|u v w P IH I]; [constructor; simpl; auto|].
    eapply conn_step; [exact IH|]. apply succs_nn. exact I.
Qed.
Lemma conn_preds u x : conn (preds arcs) [nn u] x <-> exists w, x = nn w /\ dpath arcs w u.
Proof.
  split.
  - induction 1 as [x [<-|[]]|y z H (w & -> & P) I].
    + exists u. split; auto. constructor.
    + apply preds_in in I. destruct I as ([a b] & I & H1 & ->). simpl in *. apply nn_inj in H1. subst.
      exists a. split; auto. eapply dpath_trans; [|exact P]. eapply dp_step; [constructor|exact I].
  - intros (w & -> & P). induction P as [u|w v u P IH I]; [constructor; simpl; auto|].
    (* w ->* v -> u : v is a predecessor of u, then w reaches v *)
    assert (C : forall t, conn (preds arcs) [nn v] t -> conn (preds arcs) [nn u] t).
    { intros t Ht. induction Ht as [t [<-|[]]|y z Hy IHy Iz].
      - eapply conn_step; [constructor; simpl; auto|]. apply preds_nn. exact I.
      - eapply conn_step; eauto. }
    apply C. exact IH.
Qed.
Lemma conn_und u x : conn (und_nbr arcs) [nn u] x <-> exists w, x = nn w /\ upath arcs u w.
Proof.
  split.
  - induction 1 as [x [<-|[]]|y z H (w & -> & P) I].
    + exists u. split; auto. constructor.
    + apply und_in in I. destruct I as [I|I].
      * apply succs_in in I. destruct I as ([a b] & I & H1 & ->). simpl in *. apply nn_inj in H1. subst.
        exists b. split; auto. eapply up_step; eauto.
      * apply preds_in in I. destruct I as ([a b] & I & H1 & ->). simpl in *. apply nn_inj in H1. subst.
        exists a. split; auto. eapply up_step; eauto.
  - intros (w & -> & P). induction P as [u|u v w P IH I]; [constructor; simpl; auto|].
    eapply conn_step; [exact IH|]. apply und_in. destruct I as [I|I]; [left; apply succs_nn | right; apply preds_nn]; exact I.
Qed.

(** the closure: fuel k+1 suffices, the result is duplicate free and is exactly the connected set *)
Lemma saturate_nodup nbr fuel : forall S R, NoDup S -> saturate nbr fuel S = Some R -> NoDup R.
Proof.
  induction fuel as [|f IH]; intros S R ND E; [discriminate|]. simpl in E.
  destruct (length (step nbr S) =? length S); [inversion E; subst; exact ND|].
  eapply IH; [|exact E]. apply step_nodup. exact ND.
Qed.

Lemma closure_spec nbr u : (forall a b, In b (nbr a) -> In b (nodes k)) -> u < k ->
  NoDup (closure nbr k (nn u)) /\ forall x, In x (closure nbr k (nn u)) <-> conn nbr [nn u] x.
Proof.
  intros Hn Hu. unfold closure.
  destruct (saturate nbr (S k) [nn u]) as [R|] eqn:E.
  - split.
    + eapply saturate_nodup; [|exact E]. repeat constructor. intros [].
    + eapply (@saturate_spec nbr [nn u] (S k) [nn u] R); auto. intros x I. constructor. exact I.
  - exfalso. revert E. apply (@saturate_fuel (nodes k) nbr Hn).
    + repeat constructor. intros [].
    + intros x [<-|[]]. apply nodes_in. eauto.
    + rewrite nodes_length. simpl. lia.
Qed.

Lemma closure_succs u : u < k -> forall x, In x (closure (succs arcs) k (nn u)) <-> exists w, x = nn w /\ dpath arcs u w.
Proof. intros Hu x. rewrite <- conn_succs. apply closure_spec; auto. apply succs_nodes. Qed.
Lemma closure_preds u : u < k -> forall x, In x (closure (preds arcs) k (nn u)) <-> exists w, x = nn w /\ dpath arcs w u.
Proof. intros Hu x. rewrite <- conn_preds. apply closure_spec; auto. apply preds_nodes. Qed.
Lemma closure_und u : u < k -> forall x, In x (closure (und_nbr arcs) k (nn u)) <-> exists w, x = nn w /\ upath arcs u w.
Proof. intros Hu x. rewrite <- conn_und. apply closure_spec; auto. apply und_nodes. Qed.
Lemma closure_und_nodup u : u < k -> NoDup (closure (und_nbr arcs) k (nn u)).
Proof. intros Hu. apply closure_spec; auto. apply und_nodes. Qed.

Lemma upath_lt u w : u < k -> upath arcs u w -> w < k.
Proof. intros Hu P. induction P as [|u v w P IH [I|I]]; auto; [apply (OK _ I) | apply (OK _ I)]. Qed.

(* ------------------------------------------------------------------ classes_go *)

(** component of the complex u, as a predicate on N *)
Definition comp (u : nat) (y : N) : Prop := exists w, y = nn w /\ upath arcs u w.

Definition closed (seen : list N) : Prop :=
  forall u w, In (nn u) seen -> upath arcs u w -> In (nn w) seen.

Lemma classes_go_spec todo : forall seen,
  (forall x, In x todo -> In x (nodes k)) -> closed seen ->
  let L := classes_go (und_nbr arcs) k todo seen in
  (forall c, In c L -> exists u, u < k /\ In (nn u) todo /\ NoDup c /\ forall y, In y c <-> comp u y) /\
  NoDup (concat L) /\
  (forall y, In y (concat L) -> ~ In y seen) /\
  (forall y, In y (concat L) \/ In y seen <-> In y seen \/ exists u, In (nn u) todo /\ comp u y).
Proof.
  induction todo as [|x rest IH]; intros seen Ht Hc; simpl.
  - split; [intros c []|]. split; [constructor|]. split; [intros y []|].
    intros y. split; [intros [[]|H]; auto | intros [H|(u & [] & _)]; auto].
  - assert (Hx : In x (nodes k)) by (apply Ht; left; reflexivity).
    apply nodes_in in Hx. destruct Hx as (u & Hu & ->).
    assert (Ht' : forall x, In x rest -> In x (nodes k)) by (intros; apply Ht; right; assumption).
    destruct (mem (nn u) seen) eqn:M.
    + apply mem_spec in M. destruct (IH seen Ht' Hc) as (Q1 & Q2 & Q3 & Q4).
      split; [|split; [exact Q2|split; [exact Q3|]]].
      * intros c I. destruct (Q1 c I) as (u' & L' & I' & R). exists u'. split; auto.
      * intros y. rewrite Q4. split; [intros [H|(u' & I' & C')]; [left; exact H | right; exists u'; split; [right; exact I'|exact C']] |].
        intros [H|(u' & [E|I'] & C')]; auto.
        -- apply nn_inj in E. subst u'. left. destruct C' as (w & -> & P). eapply Hc; eauto.
        -- right. eauto.
    + assert (Mn : ~ In (nn u) seen) by (intros I; apply mem_spec in I; congruence).
      set (c := closure (und_nbr arcs) k (nn u)) in *.
      assert (Cs : forall y, In y c <-> comp u y) by (apply closure_und; exact Hu).
      assert (Cn : NoDup c) by (apply closure_und_nodup; exact Hu).
      assert (Hc' : closed (c ++ seen)).
      { intros a b I P. apply in_or_app. apply in_app_or in I. destruct I as [I|I].
        - left. apply Cs. apply Cs in I. destruct I as (w & E & P'). apply nn_inj in E. subst w.
          exists b. split; auto. eapply upath_trans; eauto.
        - right. eapply Hc; eauto. }
      assert (Dj : forall y, In y c -> ~ In y seen).
      { intros y I Is. apply Cs in I. destruct I as (w & -> & P). apply Mn. eapply Hc; [exact Is|]. apply upath_sym. exact P. }
      destruct (IH (c ++ seen) Ht' Hc') as (Q1 & Q2 & Q3 & Q4). simpl concat.
      split; [|split; [|split]].
      * intros c' [<-|I].
        -- exists u. split; auto.
        -- destruct (Q1 c' I) as (u' & L' & I' & R). exists u'. split; auto.
      * apply NoDup_app_intro; auto. intros y I1 I2. apply (Q3 y I2). apply in_or_app. left. exact I1.
      * intros y I. apply in_app_or in I. destruct I as [I|I]; [apply Dj; exact I|].
        intros Is. apply (Q3 y I). apply in_or_app. right. exact Is.
      * intros y. specialize (Q4 y). rewrite !in_app_iff in *. rewrite Cs in *.
        split.
        -- intros [[H|H]|H].
           ++ right. exists u. split; [left; reflexivity|exact H].
           ++ destruct (proj1 Q4 (or_introl H)) as [[X|X]|(u' & I' & C')].
              ** right. exists u. split; [left; reflexivity|exact X].
              ** left. exact X.
              ** right. exists u'. split; [right; exact I'|exact C'].
           ++ left. exact H.
        -- intros [H|(u' & [E|I'] & C')].
           ++ right. exact H.
           ++ apply nn_inj in E. subst u'. left. left. exact C'.
           ++ destruct (proj2 Q4 (or_intror (ex_intro _ u' (conj I' C')))) as [X|[X|X]].
              ** left. right. exact X.
              ** left. left. exact X.
              ** right. exact X.
Qed.

(* ------------------------------------------------------------------ linkage classes = connected components *)

Lemma classes_raw :
  let L := linkage_classes arcs k in
  (forall c, In c L -> exists u, u < k /\ NoDup c /\ forall y, In y c <-> comp u y) /\
  NoDup (concat L) /\
  (forall y, In y (concat L) <-> exists u, In (nn u) (nodes k) /\ comp u y).
Proof.
  unfold linkage_classes. fold (nodes k).
  destruct (classes_go_spec (nodes k) [] (fun x I => I)) as (Q1 & Q2 & _ & Q4).
  { intros u w []. }
  split; [|split; [exact Q2|]].
  - intros c I. destruct (Q1 c I) as (u & Hu & _ & R). eauto.
  - intros y. specialize (Q4 y). split.
    + intros H. destruct (proj1 Q4 (or_introl H)) as [[]|X]. exact X.
    + intros H. destruct (proj2 Q4 (or_intror H)) as [X|[]]. exact X.
Qed.

Theorem linkage_spec :
  let L := linkage_classes arcs k in
  NoDup (concat L) /\
  (forall y, In y (concat L) <-> exists i, i < k /\ y = nn i) /\
  (forall c, In c L -> NoDup c /\ c <> []) /\
  (forall c, In c L -> forall i, In (nn i) c -> forall j, In (nn j) c <-> upath arcs i j).
Proof.
  destruct classes_raw as (Q1 & Q2 & Q4). split; [exact Q2|]. split; [|split].
  - intros y. rewrite Q4. split.
    + intros (u & Iu & w & -> & P). apply nodes_in in Iu. destruct Iu as (u' & Hu & E). apply nn_inj in E. subst u'.
      exists w. split; auto. eapply upath_lt; eauto.
    + intros (i & Hi & ->). exists i. split; [apply nodes_in; eauto|]. exists i. split; auto. constructor.
  - intros c I. destruct (Q1 c I) as (u & Hu & ND & R). split; auto. intros ->.
    apply (proj2 (R (nn u))). exists u. split; auto. constructor.
  - intros c I i Ii j. destruct (Q1 c I) as (u & Hu & ND & R).
    apply R in Ii. destruct Ii as (w & E & Pi). apply nn_inj in E. subst w.
    rewrite R. split.
    + intros (w & E & Pj). apply nn_inj in E. subst w. eapply upath_trans; [apply upath_sym; exact Pi|exact Pj].
    + intros P. exists j. split; auto. eapply upath_trans; eauto.
Qed.

(** every member of a class is a complex index *)
Lemma class_members c : In c (linkage_classes arcs k) -> forall y, In y c -> exists i, i < k /\ y = nn i.
Proof.
  intros I y Iy. destruct linkage_spec as (_ & Q & _ & _). apply Q. apply in_concat. eauto.
Qed.

(** two complexes are in the same linkage class iff they are joined by an undirected path *)
Theorem same_class_iff i j : i < k -> j < k ->
  ((exists c, In c (linkage_classes arcs k) /\ In (nn i) c /\ In (nn j) c) <-> upath arcs i j).
Proof.
  intros Hi Hj. destruct linkage_spec as (_ & Q2 & _ & Q4). split.
  - intros (c & I & Ii & Ij). apply (Q4 c I i Ii j). exact Ij.
  - intros P. assert (X : In (nn i) (concat (linkage_classes arcs k))) by (apply Q2; eauto).
    apply in_concat in X. destruct X as (c & I & Ii). exists c. split; auto. split; auto. apply (Q4 c I i Ii j). exact P.
Qed.

(* ------------------------------------------------------------------ weak reversibility *)

Lemma subset_spec a b : subset a b = true <-> forall x, In x a -> In x b.
Proof.
  unfold subset. rewrite forallb_forall. split; intros H x I; [apply mem_spec | apply mem_spec]; auto.
Qed.

Lemma strongly_connected_spec c : In c (linkage_classes arcs k) ->
  (strongly_connected arcs k c = true <-> forall i j, In (nn i) c -> In (nn j) c -> dpath arcs i j).
Proof.
  intros I. destruct linkage_spec as (_ & _ & Q3 & _). destruct (Q3 c I) as (_ & NE).
  destruct c as [|h t]; [congruence|]. clear NE.
  destruct (class_members _ I h (or_introl eq_refl)) as (u & Hu & ->).
  unfold strongly_connected. rewrite andb_true_iff, !subset_spec. split.
  - intros (F & B) i j Ii Ij.
    apply F in Ij. apply closure_succs in Ij; auto. destruct Ij as (w & E & Pj). apply nn_inj in E. subst w.
    apply B in Ii. apply closure_preds in Ii; auto. destruct Ii as (w & E & Pi). apply nn_inj in E. subst w.
    eapply dpath_trans; eauto.
  - intros H. split; intros x Ix; destruct (class_members _ I x Ix) as (i & Hi & ->).
    + apply closure_succs; auto. exists i. split; auto. apply H; simpl; auto.
    + apply closure_preds; auto. exists i. split; auto. apply H; simpl; auto.
Qed.

Theorem weak_rev_spec :
  weakly_reversible arcs k = true <->
  forall c, In c (linkage_classes arcs k) -> forall i j, In (nn i) c -> In (nn j) c -> dpath arcs i j.
Proof.
  unfold weakly_reversible. rewrite forallb_forall. split.
  - intros H c I. apply (proj1 (strongly_connected_spec c I)). apply H. exact I.
  - intros H c I. apply (proj2 (strongly_connected_spec c I)). apply H. exact I.
Qed.

Lemma return_paths_upath : (forall u v, In (u, v) arcs -> dpath arcs v u) -> forall i j, upath arcs i j -> dpath arcs i j.
Proof.
  intros R i j P. induction P as [|i v w P IH [I|I]]; [constructor| |].
  - eapply dp_step; eauto.
  - eapply dpath_trans; [exact IH|]. apply R. exact I.
Qed.

Theorem weak_rev_arcs :
  weakly_reversible arcs k = true <-> forall u v, In (u, v) arcs -> dpath arcs v u.
Proof.
  rewrite weak_rev_spec. split.
  - intros H u v I. destruct (OK _ I) as (Hu & Hv). simpl in *.
    assert (P : upath arcs u v) by (eapply up_step; [constructor|left; exact I]).
    apply same_class_iff in P; auto. destruct P as (c & Ic & Iu & Iv). eapply H; eauto.
  - intros R c I i j Ii Ij. apply return_paths_upath; auto.
    destruct linkage_spec as (_ & _ & _ & Q4). apply (Q4 c I i Ii j). exact Ij.
Qed.
End Graph.

(* ------------------------------------------------------------------ the model's network *)

Lemma compute_summary_eq net iso r :
  compute_summary net iso r =
  let cs := fst (complex_graph net iso) in
  let arcs := snd (complex_graph net iso) in
  let k := length cs in
  let nl := length (linkage_classes arcs k) in
  Summary (length (species_order net iso)) (length (reaction_order net)) k nl r (deficiency_of k nl r) (weakly_reversible arcs k).
Proof. unfold compute_summary. destruct (complex_graph net iso) as [cs arcs]. reflexivity. Qed.

Theorem net_linkage net iso :
  let cs := fst (complex_graph net iso) in
  let arcs := snd (complex_graph net iso) in
  let k := length cs in
  let L := linkage_classes arcs k in
  (forall r, n_linkage (compute_summary net iso r) = length L) /\
  NoDup (concat L) /\
  (forall y, In y (concat L) <-> exists i, i < k /\ y = nn i) /\
  (forall c, In c L -> NoDup c /\ c <> []) /\
  (forall i j, i < k -> j < k -> ((exists c, In c L /\ In (nn i) c /\ In (nn j) c) <-> upath arcs i j)).
Proof.
  intros cs arcs k L. pose proof (complex_graph_arcs_ok net iso) as OK. fold cs arcs k in OK.
  destruct (linkage_spec arcs k OK) as (Q1 & Q2 & Q3 & _).
  split; [intros r; rewrite compute_summary_eq; reflexivity|]. split; [exact Q1|]. split; [exact Q2|]. split; [exact Q3|].
  intros i j Hi Hj. apply same_class_iff; assumption.
Qed.

Theorem net_weak_rev net iso r :
  let arcs := snd (complex_graph net iso) in
  let k := length (fst (complex_graph net iso)) in
  (weakly_rev (compute_summary net iso r) = true <->
   forall c, In c (linkage_classes arcs k) -> forall i j, In (nn i) c -> In (nn j) c -> dpath arcs i j) /\
  (weakly_rev (compute_summary net iso r) = true <-> forall u v, In (u, v) arcs -> dpath arcs v u).
Proof.
  intros arcs k. pose proof (complex_graph_arcs_ok net iso) as OK. fold arcs k in OK.
  rewrite compute_summary_eq. simpl. fold arcs k. split; [apply weak_rev_spec | apply weak_rev_arcs]; exact OK.
Qed.

(** weak reversibility in terms of the reactions themselves *)
Theorem net_weak_rev_reactions net iso r : NoDup (map rid net) ->
  let cs := fst (complex_graph net iso) in
  let arcs := snd (complex_graph net iso) in
  (weakly_rev (compute_summary net iso r) = true <->
   forall e u v, In e net ->
     nth_error cs u = Some (side_vec net iso (rlhs e)) -> nth_error cs v = Some (side_vec net iso (rrhs e)) ->
     dpath arcs v u).
Proof.
  intros ND cs arcs. destruct (net_weak_rev net iso r) as (_ & W). fold arcs in W. rewrite W.
  destruct (complex_arcs_spec net iso ND) as (_ & A). fold cs arcs in A. split.
  - intros H e u v I Hu Hv. apply H. apply A. eauto.
  - intros H u v I. apply A in I. destruct I as (e & I & Hu & Hv). eapply H; eauto.
Qed.

(** fuel sufficiency, stated on its own: none of the closures the model computes (undirected for the classes, forward and
    backward for strong connectivity) ever runs out of the fuel k + 1 *)
Theorem net_fuel net iso u :
  let arcs := snd (complex_graph net iso) in
  let k := length (fst (complex_graph net iso)) in
  u < k ->
  saturate (und_nbr arcs) (S k) [nn u] <> None /\
  saturate (succs arcs) (S k) [nn u] <> None /\
  saturate (preds arcs) (S k) [nn u] <> None.
Proof.
  intros arcs k Hu. pose proof (complex_graph_arcs_ok net iso) as OK. fold arcs k in OK.
  assert (F : forall nbr, (forall a b, In b (nbr a) -> In b (nodes k)) -> saturate nbr (S k) [nn u] <> None).
  { intros nbr Hn. apply (@saturate_fuel (nodes k) nbr Hn).
    - repeat constructor. intros [].
    - intros x [<-|[]]. apply nodes_in. eauto.
    - rewrite nodes_length. simpl. lia. }
  split; [apply F; apply (und_nodes arcs k OK)|]. split; [apply F; apply (succs_nodes arcs k OK) | apply F; apply (preds_nodes arcs k OK)].
Qed.

(* ------------------------------------------------------------------ non-vacuity *)
(** A + B <-> C, C -> 2A : one class {0,1,2}; not weakly reversible (2A has no way back) *)
Example ex_linkage_one : linkage_classes ex_arcs 3 = [[2; 1; 0]%N] /\ weakly_reversible ex_arcs 3 = false.
Proof. split; vm_compute; reflexivity. Qed.
(** A + B <-> C alone: weakly reversible; with a second, separate pair D -> E: two classes, not weakly reversible *)
Example ex_linkage_two :
  weakly_reversible [(0, 1); (1, 0)] 2 = true /\
  linkage_classes [(0, 1); (1, 0); (2, 3)] 4 = [[1; 0]%N; [3; 2]%N] /\
  weakly_reversible [(0, 1); (1, 0); (2, 3)] 4 = false /\
  upath ex_arcs 0 2 /\ dpath ex_arcs 0 2 /\ ~ dpath ex_arcs 2 1.
Proof.
  split; [vm_compute; reflexivity|]. split; [vm_compute; reflexivity|]. split; [vm_compute; reflexivity|].
  assert (D : dpath ex_arcs 0 2).
  { apply (dp_step ex_arcs 0 1 2); [apply (dp_step ex_arcs 0 0 1); [constructor|]|]; vm_compute; auto. }
  split; [apply dpath_upath; exact D|]. split; [exact D|].
  intros P. assert (G : forall a b, dpath ex_arcs a b -> a = 2 -> b = 2).
  { induction 1 as [|a v w P' IH I]; auto. intros E. specialize (IH E). subst v.
    change (In (2, w) [(0,1);(1,0);(1,2)]) in I. simpl in I. intuition congruence. }
  specialize (G 2 1 P eq_refl). discriminate.
Qed.
(** fuel: the closure of complex 0 in the example saturates within the fuel 3 + 1 *)
Example ex_fuel : saturate (und_nbr ex_arcs) 4 [nn 0] = Some [2; 1; 0]%N /\ saturate (und_nbr ex_arcs) 1 [nn 0] = None.
Proof. split; vm_compute; reflexivity. Qed.
