(** C18 — attribute selections (model/C18_AttrModel.v): with the default selection (kind; role, stoich) the generalised
    canonicaliser IS the base model; for every selection the search finds a leaf and the canonical graph is the view relabelled
    by a bijection onto k+1..k+n. *)
From Coq Require Import List NArith ZArith Bool Arith Lia Permutation.
From SK Require Import lib.IRSortKeys lib.IRCore lib.IRSearch lib.StrJoin lib.C18_IRValid model.C18_Model model.C18_AttrModel
  proof.C18_Order proof.C18_Spec proof.C18_Graph proof.C18_Canon.
From SK Require lib.IRInst.
Import ListNotations.

(* ---------------- the search only depends on the values of sig and label ---------------- *)
Section Ext.
Variable S : Type.
Variable sleb : S -> S -> bool.
Variables sig1 sig2 : partition -> N -> S.
Hypothesis sig_ext : forall P v, sig1 P v = sig2 P v.

Lemma split_cell_ext P c : split_cell sleb sig1 P c = split_cell sleb sig2 P c.
Proof.
  unfold split_cell, keys, group. rewrite (map_ext _ _ (sig_ext P)).
  destruct (length c <=? 1); auto. destruct (length _ <=? 1); auto.
  apply map_ext. intros s. apply filter_ext. intros v. rewrite sig_ext. reflexivity.
Qed.
Lemma refine_step_ext P : refine_step sleb sig1 P = refine_step sleb sig2 P.
Proof. unfold refine_step. generalize P at 1 3 as Q. intros Q. induction P; simpl; auto. rewrite split_cell_ext, IHP. reflexivity. Qed.
Lemma refine_ext fuel : forall P, refine sleb sig1 fuel P = refine sleb sig2 fuel P.
Proof. induction fuel as [|f IH]; intros P; simpl; auto. rewrite refine_step_ext. destruct (_ =? _); auto. Qed.

Variable L : Type.
Variable leb : L -> L -> bool.
Variables label1 label2 : list N -> L.
Hypothesis label_ext : forall p, label1 p = label2 p.
Variable partial : list N -> L.
Variable rf : nat.

Lemma visit_ext a p : visit leb label1 a p = visit leb label2 a p.
Proof. unfold visit. rewrite label_ext. reflexivity. Qed.
Lemma search_ext fuel : forall P pre a,
  search sleb sig1 rf leb label1 partial fuel P pre a = search sleb sig2 rf leb label2 partial fuel P pre a.
Proof.
  induction fuel as [|f IH]; intros P pre a; simpl; auto. rewrite refine_ext.
  destruct (first_big _); [|apply visit_ext].
  apply fold_left_ext_in. intros a' v _. destruct (pruned _ _ _ _); auto.
Qed.
End Ext.

(* ---------------- the default selection ---------------- *)
Definition NK0 : list nsel := [NKind].
Definition EK0 : list esel := [ERole; EStoich].

Lemma lexleb_pair a b : lexleb [fst a; snd a] [fst b; snd b] = attr_leb a b.
Proof.
  unfold attr_leb. simpl. destruct (Z.ltb (fst a) (fst b)); auto. destruct (Z.ltb (fst b) (fst a)); auto.
  destruct (Z.ltb_spec (snd a) (snd b)), (Z.ltb_spec (snd b) (snd a)), (Z.leb_spec (snd a) (snd b)); auto; lia.
Qed.
Lemma ins_tuple_pairs x m : ins_tuple (ekey EK0 x) (map (ekey EK0) m) = map (ekey EK0) (ins_attr x m).
Proof.
  induction m as [|y m IH]; [reflexivity|]. cbn [map ins_tuple ins_attr].
  change (lexleb (ekey EK0 x) (ekey EK0 y)) with (lexleb [fst x; snd x] [fst y; snd y]). rewrite lexleb_pair.
  destruct (attr_leb x y); cbn [map]; [reflexivity|]. rewrite IH. reflexivity.
Qed.
Lemma sort_tuples_pairs l : sort_tuples (map (ekey EK0) l) = map (ekey EK0) (sort_attrs l).
Proof.
  induction l as [|x l IH]; [reflexivity|]. unfold sort_tuples, sort_attrs in *. cbn [map fold_right]. rewrite IH. apply ins_tuple_pairs.
Qed.
Lemma concat_pairs l : concat (map (ekey EK0) l) = flat_attrs l.
Proof. induction l as [|x l IH]; simpl; auto. f_equal. f_equal. exact IH. Qed.

Lemma sigA_default g t P v : sigA g t NK0 EK0 P v = sig g P v.
Proof. unfold sigA, sig. simpl. rewrite sort_tuples_pairs, concat_pairs. reflexivity. Qed.

Lemma labelA_default g t p : labelA g t NK0 EK0 p = label g p.
Proof.
  unfold labelA, label. f_equal. f_equal. f_equal. unfold edge_bitsA, edge_bits.
  apply flat_map_ext. intros iv. apply flat_map_ext. intros jw. destruct (Nat.eqb _ _); auto. f_equal.
  unfold bitA, bit. destruct (find_arc g (snd iv) (snd jw)) as [[r s]|]; reflexivity.
Qed.

Lemma lexleb_single x y : lexleb [x] [y] = Z.leb x y.
Proof. simpl. destruct (Z.ltb_spec x y), (Z.ltb_spec y x), (Z.leb_spec x y); auto; lia. Qed.
Lemma ins_single x m : ins lexleb [x] (map (fun z : Z => [z]) m) = map (fun z : Z => [z]) (ins Z.leb x m).
Proof.
  induction m as [|y m IH]; [reflexivity|]. cbn [map ins]. rewrite !lexleb_single.
  destruct (Z.leb x y), (Z.leb y x); cbn [map]; try reflexivity; rewrite IH; reflexivity.
Qed.
Lemma sort_dedup_single l : sort_dedup lexleb (map (fun z => [z]) l) = map (fun z : Z => [z]) (sort_dedup Z.leb l).
Proof.
  induction l as [|x l IH]; [reflexivity|]. unfold sort_dedup in *. cbn [map fold_right]. rewrite IH. apply ins_single.
Qed.

Lemma init_partA_default g t : NoDup (node_ids g) -> init_partA g t NK0 = init_part g.
Proof.
  intros Hnd. unfold init_partA, init_part, NK0.
  assert (E : map (nkey g t [NKind]) (node_ids g) = map (fun z => [z]) (map snd (vnodes g))).
  { unfold node_ids. rewrite !map_map. apply map_ext_in. intros [v k] I. unfold nkey. simpl.
    unfold kind_of. rewrite (kind_of_l_in _ v k Hnd I). reflexivity. }
  rewrite E, sort_dedup_single, map_map. apply map_ext. intros k. f_equal.
  rewrite kind_cell by auto. apply filter_ext. intros v. unfold nkey. cbn [map nval fst]. unfold eqb. rewrite !lexleb_single. reflexivity.
Qed.

Theorem canon_searchA_default g t : NoDup (node_ids g) -> canon_searchA g t NK0 EK0 = canon_search g.
Proof.
  intros Hnd. unfold canon_searchA, canon_search. rewrite init_partA_default by auto.
  apply search_ext; [intros; apply sigA_default|intros; apply labelA_default].
Qed.

(* ---------------- every selection: the search finds a leaf, the canonical graph is an isomorphic copy ---------------- *)
Definition leaves_ofA (g : vgraph) (t : ltab) (nk : list nsel) (ek : list esel) : list (list N) :=
  let n := length (vnodes g) in leaves lexleb (sigA g t nk ek) (S n) (S n) (init_partA g t nk) [].

Lemma canon_searchA_fold g t nk ek :
  canon_searchA g t nk ek = fold_left (visit lexlebN (labelA g t nk ek)) (leaves_ofA g t nk ek) (None, []).
Proof.
  unfold canon_searchA, leaves_ofA.
  apply (search_is_fold lexleb (sigA g t nk ek) (S (length (vnodes g))) lexlebN lexlebN_total lexlebN_trans lexlebN_antisym
           (labelA g t nk ek) no_bound).
  intros; reflexivity.
Qed.

Lemma init_partA_vpart g t nk : NoDup (node_ids g) -> vpart (node_ids g) (init_partA g t nk).
Proof.
  intros Hnd. unfold init_partA. destruct nk as [|s0 nk'].
  - destruct (node_ids g) as [|v0 l] eqn:En; [split; [apply Permutation_refl|constructor]|]. rewrite <- En in *. split.
    + simpl. rewrite app_nil_r. apply sortN_perm. auto.
    + constructor; auto. intro E. pose proof (sortN_perm _ Hnd) as P. rewrite E, En in P. apply Permutation_nil in P. discriminate.
  - set (nk := s0 :: nk'). split.
    + eapply perm_trans.
      * apply (concat_perm_pointwise _ (fun k => filter (fun v => eqb lexleb (nkey g t nk v) k) (node_ids g))).
        intros k _. apply sortN_perm. apply NoDup_filter. auto.
      * rewrite concat_map_flat_map.
        apply (groups_perm _ lexleb IRInst.lexleb_total IRInst.lexleb_antisym (nkey g t nk)).
        -- apply (ssorted_NoDup _ lexleb IRInst.lexleb_total).
           apply (sort_dedup_sorted lexleb IRInst.lexleb_total (fun a b c H1 H2 => IRInst.lexleb_trans a b c H1 H2) IRInst.lexleb_antisym).
        -- intros v Hv. apply (sort_dedup_in lexleb IRInst.lexleb_antisym). apply in_map. auto.
    + apply Forall_forall. intros c Hc. apply in_map_iff in Hc. destruct Hc as (k & <- & Hk).
      apply (proj1 (sort_dedup_in lexleb IRInst.lexleb_antisym _ _)) in Hk. apply in_map_iff in Hk. destruct Hk as (v & <- & Hv).
      intro E.
      assert (Hin : In v (sortN (filter (fun v0 => eqb lexleb (nkey g t nk v0) (nkey g t nk v)) (node_ids g)))).
      { apply sortN_in. apply filter_In. split; auto. apply (eqb_eq lexleb IRInst.lexleb_total IRInst.lexleb_antisym). auto. }
      rewrite E in Hin. contradiction.
Qed.

Theorem canon_isoA g t nk ek : wf g ->
  fst (canon_searchA g t nk ek) <> None /\
  forall lab perm, fst (canon_searchA g t nk ek) = Some (lab, perm) ->
    lab = labelA g t nk ek perm /\
    canon_graph g perm = relabel (cid perm) g /\ inj_on (cid perm) (node_ids g) /\
    (exists k, Permutation (node_ids (canon_graph g perm)) (map N.of_nat (seq (S k) (length (vnodes g))))) /\
    wf (canon_graph g perm) /\
    (forall v, In v (node_ids g) -> kind_of (canon_graph g perm) (cid perm v) = kind_of g v) /\
    (forall u v, In u (node_ids g) -> In v (node_ids g) ->
       find_arc (canon_graph g perm) (cid perm u) (cid perm v) = find_arc g u v).
Proof.
  intros Hw. pose proof (init_partA_vpart g t nk (proj1 Hw)) as Hvp.
  rewrite canon_searchA_fold. split.
  - apply fold_visit_some. left. unfold leaves_ofA.
    apply (leaves_nonempty _ lexleb IRInst.lexleb_total (fun a b c H1 H2 => IRInst.lexleb_trans a b c H1 H2) IRInst.lexleb_antisym
             (sigA g t nk ek) _ (node_ids g) (proj1 Hw)); auto. unfold node_ids. rewrite map_length. lia.
  - intros lab perm Hb.
    assert (HB : lab = labelA g t nk ek perm /\ In perm (leaves_ofA g t nk ek)).
    { revert Hb. apply fold_visit_best. simpl. intros; discriminate. }
    destruct HB as [El Hl]. split; auto.
    unfold leaves_ofA in Hl.
    destruct (leaves_shape _ lexleb IRInst.lexleb_total (fun a b c H1 H2 => IRInst.lexleb_trans a b c H1 H2) IRInst.lexleb_antisym
                (sigA g t nk ek) _ (node_ids g) (proj1 Hw) _ _ _ _ Hvp Hl) as (pre & r & -> & Hr & _).
    simpl app.
    assert (Hndr : NoDup r) by (eapply Permutation_NoDup; [apply Permutation_sym; exact Hr|apply Hw]).
    pose proof (cid_inj_on pre r (node_ids g) Hndr Hr) as Hinj.
    change (canon_graph g (pre ++ r)) with (relabel (cid (pre ++ r)) g).
    split; [reflexivity|]. split; [exact Hinj|]. split; [|split; [|split]].
    + exists (length pre). rewrite node_ids_relabel.
      replace (length (vnodes g)) with (length (node_ids g)) by (unfold node_ids; apply map_length).
      apply cid_range; auto.
    + apply wf_relabel; auto.
    + intros v Hv. apply kind_of_relabel; auto.
    + intros u v Hu Hv. apply find_arc_relabel; auto.
Qed.
