(** C08 — NautyCanonicalizer.graph_signature (model: [graph_sig_label], the label of the canonical graph read in the
    order 1..N): it is the minimal label of the search, invariant under isomorphism, and sound: equal labels of two
    graphs make them isomorphic on the covered attributes (two-graph version of C08_Invariant.same_label_geq_cov). *)
From Coq Require Import String List NArith ZArith Bool Arith Lia Permutation.
From SK Require Import lib.LGraph lib.IRSortKeys lib.IRCore lib.IRSearch lib.StrJoin.
From SK Require Import model.C08_Model proof.C08_Spec proof.C08_Sort proof.C08_Faithful proof.C08_Cov proof.C08_SigFun
                       proof.C08_Render proof.C08_IR proof.C08_Nauty proof.C08_Sound proof.C08_Equiv proof.C08_Invariant.
From SK Require lib.IRInst.
Import ListNotations.
Open Scope string_scope. Open Scope list_scope. Open Scope nat_scope.

Notation ix p := (apply_map (mapping_of p)).

(* ---------------- the canonical graph read in the order 1..N ---------------- *)
Lemma ksorted_seq a n : ksorted (fun v : N => [Z.of_N v]) (map N.of_nat (seq a n)).
Proof.
  revert a. induction n as [|n IH]; intros a; simpl; constructor; auto.
  intros y I. apply in_map_iff in I. destruct I as (k & <- & I). apply in_seq in I.
  simpl. destruct (Z.ltb_spec (Z.of_N (N.of_nat a)) (Z.of_N (N.of_nat k))); auto.
  destruct (Z.ltb_spec (Z.of_N (N.of_nat k)) (Z.of_N (N.of_nat a))); auto. lia.
Qed.
Lemma sort_ids_perm_seq l n : Permutation l (map N.of_nat (seq 1 n)) ->
  sort_by (fun v : N => [Z.of_N v]) l = map N.of_nat (seq 1 n).
Proof.
  intros Hp. apply (ksorted_unique (fun v : N => [Z.of_N v])).
  - apply sort_by_sorted.
  - apply ksorted_seq.
  - eapply perm_trans; [apply sort_by_perm|exact Hp].
  - intros x y _ _ E. inversion E. apply N2Z.inj. auto.
Qed.

Theorem graph_sig_label_min g : wf g -> graph_sig_label g = nlabel g (nauty_perm g).
Proof.
  intros Hg. pose proof (proj1 Hg) as Ng. pose proof (nauty_perm_perm g Ng) as Pp.
  set (p := nauty_perm g) in *.
  assert (Np : NoDup p) by (eapply Permutation_NoDup; [apply Permutation_sym; exact Pp|exact Ng]).
  assert (Hi : C08_Spec.inj_on (ix p) (node_ids g)) by (apply inj_on_same; eapply inj_on_perm; [exact Pp|apply mapping_of_inj; auto]).
  unfold graph_sig_label, canon_nauty. fold p.
  assert (Es : sorted_ids (relabel (ix p) g) = map (ix p) p).
  { unfold sorted_ids. rewrite (mapping_of_map p Np). apply sort_ids_perm_seq.
    rewrite node_ids_relabel. rewrite <- (mapping_of_map p Np). apply Permutation_map. apply Permutation_sym. exact Pp. }
  rewrite Es.
  set (pi := extend (ix p) (node_ids g)).
  assert (pi_inj : forall x y, pi x = pi y -> x = y) by (apply extend_inj; exact Hi).
  assert (E1 : relabel (ix p) g = relabel pi g).
  { symmetry. apply relabel_ext_on; auto. intros x I. apply extend_on. exact I. }
  assert (E2 : map (ix p) p = map pi p).
  { apply map_ext_in. intros x I. symmetry. apply extend_on. apply (Permutation_in _ Pp). exact I. }
  rewrite E1, E2. apply (nlabel_rel pi pi_inj g (relabel pi g) Hg (geq_cov_refl _)).
Qed.

Theorem graph_sig_label_min_both g : wf g ->
  graph_sig_label g = nlabel g (nauty_perm g) /\ nauty_label g = Some (nlabel g (nauty_perm g)).
Proof. intros Hg. split; [apply graph_sig_label_min; auto|apply (nauty_perm_leaf g (proj1 Hg))]. Qed.

(* ---------------- invariance ---------------- *)
Lemma iso_label_eq g h : wf g -> wf h -> iso_cov g h -> nauty_label h = nauty_label g.
Proof.
  intros Hg Hh (f & Hf & Hq0).
  set (pi := extend f (node_ids g)).
  assert (pi_inj : forall x y, pi x = pi y -> x = y) by (apply extend_inj; exact Hf).
  assert (Hq : geq_cov (relabel pi g) h).
  { rewrite (relabel_ext_on pi f g Hg); auto. intros x I. apply extend_on. exact I. }
  apply (nauty_label_rel pi pi_inj g h Hg Hq).
Qed.

Theorem graph_sig_invariant g h : wf g -> wf h -> iso_cov g h -> graph_sig_label g = graph_sig_label h.
Proof.
  intros Hg Hh Hi. rewrite !graph_sig_label_min by auto.
  destruct (nauty_perm_leaf g (proj1 Hg)) as [_ Ep]. destruct (nauty_perm_leaf h (proj1 Hh)) as [_ Eq].
  pose proof (iso_label_eq g h Hg Hh Hi) as E. rewrite Ep, Eq in E. inversion E. reflexivity.
Qed.

(* ---------------- the label determines the number of nodes ---------------- *)
Lemma join_app2 sep (xs ys : list str) : xs <> [] -> ys <> [] -> join sep (xs ++ ys) = join sep xs ++ sep :: join sep ys.
Proof.
  intros Hx Hy. rewrite join_app by auto. destruct ys; [congruence|reflexivity].
Qed.
Lemma first_nil_len (A A' B B' : list str) : Forall (fun x => x <> []) A -> Forall (fun x => x <> []) A' ->
  A ++ [] :: B = A' ++ [] :: B' -> length A = length A'.
Proof.
  revert A'. induction A as [|x A IH]; intros [|y A'] HA HA' E; simpl in *; auto.
  - inversion E; subst. inversion HA'; subst. congruence.
  - inversion E; subst. inversion HA; subst. congruence.
  - inversion E; subst. inversion HA; inversion HA'; subst. f_equal. eapply IH; eauto.
Qed.
Lemma nlabel_as_join g p : p <> [] ->
  nlabel g p = join 124%N (map (node_str g) p ++ [] :: (match map (edge_bit g) (pairs p) with [] => [[]] | l => l end)).
Proof.
  intros Hp. unfold nlabel, node_seg. change (lit "||") with [124%N; 124%N].
  rewrite join_app2; [|destruct p; [congruence|discriminate]|discriminate].
  f_equal. cbn [app]. f_equal.
  destruct (map (edge_bit g) (pairs p)) as [|b l]; [reflexivity|].
  change (join 124%N ([] :: b :: l)) with ([] ++ 124%N :: join 124%N (b :: l)). reflexivity.
Qed.

Lemma nlabel_length g h p q : (forall v, In v p -> el_ok (el (attr_of g v))) -> (forall v, In v q -> el_ok (el (attr_of h v))) ->
  nlabel g p = nlabel h q -> length p = length q.
Proof.
  intros Hp Hq E.
  destruct p as [|p0 p], q as [|q0 q]; auto.
  - exfalso. unfold nlabel, node_seg in E. simpl in E. rewrite node_str_cov in E. unfold NS, ncov in E.
    destruct (attr_of h q0). change (lit "||") with [124%N; 124%N] in E.
    destruct (map (node_str h) q); simpl in E.
    + apply (f_equal (@length N)) in E. rewrite !app_length in E. simpl in E. rewrite !app_length in E. simpl in E. lia.
    + apply (f_equal (@length N)) in E. rewrite !app_length in E. simpl in E. rewrite !app_length in E. simpl in E. lia.
  - exfalso. unfold nlabel, node_seg in E. simpl in E. rewrite node_str_cov in E. unfold NS, ncov in E.
    destruct (attr_of g p0). change (lit "||") with [124%N; 124%N] in E.
    destruct (map (node_str g) p); simpl in E.
    + apply (f_equal (@length N)) in E. rewrite !app_length in E. simpl in E. rewrite !app_length in E. simpl in E. lia.
    + apply (f_equal (@length N)) in E. rewrite !app_length in E. simpl in E. rewrite !app_length in E. simpl in E. lia.
  - rewrite !nlabel_as_join in E by discriminate.
    assert (NSg : forall k r, (forall v, In v r -> el_ok (el (attr_of k v))) ->
              Forall (nosep 124%N) (map (node_str k) r) /\ Forall (fun x => x <> []) (map (node_str k) r)).
    { intros k r Hr. split; apply Forall_forall; intros x I; apply in_map_iff in I; destruct I as (v & <- & I); rewrite node_str_cov.
      - apply NS_nosep. unfold ncov. cbn [fst]. apply Hr. exact I.
      - unfold NS, ncov. destruct (attr_of k v). simpl. intro E0. apply (f_equal (@length N)) in E0. rewrite app_length in E0. simpl in E0. lia. }
    assert (EBg : forall k r, Forall (nosep 124%N) (match map (edge_bit k) (pairs r) with [] => [[]] | l => l end)).
    { intros k r. destruct (map (edge_bit k) (pairs r)) as [|b l] eqn:El; [repeat constructor; intros []|].
      rewrite <- El. apply Forall_forall. intros x I. apply in_map_iff in I. destruct I as (ab & <- & _).
      rewrite edge_bit_cov. apply EB_nosep. }
    destruct (NSg g (p0 :: p) Hp) as [A1 A2]. destruct (NSg h (q0 :: q) Hq) as [B1 B2].
    apply join_inj in E.
    + apply first_nil_len in E; auto. rewrite !map_length in E. exact E.
    + apply Forall_app. split; auto. constructor; [intros []|apply EBg].
    + apply Forall_app. split; auto. constructor; [intros []|apply EBg].
    + discriminate.
    + discriminate.
Qed.

(* ---------------- two graphs with equal labels ---------------- *)
Section TwoGraphs.
Variables g h : graph.
Hypothesis Hg : wf g.
Hypothesis Hh : wf h.

Definition zrel2 (p q : list N) : Prop :=
  (forall a a', In (a, a') (combine p q) -> ncov (attr_of g a) = ncov (attr_of h a')) /\
  (forall a a' b b', In (a, a') (combine p q) -> In (b, b') (combine p q) -> a <> b ->
     option_map ecov (adj g a b) = option_map ecov (adj h a' b')).

Lemma half2 p q : Permutation p (node_ids g) -> Permutation q (node_ids h) -> length p = length q -> zrel2 p q ->
  (forall c, In c (cov_nodes (relabel (ix p) g)) -> In c (cov_nodes (relabel (ix q) h))) /\
  (forall c, In c (cov_edges (relabel (ix p) g)) -> In c (cov_edges (relabel (ix q) h))).
Proof.
  intros Hp Hq Hl [Z1 Z2].
  pose proof (proj1 Hg) as Hnd. pose proof (proj1 Hh) as Hnd'.
  assert (Hn : NoDup p) by (eapply Permutation_NoDup; [apply Permutation_sym; exact Hp|exact Hnd]).
  assert (Hn' : NoDup q) by (eapply Permutation_NoDup; [apply Permutation_sym; exact Hq|exact Hnd']).
  assert (Hex : forall a, In a (node_ids g) -> exists a', In (a, a') (combine p q) /\ In a' (node_ids h) /\ ix p a = ix q a').
  { intros a Ia. apply (Permutation_in _ (Permutation_sym Hp)) in Ia. destruct (in_combine_ex p q a Hl Ia) as (a' & I).
    exists a'. split; auto. split; [apply (Permutation_in _ Hq); eapply in_combine_r; eauto|apply ix_combine; auto]. }
  split.
  - intros c I. rewrite cov_nodes_relabel in *. apply in_map_iff in I. destruct I as (d & <- & I).
    unfold cov_nodes in I. apply in_map_iff in I. destruct I as ([a att] & <- & I).
    assert (Ia : In a (node_ids g)) by (unfold node_ids; change a with (fst (a, att)); apply in_map; exact I).
    destruct (Hex a Ia) as (a' & Iz & Ia' & Ei).
    unfold node_ids in Ia'. apply in_map_iff in Ia'. destruct Ia' as ([a2 att'] & E2 & I'). cbn [fst] in E2. subst a2.
    apply in_map_iff. exists (covn (a', att')). split.
    + unfold rn, covn. cbn [fst snd]. rewrite <- Ei. f_equal.
      pose proof (Z1 a a' Iz) as H.
      pose proof (attr_of_in g (a, att) Hnd I) as H1. pose proof (attr_of_in h (a', att') Hnd' I') as H2.
      cbn [fst snd] in H1, H2. rewrite H1, H2 in H. symmetry. exact H.
    + unfold cov_nodes. apply in_map. exact I'.
  - intros c I. apply in_cov_edges in I. destruct I as (u & v & x & I & ->).
    unfold relabel in I. cbn [gedges] in I. apply in_map_iff in I. destruct I as ([[a b] x0] & E & I). inversion E; subst. clear E.
    pose proof (proj1 (proj2 Hg)) as Hend. destruct (Hend _ _ _ I) as (Ia & Ib & Hne).
    destruct (Hex a Ia) as (a' & Iza & Ia' & Eia). destruct (Hex b Ib) as (b' & Izb & Ib' & Eib).
    pose proof (Z2 a a' b b' Iza Izb Hne) as H. rewrite (wf_adj g Hg a b x I) in H. cbn [option_map] in H.
    destruct (adj h a' b') as [y|] eqn:Ey; [|discriminate]. cbn [option_map] in H. assert (Hxy : ecov x = ecov y) by congruence.
    unfold adj in Ey. apply find_edge_some in Ey. destruct Ey as (c & d & Ic & Hcd).
    apply in_cov_edges. exists (ix q c), (ix q d), y. split.
    + unfold relabel. cbn [gedges]. apply in_map_iff. exists (c, d, y). auto.
    + rewrite Eia, Eib, Hxy. destruct Hcd as [[-> ->]|[-> ->]]; [reflexivity|].
      rewrite N.min_comm, N.max_comm. reflexivity.
Qed.
End TwoGraphs.

Lemma label_zrel2 g h p q : els_ok g -> els_ok h -> length p = length q -> nlabel g p = nlabel h q -> zrel2 g h p q.
Proof.
  intros Eg Eh Hl E.
  destruct (nlabel_inj g h p q Hl (fun v _ => attr_el_ok g Eg v) (fun v _ => attr_el_ok h Eh v) E) as [E1 E2]. split.
  - intros a a' I. exact (map_eq_combine _ _ _ _ E1 a a' I).
  - intros a a' b b' Ia Ib Hne. destruct (pairs_combine p q Hl a a' b b' Ia Ib Hne) as [H|H].
    + exact (map_eq_combine _ _ _ _ E2 _ _ H).
    + pose proof (map_eq_combine _ _ _ _ E2 _ _ H) as H'. cbn [fst snd] in H'.
      rewrite (adj_sym g a b), (adj_sym h a' b'). exact H'.
Qed.

Theorem equal_labels_iso g h p q : wf g -> wf h -> els_ok g -> els_ok h ->
  Permutation p (node_ids g) -> Permutation q (node_ids h) -> nlabel g p = nlabel h q -> iso_cov g h.
Proof.
  intros Hg Hh Eg Eh Pp Pq E.
  assert (Hl : length p = length q).
  { apply (nlabel_length g h); auto; intros v _; apply attr_el_ok; auto. }
  destruct (half2 g h Hg Hh p q Pp Pq Hl (label_zrel2 g h p q Eg Eh Hl E)) as [A1 A2].
  destruct (half2 h g Hh Hg q p Pq Pp (eq_sym Hl) (label_zrel2 h g q p Eh Eg (eq_sym Hl) (eq_sym E))) as [B1 B2].
  assert (Ip : C08_Spec.inj_on (ix p) (node_ids g)).
  { apply inj_on_same. eapply inj_on_perm; [exact Pp|]. apply mapping_of_inj.
    eapply Permutation_NoDup; [apply Permutation_sym; exact Pp|apply Hg]. }
  assert (Iq : C08_Spec.inj_on (ix q) (node_ids h)).
  { apply inj_on_same. eapply inj_on_perm; [exact Pq|]. apply mapping_of_inj.
    eapply Permutation_NoDup; [apply Permutation_sym; exact Pq|apply Hh]. }
  pose proof (simple_relabel (ix p) g Hg Ip) as S1. pose proof (simple_relabel (ix q) h Hh Iq) as S2.
  apply (common_form_iso g h (ix p) (ix q)); auto.
  split; apply NoDup_Permutation.
  - apply (NoDup_map_inv fst). rewrite <- node_ids_cov. apply S1.
  - apply (NoDup_map_inv fst). rewrite <- node_ids_cov. apply S2.
  - intros c. split; auto.
  - apply (NoDup_map_inv fst). apply S1.
  - apply (NoDup_map_inv fst). apply S2.
  - intros c. split; auto.
Qed.

Theorem graph_sig_sound g h : wf g -> wf h -> els_ok g -> els_ok h -> graph_sig_label g = graph_sig_label h -> iso_cov g h.
Proof.
  intros Hg Hh Eg Eh E. rewrite !graph_sig_label_min in E by auto.
  apply (equal_labels_iso g h (nauty_perm g) (nauty_perm h)); auto; apply nauty_perm_perm; [apply Hg|apply Hh].
Qed.

Theorem graph_signature_spec (D : Type) (digest : str -> D) g h : wf g -> wf h -> els_ok g -> els_ok h ->
  (digest (graph_sig_label g) = digest (graph_sig_label h) -> graph_sig_label g = graph_sig_label h) ->
  (digest (graph_sig_label g) = digest (graph_sig_label h) <-> iso_cov g h).
Proof.
  intros Hg Hh Eg Eh Hd. split.
  - intros E. apply graph_sig_sound; auto.
  - intros Hi. f_equal. apply graph_sig_invariant; auto.
Qed.

(* non-vacuity: forward and reverse reaction centre on a symmetric 4-ring (tuple-valued orders) are told apart,
   a renumbered copy is not *)
Definition rc (a b c d : N) (x y x' y' : Z) : graph :=
  LG [(a, NA [67%N] false 0 0 None); (b, NA [67%N] false 0 0 None); (c, NA [67%N] false 0 0 None); (d, NA [67%N] false 0 0 None)]
     [(a, b, EA3 x None (Some y)); (b, c, EA3 x' None (Some y')); (c, d, EA3 x None (Some y)); (d, a, EA3 x' None (Some y'))].
(* metathesis-like ring (2,0),(0,2),(2,0),(0,2): a renumbered, re-oriented copy gets the same label;
   one-way ring (2,1)x4 against its reverse (1,2)x4: different labels and different signatures *)
Example gs_ex : graph_sig_label (rc 1 2 3 4 4 0 0 4) = graph_sig_label (rc 7 3 9 5 0 4 4 0)
                /\ graph_sig_label (rc 1 2 3 4 4 2 4 2) <> graph_sig_label (rc 1 2 3 4 2 4 2 4)
                /\ serialise (canon_nauty (rc 1 2 3 4 4 2 4 2)) <> serialise (canon_nauty (rc 1 2 3 4 2 4 2 4)).
Proof. split; [vm_compute; reflexivity|]. split; vm_compute; discriminate. Qed.

Print Assumptions graph_signature_spec.
