(** C04 — strategies comp / bt (and any engine whose kept mappings are monomorphisms) through the reactor OBJECT in the default
    mode, to the end of its_list: _explicit_h raises on none of the glued ITS graphs (proof/C04_TotalAny.v) and keeps the
    folded reaction (proof/C04_Explicit.v). *)
From Coq Require Import List NArith ZArith Bool Arith Lia Permutation SetoidList.
From SK Require Import lib.Tok lib.LGraph lib.Mono model.C06_Model lib.C06_Spec proof.C06_Comp.
From SK Require Import model.C03_Model model.C04_Model model.C04_Reactor proof.C03_Proof proof.C03_Glue proof.C03_Spec
                       proof.C04_Glue proof.C04_Template proof.C04_Fold proof.C04_Default proof.C04_DefaultProof
                       proof.C04_Engine proof.C04_Object proof.C04_Chain proof.C04_Explicit proof.C04_DefaultEnd proof.C04_DefaultChain
                       proof.C04_Total proof.C04_TotalDefault proof.C04_TotalAny proof.C04_MonoMatch proof.C04_DefaultChainTotal proof.C04_DefaultNonneg
                       proof.C04_Wf proof.C04_CompBt proof.C04_CompBtObject.
Import ListNotations.
Local Open Scope Z_scope.

Section DefaultObject.
  Variable engine : sarg -> option N -> bool -> C06_Model.graph -> C06_Model.graph -> outcome.
  Variable rematch : nat -> hostg -> molg -> list C03_Model.mapping.
  Variables (core invert : bool) (G H : hostg).
  Hypothesis W : pair_wfb G H = true.
  Hypothesis ME : mode_E G H = true.
  Let A := if invert then H else G.
  Let B := if invert then G else H.
  Let tpl := template core invert G H.
  Hypothesis OK : default_okb A B tpl = true.
  Hypothesis CC : core = true -> centre_carries (its_construct G H) = true.
  Hypothesis VAL : own_valence_okb core invert G H = true.
  Let host := substrate invert G H.

  (** whatever engine produced the kept mappings: if they are monomorphisms and one of them glues to the pair of folded sides,
      its_list (with the _explicit_h stage) contains an ITS that decomposes to the reaction in implicit-hydrogen normal form *)
  Theorem default_its_total (o : ropts) (rc : its) (l r : molg) (ms : list C03_Model.mapping) (y : C03_Model.mapping) (T : its) :
    o_explicit_h o = true ->
    rule_of core invert G H = Some (rc, l, r) ->
    compute_mappings engine o host (rc, l, r) = Some ms ->
    (forall m, In m ms -> is_mono (tr_host host) (tr_pat l) m) ->
    In y ms -> glue host rc y = Some T -> regen_exact T host (h_to_implicit_host B) = true ->
    exists gs T', fst (read_its engine rematch o host (rc, l, r) fresh) = Some gs /\ In T' gs /\ regen_folded T' A B = true.
  Proof.
    intros Ho Er Em Hs Iy Eg RE.
    pose proof (pair_AB' core invert G H W OK) as PW. pose proof (own_describes core invert G H W OK CC) as D.
    destruct (closed_AB core invert G H W OK) as [CA CB]. fold A in CA. fold B in CB.
    destruct (default_okb_foldable A B tpl PW OK) as [FA FB].
    destruct (default_facts core invert G H W ME OK CC rc l r Er) as (PW' & D' & LO & Hf).
    assert (Es : synrule tpl true = Some (rc, l, r)) by (unfold rule_of in Er; rewrite ME in Er; exact Er).
    assert (LT : left_onto rc l) by exact (default_left_onto tpl rc l r (d_wf _ _ _ D) (tpl_el A B tpl PW D) Es).
    pose proof (default_pattern_nonneg core invert G H rc l r W ME OK CC Er) as Hnn.
    unfold own_valence_okb in VAL. rewrite Er in VAL. fold tpl in VAL.
    (* no glued ITS makes _explicit_h raise *)
    assert (NC : snd (explicit_all (glued_val rematch host (rc, l, r) ms)) = false).
    { apply explicit_all_ok. intros T0 IT. unfold glued_val in IT. cbn [fst snd] in IT. rewrite Hf in IT.
      apply in_concat_mapi_inv in IT. destruct IT as (i & y0 & Iy0 & ITy).
      unfold glue_graph in ITy. cbn [fst snd flat_map] in ITy. rewrite app_nil_r in ITy.
      destruct (glue host rc y0) as [Ty|] eqn:Eg0; [|destruct ITy]. destruct ITy as [ETy|[]]. subst Ty.
      assert (Hy : match_rcb host rc y0 = true).
      { apply (mono_is_match host rc l y0 (pw_A _ _ PW')).
        - exact (folded_hc_nonneg A B tpl PW OK).
        - exact (d_wf _ _ _ D').
        - intros u v x I. destruct (d_edges _ _ _ D' u v x I) as (Iu & Iv & _). auto.
        - exact LO.
        - exact LT.
        - intros k la Ela. rewrite forallb_forall in Hnn. specialize (Hnn (k, la) (assoc_in k (gnodes l) Ela)). simpl in Hnn. apply Z.leb_le. exact Hnn.
        - exact (Hs y0 Iy0). }
      exact (any_match_total A B tpl rc l r host y0 T0 PW D OK Es (d_wf _ _ _ D') Hy Eg0 VAL). }
    assert (IT : In T (glued_val rematch host (rc, l, r) ms)).
    { unfold glued_val. cbn [fst snd]. rewrite Hf.
      apply (in_concat_mapi (glue_graph rematch host (rc, l, r) false) ms y T); [|exact Iy].
      intros i. unfold glue_graph. cbn [fst snd]. simpl. rewrite Eg. left. reflexivity. }
    destruct (explicit_all_in _ NC T IT) as (T' & ms' & EX & IT').
    exists (fst (explicit_all (glued_val rematch host (rc, l, r) ms))), T'. split; [|split; [exact IT'|]].
    - unfold read_its, read_mappings. cbn [fresh s_its s_maps s_flag s_smarts]. rewrite Em. cbn [fst snd s_flag orb].
      change (concat (mapi (glue_graph rematch host (rc, l, r) (has_XH l)) ms)) with (glued_val rematch host (rc, l, r) ms).
      rewrite Ho. destruct (explicit_all (glued_val rematch host (rc, l, r) ms)) as [gs c] eqn:Ea.
      simpl in NC. subst c. reflexivity.
    - apply (explicit_end T T' ms' A B (pw_A _ _ PW) (pw_B _ _ PW) FA FB CA CB); [| |exact EX].
      + rewrite (glued_ids _ _ _ _ Eg). unfold host, substrate. fold A.
        destruct (fold_host_spec A (wf_host_nodup A (pw_A _ _ PW)) FA) as (_ & _ & FAA).
        exact (folded_nodup A _ _ FAA (pw_A _ _ PW)).
      + exact RE.
  Qed.
End DefaultObject.

(** comp / bt for the own templates in the default mode, at the level of the reactor object *)
Section OwnDefaultObject.
  Variable enum : list N -> list N -> list C06_Model.mapping.
  Variable rematch : nat -> hostg -> molg -> list C03_Model.mapping.
  Variables (core invert : bool) (G H : hostg).
  Hypothesis W : pair_wfb G H = true.
  Hypothesis ME : mode_E G H = true.
  Hypothesis OK : default_okb (if invert then H else G) (if invert then G else H) (template core invert G H) = true.
  Hypothesis CC : core = true -> centre_carries (its_construct G H) = true.
  Hypothesis VAL : own_valence_okb core invert G H = true.
  Variables (rc : its) (l r : molg).
  Hypothesis Er : rule_of core invert G H = Some (rc, l, r).
  Let host := substrate invert G H.
  Hypothesis Hor : oracle_ok enum (tr_host host) (tr_pat l).

  Definition default_reactor_opts (s T : N) : ropts := own_opts invert true (SMember s) (Some T) false.

  Theorem own_comp_default_object :
    (0 <? length (comps (tr_pat l)))%nat && (length (comps (tr_pat l)) <? length (comps (tr_host host)))%nat = false ->
    ((length (comps (tr_host host)) <? length (comps (tr_pat l)))%nat = true \/ id_separatingb (tr_host host) (tr_pat l) = true) ->
    exists T0 : N, forall T : N, (T0 <= T)%N ->
      exists gs T', fst (read_its (api_engine enum) rematch (default_reactor_opts 1 T) host (rc, l, r) fresh) = Some gs /\
                    In T' gs /\ regen_folded T' (if invert then H else G) (if invert then G else H) = true.
  Proof.
    intros NG Hc. destruct (default_facts core invert G H W ME OK CC rc l r Er) as (PW' & D' & LO & Hf).
    pose proof (default_pattern_nonneg core invert G H rc l r W ME OK CC Er) as Hnn.
    pose proof (default_gwf_host core invert G H W OK) as GH. pose proof (gwf_tr_pat_describes _ _ rc l D' LO) as GP.
    destruct (comp_regenerates_sound enum _ _ rc l r PW' D' LO Hf Hnn GH GP Hor NG) as (T0 & HT0).
    { destruct Hc as [Hc|Hc]; [left; exact Hc|right]. rewrite <- tr_pat_ids.
      exact (id_separatingb_sound _ _ GH GP (default_pat_in_host core invert G H W ME OK CC rc l r Er) Hc). }
    exists T0. intros T HT. destruct (HT0 T (default_reactor_opts 1 T) HT eq_refl eq_refl eq_refl) as (ms & y & Tt & Em & Hs & Iy & Eg & Rg).
    exact (default_its_total (api_engine enum) rematch core invert G H W ME OK CC VAL (default_reactor_opts 1 T) rc l r ms y Tt eq_refl Er Em Hs Iy Eg Rg).
  Qed.
  Theorem own_bt_default_object :
    ((0 <? length (comps (tr_pat l)))%nat && (length (comps (tr_pat l)) <? length (comps (tr_host host)))%nat = true \/
     (length (comps (tr_host host)) <? length (comps (tr_pat l)))%nat = true \/ id_separatingb (tr_host host) (tr_pat l) = true) ->
    exists T0 : N, forall T : N, (T0 <= T)%N ->
      exists gs T', fst (read_its (api_engine enum) rematch (default_reactor_opts 2 T) host (rc, l, r) fresh) = Some gs /\
                    In T' gs /\ regen_folded T' (if invert then H else G) (if invert then G else H) = true.
  Proof.
    intros Hc. destruct (default_facts core invert G H W ME OK CC rc l r Er) as (PW' & D' & LO & Hf).
    pose proof (default_pattern_nonneg core invert G H rc l r W ME OK CC Er) as Hnn.
    pose proof (default_gwf_host core invert G H W OK) as GH. pose proof (gwf_tr_pat_describes _ _ rc l D' LO) as GP.
    destruct (bt_regenerates_sound enum _ _ rc l r PW' D' LO Hf Hnn GH GP Hor) as (T0 & HT0).
    { destruct Hc as [Hc|[Hc|Hc]]; [left; exact Hc|right; left; exact Hc|right; right]. rewrite <- tr_pat_ids.
      exact (id_separatingb_sound _ _ GH GP (default_pat_in_host core invert G H W ME OK CC rc l r Er) Hc). }
    exists T0. intros T HT. destruct (HT0 T (default_reactor_opts 2 T) HT eq_refl eq_refl eq_refl) as (ms & y & Tt & Em & Hs & Iy & Eg & Rg).
    exact (default_its_total (api_engine enum) rematch core invert G H W ME OK CC VAL (default_reactor_opts 2 T) rc l r ms y Tt eq_refl Er Em Hs Iy Eg Rg).
  Qed.
End OwnDefaultObject.

(** the same for ANY embed_threshold [thr] (None = the default 5000) that is not below C06's bound *)
Section OwnDefaultAt.
  Variable enum : list N -> list N -> list C06_Model.mapping.
  Variable rematch : nat -> hostg -> molg -> list C03_Model.mapping.
  Variables (core invert : bool) (G H : hostg) (thr : option N).
  Hypothesis W : pair_wfb G H = true.
  Hypothesis ME : mode_E G H = true.
  Hypothesis OK : default_okb (if invert then H else G) (if invert then G else H) (template core invert G H) = true.
  Hypothesis CC : core = true -> centre_carries (its_construct G H) = true.
  Hypothesis VAL : own_valence_okb core invert G H = true.
  Variables (rc : its) (l r : molg).
  Hypothesis Er : rule_of core invert G H = Some (rc, l, r).
  Let host := substrate invert G H.
  Hypothesis Hor : oracle_ok enum (tr_host host) (tr_pat l).

  Theorem own_comp_default_at :
    (0 <? length (comps (tr_pat l)))%nat && (length (comps (tr_pat l)) <? length (comps (tr_host host)))%nat = false ->
    ((length (comps (tr_host host)) <? length (comps (tr_pat l)))%nat = true \/ id_separatingb (tr_host host) (tr_pat l) = true) ->
    (comp_bound enum true (tr_host host) (tr_pat l) <= dflt DEFAULT_THRESHOLD thr)%N ->
    exists gs T', fst (read_its (api_engine enum) rematch (own_opts invert true (SMember 1%N) thr false) host (rc, l, r) fresh) = Some gs /\
                  In T' gs /\ regen_folded T' (if invert then H else G) (if invert then G else H) = true.
  Proof.
    intros NG Hc Hb. destruct (default_facts core invert G H W ME OK CC rc l r Er) as (PW' & D' & LO & Hf).
    pose proof (default_pattern_nonneg core invert G H rc l r W ME OK CC Er) as Hnn.
    pose proof (default_gwf_host core invert G H W OK) as GH. pose proof (gwf_tr_pat_describes _ _ rc l D' LO) as GP.
    destruct (comp_regenerates_at enum _ _ rc l r PW' D' LO Hf Hnn GH GP Hor (own_opts invert true (SMember 1%N) thr false) NG)
      as (ms & y & Tt & Em & Hs & Iy & Eg & Rg); [|reflexivity|reflexivity|exact Hb|].
    { destruct Hc as [Hc|Hc]; [left; exact Hc|right]. rewrite <- tr_pat_ids.
      exact (id_separatingb_sound _ _ GH GP (default_pat_in_host core invert G H W ME OK CC rc l r Er) Hc). }
    exact (default_its_total (api_engine enum) rematch core invert G H W ME OK CC VAL (own_opts invert true (SMember 1%N) thr false) rc l r ms y Tt eq_refl Er Em Hs Iy Eg Rg).
  Qed.
  Theorem own_bt_default_at :
    ((0 <? length (comps (tr_pat l)))%nat && (length (comps (tr_pat l)) <? length (comps (tr_host host)))%nat = true \/
     (length (comps (tr_host host)) <? length (comps (tr_pat l)))%nat = true \/ id_separatingb (tr_host host) (tr_pat l) = true) ->
    (N.max (comp_bound enum true (tr_host host) (tr_pat l)) (lenN (enum (node_ids (tr_host host)) (node_ids (tr_pat l)))) <= dflt DEFAULT_THRESHOLD thr)%N ->
    exists gs T', fst (read_its (api_engine enum) rematch (own_opts invert true (SMember 2%N) thr false) host (rc, l, r) fresh) = Some gs /\
                  In T' gs /\ regen_folded T' (if invert then H else G) (if invert then G else H) = true.
  Proof.
    intros Hc Hb. destruct (default_facts core invert G H W ME OK CC rc l r Er) as (PW' & D' & LO & Hf).
    pose proof (default_pattern_nonneg core invert G H rc l r W ME OK CC Er) as Hnn.
    pose proof (default_gwf_host core invert G H W OK) as GH. pose proof (gwf_tr_pat_describes _ _ rc l D' LO) as GP.
    destruct (bt_regenerates_at enum _ _ rc l r PW' D' LO Hf Hnn GH GP Hor (own_opts invert true (SMember 2%N) thr false))
      as (ms & y & Tt & Em & Hs & Iy & Eg & Rg); [|reflexivity|reflexivity|exact Hb|].
    { destruct Hc as [Hc|[Hc|Hc]]; [left; exact Hc|right; left; exact Hc|right; right]. rewrite <- tr_pat_ids.
      exact (id_separatingb_sound _ _ GH GP (default_pat_in_host core invert G H W ME OK CC rc l r Er) Hc). }
    exact (default_its_total (api_engine enum) rematch core invert G H W ME OK CC VAL (own_opts invert true (SMember 2%N) thr false) rc l r ms y Tt eq_refl Er Em Hs Iy Eg Rg).
  Qed.
End OwnDefaultAt.
