(** C18 — network-level reading of clause 2 for the species view. *)
From Coq Require Import List NArith ZArith Bool Arith Lia Permutation.
From SK Require Import lib.IRCore lib.IRSearch lib.C18_IRValid model.C18_Model proof.C18_Spec proof.C18_Graph proof.C18_Label
  proof.C18_View proof.C18_Invariant proof.C18_NetBip.
Import ListNotations.

Definition A0 : eattr := (NONE, NONE).
Definition pairs_of_rxn (r : rxn) : list (N * N) :=
  flat_map (fun rc => map (fun pc => (fst rc, fst pc)) (rhs r)) (lhs r).
Definition pairs_of (n : net) : list (N * N) := flat_map pairs_of_rxn (nrxns n).
Definition ens (l : list arc) (k : N * N) : list arc := ensure_arc (fst k) (snd k) A0 l.

Lemma fold_ens L : forall acc,
  (forall k, In k (map akey (fold_left ens L acc)) <-> In k (map akey acc) \/ In k L) /\
  (NoDup (map akey acc) -> NoDup (map akey (fold_left ens L acc))) /\
  (forall e, In e (fold_left ens L acc) -> In e acc \/ aattr e = A0).
Proof.
  induction L as [|k L IH]; intros acc; simpl.
  - split; [intros; tauto|]. split; auto.
  - destruct (IH (ens acc k)) as (H1 & H2 & H3). split; [|split].
    + intros x. rewrite H1. unfold ens. rewrite ensure_arc_in. destruct k. simpl. intuition.
    + intros Hn. apply H2. unfold ens. apply ensure_arc_nodup. auto.
    + intros e He. destruct (H3 e He) as [I|E]; auto. unfold ens in I. destruct (ensure_arc_mem _ _ _ _ _ I) as [I'| ->]; auto.
Qed.

Lemma varcs_view_sp n : varcs (view_sp n) = fold_left ens (pairs_of n) [].
Proof.
  unfold view_sp, pairs_of.
  assert (G : forall rs g, varcs (fold_left sp_add_rxn rs g) = fold_left ens (flat_map pairs_of_rxn rs) (varcs g)).
  { induction rs as [|r rs IH]; intros g; simpl; auto. rewrite IH, fold_left_app. f_equal.
    unfold sp_add_rxn, pairs_of_rxn. generalize (lhs r) as L. intros L. revert g.
    induction L as [|rc L IHL]; intros g; simpl; auto. rewrite IHL, fold_left_app. f_equal.
    generalize (rhs r) as R. intros R. revert g. induction R as [|pc R IHR]; intros g; simpl; auto. rewrite IHR. reflexivity. }
  rewrite G. reflexivity.
Qed.
Lemma vnodes_view_sp n : NoDup (nspecies n) -> vnodes (view_sp n) = map sp_node (nspecies n).
Proof.
  intros H. unfold view_sp.
  assert (G : forall rs g, vnodes (fold_left sp_add_rxn rs g) = vnodes g).
  { induction rs as [|r rs IH]; intros g; simpl; auto. rewrite IH. unfold sp_add_rxn.
    generalize (lhs r) as L. intros L. revert g. induction L as [|rc L IHL]; intros g; simpl; auto. rewrite IHL.
    generalize (rhs r) as R. intros R. revert g. induction R as [|pc R IHR]; intros g; simpl; auto. rewrite IHR. reflexivity. }
  rewrite G. simpl. apply species_nodes_closed. auto.
Qed.

Lemma arcs_view_sp n e : In e (varcs (view_sp n)) <-> In (akey e) (pairs_of n) /\ aattr e = A0.
Proof.
  rewrite varcs_view_sp. destruct (fold_ens (pairs_of n) []) as (H1 & H2 & H3). split.
  - intros I. split.
    + apply (proj1 (H1 (akey e))) in I0 || (assert (I0 : In (akey e) (map akey (fold_left ens (pairs_of n) []))) by (apply in_map; auto);
        apply H1 in I0; destruct I0 as [[]|I0]; auto).
    + destruct (H3 e I) as [[]|E]; auto.
  - intros [I E]. assert (I0 : In (akey e) (map akey (fold_left ens (pairs_of n) []))) by (apply H1; auto).
    apply in_map_iff in I0. destruct I0 as (e' & Ek & I').
    destruct (H3 e' I') as [[]|E']. destruct e as [[a b] c], e' as [[a' b'] c']. unfold akey, asrc, adst, aattr in *. simpl in *.
    inversion Ek; subst. exact I'.
Qed.

Lemma Forall2_in_r {A B} (R : A -> B -> Prop) l l' y : Forall2 R l l' -> In y l' -> exists x, In x l /\ R x y.
Proof. induction 1; simpl; intros I; [contradiction|]. destruct I as [<-|I]; eauto. destruct (IHForall2 I) as (x0 & ? & ?). eauto. Qed.
Lemma Forall2_in_l {A B} (R : A -> B -> Prop) l l' x : Forall2 R l l' -> In x l -> exists y, In y l' /\ R x y.
Proof. induction 1; simpl; intros I; [contradiction|]. destruct I as [<-|I]; eauto. destruct (IHForall2 I) as (y0 & ? & ?). eauto. Qed.

Lemma pairs_of_rxn_in r k : In k (pairs_of_rxn r) <-> exists rc pc, In rc (lhs r) /\ In pc (rhs r) /\ k = (fst rc, fst pc).
Proof.
  unfold pairs_of_rxn. rewrite in_flat_map. split.
  - intros (rc & Hrc & I). apply in_map_iff in I. destruct I as (pc & <- & Hpc). eauto.
  - intros (rc & pc & Hrc & Hpc & ->). exists rc. split; auto. apply in_map_iff. eauto.
Qed.

Lemma pairs_variant f n n' : net_variant f n n' ->
  forall k, In k (pairs_of n') <-> exists k0, In k0 (pairs_of n) /\ k = (f (fst k0), f (snd k0)).
Proof.
  intros (_ & rs & HF & Hp) k. unfold pairs_of. rewrite in_flat_map. split.
  - intros (r' & Hr' & I). apply (Permutation_in _ (Permutation_sym Hp)) in Hr'.
    destruct (Forall2_in_r _ _ _ _ HF Hr') as (r & Hr & (_ & Hl & Hrr)).
    apply pairs_of_rxn_in in I. destruct I as (rc & pc & Hrc & Hpc & ->).
    apply (Permutation_in _ (Permutation_sym Hl)) in Hrc. apply (Permutation_in _ (Permutation_sym Hrr)) in Hpc.
    unfold rename_side in Hrc, Hpc. apply in_map_iff in Hrc, Hpc. destruct Hrc as (rc0 & <- & Hrc0), Hpc as (pc0 & <- & Hpc0).
    exists (fst rc0, fst pc0). split; auto. apply in_flat_map. exists r. split; auto. apply pairs_of_rxn_in. eauto.
  - intros (k0 & I & ->). apply in_flat_map in I. destruct I as (r & Hr & I).
    destruct (Forall2_in_l _ _ _ _ HF Hr) as (r' & Hr' & (_ & Hl & Hrr)).
    exists r'. split; [apply (Permutation_in _ Hp); auto|].
    apply pairs_of_rxn_in in I. destruct I as (rc & pc & Hrc & Hpc & ->). apply pairs_of_rxn_in.
    exists (f (fst rc), snd rc), (f (fst pc), snd pc). split; [|split]; auto.
    + apply (Permutation_in _ Hl). unfold rename_side. apply in_map_iff. eauto.
    + apply (Permutation_in _ Hrr). unfold rename_side. apply in_map_iff. eauto.
Qed.

Theorem net_variant_sp f n n' : NoDup (nspecies n) -> NoDup (nspecies n') -> net_closed n -> inj_on f (nspecies n) ->
  net_variant f n n' -> geq (view_sp n') (relabel f (view_sp n)).
Proof.
  intros Hn Hn' Hcl Hf Hv.
  destruct (view_sp_GI n Hcl) as (Hw & _). 
  assert (Hids : node_ids (view_sp n) = nspecies n).
  { unfold node_ids. rewrite vnodes_view_sp by auto. rewrite map_map. simpl. apply map_id. }
  assert (Hwr : wf (relabel f (view_sp n))) by (apply wf_relabel; auto; rewrite Hids; auto).
  split.
  - unfold relabel. simpl. rewrite !vnodes_view_sp by auto. rewrite map_map.
    change (fun x : N => (f (fst (sp_node x)), snd (sp_node x))) with (fun x : N => sp_node (f x)).
    rewrite <- (map_map f sp_node). apply Permutation_map. apply Permutation_sym. apply Hv.
  - apply NoDup_Permutation.
    + assert (Hcl' : True) by auto. rewrite varcs_view_sp. destruct (fold_ens (pairs_of n') []) as (_ & H2 & _).
      apply (NoDup_map_inv akey). apply H2. constructor.
    + apply (NoDup_map_inv akey). apply Hwr.
    + intros e. rewrite arcs_view_sp. rewrite (pairs_variant f n n' Hv). unfold relabel. simpl. rewrite in_map_iff. split.
      * intros ((k0 & I & Ek) & Ea). destruct k0 as [a b]. simpl in Ek.
        exists (a, b, A0). split.
        -- destruct e as [[x y] c]. unfold akey, asrc, adst, aattr in *. simpl in *. inversion Ek; subst. reflexivity.
        -- apply arcs_view_sp. split; auto.
      * intros (e0 & <- & I). apply arcs_view_sp in I. destruct I as [I Ea]. split; auto.
        exists (akey e0). split; auto.
Qed.

Theorem net_canon_invariant_sp f n n' lab p lab' p' :
  NoDup (nspecies n) -> NoDup (nspecies n') -> net_closed n -> net_variant f n n' -> inj_on f (nspecies n) ->
  fst (canon_search (view false true n)) = Some (lab, p) -> fst (canon_search (view false true n')) = Some (lab', p') ->
  lab' = lab /\ geq (canon_graph (view false true n') p') (canon_graph (view false true n) p).
Proof.
  intros Hn Hn' Hcl Hv Hf Hb Hb'. simpl in *.
  destruct (view_sp_GI n Hcl) as (Hw & Hk & Ha).
  apply (canon_invariant_on f (view_sp n) (view_sp n') lab p lab' p'); auto.
  - unfold node_ids. rewrite vnodes_view_sp by auto. rewrite map_map. simpl. rewrite map_id. exact Hf.
  - apply net_variant_sp; auto.
Qed.
