(** C10 — proofs, part 26: the last cell of the option matrix of its_to_gml: reindex=True together with explicit_hydrogen=True on an
    ITS WITH implicit hydrogens.  The relabelling map covers the old ids only (old id -> position from 1); the hydrogens
    h_to_explicit added keep their ids (max id + 1 ...), which lie above every new id as soon as the ids of the ITS are >= 1
    (atom maps are).  The rule then reads back as normalize_edge_orders (h_to_explicit c) renumbered by that map. *)
From Coq Require Import String List NArith ZArith Bool Lia.
From SK Require Import lib.Tok lib.LGraph lib.StrJoin model.C10_Model model.C10_Rxn proof.C10_Proof proof.C10_Views proof.C10_Build
  proof.C10_Copy proof.C10_GmlRead proof.C10_GmlWrite proof.C10_Relabel proof.C10_Reindex proof.C10_Hydrogen proof.C10_HRound
  proof.C10_GmlEH proof.C10_ReindexEH proof.C10_HRoundIts proof.C10_GmlEHFull.
Import ListNotations.
Local Open Scope Z_scope.

(** * the renumbering map: values in 1..n on the old ids, identity elsewhere *)
Lemma enum_from_bound l : forall k n j, assoc n (enum_from k l) = Some j -> (k <= j < k + N.of_nat (List.length l))%N.
Proof.
  induction l as [|x r IH]; intros k n j; [discriminate|]. simpl assoc. destruct (N.eqb n x).
  - intros [= <-]. simpl List.length. lia.
  - intros H. apply IH in H. simpl List.length. lia.
Qed.
Lemma mapget_enum_in l k n : In n l -> (k <= mapget (enum_from k l) n < k + N.of_nat (List.length l))%N.
Proof.
  intros Hn. destruct (enum_from_assoc l k n Hn) as (j & E & _). unfold mapget. rewrite E. apply (enum_from_bound l k n j E).
Qed.
Lemma enum_from_notin l : forall k n, ~ In n l -> assoc n (enum_from k l) = None.
Proof.
  induction l as [|x r IH]; intros k n Hn; [reflexivity|]. simpl. destruct (N.eqb_spec n x) as [->|]; [exfalso; apply Hn; left; reflexivity|].
  apply IH. intros H. apply Hn. right. exact H.
Qed.
Lemma mapget_enum_notin l k n : ~ In n l -> mapget (enum_from k l) n = n.
Proof. intros Hn. unfold mapget. rewrite (enum_from_notin l k n Hn). reflexivity. Qed.

(** distinct ids >= 1 : there are at most max of them *)
Lemma fold_max_le l : forall acc B, (acc <= B)%N -> (forall x, In x l -> (x <= B)%N) -> (fold_left N.max l acc <= B)%N.
Proof.
  induction l as [|x r IH]; intros acc B Ha H; [exact Ha|]. simpl. apply IH; [|intros y Hy; apply H; right; exact Hy].
  pose proof (H x (or_introl eq_refl)). lia.
Qed.
Lemma pigeon (l : list N) (M : N) : NoDup l -> (forall x, In x l -> (1 <= x <= M)%N) -> (N.of_nat (List.length l) <= M)%N.
Proof.
  intros Hnd H.
  assert (incl l (map N.of_nat (seq 1 (N.to_nat M)))) as Hincl.
  { intros x Hx. destruct (H x Hx) as [H1 H2]. apply in_map_iff. exists (N.to_nat x). split; [apply N2Nat.id|]. apply in_seq. lia. }
  pose proof (NoDup_incl_length Hnd Hincl) as L. rewrite map_length, seq_length in L. lia.
Qed.

(** * node order of relabel_nodes(copy=True) under an injective map *)
Section RelabelIds.
Variable f : N -> N.
Variable ids : list N.
Hypothesis ids_nd : NoDup ids.
Hypothesis finj : forall a b, In a ids -> In b ids -> f a = f b -> a = b.
Variable g : gr.
Hypothesis W : gwf g.
Hypothesis g_ids : node_ids g = ids.
Variable m : list (N * N).
Hypothesis Hm : forall n, mapget m n = f n.

Lemma relabel_node_ids : node_ids (nx_relabel m g) = map f ids.
Proof.
  rewrite (nx_relabel_fold f ids ids_nd finj g W g_ids m Hm). unfold node_ids at 1. rewrite fold_estep_node_ids.
  - fold (node_ids (rl_g2 f g)). unfold rl_g2.
    assert (forall (l : list (N * natt)) (G : gr), node_ids (fold_left (fun acc p => set_node acc (fst p) (fun _ => snd p)) l G) = node_ids G) as FS.
    { induction l as [|q r IH]; intros G; [reflexivity|]. simpl. rewrite IH. apply node_ids_set_node. }
    rewrite FS, fold_nstep_node_ids; [|apply (rl_keys f ids ids_nd finj g g_ids)|reflexivity].
    simpl. unfold rl_nodes. rewrite map_map. simpl. rewrite <- (map_map fst f). fold (node_ids g). rewrite g_ids. reflexivity.
  - intros e He. unfold rl_pairs in He. apply in_map_iff in He. destruct He as ([[a b] x] & <- & Hin). simpl.
    destruct (edges_iter_ends ids g W g_ids a b x Hin) as [Ha Hb]. unfold has_node.
    rewrite !(rl_g2_label f ids ids_nd finj g g_ids), !(rl_assoc f ids ids_nd finj g W g_ids).
    rewrite (finv_f f ids ids_nd finj a Ha), (finv_f f ids ids_nd finj b Hb).
    rewrite <- g_ids in Ha, Hb. apply has_node_in, has_node_label in Ha. apply has_node_in, has_node_label in Hb.
    destruct Ha as [x1 ->]. destruct Hb as [x2 ->]. auto.
Qed.
End RelabelIds.

Section RFull.
Variable c : gr.
Hypothesis Hok : IOK c.
Hypothesis Hpos : forall n, In n (node_ids c) -> (1 <= n)%N.
Variable K : gr.
Variable mx : N.
Variable P : list (N * N).
Hypothesis IE : EInv c K mx P.
Hypothesis LE : forall n a, label c n = Some a -> label K n = Some (upd a).
Hypothesis HP : P_ok c P.
Let ids := node_ids c.
Let m := enum_from 1%N ids.
Let f := mapget m.
Let Wc := iok_gwf c Hok.
Let WK := ei_wf _ _ _ _ IE.
Let idsK := node_ids K.
Let len := N.of_nat (List.length ids).

Lemma Kids : idsK = ids ++ map fst P.
Proof. apply (ei_ids _ _ _ _ IE). Qed.
Lemma len_le_max : (len <= max_id c)%N.
Proof.
  apply pigeon; [apply (gwf_nd c Wc)|]. intros x Hx. split; [apply Hpos, Hx|apply (bounded_max_id c), Hx].
Qed.
Lemma f_old n : In n ids -> (1 <= f n <= len)%N.
Proof. intros Hn. pose proof (mapget_enum_in ids 1%N n Hn). fold m in H. fold f in H. unfold len. lia. Qed.
Lemma h_above h : In h (map fst P) -> (max_id c < h)%N /\ ~ In h ids.
Proof.
  intros Hh. pose proof (ei_rng _ _ _ _ IE h Hh) as R. split; [lia|]. intros Hin. apply (bounded_max_id c) in Hin. lia.
Qed.
Lemma f_new h : In h (map fst P) -> f h = h.
Proof. intros Hh. apply mapget_enum_notin. apply (h_above h Hh). Qed.

Lemma fK_inj a b : In a idsK -> In b idsK -> f a = f b -> a = b.
Proof.
  rewrite Kids, !in_app_iff. pose proof len_le_max as LM. intros [Ha|Ha] [Hb|Hb] E.
  - apply (f_inj c Hok a b Ha Hb E).
  - exfalso. rewrite (f_new b Hb) in E. pose proof (f_old a Ha). pose proof (proj1 (h_above b Hb)). lia.
  - exfalso. rewrite (f_new a Ha) in E. pose proof (f_old b Hb). pose proof (proj1 (h_above a Ha)). lia.
  - rewrite (f_new a Ha), (f_new b Hb) in E. exact E.
Qed.
Let idsK_nd : NoDup idsK := gwf_nd K WK.
Let Hm : forall n, mapget m n = f n := fun n => eq_refl.
Let ids_nd : NoDup ids := gwf_nd c Wc.
Let f_inj_c : forall a b, In a ids -> In b ids -> f a = f b -> a = b := f_inj c Hok.

Definition K' : gr := nx_relabel m K.
Definition c' : gr := nx_relabel m c.
Definition P' : list (N * N) := map (fun hm : N * N => (fst hm, f (snd hm))) P.

Lemma K'_label k : label K' k = match finv f idsK k with Some n => label K n | None => None end.
Proof. apply (relabel_label f idsK idsK_nd fK_inj K WK eq_refl m Hm). Qed.
Lemma K'_adj k l : adj K' k l = match finv f idsK k, finv f idsK l with Some u, Some v => adj K u v | _, _ => None end.
Proof. apply (relabel_adj f idsK idsK_nd fK_inj K WK eq_refl m Hm). Qed.
Lemma c'_label k : label c' k = match finv f ids k with Some n => label c n | None => None end.
Proof. apply (relabel_label f ids ids_nd f_inj_c c Wc eq_refl m Hm). Qed.
Lemma c'_adj k l : adj c' k l = match finv f ids k, finv f ids l with Some u, Some v => adj c u v | _, _ => None end.
Proof. apply (relabel_adj f ids ids_nd f_inj_c c Wc eq_refl m Hm). Qed.
Lemma c'_ids : node_ids c' = map f ids.
Proof. apply (relabel_node_ids f ids ids_nd f_inj_c c Wc eq_refl m Hm). Qed.
Lemma K'_ids : node_ids K' = map f ids ++ map fst P.
Proof.
  unfold K'. rewrite (relabel_node_ids f idsK idsK_nd fK_inj K WK eq_refl m Hm), Kids, map_app. f_equal.
  rewrite <- (map_id (map fst P)) at 2. apply map_ext_in. intros h Hh. apply f_new, Hh.
Qed.
Lemma fst_P' : map fst P' = map fst P.
Proof. unfold P'. rewrite map_map. reflexivity. Qed.

(** the two inverses *)
Lemma finv_c_K k n : finv f ids k = Some n -> finv f idsK k = Some n.
Proof.
  intros H. apply finv_some in H. destruct H as [-> Hn]. apply (finv_f f idsK idsK_nd fK_inj). rewrite Kids. apply in_app_iff. left. exact Hn.
Qed.
Lemma finv_K_cases k n : finv f idsK k = Some n -> (In n ids /\ finv f ids k = Some n) \/ (In n (map fst P) /\ k = n /\ finv f ids k = None).
Proof.
  intros H. apply finv_some in H. destruct H as [-> Hn]. rewrite Kids in Hn. apply in_app_iff in Hn. destruct Hn as [Hn|Hn].
  - left. split; [exact Hn|apply (finv_f f ids ids_nd f_inj_c n Hn)].
  - right. split; [exact Hn|split; [apply f_new, Hn|]]. rewrite (f_new n Hn).
    destruct (finv f ids n) as [n0|] eqn:F; [|reflexivity]. exfalso. apply finv_some in F. destruct F as [E Hn0].
    pose proof (f_old n0 Hn0). pose proof (proj1 (h_above n Hn)). pose proof len_le_max. lia.
Qed.
Lemma finv_K_new h : In h (map fst P) -> finv f idsK h = Some h.
Proof.
  intros Hh. rewrite <- (f_new h Hh) at 1. apply (finv_f f idsK idsK_nd fK_inj). rewrite Kids. apply in_app_iff. right. exact Hh.
Qed.
Lemma finv_K_old n : In n ids -> finv f idsK (f n) = Some n.
Proof. intros Hn. apply (finv_f f idsK idsK_nd fK_inj). rewrite Kids. apply in_app_iff. left. exact Hn. Qed.

Lemma max_c' : (max_id c' <= len)%N.
Proof.
  unfold max_id. rewrite c'_ids. apply fold_max_le; [lia|]. intros x Hx. apply in_map_iff in Hx. destruct Hx as (n & <- & Hn). apply (f_old n Hn).
Qed.

Lemma padj_P' a b : In a idsK -> In b idsK -> padj P' (f a) (f b) = padj P a b.
Proof.
  intros Ha Hb. apply eq_true_iff_eq. unfold padj, P'. rewrite !existsb_exists. split.
  - intros ([h m'] & Hin & Pq). apply in_map_iff in Hin. destruct Hin as ([h0 m0] & E & Hin). simpl in E. injection E as <- <-. simpl in Pq.
    exists (h0, m0). split; [exact Hin|]. simpl.
    assert (In h0 idsK) as Hh by (rewrite Kids; apply in_app_iff; right; apply (in_map fst _ _ Hin)).
    assert (In m0 idsK) as Hm0 by (rewrite Kids; apply in_app_iff; left; apply (proj2 (proj2 HP h0 m0 Hin))).
    rewrite <- (f_new h0 (in_map fst _ _ Hin)) in Pq. apply pair_eqb_spec in Pq. apply pair_eqb_spec.
    destruct Pq as [[E1 E2]|[E1 E2]]; [left|right]; split; apply fK_inj; assumption.
  - intros ([h0 m0] & Hin & Pq). simpl in Pq. exists (h0, f m0). split.
    + apply in_map_iff. exists (h0, m0). auto.
    + simpl. rewrite <- (f_new h0 (in_map fst _ _ Hin)). apply pair_eqb_spec in Pq. apply pair_eqb_spec.
      destruct Pq as [[-> ->]|[-> ->]]; auto.
Qed.
Lemma padj_P'_image u v : padj P' u v = true -> finv f idsK u <> None /\ finv f idsK v <> None.
Proof.
  unfold padj, P'. rewrite existsb_exists. intros ([h m'] & Hin & Pq). apply in_map_iff in Hin. destruct Hin as ([h0 m0] & E & Hin).
  simpl in E. injection E as <- <-. simpl in Pq.
  pose proof (finv_K_new h0 (in_map fst _ _ Hin)) as F1. pose proof (finv_K_old m0 (proj2 (proj2 HP h0 m0 Hin))) as F2.
  apply pair_eqb_spec in Pq. destruct Pq as [[<- <-]|[<- <-]]; rewrite F1, F2; split; discriminate.
Qed.

Lemma IE' : EInv c' K' mx P'.
Proof.
  pose proof len_le_max as LM. pose proof max_c' as MC. split.
  - rewrite K'_ids, c'_ids, fst_P'. reflexivity.
  - intros h Hh. rewrite fst_P' in Hh. pose proof (ei_rng _ _ _ _ IE h Hh). lia.
  - rewrite fst_P'. exact (ei_nd _ _ _ _ IE).
  - pose proof (ei_mx _ _ _ _ IE). lia.
  - intros h m' Hin. unfold P' in Hin. apply in_map_iff in Hin. destruct Hin as ([h0 m0] & E & Hin). simpl in E. injection E as <- <-.
    destruct (ei_h _ _ _ _ IE h0 m0 Hin) as [L M]. split.
    + rewrite K'_label, (finv_K_new h0 (in_map fst _ _ Hin)). exact L.
    + rewrite c'_ids. apply in_map. exact M.
  - intros u v. rewrite K'_adj, c'_adj.
    destruct (finv f idsK u) as [a|] eqn:Fu.
    + destruct (finv f idsK v) as [b|] eqn:Fv.
      * pose proof (finv_some f idsK u a Fu) as [Eu Ha]. pose proof (finv_some f idsK v b Fv) as [Ev Hb]. subst u v.
        rewrite (padj_P' a b Ha Hb), (ei_adj _ _ _ _ IE). destruct (padj P a b) eqn:Pa; [reflexivity|].
        destruct (finv_K_cases _ _ Fu) as [[Ha1 ->]|(Ha1 & _ & ->)].
        -- destruct (finv_K_cases _ _ Fv) as [[Hb1 ->]|(Hb1 & _ & ->)]; [reflexivity|].
           apply (adj_g_notin c Wc). right. apply (h_above b Hb1).
        -- apply (adj_g_notin c Wc). left. apply (h_above a Ha1).
      * destruct (padj P' u v) eqn:Pa; [destruct (padj_P'_image u v Pa) as [_ H]; congruence|].
        destruct (finv f ids v) as [b|] eqn:F; [rewrite (finv_c_K v b F) in Fv; discriminate|]. destruct (finv f ids u); reflexivity.
    + destruct (padj P' u v) eqn:Pa; [destruct (padj_P'_image u v Pa) as [H _]; congruence|].
      destruct (finv f ids u) as [a|] eqn:F; [rewrite (finv_c_K u a F) in Fu; discriminate|]. reflexivity.
  - apply (relabel_gwf f idsK idsK_nd fK_inj K WK eq_refl m Hm).
Qed.

Lemma LE' k a' : label c' k = Some a' -> label K' k = Some (upd a').
Proof.
  rewrite c'_label, K'_label. destruct (finv f ids k) as [n|] eqn:F; [|discriminate]. rewrite (finv_c_K k n F). apply LE.
Qed.
Lemma HP' : P_ok c' P'.
Proof.
  pose proof len_le_max as LM. split; [rewrite fst_P'; exact (proj1 HP)|]. intros h m' Hin. unfold P' in Hin. apply in_map_iff in Hin.
  destruct Hin as ([h0 m0] & E & Hin). simpl in E. injection E as <- <-. rewrite c'_ids. split.
  - intros H. apply in_map_iff in H. destruct H as (n & E1 & Hn). pose proof (f_old n Hn). pose proof (proj1 (h_above h0 (in_map fst _ _ Hin))). lia.
  - apply in_map. apply (proj2 (proj2 HP h0 m0 Hin)).
Qed.
End RFull.

Theorem gml_roundtrip_reindex_eh_full_iok c : IOK c -> (forall n, In n (node_ids c) -> (1 <= n)%N) ->
  let E := normalize_edge_orders (h_to_explicit c None false) in
  let f := mapget (enum_from 1%N (node_ids c)) in
  let I' := gml_to_its (its_to_gml c false true true) in
  (forall a b, In a (node_ids E) -> In b (node_ids E) -> f a = f b -> a = b) /\
  (forall k, has_node I' k = true <-> exists n, In n (node_ids E) /\ k = f n) /\
  (forall n a, label E n = Some a ->
     label I' (f n) = Some (gml_node (f n) (tg_el (tG_of a)) (tg_ch (tG_of a)) (tg_ch (tH_of a)))) /\
  (forall u v, In u (node_ids E) -> In v (node_ids E) -> adj I' (f u) (f v) = adj E u v).
Proof.
  intros Hok Hpos. pose proof (iok_gwf c Hok) as W.
  assert (lab_ok c (copy c) []) as L0.
  { intros n _. rewrite label_copy. destruct (label c n); reflexivity. }
  assert (cnt_ok c [] []) as C0 by (intros n a _; reflexivity).
  destruct (hexp_fold_inv_any c W (node_ids c) (copy c) (max_id c) [] [] (EInv0 c W) L0 C0) as (P & IE & LE & _).
  cbv zeta in IE, LE.
  assert (h_to_explicit c None false = fst (fold_left hexp_step (node_ids c) (copy c, max_id c))) as EK by apply h_to_explicit_false.
  rewrite <- EK in IE, LE. set (K := h_to_explicit c None false) in *.
  assert (P_ok c P) as HP.
  { split; [exact (ei_nd _ _ _ _ IE)|]. intros h m Hin. split; [|apply (ei_h _ _ _ _ IE h m Hin)].
    intros Hh. apply (bounded_max_id c) in Hh. pose proof (ei_rng _ _ _ _ IE h (in_map fst _ _ Hin)) as R. simpl in R. lia. }
  assert (forall n a, label c n = Some a -> label K n = Some (upd a)) as LE1.
  { intros n a La. assert (In n (node_ids c)) as Hn by (apply has_node_in, has_node_label; eauto).
    rewrite (LE n Hn), La. simpl. rewrite mem_rev_nil.
    assert (mem n (node_ids c) = true) as -> by (apply mem_spec; exact Hn). reflexivity. }
  intros E f I'.
  pose proof (ei_wf _ _ _ _ IE) as WK. pose proof (gwf_nd K WK) as Knd.
  pose proof (fK_inj c Hok Hpos K _ P IE) as FI.
  pose proof (gml_pipeline_full (c' c) (RL_IOK c Hok) _ _ (RL_side c Hok false) (RL_side c Hok true)
                (K' c K) _ (P' c P) (IE' c Hok Hpos K _ P IE HP) (LE' c Hok Hpos K _ P IE LE1) (HP' c Hok Hpos K _ P IE HP)) as (Q1 & Q2 & Q3).
  cbv zeta in Q1, Q2, Q3.
  assert (I' = snd (gml_to_nx [(SLeft, side_entries (RL c (side_graph c false)) (find_changed (RL c (side_graph c false)) (RL c (side_graph c true))));
                               (SContext, context_entries (K' c K) (find_changed (RL c (side_graph c false)) (RL c (side_graph c true))) true);
                               (SRight, side_entries (RL c (side_graph c true)) (find_changed (RL c (side_graph c false)) (RL c (side_graph c true))))])) as EI.
  { unfold I', gml_to_its. rewrite its_to_gml_rec_reindex_eh by exact Hok. reflexivity. }
  rewrite <- EI in Q1, Q2, Q3.
  assert (forall k, label (normalize_edge_orders (K' c K)) k = match finv f (node_ids K) k with Some n => label K n | None => None end) as LK.
  { intros k. change (label (normalize_edge_orders (K' c K)) k) with (label (K' c K) k). apply (K'_label c Hok Hpos K _ P IE). }
  assert (forall u v, In u (node_ids K) -> In v (node_ids K) -> adj (normalize_edge_orders (K' c K)) (f u) (f v) = adj E u v) as AK.
  { intros u v Hu Hv. change (adj E u v) with (adj (emap norm_edge K) u v).
    change (normalize_edge_orders (K' c K)) with (emap norm_edge (K' c K)). rewrite !adj_emap, (K'_adj c Hok Hpos K _ P IE).
    fold f. rewrite (finv_f f (node_ids K) Knd FI u Hu), (finv_f f (node_ids K) Knd FI v Hv). reflexivity. }
  change (node_ids E) with (node_ids K).
  split; [exact FI|split; [|split]].
  - intros k. rewrite Q1. unfold has_node. rewrite LK. split.
    + destruct (finv f (node_ids K) k) as [n|] eqn:F; [|discriminate]. intros _. apply finv_some in F. exists n. tauto.
    + intros (n & Hn & ->). rewrite (finv_f f (node_ids K) Knd FI n Hn). apply has_node_in, has_node_label in Hn. destruct Hn as [a ->]. reflexivity.
  - intros n a La. apply Q2. rewrite LK. assert (In n (node_ids K)) as Hn by (apply has_node_in, has_node_label; exists a; exact La).
    rewrite (finv_f f (node_ids K) Knd FI n Hn). exact La.
  - intros u v Hu Hv. rewrite Q3. apply AK; assumption.
Qed.

Theorem gml_roundtrip_reindex_eh_full c : its_ok c = true -> forallb (fun n => (1 <=? n)%N) (node_ids c) = true ->
  let E := normalize_edge_orders (h_to_explicit c None false) in
  let f := mapget (enum_from 1%N (node_ids c)) in
  let I' := gml_to_its (its_to_gml c false true true) in
  (forall a b, In a (node_ids E) -> In b (node_ids E) -> f a = f b -> a = b) /\
  (forall k, has_node I' k = true <-> exists n, In n (node_ids E) /\ k = f n) /\
  (forall n a, label E n = Some a ->
     label I' (f n) = Some (gml_node (f n) (tg_el (tG_of a)) (tg_ch (tG_of a)) (tg_ch (tH_of a)))) /\
  (forall u v, In u (node_ids E) -> In v (node_ids E) -> adj I' (f u) (f v) = adj E u v).
Proof.
  intros H Hp. apply gml_roundtrip_reindex_eh_full_iok; [apply its_ok_IOK, H|].
  intros n Hn. rewrite forallb_forall in Hp. apply N.leb_le, Hp, Hn.
Qed.

(** non-vacuity: the full ITS of proof/C10_GmlEHFull.v with ids 10, 20: atoms become 1, 2, the four hydrogens keep 21..24;
    and what goes wrong with a node id 0 (outside the domain): the hydrogen id collides with a new id *)
Definition ex_full_h2 : gr :=
  LG [(10%N, ex_nd_h "C" 3 0 0); (20%N, ex_nd_h "O" 1 0 (-1))] [(10%N, 20%N, EA (Some (OP 2 4)) (Some (-2)))].
Example gml_roundtrip_reindex_eh_full_ex :
  its_ok ex_full_h2 = true /\ forallb (fun n => (1 <=? n)%N) (node_ids ex_full_h2) = true /\
  map fst (gnodes (gml_to_its (its_to_gml ex_full_h2 false true true))) = [1; 2; 21; 22; 23; 24]%N /\
  adj (gml_to_its (its_to_gml ex_full_h2 false true true)) 1%N 21%N = Some (EA (Some (OP 2 2)) (Some 0)) /\
  adj (gml_to_its (its_to_gml ex_full_h2 false true true)) 2%N 24%N = Some (EA (Some (OP 2 2)) (Some 0)).
Proof. vm_compute. repeat split. Qed.
Definition ex_full_h0 : gr :=
  LG [(0%N, ex_nd_h "C" 1 0 0); (1%N, ex_nd_h "O" 0 0 (-1))] [(0%N, 1%N, EA (Some (OP 2 4)) (Some (-2)))].
Example reindex_eh_id0_collides :
  its_ok ex_full_h0 = true /\ List.length (gnodes (gml_to_its (its_to_gml ex_full_h0 false true true))) = 2%nat /\
  List.length (gnodes (gml_to_its (its_to_gml ex_full_h0 false false true))) = 3%nat.
Proof. vm_compute. repeat split. Qed.

(** the hypothesis "ids >= 1" cannot be dropped: with 0-based ids the first new hydrogen id (max id + 1 = n) is also the new id
    of the last atom, relabel_nodes merges the two and the rule read back has fewer atoms than the ITS with explicit hydrogens
    (replayed on the implementation: corpus/regress/C10/reindex_eh_id0.json) *)
Theorem reindex_eh_needs_positive_ids :
  exists c : gr, its_ok c = true /\ forallb (fun n => (1 <=? n)%N) (node_ids c) = false /\
    List.length (gnodes (normalize_edge_orders (h_to_explicit c None false))) = 3%nat /\
    List.length (gnodes (gml_to_its (its_to_gml c false false true))) = 3%nat /\
    List.length (gnodes (gml_to_its (its_to_gml c false true true))) = 2%nat.
Proof. exists ex_full_h0. vm_compute. repeat split. Qed.
