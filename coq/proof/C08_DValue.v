(** C08 — directed inputs: the value wrappers on DiGraphs.  SynGraph compares the signature of the raw digraph,
    CanonicalGraph the signature of its canonical twin: with the exact back-end both are equal exactly for digraphs that
    are isomorphic as digraphs; with every back-end only for such digraphs.  Canonicalising a canonical digraph changes
    nothing.  Mirrors C08_Value.v. *)
From Coq Require Import List NArith ZArith Bool Arith Lia Permutation.
From SK Require Import lib.LGraph lib.StrJoin.
From SK Require Import model.C08_Model model.C08_Digraph proof.C08_Spec proof.C08_DSpec proof.C08_Sort proof.C08_Faithful proof.C08_Cov
                       proof.C08_SigFun proof.C08_Render proof.C08_Nauty proof.C08_Sound proof.C08_Invariant proof.C08_Value
                       proof.C08_DSer proof.C08_DNauty proof.C08_DEquiv proof.C08_DInvariant.
Import ListNotations.

(* ---------------- diso_cov is an equivalence on well-formed digraphs ---------------- *)
Lemma diso_cov_refl g : dwf g -> diso_cov g g.
Proof.
  intros Hg. exists (fun x => x). split; [intros x y _ _ E; exact E|].
  rewrite (drelabel_id_on (fun x => x) g Hg); auto. apply dgeq_cov_refl.
Qed.
Lemma diso_cov_sym g h : dwf g -> dwf h -> diso_cov g h -> diso_cov h g.
Proof.
  intros Hg Hh (f & Hf & Hq). apply (dcommon_form_iso h g (fun x => x) f); auto.
  - intros x y _ _ E. exact E.
  - rewrite (drelabel_id_on (fun x => x) h Hh); auto. apply dgeq_cov_sym. exact Hq.
Qed.
Lemma diso_cov_trans g h k : diso_cov g h -> diso_cov h k -> diso_cov g k.
Proof.
  intros (f & Hf & Hq) (f' & Hf' & Hq'). exists (fun x => f' (f x)). split.
  - intros x y Hx Hy E. apply Hf; auto. apply Hf'; auto.
    + apply (Permutation_in _ (dgeq_cov_ids _ _ Hq)). rewrite node_ids_relabel. apply in_map. exact Hx.
    + apply (Permutation_in _ (dgeq_cov_ids _ _ Hq)). rewrite node_ids_relabel. apply in_map. exact Hy.
  - rewrite <- (relabel_compose f f' g). eapply dgeq_cov_trans; [apply relabel_dgeq_cov; exact Hq|exact Hq'].
Qed.

(* ---------------- canonical digraphs are well formed ---------------- *)
Lemma dwf_relabel f (g : graph) : dwf g -> C08_Spec.inj_on f (node_ids g) -> dwf (relabel f g).
Proof.
  intros Hg Hi. pose proof (dsimple_relabel f g Hg Hi) as [S1 S2]. destruct Hg as (Hnd & Hend & Hu). split; [|split].
  - exact S1.
  - intros a b x I. unfold relabel in I. cbn [gedges] in I. apply in_map_iff in I. destruct I as ([[c d] y] & E & I).
    inversion E; subst. destruct (Hend _ _ _ I) as (Hc & Hd & Hne). rewrite node_ids_relabel.
    split; [apply in_map; auto|]. split; [apply in_map; auto|]. intro Q. apply Hne. apply Hi; auto.
  - rewrite <- dcov_fst. exact S2.
Qed.
Lemma dwf_same_edges (g k : graph) : dwf g -> Permutation (gnodes k) (gnodes g) -> gedges k = gedges g -> dwf k.
Proof.
  intros (Hnd & Hend & Hu) Hp He.
  assert (Hids : Permutation (node_ids k) (node_ids g)) by (apply Permutation_map; exact Hp).
  split; [|split].
  - eapply Permutation_NoDup; [apply Permutation_sym; exact Hids|exact Hnd].
  - intros a b x I. rewrite He in I. destruct (Hend _ _ _ I) as (A & B & C).
    split; [|split]; auto; apply (Permutation_in _ (Permutation_sym Hids)); auto.
  - rewrite He. exact Hu.
Qed.
Lemma dwf_faithful g cg : dwf g -> faithful g cg -> dwf cg.
Proof.
  intros Hg (f & Hf & Hp & He). apply (dwf_same_edges (relabel f g)); auto. apply dwf_relabel; auto.
Qed.
Lemma faithful_diso g cg : dwf g -> faithful g cg -> diso_cov g cg.
Proof.
  intros Hg Hf. destruct (faithful_dgeq_cov _ _ Hf) as (f & Hi & Hq). exists f. split; auto. apply dgeq_cov_sym. exact Hq.
Qed.

(* ---------------- idempotence ---------------- *)
Theorem dnauty_idempotent g : dwf g -> els_ok g ->
  dgeq_cov (dcanon_nauty g) (dcanon_nauty (dcanon_nauty g)) /\ dserialise (dcanon_nauty (dcanon_nauty g)) = dserialise (dcanon_nauty g).
Proof.
  intros Hg Eg. pose proof (faithful_dnauty g (proj1 Hg)) as Fg. pose proof (dwf_faithful _ _ Hg Fg) as Wg.
  destruct (dnauty_invariant g (dcanon_nauty g) Hg Wg Eg (faithful_diso _ _ Hg Fg)) as [H1 H2]. split; auto.
Qed.

Section DVO.
Variable D : Type.
Variable digest : str -> D.

(* CanonicalGraph of a DiGraph hashes the canonical twin once more *)
Theorem dcangraph_nauty g h : dwf g -> dwf h -> els_ok g -> els_ok h ->
  (digest (dser_nauty (dcanon_nauty g)) = digest (dser_nauty (dcanon_nauty h)) -> dser_nauty (dcanon_nauty g) = dser_nauty (dcanon_nauty h)) ->
  (digest (dser_nauty (dcanon_nauty g)) = digest (dser_nauty (dcanon_nauty h)) <-> diso_cov g h).
Proof.
  intros Hg Hh Eg Eh Hd.
  pose proof (faithful_dnauty g (proj1 Hg)) as Fg. pose proof (faithful_dnauty h (proj1 Hh)) as Fh.
  pose proof (dwf_faithful _ _ Hg Fg) as Wg. pose proof (dwf_faithful _ _ Hh Fh) as Wh.
  pose proof (faithful_els_ok _ _ Fg Eg) as Kg. pose proof (faithful_els_ok _ _ Fh Eh) as Kh.
  rewrite (dsignature_exact_nauty D digest (dcanon_nauty g) (dcanon_nauty h) Wg Wh Kg Kh Hd). split; intros Hi.
  - eapply diso_cov_trans; [apply faithful_diso; eauto|]. eapply diso_cov_trans; [exact Hi|].
    apply diso_cov_sym; auto. apply faithful_diso; auto.
  - eapply diso_cov_trans; [apply diso_cov_sym; [exact Hg|exact Wg|apply faithful_diso; eauto]|].
    eapply diso_cov_trans; [exact Hi|]. apply faithful_diso; auto.
Qed.
End DVO.

(* ---------------- the digest-free verdicts the correspondence evaluates on digraph cases ([drun_vo]) ---------------- *)
Theorem dvo_model_verdicts g h : dwf g -> dwf h -> els_ok g -> els_ok h ->
  (syngraph_eqb dser_nauty g h = true <-> diso_cov g h) /\
  (cangraph_eqb dcanon_nauty dser_nauty g h = true <-> diso_cov g h) /\
  (syngraph_eqb dser_generic g h = true -> diso_cov g h) /\
  (cangraph_eqb canon_generic dser_generic g h = true -> diso_cov g h).
Proof.
  intros Hg Hh Eg Eh. split; [|split; [|split]].
  - unfold syngraph_eqb. rewrite str_eqb_spec. apply (dsignature_exact_nauty str (fun s => s) g h); auto.
  - unfold cangraph_eqb. rewrite str_eqb_spec. apply (dcangraph_nauty str (fun s => s) g h); auto.
  - unfold syngraph_eqb. rewrite str_eqb_spec. intros E.
    apply (dsignature_sound_generic str (fun s => s) g h); auto.
  - unfold cangraph_eqb. rewrite str_eqb_spec. intros E.
    pose proof (faithful_generic g (proj1 Hg)) as Fg. pose proof (faithful_generic h (proj1 Hh)) as Fh.
    pose proof (dwf_faithful _ _ Hg Fg) as Wg. pose proof (dwf_faithful _ _ Hh Fh) as Wh.
    pose proof (faithful_els_ok _ _ Fg Eg) as Kg. pose proof (faithful_els_ok _ _ Fh Eh) as Kh.
    pose proof (dsignature_sound_generic str (fun s => s) (canon_generic g) (canon_generic h) Wg Wh Kg Kh (fun e => e) E) as Hi.
    eapply diso_cov_trans; [apply faithful_diso; eauto|]. eapply diso_cov_trans; [exact Hi|].
    apply diso_cov_sym; auto. apply faithful_diso; auto.
Qed.

(* non-vacuity: the witness pair of repair R5b compares equal, the transposed digraph does not *)
Example dvo_ex : syngraph_eqb dser_nauty dn_g dn_h = true /\ cangraph_eqb dcanon_nauty dser_nauty dn_g dn_h = true
                 /\ syngraph_eqb dser_nauty dn_g dn_t = false /\ syngraph_eqb dser_generic dn_g dn_t = false.
Proof. repeat split; vm_compute; reflexivity. Qed.

Print Assumptions dnauty_idempotent.
Print Assumptions dcangraph_nauty.
Print Assumptions dvo_model_verdicts.
