(** C01 — proofs about model/C01_Opts.v: ITSConstruction.construct for every value of ignore_aromaticity,
    balance_its, store, attributes_defaults; its_decompose on both kinds of ITS. *)
From Coq Require Import List NArith ZArith Bool Lia.
From SK Require Import lib.LGraph lib.C01_GraphLemmas model.C01_Model model.C01_Opts proof.C01_Proof.
Import ListNotations.
Local Open Scope Z_scope.

(** * the default instance is the model of C01_Model.v *)
Lemma side_tuple_default G n : side_tuple_o default_opts G n = side_tuple G n.
Proof. unfold side_tuple_o, side_tuple. destruct (label G n); reflexivity. Qed.

Lemma std_of_false a b : std_of false a b = a - b.
Proof. reflexivity. Qed.

Lemma construct_default G H : its_construct_o default_opts G H = its_construct G H.
Proof. reflexivity. Qed.

Section Gen.
Variable A : Type.
Variable mk : N -> Z -> A.
Variable o : copts.

(** * the edge list *)
Definition its_edges_o (G H : mgraph) : list (N * N * iedge) :=
  map (fun e => let '(u, v, x) := e in (u, v, mk_iedge_o o x (order_in H u v))) (gedges G)
  ++ map (fun e => let '(u, v, x) := e in (u, v, mk_iedge_o o 0 x)) (filter (absent_in G) (gedges H)).

Lemma gedges_gen G H : gedges (its_construct_gen mk o G H) = its_edges_o G H.
Proof. reflexivity. Qed.

Lemma in_its_edges_o G H a b e :
  In (a, b, e) (its_edges_o G H) <->
  (exists x, In (a, b, x) (gedges G) /\ e = mk_iedge_o o x (order_in H a b)) \/
  (exists x, In (a, b, x) (gedges H) /\ adj G a b = None /\ e = mk_iedge_o o 0 x).
Proof.
  unfold its_edges_o. rewrite in_app_iff, !in_map_iff. split.
  - intros [([[u v] x] & E & I)|([[u v] x] & E & I)]; inversion E; subst.
    + left. eauto.
    + right. apply filter_In in I. destruct I as [I Ab]. simpl in Ab.
      destruct (adj G a b) eqn:Ad; [discriminate|]. eauto.
  - intros [(x & I & ->)|(x & I & Ad & ->)].
    + left. exists (a, b, x). auto.
    + right. exists (a, b, x). split; [reflexivity|]. apply filter_In. split; [exact I|].
      simpl. rewrite Ad. reflexivity.
Qed.

Lemma its_edges_o_determined G H : wf G -> wf H -> forall a b e, In (a, b, e) (its_edges_o G H) ->
  e = mk_iedge_o o (order_in G a b) (order_in H a b) /\ (adj G a b <> None \/ adj H a b <> None).
Proof.
  intros WG WH a b e I. apply in_its_edges_o in I. destruct I as [(x & I & ->)|(x & I & Ad & ->)].
  - pose proof (wf_in_adj WG I) as Ad. rewrite (order_in_some Ad). split; [reflexivity|]. left. congruence.
  - pose proof (wf_in_adj WH I) as Ah. rewrite (order_in_some Ah), (order_in_none Ad).
    split; [reflexivity|]. right. congruence.
Qed.

Lemma its_edges_o_consistent G H : wf G -> wf H -> consistent (its_edges_o G H).
Proof.
  intros WG WH a b x y Hx Hy.
  assert (forall z, In (a, b, z) (its_edges_o G H) \/ In (b, a, z) (its_edges_o G H) ->
                    z = mk_iedge_o o (order_in G a b) (order_in H a b)) as D.
  { intros z [I|I]; apply (its_edges_o_determined G H WG WH) in I; destruct I as [-> _]; [reflexivity|].
    rewrite (order_in_sym G b a), (order_in_sym H b a). reflexivity. }
  rewrite (D x Hx), (D y Hy). reflexivity.
Qed.

Lemma its_edges_o_exists G H u v : wf G -> wf H -> adj G u v <> None \/ adj H u v <> None ->
  exists e, In (u, v, e) (its_edges_o G H) \/ In (v, u, e) (its_edges_o G H).
Proof.
  intros WG WH Hex. destruct (adj G u v) as [x|] eqn:Ag.
  - apply (wf_adj_iff WG) in Ag. destruct Ag as [I|I].
    + exists (mk_iedge_o o x (order_in H u v)). left. apply in_its_edges_o. left. eauto.
    + exists (mk_iedge_o o x (order_in H v u)). right. apply in_its_edges_o. left. eauto.
  - destruct Hex as [F|Hh]; [congruence|]. destruct (adj H u v) as [x|] eqn:Ah; [|congruence].
    apply (wf_adj_iff WH) in Ah. exists (mk_iedge_o o 0 x). destruct Ah as [I|I].
    + left. apply in_its_edges_o. right. eauto.
    + right. apply in_its_edges_o. right. exists x. rewrite adj_sym. auto.
Qed.

Lemma gen_adj G H u v : wf G -> wf H ->
  adj (its_construct_gen mk o G H) u v =
  match adj G u v, adj H u v with
  | None, None => None
  | _, _ => Some (mk_iedge_o o (order_in G u v) (order_in H u v))
  end.
Proof.
  intros WG WH. unfold adj at 1. rewrite gedges_gen. apply option_ext. intros x.
  rewrite (find_edge_iff (its_edges_o_consistent G H WG WH)). split.
  - intros I.
    assert (x = mk_iedge_o o (order_in G u v) (order_in H u v) /\ (adj G u v <> None \/ adj H u v <> None)) as [-> Hex].
    { destruct I as [I|I]; apply (its_edges_o_determined G H WG WH) in I; [exact I|].
      rewrite (order_in_sym G u v), (order_in_sym H u v), (adj_sym G u v), (adj_sym H u v). exact I. }
    destruct (adj G u v), (adj H u v); try reflexivity. destruct Hex; congruence.
  - intros E.
    assert (adj G u v <> None \/ adj H u v <> None) as Hex.
    { destruct (adj G u v), (adj H u v); try discriminate; [left|left|right]; discriminate. }
    assert (x = mk_iedge_o o (order_in G u v) (order_in H u v)) as ->.
    { destruct (adj G u v), (adj H u v); congruence. }
    destruct (its_edges_o_exists G H u v WG WH Hex) as (e & I).
    assert (e = mk_iedge_o o (order_in G u v) (order_in H u v)) as <-; [|exact I].
    destruct I as [I|I]; apply (its_edges_o_determined G H WG WH) in I; destruct I as [-> _]; [reflexivity|].
    rewrite (order_in_sym G v u), (order_in_sym H v u). reflexivity.
Qed.

(** * the node list *)
Definition base_o (G H : mgraph) := if base_is_G_o o G H then G else H.
Definition other_o (G H : mgraph) := if base_is_G_o o G H then H else G.

Lemma gen_label G H n :
  label (its_construct_gen mk o G H) n =
  match label (base_o G H) n with
  | Some a => Some (mk n (g_amap a))
  | None => match label (other_o G H) n with
            | Some a => Some (mk n (g_amap a))
            | None => None
            end
  end.
Proof.
  unfold label at 1, its_construct_gen. simpl. fold (base_o G H). fold (other_o G H).
  rewrite (assoc_map_val (fun k (v : gnode) => mk k (g_amap v))), assoc_app.
  fold (label (base_o G H) n). destruct (label (base_o G H) n) as [a|] eqn:Lb; simpl; [reflexivity|].
  rewrite (assoc_filter (fun k => negb (has_node (base_o G H) k))).
  unfold has_node. rewrite Lb. simpl. fold (label (other_o G H) n).
  destruct (label (other_o G H) n); reflexivity.
Qed.

Lemma base_other_cases G H : (base_o G H = G /\ other_o G H = H) \/ (base_o G H = H /\ other_o G H = G).
Proof. unfold base_o, other_o. destruct (base_is_G_o o G H); auto. Qed.

Lemma gen_node_ids G H n :
  In n (node_ids (its_construct_gen mk o G H)) <-> In n (node_ids G) \/ In n (node_ids H).
Proof.
  assert (In n (node_ids (its_construct_gen mk o G H)) <-> In n (node_ids (base_o G H)) \/ In n (node_ids (other_o G H))) as E.
  { split.
    - intros I. apply node_label_some in I. destruct I as (a & L). rewrite gen_label in L.
      destruct (label (base_o G H) n) eqn:Lb; [left; eapply label_some_node; eauto|].
      destruct (label (other_o G H) n) eqn:Lo; [right; eapply label_some_node; eauto|discriminate].
    - intros I.
      assert (label (its_construct_gen mk o G H) n <> None) as L.
      { rewrite gen_label. destruct I as [I|I]; apply node_label_some in I; destruct I as (a & L).
        - rewrite L. discriminate.
        - destruct (label (base_o G H) n); [discriminate|]. rewrite L. discriminate. }
      destruct (label (its_construct_gen mk o G H) n) eqn:L'; [eapply label_some_node; eauto|congruence]. }
  rewrite E. destruct (base_other_cases G H) as [[-> ->]|[-> ->]]; tauto.
Qed.

(** every node of the ITS is [mk n amap] where amap is the atom_map of the base graph's node, or of the
    other graph's node when the base has no such node *)
Lemma gen_label_mk G H n a : label (its_construct_gen mk o G H) n = Some a ->
  exists m, a = mk n m /\
    ((exists b, label (base_o G H) n = Some b /\ m = g_amap b) \/
     (label (base_o G H) n = None /\ exists b, label (other_o G H) n = Some b /\ m = g_amap b)).
Proof.
  rewrite gen_label. intros L.
  destruct (label (base_o G H) n) as [b|] eqn:Lb.
  - inversion L. exists (g_amap b). split; [reflexivity|]. left. eauto.
  - destruct (label (other_o G H) n) as [b|] eqn:Lo; [|discriminate].
    inversion L. exists (g_amap b). split; [reflexivity|]. right. eauto.
Qed.

Lemma gen_nodup G H : wf G -> wf H -> NoDup (node_ids (its_construct_gen mk o G H)).
Proof.
  intros WG WH. unfold node_ids, its_construct_gen. simpl. fold (base_o G H). fold (other_o G H).
  rewrite (map_fst_map_val (fun k (v : gnode) => mk k (g_amap v))), map_app.
  assert (NoDup (node_ids (base_o G H)) /\ NoDup (node_ids (other_o G H))) as [Nb No].
  { destruct (base_other_cases G H) as [[-> ->]|[-> ->]]; split; first [apply WG|apply WH]. }
  apply NoDup_app_intro.
  - exact Nb.
  - apply NoDup_map_fst_filter. exact No.
  - intros x Ix F. apply in_map_iff in F. destruct F as ([k a] & E & F). simpl in E. subst.
    apply filter_In in F. destruct F as [_ F]. simpl in F.
    apply has_node_spec in Ix. rewrite Ix in F. discriminate.
Qed.

Lemma its_edges_o_simple G H : wf G -> wf H -> simple (its_edges_o G H).
Proof.
  intros WG WH. unfold its_edges_o. apply simple_app.
  - apply (simple_map_attr (fun u v (x : Z) => mk_iedge_o o x (order_in H u v))). apply wf_simple. exact WG.
  - apply (simple_map_attr (fun _ _ (x : Z) => mk_iedge_o o 0 x)). apply simple_filter. apply wf_simple. exact WH.
  - intros a b x I. apply in_map_iff in I. destruct I as ([[u v] y] & E & I). inversion E; subst.
    apply find_edge_none. intros z. split; intros F; apply in_map_iff in F;
      destruct F as ([[u' v'] y'] & E' & F); inversion E'; subst; apply filter_In in F; destruct F as [_ F]; simpl in F.
    + rewrite (wf_in_adj WG I) in F. discriminate.
    + rewrite adj_sym, (wf_in_adj WG I) in F. discriminate.
Qed.

Lemma gen_wf G H : wf G -> wf H -> wf (its_construct_gen mk o G H).
Proof.
  intros WG WH. apply wf_intro.
  - apply gen_nodup; assumption.
  - intros a b x I. rewrite gedges_gen in I. rewrite !gen_node_ids. apply in_its_edges_o in I.
    destruct I as [(y & I & _)|(y & I & _ & _)].
    + destruct (wf_edge_nodes WG I) as (Ha & Hb & Hab). tauto.
    + destruct (wf_edge_nodes WH I) as (Ha & Hb & Hab). tauto.
  - rewrite gedges_gen. apply its_edges_o_simple; assumption.
Qed.

Lemma gen_std G H : std_consistent_o (o_ia o) (its_construct_gen mk o G H).
Proof.
  intros u v x I. rewrite gedges_gen in I. apply in_its_edges_o in I.
  destruct I as [(y & _ & ->)|(y & _ & _ & ->)]; reflexivity.
Qed.

(** * decompose, generic in the node record *)
Variable sG sH : A -> nattr.

Lemma decg_label sn se (I : lgraph A iedge) n :
  label (dec_side_gen sn se I) n = option_map (fun a => dec_node (sn a) n) (label I n).
Proof.
  unfold label, dec_side_gen. simpl. apply (assoc_map_val (fun k (a : A) => dec_node (sn a) k)).
Qed.

Lemma in_decg_edges sn se (I : lgraph A iedge) a b x :
  In (a, b, x) (gedges (dec_side_gen sn se I)) <-> exists y, In (a, b, y) (gedges I) /\ 0 < se y /\ x = se y.
Proof.
  unfold dec_side_gen. simpl. rewrite in_flat_map. split.
  - intros ([[u v] y] & I1 & I2). destruct (0 <? se y) eqn:P; [|destruct I2].
    destruct I2 as [E|[]]. inversion E; subst. apply Z.ltb_lt in P. eauto.
  - intros (y & I1 & P & ->). exists (a, b, y). split; [exact I1|]. apply Z.ltb_lt in P. rewrite P. left. reflexivity.
Qed.

Lemma decg_adj sn se (I : lgraph A iedge) u v : consistent (gedges I) ->
  adj (dec_side_gen sn se I) u v =
  match adj I u v with Some x => if 0 <? se x then Some (se x) else None | None => None end.
Proof.
  intros Hc.
  assert (consistent (gedges (dec_side_gen sn se I))) as Hd.
  { intros a b x y Hx Hy.
    assert (forall z, In (a, b, z) (gedges (dec_side_gen sn se I)) \/ In (b, a, z) (gedges (dec_side_gen sn se I)) ->
                      exists w, (In (a, b, w) (gedges I) \/ In (b, a, w) (gedges I)) /\ z = se w) as D.
    { intros z [F|F]; apply in_decg_edges in F; destruct F as (w & F & _ & ->); eauto. }
    destruct (D x Hx) as (w1 & I1 & ->), (D y Hy) as (w2 & I2 & ->). f_equal. eapply Hc; eauto. }
  apply option_ext. intros x. unfold adj at 1. rewrite (find_edge_iff Hd), !in_decg_edges. split.
  - intros [(y & I1 & P & ->)|(y & I1 & P & ->)].
    + assert (adj I u v = Some y) as -> by (apply (find_edge_iff Hc); auto).
      apply Z.ltb_lt in P. rewrite P. reflexivity.
    + assert (adj I u v = Some y) as -> by (apply (find_edge_iff Hc); auto).
      apply Z.ltb_lt in P. rewrite P. reflexivity.
  - destruct (adj I u v) as [y|] eqn:Ad; [|discriminate].
    destruct (0 <? se y) eqn:P; [|discriminate]. intros [= <-]. apply Z.ltb_lt in P.
    apply (find_edge_iff Hc) in Ad. destruct Ad as [Ad|Ad]; [left|right]; eauto.
Qed.

Lemma decg_amap_id sn se (I : lgraph A iedge) : amap_id (dec_side_gen sn se I).
Proof.
  intros n a L. rewrite decg_label in L. destruct (label I n); inversion L. reflexivity.
Qed.

(** * round trip, for every node record whose typesGH halves are the two side tuples *)
Lemma gen_roundtrip_adj G H : wf G -> wf H -> orders_pos G -> orders_pos H ->
  forall u v,
    adj (dec_side_gen sG e_G (its_construct_gen mk o G H)) u v = adj G u v /\
    adj (dec_side_gen sH e_H (its_construct_gen mk o G H)) u v = adj H u v.
Proof.
  intros WG WH PG PH u v.
  assert (consistent (gedges (its_construct_gen mk o G H))) as Hc by (rewrite gedges_gen; apply its_edges_o_consistent; assumption).
  rewrite !(decg_adj _ _ _ _ _ Hc), (gen_adj G H u v WG WH).
  destruct (adj G u v) as [og|] eqn:Ag, (adj H u v) as [oh|] eqn:Ah; simpl;
    rewrite ?(order_in_some Ag), ?(order_in_some Ah), ?(order_in_none Ag), ?(order_in_none Ah);
    try (pose proof (orders_pos_adj _ _ _ _ PG Ag) as P1; apply Z.ltb_lt in P1; rewrite P1);
    try (pose proof (orders_pos_adj _ _ _ _ PH Ah) as P2; apply Z.ltb_lt in P2; rewrite P2);
    auto.
Qed.

Lemma gen_roundtrip_labels G H :
  (forall n m, sG (mk n m) = side_tuple_o o G n /\ sH (mk n m) = side_tuple_o o H n) ->
  wf G -> wf H -> same_nodes G H ->
  forall n,
    option_map sel4 (label (dec_side_gen sG e_G (its_construct_gen mk o G H)) n) = option_map sel4 (label G n) /\
    option_map sel4 (label (dec_side_gen sH e_H (its_construct_gen mk o G H)) n) = option_map sel4 (label H n).
Proof.
  intros Hmk WG WH S n. rewrite !decg_label.
  destruct (label (its_construct_gen mk o G H) n) as [a|] eqn:L.
  - destruct (gen_label_mk G H n a L) as (m & -> & _). simpl.
    destruct (Hmk n m) as [-> ->].
    assert (In n (node_ids G)) as IG.
    { apply label_some_node in L. apply gen_node_ids in L. destruct L as [L|L]; [exact L|apply S; exact L]. }
    pose proof (proj1 (S n) IG) as IH. apply node_label_some in IG, IH.
    destruct IG as (ag & LG), IH as (ah & LH). unfold side_tuple_o. rewrite LG, LH. split; reflexivity.
  - assert (label G n = None) as LG.
    { destruct (label G n) eqn:LG; [|reflexivity]. exfalso.
      assert (In n (node_ids (its_construct_gen mk o G H))) as I by (apply gen_node_ids; left; eapply label_some_node; eauto).
      apply node_label_some in I. destruct I. congruence. }
    rewrite LG, (same_nodes_label_none _ _ _ S LG). split; reflexivity.
Qed.

End Gen.

(** * specialisations *)
Lemma dec_side_is_gen sn se (I : its) : dec_side sn se I = dec_side_gen sn se I.
Proof. reflexivity. Qed.

(** C01_roundtrip_opts: the round trip holds for EVERY option value and both store modes *)
Theorem roundtrip_opts (o : copts) G H : wf G -> wf H -> same_nodes G H -> orders_pos G -> orders_pos H ->
  let D := its_decompose (its_construct_o o G H) in
  let DS := its_decompose_S (its_construct_S o G H) in
  (geq_sel (fst D) G /\ amap_id (fst D) /\ geq_sel (snd D) H /\ amap_id (snd D)) /\
  (geq_sel (fst DS) G /\ amap_id (fst DS) /\ geq_sel (snd DS) H /\ amap_id (snd DS)).
Proof.
  intros WG WH S PG PH D DS. subst D DS. unfold its_decompose, its_decompose_S, its_construct_o, its_construct_S.
  cbn [fst snd]. rewrite !dec_side_is_gen. unfold geq_sel. split.
  - assert (forall n m, i_G (its_node_o o G H n m) = side_tuple_o o G n /\ i_H (its_node_o o G H n m) = side_tuple_o o H n) as Hmk
      by (intros; split; reflexivity).
    repeat split; try apply decg_amap_id.
    + intros n. apply (gen_roundtrip_labels _ _ _ _ _ G H Hmk WG WH S).
    + intros u v. apply (gen_roundtrip_adj _ (its_node_o o G H) o i_G i_H G H WG WH PG PH).
    + intros n. apply (gen_roundtrip_labels _ _ _ _ _ G H Hmk WG WH S).
    + intros u v. apply (gen_roundtrip_adj _ (its_node_o o G H) o i_G i_H G H WG WH PG PH).
  - assert (forall n m, s_G (its_node_S o G H n m) = side_tuple_o o G n /\ s_H (its_node_S o G H n m) = side_tuple_o o H n) as Hmk
      by (intros; split; reflexivity).
    repeat split; try apply decg_amap_id.
    + intros n. apply (gen_roundtrip_labels _ _ _ _ _ G H Hmk WG WH S).
    + intros u v. apply (gen_roundtrip_adj _ (its_node_S o G H) o s_G s_H G H WG WH PG PH).
    + intros n. apply (gen_roundtrip_labels _ _ _ _ _ G H Hmk WG WH S).
    + intros u v. apply (gen_roundtrip_adj _ (its_node_S o G H) o s_G s_H G H WG WH PG PH).
Qed.

(** * C01_union_opts *)
Lemma std_of_zero_iff ia a b : std_of ia a b = 0 <-> a = b \/ (ia = true /\ Z.abs (a - b) < 2).
Proof.
  unfold std_of. destruct ia; simpl.
  - destruct (Z.abs (a - b) <? 2) eqn:E.
    + apply Z.ltb_lt in E. split; [intros _; right; split; [reflexivity|exact E]|reflexivity].
    + apply Z.ltb_ge in E. split; [intros D; left; lia|intros [->|[_ F]]; lia].
  - split; [intros D; left; lia|intros [->|[F _]]; [lia|discriminate]].
Qed.

Theorem union_opts (o : copts) G H : wf G -> wf H ->
  let I := its_construct_o o G H in
  let J := its_construct_S o G H in
  let base := if base_is_G_o o G H then G else H in
  let other := if base_is_G_o o G H then H else G in
  (forall n, (In n (node_ids I) <-> In n (node_ids G) \/ In n (node_ids H)) /\
             (In n (node_ids J) <-> In n (node_ids G) \/ In n (node_ids H))) /\
  (forall n a, label I n = Some a ->
     i_G a = side_tuple_o o G n /\ i_H a = side_tuple_o o H n /\
     i_el a = a_el (i_G a) /\ i_ch a = a_ch (i_G a) /\
     i_extra a = Some (a_arom (i_G a), a_hc (i_G a), a_nb (i_G a)) /\
     ((exists b, label base n = Some b /\ i_amap a = g_amap b) \/
      (label base n = None /\ exists b, label other n = Some b /\ i_amap a = g_amap b))) /\
  (forall n a, label J n = Some a ->
     s_G a = side_tuple_o o G n /\ s_H a = side_tuple_o o H n /\
     s_el a = (a_el (s_G a), a_el (s_H a)) /\ s_arom a = (a_arom (s_G a), a_arom (s_H a)) /\
     s_hc a = (a_hc (s_G a), a_hc (s_H a)) /\ s_ch a = (a_ch (s_G a), a_ch (s_H a)) /\
     s_nb a = (a_nb (s_G a), a_nb (s_H a)) /\
     ((exists b, label base n = Some b /\ s_amap a = g_amap b) \/
      (label base n = None /\ exists b, label other n = Some b /\ s_amap a = g_amap b))) /\
  (forall u v a b s, (adj I u v = Some (IE a b s) <->
      a = order_in G u v /\ b = order_in H u v /\ (adj G u v <> None \/ adj H u v <> None) /\ s = std_of (o_ia o) a b)) /\
  (forall u v, adj J u v = adj I u v) /\
  std_consistent_o (o_ia o) I /\ std_consistent_o (o_ia o) J /\ wf I /\ wf J.
Proof.
  intros WG WH I J base other. subst I J base other. unfold its_construct_o, its_construct_S.
  split; [|split; [|split; [|split; [|split; [|split; [|split; [|split]]]]]]].
  - intros n. split; apply gen_node_ids.
  - intros n a L. destruct (gen_label_mk _ _ o G H n a L) as (m & -> & Hm). cbn.
    repeat (split; [reflexivity|]). exact Hm.
  - intros n a L. destruct (gen_label_mk _ _ o G H n a L) as (m & -> & Hm). cbn.
    repeat (split; [reflexivity|]). exact Hm.
  - intros u v a b s. rewrite (gen_adj _ _ o G H u v WG WH). split.
    + intros E.
      assert (IE a b s = mk_iedge_o o (order_in G u v) (order_in H u v) /\ (adj G u v <> None \/ adj H u v <> None)) as [E' Hex].
      { destruct (adj G u v), (adj H u v); inversion E; (split; [reflexivity|]); [left|left|right]; discriminate. }
      inversion E'; subst. auto.
    + intros (-> & -> & Hex & ->).
      destruct (adj G u v), (adj H u v); try reflexivity. destruct Hex; congruence.
  - intros u v. rewrite !(gen_adj _ _ o G H u v WG WH). reflexivity.
  - apply gen_std.
  - apply gen_std.
  - apply gen_wf; assumption.
  - apply gen_wf; assumption.
Qed.

(** what ignore_aromaticity does to C02's hypothesis: for ia = false the ITS is std_consistent; for ia = true
    standard_order is zero exactly on the bonds whose orders differ by less than one unit *)
Theorem std_opts (o : copts) G H :
  (o_ia o = false -> std_consistent (its_construct_o o G H)) /\
  (forall u v x, In (u, v, x) (gedges (its_construct_o o G H)) ->
     (e_std x = 0 <-> e_G x = e_H x \/ (o_ia o = true /\ Z.abs (e_G x - e_H x) < 2)) /\
     (e_std x <> 0 -> e_std x = e_G x - e_H x)).
Proof.
  split.
  - intros E u v x I. rewrite (gen_std _ (its_node_o o G H) o G H u v x I), E. reflexivity.
  - intros u v x I. rewrite (gen_std _ (its_node_o o G H) o G H u v x I). split; [apply std_of_zero_iff|].
    unfold std_of. destruct (o_ia o && (Z.abs (e_G x - e_H x) <? 2)); [intros F; contradiction F|]; reflexivity.
Qed.

(** with ignore_aromaticity the ITS is NOT std_consistent: aromatic bond (1.5) becoming a single bond *)
Definition ia_G : mgraph := LG [(1%N, GN 70%N true 1 0 None 1); (2%N, GN 70%N true 1 0 None 2)] [(1%N, 2%N, 3)].
Definition ia_H : mgraph := LG [(1%N, GN 70%N false 2 0 None 1); (2%N, GN 70%N false 2 0 None 2)] [(1%N, 2%N, 2)].
Definition ia_opts : copts := CO true false dflt_nattr.

Theorem ia_not_std_consistent :
  exists G H : mgraph, wf G /\ wf H /\ same_nodes G H /\ orders_pos G /\ orders_pos H /\
    ~ std_consistent (its_construct_o (CO true false dflt_nattr) G H) /\
    adj (its_construct_o (CO true false dflt_nattr) G H) 1%N 2%N = Some (IE 3 2 0).
Proof.
  exists ia_G, ia_H.
  assert (forall g : mgraph, gnodes g = gnodes ia_G \/ gnodes g = gnodes ia_H ->
          (exists x, gedges g = [(1%N, 2%N, x)]) -> wf g) as W.
  { intros g Hn (x & He). apply wf_intro.
    - unfold node_ids. destruct Hn as [-> | ->]; simpl; repeat constructor; simpl; intuition discriminate.
    - rewrite He. intros a b y [E|[]]. inversion E; subst. unfold node_ids.
      destruct Hn as [-> | ->]; simpl; intuition discriminate.
    - rewrite He. repeat constructor. }
  split; [apply W; [left; reflexivity|eexists; reflexivity]|].
  split; [apply W; [right; reflexivity|eexists; reflexivity]|].
  split; [intros n; reflexivity|].
  split; [intros u v x [E|[]]; inversion E; lia|].
  split; [intros u v x [E|[]]; inversion E; lia|].
  split; [|reflexivity].
  intros S. specialize (S 1%N 2%N (IE 3 2 0)). simpl in S. assert (0 = 3 - 2) as F by (apply S; left; reflexivity). discriminate.
Qed.

(** * C01_equivariant_opts *)
Section EquivariantO.
Variable f : N -> N.
Hypothesis Hinj : forall a b, f a = f b -> a = b.
Variable o : copts.

Lemma side_tuple_o_relabel (G : mgraph) n : side_tuple_o o (relabel f G) (f n) = side_tuple_o o G n.
Proof. unfold side_tuple_o. rewrite (label_relabel Hinj). reflexivity. Qed.

Lemma base_is_G_o_relabel (G H : mgraph) : base_is_G_o o (relabel f G) (relabel f H) = base_is_G_o o G H.
Proof. unfold base_is_G_o, relabel. simpl. rewrite !map_length. reflexivity. Qed.

Lemma its_edges_o_equivariant G H :
  its_edges_o o (relabel f G) (relabel f H) = map (fun e => let '(a, b, x) := e in (f a, f b, x)) (its_edges_o o G H).
Proof.
  unfold its_edges_o. rewrite map_app, !(gedges_relabel f). f_equal.
  - rewrite !map_map. apply map_ext. intros [[u v] x]. rewrite (order_in_relabel f Hinj). reflexivity.
  - rewrite (filter_map_comm (fun e : N * N * Z => let '(a, b, x) := e in (f a, f b, x)) (absent_in G)).
    + rewrite !map_map. apply map_ext. intros [[u v] x]. reflexivity.
    + intros [[u v] x]. simpl. rewrite (adj_relabel Hinj). reflexivity.
Qed.

Lemma gen_equivariant {A} (mk mk' : N -> Z -> A) G H :
  (forall n m, mk' (f n) m = mk n m) ->
  its_construct_gen mk' o (relabel f G) (relabel f H) = relabel f (its_construct_gen mk o G H).
Proof.
  intros Hmk. apply lg_eq.
  - rewrite (gnodes_relabel f). unfold its_construct_gen. cbn [gnodes]. rewrite base_is_G_o_relabel.
    assert (forall base other : mgraph,
      map (fun p => (fst p, mk' (fst p) (g_amap (snd p))))
          (gnodes (relabel f base) ++ filter (fun p => negb (has_node (relabel f base) (fst p))) (gnodes (relabel f other))) =
      map (fun p => (f (fst p), snd p))
          (map (fun p => (fst p, mk (fst p) (g_amap (snd p))))
               (gnodes base ++ filter (fun p => negb (has_node base (fst p))) (gnodes other)))) as E.
    { intros base other. rewrite !(gnodes_relabel f).
      rewrite (filter_map_comm (fun p : N * gnode => (f (fst p), snd p)) (fun p => negb (has_node base (fst p)))).
      - rewrite <- map_app, !map_map. apply map_ext. intros [k a]. cbn [fst snd]. rewrite Hmk. reflexivity.
      - intros [k a]. cbn [fst snd]. rewrite (has_node_relabel Hinj). reflexivity. }
    destruct (base_is_G_o o G H); apply E.
  - rewrite (gedges_relabel f). apply its_edges_o_equivariant.
Qed.

Lemma decg_side_equivariant {A} (sn : A -> nattr) se (I : lgraph A iedge) :
  dec_side_gen sn se (relabel f I) = set_amap (relabel f (dec_side_gen sn se I)).
Proof.
  unfold dec_side_gen, set_amap, relabel. simpl. f_equal.
  - rewrite !map_map. apply map_ext. intros [k a]. reflexivity.
  - induction (gedges I) as [|[[u v] x] r IH]; simpl; [reflexivity|].
    rewrite map_app, IH. destruct (0 <? se x); reflexivity.
Qed.
End EquivariantO.

Theorem equivariant_opts (f : N -> N) : (forall a b, f a = f b -> a = b) -> forall (o : copts) (G H : mgraph) (J : itsS),
  its_construct_o o (relabel f G) (relabel f H) = relabel f (its_construct_o o G H) /\
  its_construct_S o (relabel f G) (relabel f H) = relabel f (its_construct_S o G H) /\
  its_decompose_S (relabel f J) =
    (set_amap (relabel f (fst (its_decompose_S J))), set_amap (relabel f (snd (its_decompose_S J)))).
Proof.
  intros Hinj o G H J. split; [|split].
  - apply (gen_equivariant f Hinj). intros n m. unfold its_node_o. rewrite !(side_tuple_o_relabel f Hinj). reflexivity.
  - apply (gen_equivariant f Hinj). intros n m. unfold its_node_S. rewrite !(side_tuple_o_relabel f Hinj). reflexivity.
  - unfold its_decompose_S. cbn [fst snd]. rewrite !(decg_side_equivariant f). reflexivity.
Qed.

(** * non-vacuity *)
Definition ex_opts : copts := CO true true (NA 0%N false 0 0 []).
Example C01_opts_nonvacuous :
  wf ia_G /\ wf ia_H /\ same_nodes ia_G ia_H /\ orders_pos ia_G /\ orders_pos ia_H /\
  adj (its_construct_o ex_opts ia_G ia_H) 1%N 2%N = Some (IE 3 2 0) /\
  adj (its_construct_o default_opts ia_G ia_H) 1%N 2%N = Some (IE 3 2 1) /\
  gedges (snd (its_decompose (its_construct_o ex_opts ia_G ia_H))) = gedges ia_H /\
  option_map s_arom (label (its_construct_S ex_opts ia_G ia_H) 1%N) = Some (true, false) /\
  option_map (fun a => a_nb (i_G a)) (label (its_construct_o ex_opts ia_G ia_H) 1%N) = Some [] /\
  option_map (fun a => a_nb (i_G a)) (label (its_construct_o default_opts ia_G ia_H) 1%N) = Some [EL_EMPTY; EL_EMPTY].
Proof.
  destruct ia_not_std_consistent as (G & H & _). clear G H.
  assert (wf ia_G /\ wf ia_H) as [W1 W2].
  { split; apply wf_intro; simpl; try (repeat constructor; simpl; intuition discriminate);
      intros a b x [E|[]]; inversion E; subst; simpl; intuition discriminate. }
  split; [exact W1|]. split; [exact W2|]. split; [intros n; reflexivity|].
  split; [intros u v x [E|[]]; inversion E; lia|]. split; [intros u v x [E|[]]; inversion E; lia|].
  repeat split.
Qed.

Example C01_equivariant_opts_nonvacuous :
  its_construct_S ex_opts (relabel (N.add 10) ia_G) (relabel (N.add 10) ia_H) = relabel (N.add 10) (its_construct_S ex_opts ia_G ia_H) /\
  relabel (N.add 10) (its_construct_S ex_opts ia_G ia_H) <> its_construct_S ex_opts ia_G ia_H.
Proof.
  split; [apply equivariant_opts; [intros a b; apply N.add_cancel_l|exact (LG [] [])]|]. intros E. vm_compute in E. discriminate.
Qed.
