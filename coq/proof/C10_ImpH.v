(** C10 — proofs, part 23: implicit_hydrogen(graph, preserve, reindex=True) is a renumbering of
    implicit_hydrogen(graph, preserve) by f = position (from 1) in node order, with atom_map := new id. *)
From Coq Require Import String List NArith ZArith Bool Lia.
From SK Require Import lib.Tok lib.LGraph lib.StrJoin model.C10_Model model.C10_Rxn proof.C10_Proof proof.C10_Views proof.C10_Build
  proof.C10_Copy proof.C10_GmlRead proof.C10_Relabel proof.C10_Hydrogen proof.C10_HRound.
Import ListNotations.
Local Open Scope Z_scope.

Lemma gwf_remove_node (g : gr) n : gwf g -> gwf (remove_node g n).
Proof.
  intros W. split.
  - rewrite node_ids_remove_node. apply NoDup_filter, (gwf_nd g W).
  - unfold remove_node. simpl. apply uniq_filter, (gwf_uq g W).
  - intros a b x Hin. unfold remove_node in Hin. simpl in Hin. apply filter_In in Hin. destruct Hin as [Hin Hne].
    destruct (gwf_cl g W a b x Hin) as [Ha Hb]. apply negb_true_iff, orb_false_iff in Hne. destruct Hne as [Na Nb].
    rewrite !has_node_remove_node, Na, Nb. auto.
Qed.

Lemma gwf_fold_remove l : forall g : gr, gwf g -> gwf (fold_left remove_node l g).
Proof. induction l as [|n r IH]; intros g W; simpl; [exact W|]. apply IH, gwf_remove_node, W. Qed.

Lemma gwf_fold_set {A} (F : gr -> A -> gr) (l : list A) :
  (forall g x, gwf g -> gwf (F g x)) -> forall g : gr, gwf g -> gwf (fold_left F l g).
Proof. intros HF. induction l as [|n r IH]; intros g W; simpl; [exact W|]. apply IH, HF, W. Qed.

Theorem implicit_hydrogen_gwf (g : gr) (l : list Z) : gwf g -> gwf (implicit_hydrogen g l).
Proof.
  intros W. unfold implicit_hydrogen, imph_counts. cbv beta iota zeta. apply gwf_fold_remove.
  apply gwf_fold_set.
  - intros G h WG. apply gwf_fold_set; [|exact WG]. intros G' nb WG'. destruct (is_H (copy g) nb); [exact WG'|apply gwf_set_node, WG'].
  - apply gwf_fold_set; [|apply gwf_copy, W]. intros G n WG. destruct (is_H (copy g) n); [exact WG|apply gwf_set_node, WG].
Qed.

(** ** repaired code 3ba7a77: a hydrogen all of whose neighbours are hydrogens (H2, H+, a lone H) is never removed, whatever the
    preserve list *)
Lemma fold_ids {A} (F : gr -> A -> gr) (l : list A) :
  (forall g x, node_ids (F g x) = node_ids g) -> forall g : gr, node_ids (fold_left F l g) = node_ids g.
Proof. intros HF. induction l as [|x r IH]; intros g; simpl; [reflexivity|]. rewrite IH. apply HF. Qed.
Lemma has_node_fold_remove l : forall (G : gr) n, has_node (fold_left remove_node l G) n = negb (mem n l) && has_node G n.
Proof.
  induction l as [|x r IH]; intros G n; simpl; [reflexivity|]. rewrite IH, has_node_remove_node.
  destruct (N.eqb_spec n x) as [->|]; simpl; [rewrite andb_false_r|]; reflexivity.
Qed.
Lemma imph_counts_ids (g : gr) (l : list Z) : node_ids (snd (fst (imph_counts g l))) = node_ids g.
Proof.
  unfold imph_counts. cbv beta iota zeta. simpl snd. simpl fst.
  rewrite fold_ids.
  - rewrite fold_ids; [reflexivity|]. intros G n. destruct (is_H (copy g) n); [reflexivity|apply node_ids_set_node].
  - intros G h. apply fold_ids. intros G' nb. destruct (is_H (copy g) nb); [reflexivity|apply node_ids_set_node].
Qed.
Theorem implicit_hydrogen_keeps_bare (g : gr) (l : list Z) n : gwfb g = true ->
  is_H g n = true -> (forall w, adj g n w <> None -> is_H g w = true) -> has_node (implicit_hydrogen g l) n = true.
Proof.
  intros Hw Hn Hall. pose proof (gwfb_gwf g Hw) as W.
  assert (has_heavy_nbr (copy g) n = false) as HH.
  { unfold has_heavy_nbr. destruct (existsb _ _) eqn:E; [|reflexivity]. exfalso. apply existsb_exists in E.
    destruct E as (w & Hin & Hw'). apply negb_true_iff in Hw'.
    rewrite in_nbrs_adj in Hin. rewrite adj_copy in Hin by exact W.
    unfold is_H in Hw'. rewrite label_copy in Hw'. fold (is_H g w) in Hw'. rewrite (Hall w Hin) in Hw'. discriminate. }
  unfold implicit_hydrogen. destruct (imph_counts g l) as [[g0 g2] pres] eqn:EC.
  assert (g0 = copy g) as -> by (unfold imph_counts in EC; cbv beta iota zeta in EC; congruence).
  rewrite has_node_fold_remove. apply andb_true_iff. split.
  - apply negb_true_iff. destruct (mem n _) eqn:M; [|reflexivity]. apply mem_spec, filter_In in M. destruct M as [_ M].
    rewrite HH, andb_false_r in M. discriminate.
  - pose proof (imph_counts_ids g l) as I. rewrite EC in I. simpl in I. apply has_node_in. rewrite I. apply has_node_in.
    unfold is_H in Hn. unfold has_node. destruct (label g n); [reflexivity|discriminate].
Qed.

Theorem implicit_hydrogen_reindex_spec (g : gr) (l : list Z) : gwfb g = true ->
  let g1 := implicit_hydrogen g l in
  let f := mapget (enum_from 1%N (node_ids g1)) in
  let R := implicit_hydrogen_reindex g l in
  (forall a b, In a (node_ids g1) -> In b (node_ids g1) -> f a = f b -> a = b) /\
  (forall k, has_node R k = true <-> exists n, In n (node_ids g1) /\ k = f n) /\
  (forall n a, label g1 n = Some a -> label R (f n) = Some (set_am (Z.of_N (f n)) a)) /\
  (forall u v, In u (node_ids g1) -> In v (node_ids g1) -> adj R (f u) (f v) = adj g1 u v).
Proof.
  intros Hw g1 f R. pose proof (implicit_hydrogen_gwf g l (gwfb_gwf g Hw)) as W1. fold g1 in W1.
  pose proof (gwf_nd g1 W1) as Hnd.
  assert (forall a b, In a (node_ids g1) -> In b (node_ids g1) -> f a = f b -> a = b) as Finj.
  { intros a b Ha Hb. apply enum_from_inj; assumption. }
  set (m := enum_from 1%N (node_ids g1)).
  assert (forall n, mapget m n = f n) as Hm by reflexivity.
  pose proof (relabel_label f (node_ids g1) Hnd Finj g1 W1 eq_refl m Hm) as RL.
  pose proof (relabel_adj f (node_ids g1) Hnd Finj g1 W1 eq_refl m Hm) as RA.
  assert (forall k, label R k = option_map (set_am (Z.of_N k)) (label (nx_relabel m g1) k)) as LR.
  { intros k. unfold R, implicit_hydrogen_reindex. fold g1. fold m. unfold label at 1. simpl.
    apply (assoc_map_val (fun i a => set_am (Z.of_N i) a)). }
  assert (forall u v, adj R u v = adj (nx_relabel m g1) u v) as AR by reflexivity.
  split; [exact Finj|split; [|split]].
  - intros k. rewrite has_node_label. split.
    + intros [a La]. rewrite LR, RL in La. destruct (finv f (node_ids g1) k) as [n|] eqn:Fk; [|discriminate].
      apply finv_some in Fk. destruct Fk as [-> Hn]. exists n. auto.
    + intros (n & Hn & ->). rewrite LR, RL, (finv_f f (node_ids g1) Hnd Finj n Hn).
      apply has_node_in, has_node_label in Hn. destruct Hn as [a ->]. simpl. eauto.
  - intros n a La. assert (In n (node_ids g1)) as Hn by (apply has_node_in, has_node_label; eauto).
    rewrite LR, RL, (finv_f f (node_ids g1) Hnd Finj n Hn), La. reflexivity.
  - intros u v Hu Hv. rewrite AR, RA. unfold rl_d.
    rewrite (finv_f f (node_ids g1) Hnd Finj u Hu), (finv_f f (node_ids g1) Hnd Finj v Hv). reflexivity.
Qed.

Definition mka (el : string) (hc am : Z) : natt := NA (Some (s2l el)) (Some false) (Some hc) (Some 0) (Some am) None.
Example implicit_hydrogen_keeps_bare_ex :
  let h2 := LG [(1%N, mka "H" 0 1); (2%N, mka "H" 0 2)] [(1%N, 2%N, EA (Some (OS 2)) None)] in
  gwfb h2 = true /\ node_ids (implicit_hydrogen h2 [7]) = [1%N; 2%N] /\ node_ids (implicit_hydrogen_old h2 [7]) = [].
Proof. vm_compute. repeat split. Qed.

(** non-vacuity: CH3-O-H with the hydrogen (map 3) written explicitly, ids 5, 7, 9: without a preserve list the hydrogen is
    folded into the oxygen and the two heavy atoms become 1, 2 with atom_map 1, 2; preserving map 3 keeps it as atom 3 *)
Definition ex_meoh : gr :=
  LG [(5%N, mka "C" 3 1); (7%N, mka "O" 0 2); (9%N, mka "H" 0 3)] [(5%N, 7%N, EA (Some (OS 2)) None); (7%N, 9%N, EA (Some (OS 2)) None)].
Example implicit_hydrogen_reindex_ex :
  gwfb ex_meoh = true /\
  gnodes (implicit_hydrogen_reindex ex_meoh []) = [(1%N, mka "C" 3 1); (2%N, mka "O" 1 2)] /\
  gnodes (implicit_hydrogen_reindex ex_meoh [3]) = [(1%N, mka "C" 3 1); (2%N, mka "O" 0 2); (3%N, mka "H" 0 3)] /\
  adj (implicit_hydrogen_reindex ex_meoh [3]) 2%N 3%N = Some (EA (Some (OS 2)) None).
Proof. vm_compute. repeat split. Qed.
