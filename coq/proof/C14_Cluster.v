(** C14 — batched clustering (BatchCluster.fit with any batch size) gives exactly the classes of
    one-shot clustering (GraphCluster.iterative_cluster), for every decidable equivalence [iso]
    (C13 instantiates it with graph isomorphism) and every pre-grouping attribute. *)
From Coq Require Import NArith List Bool Arith Lia.
Import ListNotations.
From SK Require Import lib.Tok model.C14_Model.

Section ClusterProof.
  Variable A : Type.
  Variable iso : A -> A -> bool.
  Variable att : A -> N.
  Hypothesis iso_refl : forall x, iso x x = true.
  Hypothesis iso_sym : forall x y, iso x y = true -> iso y x = true.
  Hypothesis iso_trans : forall x y z, iso x y = true -> iso y z = true -> iso x z = true.

  Notation same := (same A iso att).
  Notation cluster := (cluster A iso att).
  Notation oneshot := (oneshot A iso att).
  Notation oneshot_aux := (oneshot_aux A iso att).
  Notation mark := (mark A iso att).
  Notation lib_check := (lib_check A iso att).
  Notation cfit := (cfit A iso att).
  Notation cluster_batches := (cluster_batches A iso att).

  Lemma same_sym x y : same x y = true -> same y x = true.
  Proof.
    unfold C14_Model.same. intro H. apply andb_true_iff in H. destruct H as [H1 H2].
    apply N.eqb_eq in H1. rewrite H1, N.eqb_refl. simpl. auto.
  Qed.

  Lemma same_trans x y z : same x y = true -> same y z = true -> same x z = true.
  Proof.
    unfold C14_Model.same. intros H G. apply andb_true_iff in H. apply andb_true_iff in G.
    destruct H as [H1 H2]. destruct G as [G1 G2]. apply N.eqb_eq in H1. apply N.eqb_eq in G1.
    rewrite H1, G1, N.eqb_refl. simpl. eauto.
  Qed.

  (* ---- invariant relating the one-shot loop state (assignment of the later items, number of
          classes) with the template list of the incremental loop *)

  Definition distinct_reps (ts : list (A * nat)) : Prop :=
    ForallOrdPairs (fun t u => same (fst t) (fst u) = false) ts.

  Definition asg_ok (ts : list (A * nat)) (y : A) (a : option nat) : Prop :=
    match a with
    | Some k => exists r, In (r, k) ts /\ same r y = true
    | None => forall t, In t ts -> same (fst t) y = false
    end.

  Lemma find_none_intro {B} (f : B -> bool) l : (forall t, In t l -> f t = false) -> find f l = None.
  Proof.
    induction l as [|x l IH]; simpl; auto. intro H.
    rewrite (H x); auto.
  Qed.

  Lemma new_class_seq ts n : map snd ts = seq 0 n -> new_class A ts = n.
  Proof.
    revert ts. induction n as [|n IH]; intros ts H.
    - destruct ts; [reflexivity|discriminate].
    - rewrite seq_S in H. simpl in H.
      destruct (exists_last (l := ts)) as (ts' & t & E).
      { intro E; subst; simpl in H. destruct (seq 0 n); discriminate. }
      subst ts. rewrite map_app in H. simpl in H. apply app_inj_tail in H. destruct H as [H1 H2].
      unfold new_class. rewrite fold_right_app. simpl. rewrite H2.
      assert (G : forall l m, (forall t, In t l -> snd t < m) ->
                  fold_right (fun (t : A * nat) m0 => Nat.max (S (snd t)) m0) m l = m).
      { induction l as [|u l IHl]; intros m Hm; cbn [fold_right]; auto.
        rewrite IHl; [|intros; apply Hm; simpl; auto].
        assert (snd u < m) by (apply Hm; simpl; auto). lia. }
      apply G. intros u Hu.
      assert (In (snd u) (map snd ts')) by (apply in_map; auto).
      rewrite H1 in H. apply in_seq in H. lia.
  Qed.

  Lemma FOP_snoc {B} (P : B -> B -> Prop) l z :
    ForallOrdPairs P l -> Forall (fun t => P t z) l -> ForallOrdPairs P (l ++ [z]).
  Proof.
    induction 1 as [|x l Hx Hl IH]; intro Hz; simpl.
    - constructor; constructor.
    - inversion Hz; subst. constructor; auto.
      apply Forall_app. split; auto.
  Qed.

  Lemma mark_ok ts x ncl items asg :
    (forall t, In t ts -> same (fst t) x = false) ->
    Forall2 (asg_ok ts) items asg ->
    Forall2 (asg_ok (ts ++ [(x, ncl)])) items (mark x ncl items asg).
  Proof.
    intro Hx. induction 1 as [|y a items asg Hy Hrest IH]; simpl; constructor; auto.
    destruct a as [k|]; simpl in *.
    - destruct Hy as (r & Hin & Hs). exists r. split; auto. apply in_or_app; auto.
    - destruct (same x y) eqn:E; simpl.
      + exists x. split; auto. apply in_or_app. right. simpl. auto.
      + intros t Ht. apply in_app_or in Ht. destruct Ht as [Ht|[Ht|[]]]; auto.
        subst t. simpl. exact E.
  Qed.

  Lemma oneshot_aux_cluster items : forall asg ncl ts,
    map snd ts = seq 0 ncl -> distinct_reps ts -> Forall2 (asg_ok ts) items asg ->
    oneshot_aux items asg ncl = fst (cluster items ts).
  Proof.
    induction items as [|x items IH]; intros asg ncl ts Hcls Hd Hasg.
    - inversion Hasg; reflexivity.
    - inversion Hasg as [|? a ? asg' Hx Hrest]; subst. simpl.
      unfold C14_Model.lib_check.
      destruct a as [k|]; simpl in Hx.
      + destruct Hx as (r & Hin & Hs).
        destruct (find (fun t => same (fst t) x) ts) as [t'|] eqn:Ef.
        2:{ exfalso. eapply find_none in Ef; eauto. simpl in Ef. congruence. }
        apply find_some in Ef. destruct Ef as [Hin' Hs'].
        assert (t' = (r, k)).
        { destruct (ForallOrdPairs_In Hd _ _ Hin' Hin) as [E|[E|E]]; auto; simpl in E; exfalso.
          - assert (same (fst t') r = true) by (eapply same_trans; eauto using same_sym). congruence.
          - assert (same r (fst t') = true) by (eapply same_trans; eauto using same_sym). congruence. }
        subst t'. simpl.
        destruct (cluster items ts) as [cs ts2] eqn:Ec. simpl. f_equal.
        rewrite (IH asg' ncl ts); auto. rewrite Ec. reflexivity.
      + rewrite find_none_intro; auto.
        rewrite (new_class_seq ts ncl Hcls).
        destruct (cluster items (ts ++ [(x, ncl)])) as [cs ts2] eqn:Ec. simpl. f_equal.
        rewrite (IH (mark x ncl items asg') (S ncl) (ts ++ [(x, ncl)])).
        * rewrite Ec. reflexivity.
        * rewrite map_app, Hcls, seq_S. reflexivity.
        * apply FOP_snoc; auto. apply Forall_forall. intros t Ht. simpl. auto.
        * apply mark_ok; auto.
  Qed.

  (** the two algorithms number the classes identically *)
  Theorem oneshot_eq_incremental items : oneshot items = fst (cluster items []).
  Proof.
    unfold C14_Model.oneshot. apply oneshot_aux_cluster.
    - reflexivity.
    - constructor.
    - induction items; simpl; constructor; auto. simpl. intros t [].
  Qed.

  (* ---- batching *)

  Lemma cluster_app a : forall b ts,
    cluster (a ++ b) ts =
    let '(c1, t1) := cluster a ts in let '(c2, t2) := cluster b t1 in (c1 ++ c2, t2).
  Proof.
    induction a as [|x a IH]; intros b ts; simpl.
    - destruct (cluster b ts); reflexivity.
    - destruct (lib_check x ts) as [c ts1]. rewrite IH.
      destruct (cluster a ts1) as [c1 t1]. destruct (cluster b t1) as [c2 t2]. reflexivity.
  Qed.

  Lemma cluster_batches_concat bs : forall ts, cluster_batches bs ts = cluster (concat bs) ts.
  Proof.
    induction bs as [|b bs IH]; intros ts; simpl; auto.
    rewrite cluster_app. destruct (cluster b ts) as [c1 t1]. rewrite IH. reflexivity.
  Qed.

  Lemma concat_chunks_fuel bs : (1 <= bs) -> forall fuel l, length l <= fuel -> concat (chunks_fuel A fuel bs l) = l.
  Proof.
    intro Hbs. induction fuel as [|f IH]; intros l Hl; simpl.
    - destruct l; [reflexivity|simpl in Hl; lia].
    - destruct l as [|x l']; [reflexivity|]. simpl concat.
      rewrite IH.
      + apply firstn_skipn.
      + rewrite skipn_length. cbn [length] in *. lia.
  Qed.

  Lemma concat_chunks bs l : 1 <= bs -> concat (chunks A bs l) = l.
  Proof. intro H. apply concat_chunks_fuel; auto. Qed.

  (** BatchCluster.fit without templates: every batch size (0 = None) yields the one-shot classes. *)
  Theorem cluster_batches_oneshot items bs : fst (cfit items [] bs) = oneshot items.
  Proof.
    unfold C14_Model.cfit. destruct (bs =? 0) eqn:E; [reflexivity|].
    apply Nat.eqb_neq in E.
    pose proof (concat_chunks bs items ltac:(lia)) as Hc.
    destruct (chunks A bs items) as [|b [|b2 rest]] eqn:Ech.
    - simpl in *. subst items. reflexivity.
    - simpl in Hc. rewrite app_nil_r in Hc. subst b. reflexivity.
    - rewrite cluster_batches_concat, Hc. symmetry. apply oneshot_eq_incremental.
  Qed.

  (** With templates from earlier batches: the batch size is irrelevant altogether (classes AND templates). *)
  Theorem cluster_batches_templates items ts bs : ts <> [] -> cfit items ts bs = cluster items ts.
  Proof.
    intro Hts. unfold C14_Model.cfit. destruct ts as [|t ts]; [congruence|].
    destruct (bs =? 0) eqn:E; [reflexivity|].
    apply Nat.eqb_neq in E.
    pose proof (concat_chunks bs items ltac:(lia)) as Hc.
    destruct (chunks A bs items) as [|b [|b2 rest]] eqn:Ech.
    - simpl in *. subst items. reflexivity.
    - simpl in Hc. rewrite app_nil_r in Hc. subst b. reflexivity.
    - rewrite cluster_batches_concat, Hc. reflexivity.
  Qed.
End ClusterProof.

(* ------------------------------------------------------------------ non-vacuity *)

Definition nvc_items : list (N * N) := [(1, 0); (2, 0); (1, 0); (3, 1); (2, 0); (1, 0); (3, 1)]%N.
Definition nvc_iso (x y : N * N) : bool := (fst x =? fst y)%N.
Definition nvc_att (x : N * N) : N := snd x.

Example cluster_batches_nonvacuous :
  oneshot _ nvc_iso nvc_att nvc_items = [0; 1; 0; 2; 1; 0; 2]
  /\ map (fun bs => fst (cfit _ nvc_iso nvc_att nvc_items [] bs)) [0; 1; 2; 3; 7; 9]
     = repeat [0; 1; 0; 2; 1; 0; 2] 6
  /\ chunks _ 3 nvc_items = [[(1, 0); (2, 0); (1, 0)]; [(3, 1); (2, 0); (1, 0)]; [(3, 1)]]%N.
Proof. vm_compute. repeat split; reflexivity. Qed.
