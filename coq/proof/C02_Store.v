(** C02 (rounds 4-5) — proofs about get_rc on ITS graphs with pair-valued labels (model/C02_Store.v):
    lock-step agreement of the generic [get_rc_g] with [get_rc_x] on the flattened graph; the centre atoms carry the selected
    ITS labels UNCHANGED (pairs stay pairs); the bonds of the centre for every label shape (a hydrogen is "H" or the pair
    ("H", "H"): repaired in round 5); the flattened centre of a store=True ITS is the centre of its store=False twin. *)
From Coq Require Import List NArith ZArith Bool Lia.
From SK Require Import lib.LGraph lib.C01_GraphLemmas model.C01_Model model.C01_Opts model.C02_Model model.C02_Store
                       proof.C02_Proof proof.C02_Opts.
Import ListNotations.
Local Open Scope Z_scope.

(** relabel the node VALUES of a graph, edges untouched *)
Definition gmapn {A A' B} (f : A -> A') (g : lgraph A B) : lgraph A' B :=
  LG (map (fun p => (fst p, f (snd p))) (gnodes g)) (gedges g).

Lemma label_gmapn {A A' B} (f : A -> A') (g : lgraph A B) n : label (gmapn f g) n = option_map f (label g n).
Proof. unfold label, gmapn. simpl. apply (assoc_map_val (fun _ a => f a)). Qed.
Lemma node_ids_gmapn {A A' B} (f : A -> A') (g : lgraph A B) : node_ids (gmapn f g) = node_ids g.
Proof. unfold node_ids, gmapn. simpl. rewrite map_map. reflexivity. Qed.
Lemma wf_gmapn {A A' B} (f : A -> A') (g : lgraph A B) : wf g -> wf (gmapn f g).
Proof.
  intros (W1 & W2 & W3). unfold wf. rewrite node_ids_gmapn. split; [exact W1|]. split; [exact W2|exact W3].
Qed.

(** * the generic function runs in lock step with get_rc_x on the flattened graph *)
Section Sim.
Variable A : Type.
Variables sel selhh : A -> A.
Variable ish cc : A -> bool.
Variable fl : A -> xnode.
Variable K : keysel.
Hypothesis Hsel : forall a, fl (sel a) = sel_attr K (fl a).
Hypothesis Hselhh : forall a, fl (selhh a) = sel_attr_hh K (fl a).
Hypothesis Hish : forall a, ish a = match x_el (fl a) with Some e => N.eqb e EL_H | None => false end.
Hypothesis Hcc : forall a, cc a = charge_changed (fl a).

Definition fmap (ns : list (N * A)) : list (N * xnode) := map (fun p => (fst p, fl (snd p))) ns.

Lemma has_key_fmap n ns : has_key_x n (fmap ns) = has_key_g n ns.
Proof. unfold has_key_x, has_key_g, fmap. rewrite (assoc_map_val (fun _ a => fl a)). destruct (assoc n ns); reflexivity. Qed.

Lemma ensure_fmap (f : A -> A) (f' : xnode -> xnode) (g : lgraph A xedge) n ns : (forall a, fl (f a) = f' (fl a)) ->
  ensure_x f' (gmapn fl g) n (fmap ns) = fmap (ensure_g f g n ns).
Proof.
  intros Hf. unfold ensure_x, ensure_g. rewrite has_key_fmap, label_gmapn.
  destruct (has_key_g n ns); [reflexivity|]. destruct (label g n) as [a|]; simpl; [|reflexivity].
  unfold fmap. rewrite map_app. simpl. rewrite Hf. reflexivity.
Qed.

Lemma is_hh_fmap (g : lgraph A xedge) u v : is_hh_x (gmapn fl g) u v = is_hh_g ish g u v.
Proof.
  unfold is_hh_x, is_hh_g, is_h_x, is_h_g. rewrite !label_gmapn.
  destruct (label g u) as [a|]; destruct (label g v) as [b|]; simpl; rewrite ?Hish; reflexivity.
Qed.

Definition fst_ (st : state_g A) : rcx_state := (fmap (fst st), snd st).

Lemma fold_changed_sim m (g : lgraph A xedge) L : forall st,
  fold_left (step_changed_x K m (gmapn fl g)) L (fst_ st) = fst_ (fold_left (step_changed_g sel m g) L st).
Proof.
  induction L as [|[[u v] x] L IH]; intros st; [reflexivity|]. cbn [fold_left]. rewrite <- IH. f_equal.
  unfold step_changed_x, step_changed_g. destruct (include_x m x); [|reflexivity]. unfold fst_. simpl.
  rewrite !(ensure_fmap sel (sel_attr K) g _ _ Hsel). reflexivity.
Qed.

Lemma fold_hh_sim (g : lgraph A xedge) L : forall st,
  fold_left (step_hh_x K (gmapn fl g)) L (fst_ st) = fst_ (fold_left (step_hh_g selhh ish g) L st).
Proof.
  induction L as [|[[u v] x] L IH]; intros st; [reflexivity|]. cbn [fold_left]. rewrite <- IH. f_equal.
  unfold step_hh_x, step_hh_g. rewrite is_hh_fmap. destruct (is_hh_g ish g u v); [|reflexivity]. unfold fst_. simpl.
  rewrite !(ensure_fmap selhh (sel_attr_hh K) g _ _ Hselhh). reflexivity.
Qed.

Lemma fold_charge_sim L : forall ns,
  fold_left (step_charge K) (fmap L) (fmap ns) = fmap (fold_left (step_charge_g sel cc) L ns).
Proof.
  induction L as [|[n a] L IH]; intros ns; [reflexivity|]. cbn [fold_left fmap map]. fold (fmap L). rewrite <- IH. f_equal.
  unfold step_charge, step_charge_g. simpl. rewrite has_key_fmap, Hcc.
  destruct (charge_changed (fl a) && negb (has_key_g n ns)); [|reflexivity]. unfold fmap. rewrite map_app. simpl. rewrite Hsel. reflexivity.
Qed.

Lemma fold_reconnect_sim ns L : forall es,
  fold_left (step_reconnect (fmap ns)) L es = fold_left (step_reconnect_g ns) L es.
Proof.
  induction L as [|[[u v] x] L IH]; intros es; [reflexivity|]. cbn [fold_left]. rewrite <- IH. f_equal.
  unfold step_reconnect, step_reconnect_g. rewrite !has_key_fmap. reflexivity.
Qed.

Theorem get_rc_g_flat d m (g : lgraph A xedge) :
  gmapn fl (get_rc_g sel selhh ish cc d m g) = get_rc_x K d m (gmapn fl g).
Proof.
  unfold get_rc_x, get_rc_g. cbv zeta. change (gedges (gmapn fl g)) with (gedges g).
  change (gnodes (gmapn fl g)) with (fmap (gnodes g)).
  change (@nil (N * xnode), @nil (N * N * xedge)) with (fst_ ([], [])).
  rewrite fold_changed_sim, fold_hh_sim. unfold fst_. cbn [fst snd].
  destruct d; [|reflexivity]. rewrite fold_charge_sim, fold_reconnect_sim. reflexivity.
Qed.

(** every atom of the centre carries [sel] or [selhh] of the ITS atom's labels *)
Definition LInv (g : lgraph A xedge) (ns : list (N * A)) : Prop :=
  forall n b, In (n, b) ns -> exists a, label g n = Some a /\ (b = sel a \/ b = selhh a).

Lemma LInv_ensure (f : A -> A) g n ns : (forall a, f a = sel a \/ f a = selhh a) -> LInv g ns -> LInv g (ensure_g f g n ns).
Proof.
  intros Hf Hi. unfold ensure_g. destruct (has_key_g n ns); [exact Hi|]. destruct (label g n) as [a|] eqn:L; [|exact Hi].
  intros k b I. apply in_app_iff in I. destruct I as [I|[E|[]]]; [apply Hi; exact I|]. inversion E; subst. exists a. split; [exact L|apply Hf].
Qed.

Lemma labels_get_rc_g d m (g : lgraph A xedge) : NoDup (node_ids g) ->
  forall n b, label (get_rc_g sel selhh ish cc d m g) n = Some b ->
  exists a, label g n = Some a /\ (b = sel a \/ b = selhh a).
Proof.
  intros Hnd n b L. apply assoc_in in L. revert n b L. change (LInv g (gnodes (get_rc_g sel selhh ish cc d m g))).
  assert (forall L st, LInv g (fst st) -> LInv g (fst (fold_left (step_changed_g sel m g) L st))) as H1.
  { induction L as [|[[u v] x] L IH]; intros st Hi; [exact Hi|]. cbn [fold_left]. apply IH. unfold step_changed_g.
    destruct (include_x m x); [|exact Hi]. simpl. apply LInv_ensure, LInv_ensure; auto. }
  assert (forall L st, LInv g (fst st) -> LInv g (fst (fold_left (step_hh_g selhh ish g) L st))) as H2.
  { induction L as [|[[u v] x] L IH]; intros st Hi; [exact Hi|]. cbn [fold_left]. apply IH. unfold step_hh_g.
    destruct (is_hh_g ish g u v); [|exact Hi]. simpl. apply LInv_ensure, LInv_ensure; auto. }
  assert (forall L ns, (forall p, In p L -> In p (gnodes g)) -> LInv g ns -> LInv g (fold_left (step_charge_g sel cc) L ns)) as H3.
  { induction L as [|[k a] L IH]; intros ns Hin Hi; [exact Hi|]. cbn [fold_left]. apply IH; [intros p I; apply Hin; right; exact I|].
    unfold step_charge_g. simpl. destruct (cc a && negb (has_key_g k ns)); [|exact Hi].
    intros k' b I. apply in_app_iff in I. destruct I as [I|[E|[]]]; [apply Hi; exact I|]. inversion E; subst. exists a. split; [|auto].
    apply assoc_nodup_in; [exact Hnd|apply Hin; left; reflexivity]. }
  unfold get_rc_g. cbv zeta.
  assert (LInv g (fst (fold_left (step_hh_g selhh ish g) (gedges g) (fold_left (step_changed_g sel m g) (gedges g) ([], []))))) as Hi
      by (apply H2, H1; intros ? ? []).
  destruct d; simpl; [apply H3; auto|exact Hi].
Qed.
End Sim.

(** * the instance for pair-valued labels *)
Lemma pick_map {T U} (f : T -> U) b o : pick b (option_map f o) = option_map f (pick b o).
Proof. destruct b; reflexivity. Qed.

Lemma flat_sel K a : flat (selS K a) = sel_attr K (flat a).
Proof. unfold flat, selS, sel_attr. simpl. rewrite !pick_map. reflexivity. Qed.
Lemma flat_sel_hh K a : flat (selS_hh K a) = sel_attr_hh K (flat a).
Proof. unfold flat, selS_hh, sel_attr_hh. simpl. rewrite !pick_map. reflexivity. Qed.
Lemma fl_el_ish l : ish_lab l = N.eqb (fl_el l) EL_H.
Proof.
  destruct l as [e|p q]; simpl; [reflexivity|].
  destruct (N.eqb p EL_H) eqn:Ep; destruct (N.eqb q EL_H) eqn:Eq; simpl; try reflexivity; rewrite ?Ep; reflexivity.
Qed.
Lemma flat_ish a : ish_S a = match x_el (flat a) with Some e => N.eqb e EL_H | None => false end.
Proof. unfold ish_S, flat. simpl. destruct (n_el a) as [l|]; simpl; [apply fl_el_ish|reflexivity]. Qed.
Lemma flat_cc a : cc_S a = charge_changed (flat a).
Proof. reflexivity. Qed.

Theorem rcS_flat K d m (g : sits) : gmapn flat (get_rc_S K d m g) = get_rc_x K d m (gmapn flat g).
Proof. apply get_rc_g_flat; [apply flat_sel|apply flat_sel_hh|apply flat_ish|apply flat_cc]. Qed.

(** the bonds of the centre are those of get_rc_x on the flattened graph *)
Corollary rcS_edges_flat K d m (g : sits) : gedges (get_rc_S K d m g) = gedges (get_rc_x K d m (gmapn flat g)).
Proof. rewrite <- rcS_flat. reflexivity. Qed.

(** "with their ITS labels": every selected label of a centre atom IS the ITS atom's label — a pair stays that pair *)
Theorem rcS_labels K d m (g : sits) : NoDup (node_ids g) -> forall n b, label (get_rc_S K d m g) n = Some b ->
  exists a, label g n = Some a /\
    n_el b = pick (k_el K) (n_el a) /\ n_ch b = pick (k_ch K) (n_ch a) /\ n_amap b = pick (k_amap K) (n_amap a) /\
    n_arom b = pick (k_arom K) (n_arom a) /\ n_hc b = pick (k_hc K) (n_hc a) /\ n_nb b = pick (k_nb K) (n_nb a) /\
    (n_gh b = pick (k_gh K) (n_gh a) \/ n_gh b = Some (match n_gh a with Some t => t | None => HH_FALLBACK end)).
Proof.
  intros Hnd n b L. destruct (@labels_get_rc_g snode (selS K) (selS_hh K) ish_S cc_S d m g Hnd n b L) as (a & La & [-> | ->]);
    exists a; (split; [exact La|]); simpl; repeat split; auto.
Qed.

Lemma wf_gmap {A A' B B'} (fn : A -> A') (fe : B -> B') (g : lgraph A B) : wf g -> wf (gmap fn fe g).
Proof.
  intros W. pose proof (wf_simple W) as Hs. destruct W as (W1 & W2 & _).
  assert (node_ids (gmap fn fe g) = node_ids g) as En by (unfold node_ids, gmap; simpl; rewrite map_map; reflexivity).
  apply wf_intro.
  - rewrite En. exact W1.
  - rewrite En. intros a b x I. unfold gmap in I. simpl in I. apply in_map_iff in I. destruct I as ([[a' b'] x'] & E & I).
    inversion E; subst. exact (W2 _ _ _ I).
  - unfold gmap. simpl. exact (simple_map_attr (fun _ _ x => fe x) Hs).
Qed.

(** the bonds of the centre, for every option setting and every label shape: a bond is in the centre with the attributes
    [out_edge] iff it is included (changed, or flagged under keep_mtg) or BOTH ATOMS ARE HYDROGENS — the scalar "H" or the pair
    ("H", "H") —; under disconnected additionally every other ITS bond between centre atoms, with [out_edge_rec] *)
Theorem rcS_edges K d m (g : sits) : wf g -> forall u v y,
  adj (get_rc_S K d m g) u v = Some y <->
  exists x, adj g u v = Some x /\
    (((include_x m x = true \/ is_hh_g ish_S g u v = true) /\ y = out_edge x) \/
     (include_x m x = false /\ is_hh_g ish_S g u v = false /\ d = true /\
      In u (node_ids (get_rc_S K d m g)) /\ In v (node_ids (get_rc_S K d m g)) /\ y = out_edge_rec x)).
Proof.
  intros W u v y. unfold adj at 1. rewrite rcS_edges_flat. fold (adj (get_rc_x K d m (gmapn flat g)) u v).
  rewrite (rcx_edges K d m (gmapn flat g) (wf_gmapn flat g W)).
  change (adj (gmapn flat g) u v) with (adj g u v).
  rewrite (is_hh_fmap snode ish_S flat flat_ish g u v).
  rewrite <- rcS_flat, node_ids_gmapn. reflexivity.
Qed.

(** hydrogens of a store=True ITS: both sides of the element pair are "H" *)
Lemma is_h_emb_S (g : itsS) n :
  is_h_g ish_S (emb_S g) n = match label g n with Some a => N.eqb (fst (s_el a)) EL_H && N.eqb (snd (s_el a)) EL_H | None => false end.
Proof.
  unfold is_h_g, emb_S, gmap, label. simpl. rewrite (assoc_map_val (fun _ (x : inodeS) => sn_of_S x)).
  destruct (assoc n (gnodes g)) as [x|]; reflexivity.
Qed.

(** on a store=True ITS (disconnected=False): the centre bonds are the included bonds and the bonds between two atoms whose
    element pair is ("H", "H") *)
Theorem rcS_store_true_bonds K m (g : itsS) : wf g -> forall u v y,
  adj (get_rc_S K false m (emb_S g)) u v = Some y <->
  exists x, adj g u v = Some x /\
    (include_x m (x, None) = true \/
     (exists a b, label g u = Some a /\ label g v = Some b /\ s_el a = (EL_H, EL_H) /\ s_el b = (EL_H, EL_H))) /\
    y = (x, Some false).
Proof.
  intros W u v y.
  assert (wf (emb_S g)) as W' by (apply wf_gmap; exact W).
  rewrite (rcS_edges K false m (emb_S g) W').
  assert (adj (emb_S g) u v = option_map (fun x : iedge => (x, @None bool)) (adj g u v)) as A.
  { unfold adj, emb_S, gmap. simpl. apply find_edge_map. }
  assert (is_hh_g ish_S (emb_S g) u v = true <->
          exists a b, label g u = Some a /\ label g v = Some b /\ s_el a = (EL_H, EL_H) /\ s_el b = (EL_H, EL_H)) as Hh.
  { unfold is_hh_g. rewrite !is_h_emb_S. split.
    - intros H. apply andb_true_iff in H. destruct H as [Hu Hv].
      destruct (label g u) as [a|]; [|discriminate]. destruct (label g v) as [b|]; [|discriminate].
      apply andb_true_iff in Hu. apply andb_true_iff in Hv. destruct Hu as [U1 U2], Hv as [V1 V2].
      apply N.eqb_eq in U1, U2, V1, V2. exists a, b. destruct (s_el a), (s_el b). simpl in *. subst. auto.
    - intros (a & b & -> & -> & -> & ->). reflexivity. }
  rewrite A. split.
  - intros (x' & E & [[H ->]|(_ & _ & C & _)]); [|discriminate].
    destruct (adj g u v) as [x|]; [|discriminate]. simpl in E. inversion E; subst. exists x. split; [reflexivity|]. split; [|reflexivity].
    destruct H as [H|H]; [left; exact H|right; apply Hh; exact H].
  - intros (x & E & H & ->). rewrite E. simpl. exists (x, None). split; [reflexivity|]. left. split; [|reflexivity].
    destruct H as [H|H]; [left; exact H|right; apply Hh; exact H].
Qed.

(** every atom of a store=True ITS built by C01's construction carries pairs *)
Lemma emb_S_pairs (g : itsS) n a : label (emb_S g) n = Some a -> exists p q, n_el a = Some (Pr p q).
Proof.
  unfold emb_S, gmap, label. simpl. rewrite (assoc_map_val (fun _ (x : inodeS) => sn_of_S x)).
  destruct (assoc n (gnodes g)) as [x|]; [|discriminate]. intros [= <-]. simpl. eauto.
Qed.

(** * store=True vs store=False: the flattened store=True atom IS the store=False atom when the element is the same on both
    sides (true for every atom of a reaction) *)
Lemma flat_twin (a : inodeS) : fst (s_el a) = snd (s_el a) -> flat (sn_of_S a) = xn_of (twin a).
Proof.
  intros E. unfold flat, sn_of_S, xn_of, twin. simpl. rewrite <- E.
  destruct (N.eqb (fst (s_el a)) EL_H); reflexivity.
Qed.

Definition el_same (g : itsS) : Prop := forall n a, In (n, a) (gnodes g) -> fst (s_el a) = snd (s_el a).

Lemma flat_emb_S (g : itsS) : el_same g -> gmapn flat (emb_S g) = emb (gmap twin (fun e : iedge => e) g).
Proof.
  intros Hs. unfold gmapn, emb_S, emb, gmap. simpl. f_equal.
  - rewrite !map_map. apply map_ext_in. intros [n a] I. simpl. f_equal. apply flat_twin. exact (Hs n a I).
  - rewrite map_map. apply map_ext. intros [[u v] x]. reflexivity.
Qed.

(** the centre of the store=True ITS, flattened, is the centre of its store=False twin — for every option setting *)
Theorem rcS_twin K d m (g : itsS) : el_same g ->
  gmapn flat (get_rc_S K d m (emb_S g)) = get_rc_x K d m (emb (gmap twin (fun e : iedge => e) g)).
Proof. intros Hs. rewrite rcS_flat, (flat_emb_S g Hs). reflexivity. Qed.

(** the twin of ITSConstruction.construct(store=True) is ITSConstruction.construct(store=False), for every other option *)
Lemma twin_construct o G H : gmap twin (fun e : iedge => e) (its_construct_S o G H) = its_construct_o o G H.
Proof.
  unfold its_construct_S, its_construct_o, its_construct_gen, gmap. simpl. f_equal.
  - rewrite map_map. reflexivity.
  - rewrite map_app, !map_map. f_equal; apply map_ext; intros [[u v] x]; reflexivity.
Qed.

(** end to end: when every atom has the same element on both sides, get_rc of construct(G, H, store=True), flattened, is
    get_rc of construct(G, H, store=False) — same atoms, same bonds with the same attributes, reactant-side labels *)
Theorem rcS_construct K d m o G H : el_same (its_construct_S o G H) ->
  gmapn flat (get_rc_S K d m (emb_S (its_construct_S o G H))) = get_rc_x K d m (emb (its_construct_o o G H)).
Proof. intros Hs. rewrite (rcS_twin K d m _ Hs), twin_construct. reflexivity. Qed.

(** witnesses: an unchanged ("H","H")-("H","H") bond IS in the centre of a store=True ITS, as in the store=False twin
    (before the repair of _is_hh_pair the first centre was empty); a ("H","C") pair is not a hydrogen *)
Definition hhS_node (n : Z) : inodeS := INS n (2%N, 2%N) (false, false) (0, 0) (0, 0) ([], []) (NA 2%N false 0 0 []) (NA 2%N false 0 0 []).
Definition hhS : itsS := LG [(1%N, hhS_node 1); (2%N, hhS_node 2)] [(1%N, 2%N, IE 2 2 0)].
Definition hcS_node (n : Z) : inodeS := INS n (2%N, 70%N) (false, false) (0, 0) (0, 0) ([], []) (NA 2%N false 0 0 []) (NA 70%N false 0 0 []).
Definition hcS : itsS := LG [(1%N, hhS_node 1); (2%N, hcS_node 2)] [(1%N, 2%N, IE 2 2 0)].
Theorem rcS_hh_forced :
  node_ids (get_rc_S K_default false false (emb_S hhS)) = [1%N; 2%N] /\
  adj (get_rc_S K_default false false (emb_S hhS)) 1%N 2%N = Some (IE 2 2 0, Some false) /\
  node_ids (get_rc (gmap twin (fun e : iedge => e) hhS)) = [1%N; 2%N] /\
  gnodes (get_rc_S K_default false false (emb_S hcS)) = [].
Proof. vm_compute. repeat split; reflexivity. Qed.

(** non-vacuity: a store=True ITS with a changed bond and a charge change; labels of the centre are the pairs *)
Definition exS : itsS :=
  LG [(1%N, INS 1 (70%N, 70%N) (false, false) (1, 0) (0, -1) ([82%N], [82%N]) (NA 70%N false 1 0 [82%N]) (NA 70%N false 0 (-1) [82%N]));
      (2%N, INS 2 (82%N, 82%N) (false, false) (0, 1) (0, 0) ([70%N], [70%N]) (NA 82%N false 0 0 [70%N]) (NA 82%N false 1 0 [70%N]))]
     [(1%N, 2%N, IE 4 2 2)].
Example C02_store_nonvacuous :
  wf (emb_S exS) /\
  option_map n_ch (label (get_rc_S K_default false false (emb_S exS)) 1%N) = Some (Some (Pr 0 (-1))) /\
  option_map n_el (label (get_rc_S K_default false false (emb_S exS)) 1%N) = Some (Some (Pr 70%N 70%N)) /\
  adj (get_rc_S K_default false false (emb_S exS)) 1%N 2%N = Some (IE 4 2 2, Some false).
Proof.
  split; [|vm_compute; repeat split]. apply wf_intro; simpl.
  - repeat constructor; simpl; intuition discriminate.
  - intros a b x [E|[]]. inversion E; subst. simpl. intuition discriminate.
  - repeat constructor.
Qed.

Example C02_store_twin_nonvacuous :
  el_same exS /\ el_same hhS /\ ~ el_same hcS /\
  gnodes (gmapn flat (get_rc_S K_default true true (emb_S exS))) <> [].
Proof.
  split; [|split; [|split]].
  - intros n a [E|[E|[]]]; inversion E; reflexivity.
  - intros n a [E|[E|[]]]; inversion E; reflexivity.
  - intros Hs. specialize (Hs 2%N (hcS_node 2) (or_intror (or_introl eq_refl))). discriminate.
  - vm_compute. discriminate.
Qed.
