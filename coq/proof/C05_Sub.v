(** C05 — part 8: the component-aware strategy returns a subset of the exhaustive strategy (matches compared as sets
    of pairs, as Python dicts are), from the specification theorems of proof/C06_*.v instantiated with the reactor's
    configuration and the verified enumerator. Stdlib lists. *)
From Coq Require Import List NArith ZArith Bool Arith Lia Permutation.
From SK Require Import lib.Tok lib.LGraph lib.Mono.
From SK Require model.C06_Model model.C11_Model.
From SK Require Import lib.C06_Spec proof.C06_All proof.C06_Comp proof.C06_CompSem proof.C06_Main.
From SK Require Import model.C03_Model model.C05_Model proof.C05_Proof.
Import ListNotations.

Section WithThr.
Context {TH : Thr}.


(** [find] uses its enumeration oracle only by calling it *)
Section FindExt.
  Variables enum enum' : list N -> list N -> list C06_Model.mapping.
  Hypothesis E : forall hn pn, enum hn pn = enum' hn pn.

  Lemma cc_outer_ext cap thr pc cands : forall maps n,
    C06_Model.cc_outer enum cap thr pc cands maps n = C06_Model.cc_outer enum' cap thr pc cands maps n.
  Proof.
    induction cands as [|[i hc] r IH]; intros maps n; simpl; [reflexivity|].
    rewrite E. destruct (C06_Model.cc_inner cap thr i (enum' hc pc) maps n) as [[maps' n']|]; [|reflexivity].
    destruct (C06_Model.capped cap n'); [reflexivity | apply IH].
  Qed.

  Lemma per_cc_all_ext cap thr hcs pcs :
    C06_Model.per_cc_all enum cap thr hcs pcs = C06_Model.per_cc_all enum' cap thr hcs pcs.
  Proof.
    induction pcs as [|pc r IH]; simpl; [reflexivity|].
    destruct (filter _ hcs) as [|c cs]; [reflexivity|]. rewrite cc_outer_ext, IH. reflexivity.
  Qed.

  Lemma find_ext c H P : C06_Model.find enum c H P = C06_Model.find enum' c H P.
  Proof.
    unfold C06_Model.find, C06_Model.find_bt, C06_Model.find_comp, C06_Model.find_all.
    rewrite per_cc_all_ext, !E. reflexivity.
  Qed.
End FindExt.

Lemma matches_monos_on strat host pat :
  matches strat host pat
  = C06_Model.find (C06_Model.monos_on (host_c06 host) (pat_c06 pat)) (cfg_of strat) (host_c06 host) (pat_c06 pat).
Proof. unfold matches. apply find_ext. intros hn pn. apply monos_on'_eq. Qed.

(** every component-aware match is an exhaustive match.  Premises: the converted graphs are well formed ([gwf]:
    distinct node ids, bonds join two different listed atoms — evaluated on every case of the correspondence) and
    neither search hits the engine's threshold of 5000 embeddings (past it the engine empties the result, and the
    exhaustive search hits it first). *)
Lemma comp_subset_all (host : hostg) (pat : molg) :
  let H := host_c06 host in
  let P := pat_c06 pat in
  gwf H -> gwf P ->
  (comp_bound (C06_Model.monos_on H P) true H P <= thr_val)%N ->
  (C06_Model.lenN (C06_Model.monos_on H P (node_ids H) (node_ids P)) <= thr_val)%N ->
  forall m, In m (matches 1%N host pat) -> exists m', In m' (matches 0%N host pat) /\ Permutation m m'.
Proof.
  intros H P HwH HwP Hb Hl m. rewrite !matches_monos_on. fold H. fold P.
  pose proof (monos_on_oracle_ok H P HwH HwP) as Hor.
  change (cfg_of 1%N) with (C06_Model.Cfg 1 0 thr_val true false).
  change (cfg_of 0%N) with (C06_Model.Cfg 0 0 thr_val true false).
  rewrite (find_comp_unlimited (C06_Model.monos_on H P) thr_val true H P Hb).
  destruct (all_exact (C06_Model.monos_on H P) thr_val true H P (proj1 Hor) Hl) as (_ & Hcomplete & _).
  pose proof (comp_unl_spec (C06_Model.monos_on H P) H P HwH HwP Hor true) as S. cbv zeta in S.
  intros Hin.
  destruct ((0 <? length (C06_Model.comps P))%nat && (length (C06_Model.comps P) <? length (C06_Model.comps H))%nat && true)%bool.
  - rewrite S in Hin. destruct Hin.
  - destruct (length (C06_Model.comps H) <? length (C06_Model.comps P))%nat.
    + apply Hcomplete. apply (proj1 S). exact Hin.
    + apply Hcomplete. apply (proj1 S m Hin).
Qed.

(** ** insertion order of BOTH inputs: the exhaustive strategy returns the same set of matches (as sets of pairs) *)
End WithThr.
From SK Require Import proof.C05_Order.
Section WithThr2.
Context {TH : Thr}.

Lemma lab_pat_c06 (g : molg) u :
  C06_Model.lab (pat_c06 g) u
  = match label g u with Some a => ([m_el a; zcode (m_ch a)], Z.to_N (m_hc a)) | None => ([], 0%N) end.
Proof.
  unfold C06_Model.lab, label, pat_c06; simpl.
  induction (gnodes g) as [|[k a] r IH]; simpl; [reflexivity|]. destruct (N.eqb u k); [reflexivity | apply IH].
Qed.

Lemma adj_pat_c06 (g : molg) u v : LGraph.adj (pat_c06 g) u v = option_map (fun o => [zcode o]) (LGraph.adj g u v).
Proof.
  unfold LGraph.adj, pat_c06; simpl.
  induction (gedges g) as [|[[a b] o] r IH]; simpl; [reflexivity|].
  destruct ((N.eqb a u && N.eqb b v) || (N.eqb a v && N.eqb b u)); [reflexivity | apply IH].
Qed.

Lemma node_ids_pat_c06 (g : molg) : node_ids (pat_c06 g) = node_ids g.
Proof. unfold node_ids, pat_c06; simpl. rewrite map_map. reflexivity. Qed.

Lemma is_mono_same (host host' : hostg) (pat pat' : molg) m :
  same_graph host host' -> same_graph pat pat' ->
  is_mono (host_c06 host) (pat_c06 pat) m -> is_mono (host_c06 host') (pat_c06 pat') m.
Proof.
  intros (H1 & H2 & H3 & _ & _) (P1 & P2 & P3 & _ & _) (A & B & C & D & E).
  unfold is_mono, is_mono_on. split; [exact A|]. split.
  - intros p. rewrite B, !node_ids_pat_c06. apply P3.
  - split; [exact C|]. split.
    + intros p h Hin. destruct (D p h Hin) as (Dh & Dn). split.
      * rewrite node_ids_host_c06 in *. apply H3. exact Dh.
      * rewrite lab_host_c06, lab_pat_c06, H1, P1. rewrite lab_host_c06, lab_pat_c06 in Dn. exact Dn.
    + intros p h p' h' b I1 I2 Hb. rewrite adj_pat_c06, P2 in Hb. rewrite adj_host_c06, H2.
      rewrite <- adj_pat_c06 in Hb. destruct (E p h p' h' b I1 I2 Hb) as (b' & Eb & Em).
      exists b'. split; [|exact Em]. rewrite <- adj_host_c06. exact Eb.
Qed.

Lemma matches_all_any_order (host host' : hostg) (pat pat' : molg) :
  same_graph host host' -> same_graph pat pat' ->
  let H := host_c06 host in let P := pat_c06 pat in
  let H' := host_c06 host' in let P' := pat_c06 pat' in
  gwf H -> gwf P -> gwf H' -> gwf P' ->
  (C06_Model.lenN (C06_Model.monos_on H P (node_ids H) (node_ids P)) <= thr_val)%N ->
  (C06_Model.lenN (C06_Model.monos_on H' P' (node_ids H') (node_ids P')) <= thr_val)%N ->
  forall m, In m (matches 0%N host pat) -> exists m', In m' (matches 0%N host' pat') /\ Permutation m m'.
Proof.
  intros HS PS H P H' P' Hw Pw Hw' Pw' Hl Hl' m. rewrite !matches_monos_on. fold H P H' P'.
  change (cfg_of 0%N) with (C06_Model.Cfg 0 0 thr_val true false).
  destruct (all_exact (C06_Model.monos_on H P) thr_val true H P (proj1 (monos_on_oracle_ok H P Hw Pw)) Hl) as (Hsound & _ & _).
  destruct (all_exact (C06_Model.monos_on H' P') thr_val true H' P' (proj1 (monos_on_oracle_ok H' P' Hw' Pw')) Hl') as (_ & Hcomplete & _).
  intros Hin. apply Hcomplete. apply (is_mono_same host host' pat pat' m HS PS). apply Hsound. exact Hin.
Qed.

End WithThr2.
