(** C02 — proofs about get_rc with options (model/C02_Model.v [get_rc_x]): what keep_mtg, disconnected and
    element_key add to the default centre; agreement with [get_rc]. *)
From Coq Require Import List NArith ZArith Bool Lia.
From SK Require Import lib.LGraph lib.C01_GraphLemmas model.C01_Model model.C02_Model proof.C02_Proof.
Import ListNotations.
Local Open Scope Z_scope.

(** * generic list facts *)
Lemma find_edge_map {B C} (f : B -> C) (es : list (N * N * B)) u v :
  find_edge u v (map (fun e => let '(a, b, x) := e in (a, b, f x)) es) = option_map f (find_edge u v es).
Proof.
  induction es as [|[[a b] x] r IH]; simpl; [reflexivity|].
  destruct ((N.eqb a u && N.eqb b v) || (N.eqb a v && N.eqb b u)); [reflexivity|exact IH].
Qed.

Lemma find_edge_pair_eq {B} (es : list (N * N * B)) a b u v :
  (N.eqb a u && N.eqb b v) || (N.eqb a v && N.eqb b u) = true -> find_edge u v es = find_edge a b es.
Proof.
  intros E. apply match_pair_spec in E. destruct E as [[-> ->]|[-> ->]]; [reflexivity|apply find_edge_sym].
Qed.

Lemma find_edge_filter {B} (p : N -> N -> B -> bool) (es : list (N * N * B)) :
  simple es -> (forall a b x, p a b x = p b a x) -> forall u v,
  find_edge u v (filter (fun e => p (fst (fst e)) (snd (fst e)) (snd e)) es) =
  match find_edge u v es with Some x => if p u v x then Some x else None | None => None end.
Proof.
  intros Hs Hp u v. induction Hs as [|a b x es Hn Hs IH]; simpl; [reflexivity|].
  destruct ((N.eqb a u && N.eqb b v) || (N.eqb a v && N.eqb b u)) eqn:E.
  - assert (p u v x = p a b x) as Ep.
    { apply match_pair_spec in E. destruct E as [[-> ->]|[-> ->]]; [reflexivity|apply Hp]. }
    rewrite Ep. destruct (p a b x); simpl.
    + rewrite E. reflexivity.
    + rewrite IH, (find_edge_pair_eq es a b u v E), Hn. reflexivity.
  - destruct (p a b x); simpl; [rewrite E|]; exact IH.
Qed.

(** edges appended unless the pair is already present: first wins *)
Definition add_absent {B} (new es : list (N * N * B)) : list (N * N * B) :=
  fold_left (fun es e => match find_edge (fst (fst e)) (snd (fst e)) es with Some _ => es | None => es ++ [e] end) new es.

Lemma find_add_absent {B} (new : list (N * N * B)) : forall es u v,
  find_edge u v (add_absent new es) = match find_edge u v es with Some x => Some x | None => find_edge u v new end.
Proof.
  induction new as [|[[a b] x] r IH]; intros es u v; simpl.
  - destruct (find_edge u v es); reflexivity.
  - unfold add_absent in *. simpl. destruct (find_edge a b es) as [y|] eqn:F.
    + rewrite IH. destruct (find_edge u v es) eqn:Fu; [reflexivity|].
      destruct ((N.eqb a u && N.eqb b v) || (N.eqb a v && N.eqb b u)) eqn:E; [|reflexivity].
      rewrite (find_edge_pair_eq es a b u v E) in Fu. congruence.
    + rewrite IH, find_edge_app. simpl. destruct (find_edge u v es); [reflexivity|].
      destruct ((N.eqb a u && N.eqb b v) || (N.eqb a v && N.eqb b u)); reflexivity.
Qed.

(** * the node component: insertion, first wins *)
Section Ins.
Variable g : xits.

Definition ins_all (f : xnode -> xnode) (l : list N) (ns : list (N * xnode)) : list (N * xnode) :=
  fold_left (fun ns n => ensure_x f g n ns) l ns.

Lemma assoc_ensure_x f n ns k :
  assoc k (ensure_x f g n ns) =
  match assoc k ns with Some b => Some b | None => if N.eqb k n then option_map f (label g n) else None end.
Proof.
  unfold ensure_x, has_key_x. destruct (assoc n ns) as [b|] eqn:En.
  - destruct (assoc k ns) eqn:Ek; [reflexivity|]. destruct (N.eqb_spec k n) as [->|]; [congruence|reflexivity].
  - destruct (label g n) as [a|] eqn:L.
    + rewrite assoc_app. destruct (assoc k ns); [reflexivity|]. simpl. destruct (N.eqb k n); reflexivity.
    + destruct (assoc k ns); [reflexivity|]. destruct (N.eqb k n); reflexivity.
Qed.

Lemma assoc_ins_all f l : forall ns k,
  assoc k (ins_all f l ns) =
  match assoc k ns with Some b => Some b | None => if LGraph.mem k l then option_map f (label g k) else None end.
Proof.
  induction l as [|n l IH]; intros ns k; simpl.
  - destruct (assoc k ns); reflexivity.
  - unfold ins_all in *. simpl. rewrite IH, assoc_ensure_x. destruct (assoc k ns); [reflexivity|].
    destruct (N.eqb_spec k n) as [->|Hne]; simpl.
    + destruct (label g n); simpl; [reflexivity|]. destruct (LGraph.mem n l); reflexivity.
    + reflexivity.
Qed.
End Ins.

(** * the three passes as insertions / appended edge lists *)
Definition ends {B} (es : list (N * N * B)) : list N := flat_map (fun e => [fst (fst e); snd (fst e)]) es.
Definition p_inc (keep : bool) (e : N * N * xedge) : bool := include_x keep (snd e).
Definition p_hh (g : xits) (e : N * N * xedge) : bool := is_hh_x g (fst (fst e)) (snd (fst e)).
Definition oute (o : xedge -> xedge) (e : N * N * xedge) : N * N * xedge := let '(a, b, x) := e in (a, b, o x).

Lemma mem_ends {B} (es : list (N * N * B)) k :
  LGraph.mem k (ends es) = true <-> exists a b x, In (a, b, x) es /\ (k = a \/ k = b).
Proof.
  rewrite LGraph.mem_spec. unfold ends. rewrite in_flat_map. split.
  - intros ([[a b] x] & I & Hk). simpl in Hk. exists a, b, x. intuition.
  - intros (a & b & x & I & Hk). exists (a, b, x). simpl. intuition.
Qed.

Lemma fold_changed_x_fst K keep g L : forall st,
  fst (fold_left (step_changed_x K keep g) L st) = ins_all g (sel_attr K) (ends (filter (p_inc keep) L)) (fst st).
Proof.
  induction L as [|[[u v] x] L IH]; intros st; simpl; [reflexivity|]. rewrite IH. unfold p_inc at 2. simpl.
  destruct (include_x keep x); reflexivity.
Qed.

Lemma fold_changed_x_snd K keep g L : forall st,
  snd (fold_left (step_changed_x K keep g) L st) = snd st ++ map (oute out_edge) (filter (p_inc keep) L).
Proof.
  induction L as [|[[u v] x] L IH]; intros st; simpl; [rewrite app_nil_r; reflexivity|]. rewrite IH.
  unfold p_inc at 2. simpl. destruct (include_x keep x); simpl; [rewrite <- app_assoc|]; reflexivity.
Qed.

Lemma fold_hh_x_fst K g L : forall st,
  fst (fold_left (step_hh_x K g) L st) = ins_all g (sel_attr_hh K) (ends (filter (p_hh g) L)) (fst st).
Proof.
  induction L as [|[[u v] x] L IH]; intros st; simpl; [reflexivity|]. rewrite IH. unfold p_hh at 2. simpl.
  destruct (is_hh_x g u v); reflexivity.
Qed.

Lemma fold_hh_x_snd K g L : forall st,
  snd (fold_left (step_hh_x K g) L st) = add_absent (map (oute out_edge) (filter (p_hh g) L)) (snd st).
Proof.
  induction L as [|[[u v] x] L IH]; intros st; simpl; [reflexivity|]. rewrite IH. unfold p_hh at 2. simpl.
  destruct (is_hh_x g u v); [|reflexivity]. simpl. unfold add_absent at 2. simpl.
  destruct (find_edge u v (snd st)); reflexivity.
Qed.

Definition p_both (ns : list (N * xnode)) (e : N * N * xedge) : bool :=
  has_key_x (fst (fst e)) ns && has_key_x (snd (fst e)) ns.

Lemma fold_reconnect ns L : forall es,
  fold_left (step_reconnect ns) L es = add_absent (map (oute out_edge_rec) (filter (p_both ns) L)) es.
Proof.
  induction L as [|[[u v] x] L IH]; intros es; simpl; [reflexivity|]. rewrite IH. unfold p_both at 2. simpl.
  destruct (has_key_x u ns && has_key_x v ns); simpl; [|reflexivity].
  unfold add_absent at 2. simpl. destruct (find_edge u v es); reflexivity.
Qed.

Lemma assoc_fold_charge K L : NoDup (map fst L) -> forall ns k,
  assoc k (fold_left (step_charge K) L ns) =
  match assoc k ns with
  | Some b => Some b
  | None => match assoc k L with Some a => if charge_changed a then Some (sel_attr K a) else None | None => None end
  end.
Proof.
  induction L as [|[n a] L IH]; intros Hnd ns k; simpl.
  - destruct (assoc k ns); reflexivity.
  - inversion Hnd as [|? ? Hni Hnd']; subst. rewrite (IH Hnd'). unfold step_charge. simpl. unfold has_key_x.
    destruct (N.eqb_spec k n) as [->|Hne].
    + assert (assoc n L = None) as -> by (apply assoc_none; exact Hni).
      destruct (charge_changed a); simpl; [|destruct (assoc n ns); reflexivity].
      destruct (assoc n ns) eqn:En; simpl; [rewrite En; reflexivity|].
      rewrite assoc_app, En. simpl. rewrite N.eqb_refl. reflexivity.
    + destruct (charge_changed a && negb match assoc n ns with Some _ => true | None => false end); [|reflexivity].
      rewrite assoc_app. destruct (assoc k ns); [reflexivity|]. simpl.
      destruct (N.eqb_spec k n); [contradiction|reflexivity].
Qed.

(** * get_rc_x: node labels and edge map, computationally *)
Definition ns2 (K : keysel) (keep : bool) (g : xits) : list (N * xnode) :=
  ins_all g (sel_attr_hh K) (ends (filter (p_hh g) (gedges g)))
          (ins_all g (sel_attr K) (ends (filter (p_inc keep) (gedges g))) []).

Lemma gnodes_rcx K d m g :
  gnodes (get_rc_x K d m g) = if d then fold_left (step_charge K) (gnodes g) (ns2 K m g) else ns2 K m g.
Proof.
  unfold get_rc_x, ns2. cbv zeta. rewrite fold_hh_x_fst, fold_changed_x_fst. destruct d; reflexivity.
Qed.

Definition L1 (m : bool) (g : xits) : list N := ends (filter (p_inc m) (gedges g)).
Definition L2 (g : xits) : list N := ends (filter (p_hh g) (gedges g)).

Lemma label_rcx K d m g : wf g -> forall n,
  label (get_rc_x K d m g) n =
  match label g n with
  | None => None
  | Some a => if LGraph.mem n (L1 m g) then Some (sel_attr K a)
              else if LGraph.mem n (L2 g) then Some (sel_attr_hh K a)
              else if d && charge_changed a then Some (sel_attr K a) else None
  end.
Proof.
  intros W n. unfold label at 1. rewrite gnodes_rcx.
  assert (assoc n (ns2 K m g) =
          match label g n with
          | None => None
          | Some a => if LGraph.mem n (L1 m g) then Some (sel_attr K a)
                      else if LGraph.mem n (L2 g) then Some (sel_attr_hh K a) else None
          end) as E2.
  { unfold ns2. rewrite !assoc_ins_all. simpl. fold (L1 m g). fold (L2 g).
    destruct (label g n); simpl; [|destruct (LGraph.mem n (L1 m g)); destruct (LGraph.mem n (L2 g)); reflexivity].
    destruct (LGraph.mem n (L1 m g)); [reflexivity|]. destruct (LGraph.mem n (L2 g)); reflexivity. }
  destruct d.
  - rewrite (assoc_fold_charge K (gnodes g) (proj1 W)), E2. fold (label g n).
    destruct (label g n) as [a|]; [|reflexivity].
    destruct (LGraph.mem n (L1 m g)); [reflexivity|]. destruct (LGraph.mem n (L2 g)); [reflexivity|].
    simpl. destruct (charge_changed a); reflexivity.
  - rewrite E2. destruct (label g n) as [a|]; [|reflexivity].
    destruct (LGraph.mem n (L1 m g)); [reflexivity|]. destruct (LGraph.mem n (L2 g)); reflexivity.
Qed.

Lemma gedges_rcx K d m g :
  gedges (get_rc_x K d m g) =
  let es2 := add_absent (map (oute out_edge) (filter (p_hh g) (gedges g))) (map (oute out_edge) (filter (p_inc m) (gedges g))) in
  if d then add_absent (map (oute out_edge_rec) (filter (p_both (gnodes (get_rc_x K d m g))) (gedges g))) es2 else es2.
Proof.
  unfold get_rc_x. cbv zeta. rewrite fold_hh_x_snd, fold_changed_x_snd. simpl. destruct d; simpl; [|reflexivity].
  rewrite fold_reconnect. reflexivity.
Qed.

Lemma is_hh_x_sym g u v : is_hh_x g u v = is_hh_x g v u.
Proof. unfold is_hh_x. apply andb_comm. Qed.

Lemma has_key_x_label K d m g n : has_key_x n (gnodes (get_rc_x K d m g)) = has_node (get_rc_x K d m g) n.
Proof. reflexivity. Qed.

Lemma adj_rcx K d m g : wf g -> forall u v,
  adj (get_rc_x K d m g) u v =
  match adj g u v with
  | None => None
  | Some x => if include_x m x || is_hh_x g u v then Some (out_edge x)
              else if d && has_node (get_rc_x K d m g) u && has_node (get_rc_x K d m g) v then Some (out_edge_rec x)
              else None
  end.
Proof.
  intros W u v. pose proof (wf_simple W) as Hs. unfold adj at 1. rewrite gedges_rcx. cbv zeta.
  assert (forall o p, (forall a b x, p a b x = p b a x) ->
          find_edge u v (map (oute o) (filter (fun e => p (fst (fst e)) (snd (fst e)) (snd e)) (gedges g))) =
          match adj g u v with Some x => if p u v x then Some (o x) else None | None => None end) as F.
  { intros o p Hp. unfold oute. rewrite find_edge_map, (find_edge_filter p (gedges g) Hs Hp). unfold adj.
    destruct (find_edge u v (gedges g)) as [x|]; [|reflexivity]. destruct (p u v x); reflexivity. }
  pose proof (F out_edge (fun _ _ x => include_x m x) ltac:(reflexivity)) as F1.
  pose proof (F out_edge (fun a b _ => is_hh_x g a b) ltac:(intros; apply is_hh_x_sym)) as F2.
  pose proof (F out_edge_rec (fun a b _ => has_key_x a (gnodes (get_rc_x K d m g)) && has_key_x b (gnodes (get_rc_x K d m g)))
                ltac:(intros; apply andb_comm)) as F3.
  cbv beta in F1, F2, F3. unfold p_inc, p_hh, p_both.
  destruct d.
  - rewrite !find_add_absent, F1, F2, F3. rewrite !has_key_x_label.
    destruct (adj g u v) as [x|]; [|reflexivity].
    destruct (include_x m x); simpl; [reflexivity|]. destruct (is_hh_x g u v); reflexivity.
  - rewrite find_add_absent, F1, F2. destruct (adj g u v) as [x|]; [|reflexivity].
    destruct (include_x m x); simpl; [reflexivity|]. destruct (is_hh_x g u v); reflexivity.
Qed.

(** * Prop-level vocabulary *)
Definition inc_end (m : bool) (g : xits) (n : N) : Prop := exists v x, adj g n v = Some x /\ include_x m x = true.
Definition hh_end (g : xits) (n : N) : Prop := exists v x, adj g n v = Some x /\ is_hh_x g n v = true.

Lemma mem_L1 m g n : wf g -> (LGraph.mem n (L1 m g) = true <-> inc_end m g n).
Proof.
  intros W. unfold L1. rewrite mem_ends. unfold inc_end. split.
  - intros (a & b & x & I & Hk). apply filter_In in I. destruct I as [I P]. unfold p_inc in P. simpl in P.
    destruct Hk as [-> | ->]; [exists b, x|exists a, x]; split; auto; apply (wf_adj_iff W); auto.
  - intros (v & x & A & P). apply (wf_adj_iff W) in A. destruct A as [A|A].
    + exists n, v, x. split; [apply filter_In; auto|auto].
    + exists v, n, x. split; [apply filter_In; auto|auto].
Qed.

Lemma mem_L2 g n : wf g -> (LGraph.mem n (L2 g) = true <-> hh_end g n).
Proof.
  intros W. unfold L2. rewrite mem_ends. unfold hh_end. split.
  - intros (a & b & x & I & Hk). apply filter_In in I. destruct I as [I P]. unfold p_hh in P. simpl in P.
    destruct Hk as [-> | ->]; [exists b, x|exists a, x]; split; auto; try (apply (wf_adj_iff W); auto).
    rewrite is_hh_x_sym. exact P.
  - intros (v & x & A & P). apply (wf_adj_iff W) in A. destruct A as [A|A].
    + exists n, v, x. split; [apply filter_In; auto|auto].
    + exists v, n, x. split; [apply filter_In; split; [exact A|unfold p_hh; simpl; rewrite is_hh_x_sym; exact P]|auto].
Qed.

Lemma mem_false_iff (b : bool) (P : Prop) : (b = true <-> P) -> (b = false <-> ~ P).
Proof. destruct b; intuition congruence. Qed.

(** ** nodes: which atoms, with which labels *)
Theorem rcx_nodes K d m (g : xits) : wf g -> forall n b,
  label (get_rc_x K d m g) n = Some b <->
  exists a, label g n = Some a /\
    ((inc_end m g n /\ b = sel_attr K a) \/
     (~ inc_end m g n /\ hh_end g n /\ b = sel_attr_hh K a) \/
     (~ inc_end m g n /\ ~ hh_end g n /\ d = true /\ charge_changed a = true /\ b = sel_attr K a)).
Proof.
  intros W n b. rewrite (label_rcx K d m g W). pose proof (mem_L1 m g n W) as H1. pose proof (mem_L2 g n W) as H2.
  pose proof (mem_false_iff _ _ H1) as N1. pose proof (mem_false_iff _ _ H2) as N2.
  destruct (label g n) as [a|]; [|split; [discriminate|intros (a & L & _); discriminate]].
  destruct (LGraph.mem n (L1 m g)) eqn:M1.
  - split.
    + intros [= <-]. exists a. split; [reflexivity|]. left. split; [apply H1; reflexivity|reflexivity].
    + intros (a' & [= <-] & [[_ ->]|[[C _]|[C _]]]); [reflexivity| |]; exfalso; apply C, H1; reflexivity.
  - destruct (LGraph.mem n (L2 g)) eqn:M2.
    + split.
      * intros [= <-]. exists a. split; [reflexivity|]. right. left. repeat split; [apply N1|apply H2]; reflexivity.
      * intros (a' & [= <-] & [[C _]|[(_ & _ & ->)|(_ & C & _)]]); [|reflexivity|].
        -- apply H1 in C. congruence.
        -- exfalso. apply C, H2. reflexivity.
    + split.
      * destruct (d && charge_changed a) eqn:Dc; [|discriminate]. apply andb_true_iff in Dc. destruct Dc as [-> Cc].
        intros [= <-]. exists a. split; [reflexivity|]. right. right. repeat split; auto; [apply N1|apply N2]; reflexivity.
      * intros (a' & [= <-] & [[C _]|[(_ & C & _)|(_ & _ & -> & Cc & ->)]]).
        -- apply H1 in C. congruence.
        -- apply H2 in C. congruence.
        -- simpl. rewrite Cc. reflexivity.
Qed.

(** ** edges *)
Theorem rcx_edges K d m (g : xits) : wf g -> forall u v y,
  adj (get_rc_x K d m g) u v = Some y <->
  exists x, adj g u v = Some x /\
    (((include_x m x = true \/ is_hh_x g u v = true) /\ y = out_edge x) \/
     (include_x m x = false /\ is_hh_x g u v = false /\ d = true /\
      In u (node_ids (get_rc_x K d m g)) /\ In v (node_ids (get_rc_x K d m g)) /\ y = out_edge_rec x)).
Proof.
  intros W u v y. rewrite (adj_rcx K d m g W). destruct (adj g u v) as [x|]; [|split; [discriminate|intros (x & A & _); discriminate]].
  destruct (include_x m x || is_hh_x g u v) eqn:E.
  - split.
    + intros [= <-]. exists x. split; [reflexivity|]. left. split; [apply orb_true_iff; exact E|reflexivity].
    + intros (x' & [= <-] & [[_ ->]|(E1 & E2 & _)]); [reflexivity|]. rewrite E1, E2 in E. discriminate.
  - apply orb_false_iff in E. destruct E as [E1 E2]. split.
    + destruct (d && has_node (get_rc_x K d m g) u && has_node (get_rc_x K d m g) v) eqn:Dc; [|discriminate].
      apply andb_true_iff in Dc. destruct Dc as [Dc Hv]. apply andb_true_iff in Dc. destruct Dc as [-> Hu].
      intros [= <-]. exists x. split; [reflexivity|]. right. apply has_node_spec in Hu, Hv. auto 8.
    + intros (x' & [= <-] & [[[C|C] _]|(_ & _ & -> & Hu & Hv & ->)]); [congruence|congruence|].
      apply has_node_spec in Hu, Hv. rewrite Hu, Hv. reflexivity.
Qed.

(** node ids *)
Lemma rcx_node_ids K d m (g : xits) : wf g -> forall n,
  In n (node_ids (get_rc_x K d m g)) <->
  exists a, label g n = Some a /\ (inc_end m g n \/ hh_end g n \/ (d = true /\ charge_changed a = true)).
Proof.
  intros W n. split.
  - intros I. apply node_label_some in I. destruct I as (b & L). apply (rcx_nodes K d m g W) in L.
    destruct L as (a & L & H). exists a. split; [exact L|]. tauto.
  - intros (a & L & H). apply has_node_spec. unfold has_node. rewrite (label_rcx K d m g W), L.
    destruct (LGraph.mem n (L1 m g)) eqn:M1; [reflexivity|]. destruct (LGraph.mem n (L2 g)) eqn:M2; [reflexivity|].
    destruct H as [H|[H|[-> Cc]]].
    + apply (mem_L1 m g n W) in H. congruence.
    + apply (mem_L2 g n W) in H. congruence.
    + simpl. rewrite Cc. reflexivity.
Qed.

(** ** what each option adds *)

(** keep_mtg (disconnected = False): bonds of the centre = changed or flagged or H-H bonds *)
Theorem rcx_keep_mtg K (g : xits) : wf g -> forall u v y,
  adj (get_rc_x K false true g) u v = Some y <->
  exists x, adj g u v = Some x /\ y = out_edge x /\
            (changed (fst x) = true \/ mtg_flag x = true \/ is_hh_x g u v = true).
Proof.
  intros W u v y. rewrite (rcx_edges K false true g W). unfold include_x. simpl. split.
  - intros (x & A & [[H ->]|(_ & _ & C & _)]); [|discriminate]. exists x. rewrite orb_true_iff in H. tauto.
  - intros (x & A & -> & H). exists x. split; [exact A|]. left. rewrite orb_true_iff. tauto.
Qed.

(** the centre for keep_mtg = False ignores the flags *)
Lemma include_x_false x : include_x false x = changed (fst x).
Proof. unfold include_x. simpl. apply orb_false_r. Qed.

(** disconnected: atoms = atoms of the connected variant + atoms whose charge differs in typesGH;
    bonds = all ITS bonds between those atoms (order and standard_order kept) *)
Theorem rcx_disconnected K m (g : xits) : wf g ->
  let R := get_rc_x K true m g in
  (forall n, In n (node_ids R) <->
             In n (node_ids (get_rc_x K false m g)) \/ (exists a, label g n = Some a /\ charge_changed a = true)) /\
  (forall u v e, (exists y, adj R u v = Some y /\ fst y = e) <->
                 (exists x, adj g u v = Some x /\ fst x = e) /\ In u (node_ids R) /\ In v (node_ids R)).
Proof.
  intros W R. split.
  - intros n. unfold R. rewrite !(rcx_node_ids K _ m g W). split.
    + intros (a & L & [H|[H|[_ H]]]); [left; exists a; tauto|left; exists a; tauto|right; exists a; tauto].
    + intros [(a & L & [H|[H|[C _]]])|(a & L & Cc)]; try discriminate; exists a; tauto.
  - intros u v e. split.
    + intros (y & A & <-). apply (rcx_edges K true m g W) in A.
      destruct A as (x & A & [[H ->]|(_ & _ & _ & Hu & Hv & ->)]); [|split; [exists x; auto|auto]].
      split; [exists x; auto|].
      pose proof (proj1 (wf_adj_iff W u v x) A) as I.
      assert (In u (node_ids g) /\ In v (node_ids g)) as [Iu Iv].
      { destruct I as [I|I]; destruct (wf_edge_nodes W I) as (P & Q & _); auto. }
      apply node_label_some in Iu, Iv. destruct Iu as (a & La). destruct Iv as (b & Lb).
      unfold R. rewrite !(rcx_node_ids K true m g W). split; [exists a|exists b]; (split; [assumption|]).
      * destruct H as [H|H]; [left; exists v, x; auto|right; left; exists v, x; auto].
      * rewrite adj_sym in A. destruct H as [H|H]; [left; exists u, x; auto|right; left; exists u, x].
        rewrite is_hh_x_sym. auto.
    + intros [(x & A & <-) [Hu Hv]]. unfold R in *. rewrite (adj_rcx K true m g W), A.
      apply has_node_spec in Hu, Hv. rewrite Hu, Hv. simpl.
      destruct (include_x m x || is_hh_x g u v); eexists; split; reflexivity.
Qed.

(** the default centre is a subgraph of every variant *)
Lemma include_x_mono m x : include_x false x = true -> include_x m x = true.
Proof. unfold include_x. simpl. rewrite orb_false_r. intros ->. reflexivity. Qed.

Theorem rcx_default_sub K d m (g : xits) : wf g ->
  (forall n, In n (node_ids (get_rc_x K false false g)) -> In n (node_ids (get_rc_x K d m g))) /\
  (forall u v y, adj (get_rc_x K false false g) u v = Some y -> adj (get_rc_x K d m g) u v = Some y).
Proof.
  intros W. split.
  - intros n. rewrite !(rcx_node_ids _ _ _ g W). intros (a & L & [(v & x & A & H)|[H|[C _]]]); [| |discriminate]; exists a; split; auto.
    left. exists v, x. split; [exact A|apply include_x_mono; exact H].
  - intros u v y A. apply (rcx_edges K false false g W) in A. destruct A as (x & A & [[H ->]|(_ & _ & C & _)]); [|discriminate].
    rewrite (adj_rcx K d m g W), A.
    assert (include_x m x || is_hh_x g u v = true) as ->; [|reflexivity].
    apply orb_true_iff. destruct H as [H|H]; [left; apply include_x_mono; exact H|right; exact H].
Qed.

(** * with the default options (and keep_mtg = False, or no bond flagged) get_rc_x is get_rc, is_mtg forgotten *)
Definition forget (es : list (N * N * xedge)) : list (N * N * iedge) := map (fun e => let '(a, b, x) := e in (a, b, fst x)) es.
Definition xmapn (ns : list (N * inode)) : list (N * xnode) := map (fun p => (fst p, xn_of (snd p))) ns.

Lemma label_strip_f (g : fits) n : label (strip_f g) n = label g n.
Proof.
  destruct g as [ns es]. unfold label, strip_f, gmap. simpl. rewrite (assoc_map_val (fun _ (a : inode) => a)).
  destruct (assoc n ns); reflexivity.
Qed.
Lemma label_emb_f (g : fits) n : label (emb_f g) n = option_map xn_of (label g n).
Proof. destruct g as [ns es]. unfold label, emb_f, gmap. simpl. apply (assoc_map_val (fun _ (a : inode) => xn_of a)). Qed.
Lemma has_key_xmapn n ns : has_key_x n (xmapn ns) = has_key n ns.
Proof. unfold has_key_x, has_key, xmapn. rewrite (assoc_map_val (fun _ (a : inode) => xn_of a)). destruct (assoc n ns); reflexivity. Qed.

Lemma sel_default_xn a : sel_attr K_default (xn_of a) = xn_of (rc_attr a).
Proof. destruct a. reflexivity. Qed.
Lemma sel_hh_default_xn a : sel_attr_hh K_default (xn_of a) = xn_of (rc_attr a).
Proof. destruct a. reflexivity. Qed.

Lemma ensure_sim (f : xnode -> xnode) (g : fits) n ns : (forall a, f (xn_of a) = xn_of (rc_attr a)) ->
  ensure_x f (emb_f g) n (xmapn ns) = xmapn (ensure_node (strip_f g) n ns).
Proof.
  intros Hf. unfold ensure_x, ensure_node. rewrite has_key_xmapn, label_emb_f, label_strip_f.
  destruct (has_key n ns); [reflexivity|]. destruct (label g n) as [a|]; simpl; [|reflexivity].
  unfold xmapn. rewrite map_app. simpl. rewrite Hf. reflexivity.
Qed.

Lemma is_hh_sim (g : fits) u v : is_hh_x (emb_f g) u v = is_hh (strip_f g) u v.
Proof.
  unfold is_hh_x, is_hh, is_h_x, is_h. rewrite !label_emb_f, !label_strip_f.
  destruct (label g u); destruct (label g v); reflexivity.
Qed.

Definition simst (stx : rcx_state) (st : rc_state) : Prop := fst stx = xmapn (fst st) /\ forget (snd stx) = snd st.

Lemma forget_app a b : forget (a ++ b) = forget a ++ forget b.
Proof. apply map_app. Qed.

Lemma fold_changed_sim (g : fits) m (L : list (N * N * xedge)) :
  (forall u v x, In (u, v, x) L -> include_x m x = changed (fst x)) -> forall stx st, simst stx st ->
  simst (fold_left (step_changed_x K_default m (emb_f g)) L stx) (fold_left (step_changed (strip_f g)) (forget L) st).
Proof.
  induction L as [|[[u v] x] L IH]; intros Hm stx st Hs; simpl; [exact Hs|].
  apply IH; [intros; eapply Hm; right; eauto|].
  rewrite (Hm u v x (or_introl eq_refl)). destruct (changed (fst x)); [|exact Hs].
  destruct Hs as [H1 H2]. split; simpl.
  - rewrite H1, !(ensure_sim _ g _ _ sel_default_xn). reflexivity.
  - rewrite forget_app, H2. reflexivity.
Qed.

Lemma fold_hh_sim (g : fits) (L : list (N * N * xedge)) : forall stx st, simst stx st ->
  simst (fold_left (step_hh_x K_default (emb_f g)) L stx) (fold_left (step_hh (strip_f g)) (forget L) st).
Proof.
  induction L as [|[[u v] x] L IH]; intros stx st Hs; simpl; [exact Hs|].
  apply IH. rewrite is_hh_sim. destruct (is_hh (strip_f g) u v); [|exact Hs].
  destruct stx as [nsx esx]. destruct st as [ns0 es0]. destruct Hs as [H1 H2]. simpl in H1, H2. subst nsx es0. split; simpl.
  - rewrite !(ensure_sim _ g _ _ sel_hh_default_xn). reflexivity.
  - unfold forget at 1. rewrite (find_edge_map (@fst iedge (option bool))).
    unfold xedge in *. destruct (find_edge u v esx) eqn:F; simpl; [reflexivity|]. rewrite forget_app. reflexivity.
Qed.

Theorem rcx_default_is_get_rc (g : fits) (m : bool) :
  (m = false \/ forall u v x, In (u, v, x) (gedges g) -> mtg_flag x = false) ->
  gmap (fun a : xnode => a) (@fst iedge (option bool)) (get_rc_x K_default false m (emb_f g)) =
  gmap xn_of (fun e : iedge => e) (get_rc (strip_f g)).
Proof.
  intros Hm.
  assert (forall u v x, In (u, v, x) (gedges g) -> include_x m x = changed (fst x)) as Hinc.
  { intros u v x I. unfold include_x. destruct Hm as [->|Hf]; [apply orb_false_r|].
    rewrite (Hf u v x I), andb_false_r. apply orb_false_r. }
  assert (gedges (emb_f g) = gedges g) as Ee.
  { unfold emb_f, gmap. simpl. rewrite <- (map_id (gedges g)) at 2. apply map_ext. intros [[a b] x]. reflexivity. }
  assert (gedges (strip_f g) = forget (gedges g)) as Es by reflexivity.
  unfold get_rc_x, get_rc. cbv zeta. rewrite Ee, Es.
  pose proof (fold_hh_sim g (gedges g) _ _ (fold_changed_sim g m (gedges g) Hinc ([], []) ([], []) (conj eq_refl eq_refl))) as [H1 H2].
  unfold gmap. simpl. f_equal.
  - rewrite H1. unfold xmapn. rewrite !map_map. apply map_ext. intros [n a]. reflexivity.
  - rewrite <- H2. unfold forget. rewrite map_map. apply map_ext. intros [[a b] x]. reflexivity.
Qed.

(** for an ITS without is_mtg attributes every bond of the default centre carries is_mtg = False *)
Theorem rcx_default_emb (g : its) :
  get_rc_x K_default false false (emb g) = gmap xn_of (fun e : iedge => (e, Some false)) (get_rc g).
Proof.
  pose (gf := gmap (fun a : inode => a) (fun e : iedge => (e, @None bool)) g : fits).
  assert (emb g = emb_f gf) as ->.
  { unfold emb, emb_f, gf, gmap. simpl. rewrite !map_map.
    assert (forall (a a' : list (N * xnode)) (b b' : list (N * N * xedge)), a = a' -> b = b' -> LG a b = LG a' b') as lg_eq
        by (intros; subst; reflexivity).
    apply lg_eq; apply map_ext; [intros [n a]|intros [[a b] x]]; reflexivity. }
  assert (strip_f gf = g) as Eg.
  { unfold strip_f, gf, gmap. simpl. rewrite !map_map. destruct g as [ns es]. simpl.
    assert (forall (a a' : list (N * inode)) (b b' : list (N * N * iedge)), a = a' -> b = b' -> LG a b = LG a' b') as lg_eq
        by (intros; subst; reflexivity).
    apply lg_eq.
    - rewrite <- (map_id ns) at 2. apply map_ext. intros [n a]. reflexivity.
    - rewrite <- (map_id es) at 2. apply map_ext. intros [[a b] x]. reflexivity. }
  pose proof (rcx_default_is_get_rc gf false (or_introl eq_refl)) as H. rewrite Eg in H.
  (* every edge of the x-centre has flag Some false *)
  assert (forall L stx, (forall e, In e (snd stx) -> snd (snd e) = Some false) ->
                        (forall e, In e L -> snd (snd e) = None) ->
                        forall e, In e (snd (fold_left (step_hh_x K_default (emb_f gf)) L stx)) -> snd (snd e) = Some false) as Hh.
  { induction L as [|[[u v] x] L IH]; intros stx Hst HL; simpl; [exact Hst|]. apply IH; [|intros; apply HL; right; assumption].
    destruct (is_hh_x (emb_f gf) u v); [|exact Hst]. destruct stx as [nsx esx]. simpl in *. unfold xedge in *.
    destruct (find_edge u v esx); [exact Hst|].
    intros e I. apply in_app_iff in I. destruct I as [I|[<-|[]]]; [apply Hst; exact I|]. simpl. unfold mtg_flag.
    pose proof (HL (u, v, x) (or_introl eq_refl)) as Hx. simpl in Hx. rewrite Hx. reflexivity. }
  assert (forall L stx, (forall e, In e (snd stx) -> snd (snd e) = Some false) ->
                        (forall e, In e L -> snd (snd e) = None) ->
                        forall e, In e (snd (fold_left (step_changed_x K_default false (emb_f gf)) L stx)) -> snd (snd e) = Some false) as Hc.
  { induction L as [|[[u v] x] L IH]; intros stx Hst HL; simpl; [exact Hst|]. apply IH; [|intros; apply HL; right; assumption].
    destruct (include_x false x); [|exact Hst]. simpl.
    intros e I. apply in_app_iff in I. destruct I as [I|[<-|[]]]; [apply Hst; exact I|]. simpl. unfold mtg_flag.
    pose proof (HL (u, v, x) (or_introl eq_refl)) as Hx. simpl in Hx. rewrite Hx. reflexivity. }
  assert (forall e, In e (gedges (emb_f gf)) -> snd (snd e) = None) as Hnone.
  { intros e I. unfold emb_f, gf, gmap in I. simpl in I. rewrite map_map in I. apply in_map_iff in I.
    destruct I as ([[a b] x] & <- & _). reflexivity. }
  assert (forall e, In e (gedges (get_rc_x K_default false false (emb_f gf))) -> snd (snd e) = Some false) as Hfl.
  { unfold get_rc_x. cbv zeta. simpl. apply Hh; [apply Hc; [intros e []|exact Hnone]|exact Hnone]. }
  revert H Hfl. generalize (get_rc_x K_default false false (emb_f gf)). intros [ns es]. generalize (get_rc g). intros [ns' es'].
  unfold gmap. simpl. intros [= Hn He] Hfl.
  assert (Hid1 : forall l : list (N * xnode), map (fun p => (fst p, snd p)) l = l).
  { intros l. rewrite <- (map_id l) at 2. apply map_ext. intros [? ?]. reflexivity. }
  assert (Hid2 : forall l : list (N * N * iedge), map (fun e => let '(u, v, x) := e in (u, v, x)) l = l).
  { intros l. rewrite <- (map_id l) at 2. apply map_ext. intros [[? ?] ?]. reflexivity. }
  rewrite Hid1 in Hn. rewrite Hid2 in He. subst ns es'. rewrite map_map.
  assert (es = map (fun x : N * N * (iedge * option bool) => let '(u, v, x0) := let '(u, v, x0) := x in (u, v, fst x0) in (u, v, (x0, Some false))) es) as <-; [|reflexivity].
  rewrite <- (map_id es) at 1. apply map_ext_in. intros [[a b] [x fl]] I.
  specialize (Hfl _ I). simpl in Hfl. subst fl. reflexivity.
Qed.
