(** C18 — the two views of every network are well-formed graphs in the attribute domain of the theorems. *)
From Coq Require Import List NArith ZArith Bool Arith Lia Permutation.
From SK Require Import lib.IRCore model.C18_Model proof.C18_Spec proof.C18_Graph proof.C18_Label.
Import ListNotations.

Definition GI (g : vgraph) : Prop := wf g /\ kinds_ok g /\ arcs_ok g.
Definition kind_dom (k : Z) : Prop := k = KREACTION \/ k = KSPECIES.

(* ---------------- node insertion ---------------- *)
Lemma set_node_in v k l x : In x (map fst (set_node v k l)) <-> x = v \/ In x (map fst l).
Proof.
  induction l as [|[u k'] l IH]; simpl; [intuition|].
  destruct (N.eqb_spec u v) as [->|Hne]; simpl; [intuition|]. rewrite IH. intuition.
Qed.
Lemma set_node_nodup v k l : NoDup (map fst l) -> NoDup (map fst (set_node v k l)).
Proof.
  induction l as [|[u k'] l IH]; simpl; intros H; [constructor; auto; constructor|].
  inversion H; subst. destruct (N.eqb_spec u v) as [->|Hne]; simpl; [constructor; auto|].
  constructor; auto. rewrite set_node_in. intros [E|I]; auto.
Qed.
Lemma set_node_mem v k l p : In p (set_node v k l) -> In p l \/ p = (v, k).
Proof.
  induction l as [|[u k'] l IH]; simpl; [intuition|].
  destruct (N.eqb_spec u v) as [->|Hne]; simpl; intros [E|I]; auto. destruct (IH I); auto.
Qed.
Lemma ensure_node_in v k l x : In x (map fst (ensure_node v k l)) <-> x = v \/ In x (map fst l).
Proof.
  induction l as [|[u k'] l IH]; simpl; [intuition|].
  destruct (N.eqb_spec u v) as [->|Hne]; simpl; [intuition|]. rewrite IH. intuition.
Qed.
Lemma ensure_node_nodup v k l : NoDup (map fst l) -> NoDup (map fst (ensure_node v k l)).
Proof.
  induction l as [|[u k'] l IH]; simpl; intros H; [constructor; auto; constructor|].
  inversion H; subst. destruct (N.eqb_spec u v) as [->|Hne]; simpl; [constructor; auto|].
  constructor; auto. rewrite ensure_node_in. intros [E|I]; auto.
Qed.
Lemma ensure_node_mem v k l p : In p (ensure_node v k l) -> In p l \/ p = (v, k).
Proof.
  induction l as [|[u k'] l IH]; simpl; [intuition|].
  destruct (N.eqb_spec u v) as [->|Hne]; simpl; intros [E|I]; auto. destruct (IH I); auto.
Qed.

(* ---------------- arc insertion ---------------- *)
Lemma akey_eqb e u v : N.eqb (asrc e) u && N.eqb (adst e) v = true <-> akey e = (u, v).
Proof.
  unfold akey. rewrite andb_true_iff, !N.eqb_eq. split; [intros [-> ->]; auto|intros E; inversion E; auto].
Qed.
Lemma set_arc_in u v a l x : In x (map akey (set_arc u v a l)) <-> x = (u, v) \/ In x (map akey l).
Proof.
  induction l as [|e l IH]; simpl; [intuition|].
  destruct (N.eqb (asrc e) u && N.eqb (adst e) v) eqn:E; simpl.
  - apply akey_eqb in E. rewrite E. unfold akey at 1. simpl. intuition.
  - rewrite IH. intuition.
Qed.
Lemma set_arc_nodup u v a l : NoDup (map akey l) -> NoDup (map akey (set_arc u v a l)).
Proof.
  induction l as [|e l IH]; simpl; intros H; [constructor; auto; constructor|].
  inversion H; subst. destruct (N.eqb (asrc e) u && N.eqb (adst e) v) eqn:E; simpl.
  - apply akey_eqb in E. constructor; auto. unfold akey at 1. simpl. rewrite <- E. auto.
  - constructor; auto. rewrite set_arc_in. intros [E'|I]; auto.
    apply akey_eqb in E'. congruence.
Qed.
Lemma set_arc_mem u v a l e : In e (set_arc u v a l) -> In e l \/ e = (u, v, a).
Proof.
  induction l as [|e' l IH]; simpl; [intuition|].
  destruct (N.eqb (asrc e') u && N.eqb (adst e') v); simpl; intros [E|I]; auto. destruct (IH I); auto.
Qed.
Lemma ensure_arc_in u v a l x : In x (map akey (ensure_arc u v a l)) <-> x = (u, v) \/ In x (map akey l).
Proof.
  induction l as [|e l IH]; simpl; [intuition|].
  destruct (N.eqb (asrc e) u && N.eqb (adst e) v) eqn:E; simpl.
  - apply akey_eqb in E. rewrite E. intuition.
  - rewrite IH. intuition.
Qed.
Lemma ensure_arc_nodup u v a l : NoDup (map akey l) -> NoDup (map akey (ensure_arc u v a l)).
Proof.
  induction l as [|e l IH]; simpl; intros H; [constructor; auto; constructor|].
  inversion H; subst. destruct (N.eqb (asrc e) u && N.eqb (adst e) v) eqn:E; simpl; [constructor; auto|].
  constructor; auto. rewrite ensure_arc_in. intros [E'|I]; auto. apply akey_eqb in E'. congruence.
Qed.
Lemma ensure_arc_mem u v a l e : In e (ensure_arc u v a l) -> In e l \/ e = (u, v, a).
Proof.
  induction l as [|e' l IH]; simpl; [intuition|].
  destruct (N.eqb (asrc e') u && N.eqb (adst e') v); simpl; intros [E|I]; auto. destruct (IH I); auto.
Qed.

(* ---------------- graph-level steps ---------------- *)
Lemma GI_nodes g l' : GI g -> NoDup (map fst l') -> (forall x, In x (node_ids g) -> In x (map fst l')) ->
  (forall p, In p l' -> In p (vnodes g) \/ kind_dom (snd p)) -> GI (VG l' (varcs g)).
Proof.
  intros ((Hn & Ha & He) & Hk & Hka) Hnd Hin Hmem.
  assert (W : wf (VG l' (varcs g))).
  { split; [exact Hnd|]. split; [exact Ha|]. intros e I. destruct (He e I). split; apply Hin; auto. }
  split; [exact W|]. split; [|exact Hka].
  intros p I. destruct (Hmem p I) as [I'|D]; auto.
Qed.
Lemma GI_arcs g l' : GI g -> NoDup (map akey l') ->
  (forall e, In e l' -> In e (varcs g) \/ (In (asrc e) (node_ids g) /\ In (adst e) (node_ids g) /\ attr_ok (aattr e))) ->
  GI (VG (vnodes g) l').
Proof.
  intros ((Hn & Ha & He) & Hk & Hka) Hnd Hmem.
  assert (W : wf (VG (vnodes g) l')).
  { split; [exact Hn|]. split; [exact Hnd|]. intros e I. destruct (Hmem e I) as [I'|(H1 & H2 & _)]; [apply He; auto|split; auto]. }
  split; [exact W|]. split; [exact Hk|].
  intros e I. destruct (Hmem e I) as [I'|(_ & _ & H3)]; auto.
Qed.

Lemma fold_left_inv {A B} (P : A -> Prop) (f : A -> B -> A) l : (forall a x, In x l -> P a -> P (f a x)) ->
  forall a, P a -> P (fold_left f l a).
Proof. induction l as [|x l IH]; simpl; intros H a Ha; [exact Ha|]. apply IH; auto. Qed.

Definition coeffs_ok (n : net) : Prop := forall r, In r (nrxns n) -> forall sc, In sc (lhs r ++ rhs r) -> (0 < snd sc)%Z.
Definition net_closed (n : net) : Prop := forall r, In r (nrxns n) -> forall sc, In sc (lhs r ++ rhs r) -> In (fst sc) (nspecies n).

Lemma species_nodes_GI l : GI (VG (fold_left (fun l s => ensure_node s KSPECIES l) l []) []) /\
  forall s, In s l -> In s (map fst (fold_left (fun l s => ensure_node s KSPECIES l) l [])).
Proof.
  assert (G : forall l acc, GI (VG acc []) -> GI (VG (fold_left (fun l s => ensure_node s KSPECIES l) l acc) []) /\
            forall s, In s l \/ In s (map fst acc) -> In s (map fst (fold_left (fun l s => ensure_node s KSPECIES l) l acc))).
  { clear l. induction l as [|x l IH]; simpl; intros acc H; [split; auto; intros s [[]|I]; auto|].
    assert (H' : GI (VG (ensure_node x KSPECIES acc) [])).
    { apply (GI_nodes (VG acc []) (ensure_node x KSPECIES acc) H).
      - apply ensure_node_nodup. apply H.
      - intros y Hy. apply ensure_node_in. right. exact Hy.
      - intros p Hp. destruct (ensure_node_mem _ _ _ _ Hp) as [I| ->]; auto. right. right. reflexivity. }
    destruct (IH _ H') as [H1 H2]. split; auto. intros s Hs. apply H2.
    rewrite ensure_node_in. destruct Hs as [[->|I]|I]; auto. }
  assert (H0 : GI (VG [] [])).
  { split; [split; [constructor|split; [constructor|intros e []]]|split; intros p []]. }
  destruct (G l [] H0) as [H1 H2]. split; auto.
Qed.

Lemma stv_ok st c : (0 < c)%Z -> (-1 <= stv st c)%Z.
Proof. unfold stv, NONE. destruct st; lia. Qed.

Theorem view_bip_GI st n : coeffs_ok n -> GI (view_bip st n).
Proof.
  intros Hc. unfold view_bip.
  apply (fold_left_inv GI).
  2: apply species_nodes_GI.
  intros g r Hr Hg. unfold bip_add_rxn.
  set (g1 := VG (set_node (rid r) KREACTION (vnodes g)) (varcs g)).
  assert (H1 : GI g1 /\ In (rid r) (node_ids g1)).
  { split; [|apply set_node_in; auto].
    apply (GI_nodes g _ Hg).
    - apply set_node_nodup. apply Hg.
    - intros y Hy. apply set_node_in. auto.
    - intros p Hp. destruct (set_node_mem _ _ _ _ Hp) as [I| ->]; auto. right. left. reflexivity. }
  assert (Side : forall (role : Z) (mk : N -> N * N) side, (role = RREACTANT \/ role = RPRODUCT) ->
            (forall sc, In sc side -> (0 < snd sc)%Z) -> forall g0, GI g0 /\ In (rid r) (node_ids g0) ->
            forall (flip : bool),
            let P := fun g0 => GI g0 /\ In (rid r) (node_ids g0) in
            P (fold_left (fun g sc => VG (ensure_node (fst sc) KSPECIES (vnodes g))
                                        (if flip then set_arc (rid r) (fst sc) (role, stv st (snd sc)) (varcs g)
                                         else set_arc (fst sc) (rid r) (role, stv st (snd sc)) (varcs g))) side g0)).
  { intros role mk side Hrole Hpos g0 H0 flip P. apply (fold_left_inv P); auto.
    intros ga sc Hsc [Hga Hrid]. unfold P.
    set (gb := VG (ensure_node (fst sc) KSPECIES (vnodes ga)) (varcs ga)).
    assert (Hb : GI gb /\ In (rid r) (node_ids gb) /\ In (fst sc) (node_ids gb)).
    { split; [|split; apply ensure_node_in; auto].
      apply (GI_nodes ga _ Hga).
      - apply ensure_node_nodup. apply Hga.
      - intros y Hy. apply ensure_node_in. auto.
      - intros p Hp. destruct (ensure_node_mem _ _ _ _ Hp) as [I| ->]; auto. right. right. reflexivity. }
    destruct Hb as (Hgb & Hr1 & Hs1).
    assert (Hat : attr_ok (role, stv st (snd sc))).
    { split; simpl; [destruct Hrole as [-> | ->]; unfold RREACTANT, RPRODUCT; auto|apply stv_ok; auto]. }
    split; [|exact Hr1].
    destruct flip.
    - apply (GI_arcs gb _ Hgb); [apply set_arc_nodup; apply Hgb|].
      intros e He. destruct (set_arc_mem _ _ _ _ _ He) as [I| ->]; auto.
    - apply (GI_arcs gb _ Hgb); [apply set_arc_nodup; apply Hgb|].
      intros e He. destruct (set_arc_mem _ _ _ _ _ He) as [I| ->]; auto. }
  assert (Hl : forall sc, In sc (lhs r) -> (0 < snd sc)%Z) by (intros sc I; apply (Hc r Hr); apply in_or_app; auto).
  assert (Hrr : forall sc, In sc (rhs r) -> (0 < snd sc)%Z) by (intros sc I; apply (Hc r Hr); apply in_or_app; auto).
  pose proof (Side RREACTANT (fun s => (s, s)) (lhs r) (or_introl eq_refl) Hl g1 H1 false) as H2. cbv beta zeta in H2.
  pose proof (Side RPRODUCT (fun s => (s, s)) (rhs r) (or_intror eq_refl) Hrr _ H2 true) as H3. cbv beta zeta in H3.
  exact (proj1 H3).
Qed.

Theorem view_sp_GI n : net_closed n -> GI (view_sp n).
Proof.
  intros Hc. unfold view_sp.
  destruct (species_nodes_GI (nspecies n)) as [H0 Hin].
  set (g0 := VG (fold_left (fun l s => ensure_node s KSPECIES l) (nspecies n) []) []) in *.
  set (P := fun g => GI g /\ forall s, In s (nspecies n) -> In s (node_ids g)).
  assert (HP : P (fold_left sp_add_rxn (nrxns n) g0)).
  { apply (fold_left_inv P); [|split; auto].
    intros g r Hr Hg. unfold sp_add_rxn.
    apply (fold_left_inv P); auto. intros ga rc Hrc Hga.
    apply (fold_left_inv P); auto. intros gb pc Hpc [Hgb Hsb].
    split; [|exact Hsb].
    apply (GI_arcs gb _ Hgb); [apply ensure_arc_nodup; apply Hgb|].
    intros e He. destruct (ensure_arc_mem _ _ _ _ _ He) as [I| ->]; auto. right.
    unfold asrc, adst, aattr; simpl. split; [|split].
    - apply Hsb. apply (Hc r Hr). apply in_or_app. auto.
    - apply Hsb. apply (Hc r Hr). apply in_or_app. auto.
    - split; simpl; unfold NONE; auto. lia. }
  exact (proj1 HP).
Qed.

Theorem view_GI bip st n : coeffs_ok n -> net_closed n -> GI (view bip st n).
Proof. intros H1 H2. destruct bip; simpl; [apply view_bip_GI|apply view_sp_GI]; auto. Qed.
