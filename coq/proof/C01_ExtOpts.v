(** C01 — extensionality of ITSConstruction.construct for EVERY option value and both store modes (theorem 36 lifted to
    model/C01_Opts.v): the ITS depends only on the label and bond maps of G and H *)
From Coq Require Import List NArith ZArith Bool Lia Arith Permutation.
From SK Require Import lib.LGraph lib.C01_GraphLemmas model.C01_Model model.C02_Model model.C01_Opts model.C01_String proof.C01_Proof proof.C01_OptsProof proof.C01_StringProof proof.C01_StringPipe proof.C01_RewriteProof.
Import ListNotations.
Local Open Scope Z_scope.

Lemma side_tuple_o_ext o (G G' : mgraph) n : label G' n = label G n -> side_tuple_o o G' n = side_tuple_o o G n.
Proof. unfold side_tuple_o. intros ->. reflexivity. Qed.

Section GenExt.
Variable A : Type.
Variables mk mk' : N -> Z -> A.
Variable o : copts.
Hypothesis Emk : forall n m, mk' n m = mk n m.
Variables G H G' H' : mgraph.
Hypothesis WG : wf G.
Hypothesis WH : wf H.
Hypothesis WG' : wf G'.
Hypothesis WH' : wf H'.
Hypothesis EG : geq G' G.
Hypothesis EH : geq H' H.

Lemma gen_ext : geq (its_construct_gen mk' o G' H') (its_construct_gen mk o G H).
Proof.
  destruct EG as [LG AG]. destruct EH as [LH AH].
  assert (base_is_G_o o G' H' = base_is_G_o o G H) as EB.
  { unfold base_is_G_o. rewrite (geq_length G G' WG WG' LG), (geq_length H H' WH WH' LH). reflexivity. }
  split.
  - intros n. rewrite !gen_label. unfold base_o, other_o. rewrite EB.
    destruct (base_is_G_o o G H); rewrite ?LG, ?LH;
      repeat match goal with |- context [match ?x with _ => _ end] => destruct x end; rewrite ?Emk; reflexivity.
  - intros u v. rewrite !gen_adj by assumption. rewrite AG, AH, (order_in_ext G G' u v (AG u v)), (order_in_ext H H' u v (AH u v)). reflexivity.
Qed.
End GenExt.

(** C01_extensional_opts *)
Theorem construct_ext_opts (o : copts) (G H G' H' : mgraph) : wf G -> wf H -> wf G' -> wf H' -> geq G' G -> geq H' H ->
  geq (its_construct_o o G' H') (its_construct_o o G H) /\ geq (its_construct_S o G' H') (its_construct_S o G H).
Proof.
  intros WG WH WG' WH' [LG AG] [LH AH]. split.
  - unfold its_construct_o. apply gen_ext; try assumption; try (split; assumption).
    intros n m. unfold its_node_o. rewrite (side_tuple_o_ext o G G' n (LG n)), (side_tuple_o_ext o H H' n (LH n)). reflexivity.
  - unfold its_construct_S. apply gen_ext; try assumption; try (split; assumption).
    intros n m. unfold its_node_S. rewrite (side_tuple_o_ext o G G' n (LG n)), (side_tuple_o_ext o H H' n (LH n)). reflexivity.
Qed.

(** non-vacuity: the re-rooted product molecule of C01_rewritten_nonvacuous against itself, under balance_its=True and
    ignore_aromaticity=True: different node lists, the same ITS maps in both store modes *)
Example C01_extensional_opts_nonvacuous :
  let o := CO true true dflt_nattr in
  let G := graph_of C01_StringPipe.ex_mp in let G' := graph_of ex_mp_rw in
  gnodes (its_construct_o o G' G') <> gnodes (its_construct_o o G G) /\
  geq (its_construct_o o G' G') (its_construct_o o G G) /\ geq (its_construct_S o G' G') (its_construct_S o G G).
Proof.
  cbv zeta. destruct C01_rewritten_nonvacuous as (_ & O1 & O2 & _ & _ & GE).
  assert (wf (graph_of C01_StringPipe.ex_mp) /\ wf (graph_of ex_mp_rw)) as [W1 W2].
  { split; (apply C01_StringPipe.graph_of_wf; [assumption|]); intros u v o I; cbn in I; repeat (destruct I as [E|I]; [inversion E; discriminate|]); destruct I. }
  split; [discriminate|]. apply construct_ext_opts; assumption.
Qed.
