(** C03 — how often each atom is used by the pairing of _explicit_h: a donor gives exactly its hydrogen surplus, a
    recipient takes at most its deficit (exactly, when its group is balanced).  Stdlib lists only. *)
From Coq Require Import List NArith ZArith Bool Lia.
From SK Require Import lib.Tok lib.LGraph model.C03_Model proof.C03_Proof proof.C03_Glue proof.C03_ExplicitH proof.C03_ExplicitShape
                       proof.C03_ExplicitTotal.
From SK Require Import proof.C03_Wiring.
Import ListNotations.
Local Open Scope Z_scope.

Lemma occurrences_app n l1 l2 : occurrences n (l1 ++ l2) = occurrences n l1 + occurrences n l2.
Proof. unfold occurrences. rewrite filter_app, app_length. lia. Qed.
Lemma occurrences_cons n x l : occurrences n (x :: l) = (if N.eqb n x then 1 else 0) + occurrences n l.
Proof. unfold occurrences. simpl. destruct (N.eqb n x); simpl length; lia. Qed.
Lemma occurrences_nil n : occurrences n [] = 0.
Proof. reflexivity. Qed.
Lemma occurrences_nonneg n l : 0 <= occurrences n l.
Proof. unfold occurrences. lia. Qed.
Lemma occurrences_notin n l : ~ In n l -> occurrences n l = 0.
Proof.
  unfold occurrences. induction l as [|x r IH]; simpl; intros H; [reflexivity|].
  destruct (N.eqb_spec n x); [subst; tauto|]. apply IH. tauto.
Qed.

(** capacity of a recipient in the working list *)
Fixpoint capof (rs : list (N * Z)) (r : N) : Z :=
  match rs with [] => 0 | (x, c) :: rest => if N.eqb r x then c else capof rest r end.

Lemma take_recip_cap rs : forall x rs', NoDup (map fst rs) -> take_recip rs = Some (x, rs') ->
  forall r, capof rs' r = capof rs r - (if N.eqb r x then 1 else 0).
Proof.
  induction rs as [|[y c] rest IH]; simpl; intros x rs' Hnd H r; [discriminate|].
  inversion Hnd as [|? ? N1 N2]; subst.
  destruct (0 <? c).
  - inversion H; subst. simpl. destruct (N.eqb r x); lia.
  - destruct (take_recip rest) as [[x' rest']|] eqn:E; [|discriminate]. inversion H; subst. simpl.
    destruct (take_recip_spec rest x rest' E) as [Ix _].
    destruct (N.eqb_spec r y) as [->|Ne].
    + destruct (N.eqb_spec y x); [subst; contradiction|]. lia.
    + exact (IH x rest' N2 eq_refl r).
Qed.

Lemma donate_count d k : forall rs acc rs' acc', NoDup (map fst rs) -> donate d k rs acc = Some (rs', acc') ->
  (forall x, occurrences x (map fst acc') = occurrences x (map fst acc) + (if N.eqb x d then Z.of_nat k else 0)) /\
  (forall r, occurrences r (map snd acc') - occurrences r (map snd acc) = capof rs r - capof rs' r) /\
  NoDup (map fst rs').
Proof.
  induction k as [|k IH]; intros rs acc rs' acc' Hnd H.
  - simpl in H. inversion H; subst. split; [|split; [|exact Hnd]].
    + intros x. destruct (N.eqb x d); change (Z.of_nat 0) with 0; rewrite Z.add_0_r; reflexivity.
    + intros r. rewrite !Z.sub_diag. reflexivity.
  - cbn [donate] in H. destruct (take_recip rs) as [[r0 rs1]|] eqn:E; [|discriminate].
    destruct (take_recip_spec rs r0 rs1 E) as [_ Em].
    assert (Hnd1 : NoDup (map fst rs1)) by (rewrite Em; exact Hnd).
    destruct (IH _ _ _ _ Hnd1 H) as (A & B & C). split; [|split; [|exact C]].
    + intros x. rewrite A, map_app, occurrences_app. cbn [map fst]. rewrite occurrences_cons, occurrences_nil.
      rewrite Nat2Z.inj_succ. destruct (N.eqb x d); lia.
    + intros r. specialize (B r). rewrite map_app, occurrences_app in B. cbn [map snd] in B. rewrite occurrences_cons, occurrences_nil in B.
      rewrite (take_recip_cap rs r0 rs1 Hnd E r) in B. lia.
Qed.

Definition given (dl : N -> Z) (ds : list N) (x : N) : Z := if mem x ds then Z.of_nat (Z.to_nat (dl x)) else 0.

Lemma donor_fold_count dl ds : forall rs acc rs' acc', NoDup ds -> NoDup (map fst rs) ->
  fold_left (donor_step dl) ds (Some (rs, acc)) = Some (rs', acc') ->
  (forall x, occurrences x (map fst acc') = occurrences x (map fst acc) + given dl ds x) /\
  (forall r, occurrences r (map snd acc') - occurrences r (map snd acc) = capof rs r - capof rs' r).
Proof.
  induction ds as [|d r IH]; cbn [fold_left]; intros rs acc rs' acc' Hd Hnd H.
  - inversion H; subst. unfold given. simpl. split; intros; lia.
  - inversion Hd as [|? ? D1 D2]; subst.
    unfold donor_step at 2 in H. destruct (donate d (Z.to_nat (dl d)) rs acc) as [[rs1 acc1]|] eqn:E;
      [|rewrite donor_fold_none in H; discriminate].
    destruct (donate_count d _ _ _ _ _ Hnd E) as (A1 & B1 & C1). destruct (IH _ _ _ _ D2 C1 H) as (A2 & B2). split.
    + intros x. rewrite A2, A1. unfold given. simpl. destruct (N.eqb_spec x d) as [->|Ne].
      * destruct (mem d r) eqn:Em; [apply mem_spec in Em; contradiction|]. simpl. lia.
      * simpl. lia.
    + intros x. specialize (B1 x). specialize (B2 x). lia.
Qed.

Lemma capof_nonneg rs r : caps_nonneg rs -> 0 <= capof rs r.
Proof. induction 1 as [|[x c] l H1 H2 IH]; simpl; [lia|]. destruct (N.eqb r x); simpl in *; lia. Qed.
Lemma capof_map (f : N -> Z) l r : capof (map (fun n => (n, f n)) l) r = if mem r l then f r else 0.
Proof.
  induction l as [|x rest IH]; simpl; [reflexivity|]. destruct (N.eqb_spec r x) as [->|]; simpl; [reflexivity|exact IH].
Qed.

(** one component *)
Lemma migrations_of_count T comp ms : NoDup comp -> migrations_of T comp = Some ms ->
  (forall x, occurrences x (map fst ms) = if mem x comp then Z.max 0 (dl_of T x) else 0) /\
  (forall r, 0 <= occurrences r (map snd ms) <= if mem r comp then Z.max 0 (- dl_of T r) else 0).
Proof.
  intros Hnd. unfold migrations_of. fold (dl_of T).
  change (fold_left _ (filter (fun n => 0 <? dl_of T n) comp) (Some (map (fun n => (n, - dl_of T n)) (filter (fun n => dl_of T n <? 0) comp), [])))
    with (fold_left (donor_step (dl_of T)) (filter (fun n => 0 <? dl_of T n) comp)
                    (Some (map (fun n => (n, - dl_of T n)) (filter (fun n => dl_of T n <? 0) comp), []))).
  set (rs := map (fun n => (n, - dl_of T n)) (filter (fun n => dl_of T n <? 0) comp)).
  assert (Hn : caps_nonneg rs).
  { unfold caps_nonneg, rs. apply Forall_forall. intros [n c] I. apply in_map_iff in I. destruct I as (n' & E' & I). inversion E'; subst.
    apply filter_In in I. destruct I as [_ I]. apply Z.ltb_lt in I. simpl. lia. }
  assert (Hrs : NoDup (map fst rs)).
  { unfold rs. rewrite map_map. simpl. rewrite map_id. apply NoDup_filter. exact Hnd. }
  pose proof (donor_fold_total (dl_of T) (filter (fun n => 0 <? dl_of T n) comp) rs [] Hn) as Ht.
  pose proof (fun rs' acc' => donor_fold_count (dl_of T) (filter (fun n => 0 <? dl_of T n) comp) rs [] rs' acc' (NoDup_filter _ Hnd) Hrs) as Hc.
  destruct (fold_left _ _ _) as [[rs' acc]|]; [|discriminate]. intros H. inversion H; subst acc. clear H.
  destruct Ht as [Hn' _]. destruct (Hc rs' ms eq_refl) as (A & B).
  split.
  - intros x. rewrite A. cbn [map]. rewrite occurrences_nil. unfold given.
    destruct (mem x comp) eqn:Ec.
    + destruct (mem x (filter (fun n => 0 <? dl_of T n) comp)) eqn:Ef.
      * apply mem_spec in Ef. apply filter_In in Ef. destruct Ef as [_ Ef]. apply Z.ltb_lt in Ef. rewrite Z2Nat.id by lia. lia.
      * destruct (Z.ltb_spec 0 (dl_of T x)) as [Hp|Hp]; [|lia].
        exfalso. assert (In x (filter (fun n => 0 <? dl_of T n) comp)).
        { apply filter_In. split; [apply mem_spec; exact Ec|apply Z.ltb_lt; exact Hp]. }
        apply mem_spec in H. congruence.
    + destruct (mem x (filter (fun n => 0 <? dl_of T n) comp)) eqn:Ef; [|lia].
      apply mem_spec in Ef. apply filter_In in Ef. destruct Ef as [Ef _]. apply mem_spec in Ef. congruence.
  - intros r. specialize (B r). cbn [map] in B. rewrite occurrences_nil in B.
    pose proof (capof_nonneg rs' r Hn'). pose proof (occurrences_nonneg r (map snd ms)).
    unfold rs in B. rewrite (capof_map (fun n => - dl_of T n)) in B.
    destruct (mem r comp) eqn:Ec.
    + destruct (mem r (filter (fun n => dl_of T n <? 0) comp)) eqn:Ef.
      * apply mem_spec in Ef. apply filter_In in Ef. destruct Ef as [_ Ef]. apply Z.ltb_lt in Ef. lia.
      * lia.
    + destruct (mem r (filter (fun n => dl_of T n <? 0) comp)) eqn:Ef; [|lia].
      apply mem_spec in Ef. apply filter_In in Ef. destruct Ef as [Ef _]. apply mem_spec in Ef. congruence.
Qed.

(** * sorting keeps a duplicate-free list duplicate-free, with the same elements *)
Lemma in_insert_sorted_iff x y l : In y (insert_sorted x l) <-> x = y \/ In y l.
Proof.
  induction l as [|z r IH]; simpl; [tauto|]. destruct (N.leb x z); simpl; [tauto|]. rewrite IH. tauto.
Qed.
Lemma in_sort_N_iff y l : In y (sort_N l) <-> In y l.
Proof. unfold sort_N. induction l as [|x r IH]; simpl; [tauto|]. rewrite in_insert_sorted_iff, IH. tauto. Qed.
Lemma nodup_insert_sorted x l : ~ In x l -> NoDup l -> NoDup (insert_sorted x l).
Proof.
  induction l as [|z r IH]; simpl; intros Hx Hn; [repeat constructor; auto|].
  destruct (N.leb x z); [constructor; simpl; auto|]. inversion Hn as [|? ? N1 N2]; subst. constructor.
  - rewrite in_insert_sorted_iff. intros [E|I]; [subst; apply Hx; left; reflexivity|contradiction].
  - apply IH; [intros I; apply Hx; right; exact I|exact N2].
Qed.
Lemma nodup_sort_N l : NoDup l -> NoDup (sort_N l).
Proof.
  unfold sort_N. induction 1 as [|x r Hx Hn IH]; simpl; [constructor|]. apply nodup_insert_sorted; [|exact IH].
  intros I. apply (proj1 (in_sort_N_iff x r)) in I. contradiction.
Qed.
Lemma mem_iff_in x l b : (mem x l = b) <-> (if b then In x l else ~ In x l).
Proof.
  destruct b; [apply mem_spec|]. split.
  - intros E I. apply mem_spec in I. congruence.
  - intros H. destruct (mem x l) eqn:E; [apply mem_spec in E; contradiction|reflexivity].
Qed.
Lemma mem_sort_N x l : mem x (sort_N l) = mem x l.
Proof.
  destruct (mem x l) eqn:E.
  - apply (proj2 (mem_spec x (sort_N l))). apply (proj2 (in_sort_N_iff x l)). apply (proj1 (mem_spec x l)). exact E.
  - apply (mem_iff_in x (sort_N l) false). intros I. apply (proj1 (in_sort_N_iff x l)) in I. apply (proj2 (mem_spec x l)) in I. congruence.
Qed.

(** * the components are duplicate-free and pairwise disjoint *)
Definition disj (a b : list N) : Prop := forall x, In x a -> ~ In x b.
Definition good_cs (cs : list (list N)) : Prop := Forall (@NoDup N) cs /\ ForallOrdPairs disj cs.

Lemma nodup_app_disj (a b : list N) : NoDup a -> NoDup b -> (forall x, In x a -> ~ In x b) -> NoDup (a ++ b).
Proof.
  induction 1 as [|x r Hx Hr IH]; simpl; intros Hb Hd; [exact Hb|]. constructor.
  - intros I. apply in_app_or in I. destruct I as [I|I]; [contradiction|]. exact (Hd x (or_introl eq_refl) I).
  - apply IH; [exact Hb|]. intros y Iy. apply Hd. right. exact Iy.
Qed.
Lemma nodup_union a b : NoDup a -> NoDup b -> NoDup (union a b).
Proof.
  intros Ha Hb. unfold union. apply nodup_app_disj; [exact Ha|apply NoDup_filter; exact Hb|].
  intros x Ia I. apply filter_In in I. destruct I as [_ I]. apply negb_true_iff in I.
  apply mem_spec in Ia. congruence.
Qed.

Lemma nodup_fold_union hs : forall ns, NoDup ns -> Forall (@NoDup N) hs -> NoDup (fold_left union hs ns).
Proof.
  induction hs as [|h r IH]; intros ns Hn Hh; [exact Hn|]. cbn [fold_left]. inversion Hh; subst.
  apply IH; [apply nodup_union; assumption|assumption].
Qed.

Lemma FOP_filter {A} (R : A -> A -> Prop) (c : A -> bool) l : ForallOrdPairs R l -> ForallOrdPairs R (filter c l).
Proof.
  induction 1 as [|x l Hx Hl IH]; simpl; [constructor|]. destruct (c x); [constructor|]; auto.
  apply Forall_forall. intros y I. apply filter_In in I. rewrite Forall_forall in Hx. apply Hx. tauto.
Qed.
Lemma Forall_filter' {A} (P : A -> Prop) (c : A -> bool) l : Forall P l -> Forall P (filter c l).
Proof. rewrite !Forall_forall. intros H x I. apply filter_In in I. apply H. tauto. Qed.

Lemma add_group_good cs ns : NoDup ns -> good_cs cs -> good_cs (add_group cs ns).
Proof.
  intros Hn [G1 G2]. unfold add_group. split.
  - constructor; [apply nodup_fold_union; [exact Hn|apply Forall_filter'; exact G1]|apply Forall_filter'; exact G1].
  - constructor; [|apply FOP_filter; exact G2].
    apply Forall_forall. intros m Im. apply filter_In in Im. destruct Im as [Im Hm]. apply negb_true_iff in Hm.
    intros x Ix Ixm. apply in_fold_union in Ix. destruct Ix as [Ix|(c1 & I1 & Ix)].
    + assert (inter ns m = true) by (apply inter_spec; exists x; auto). congruence.
    + apply filter_In in I1. destruct I1 as [I1 H1].
      destruct (ForallOrdPairs_In G2 c1 m I1 Im) as [E|[D|D]].
      * subst. congruence.
      * exact (D x Ix Ixm).
      * exact (D x Ixm Ix).
Qed.

Definition pt_nodup (pt : list (N * list N)) : Prop := forall g, In g pt -> NoDup (snd g).
Lemma pt_add_nodup pt pid n : pt_nodup pt -> pt_nodup (pt_add pt pid n).
Proof.
  unfold pt_nodup. induction pt as [|[q ns] r IH]; simpl; intros H g I.
  - destruct I as [<-|[]]. simpl. repeat constructor. intros [].
  - destruct (N.eqb q pid).
    + destruct I as [<-|I]; [|apply H; right; exact I]. simpl. destruct (mem n ns) eqn:E; [exact (H (q, ns) (or_introl eq_refl))|].
      apply nodup_app_disj; [exact (H (q, ns) (or_introl eq_refl))|repeat constructor; intros []|].
      intros x Ix [<-|[]]. apply mem_spec in Ix. congruence.
    + destruct I as [<-|I]; [exact (H (q, ns) (or_introl eq_refl))|]. apply IH; [intros g' I'; apply H; right; exact I'|exact I].
Qed.
Lemma pair_to_nodes_nodup T : pt_nodup (pair_to_nodes T).
Proof.
  unfold pair_to_nodes.
  assert (H : forall nodes pt, pt_nodup pt -> pt_nodup (fold_left (fun pt (p : N * inode) =>
               fold_left (fun pt' pid => pt_add pt' pid (fst p)) (match i_hp (snd p) with Some l => l | None => [] end) pt) nodes pt)).
  { induction nodes as [|[k A] r IH]; intros pt Hpt; [exact Hpt|]. cbn [fold_left]. apply IH. cbn [fst snd].
    generalize (match i_hp A with Some l => l | None => [] end). intros pids. revert pt Hpt.
    induction pids as [|pid ps IHp]; intros pt Hpt; [exact Hpt|]. cbn [fold_left]. apply IHp. apply pt_add_nodup. exact Hpt. }
  apply H. intros g [].
Qed.

Lemma components_good pt : pt_nodup pt -> good_cs (components pt).
Proof.
  intros Hpt. unfold components.
  assert (H : forall l cs, (forall g, In g l -> In g pt) -> good_cs cs -> good_cs (fold_left (fun cs g => add_group cs (snd g)) l cs)).
  { induction l as [|g r IH]; intros cs Hsub Hc; [exact Hc|]. cbn [fold_left]. apply IH; [intros; apply Hsub; right; assumption|].
    apply add_group_good; [apply Hpt; apply Hsub; left; reflexivity|exact Hc]. }
  apply H; [auto|]. split; constructor.
Qed.

(** * all components together *)

Lemma comp_fold_count T cs : good_cs cs -> forall acc res, fold_left (comp_step T) cs (Some acc) = Some res ->
  forall x,
    occurrences x (map fst res) = occurrences x (map fst acc) + (if existsb (mem x) cs then Z.max 0 (dl_of T x) else 0) /\
    0 <= occurrences x (map snd res) - occurrences x (map snd acc) <= (if existsb (mem x) cs then Z.max 0 (- dl_of T x) else 0).
Proof.
  induction cs as [|c r IH]; intros [G1 G2] acc res H x.
  - simpl in H. inversion H; subst. simpl. lia.
  - cbn [fold_left] in H. unfold comp_step at 2 in H.
    destruct (migrations_of T (sort_N c)) as [ms|] eqn:E; [|rewrite comp_fold_none in H; discriminate].
    inversion G1 as [|? ? N1 N2]; subst. inversion G2 as [|? ? D1 D2]; subst.
    destruct (migrations_of_count T (sort_N c) ms (nodup_sort_N c N1) E) as [A B].
    destruct (IH (conj N2 D2) _ _ H x) as [A' B']. specialize (A x). specialize (B x). rewrite mem_sort_N in A, B.
    rewrite !map_app, !occurrences_app in A', B'. cbn [existsb].
    assert (X : mem x c = true -> existsb (mem x) r = false).
    { intros Hm. apply mem_spec in Hm. destruct (existsb (mem x) r) eqn:Ee; [|reflexivity]. exfalso.
      apply existsb_exists in Ee. destruct Ee as (c2 & I2 & M2). apply mem_spec in M2.
      rewrite Forall_forall in D1. exact (D1 c2 I2 x Hm M2). }
    destruct (mem x c) eqn:Ec.
    + rewrite (X eq_refl) in A', B'. cbn [orb]. lia.
    + cbn [orb]. destruct (existsb (mem x) r); lia.
Qed.

Theorem explicit_h_usage T T' ms : explicit_h T = Some (T', ms) ->
  forall x,
    occurrences x (map fst ms) = (if grouped T x then Z.max 0 (dl_of T x) else 0) /\
    0 <= occurrences x (map snd ms) <= (if grouped T x then Z.max 0 (- dl_of T x) else 0).
Proof.
  intros H x. destruct (explicit_h_unfold T T' ms H) as (Hm & _). unfold all_migrations in Hm.
  change (fold_left _ (components (pair_to_nodes T)) (Some [])) with (fold_left (comp_step T) (components (pair_to_nodes T)) (Some [])) in Hm.
  destruct (comp_fold_count T _ (components_good _ (pair_to_nodes_nodup T)) [] ms Hm x) as [A B].
  cbn [map] in A, B. rewrite occurrences_nil in A, B. unfold grouped. split; lia.
Qed.

(** * a balanced group is paired off completely: every recipient takes exactly its deficit *)
Lemma capof_zero rs r : caps_nonneg rs -> capsum rs = 0 -> capof rs r = 0.
Proof.
  induction 1 as [|[x c] l H1 H2 IH]; simpl; intros Hs; [reflexivity|]. simpl in H1.
  assert (0 <= capsum l) by (clear - H2; induction H2 as [|[y d] l' K1 K2 IH']; simpl in *; lia).
  destruct (N.eqb r x); [lia|apply IH; lia].
Qed.

Lemma migrations_of_exact T comp ms : NoDup comp -> comp_exactb T comp = true -> migrations_of T comp = Some ms ->
  forall r, occurrences r (map snd ms) = if mem r comp then Z.max 0 (- dl_of T r) else 0.
Proof.
  intros Hnd Hex. unfold migrations_of. fold (dl_of T).
  change (fold_left _ (filter (fun n => 0 <? dl_of T n) comp) (Some (map (fun n => (n, - dl_of T n)) (filter (fun n => dl_of T n <? 0) comp), [])))
    with (fold_left (donor_step (dl_of T)) (filter (fun n => 0 <? dl_of T n) comp)
                    (Some (map (fun n => (n, - dl_of T n)) (filter (fun n => dl_of T n <? 0) comp), []))).
  set (rs := map (fun n => (n, - dl_of T n)) (filter (fun n => dl_of T n <? 0) comp)).
  assert (Hn : caps_nonneg rs).
  { unfold caps_nonneg, rs. apply Forall_forall. intros [n c] I. apply in_map_iff in I. destruct I as (n' & E' & I). inversion E'; subst.
    apply filter_In in I. destruct I as [_ I]. apply Z.ltb_lt in I. simpl. lia. }
  assert (Hrs : NoDup (map fst rs)).
  { unfold rs. rewrite map_map. simpl. rewrite map_id. apply NoDup_filter. exact Hnd. }
  pose proof (donor_fold_total (dl_of T) (filter (fun n => 0 <? dl_of T n) comp) rs [] Hn) as Ht.
  pose proof (fun rs' acc' => donor_fold_count (dl_of T) (filter (fun n => 0 <? dl_of T n) comp) rs [] rs' acc' (NoDup_filter _ Hnd) Hrs) as Hc.
  destruct (fold_left _ _ _) as [[rs' acc]|]; [|discriminate]. intros H. inversion H; subst acc. clear H.
  destruct Ht as [Hn' Hs]. destruct (Hc rs' ms eq_refl) as (_ & B). intros r. specialize (B r).
  cbn [map] in B. rewrite occurrences_nil in B.
  unfold comp_exactb in Hex. apply Z.eqb_eq in Hex. rewrite <- need_sumF, <- (capsum_sumF (fun n => - dl_of T n)) in Hex. fold rs in Hex.
  rewrite (capof_zero rs' r Hn') in B by lia. unfold rs in B. rewrite (capof_map (fun n => - dl_of T n)) in B.
  destruct (mem r comp) eqn:Ec.
  - destruct (mem r (filter (fun n => dl_of T n <? 0) comp)) eqn:Ef.
    + apply mem_spec in Ef. apply filter_In in Ef. destruct Ef as [_ Ef]. apply Z.ltb_lt in Ef. lia.
    + destruct (Z.ltb_spec (dl_of T r) 0) as [Hp|Hp]; [|lia].
      exfalso. assert (In r (filter (fun n => dl_of T n <? 0) comp)).
      { apply filter_In. split; [apply mem_spec; exact Ec|apply Z.ltb_lt; exact Hp]. }
      apply mem_spec in H. congruence.
  - destruct (mem r (filter (fun n => dl_of T n <? 0) comp)) eqn:Ef; [|lia].
    apply mem_spec in Ef. apply filter_In in Ef. destruct Ef as [Ef _]. apply mem_spec in Ef. congruence.
Qed.

Lemma comp_fold_exact T cs : good_cs cs -> forallb (fun c => comp_exactb T (sort_N c)) cs = true ->
  forall acc res, fold_left (comp_step T) cs (Some acc) = Some res ->
  forall x, occurrences x (map snd res) = occurrences x (map snd acc) + (if existsb (mem x) cs then Z.max 0 (- dl_of T x) else 0).
Proof.
  induction cs as [|c r IH]; intros [G1 G2] Hex acc res H x.
  - simpl in H. inversion H; subst. simpl. lia.
  - cbn [fold_left] in H. unfold comp_step at 2 in H. cbn [forallb] in Hex. apply andb_prop in Hex. destruct Hex as [Hex1 Hex2].
    destruct (migrations_of T (sort_N c)) as [ms|] eqn:E; [|rewrite comp_fold_none in H; discriminate].
    inversion G1 as [|? ? N1 N2]; subst. inversion G2 as [|? ? D1 D2]; subst.
    pose proof (migrations_of_exact T (sort_N c) ms (nodup_sort_N c N1) Hex1 E x) as B. rewrite mem_sort_N in B.
    pose proof (IH (conj N2 D2) Hex2 _ _ H x) as B'. rewrite map_app, occurrences_app in B'. cbn [existsb].
    assert (X : mem x c = true -> existsb (mem x) r = false).
    { intros Hm. apply mem_spec in Hm. destruct (existsb (mem x) r) eqn:Ee; [|reflexivity]. exfalso.
      apply existsb_exists in Ee. destruct Ee as (c2 & I2 & M2). apply mem_spec in M2.
      rewrite Forall_forall in D1. exact (D1 c2 I2 x Hm M2). }
    destruct (mem x c) eqn:Ec.
    + rewrite (X eq_refl) in B'. cbn [orb]. lia.
    + cbn [orb]. destruct (existsb (mem x) r); lia.
Qed.

Theorem explicit_h_usage_exact T T' ms : explicit_h T = Some (T', ms) -> pairs_exactb T = true ->
  forall x, occurrences x (map snd ms) = (if grouped T x then Z.max 0 (- dl_of T x) else 0).
Proof.
  intros H Hex x. destruct (explicit_h_unfold T T' ms H) as (Hm & _). unfold all_migrations in Hm.
  change (fold_left _ (components (pair_to_nodes T)) (Some [])) with (fold_left (comp_step T) (components (pair_to_nodes T)) (Some [])) in Hm.
  pose proof (comp_fold_exact T _ (components_good _ (pair_to_nodes_nodup T)) Hex [] ms Hm x) as B.
  cbn [map] in B. rewrite occurrences_nil in B. unfold grouped. lia.
Qed.

(** * which atoms are grouped: exactly those that carry a pair id *)
Lemma components_from_pt pt : forall c x, In c (components pt) -> In x c -> exists g, In g pt /\ In x (snd g).
Proof.
  unfold components.
  assert (H : forall l cs, (forall g, In g l -> In g pt) -> (forall c x, In c cs -> In x c -> exists g, In g pt /\ In x (snd g)) ->
            forall c x, In c (fold_left (fun cs g => add_group cs (snd g)) l cs) -> In x c -> exists g, In g pt /\ In x (snd g)).
  { induction l as [|g r IH]; intros cs Hsub Hc; [exact Hc|]. cbn [fold_left]. apply IH; [intros; apply Hsub; right; assumption|].
    intros c x Ic Ix. unfold add_group in Ic. destruct Ic as [<-|Ic].
    - apply in_fold_union in Ix. destruct Ix as [Ix|(c1 & I1 & Ix)].
      + exists g. split; [apply Hsub; left; reflexivity|exact Ix].
      + apply filter_In in I1. exact (Hc c1 x (proj1 I1) Ix).
    - apply filter_In in Ic. exact (Hc c x (proj1 Ic) Ix). }
  apply H; [auto|]. intros c x [].
Qed.

Lemma grouped_carries T x : grouped T x = true -> exists A pid, In (x, A) (gnodes T) /\ In pid (hp_of A).
Proof.
  unfold grouped. intros H. apply existsb_exists in H. destruct H as (c & Ic & Hm). apply mem_spec in Hm.
  destruct (components_from_pt _ c x Ic Hm) as ([pid ns] & Ig & Ix). cbn [snd] in Ix.
  destruct (pair_to_nodes_ok T pid ns x Ig Ix) as (A & HA & PA). exists A, pid. auto.
Qed.

(** conversely every atom that carries a pair id is in a group *)
Definition recorded (pt : list (N * list N)) (q a : N) : Prop := exists ns, In (q, ns) pt /\ In a ns.

Lemma pt_add_keeps pt pid n q a : recorded pt q a -> recorded (pt_add pt pid n) q a.
Proof.
  intros (ns & I & Ia). induction pt as [|[q0 ns0] r IH]; [destruct I|]. simpl.
  destruct (N.eqb_spec q0 pid) as [->|Ne].
  - destruct I as [I|I].
    + inversion I; subst. exists (if mem n ns then ns else ns ++ [n]). split; [left; reflexivity|].
      destruct (mem n ns); [exact Ia|apply in_or_app; auto].
    + exists ns. split; [right; exact I|exact Ia].
  - destruct I as [I|I].
    + inversion I; subst. exists ns. split; [left; reflexivity|exact Ia].
    + destruct (IH I) as (ns' & I' & Ia'). exists ns'. split; [right; exact I'|exact Ia'].
Qed.
Lemma pt_add_records pt pid n : recorded (pt_add pt pid n) pid n.
Proof.
  induction pt as [|[q0 ns0] r IH]; simpl.
  - exists [n]. simpl. auto.
  - destruct (N.eqb_spec q0 pid) as [->|Ne].
    + exists (if mem n ns0 then ns0 else ns0 ++ [n]). split; [left; reflexivity|].
      destruct (mem n ns0) eqn:E; [apply mem_spec; exact E|apply in_or_app; right; left; reflexivity].
    + destruct IH as (ns' & I' & Ia'). exists ns'. split; [right; exact I'|exact Ia'].
Qed.

Lemma pair_to_nodes_complete T x A pid : In (x, A) (gnodes T) -> In pid (hp_of A) -> recorded (pair_to_nodes T) pid x.
Proof.
  unfold pair_to_nodes. intros Ix Ip.
  assert (inner_keeps : forall k pids pt q a, recorded pt q a -> recorded (fold_left (fun pt' pid0 => pt_add pt' pid0 k) pids pt) q a).
  { intros k pids. induction pids as [|p ps IH]; intros pt q a H; [exact H|]. cbn [fold_left]. apply IH. apply pt_add_keeps. exact H. }
  assert (inner_rec : forall k pids pt, In pid pids -> recorded (fold_left (fun pt' pid0 => pt_add pt' pid0 k) pids pt) pid k).
  { intros k pids. induction pids as [|p ps IH]; intros pt I; [destruct I|]. cbn [fold_left]. destruct I as [->|I].
    - apply inner_keeps. apply pt_add_records.
    - apply IH. exact I. }
  assert (outer_keeps : forall nodes pt q a, recorded pt q a -> recorded (fold_left (fun pt (p : N * inode) =>
               fold_left (fun pt' pid0 => pt_add pt' pid0 (fst p)) (match i_hp (snd p) with Some l => l | None => [] end) pt) nodes pt) q a).
  { induction nodes as [|p r IH]; intros pt q a H; [exact H|]. cbn [fold_left]. apply IH. apply inner_keeps. exact H. }
  revert Ix. generalize (gnodes T) ([] : list (N * list N)). induction l as [|p r IH]; intros pt Ix; [destruct Ix|].
  cbn [fold_left]. destruct Ix as [->|Ix].
  - apply outer_keeps. cbn [fst snd]. apply inner_rec. exact Ip.
  - apply IH. exact Ix.
Qed.

Lemma components_cover pt : forall g, In g pt -> exists c, In c (components pt) /\ incl (snd g) c.
Proof.
  unfold components.
  assert (step : forall cs ns, (exists c, In c (add_group cs ns) /\ incl ns c) /\
                               (forall c0, In c0 cs -> exists c, In c (add_group cs ns) /\ incl c0 c)).
  { intros cs ns. unfold add_group. split.
    - eexists. split; [left; reflexivity|]. intros x Ix. apply in_fold_union. auto.
    - intros c0 I0. destruct (inter ns c0) eqn:E.
      + eexists. split; [left; reflexivity|]. intros x Ix. apply in_fold_union. right. exists c0. split; [apply filter_In; auto|exact Ix].
      + exists c0. split; [right; apply filter_In; rewrite E; auto|intros x Ix; exact Ix]. }
  assert (keeps : forall (l : list (N * list N)) (cs : list (list N)) (L : list N), (exists c, In c cs /\ incl L c) ->
             exists c, In c (fold_left (fun cs g => add_group cs (snd g)) l cs) /\ incl L c).
  { induction l as [|g r IH]; intros cs L H; [exact H|]. cbn [fold_left]. apply IH.
    destruct H as (c0 & I0 & S0). destruct (proj2 (step cs (snd g)) c0 I0) as (c & Ic & Sc). exists c. split; [exact Ic|].
    intros x Ix. apply Sc. apply S0. exact Ix. }
  generalize ([] : list (list N)). induction pt as [|g0 r IH]; intros cs g Ig; [destruct Ig|].
  cbn [fold_left]. destruct Ig as [->|Ig].
  - apply keeps. exact (proj1 (step cs (snd g))).
  - apply IH. exact Ig.
Qed.

Lemma carries_grouped T x A pid : In (x, A) (gnodes T) -> In pid (hp_of A) -> grouped T x = true.
Proof.
  intros Ix Ip. destruct (pair_to_nodes_complete T x A pid Ix Ip) as (ns & I & Ia).
  destruct (components_cover _ (pid, ns) I) as (c & Ic & Sc). unfold grouped. apply existsb_exists. exists c.
  split; [exact Ic|]. apply mem_spec. apply Sc. exact Ia.
Qed.

Theorem grouped_iff T x : grouped T x = true <-> exists A pid, In (x, A) (gnodes T) /\ In pid (hp_of A).
Proof. split; [apply grouped_carries|]. intros (A & pid & H1 & H2). exact (carries_grouped T x A pid H1 H2). Qed.
