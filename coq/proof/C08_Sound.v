(** C08 — soundness of the signature: equal serialisations of two faithful canonical graphs make the inputs
    isomorphic on the covered attributes.  The digest enters as the premise "injective on the pair compared". *)
From Coq Require Import List NArith ZArith Bool Arith Lia Permutation.
From SK Require Import lib.LGraph lib.StrJoin.
From SK Require Import model.C08_Model proof.C08_Spec proof.C08_Sort proof.C08_Faithful proof.C08_Cov proof.C08_SigFun
                       proof.C08_Render proof.C08_Nauty.
Import ListNotations.

Lemma relabel_compose f1 f2 (g : graph) : relabel f2 (relabel f1 g) = relabel (fun x => f2 (f1 x)) g.
Proof.
  unfold relabel. cbn [gnodes gedges]. rewrite !map_map. f_equal.
  apply map_ext. intros [[a b] x]. reflexivity.
Qed.
Lemma relabel_id_on f (g : graph) : wf g -> (forall x, In x (node_ids g) -> f x = x) -> relabel f g = g.
Proof.
  intros (_ & Hend & _) Hf. destruct g as [ns es]. unfold relabel. cbn [gnodes gedges] in *. f_equal.
  - rewrite <- (map_id ns) at 2. apply map_ext_in. intros [k a] I. cbn [fst snd]. rewrite Hf; auto.
    unfold node_ids. cbn [gnodes]. change k with (fst (k, a)). apply in_map. exact I.
  - rewrite <- (map_id es) at 2. apply map_ext_in. intros [[a b] x] I.
    destruct (Hend _ _ _ I) as (Ha & Hb & _). rewrite !Hf; auto.
Qed.

(* a left inverse of a map that is injective on a node list *)
Definition inv_on (f : N -> N) (l : list N) (y : N) : N :=
  match find (fun x => N.eqb (f x) y) l with Some x => x | None => 0%N end.
Lemma inv_on_spec f l x : C08_Spec.inj_on f l -> In x l -> inv_on f l (f x) = x.
Proof.
  intros Hi Hx. unfold inv_on. destruct (find (fun x0 => N.eqb (f x0) (f x)) l) as [x0|] eqn:E.
  - apply find_some in E. destruct E as [I E]. apply N.eqb_eq in E. apply Hi; auto.
  - exfalso. pose proof (find_none _ _ E x Hx) as H. cbv beta in H. rewrite N.eqb_refl in H. discriminate.
Qed.

Lemma faithful_els_ok g cg : faithful g cg -> els_ok g -> els_ok cg.
Proof.
  intros (f & _ & Hp & _) H p I. apply (Permutation_in _ Hp) in I.
  unfold relabel in I. cbn [gnodes] in I. apply in_map_iff in I. destruct I as (q & <- & I). cbn [snd]. apply H. exact I.
Qed.

Theorem common_form_iso g h f f' : wf g -> wf h -> C08_Spec.inj_on f (node_ids g) -> C08_Spec.inj_on f' (node_ids h) ->
  geq_cov (relabel f g) (relabel f' h) -> iso_cov g h.
Proof.
  intros Hg Hh Hi Hi' Hq. set (iv := inv_on f' (node_ids h)).
  exists (fun x => iv (f x)). split.
  - intros x y Hx Hy E.
    pose proof (geq_cov_ids _ _ Hq) as Hp. rewrite !node_ids_relabel in Hp.
    assert (Ix : In (f x) (map f' (node_ids h))) by (apply (Permutation_in _ Hp); apply in_map; auto).
    assert (Iy : In (f y) (map f' (node_ids h))) by (apply (Permutation_in _ Hp); apply in_map; auto).
    apply in_map_iff in Ix, Iy. destruct Ix as (x' & Ex & Ix), Iy as (y' & Ey & Iy).
    rewrite <- Ex, <- Ey in E. unfold iv in E. rewrite !inv_on_spec in E by auto. subst y'.
    apply Hi; auto. congruence.
  - rewrite <- (relabel_compose f iv g).
    eapply geq_cov_trans; [apply relabel_geq_cov; exact Hq|].
    rewrite relabel_compose. rewrite relabel_id_on; auto; [apply geq_cov_refl|].
    intros x Hx. apply inv_on_spec; auto.
Qed.

Theorem sound_faithful g h cg ch : wf g -> wf h -> els_ok g -> els_ok h -> faithful g cg -> faithful h ch ->
  serialise cg = serialise ch -> iso_cov g h.
Proof.
  intros Hg Hh Eg Eh Fg Fh E.
  pose proof (serialise_inj cg ch (faithful_els_ok _ _ Fg Eg) (faithful_els_ok _ _ Fh Eh) E) as Hq.
  destruct (faithful_geq_cov _ _ Fg) as (f & Hi & H1). destruct (faithful_geq_cov _ _ Fh) as (f' & Hi' & H2).
  apply (common_form_iso g h f f'); auto.
  eapply geq_cov_trans; [apply geq_cov_sym; exact H1|]. eapply geq_cov_trans; [exact Hq|exact H2].
Qed.

(* the three back-ends; the digest premise: injective on the two strings compared *)
Theorem signature_sound_generic (D : Type) (digest : str -> D) g h : wf g -> wf h -> els_ok g -> els_ok h ->
  (digest (serialise (canon_generic g)) = digest (serialise (canon_generic h)) ->
   serialise (canon_generic g) = serialise (canon_generic h)) ->
  digest (serialise (canon_generic g)) = digest (serialise (canon_generic h)) -> iso_cov g h.
Proof.
  intros Hg Hh Eg Eh Hd E. apply (sound_faithful g h (canon_generic g) (canon_generic h)); auto.
  - apply faithful_generic. apply Hg.
  - apply faithful_generic. apply Hh.
Qed.
Theorem signature_sound_rank (D : Type) (digest : str -> D) r r' g h : wf g -> wf h -> els_ok g -> els_ok h ->
  (digest (serialise (canon_rank r g)) = digest (serialise (canon_rank r' h)) ->
   serialise (canon_rank r g) = serialise (canon_rank r' h)) ->
  digest (serialise (canon_rank r g)) = digest (serialise (canon_rank r' h)) -> iso_cov g h.
Proof.
  intros Hg Hh Eg Eh Hd E. apply (sound_faithful g h (canon_rank r g) (canon_rank r' h)); auto.
  - apply faithful_rank. apply Hg.
  - apply faithful_rank. apply Hh.
Qed.
Theorem signature_sound_nauty (D : Type) (digest : str -> D) g h : wf g -> wf h -> els_ok g -> els_ok h ->
  (digest (serialise (canon_nauty g)) = digest (serialise (canon_nauty h)) ->
   serialise (canon_nauty g) = serialise (canon_nauty h)) ->
  digest (serialise (canon_nauty g)) = digest (serialise (canon_nauty h)) -> iso_cov g h.
Proof.
  intros Hg Hh Eg Eh Hd E. apply (sound_faithful g h (canon_nauty g) (canon_nauty h)); auto.
  - apply faithful_nauty. apply Hg.
  - apply faithful_nauty. apply Hh.
Qed.

(* non-vacuity: a renumbered, re-inserted copy has the same nauty serialisation, and the premises hold *)
Definition so_g : graph :=
  LG [(7%N, NA [67%N] false 0 0 None); (3%N, NA [79%N] false 0 1 None); (5%N, NA [67%N] false 0 0 None)]
     [(7%N, 3%N, EA 2 None); (5%N, 3%N, EA 4 None)].
Definition so_h : graph :=
  LG [(1%N, NA [79%N] false 0 1 None); (2%N, NA [67%N] false 0 0 None); (9%N, NA [67%N] false 0 0 None)]
     [(1%N, 9%N, EA 4 None); (2%N, 1%N, EA 2 None)].
Example so_ex : serialise (canon_nauty so_g) = serialise (canon_nauty so_h) /\ els_ok so_g /\ els_ok so_h.
Proof.
  split; [vm_compute; reflexivity|]. split.
  - intros p [<-|[<-|[<-|[]]]]; reflexivity.
  - intros p [<-|[<-|[<-|[]]]]; reflexivity.
Qed.

Print Assumptions signature_sound_generic.
Print Assumptions signature_sound_rank.
Print Assumptions signature_sound_nauty.
