(** C09 — presentations up to node order AND bond order / bond orientation (round 5).

    The parser lists atoms and bonds in the order of the input string, so two strings of the same mapped reaction give
    graphs that differ by a renaming of the ids, a permutation of the node list, a permutation of the edge list and the
    orientation of every edge.  [same_graph] is that relation (for equal ids); [presents p G G'] says that the parsed
    graph G' (atom_map = node id) is the graph G renamed by p.  The results of proof/C09_Indep2.v (which keep the edge
    list fixed) are generalised to it. *)
From Coq Require Import List NArith ZArith Bool Arith Lia Permutation.
From SK Require Import lib.LGraph lib.C01_GraphLemmas model.C01_Model model.C09_Model
  proof.C09_Lists proof.C09_Canon proof.C09_Equiv proof.C09_Main proof.C09_Indep proof.C09_Indep2.
From SK Require model.C08_Model.
Import ListNotations.

Definition nflip (e : N * N * Z) : N * N * Z := let '(u, v, o) := e in (N.min u v, N.max u v, o).
Definition same_graph (X Y : mgraph) : Prop :=
  Permutation (gnodes X) (gnodes Y) /\ Permutation (map nflip (gedges X)) (map nflip (gedges Y)).
Definition presents (p : N -> N) (G G' : mgraph) : Prop := same_graph G' (set_amap (relabel p G)).

Lemma sg_refl X : same_graph X X.
Proof. split; apply Permutation_refl. Qed.
Lemma sg_sym X Y : same_graph X Y -> same_graph Y X.
Proof. intros (A & B). split; apply Permutation_sym; assumption. Qed.
Lemma sg_trans X Y Z : same_graph X Y -> same_graph Y Z -> same_graph X Z.
Proof. intros (A & B) (C & D). split; eapply Permutation_trans; eauto. Qed.
Lemma suo_sg X Y : same_upto_order X Y -> same_graph X Y.
Proof. intros (A & B). split; [exact A|rewrite B; apply Permutation_refl]. Qed.
Lemma sg_set_amap X Y : same_graph X Y -> same_graph (set_amap X) (set_amap Y).
Proof. intros (A & B). split; [unfold set_amap; simpl; apply Permutation_map; exact A|exact B]. Qed.

Definition rn (f : N -> N) (e : N * N * Z) : N * N * Z := let '(a, b, x) := e in (f a, f b, x).
Lemma nflip_rn f e : nflip (rn f (nflip e)) = nflip (rn f e).
Proof.
  destruct e as [[a b] x]. unfold nflip, rn.
  destruct (N.le_gt_cases a b) as [Hle|Hgt].
  - rewrite (N.min_l a b Hle), (N.max_r a b Hle). reflexivity.
  - rewrite (N.min_r a b), (N.max_l a b) by lia. rewrite (N.min_comm (f b)), (N.max_comm (f b)). reflexivity.
Qed.
Lemma sg_relabel f X Y : same_graph X Y -> same_graph (relabel f X) (relabel f Y).
Proof.
  intros (A & B). split; unfold relabel; simpl; [apply Permutation_map; exact A|].
  change (fun e : N * N * Z => let '(a, b, x) := e in (f a, f b, x)) with (rn f).
  assert (E : forall es, map nflip (map (rn f) es) = map (fun e => nflip (rn f e)) (map nflip es)).
  { intros es. rewrite !map_map. apply map_ext. intros e. symmetry. apply nflip_rn. }
  rewrite !E. apply Permutation_map. exact B.
Qed.

Lemma sg_node_ids X Y : same_graph X Y -> Permutation (node_ids X) (node_ids Y).
Proof. intros (A & _). unfold node_ids. apply Permutation_map. exact A. Qed.
Lemma presents_node_ids p G G' : presents p G G' -> Permutation (node_ids G') (map p (node_ids G)).
Proof. intros S. apply sg_node_ids in S. rewrite node_ids_set_amap in S. unfold relabel, node_ids in *. simpl in S. rewrite map_map in S. rewrite map_map. exact S. Qed.

(** a presentation in the sense of C09_Indep (edge list kept) is a presentation *)
Lemma relabelled_presents p G G2' : relabelled_by p G G2' -> presents p G (set_amap G2').
Proof. intros R. apply suo_sg. apply suo_set_amap. exact R. Qed.

Lemma chain' (f1 f2 p : N -> N) (Z X' X'' : mgraph) : wf Z ->
  presents p Z X' -> relabelled_by f2 X' X'' -> (forall n, In n (node_ids Z) -> f2 (p n) = f1 n) ->
  same_graph (set_amap X'') (set_amap (relabel f1 Z)).
Proof.
  intros WZ R1 R2 Hf.
  eapply sg_trans; [apply suo_sg; apply suo_set_amap; exact R2|].
  eapply sg_trans; [apply sg_set_amap; apply sg_relabel; exact R1|].
  rewrite set_amap_relabel_set_amap, relabel_relabel.
  rewrite (relabel_ext (fun n => f2 (p n)) f1 Z).
  - apply sg_refl.
  - exact Hf.
  - intros a b x I. destruct WZ as (_ & W2 & _). destruct (W2 a b x I) as (Ia & Ib & _). auto.
Qed.

(** the core: C09_Indep2.presentation_independent_gen for presentations up to bond order / orientation *)
Theorem presentation_independent_sg (G H G' H' Gc1 Gc2 : mgraph) (order1 order2 : list N) (p : N -> N) :
  parsed G -> parsed H -> (exists s, In s (node_ids G) /\ In s (node_ids H)) ->
  (forall a b, p a = p b -> a = b) ->
  parsed G' -> parsed H' -> presents p G G' -> presents p H H' ->
  enumerates order1 G -> relabelled_by (sigma_of order1) G Gc1 ->
  enumerates order2 G' -> relabelled_by (sigma_of order2) G' Gc2 ->
  (forall n, In n (node_ids G) -> sigma_of order2 (p n) = sigma_of order1 n) ->
  nsorted (map p (extra_nodes H (aam_pairs Gc1 H))) ->
  exists (pairs1 pairs2 : list (N * N)) (Hc1 Hc2 : mgraph),
    canonicalise_with Gc1 H = Some (set_amap Gc1, pairs1, set_amap Hc1) /\
    canonicalise_with Gc2 H' = Some (set_amap Gc2, pairs2, set_amap Hc2) /\
    same_graph (set_amap Gc2) (set_amap Gc1) /\ same_graph (set_amap Hc2) (set_amap Hc1).
Proof.
  intros (WG & AG & PG) (WH & AH & PH) (s & Is1 & Is2) Pinj (WG2 & AG2 & PG2) (WH2 & AH2 & PH2) RG2 RH2 (O1 & I1) R1 (O2 & I2) R2 Inv Hsorted.
  assert (Hs1 : exists s, In s (node_ids G) /\ In s (node_ids H)) by (exists s; auto).
  destruct (canonicalise_with_spec G H Gc1 order1 WG WH AG AH PG PH O1 I1 R1 Hs1) as (Hc1 & E1 & RF1 & EH1 & Fs1 & _).
  assert (IG2 : forall x, In x (node_ids G') <-> In x (map p (node_ids G))).
  { intros x. pose proof (presents_node_ids p G G' RG2) as P. split; intros I; [eapply Permutation_in; eauto|eapply Permutation_in; [apply Permutation_sym|]; eauto]. }
  assert (IH2 : forall x, In x (node_ids H') <-> In x (map p (node_ids H))).
  { intros x. pose proof (presents_node_ids p H H' RH2) as P. split; intros I; [eapply Permutation_in; eauto|eapply Permutation_in; [apply Permutation_sym|]; eauto]. }
  assert (Hs2 : exists s, In s (node_ids G') /\ In s (node_ids H')).
  { exists (p s). split; [apply IG2|apply IH2]; apply in_map; assumption. }
  destruct (canonicalise_with_spec G' H' Gc2 order2 WG2 WH2 AG2 AH2 PG2 PH2 O2 I2 R2 Hs2) as (Hc2 & E2 & RF2 & EH2 & Fs2 & _).
  set (E1x := extra_nodes H (aam_pairs Gc1 H)) in *.
  set (E2x := extra_nodes H' (aam_pairs Gc2 H')).
  assert (K : E2x = map p E1x).
  { apply sorted_unique.
    - unfold E2x, extra_nodes. apply nsort_sorted.
    - exact Hsorted.
    - unfold E2x. apply extras_nodup. exact WH2.
    - apply FinFun.Injective_map_NoDup; [exact Pinj|]. unfold E1x. apply extras_nodup. exact WH.
    - intros x. unfold E2x. rewrite (extras_in G' H' Gc2 order2 WG2 WH2 AG2 AH2 PG2 PH2 R2).
      rewrite IG2, IH2, !in_map_iff. split.
      + intros ((n & <- & In1) & Hn). exists n. split; [reflexivity|]. unfold E1x.
        apply (extras_in G H Gc1 order1 WG WH AG AH PG PH R1). split; [exact In1|]. intros IG. apply Hn. exists n. auto.
      + intros (n & <- & In1). unfold E1x in In1. apply (extras_in G H Gc1 order1 WG WH AG AH PG PH R1) in In1. destruct In1 as (In1 & Hn).
        split; [exists n; auto|]. intros (m & Em & Im). apply Pinj in Em. subst m. contradiction. }
  assert (Len : length order2 = length order1).
  { assert (P1 : Permutation order1 (node_ids G)) by (apply NoDup_Permutation; auto; destruct WG as (A & _); exact A).
    assert (P2 : Permutation order2 (map p (node_ids G))).
    { apply NoDup_Permutation; auto.
      - apply FinFun.Injective_map_NoDup; [exact Pinj|destruct WG as (A & _); exact A].
      - intros x. rewrite I2. apply IG2. }
    rewrite (Permutation_length P1), (Permutation_length P2), map_length. reflexivity. }
  set (f1 := C09_Canon.f H Gc1 order1) in *. set (f2 := C09_Canon.f H' Gc2 order2) in *.
  assert (HfG : forall n, In n (node_ids G) -> f2 (p n) = f1 n).
  { intros n I. rewrite Fs2.
    - rewrite Inv by exact I. symmetry. apply Fs1. apply I1. exact I.
    - apply I2. apply IG2. apply in_map. exact I. }
  assert (HfH : forall n, In n (node_ids H) -> f2 (p n) = f1 n).
  { intros n I. destruct (in_dec N.eq_dec n (node_ids G)) as [IG|NG]; [apply HfG; exact IG|].
    unfold f1, f2, C09_Canon.f. fold E1x E2x. rewrite K. unfold tau, tau_list. rewrite !assoc_app.
    assert (N1 : assoc n (C08_Model.mapping_of order1) = None).
    { apply assoc_none. rewrite mapping_of_keys. intros J. apply I1 in J. contradiction. }
    assert (N2 : assoc (p n) (C08_Model.mapping_of order2) = None).
    { apply assoc_none. rewrite mapping_of_keys. intros J. apply I2 in J. apply IG2 in J. apply in_map_iff in J.
      destruct J as (m & Em & Im). apply Pinj in Em. subst m. contradiction. }
    rewrite N1, N2, Len, (assoc_extra_map p Pinj).
    destruct (assoc_is_some n (map swap (extra_pairs (N.of_nat (length order1) + 1) E1x))) as (v & ->); [|reflexivity].
    rewrite map_fst_swap, extra_pairs_keys. unfold E1x. apply (extras_in G H Gc1 order1 WG WH AG AH PG PH R1). auto. }
  exists (aam_pairs Gc1 H), (aam_pairs Gc2 H'), Hc1, Hc2.
  split; [exact E1|]. split; [exact E2|]. split.
  - eapply sg_trans; [apply (chain' f1 f2 p G G' Gc2 WG RG2 RF2 HfG)|]. apply sg_sym. apply suo_sg. apply suo_set_amap. exact RF1.
  - rewrite EH1. apply (chain' f1 f2 p H H' Hc2 WH RH2); [rewrite EH2; apply relabelled_exact|exact HfH].
Qed.

Theorem presentation_independent_sg_mono (G H G' H' Gc1 Gc2 : mgraph) (order1 order2 : list N) (p : N -> N) :
  parsed G -> parsed H -> (exists s, In s (node_ids G) /\ In s (node_ids H)) ->
  (forall a b, p a = p b -> a = b) ->
  (forall m n, In m (node_ids H) -> ~ In m (node_ids G) -> In n (node_ids H) -> ~ In n (node_ids G) -> (m <= n)%N -> (p m <= p n)%N) ->
  parsed G' -> parsed H' -> presents p G G' -> presents p H H' ->
  enumerates order1 G -> relabelled_by (sigma_of order1) G Gc1 ->
  enumerates order2 G' -> relabelled_by (sigma_of order2) G' Gc2 ->
  (forall n, In n (node_ids G) -> sigma_of order2 (p n) = sigma_of order1 n) ->
  exists (pairs1 pairs2 : list (N * N)) (Hc1 Hc2 : mgraph),
    canonicalise_with Gc1 H = Some (set_amap Gc1, pairs1, set_amap Hc1) /\
    canonicalise_with Gc2 H' = Some (set_amap Gc2, pairs2, set_amap Hc2) /\
    same_graph (set_amap Gc2) (set_amap Gc1) /\ same_graph (set_amap Hc2) (set_amap Hc1).
Proof.
  intros PG PH Hs Pinj Pmono PG2 PH2 RG2 RH2 En1 R1 En2 R2 Inv.
  apply (presentation_independent_sg G H G' H' Gc1 Gc2 order1 order2 p); auto.
  pose proof PG as (WG & AG & PG'). pose proof PH as (WH & AH & PH').
  apply nsorted_map; [unfold extra_nodes; apply nsort_sorted|].
  intros m n Im In'. apply (extras_in G H Gc1 order1 WG WH AG AH PG' PH' R1) in Im. apply (extras_in G H Gc1 order1 WG WH AG AH PG' PH' R1) in In'.
  destruct Im, In'. apply Pmono; auto.
Qed.

(** the partner-less product atoms of the canonical product graph are numbered N+1.. in increasing order *)
Lemma canonical_extras_sorted (G H Gc1 : mgraph) (order1 : list N) :
  parsed G -> parsed H -> enumerates order1 G -> relabelled_by (sigma_of order1) G Gc1 ->
  nsorted (map (C09_Canon.f H Gc1 order1) (extra_nodes H (aam_pairs Gc1 H))).
Proof.
  intros (WG & AG & PG') (WH & AH & PH') (O1 & I1) R1.
  set (f1 := C09_Canon.f H Gc1 order1). set (E := extra_nodes H (aam_pairs Gc1 H)).
  assert (End : NoDup E) by (apply extras_nodup; exact WH).
  set (g := fun i : nat => (N.of_nat (length order1) + 1 + N.of_nat i)%N).
  assert (Em : map f1 E = map g (seq 0 (length E))).
  { apply (nth_ext _ _ 0%N 0%N); [rewrite !map_length, seq_length; reflexivity|].
    intros i Hi. rewrite map_length in Hi.
    rewrite (nth_indep (map f1 E) 0%N (f1 0%N)) by (rewrite map_length; exact Hi). rewrite map_nth.
    rewrite (nth_indep (map g _) 0%N (g 0%nat)) by (rewrite map_length, seq_length; exact Hi). rewrite map_nth, seq_nth by exact Hi.
    unfold f1, C09_Canon.f. fold E. unfold tau, tau_list. rewrite assoc_app.
    assert (N1 : assoc (nth i E 0%N) (C08_Model.mapping_of order1) = None).
    { apply assoc_none. rewrite mapping_of_keys. intros J. apply I1 in J.
      assert (IE : In (nth i E 0%N) E) by (apply nth_In; exact Hi).
      unfold E in IE. apply (extras_in G H Gc1 order1 WG WH AG AH PG' PH' R1) in IE. tauto. }
    rewrite N1, (assoc_extra_nth _ E End i Hi). reflexivity. }
  rewrite Em. apply nsorted_map_seq. intros i j Hij. unfold g. lia.
Qed.

(** fixed point for EVERY presentation (G', H') of the canonical graphs (the re-parsed canonical string), given the graph
    canonicaliser gives the atom f1 n of G' the canonical id of n *)
Theorem fixed_point_sg (G H Gc1 : mgraph) (order1 : list N) :
  parsed G -> parsed H -> (exists s, In s (node_ids G) /\ In s (node_ids H)) ->
  enumerates order1 G -> relabelled_by (sigma_of order1) G Gc1 ->
  exists (pairs1 : list (N * N)) (Gc1' Hc1' : mgraph) (f1 : N -> N),
    canonicalise_with Gc1 H = Some (Gc1', pairs1, Hc1') /\
    (forall a b, f1 a = f1 b -> a = b) /\ (forall n, In n (node_ids G) -> f1 n = sigma_of order1 n) /\
    forall (G' H' : mgraph), parsed G' -> parsed H' -> same_graph G' Gc1' -> same_graph H' Hc1' ->
      presents f1 G G' /\
      forall (order2 : list N) (Gc2 : mgraph),
      enumerates order2 G' -> relabelled_by (sigma_of order2) G' Gc2 ->
      (forall n, In n (node_ids G) -> sigma_of order2 (f1 n) = sigma_of order1 n) ->
      exists (pairs2 : list (N * N)) (Gc2' Hc2' : mgraph),
        canonicalise_with Gc2 H' = Some (Gc2', pairs2, Hc2') /\ Gc2' = set_amap Gc2 /\
        same_graph Gc2' Gc1' /\ same_graph Hc2' Hc1'.
Proof.
  intros PG PH Hs En1 R1.
  pose proof PG as (WG & AG & PG'). pose proof PH as (WH & AH & PH'). pose proof En1 as (O1 & I1).
  destruct (canonicalise_with_spec G H Gc1 order1 WG WH AG AH PG' PH' O1 I1 R1 Hs) as (Hc1 & E1 & RF1 & EH1 & Fs1 & _).
  set (f1 := C09_Canon.f H Gc1 order1) in *.
  exists (aam_pairs Gc1 H), (set_amap Gc1), (set_amap Hc1), f1. split; [exact E1|].
  split; [intros a b; apply tau_injective|]. split; [intros n I; apply Fs1; apply I1; exact I|].
  intros G' H' PG2 PH2 SG SH.
  assert (RG2 : presents f1 G G').
  { eapply sg_trans; [exact SG|]. apply suo_sg. apply suo_set_amap. exact RF1. }
  assert (RH2 : presents f1 H H') by (unfold presents; rewrite <- EH1; exact SH).
  split; [exact RG2|].
  intros order2 Gc2 En2 R2 Inv.
  destruct (presentation_independent_sg G H G' H' Gc1 Gc2 order1 order2 f1 PG PH Hs (fun a b => tau_injective _ _ a b)
              PG2 PH2 RG2 RH2 En1 R1 En2 R2 Inv (canonical_extras_sorted G H Gc1 order1 PG PH En1 R1))
    as (pairs1 & pairs2 & Hc1' & Hc2 & E1' & E2 & S1 & S2).
  rewrite E1 in E1'. assert (Ec : set_amap Hc1 = set_amap Hc1') by congruence.
  exists pairs2, (set_amap Gc2), (set_amap Hc2). split; [exact E2|]. split; [reflexivity|]. split; [exact S1|]. rewrite Ec. exact S2.
Qed.
