(** C04 — the default mode through the whole reactor object with NO premise about _explicit_h: every mapping the pruning keeps
    is a monomorphism the engine returned (C06), hence a valid match of the rule (proof/C04_MonoMatch.v), and _explicit_h
    returns on the ITS glued along any valid match (proof/C04_TotalAny.v) when the template's hydrogens satisfy [valence_okb]. *)
From Coq Require Import List NArith ZArith Bool Arith Lia Permutation SetoidList.
From SK Require Import lib.Tok lib.LGraph lib.Mono model.C06_Model lib.C06_Spec proof.C06_All model.C11_Model proof.C11_Aut proof.C11_Dedup proof.C11_Main.
From SK Require Import model.C03_Model model.C04_Model model.C04_Reactor proof.C03_Proof proof.C03_Glue proof.C03_Spec
                       proof.C04_Glue proof.C04_Template proof.C04_Any proof.C04_Fold proof.C04_Default proof.C04_DefaultProof
                       proof.C04_Engine proof.C04_Prune proof.C04_Object proof.C04_Chain proof.C04_Explicit proof.C04_DefaultEnd proof.C04_DefaultChain
                       proof.C04_Total proof.C04_TotalDefault proof.C04_TotalAny proof.C04_MonoMatch.
Import ListNotations.
Local Open Scope Z_scope.

Lemma explicit_all_ok (gl : list its) : (forall T, In T gl -> explicit_h T <> None) -> snd (explicit_all gl) = false.
Proof.
  induction gl as [|g r IH]; intros H; simpl; [reflexivity|].
  destruct (explicit_h g) as [[g' ms]|] eqn:E; [|exfalso; exact (H g (or_introl eq_refl) E)].
  destruct (explicit_all r) as [r' c] eqn:Er. simpl. simpl in IH. apply IH. intros T I. apply H. right. exact I.
Qed.
Lemma in_concat_mapi_inv {X Y} (f : nat -> X -> list Y) (l : list X) (y : Y) :
  In y (concat (mapi f l)) -> exists i m, In m l /\ In y (f i m).
Proof.
  unfold mapi. generalize 0%nat. induction l as [|x r IH]; intros k I; [destruct I|]. simpl in I.
  apply in_app_or in I. destruct I as [I|I]; [exists k, x; split; [left; reflexivity|exact I]|].
  destruct (IH (S k) I) as (i & m & Im & Iy). exists i, m. split; [right; exact Im|exact Iy].
Qed.

(** the substrate with implicit hydrogens has no negative hydrogen count *)
Lemma folded_hc_nonneg (A B : hostg) (tpl : its) : pair_wf A B -> default_okb A B tpl = true ->
  forall n x, label (h_to_implicit_host A) n = Some x -> 0 <= a_hc x.
Proof.
  intros PW OK n x Ex. destruct (default_okb_foldable A B tpl PW OK) as [FA _].
  destruct (fold_host_spec A (wf_host_nodup A (pw_A _ _ PW)) FA) as (_ & _ & FAA). set (R := rev (h_nodes_h A)) in *.
  assert (In_ : In n (node_ids (h_to_implicit_host A))) by exact (label_some_in _ n x Ex).
  apply (folded_in_ids A _ R FAA) in In_. destruct In_ as [IA NR].
  rewrite (folded_label A R _ n FAA NR) in Ex. destruct (label A n) as [x0|] eqn:E0; [|discriminate]. simpl in Ex. inversion Ex; subst x.
  destruct (in_ids_label B n (proj1 (pw_ids _ _ PW n) IA)) as [y0 Ey0].
  destruct (dE12 A B tpl OK n x0 y0 E0 Ey0) as [_ H0]. unfold bumpk, set_hc; simpl.
  pose proof (sum_cnt_nonneg (gedges A) R n). unfold hsum. lia.
Qed.

Section DefaultChainTotal.
  Variable enum : list N -> list N -> list C06_Model.mapping.
  Variable rematch : nat -> hostg -> molg -> list C03_Model.mapping.
  Variables (core invert : bool) (G H : hostg) (thr : option N).
  Hypothesis W : pair_wfb G H = true.
  Hypothesis ME : mode_E G H = true.
  Let A := if invert then H else G.
  Let B := if invert then G else H.
  Let tpl := template core invert G H.
  Hypothesis OK : default_okb A B tpl = true.
  Hypothesis CC : core = true -> centre_carries (its_construct G H) = true.
  Hypothesis VAL : own_valence_okb core invert G H = true.
  Let host := substrate invert G H.
  Let o := own_opts invert true (SMember 0%N) thr false.

  Theorem default_chain_total (rc : its) (l r : molg) :
    rule_of core invert G H = Some (rc, l, r) ->
    forallb (fun p => 0 <=? m_hc (snd p)) (gnodes l) = true ->
    vf2_contract enum (tr_host host) (tr_pat l) (node_ids (tr_host host)) (node_ids (tr_pat l)) ->
    (lenN (enum (node_ids (tr_host host)) (node_ids (tr_pat l))) <= dflt DEFAULT_THRESHOLD thr)%N ->
    exists gs T', fst (read_its (api_engine enum) rematch o host (rc, l, r) fresh) = Some gs /\ In T' gs /\
                  regen_folded T' A B = true.
  Proof.
    intros Er Hnn Hvf2 Hthr.
    apply (default_chain enum rematch core invert G H thr W ME OK CC rc l r Er Hnn Hvf2 Hthr).
    intros ms Em.
    pose proof (pair_AB' core invert G H W OK) as PW. pose proof (own_describes core invert G H W OK CC) as D.
    destruct (default_rule A B tpl PW D OK) as (rc0 & l0 & r0 & Es & Ep & El & PW' & D').
    assert (E3 : (rc0, l0, r0) = (rc, l, r)).
    { unfold rule_of in Er. rewrite ME in Er. fold tpl in Er. rewrite Es in Er. inversion Er. reflexivity. }
    inversion E3; subst rc0 l0 r0. clear E3.
    destruct (default_identity_match core invert G H W ME OK CC) as (rc1 & l1 & r1 & Er1 & Hf & LO & _).
    rewrite Er in Er1. inversion Er1; subst rc1 l1 r1. clear Er1.
    assert (LT : left_onto rc l).
    { apply (default_left_onto tpl rc l r (d_wf _ _ _ D) (tpl_el A B tpl PW D) Es). }
    unfold own_valence_okb in VAL. rewrite Er in VAL. fold tpl in VAL.
    (* the kept mappings are monomorphisms the engine returned *)
    unfold compute_mappings in Em. cbn [fst snd] in Em. unfold pattern_of in Em. rewrite Hf in Em.
    cbn [o own_opts o_strategy o_thr o_pref] in Em.
    change (api_engine enum (SMember 0%N) thr false (tr_host host) (tr_pat l))
      with (Result (C06_Model.find enum (Cfg 0 0 (dflt DEFAULT_THRESHOLD thr) true false) (tr_host host) (tr_pat l))) in Em.
    inversion Em as [Ems]. clear Em.
    destruct (all_exact enum (dflt DEFAULT_THRESHOLD thr) true (tr_host host) (tr_pat l) Hvf2 Hthr) as (Hsound & _ & _).
    unfold crashed. cbn [o own_opts o_explicit_h andb].
    apply explicit_all_ok. intros T IT.
    unfold glued_val in IT. cbn [fst snd] in IT. rewrite Hf in IT.
    apply in_concat_mapi_inv in IT. destruct IT as (i & y & Iy & ITy).
    unfold glue_graph in ITy. cbn [fst snd flat_map] in ITy. rewrite app_nil_r in ITy.
    change (substrate invert G H) with host in ITy. destruct (glue host rc y) as [Ty|] eqn:Eg; [|destruct ITy]. destruct ITy as [ETy|[]]. subst Ty.
    assert (Iraw : In y (C06_Model.find enum (Cfg 0 0 (dflt DEFAULT_THRESHOLD thr) true false) (tr_host host) (tr_pat l))).
    { try rewrite <- Ems in Iy. exact (subseq_in _ _ y (prune_subseq C03_Model.mapping (fun m => m) (rule_graph rc) _) Iy). }
    pose proof (Hsound y Iraw) as Hmono.
    assert (Hy : match_rcb host rc y = true).
    { apply (mono_is_match host rc l y (pw_A _ _ PW')).
      - exact (folded_hc_nonneg A B tpl PW OK).
      - exact (d_wf _ _ _ D').
      - intros u v x I. destruct (d_edges _ _ _ D' u v x I) as (Iu & Iv & _). auto.
      - exact LO.
      - exact LT.
      - intros k la Ela. rewrite forallb_forall in Hnn. specialize (Hnn (k, la) (assoc_in k (gnodes l) Ela)). simpl in Hnn. apply Z.leb_le. exact Hnn.
      - exact Hmono. }
    exact (any_match_total A B tpl rc l r host y T PW D OK Es (d_wf _ _ _ D') Hy Eg VAL).
  Qed.
End DefaultChainTotal.
