(** C06 — the per-component embedding lists of the component-aware search are determined by the
    trace: the list collected for one pattern component is the concatenation, over the VF2 calls of
    that component, of the pulled prefix of each enumeration, tagged with the host-component index. *)
From Coq Require Import List NArith Bool Arith Lia.
From SK Require Import lib.LGraph lib.Mono lib.Reach model.C06_Model model.C06_Attrs model.C06_Trace lib.C06_TraceSpec proof.C06_Trace.
Import ListNotations.

Lemma cc_inner_pulled cap thr i : forall it maps n maps' n',
  cc_inner cap thr i it maps n = Some (maps', n') ->
  n' = loop_n cap thr it n /\
  maps' = rev (map (pair i) (firstn (N.to_nat (n' - n)) it)) ++ maps.
Proof.
  induction it as [|m it IH]; intros maps n maps' n'; cbn [cc_inner loop_n].
  - intros [= <- <-]. rewrite N.sub_diag. split; reflexivity.
  - destruct (capped cap (N.succ n)) eqn:Ec.
    + intros [= <- <-]. split; [reflexivity|].
      replace (N.to_nat (N.succ n - n)) with 1%nat by lia. reflexivity.
    + destruct (thr <? N.succ n)%N eqn:Et; [discriminate|].
      intros Hs. destruct (IH _ _ _ _ Hs) as [-> ->]. split; [reflexivity|].
      pose proof (loop_n_ge cap thr it (N.succ n)) as Hge.
      replace (N.to_nat (loop_n cap thr it (N.succ n) - n))
        with (S (N.to_nat (loop_n cap thr it (N.succ n) - N.succ n))) by lia.
      cbn [firstn map rev]. rewrite <- app_assoc. reflexivity.
Qed.

Lemma cc_inner_some_bound cap thr i : forall it maps n maps' n',
  cc_inner cap thr i it maps n = Some (maps', n') -> (n <= thr)%N -> capped cap n' = true \/ (n' <= thr)%N.
Proof.
  induction it as [|m it IH]; intros maps n maps' n'; cbn [cc_inner].
  - intros [= <- <-] Hn. right. exact Hn.
  - destruct (capped cap (N.succ n)) eqn:Ec.
    + intros [= <- <-] _. left. exact Ec.
    + destruct (N.ltb_spec thr (N.succ n)) as [Ht|Ht]; [discriminate|].
      intros Hs _. exact (IH _ _ _ _ Hs Ht).
Qed.

Section WithOracle.
Variable enum : list N -> list N -> list mapping.

Lemma pulled_items_nil pc cands : pulled_items enum pc cands [] = [].
Proof. destruct cands as [|[i hc] r]; reflexivity. Qed.

Lemma cc_outer_from_calls cap thr pc : forall cands maps n out, (n <= thr)%N ->
  cc_outer enum cap thr pc cands maps n = Some out ->
  out = rev maps ++ pulled_items enum pc cands (cc_outer_calls enum cap thr pc cands n).
Proof.
  induction cands as [|[i hc] r IH]; intros maps n out Hn; cbn [cc_outer cc_outer_calls pulled_items].
  - intros [= <-]. rewrite app_nil_r. reflexivity.
  - destruct (cc_inner cap thr i (enum hc pc) maps n) as [[maps' n']|] eqn:Ei; [|discriminate].
    destruct (cc_inner_pulled cap thr i _ _ _ _ _ Ei) as [En' Em]. rewrite <- En'.
    destruct (cc_inner_some_bound cap thr i _ _ _ _ _ Ei Hn) as [Hc|Hb].
    + rewrite Hc. cbn [orb]. intros [= <-]. rewrite pulled_items_nil.
      rewrite app_nil_r, Em, rev_app_distr, rev_involutive. reflexivity.
    + destruct (capped cap n') eqn:Ec; cbn [orb].
      * intros [= <-]. rewrite pulled_items_nil. rewrite app_nil_r, Em, rev_app_distr, rev_involutive. reflexivity.
      * intros Hs. assert (Et : (thr <? n')%N = false) by (apply N.ltb_ge; exact Hb).
        rewrite Et. rewrite (IH _ _ _ Hb Hs), Em, rev_app_distr, rev_involutive, <- app_assoc. reflexivity.
Qed.

(** the list collected for one pattern component ([per_cc[j]] of the code) from the trace of its calls *)
Theorem per_cc_from_calls cap thr pc cands maps :
  cc_outer enum cap thr pc cands [] 0%N = Some maps ->
  maps = pulled_items enum pc cands (cc_outer_calls enum cap thr pc cands 0%N).
Proof. intros Hs. exact (cc_outer_from_calls cap thr pc cands [] 0%N maps (N.le_0_l thr) Hs). Qed.
End WithOracle.

(** non-vacuity: the host of proof/C06_TraceEx.v has two matches in its component {1,2,3} (index 0) *)
From SK Require Import proof.C06_AttrsEx proof.C06_TraceEx.
Example ex_per_cc_from_calls :
  cc_outer E0 0 5000 [10; 11]%N [(0, [1; 2; 3]%N)] [] 0%N = Some [(0, [(11, 1); (10, 2)]%N); (0, [(11, 3); (10, 2)]%N)] /\
  pulled_items E0 [10; 11]%N [(0, [1; 2; 3]%N)] (cc_outer_calls E0 0 5000 [10; 11]%N [(0, [1; 2; 3]%N)] 0%N)
  = [(0, [(11, 1); (10, 2)]%N); (0, [(11, 3); (10, 2)]%N)].
Proof. vm_compute. split; reflexivity. Qed.
