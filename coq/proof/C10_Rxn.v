(** C10 — proofs, part 22: the reaction-level wrappers of model/C10_Rxn.v.
    1. three documented routes to a rule (reaction string; full ITS of rsmi_to_its; centre returned by rsmi_to_its(core=True)),
       with and without explicit_hydrogen: all read back to the reaction centre;
    2. rsmi_to_its(explicit_hydrogen=True) keeps the hydrogen count of the ITS;
    3. graph_to_rsmi: without hydrogen atoms in the centre the explicit_hydrogen flag changes nothing; the strict and the
       lenient model of the preserve path agree when the keys are there. *)
From Coq Require Import String List NArith ZArith Bool Lia.
From SK Require Import lib.Tok lib.LGraph lib.StrJoin model.C10_Model model.C10_Text model.C10_Rxn proof.C10_Text proof.C10_Proof proof.C10_Views proof.C10_Build
  proof.C10_Copy proof.C10_GmlRead proof.C10_GmlWrite proof.C10_Centre proof.C10_Routes proof.C10_Routes2 proof.C10_Hydrogen
  proof.C10_HRound proof.C10_GmlEH proof.C10_Smart proof.C10_MolOk proof.C10_Relabel proof.C10_Reindex proof.C10_ReindexEH.
Import ListNotations.
Local Open Scope Z_scope.

(** ** a reaction centre carries no hcount key *)
Lemma rca_cval I n : cval (rca I n) <= 0.
Proof. unfold rca, cval. destruct (label I n); simpl; lia. Qed.
Lemma centre_hc_free I : is_ok I -> forall n a, label (get_rc I) n = Some a -> cval a <= 0.
Proof.
  intros HI n a L. rewrite (get_rc_label I n HI) in L. destruct (touched I n); [|discriminate]. injection L as <-. apply rca_cval.
Qed.

(** the round trip for either setting of explicit_hydrogen, on a centre *)
Lemma centre_roundtrip_any c (eh : bool) : IOK c -> (forall n a, label c n = Some a -> cval a <= 0) ->
  let I' := gml_to_its (its_to_gml c false false eh) in
  (forall n, has_node I' n = has_node c n) /\
  (forall n a, label c n = Some a ->
     label I' n = Some (gml_node n (tg_el (tG_of a)) (tg_ch (tG_of a)) (tg_ch (tH_of a)))) /\
  (forall u v, adj I' u v = adj c u v).
Proof.
  intros K Hc. destruct eh; [apply gml_roundtrip_eh_iok; assumption|apply gml_roundtrip_iok; assumption].
Qed.

Section Three.
Variables r p : gr.
Variable eo : list (N * N).
Hypothesis Hr : mol_ok r = true.
Hypothesis Hp : mol_ok p = true.
Hypothesis Hb : balanced r p = true.
Hypothesis He : forall u v, pair_in u v eo = has_edge r u v || has_edge p u v.
Let I := its_construct r p eo.
Let c := get_rc I.

Definition reads_centre (c X : gr) : Prop :=
  (forall n, has_node X n = has_node c n) /\
  (forall n a, label c n = Some a ->
     label X n = Some (gml_node n (tg_el (tG_of a)) (tg_ch (tG_of a)) (tg_ch (tH_of a)))) /\
  (forall u v, adj X u v = adj c u v).

Lemma three_routes_sec (eh : bool) :
  reads_centre c (gml_to_its (smart_to_gml r p eo true false eh)) /\
  reads_centre c (gml_to_its (its_to_gml (rsmi_to_its r p eo false false) true false eh)) /\
  reads_centre c (gml_to_its (its_to_gml (rsmi_to_its r p eo true false) true false eh)).
Proof.
  pose proof (I_is_ok r p Hr Hp Hb eo He) as HI. fold I in HI.
  pose proof (centre_IOK r p Hr Hp Hb eo He) as K. fold I in K. fold c in K.
  pose proof (centre_hc_free I HI) as Hc. fold c in Hc.
  assert (reads_centre c (gml_to_its (its_to_gml I true false eh))) as RB.
  { rewrite its_core_is_centre_export. exact (centre_roundtrip_any c eh K Hc). }
  split; [|split].
  - rewrite two_routes_string_its. exact RB.
  - exact RB.
  - unfold rsmi_to_its. cbv iota. fold I. fold c. rewrite its_core_is_centre_export.
    assert (IOK (get_rc c)) as K'.
    { apply (IOK_transfer c); [exact K|apply get_rc_gwf, rc_is_ok, HI|apply rc_idem_label, HI|apply rc_idem_adj, HI]. }
    assert (forall n a, label (get_rc c) n = Some a -> cval a <= 0) as Hc'.
    { intros n a L. apply (Hc n a). unfold c in L. rewrite (rc_idem_label I HI) in L. exact L. }
    destruct (centre_roundtrip_any (get_rc c) eh K' Hc') as (B1 & B2 & B3). cbv zeta in B1, B2, B3.
    split; [|split].
    + intros n. rewrite B1. unfold has_node, c. rewrite (rc_idem_label I HI). reflexivity.
    + intros n a L. apply B2. unfold c. rewrite (rc_idem_label I HI). exact L.
    + intros u v. rewrite B3. unfold c. apply (rc_idem_adj I HI).
Qed.
End Three.

Theorem three_routes (r p : gr) (eo : list (N * N)) (eh : bool) :
  mol_ok r = true -> mol_ok p = true -> balanced r p = true -> eo_covers r p eo = true ->
  let c := get_rc (its_construct r p eo) in
  reads_centre c (gml_to_its (smart_to_gml r p eo true false eh)) /\
  reads_centre c (gml_to_its (its_to_gml (rsmi_to_its r p eo false false) true false eh)) /\
  reads_centre c (gml_to_its (its_to_gml (rsmi_to_its r p eo true false) true false eh)).
Proof.
  intros Hr Hp Hb He. apply three_routes_sec; auto. apply eo_covers_spec. exact He.
Qed.




(** ** ... and through the TEXT: the rule text written for the reaction, read by GMLToNX, gives the centre *)
Theorem three_routes_text (r p : gr) (eo : list (N * N)) (eh : bool) (name : str) :
  mol_ok r = true -> mol_ok p = true -> balanced r p = true -> eo_covers r p eo = true -> ~ In 10%N name ->
  let c := get_rc (its_construct r p eo) in
  let via_text := fun rec : grec => rec_okb rec = true ->
    exists X, option_map snd (text_to_nx (render name rec)) = Some X /\ reads_centre c X in
  via_text (smart_to_gml r p eo true false eh) /\
  via_text (its_to_gml (rsmi_to_its r p eo false false) true false eh) /\
  via_text (its_to_gml (rsmi_to_its r p eo true false) true false eh).
Proof.
  intros Hr Hp Hb He Hn c via_text. destruct (three_routes r p eo eh Hr Hp Hb He) as (A & B & C). fold c in A, B, C.
  unfold via_text. repeat split; intros Hk; eexists; (split; [rewrite (text_to_nx_render name _ Hn Hk); reflexivity|]); assumption.
Qed.

(** ** ... starting from what the code reads from RDKit: two molecule records in the contract [rdmol_ok] *)
Theorem three_routes_from_records (mr mp : rmol) (eo : list (N * N)) (eh : bool) :
  rdmol_ok mr = true -> rdmol_ok mp = true ->
  let r := mol_to_graph mr true true in
  let p := mol_to_graph mp true true in
  balanced r p = true -> eo_covers r p eo = true ->
  let c := get_rc (its_construct r p eo) in
  reads_centre c (gml_to_its (smart_to_gml r p eo true false eh)) /\
  reads_centre c (gml_to_its (its_to_gml (rsmi_to_its r p eo false false) true false eh)) /\
  reads_centre c (gml_to_its (its_to_gml (rsmi_to_its r p eo true false) true false eh)).
Proof.
  intros Hr Hp r p Hb He. apply three_routes; [apply rsmi_graph_mol_ok, Hr|apply rsmi_graph_mol_ok, Hp|exact Hb|exact He].
Qed.

(** ** the same with reindex=True (the default of its_to_gml): every route gives a renumbering of the centre *)
Definition reads_centre_by (c : gr) (f : N -> N) (X : gr) : Prop :=
  (forall k, has_node X k = true <-> exists n, In n (node_ids c) /\ k = f n) /\
  (forall n a, label c n = Some a ->
     label X (f n) = Some (gml_node (f n) (tg_el (tG_of a)) (tg_ch (tG_of a)) (tg_ch (tH_of a)))) /\
  (forall u v, In u (node_ids c) -> In v (node_ids c) -> adj X (f u) (f v) = adj c u v).

Lemma centre_roundtrip_reindex_any c (eh : bool) : IOK c -> (forall n a, label c n = Some a -> cval a <= 0) ->
  reads_centre_by c (mapget (enum_from 1%N (node_ids c))) (gml_to_its (its_to_gml c false true eh)).
Proof.
  intros K Hc. destruct eh.
  - apply (gml_roundtrip_reindex_eh_iok c K Hc).
  - destruct (gml_roundtrip_reindex_iok c K) as (_ & A1 & A2 & A3 & _). split; [exact A1|split; [exact A2|exact A3]].
Qed.

Theorem three_routes_reindex (r p : gr) (eo : list (N * N)) (eh : bool) :
  mol_ok r = true -> mol_ok p = true -> balanced r p = true -> eo_covers r p eo = true ->
  let c := get_rc (its_construct r p eo) in
  let fA := mapget (enum_from 1%N (node_ids c)) in
  let fC := mapget (enum_from 1%N (node_ids (get_rc c))) in
  reads_centre_by c fA (gml_to_its (smart_to_gml r p eo true true eh)) /\
  reads_centre_by c fA (gml_to_its (its_to_gml (rsmi_to_its r p eo false false) true true eh)) /\
  reads_centre_by c fC (gml_to_its (its_to_gml (rsmi_to_its r p eo true false) true true eh)).
Proof.
  intros Hr Hp Hb He0 c fA fC. pose proof (eo_covers_spec r p eo He0) as He.
  pose proof (I_is_ok r p Hr Hp Hb eo He) as HI. pose proof (centre_IOK r p Hr Hp Hb eo He) as K. fold c in K.
  pose proof (centre_hc_free _ HI) as Hc. fold c in Hc.
  assert (reads_centre_by c fA (gml_to_its (its_to_gml (its_construct r p eo) true true eh))) as RB.
  { rewrite its_core_is_centre_export. exact (centre_roundtrip_reindex_any c eh K Hc). }
  split; [|split].
  - rewrite two_routes_string_its. exact RB.
  - exact RB.
  - unfold rsmi_to_its. cbv iota. fold c. rewrite its_core_is_centre_export.
    assert (IOK (get_rc c)) as K'.
    { apply (IOK_transfer c); [exact K|apply get_rc_gwf, rc_is_ok, HI|apply rc_idem_label, HI|apply rc_idem_adj, HI]. }
    assert (forall n a, label (get_rc c) n = Some a -> cval a <= 0) as Hc'.
    { intros n a L. apply (Hc n a). unfold c in L. rewrite (rc_idem_label _ HI) in L. exact L. }
    destruct (centre_roundtrip_reindex_any (get_rc c) eh K' Hc') as (B1 & B2 & B3). fold fC in B1, B2, B3.
    assert (forall n, In n (node_ids (get_rc c)) <-> In n (node_ids c)) as Hn.
    { intros n. rewrite <- !has_node_in. unfold has_node. unfold c at 1. rewrite (rc_idem_label _ HI). reflexivity. }
    split; [|split].
    + intros k. rewrite B1. split; intros (n & H1 & H2); exists n; (split; [apply Hn; exact H1|exact H2]).
    + intros n a L. apply B2. unfold c. rewrite (rc_idem_label _ HI). exact L.
    + intros u v Hu Hv. rewrite B3 by (apply Hn; assumption). unfold c. apply (rc_idem_adj _ HI).
Qed.


(** ** full ITS vs its centre for an ARBITRARY ITS graph (not only ITSGraph of molecule graphs), explicit_hydrogen either way *)
Theorem two_routes_centre_any (I : gr) (eh : bool) :
  gwfb I = true -> all_tgh I = true -> its_ok (get_rc I) = true ->
  let c := get_rc I in
  reads_centre c (gml_to_its (its_to_gml I true false eh)) /\ reads_centre c (gml_to_its (its_to_gml c true false eh)).
Proof.
  intros Hw Ht Hok c. pose proof (gwfb_alltgh_is_ok I Hw Ht) as HI. pose proof (its_ok_IOK _ Hok) as K. fold c in K.
  pose proof (centre_hc_free I HI) as Hc. fold c in Hc. split.
  - rewrite its_core_is_centre_export. exact (centre_roundtrip_any c eh K Hc).
  - rewrite its_core_is_centre_export.
    assert (IOK (get_rc c)) as K'.
    { apply (IOK_transfer c); [exact K|apply get_rc_gwf, rc_is_ok, HI|apply rc_idem_label, HI|apply rc_idem_adj, HI]. }
    assert (forall n a, label (get_rc c) n = Some a -> cval a <= 0) as Hc'.
    { intros n a L. apply (Hc n a). unfold c in L. rewrite (rc_idem_label I HI) in L. exact L. }
    destruct (centre_roundtrip_any (get_rc c) eh K' Hc') as (B1 & B2 & B3). cbv zeta in B1, B2, B3.
    split; [|split].
    + intros n. rewrite B1. unfold has_node, c. rewrite (rc_idem_label I HI). reflexivity.
    + intros n a L. apply B2. unfold c. rewrite (rc_idem_label I HI). exact L.
    + intros u v. rewrite B3. unfold c. apply (rc_idem_adj I HI).
Qed.

(** ** rsmi_to_its(explicit_hydrogen=True) keeps the total hydrogen count of the ITS (any graphs at all) *)
Theorem rsmi_to_its_total_h (r p : gr) (eo : list (N * N)) :
  total_h (rsmi_to_its r p eo false true) = total_h (rsmi_to_its r p eo false false).
Proof. unfold rsmi_to_its. apply h_total_explicit. Qed.

(** ** graph_to_rsmi *)
Lemma rc_h_maps_no_H rc : no_H rc = true -> rc_h_maps rc = Some [].
Proof.
  unfold no_H, rc_h_maps. induction (gnodes rc) as [|q l IH]; [reflexivity|]. simpl. intros H. apply andb_true_iff in H.
  destruct H as [H1 H2]. apply negb_true_iff in H1. rewrite H1. apply IH. exact H2.
Qed.

Theorem graph_to_rsmi_no_H (r p its : gr) (eh : bool) : no_H (get_rc its) = true ->
  graph_to_rsmi_mols r p its eh = Some (graph_to_mol r, graph_to_mol p).
Proof.
  intros H. unfold graph_to_rsmi_mols. destruct eh; [reflexivity|]. rewrite (rc_h_maps_no_H _ H). reflexivity.
Qed.

Theorem graph_to_smi_mol_k_ok (g : gr) (l : list Z) : imph_keys_ok g = true -> graph_to_smi_mol_k g l = graph_to_smi_mol g l.
Proof. intros H. unfold graph_to_smi_mol_k, graph_to_smi_mol. destruct l; [reflexivity|]. rewrite H. reflexivity. Qed.

(** the preserve list is exactly the atom maps of the hydrogens of the centre, in node order *)
Theorem rc_h_maps_spec rc l : rc_h_maps rc = Some l ->
  l = map (fun q : N * natt => dflt (a_am (snd q)) 0) (filter (fun q : N * natt => el_is_H (snd q)) (gnodes rc)).
Proof.
  unfold rc_h_maps. revert l. induction (gnodes rc) as [|q t IH]; intros l; [intros [= <-]; reflexivity|].
  cbn [fold_right filter]. destruct (el_is_H (snd q)) eqn:EH.
  - destruct (a_am (snd q)) as [m|] eqn:EA; [|discriminate].
    destruct (fold_right _ _ t) as [l'|]; [|discriminate]. intros [= <-]. cbn [map]. rewrite EA. simpl. f_equal. apply IH. reflexivity.
  - apply IH.
Qed.

(** ** the writer is _rule_grammar of its last intermediate state *)
Theorem nx_to_gml_mid_spec (Lg Rg Kg : gr) (reindex eh : bool) :
  nx_to_gml Lg Rg Kg reindex eh = rule_grammar (nx_to_gml_mid Lg Rg Kg reindex eh) eh.
Proof. unfold nx_to_gml, nx_to_gml_mid, rule_grammar. destruct reindex; reflexivity. Qed.
Theorem its_to_gml_mid_spec (its : gr) (core reindex eh : bool) :
  its_to_gml its core reindex eh = rule_grammar (its_to_gml_mid its core reindex eh) eh.
Proof. unfold its_to_gml, its_to_gml_mid. destruct (its_decompose _) as [r p]. apply nx_to_gml_mid_spec. Qed.

(** non-vacuity *)
Example three_routes_ex :
  mol_ok ex_r = true /\ mol_ok ex_p = true /\ balanced ex_r ex_p = true /\ eo_covers ex_r ex_p (union_pairs ex_r ex_p) = true /\
  List.length (gnodes (get_rc (its_construct ex_r ex_p (union_pairs ex_r ex_p)))) = 3%nat /\
  List.length (gnodes (rsmi_to_its ex_r ex_p (union_pairs ex_r ex_p) false false)) = 4%nat.
Proof. vm_compute. repeat split. Qed.

Definition ex_rh : gr := LG [(1%N, mkq "C" 2 0); (2%N, mkq "O" 1 0)] [(1%N, 2%N, EA (Some (OS 2)) None)].
Example rsmi_to_its_total_h_ex :
  total_h (rsmi_to_its ex_r ex_p (union_pairs ex_r ex_p) false true) = 9 /\
  List.length (gnodes (rsmi_to_its ex_r ex_p (union_pairs ex_r ex_p) false true)) = 13%nat.
Proof. vm_compute. split; reflexivity. Qed.

Example graph_to_rsmi_no_H_ex :
  let its := its_construct ex_r ex_p (union_pairs ex_r ex_p) in
  no_H (get_rc its) = true /\ graph_to_rsmi_mols ex_r ex_p its false <> None.
Proof. vm_compute. split; [reflexivity|discriminate]. Qed.

(** ** KNOWN FINDING smiles_to_graph:use_index_as_atom_map:partial-mapping-id-collision (code kept as it is): with
    use_index_as_atom_map=True and drop_non_aam=False a mapped atom is numbered by its map number and an unmapped atom by
    index + 1; on the partially mapped molecule [CH3:2]C both atoms get id 2, the graph has one node with a self-loop and
    graph_to_mol fails — although the molecule is well formed and its map numbers are distinct; the default flags are fine *)
Definition ex_partial : rmol := ([RAt (s2l "C") false 3 0 2; RAt (s2l "C") false 3 0 0], [(0%N, 1%N, 2)]).
Theorem partial_mapping_id_collision_refuted :
  exists m : rmol, wf_mol m = true /\ nodupb (map fst (numT (fst m))) = true /\
    List.length (gnodes (mol_to_graph m false true)) = 1%nat /\ List.length (fst m) = 2%nat /\
    graph_to_mol (mol_to_graph m false true) = None /\
    List.length (gnodes (mol_to_graph m false false)) = 2%nat /\ graph_to_mol (mol_to_graph m false false) <> None.
Proof. exists ex_partial. vm_compute. repeat split; discriminate. Qed.
