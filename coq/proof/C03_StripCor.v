(** C03 — corollaries of the exact characterisation of default-mode rule preparation, in the pointwise forms C04 uses:
    totality, node ids, per-atom labels and hydrogen counts, the left pattern, counts as adjacency indicators.
    Stdlib lists only. *)
From Coq Require Import List NArith ZArith Bool Lia.
From SK Require Import lib.Tok lib.LGraph model.C03_Model proof.C03_Proof proof.C03_Glue proof.C03_Backward proof.C03_Skeleton
                       proof.C03_StripCounts proof.C03_WiringCount proof.C03_StripExact proof.C03_Default.
Import ListNotations.
Local Open Scope Z_scope.

(** * totality *)
Lemma sh_fold_total l r ns : (forall n, In n ns -> has_node l n = true) -> exists hs, fold_right (sh_step l r) (Some []) ns = Some hs.
Proof.
  induction ns as [|n ns IH]; intros H; [exists []; reflexivity|]. cbn [fold_right].
  destruct IH as [acc E]; [intros; apply H; right; assumption|]. rewrite E. unfold sh_step.
  destruct (has_node r n) eqn:En; [|eauto]. unfold fully_removable. rewrite !removable_on_spec, (H n (or_introl eq_refl)), En.
  destruct (heavy_nbr l n); [destruct (heavy_nbr r n)|]; eauto.
Qed.

Lemma refresh_types_total (rc : its) (l r : molg) :
  (forall k, In k (node_ids rc) -> has_node l k = true /\ has_node r k = true) -> exists rc', refresh_types rc l r = Some rc'.
Proof.
  unfold refresh_types. intros H.
  match goal with |- context [fold_right ?f _ _] => set (F := f) end.
  assert (E : exists ns, fold_right F (Some []) (gnodes rc) = Some ns).
  { unfold node_ids in H. induction (gnodes rc) as [|[k a] r0 IH]; [exists []; reflexivity|]. cbn [fold_right].
    destruct IH as [ns E]; [intros k0 I; apply H; right; exact I|]. rewrite E. unfold F at 1. cbn [fst snd].
    destruct (H k (or_introl eq_refl)) as [H1 H2]. unfold has_node in H1, H2.
    destruct (label l k); [|discriminate]. destruct (label r k); [|discriminate]. eauto. }
  destruct E as [ns E]. rewrite E. eauto.
Qed.

Lemma ids_filter {A} (c : N -> bool) (l : list (N * A)) : map fst (filter (fun p => c (fst p)) l) = filter c (map fst l).
Proof. induction l as [|[k a] r IH]; simpl; [reflexivity|]. destruct (c k); simpl; rewrite IH; reflexivity. Qed.

Lemma Forall2_in_r {A B} (R : A -> B -> Prop) l1 l2 q : Forall2 R l1 l2 -> In q l2 -> exists p, In p l1 /\ R p q.
Proof. induction 1 as [|x y l1 l2 Hxy _ IH]; intros I; [destruct I|]. destruct I as [<-|I]; [eauto using in_eq|]. destruct (IH I) as (p & Ip & Rp). eauto using in_cons. Qed.

Theorem synrule_default_total (tpl : its) :
  nodupb (node_ids tpl) = true -> (forall k a, In (k, a) (gnodes tpl) -> a_el (iH a) = a_el (iG a)) ->
  exists rc l r, synrule tpl true = Some (rc, l, r).
Proof.
  intros Hnd Hel. apply nodupb_NoDup in Hnd.
  destruct (sh_fold_total (side0 iG eG tpl) (side0 iH eH tpl) (h_nodes_m (side0 iG eG tpl))) as [hs Eh].
  { intros n I. apply (proj1 (h_nodes_isH (side0 iG eG tpl) n (NL0 tpl Hnd))) in I. unfold is_H_m in I. unfold has_node.
    destruct (label (side0 iG eG tpl) n); [reflexivity|discriminate]. }
  rewrite <- shared_h_unfold in Eh.
  pose proof (strip_value tpl Hnd Hel hs Eh) as Ev. destruct (strip_steps tpl Hnd Hel hs Eh) as ([I1 I2 I3 _ _] & _).
  unfold synrule. cbn [negb]. unfold its_decompose. rewrite Ev. destruct (run2 tpl hs) as [[rc1 l1] r1]. unfold tl_, tr_ in *. cbn [fst snd] in *.
  destruct (refresh_types_total rc1 l1 r1) as [rc' Er]; [|rewrite Er; eauto].
  intros k Ik. rewrite (skel_ids tpl rc1 _ I1) in Ik. unfold keepn in Ik.
  rewrite (ids_filter (fun n => negb (mem n (rev (sort_N hs)))) (gnodes tpl)) in Ik. fold (node_ids tpl) in Ik. split; apply has_node_in.
  - rewrite (mskel_ids _ l1 _ I2). unfold mkeepn.
    rewrite (ids_filter (fun n => negb (mem n (rev (sort_N hs))))). fold (node_ids (side0 iG eG tpl)). rewrite side0_ids_G. exact Ik.
  - rewrite (mskel_ids _ r1 _ I3). unfold mkeepn.
    rewrite (ids_filter (fun n => negb (mem n (rev (sort_N hs))))). fold (node_ids (side0 iH eH tpl)). rewrite side0_ids_H. exact Ik.
Qed.

(** * the prepared rule, atom by atom *)
Theorem synrule_default_pointwise (tpl rc : its) (l r : molg) :
  nodupb (node_ids tpl) = true -> (forall k a, In (k, a) (gnodes tpl) -> a_el (iH a) = a_el (iG a)) ->
  synrule tpl true = Some (rc, l, r) ->
  exists R : list N,
    NoDup R /\
    (forall h, In h R <-> is_H_i tpl h = true /\ heavy_nbr (side0 iG eG tpl) h = true /\ heavy_nbr (side0 iH eH tpl) h = true) /\
    node_ids rc = filter (fun n => negb (mem n R)) (node_ids tpl) /\ node_ids l = node_ids rc /\ node_ids r = node_ids rc /\
    NoDup (node_ids rc) /\ gedges rc = filter (keepe R) (gedges tpl) /\
    (forall k a0, label tpl k = Some a0 -> ~ In k R ->
       exists a, label rc k = Some a /\ set_hc (iG a) 0 = set_hc (iG a0) 0 /\ set_hc (iH a) 0 = set_hc (iH a0) 0 /\
                 a_hc (iG a) = (if N.eqb (a_el (iG a0)) EL_H then 0 else sum_cnt (gedges (side0 iG eG tpl)) R k) /\
                 a_hc (iH a) = (if N.eqb (a_el (iG a0)) EL_H then 0 else sum_cnt (gedges (side0 iH eH tpl)) R k)) /\
    ((forall h, is_H_i tpl h = true -> In h R) -> has_XH l = false /\ h_to_implicit l = l).
Proof.
  intros Hnd0 Hel H. pose proof (nodupb_NoDup _ Hnd0) as Hnd.
  destruct (synrule_default_exact tpl rc l r Hnd0 Hel H) as (R0 & _). clear R0.
  unfold synrule in H. cbn [negb] in H. unfold its_decompose in H.
  destruct (strip_explicit_h _ _ _) as [[[rc1 l1] r1]|] eqn:Es; [|discriminate].
  destruct (refresh_types rc1 l1 r1) as [rc'|] eqn:Er; [|discriminate]. inversion H; subst rc' l1 r1. clear H.
  destruct (strip_exact tpl Hnd Hel rc1 l r Es) as (hs & Eh & [I1 I2 I3 _ _]). unfold tl_, tr_ in *. cbn [fst snd] in *.
  set (R := rev (sort_N hs)) in *.
  destruct (refresh_types_core _ _ _ _ Er) as [F1 F2]. pose proof (refresh_types_counts rc1 l r rc Er) as Fc.
  pose proof I1 as [_ K2 K3].
  assert (KK : Forall2 same_core (gnodes rc) (filter (keepn R) (gnodes tpl))) by (eapply Forall2_trans'; [exact same_core_trans|exact F1|exact K2]).
  assert (Eids : node_ids rc = filter (fun n => negb (mem n R)) (node_ids tpl)).
  { unfold node_ids. rewrite (Forall2_ids _ _ _ (fun p q (Hs : same_core p q) => proj1 Hs) KK). apply (ids_filter (fun n => negb (mem n R))). }
  assert (Nrc : NoDup (node_ids rc)) by (rewrite Eids; apply NoDup_filter; exact Hnd).
  assert (Eidl : node_ids l = node_ids rc).
  { rewrite Eids, (mskel_ids _ l _ I2). unfold mkeepn. rewrite (ids_filter (fun n => negb (mem n R))). fold (node_ids (side0 iG eG tpl)). rewrite side0_ids_G. reflexivity. }
  assert (Eidr : node_ids r = node_ids rc).
  { rewrite Eids, (mskel_ids _ r _ I3). unfold mkeepn. rewrite (ids_filter (fun n => negb (mem n R))). fold (node_ids (side0 iH eH tpl)). rewrite side0_ids_H. reflexivity. }
  assert (Memb : forall h, In h R <-> is_H_i tpl h = true /\ heavy_nbr (side0 iG eG tpl) h = true /\ heavy_nbr (side0 iH eH tpl) h = true).
  { intros h. unfold R. rewrite <- in_rev, in_sort_N_iff. pose proof Eh as Eh'. rewrite shared_h_unfold in Eh'.
    rewrite (proj1 (sh_fold_spec _ _ _ hs Eh') h).
    rewrite (h_nodes_isH (side0 iG eG tpl) h (NL0 tpl Hnd)), (isH_L0 tpl h).
    unfold fully_removable. rewrite !removable_on_spec, (has_L0 tpl), (has_R0 tpl). split.
    + intros (A & B & C). split; [exact A|]. rewrite B in C. destruct (has_node tpl h); [|discriminate].
      destruct (heavy_nbr (side0 iG eG tpl) h); [|discriminate]. inversion C. auto.
    + intros (A & B & C). rewrite (isH_has tpl h A), B, C. auto. }
  (* the side node that belongs to a kept template atom *)
  assert (Side : forall (sn : inode -> nattr) (se : iedge -> Z) (g : molg) k a0 la,
            gnodes (side0 sn se tpl) = map (fun p => (fst p, n0 sn (snd p))) (gnodes tpl) ->
            mskel (side0 sn se tpl) g R -> In (k, a0) (gnodes tpl) -> label g k = Some la ->
            m_hc la = (if N.eqb (a_el (sn a0)) EL_H then 0 else sum_cnt (gedges (side0 sn se tpl)) R k) /\ m_el la = a_el (sn a0)).
  { intros sn se g k a0 la En [S1 _] Ia Hl. unfold label in Hl. apply assoc_in in Hl.
    destruct (Forall2_in_l _ _ _ _ S1 Hl) as ([k' q] & Iq & (E1 & E2 & _ & _ & E5)). cbn [fst snd] in *. subst k'.
    apply filter_In in Iq. destruct Iq as [Iq _]. rewrite En in Iq. apply in_map_iff in Iq. destruct Iq as ([k2 a2] & E & I2'). cbn [fst snd] in E.
    inversion E; subst k2 q. clear E.
    assert (a2 = a0).
    { pose proof (assoc_nodup_in k (gnodes tpl) a2 Hnd I2') as X1. pose proof (assoc_nodup_in k (gnodes tpl) a0 Hnd Ia) as X2. congruence. }
    subst a2. unfold is_Hm in E5. cbn [n0 m_hc m_el] in E5, E2. split; [rewrite E5; destruct (N.eqb (a_el (sn a0)) EL_H); lia|exact E2]. }
  exists R. split; [unfold R; apply NoDup_rev; apply nodup_sort_N; pose proof Eh as Eh'; rewrite shared_h_unfold in Eh';
                    exact (proj2 (sh_fold_spec _ _ _ hs Eh') (NoDup_map_filter _ (gnodes (side0 iG eG tpl)) (NL0 tpl Hnd)))|].
  split; [exact Memb|]. split; [exact Eids|]. split; [exact Eidl|]. split; [exact Eidr|]. split; [exact Nrc|].
  split; [rewrite F2; exact K3|]. split.
  - intros k a0 Hl HnR. unfold label in Hl. apply assoc_in in Hl.
    assert (Iq : In (k, a0) (filter (keepn R) (gnodes tpl))).
    { apply filter_In. split; [exact Hl|]. unfold keepn. cbn [fst]. destruct (mem k R) eqn:Em; [apply mem_spec in Em; contradiction|reflexivity]. }
    destruct (Forall2_in_r _ _ _ _ KK Iq) as ([k' a] & Ia & (E1 & E2 & E3)). cbn [fst snd] in *. subst k'.
    exists a. split; [apply assoc_nodup_in; assumption|]. split; [exact E2|]. split; [exact E3|].
    destruct (Fc k a Ia) as (la & ra & Ll & Lr & Hg & Hh). rewrite Hg, Hh.
    destruct (Side iG eG l k a0 la (side0_nodes_G tpl) I2 Hl Ll) as [A _].
    destruct (Side iH eH r k a0 ra (side0_nodes_H tpl) I3 Hl Lr) as [B _]. rewrite (Hel k a0 Hl) in B. auto.
  - intros Hall.
    assert (NoH : forall x, is_H_m l x = false).
    { intros x. unfold is_H_m. destruct (label l x) as [la|] eqn:Ll; [|reflexivity].
      assert (Ix : In x (node_ids tpl)).
      { assert (In x (node_ids l)) by (apply has_node_in; unfold has_node; rewrite Ll; reflexivity).
        rewrite Eidl, Eids in H. apply filter_In in H. tauto. }
      unfold node_ids in Ix. apply in_map_iff in Ix. destruct Ix as ([k a0] & E & Ia). cbn [fst] in E. subst k.
      destruct (Side iG eG l x a0 la (side0_nodes_G tpl) I2 Ia Ll) as [_ Ee]. rewrite Ee.
      destruct (N.eqb (a_el (iG a0)) EL_H) eqn:EH; [|reflexivity]. exfalso.
      assert (HR : In x R) by (apply Hall; unfold is_H_i, label; rewrite (assoc_nodup_in x (gnodes tpl) a0 Hnd Ia); exact EH).
      assert (In x (node_ids l)) by (apply has_node_in; unfold has_node; rewrite Ll; reflexivity).
      rewrite Eidl, Eids in H. apply filter_In in H. destruct H as [_ H]. apply negb_true_iff in H. apply mem_spec in HR. congruence. }
    split.
    + unfold has_XH. apply not_true_is_false. intros C. apply existsb_exists in C. destruct C as ([[u v] o] & _ & C).
      rewrite !NoH in C. discriminate.
    + unfold h_to_implicit. replace (h_nodes_m l) with (@nil N); [reflexivity|]. symmetry. unfold h_nodes_m.
      rewrite filter_nil; [reflexivity|]. intros [k la] Ik. cbn [snd].
      assert (Nl : NoDup (node_ids l)) by (rewrite Eidl; exact Nrc).
      pose proof (NoH k) as Hk. unfold is_H_m, label in Hk. rewrite (assoc_nodup_in k (gnodes l) la Nl Ik) in Hk. exact Hk.
Qed.

(** * the counts as sums of adjacency indicators *)
Lemma side0_edges sn se tpl :
  gedges (side0 sn se tpl) = flat_map (fun e : N * N * iedge => let '(u, v, x) := e in if 0 <? se x then [(u, v, se x)] else []) (gedges tpl).
Proof. reflexivity. Qed.

Lemma cnt_none (es : list (N * N * iedge)) (se : iedge -> Z) h k :
  (forall u v x, In (u, v, x) es -> peq u v h k = false) ->
  length (filter (fun e : N * N * Z => peq (fst (fst e)) (snd (fst e)) h k)
            (flat_map (fun e : N * N * iedge => let '(u, v, x) := e in if 0 <? se x then [(u, v, se x)] else []) es)) = 0%nat.
Proof.
  induction es as [|[[u v] x] r IH]; intros H; [reflexivity|]. cbn [flat_map]. rewrite filter_app, app_length, IH by (intros; eapply H; right; eauto).
  destruct (0 <? se x); [|reflexivity]. cbn [filter fst snd]. rewrite (H u v x (or_introl eq_refl)). reflexivity.
Qed.

Lemma cnt_indicator sn se tpl h k : simple_edgesb (gedges tpl) = true ->
  cnt (gedges (side0 sn se tpl)) h k = (if match adj tpl k h with Some x => 0 <? se x | None => false end then 1 else 0).
Proof.
  intros Hs. apply simpleP_of_b in Hs. unfold cnt, adj. rewrite side0_edges.
  induction (gedges tpl) as [|[[u v] x] r IH]; [reflexivity|]. cbn [pairs map fst] in Hs. destruct Hs as (_ & H2 & H3).
  cbn [flat_map find_edge]. rewrite filter_app, app_length.
  change ((N.eqb u k && N.eqb v h) || (N.eqb u h && N.eqb v k)) with (peq u v k h). rewrite (peq_sym2 u v k h).
  destruct (peq u v h k) eqn:Ep.
  - rewrite cnt_none.
    + destruct (0 <? se x); cbn [filter fst snd length]; rewrite ?Ep; reflexivity.
    + intros u' v' x' I. apply (peq_false_trans u' v' u v h k); [|exact Ep]. apply H2. unfold pairs.
      change (u', v') with (fst (u', v', x')). apply in_map. exact I.
  - rewrite <- (IH H3). destruct (0 <? se x); cbn [filter fst snd length]; rewrite ?Ep; reflexivity.
Qed.

Theorem sum_cnt_adjacent sn se tpl R k : simple_edgesb (gedges tpl) = true ->
  sum_cnt (gedges (side0 sn se tpl)) R k
  = Z.of_nat (length (filter (fun h => match adj tpl k h with Some x => 0 <? se x | None => false end) R)).
Proof.
  intros Hs. induction R as [|h r IH]; [reflexivity|]. cbn [sum_cnt fold_right filter]. fold (sum_cnt (gedges (side0 sn se tpl)) r k).
  rewrite IH, (cnt_indicator sn se tpl h k Hs).
  destruct (match adj tpl k h with Some x => 0 <? se x | None => false end); cbn [length]; lia.
Qed.
