(** C05 — the statements of props/C05.v, proved (props/C05.v only contains [exact thm_...]). *)
From Coq Require Import List NArith ZArith Bool.
From SK Require Import lib.LGraph lib.Mono.
From SK Require model.C06_Model model.C11_Model.
From SK Require Import model.C03_Model model.C05_Model proof.C05_Proof proof.C05_Glue proof.C05_Pipe proof.C05_Prep proof.C05_Comp proof.C05_Main proof.C05_Order proof.C05_Sub proof.C05_Set proof.C05_Result proof.C05_AllStrat proof.C05_PrepOrder proof.C05_Final proof.C05_Default proof.C05_Rewrite proof.C05_Capstone proof.C05_Refuted proof.C05_Cap proof.C05_AnyCap proof.C05_Partial proof.C05_PartialOrder proof.C05_PartialCap proof.C05_Prefilter proof.C05_PrefilterOrder proof.C05_Enum.
From SK Require Import lib.C06_Spec proof.C06_Comp.
From SK Require proof.C11_Dedup.
From Coq Require Import Permutation.
Import ListNotations.

Section WithThr.
Context {TH : Thr}.


Lemma thm_vocabulary :
  (forall f, inj f <-> forall a b : N, f a = f b -> a = b) /\
  (forall sg pi (m : mapping), mv sg pi m = map (fun ph => (sg (fst ph), pi (snd ph))) m) /\
  (* the same graph written in another order: same node ids, labels, adjacency *)
  (forall (g g' : hostg), same_graph g g' <->
     (forall u, label g' u = label g u) /\ (forall u v, LGraph.adj g' u v = LGraph.adj g u v) /\
     (forall u, In u (node_ids g) <-> In u (node_ids g')) /\ NoDup (node_ids g) /\ NoDup (node_ids g')) /\
  (* observational equality of two ITS graphs: the same label function and the same adjacency function *)
  (forall (T T' : its), obs_eq T T' <->
     (forall n, label T' n = label T n) /\ (forall a b, LGraph.adj T' a b = LGraph.adj T a b)) /\
  (* what the boolean [side_okb] (evaluated by the correspondence on every writing) guarantees *)
  (forall host p, side_okb host p = true ->
     p_flag p = false /\ gwf (host_c06 host) /\ gwf (pat_c06 (p_pat p)) /\
     (C06_Model.lenN (C06_Model.monos_on (host_c06 host) (pat_c06 (p_pat p))
                        (node_ids (host_c06 host)) (node_ids (pat_c06 (p_pat p)))) <= thr_val)%N /\
     NoDup (node_ids (p_rc p)) /\ simple_edgesb (gedges (p_rc p)) = true /\
     (forall a b x, In (a, b, x) (gedges (p_rc p)) -> In a (node_ids (p_rc p)) /\ In b (node_ids (p_rc p))) /\
     (forall u, In u (node_ids (p_pat p)) -> In u (node_ids (p_rc p)))) /\
  (* [side_okb_c] (what the run function evaluates) = [side_okb] and the component-aware bound of the C06 specification *)
  (forall host p, side_okb_c host p = true ->
     side_okb host p = true /\
     (comp_bound (C06_Model.monos_on (host_c06 host) (pat_c06 (p_pat p))) true (host_c06 host) (pat_c06 (p_pat p)) <= thr_val)%N).
Proof. exact vocabulary_c. Qed.

Lemma thm_glue_equivariant :
  forall (sg pi : N -> N), inj sg -> inj pi ->
  forall (host : hostg) (rc : its) (m : mapping),
    glue (relabel pi host) (relabel sg rc) (mv sg pi m) = option_map (relabel pi) (glue host rc m).
Proof. exact glue_equivariant. Qed.

Lemma thm_matches_equivariant :
  (forall (A B : Type) (sg pi : N -> N), inj pi ->
   forall (hn : list N) (pl hl pl' hl' : N -> A) (pe he pe' he' : N -> N -> option B)
          (nm : A -> A -> bool) (em : B -> B -> bool) (induced : bool),
     (forall p, pl' (sg p) = pl p) -> (forall h, hl' (pi h) = hl h) ->
     (forall p q, pe' (sg p) (sg q) = pe p q) -> (forall h k, he' (pi h) (pi k) = he h k) ->
     forall pn, monos (map sg pn) (map pi hn) pl' hl' pe' he' nm em induced
                = map (mv sg pi) (monos pn hn pl hl pe he nm em induced)) /\
  (forall (strat : N) (sg pi : N -> N), inj sg -> inj pi ->
   forall (host : hostg) (pat : molg),
     matches strat (relabel pi host) (relabel sg pat) = map (mv sg pi) (matches strat host pat)) /\
  (forall (sg : N -> N), inj sg ->
   forall rc : its, rule_auts (relabel sg rc) = map (mv sg sg) (rule_auts rc)).
Proof.
  split; [|split].
  - intros A B sg pi Hpi hn pl hl pl' hl' pe he pe' he' nm em induced H1 H2 H3 H4 pn.
    exact (monos_equiv A B sg pi Hpi hn pl hl pl' hl' pe he pe' he' nm em induced H1 H2 H3 H4 pn).
  - exact matches_relabel.
  - exact rule_auts_relabel.
Qed.

Lemma thm_strategy_dispatch :
  (forall host pat, matches 1%N host pat <> [] -> matches 2%N host pat = matches 1%N host pat) /\
  (forall host p, raw_of 1%N host p <> [] -> kept_of 2%N host p = kept_of 1%N host p) /\
  (forall host p, p_flag p = false -> raw_of 1%N host p <> [] -> glued_of 2%N host p = glued_of 1%N host p) /\
  (forall host pat,
     (length (C06_Model.comps (pat_c06 pat)) <> 0)%nat ->
     (length (C06_Model.comps (host_c06 host)) < length (C06_Model.comps (pat_c06 pat)))%nat ->
     matches 1%N host pat = matches 0%N host pat).
Proof.
  split; [exact matches_bt_comp|]. split; [exact kept_bt_comp|]. split; [exact glued_bt_comp | exact matches_comp_all_few].
Qed.

Lemma thm_repeat :
  forall inv imp ex s (h h' : hostg) (t t' : its),
    h = h' -> t = t' -> pipeline inv imp ex s h t = pipeline inv imp ex s h' t'.
Proof. exact pipeline_repeat. Qed.

Lemma thm_prune_sound :
  (forall (sg pi : N -> N), inj sg -> inj pi ->
   forall (rc : its) raw, prune (relabel sg rc) (map (mv sg pi) raw) = map (mv sg pi) (prune rc raw)) /\
  (forall rc raw, C11_Dedup.subseq (prune rc raw) raw) /\
  (forall rc raw m, In m raw ->
     exists k, In k (prune rc raw) /\
       (k = m \/ C11_Model.set_eqb m k = true \/
        exists s, In s (rule_auts rc) /\ C11_Model.set_eqb m (C11_Model.act s k) = true)).
Proof. split; [exact prune_relabel|]. split; [exact prune_subseq | exact prune_complete]. Qed.

Lemma thm_result_list_equivariant :
  forall (strat : N) (sg pi : N -> N), inj sg -> inj pi ->
  forall (host : hostg) (p : prepared), p_flag p = false ->
    kept_of strat (relabel pi host) (relabel_prep sg p) = map (mv sg pi) (kept_of strat host p) /\
    glued_of strat (relabel pi host) (relabel_prep sg p) = map (relabel pi) (glued_of strat host p) /\
    results_of false strat (relabel pi host) (relabel_prep sg p) = option_map (map (relabel pi)) (results_of false strat host p).
Proof.
  intros strat sg pi Hs Hp host p Hflag. split; [|split].
  - apply kept_relabel; assumption.
  - apply glued_relabel; assumption.
  - apply results_relabel; assumption.
Qed.

Lemma thm_pipeline_equivariant_implicit :
  forall (strat : N) (sg pi : N -> N), inj sg -> inj pi ->
  forall (inv : bool) (host : hostg) (tpl : its) (p : prepared),
    prepare inv true tpl = Some p -> p_flag p = false ->
    prepare inv true (relabel sg tpl) = Some (relabel_prep sg p) /\
    pipeline inv true false strat (relabel pi host) (relabel sg tpl)
    = option_map (map (relabel pi)) (pipeline inv true false strat host tpl).
Proof.
  intros strat sg pi Hs Hp inv host tpl p Hprep Hflag. split.
  - apply prepare_relabel; assumption.
  - eapply pipeline_relabel_any; eassumption.
Qed.

Lemma thm_matches_order_independent :
  (forall (host host' : hostg) (pat : molg), same_graph host host' ->
     forall m, In m (matches 0%N host pat) <-> In m (matches 0%N host' pat)) /\
  (forall (sg pi : N -> N), inj sg -> inj pi ->
   forall (host host' : hostg) (pat : molg), same_graph (relabel pi host) host' ->
     forall m, In m (matches 0%N host pat) -> In (mv sg pi m) (matches 0%N host' (relabel sg pat))).
Proof. split; [exact matches_all_host_order | exact matches_all_rewriting]. Qed.

Lemma thm_strategy_subset :
  forall (host : hostg) (pat : molg),
    gwf (host_c06 host) -> gwf (pat_c06 pat) ->
    (comp_bound (C06_Model.monos_on (host_c06 host) (pat_c06 pat)) true (host_c06 host) (pat_c06 pat) <= thr_val)%N ->
    (C06_Model.lenN (C06_Model.monos_on (host_c06 host) (pat_c06 pat) (node_ids (host_c06 host)) (node_ids (pat_c06 pat)))
       <= thr_val)%N ->
    forall m, In m (matches 1%N host pat) -> exists m', In m' (matches 0%N host pat) /\ Permutation m m'.
Proof. exact comp_subset_all. Qed.

Lemma thm_glue_order_independent :
  (forall (host host' : hostg) (rc rc' : its) (m m' : mapping),
     obs_eq host host' -> obs_eq rc rc' ->
     simple_edgesb (gedges rc) = true -> simple_edgesb (gedges rc') = true ->
     NoDup (map fst m) -> NoDup (map snd m) -> NoDup (map fst m') -> NoDup (map snd m') ->
     (forall ph, In ph m <-> In ph m') ->
     (forall p h, In (p, h) m -> (exists pn, label rc p = Some pn) /\ (exists hn, label host h = Some hn)) ->
     match glue host rc m, glue host' rc' m' with
     | Some T, Some T' => obs_eq T T'
     | None, None => True
     | _, _ => False
     end) /\
  (forall (rc : its) (s : mapping),
     NoDup (node_ids rc) -> simple_edgesb (gedges rc) = true ->
     (forall a b x, In (a, b, x) (gedges rc) -> In a (node_ids rc) /\ In b (node_ids rc)) ->
     In s (rule_auts rc) ->
     forall (host : hostg) (k : mapping),
       NoDup (map fst k) -> NoDup (map snd k) ->
       (forall p h, In (p, h) k -> (exists pn, label rc p = Some pn) /\ (exists hn, label host h = Some hn)) ->
       match glue host rc k, glue host rc (C11_Model.act s k) with
       | Some T, Some T' => obs_eq T T'
       | None, None => True
       | _, _ => False
       end).
Proof. split; [exact glue_obs | exact glue_aut]. Qed.

Lemma thm_result_set_invariant_exhaustive :
  forall (sg pi : N -> N), inj sg -> inj pi ->
  forall (host host'' : hostg) (p p'' : prepared),
    side_okb (relabel pi host) (relabel_prep sg p) = true -> side_okb host'' p'' = true ->
    same_graph (relabel pi host) host'' -> same_graph (relabel sg (p_rc p)) (p_rc p'') ->
    same_graph (relabel sg (p_pat p)) (p_pat p'') ->
    (forall T, In T (glued_of 0%N host p) -> exists T'', In T'' (glued_of 0%N host'' p'') /\ obs_eq (relabel pi T) T'') /\
    (forall T'', In T'' (glued_of 0%N host'' p'') -> exists T, In T (glued_of 0%N host p) /\ obs_eq (relabel pi T) T'').
Proof.
  intros sg pi Hs Hp host host'' p p'' S S''.
  exact (glued_set_rewriting sg pi Hs Hp host host'' p p'' (side_okb_ok _ _ S) (side_okb_ok _ _ S'')).
Qed.

Lemma thm_result_set_invariant_partial :
  forall (strat : N), strat = 0%N \/ strat = 1%N \/ strat = 2%N ->
  forall (sg pi : N -> N), inj sg -> inj pi ->
  forall (host host'' : hostg) (p p'' : prepared),
    side_okb_c (relabel pi host) (relabel_prep sg p) = true -> side_okb_c host'' p'' = true ->
    same_graph (relabel pi host) host'' -> same_graph (relabel sg (p_rc p)) (p_rc p'') ->
    same_graph (relabel sg (p_pat p)) (p_pat p'') ->
    (forall T, In T (glued_of strat host p) -> exists T'', In T'' (glued_of strat host'' p'') /\ obs_eq (relabel pi T) T'') /\
    (forall T'', In T'' (glued_of strat host'' p'') -> exists T, In T (glued_of strat host p) /\ obs_eq (relabel pi T) T'').
Proof.
  intros strat Hst sg pi Hs Hp host host'' p p'' S S''.
  exact (glued_set_rewriting_any strat sg pi Hs Hp host host'' p p'' Hst (side_okb_c_ok _ _ S) (side_okb_c_ok _ _ S'')).
Qed.

Lemma thm_pipeline_set_invariant_implicit :
  forall (strat : N), strat = 0%N \/ strat = 1%N \/ strat = 2%N ->
  forall (sg pi : N -> N) (inv : bool) (host host'' : hostg) (tpl tpl'' : its) (p : prepared),
    inj sg -> inj pi ->
    prepare inv true tpl = Some p -> p_flag p = false ->
    simple_edgesb (gedges tpl) = true -> simple_edgesb (gedges tpl'') = true ->
    same_graph (relabel pi host) host'' -> same_graph (relabel sg tpl) tpl'' ->
    exists p'', prepare inv true tpl'' = Some p'' /\ p_flag p'' = false /\
      pipeline inv true false strat host tpl = Some (glued_of strat host p) /\
      pipeline inv true false strat host'' tpl'' = Some (glued_of strat host'' p'') /\
      (side_okb_c (relabel pi host) (relabel_prep sg p) = true -> side_okb_c host'' p'' = true ->
       (forall T, In T (glued_of strat host p) -> exists T'', In T'' (glued_of strat host'' p'') /\ obs_eq (relabel pi T) T'') /\
       (forall T'', In T'' (glued_of strat host'' p'') -> exists T, In T (glued_of strat host p) /\ obs_eq (relabel pi T) T'')).
Proof.
  intros strat Hst sg pi inv host host'' tpl tpl'' p Hs Hp Hprep Hflag Hw Hw'' Hh Ht.
  destruct (pipeline_set_invariant strat sg pi inv host host'' tpl tpl'' p Hst Hs Hp Hprep Hflag Hw Hw'' Hh Ht)
    as (p'' & A & B & C & D & E).
  exists p''. split; [exact A|]. split; [exact B|]. split; [exact C|]. split; [exact D|].
  intros S S''. exact (E (side_okb_c_ok _ _ S) (side_okb_c_ok _ _ S'')).
Qed.


Lemma thm_strategy_subset_results :
  forall (host : hostg) (p : prepared), side_okb_c host p = true ->
    (forall T, In T (glued_of 1%N host p) -> exists T', In T' (glued_of 0%N host p) /\ obs_eq T T') /\
    (forall T, In T (glued_of 2%N host p) -> exists T', In T' (glued_of 0%N host p) /\ obs_eq T T').
Proof. intros host p S. exact (glued_comp_subset_all host p (side_okb_c_ok _ _ S)). Qed.

Lemma thm_pipeline_set_invariant_default :
  forall (strat : N), strat = 0%N \/ strat = 1%N \/ strat = 2%N ->
  forall (sg pi : N -> N) (inv : bool) (host host'' : hostg) (tpl tpl'' : its),
    inj sg -> inj pi ->
    (* both writings of the template: distinct ids, simple edge list, no hydrogen atom on either side, no h_pairs *)
    nodupb (node_ids tpl) = true -> noHb tpl = true ->
    (forall k a, In (k, a) (gnodes tpl) -> i_hp a = None \/ i_hp a = Some []) -> simple_edgesb (gedges tpl) = true ->
    nodupb (node_ids tpl'') = true -> noHb tpl'' = true ->
    (forall k a, In (k, a) (gnodes tpl'') -> i_hp a = None \/ i_hp a = Some []) -> simple_edgesb (gedges tpl'') = true ->
    same_graph (relabel pi host) host'' -> same_graph (relabel sg tpl) tpl'' ->
    pipeline inv false true strat host tpl = Some (glued_of strat host (prep_default inv tpl)) /\
    pipeline inv false true strat host'' tpl'' = Some (glued_of strat host'' (prep_default inv tpl'')) /\
    (side_okb_c (relabel pi host) (relabel_prep sg (prep_default inv tpl)) = true -> side_okb_c host'' (prep_default inv tpl'') = true ->
     (forall T, In T (glued_of strat host (prep_default inv tpl)) ->
        exists T'', In T'' (glued_of strat host'' (prep_default inv tpl'')) /\ obs_eq (relabel pi T) T'') /\
     (forall T'', In T'' (glued_of strat host'' (prep_default inv tpl'')) ->
        exists T, In T (glued_of strat host (prep_default inv tpl)) /\ obs_eq (relabel pi T) T'')).
Proof.
  intros strat Hst sg pi inv host host'' tpl tpl'' Hs Hp A1 A2 A3 A4 B1 B2 B3 B4 Hh Ht.
  destruct (pipeline_default_set_invariant strat sg pi inv host host'' tpl tpl'' Hst Hs Hp A1 A2 A3 A4 B1 B2 B3 B4 Hh Ht) as (P1 & P2 & P3).
  split; [exact P1|]. split; [exact P2|]. intros S S''. exact (P3 (side_okb_c_ok _ _ S) (side_okb_c_ok _ _ S'')).
Qed.

Lemma thm_rewriting_monitor :
  forall (host0 host : hostg) (tpl0 tpl : its) (pi sg : list (N * N)),
    rewriting_okb host0 tpl0 (host, tpl, pi, sg) = true ->
    inj (apply_map pi) /\ inj (apply_map sg) /\
    same_graph (relabel (apply_map pi) host0) host /\ same_graph (relabel (apply_map sg) tpl0) tpl /\
    simple_edgesb (gedges tpl0) = true /\ simple_edgesb (gedges tpl) = true.
Proof. exact rewriting_okb_ok. Qed.

Lemma thm_result_set_invariant_checked :
  forall (strat : N), strat = 0%N \/ strat = 1%N \/ strat = 2%N ->
  forall (sg pi : N -> N), inj sg -> inj pi ->
  forall (host0 host : hostg) (p0 p : prepared),
    side_okb_c host0 p0 = true -> side_okb_c host p = true ->
    same_graph (relabel pi host0) host -> same_graph (relabel sg (p_rc p0)) (p_rc p) -> same_graph (relabel sg (p_pat p0)) (p_pat p) ->
    (forall T, In T (glued_of strat host0 p0) -> exists T', In T' (glued_of strat host p) /\ obs_eq (relabel pi T) T') /\
    (forall T', In T' (glued_of strat host p) -> exists T, In T (glued_of strat host0 p0) /\ obs_eq (relabel pi T) T').
Proof. intros strat Hst sg pi Hs Hp host0 host p0 p. exact (glued_set_checked strat sg pi Hs Hp host0 host p0 p Hst). Qed.

Lemma thm_pipeline_checked_implicit :
  forall (strat : N), strat = 0%N \/ strat = 1%N \/ strat = 2%N ->
  forall (inv : bool) (host0 host : hostg) (tpl0 tpl : its) (pi sg : list (N * N)) (p0 : prepared),
    rewriting_okb host0 tpl0 (host, tpl, pi, sg) = true ->
    prepare inv true tpl0 = Some p0 -> p_flag p0 = false -> side_okb_c host0 p0 = true ->
    exists p, prepare inv true tpl = Some p /\ p_flag p = false /\
      pipeline inv true false strat host0 tpl0 = Some (glued_of strat host0 p0) /\
      pipeline inv true false strat host tpl = Some (glued_of strat host p) /\
      (side_okb_c host p = true ->
       (forall T, In T (glued_of strat host0 p0) -> exists T', In T' (glued_of strat host p) /\ obs_eq (relabel (apply_map pi) T) T') /\
       (forall T', In T' (glued_of strat host p) -> exists T, In T (glued_of strat host0 p0) /\ obs_eq (relabel (apply_map pi) T) T')).
Proof. intros strat Hst inv host0 host tpl0 tpl pi sg p0. exact (pipeline_checked_implicit strat inv host0 host tpl0 tpl pi sg p0 Hst). Qed.

Lemma thm_pipeline_checked_default :
  forall (strat : N), strat = 0%N \/ strat = 1%N \/ strat = 2%N ->
  forall (inv : bool) (host0 host : hostg) (tpl0 tpl : its) (pi sg : list (N * N)),
    rewriting_okb host0 tpl0 (host, tpl, pi, sg) = true ->
    nodupb (node_ids tpl0) = true -> noHb tpl0 = true -> (forall k a, In (k, a) (gnodes tpl0) -> i_hp a = None \/ i_hp a = Some []) ->
    nodupb (node_ids tpl) = true -> noHb tpl = true -> (forall k a, In (k, a) (gnodes tpl) -> i_hp a = None \/ i_hp a = Some []) ->
    side_okb_c host0 (prep_default inv tpl0) = true -> side_okb_c host (prep_default inv tpl) = true ->
    pipeline inv false true strat host0 tpl0 = Some (glued_of strat host0 (prep_default inv tpl0)) /\
    pipeline inv false true strat host tpl = Some (glued_of strat host (prep_default inv tpl)) /\
    (forall T, In T (glued_of strat host0 (prep_default inv tpl0)) ->
       exists T', In T' (glued_of strat host (prep_default inv tpl)) /\ obs_eq (relabel (apply_map pi) T) T') /\
    (forall T', In T' (glued_of strat host (prep_default inv tpl)) ->
       exists T, In T (glued_of strat host0 (prep_default inv tpl0)) /\ obs_eq (relabel (apply_map pi) T) T').
Proof. intros strat Hst inv host0 host tpl0 tpl pi sg. exact (pipeline_checked_default strat inv host0 host tpl0 tpl pi sg Hst). Qed.

End WithThr.

Lemma thm_bt_equals_comp_explicit_path_refuted :
  exists (host : hostg) (p : prepared),
    p_flag p = true /\ @raw_of (thr_of None) 1%N host p <> [] /\
    length (@glued_of (thr_of None) 1%N host p) = 2%nat /\ length (@glued_of (thr_of None) 2%N host p) = 4%nat.
Proof. exact bt_explicit_path_refuted. Qed.

(** ** the embedding cap (proof/C05_Cap.v) *)
Lemma thm_embed_threshold_option :
  eff_thr None = 5000%N /\ (forall k, eff_thr (Some k) = k) /\ eff_thr (Some 0%N) = 0%N /\
  (forall o, @thr_val (thr_of o) = eff_thr o) /\
  (forall (TH : Thr) strat host pat, (C06_Model.lenN (matches strat host pat) <= thr_val)%N) /\
  (forall (TH : Thr) strat host pat, thr_val = 0%N -> matches strat host pat = []).
Proof.
  destruct eff_thr_spec as (A & B & C & D). repeat split; try assumption.
  - intros TH. apply matches_le_cap.
  - intros TH. apply cap_zero.
Qed.

Lemma thm_cap_all_or_nothing :
  forall (TH : Thr),
  (forall host pat,
     matches 0%N host pat = if (thr_val <? C06_Model.lenN (enum_all host pat))%N then [] else enum_all host pat) /\
  (forall host pat,
     matches 1%N host pat = [] \/
     matches 1%N host pat = C06_Comp.comp_unl (C06_Model.monos_on (host_c06 host) (pat_c06 pat)) true (host_c06 host) (pat_c06 pat)) /\
  (forall host pat,
     matches 2%N host pat = [] \/
     matches 2%N host pat = C06_Comp.comp_unl (C06_Model.monos_on (host_c06 host) (pat_c06 pat)) true (host_c06 host) (pat_c06 pat) \/
     matches 2%N host pat = enum_all host pat) /\
  (forall host p, (thr_val < C06_Model.lenN (enum_all host (p_pat p)))%N ->
     raw_of 0%N host p = [] /\ kept_of 0%N host p = [] /\ glued_of 0%N host p = [] /\
     forall ex, results_of ex 0%N host p = Some []).
Proof.
  intros TH. split; [apply all_or_nothing_all|]. split; [apply all_or_nothing_comp|]. split; [apply all_or_nothing_bt|].
  apply capped_results.
Qed.

Lemma thm_cap_decision_invariant :
  (forall (host host' : hostg) (pat : molg), same_graph host host' ->
     C06_Model.lenN (enum_all host' pat) = C06_Model.lenN (enum_all host pat)) /\
  (forall (sg pi : N -> N), inj sg -> inj pi ->
   forall (host host' : hostg) (pat : molg), same_graph (relabel pi host) host' ->
     C06_Model.lenN (enum_all host' (relabel sg pat)) = C06_Model.lenN (enum_all host pat)) /\
  (forall (sg pi : N -> N), inj sg -> inj pi ->
   forall (host host'' : hostg) (pat pat'' : molg),
     same_graph (relabel pi host) host'' -> same_graph (relabel sg pat) pat'' ->
     gwf (host_c06 (relabel pi host)) -> gwf (pat_c06 (relabel sg pat)) -> gwf (host_c06 host'') -> gwf (pat_c06 pat'') ->
     C06_Model.lenN (enum_all host'' pat'') = C06_Model.lenN (enum_all host pat)) /\
  (forall (TH : Thr) (sg pi : N -> N), inj sg -> inj pi ->
   forall (host host'' : hostg) (pat pat'' : molg),
     same_graph (relabel pi host) host'' -> same_graph (relabel sg pat) pat'' ->
     gwf (host_c06 (relabel pi host)) -> gwf (pat_c06 (relabel sg pat)) -> gwf (host_c06 host'') -> gwf (pat_c06 pat'') ->
     (thr_val < C06_Model.lenN (enum_all host pat))%N ->
     matches 0%N host pat = [] /\ matches 0%N host'' pat'' = []).
Proof.
  split; [intros host host' pat HS; symmetry; apply enum_all_count_host_order; exact HS|].
  split; [intros sg pi Hs Hp host host' pat HS; apply (capped_invariant sg pi); assumption|].
  split; [intros sg pi Hs Hp host host' pat pat' HS PS G1 G2 G3 G4; apply (capped_invariant_any sg pi); assumption|].
  intros TH sg pi Hs Hp host host' pat pat' HS PS G1 G2 G3 G4 Hlt. rewrite !all_or_nothing_all.
  rewrite (capped_invariant_any sg pi Hs Hp host host' pat pat' HS PS G1 G2 G3 G4). apply N.ltb_lt in Hlt. rewrite Hlt. split; reflexivity.
Qed.

Lemma thm_comp_subset_capped_refuted :
  exists (host : hostg) (p : prepared),
    length (@glued_of (thr_of None) 0%N host p) = 4%nat /\ length (@glued_of (thr_of None) 1%N host p) = 2%nat /\
    p_flag p = false /\ @glued_of (thr_of (Some 3%N)) 0%N host p = [] /\
    length (@glued_of (thr_of (Some 3%N)) 1%N host p) = 2%nat /\
    @glued_of (thr_of (Some 3%N)) 2%N host p = @glued_of (thr_of (Some 3%N)) 1%N host p.
Proof. exact comp_subset_capped_refuted. Qed.

(** ** the exhaustive strategy under every cap (proof/C05_AnyCap.v) *)
Lemma thm_result_set_invariant_exhaustive_any_cap :
  (forall host p, side_okb0 host p = true ->
     p_flag p = false /\ gwf (host_c06 host) /\ gwf (pat_c06 (p_pat p)) /\
     NoDup (node_ids (p_rc p)) /\ simple_edgesb (gedges (p_rc p)) = true /\
     (forall a b x, In (a, b, x) (gedges (p_rc p)) -> In a (node_ids (p_rc p)) /\ In b (node_ids (p_rc p))) /\
     (forall u, In u (node_ids (p_pat p)) -> In u (node_ids (p_rc p)))) /\
  (forall (TH : Thr) host p, side_okb host p = true -> side_okb0 host p = true) /\
  (forall (TH : Thr) (sg pi : N -> N), inj sg -> inj pi ->
   forall (host host'' : hostg) (p p'' : prepared),
     side_okb0 (relabel pi host) (relabel_prep sg p) = true -> side_okb0 host'' p'' = true ->
     same_graph (relabel pi host) host'' -> same_graph (relabel sg (p_rc p)) (p_rc p'') ->
     same_graph (relabel sg (p_pat p)) (p_pat p'') ->
     (forall T, In T (glued_of 0%N host p) -> exists T'', In T'' (glued_of 0%N host'' p'') /\ obs_eq (relabel pi T) T'') /\
     (forall T'', In T'' (glued_of 0%N host'' p'') -> exists T, In T (glued_of 0%N host p) /\ obs_eq (relabel pi T) T'')).
Proof.
  split.
  { intros host p H. destruct (side_okb0_ok host p H) as [A B C E F G I].
    split; [exact A|]. split; [exact B|]. split; [exact C|]. split; [exact E|]. split; [exact F|]. split; [exact G | exact I]. }
  split; [intros TH host p; apply side_okb_okb0|].
  intros TH sg pi Hs Hp host host'' p p'' S S'' Hh Hr Hpt.
  apply (glued_set_rewriting_any_cap sg pi Hs Hp host host'' p p''); try assumption; apply side_okb0_ok; assumption.
Qed.

(** ** SynReactor(partial=True) (proof/C05_Partial.v) *)
Lemma thm_partial_equivariant :
  forall (TH : Thr) (strat : N) (sg pi : N -> N), inj sg -> inj pi ->
  (forall (host : hostg) (pat : molg),
     partial_matches strat (relabel pi host) (relabel sg pat) = option_map (map (mv sg pi)) (partial_matches strat host pat)) /\
  (forall (host : hostg) (p : prepared),
     partial_matches strat (relabel pi host) (p_pat (relabel_prep sg p))
     = option_map (map (mv sg pi)) (partial_matches strat host (p_pat p)) /\
     forall raw, partial_matches strat host (p_pat p) = Some raw ->
       prune (p_rc (relabel_prep sg p)) (map (mv sg pi) raw) = map (mv sg pi) (prune (p_rc p) raw)).
Proof.
  intros TH strat sg pi Hs Hp. split.
  - intros host pat. apply partial_matches_relabel; assumption.
  - intros host p. apply partial_kept_relabel; assumption.
Qed.

Lemma thm_partial_capped_order_dependent_refuted :
  exists (host host' : hostg) (pat : molg),
    same_graph host host' /\ gnodes host' <> gnodes host /\
    pmax_of (Some 100%N) = 1%N /\
    @partial_matches (thr_of (Some 100%N)) 0%N host pat = Some [[(2%N, 3%N)]] /\
    @partial_matches (thr_of (Some 100%N)) 0%N host' pat = Some [[(2%N, 5%N)]] /\
    (exists r r', @partial_matches (thr_of None) 0%N host pat = Some r /\ @partial_matches (thr_of None) 0%N host' pat = Some r' /\
                  length r = 6%nat /\ Permutation.Permutation r r').
Proof. exact partial_capped_order_refuted. Qed.

Lemma thm_partial_matches_order_independent :
  forall (TH : Thr) (host host' : hostg) (pat : molg),
    pmax_val = 0%N -> same_graph host host' ->
    match partial_matches 0%N host pat, partial_matches 0%N host' pat with
    | Some r, Some r' => forall m, In m r <-> In m r'
    | None, None => True
    | _, _ => False
    end.
Proof. intros TH host host' pat. apply partial_matches_host_order. Qed.

(** ** SynReactor(embed_pre_filter=True) (proof/C05_Prefilter.v) *)
Lemma thm_prefilter :
  forall (TH : Thr),
  (forall strat host pat, matches_pf false strat host pat = matches strat host pat) /\
  (forall strat host pat,
     matches_pf true strat host pat
     = if C06_Model.quick_pre_filter (host_c06 host) (pat_c06 pat) thr_val then [] else matches strat host pat) /\
  (forall strat host p,
     glued_of_pf true strat host p = if prefilter_fires host p then [] else glued_of strat host p) /\
  (forall (sg pi : N -> N), inj sg -> inj pi ->
   forall (H P : C06_Model.graph) thr,
     C06_Model.quick_pre_filter (relabel pi H) (relabel sg P) thr = C06_Model.quick_pre_filter H P thr) /\
  (forall (pref : bool) (strat : N) (sg pi : N -> N), inj sg -> inj pi ->
   forall (host : hostg) (pat : molg),
     matches_pf pref strat (relabel pi host) (relabel sg pat) = map (mv sg pi) (matches_pf pref strat host pat)) /\
  (forall (pref : bool) (strat : N) (sg pi : N -> N), inj sg -> inj pi ->
   forall (host : hostg) (p : prepared), p_flag p = false ->
     glued_of_pf pref strat (relabel pi host) (relabel_prep sg p) = map (relabel pi) (glued_of_pf pref strat host p)).
Proof.
  intros TH. split; [reflexivity|]. split; [apply matches_pf_true|]. split; [apply glued_of_pf_true|].
  split; [intros sg pi Hs Hp H P thr; apply quick_pre_filter_relabel; assumption|].
  split; [intros pref strat sg pi Hs Hp host pat; apply matches_pf_relabel; assumption|].
  intros pref strat sg pi Hs Hp host p Hf. apply glued_of_pf_relabel; assumption.
Qed.

Lemma thm_prefilter_decision_invariant :
  forall (TH : Thr) (host host' : hostg) (p p' : prepared),
    same_graph host host' -> same_graph (p_pat p) (p_pat p') ->
    C06_Model.wfb (host_c06 host) = true -> C06_Model.wfb (host_c06 host') = true ->
    C06_Model.wfb (pat_c06 (p_pat p)) = true -> C06_Model.wfb (pat_c06 (p_pat p')) = true ->
    prefilter_fires host' p' = prefilter_fires host p /\
    (forall strat, p_flag p = false -> p_flag p' = false ->
       prefilter_fires host p = true -> glued_of_pf true strat host p = [] /\ glued_of_pf true strat host' p' = []).
Proof.
  intros TH host host' p p' Hh Hp W1 W2 W3 W4.
  assert (E : prefilter_fires host' p' = prefilter_fires host p).
  { apply prefilter_fires_any_order; try assumption; apply C06_Main.wfb_spec; assumption. }
  split; [exact E|]. intros strat _ _ Hf. rewrite !glued_of_pf_true, E, Hf. split; reflexivity.
Qed.

Lemma thm_result_set_invariant_exhaustive_any_options :
  forall (TH : Thr) (pref : bool) (sg pi : N -> N), inj sg -> inj pi ->
  forall (host host'' : hostg) (p p'' : prepared),
    side_okb0 (relabel pi host) (relabel_prep sg p) = true -> side_okb0 host'' p'' = true ->
    C06_Model.wfb (host_c06 (relabel pi host)) = true -> C06_Model.wfb (host_c06 host'') = true ->
    C06_Model.wfb (pat_c06 (p_pat (relabel_prep sg p))) = true -> C06_Model.wfb (pat_c06 (p_pat p'')) = true ->
    same_graph (relabel pi host) host'' -> same_graph (relabel sg (p_rc p)) (p_rc p'') ->
    same_graph (relabel sg (p_pat p)) (p_pat p'') ->
    (forall T, In T (glued_of_pf pref 0%N host p) -> exists T'', In T'' (glued_of_pf pref 0%N host'' p'') /\ obs_eq (relabel pi T) T'') /\
    (forall T'', In T'' (glued_of_pf pref 0%N host'' p'') -> exists T, In T (glued_of_pf pref 0%N host p) /\ obs_eq (relabel pi T) T'').
Proof.
  intros TH pref sg pi Hs Hp host host'' p p'' S S'' W1 W2 W3 W4 Hh Hr Hpt.
  apply (glued_set_rewriting_any_cap_pf pref sg pi Hs Hp host host'' p p''); try assumption;
    try (apply side_okb0_ok; assumption); apply C06_Main.wfb_spec; assumption.
Qed.

Lemma thm_strategy_subset_any_cap :
  forall (TH : Thr) (host : hostg) (pat : molg),
    gwf (host_c06 host) -> gwf (pat_c06 pat) ->
    (C06_Model.lenN (enum_all host pat) <= thr_val)%N ->
    (forall m, In m (matches 1%N host pat) -> exists m', In m' (matches 0%N host pat) /\ Permutation.Permutation m m') /\
    (forall m, In m (matches 2%N host pat) -> exists m', In m' (matches 0%N host pat) /\ Permutation.Permutation m m').
Proof.
  intros TH host pat Hw Pw Hl. split; [apply comp_subset_all_any_cap | apply bt_subset_all_any_cap]; assumption.
Qed.

Lemma thm_strategy_subset_results_any_cap :
  forall (TH : Thr) (host : hostg) (p : prepared), side_okb host p = true ->
    (forall T, In T (glued_of 1%N host p) -> exists T', In T' (glued_of 0%N host p) /\ obs_eq T T') /\
    (forall T, In T (glued_of 2%N host p) -> exists T', In T' (glued_of 0%N host p) /\ obs_eq T T').
Proof. intros TH host p H. apply glued_subset_all_any_cap. apply side_okb_ok. exact H. Qed.

Lemma thm_result_set_invariant_exhaustive_any_options_checked :
  forall (TH : Thr) (pref : bool) (sg pi : N -> N), inj sg -> inj pi ->
  forall (host0 host : hostg) (p0 p : prepared),
    side_okb0 host0 p0 = true -> side_okb0 host p = true ->
    C06_Model.wfb (host_c06 host0) = true -> C06_Model.wfb (host_c06 host) = true ->
    C06_Model.wfb (pat_c06 (p_pat p0)) = true -> C06_Model.wfb (pat_c06 (p_pat p)) = true ->
    same_graph (relabel pi host0) host -> same_graph (relabel sg (p_rc p0)) (p_rc p) -> same_graph (relabel sg (p_pat p0)) (p_pat p) ->
    (forall T, In T (glued_of_pf pref 0%N host0 p0) -> exists T', In T' (glued_of_pf pref 0%N host p) /\ obs_eq (relabel pi T) T') /\
    (forall T', In T' (glued_of_pf pref 0%N host p) -> exists T, In T (glued_of_pf pref 0%N host0 p0) /\ obs_eq (relabel pi T) T').
Proof. intros TH pref sg pi Hs Hp host0 host p0 p. apply glued_set_any_options_checked; assumption. Qed.

(** ** independence of the matcher's enumeration order (proof/C05_Enum.v) *)
Lemma thm_result_set_independent_of_enumeration :
  (forall host rc m, glue1 host rc m = match glue host rc m with Some T => [T] | None => [] end) /\
  (forall (host : hostg) (rc : its) (raw raw' : list mapping),
     NoDup (node_ids rc) -> simple_edgesb (gedges rc) = true ->
     (forall a b x, In (a, b, x) (gedges rc) -> In a (node_ids rc) /\ In b (node_ids rc)) ->
     (forall m, In m raw -> NoDup (map fst m) /\ NoDup (map snd m) /\
        forall q h, In (q, h) m -> (exists pn, label rc q = Some pn) /\ (exists hn, label host h = Some hn)) ->
     (forall m, In m raw' -> NoDup (map fst m) /\ NoDup (map snd m) /\
        forall q h, In (q, h) m -> (exists pn, label rc q = Some pn) /\ (exists hn, label host h = Some hn)) ->
     (forall m, In m raw -> exists m', In m' raw' /\ forall ph, In ph m <-> In ph m') ->
     (forall m', In m' raw' -> exists m, In m raw /\ forall ph, In ph m' <-> In ph m) ->
     forall T, In T (flat_map (glue1 host rc) (prune rc raw)) ->
       exists T', In T' (flat_map (glue1 host rc) (prune rc raw')) /\ obs_eq T T') /\
  (forall (TH : Thr) strat host p, p_flag p = false ->
     glued_of strat host p = flat_map (glue1 host (p_rc p)) (prune (p_rc p) (raw_of strat host p))) /\
  (forall (TH : Thr) (host : hostg) (p : prepared) (raw' : list mapping),
     side_okb host p = true ->
     (forall m, In m (raw_of 0%N host p) -> exists m', In m' raw' /\ forall ph, In ph m <-> In ph m') ->
     (forall m', In m' raw' -> exists m, In m (raw_of 0%N host p) /\ forall ph, In ph m' <-> In ph m) ->
     (forall m, In m raw' -> NoDup (map fst m) /\ NoDup (map snd m)) ->
     (forall T, In T (glued_of 0%N host p) ->
        exists T', In T' (flat_map (glue1 host (p_rc p)) (prune (p_rc p) raw')) /\ obs_eq T T') /\
     (forall T', In T' (flat_map (glue1 host (p_rc p)) (prune (p_rc p) raw')) ->
        exists T, In T (glued_of 0%N host p) /\ obs_eq T' T)).
Proof.
  split; [reflexivity|]. split.
  - intros host rc raw raw' Rn Rs Rc Hok Hok' L1 L2.
    apply (glued_independent_of_enumeration host rc raw raw'); try assumption.
    + split; [exact Rn|split; [exact Rs|exact Rc]].
    + split; assumption.
  - split; [intros TH strat host p; apply glued_of_glue1|].
    intros TH host p raw' S L1 L2 Hnd. apply glued_any_listing; try assumption.
    + apply side_okb_ok. exact S.
    + split; assumption.
Qed.
