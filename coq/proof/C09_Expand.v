(** C09 — proofs about the numbering of CanonRSMI.expand_aam and the pair enumeration of
    AAMValidator.check_equivariant_graph (model/C09_Strings.v). *)
From Coq Require Import List NArith ZArith Bool Arith Lia Permutation.
From SK Require Import lib.StrJoin lib.LGraph model.C01_Model model.C02_Model model.C09_Model model.C09_Strings.
From SK Require model.C01_Opts proof.C09_Main proof.C09_Equiv proof.C09_ValidRC proof.C09_Indep proof.C09_Canon proof.C09_Lists proof.C08_Sort lib.C01_GraphLemmas proof.C09_Str proof.C09_Balance.
Import ListNotations.
Local Open Scope Z_scope.

(** * expand_aam *)
Definition nz (m : Z) : bool := negb (m =? 0).
Definition zeros (l : list Z) : Z := Z.of_nat (length (filter (fun m => m =? 0) l)).

Lemma zeros_nonneg l : 0 <= zeros l.
Proof. unfold zeros. lia. Qed.
Lemma zeros_cons m l : zeros (m :: l) = (if m =? 0 then 1 else 0) + zeros l.
Proof. unfold zeros. simpl. destruct (m =? 0); simpl length; lia. Qed.

Lemma assign_length : forall l n, length (assign n l) = length l.
Proof. induction l as [|m l IH]; intros n; simpl; auto. destruct (m =? 0); simpl; rewrite IH; auto. Qed.

Lemma assign_app : forall l1 l2 n, assign n (l1 ++ l2) = assign n l1 ++ assign (n + zeros l1) l2.
Proof.
  induction l1 as [|m l1 IH]; intros l2 n; simpl.
  - f_equal. unfold zeros. simpl. lia.
  - rewrite zeros_cons. cbn [app assign]. destruct (m =? 0); cbn [app]; rewrite IH.
    + replace (n + (1 + zeros l1)) with (n + 1 + zeros l1) by lia. reflexivity.
    + replace (n + (0 + zeros l1)) with (n + zeros l1) by lia. reflexivity.
Qed.

(** every number of the result is a kept (non-zero) input number or a fresh number >= next *)
Lemma assign_in : forall l n x, In x (assign n l) -> (In x l /\ x <> 0) \/ (n <= x < n + zeros l).
Proof.
  induction l as [|m l IH]; intros n x I; simpl in I; [contradiction|].
  rewrite zeros_cons. pose proof (zeros_nonneg l) as Z0.
  destruct (Z.eqb_spec m 0) as [->|Hm]; destruct I as [<-|I].
  - right. lia.
  - apply IH in I. destruct I as [[I Hx]|I]; [left; split; [right|]; auto|right; lia].
  - left. split; [left|]; auto.
  - apply IH in I. destruct I as [[I Hx]|I]; [left; split; [right|]; auto|right; lia].
Qed.

(** mapped atoms keep their number, position by position; unmapped atoms get the numbers next, next+1, ... in order *)
Lemma assign_nth : forall l n i, (i < length l)%nat ->
  nth i (assign n l) 0 = if nth i l 0 =? 0 then n + zeros (firstn i l) else nth i l 0.
Proof.
  induction l as [|m l IH]; intros n i Hi; [simpl in Hi; lia|].
  destruct i as [|i].
  - cbn [nth firstn assign]. destruct (Z.eqb_spec m 0) as [->|Hm]; cbn [nth].
    + change (zeros []) with 0. lia.
    + reflexivity.
  - cbn [length] in Hi. cbn [nth firstn assign]. rewrite zeros_cons.
    destruct (Z.eqb_spec m 0) as [->|Hm]; cbn [nth]; rewrite IH by lia; destruct (nth i l 0 =? 0); lia.
Qed.

Lemma fold_max_ge : forall l a x, (x = a \/ In x l) -> x <= fold_left Z.max l a.
Proof.
  induction l as [|y l IH]; intros a x H; simpl.
  - destruct H as [->|[]]. lia.
  - destruct H as [->|[<-|H]].
    + transitivity (Z.max a y); [lia|]. apply IH. left; reflexivity.
    + transitivity (Z.max a y); [lia|]. apply IH. left; reflexivity.
    + apply IH. right; exact H.
Qed.
Lemma next_id_gt maps m : In m maps -> m < next_id maps.
Proof.
  intros I. unfold next_id. destruct (Z.ltb_spec 0 m) as [Hp|Hn].
  - assert (m <= fold_left Z.max (filter (fun m => 0 <? m) maps) 0); [|lia].
    apply fold_max_ge. right. apply filter_In. split; auto. apply Z.ltb_lt; auto.
  - assert (0 <= fold_left Z.max (filter (fun m => 0 <? m) maps) 0); [|lia]. apply fold_max_ge. left; reflexivity.
Qed.
Lemma next_id_pos maps : 0 < next_id maps.
Proof.
  unfold next_id. assert (0 <= fold_left Z.max (filter (fun m => 0 <? m) maps) 0); [|lia]. apply fold_max_ge. left; reflexivity.
Qed.

Lemma firstn_plus {A} : forall (l : list A) i k, firstn (i + k) l = firstn i l ++ firstn k (skipn i l).
Proof.
  induction l as [|x l IH]; intros i k.
  - rewrite !firstn_nil, skipn_nil, firstn_nil. reflexivity.
  - destruct i as [|i]; [reflexivity|]. cbn [Nat.add firstn skipn app]. rewrite IH. reflexivity.
Qed.

(** position-wise specification of expand_aam's numbering *)
Theorem expand_numbers_spec maps :
  let out := expand_numbers maps in
  length out = length maps /\
  (forall i, (i < length maps)%nat -> nth i maps 0 <> 0 -> nth i out 0 = nth i maps 0) /\
  (forall i, (i < length maps)%nat -> nth i maps 0 = 0 ->
     nth i out 0 = next_id maps + zeros (firstn i maps) /\ forall m, In m maps -> m < nth i out 0) /\
  (forall i j, (i < j < length maps)%nat -> nth i maps 0 = 0 -> nth j maps 0 = 0 -> nth i out 0 < nth j out 0) /\
  (forall x, In x out -> (forall m, In m maps -> 0 <= m) -> 0 < x).
Proof.
  cbv zeta. unfold expand_numbers. repeat split.
  - apply assign_length.
  - intros i Hi Hn. rewrite assign_nth by auto. destruct (Z.eqb_spec (nth i maps 0) 0); [contradiction|reflexivity].
  - rewrite assign_nth by auto. rewrite H0. reflexivity.
  - intros m I. rewrite assign_nth by auto. rewrite H0. simpl. pose proof (next_id_gt maps m I). pose proof (zeros_nonneg (firstn i maps)). lia.
  - intros i j Hij Hi Hj. rewrite !assign_nth by lia. rewrite Hi, Hj. simpl.
    assert (zeros (firstn i maps) < zeros (firstn j maps)); [|lia].
    assert (E : firstn j maps = firstn i maps ++ firstn (j - i) (skipn i maps)).
    { replace j with (i + (j - i))%nat at 1 by lia. apply firstn_plus. }
    rewrite E. unfold zeros. rewrite filter_app, app_length.
    assert (1 <= length (filter (fun m : Z => (m =? 0)%Z) (firstn (j - i) (skipn i maps))))%nat; [|lia].
    destruct (skipn i maps) as [|y r] eqn:Es.
    { exfalso. assert (length (skipn i maps) = 0)%nat by (rewrite Es; reflexivity). rewrite skipn_length in H. lia. }
    assert (y = nth i maps 0).
    { rewrite <- (firstn_skipn i maps) at 1. rewrite app_nth2; rewrite firstn_length_le by lia; [|lia].
      rewrite Nat.sub_diag, Es. reflexivity. }
    subst y. destruct (j - i)%nat eqn:D; [lia|]. simpl. rewrite Hi. simpl. lia.
  - intros x I Hpos. apply assign_in in I. destruct I as [[I Hx]|I].
    + specialize (Hpos x I). lia.
    + pose proof (next_id_pos maps). lia.
Qed.

Lemma assign_NoDup : forall l n, (forall m, In m l -> m < n) -> NoDup (filter nz l) -> NoDup (assign n l).
Proof.
  induction l as [|m l IH]; intros n Hlt Hnd; simpl; [constructor|].
  unfold nz in Hnd. simpl in Hnd. destruct (Z.eqb_spec m 0) as [->|Hm]; simpl in Hnd.
  - constructor.
    + intro I. apply assign_in in I. destruct I as [[I _]|I]; [|lia]. specialize (Hlt n (or_intror I)). lia.
    + apply IH; auto. intros x I. specialize (Hlt x (or_intror I)). lia.
  - inversion Hnd as [|? ? Hni Hnd']; subst. constructor.
    + intro I. apply assign_in in I. destruct I as [[I Hx]|I].
      * apply Hni. apply filter_In. split; auto. unfold nz. destruct (Z.eqb_spec m 0); [contradiction|reflexivity].
      * specialize (Hlt m (or_introl eq_refl)). lia.
    + apply IH; auto. intros x I. apply Hlt. right; exact I.
Qed.

(** per side: after expand_aam every atom of a side whose mapped atoms had pairwise different numbers has its own
    positive number (so rsmi_to_graph, which uses the map number as node id, merges nothing), and the two sides share
    exactly the numbers they shared before: an unmapped atom never gets a partner. *)
Theorem expand_sides_spec rmaps pmaps R P :
  (forall m, In m (rmaps ++ pmaps) -> 0 <= m) ->
  expand_sides (length rmaps) (rmaps ++ pmaps) = (R, P) ->
  length R = length rmaps /\ length P = length pmaps /\
  (NoDup (filter nz rmaps) -> NoDup R) /\ (NoDup (filter nz pmaps) -> NoDup P) /\
  (forall x, In x R \/ In x P -> 0 < x) /\
  (forall x, In x R -> In x P -> In x rmaps /\ In x pmaps /\ x <> 0) /\
  (forall x, x <> 0 -> In x rmaps -> In x R) /\ (forall x, x <> 0 -> In x pmaps -> In x P).
Proof.
  intros Hpos E. unfold expand_sides, expand_numbers in E. rewrite assign_app in E.
  rewrite <- (assign_length rmaps (next_id (rmaps ++ pmaps))) in E at 1 2.
  rewrite firstn_app, skipn_app, Nat.sub_diag, firstn_all, skipn_all in E. simpl in E. rewrite app_nil_r in E.
  injection E as <- <-. set (n := next_id (rmaps ++ pmaps)).
  assert (Hn : forall m, In m (rmaps ++ pmaps) -> m < n) by (intros; apply next_id_gt; auto).
  pose proof (zeros_nonneg rmaps) as Z0.
  assert (Keep : forall l k x, x <> 0 -> In x l -> In x (assign k l)).
  { induction l as [|m l IH]; intros k x Hx I; [contradiction|]. cbn [assign].
    destruct I as [<-|I].
    - destruct (Z.eqb_spec m 0); [contradiction|left; reflexivity].
    - destruct (Z.eqb_spec m 0); right; apply IH; auto. }
  repeat split.
  - apply assign_length.
  - apply assign_length.
  - intros Hnd. apply assign_NoDup; auto. intros m I. apply Hn, in_or_app; auto.
  - intros Hnd. apply assign_NoDup; auto. intros m I. specialize (Hn m (in_or_app _ _ _ (or_intror I))). lia.
  - intros x [I|I]; apply assign_in in I; destruct I as [[I Hx]|I].
    + specialize (Hpos x (in_or_app _ _ _ (or_introl I))). lia.
    + pose proof (next_id_pos (rmaps ++ pmaps)). fold n in H. lia.
    + specialize (Hpos x (in_or_app _ _ _ (or_intror I))). lia.
    + pose proof (next_id_pos (rmaps ++ pmaps)). fold n in H. lia.
  - apply assign_in in H. apply assign_in in H0. destruct H as [[I Hx]|I]; auto.
    destruct H0 as [[J Hx]|J]; [|lia]. specialize (Hn x (in_or_app _ _ _ (or_intror J))). lia.
  - apply assign_in in H. apply assign_in in H0. destruct H0 as [[J Hx]|J]; auto.
    destruct H as [[I Hx]|I]; [|lia]. specialize (Hn x (in_or_app _ _ _ (or_introl I))). lia.
  - apply assign_in in H. apply assign_in in H0. destruct H as [[I Hx]|I]; auto.
    destruct H0 as [[J Hx]|J]; [|lia]. specialize (Hn x (in_or_app _ _ _ (or_intror J))). lia.
  - intros x Hx I. apply Keep; auto.
  - intros x Hx I. apply Keep; auto.
Qed.

(** * check_equivariant_graph *)
Definition its0 : its := LG [] [].

Lemma pairs_from_spec : forall rest i j g a b,
  In (a, b) (pairs_from i j g rest) <->
  a = i /\ exists k, b = (j + k)%nat /\ (k < length rest)%nat /\ is_isomorphic g (nth k rest its0) = true.
Proof.
  induction rest as [|h r IH]; intros i j g a b; simpl.
  - split; [intros []|intros (_ & k & _ & Hk & _); lia].
  - rewrite in_app_iff, IH. split.
    + intros [I|(-> & k & -> & Hk & Hi)].
      * destruct (is_isomorphic g h) eqn:E; [|contradiction]. destruct I as [I|[]]. injection I as <- <-.
        split; auto. exists 0%nat. repeat split; auto; lia.
      * split; auto. exists (S k). repeat split; auto; lia.
    + intros (-> & k & -> & Hk & Hi). destruct k as [|k].
      * left. rewrite Hi. left. f_equal. lia.
      * right. split; auto. exists k. repeat split; auto; lia.
Qed.

Lemma equiv_pairs_from_spec : forall gs i a b,
  In (a, b) (equiv_pairs_from i gs) <->
  exists k l, a = (i + k)%nat /\ b = (i + l)%nat /\ (k < l < length gs)%nat /\
              is_isomorphic (nth k gs its0) (nth l gs its0) = true.
Proof.
  induction gs as [|g r IH]; intros i a b; simpl.
  - split; [intros []|intros (k & l & _ & _ & H & _); lia].
  - rewrite in_app_iff, pairs_from_spec, IH. split.
    + intros [(-> & k & -> & Hk & Hi)|(k & l & -> & -> & Hkl & Hi)].
      * exists 0%nat, (S k). repeat split; auto; lia.
      * exists (S k), (S l). repeat split; auto; lia.
    + intros (k & l & -> & -> & Hkl & Hi). destruct k as [|k].
      * left. split; [lia|]. destruct l as [|l]; [lia|]. exists l. repeat split; auto; lia.
      * right. destruct l as [|l]; [lia|]. exists k, l. repeat split; auto; lia.
Qed.

(** the pairs are exactly the index pairs i < j of isomorphic graphs, and the count is their number *)
Theorem check_equivariant_graph_spec gs :
  (forall a b, In (a, b) (fst (check_equivariant_graph gs)) <->
     (a < b < length gs)%nat /\ is_isomorphic (nth a gs its0) (nth b gs its0) = true) /\
  snd (check_equivariant_graph gs) = length (fst (check_equivariant_graph gs)).
Proof.
  split; [|reflexivity]. intros a b. unfold check_equivariant_graph. cbn [fst]. rewrite equiv_pairs_from_spec. split.
  - intros (k & l & -> & -> & H & Hi). simpl. auto.
  - intros (H & Hi). exists a, b. auto.
Qed.

(** smiles_check's "count == 1" on two graphs is the isomorphism test the validator theorems talk about *)
Theorem smiles_check_count_eq g1 g2 : smiles_check_count g1 g2 = is_isomorphic g1 g2.
Proof.
  unfold smiles_check_count, check_equivariant_graph. cbn [snd equiv_pairs_from pairs_from].
  destruct (is_isomorphic g1 g2); reflexivity.
Qed.
Corollary smiles_check_rc_count G1 H1 G2 H2 :
  smiles_check_rc G1 H1 G2 H2 = smiles_check_count (get_rc (its_construct G1 H1)) (get_rc (its_construct G2 H2)) /\
  smiles_check_its G1 H1 G2 H2 = smiles_check_count (its_construct G1 H1) (its_construct G2 H2).
Proof. rewrite !smiles_check_count_eq. split; reflexivity. Qed.

(** option handling of smiles_check: the method string selects RC exactly when its upper-case form is "RC"; an unreadable
    string gives False *)
Theorem smiles_check_full_spec (m : str) (ia : bool) (G1 H1 G2 H2 : mgraph) :
  smiles_check_full m ia (Some (G1, H1)) (Some (G2, H2)) =
  (if is_rc m then smiles_check_rc_o ia G1 H1 G2 H2 else smiles_check_its_o ia G1 H1 G2 H2) /\
  (forall r, smiles_check_full m ia None r = false /\ smiles_check_full m ia r None = false).
Proof.
  split.
  - unfold smiles_check_full. rewrite !smiles_check_count_eq. reflexivity.
  - intros r. split; [reflexivity|]. destruct r as [[? ?]|]; reflexivity.
Qed.
Example ex_is_rc : is_rc [82; 67]%N = true /\ is_rc [114; 99]%N = true /\ is_rc [82; 99]%N = true /\
                   is_rc [73; 84; 83]%N = false /\ is_rc [102; 111; 111]%N = false /\ is_rc []%N = false /\ is_rc [82; 67; 32]%N = false.
Proof. vm_compute. repeat split. Qed.

(** FixAAM.fix_aam_rsmi is a renumbering: the validator accepts (fix_aam r, r) by both methods *)
Theorem fix_aam_accepted (G H : mgraph) : wf G -> wf H ->
  smiles_check_its (fix_aam_graph G) (fix_aam_graph H) G H = true /\
  smiles_check_rc (fix_aam_graph G) (fix_aam_graph H) G H = true.
Proof.
  intros WG WH. assert (Sinj : forall a b, N.succ a = N.succ b -> a = b) by (intros a b E; lia).
  split.
  - apply (proj2 (proj2 (C09_Main.validator_renumbering N.succ G H Sinj WG WH))); apply C09_Equiv.relabelled_exact.
  - apply (C09_ValidRC.validator_renumbering_rc N.succ G H _ _ Sinj WG WH); apply C09_Equiv.relabelled_exact.
Qed.

(** NormalizeAAM.reset_indices_and_atom_map: ids 1..n in node order, atom_map = id, and the result is the graph renamed
    by an injective map (so every renumbering theorem of the validator applies to it) *)
Theorem reset_indices_by_spec (order : list N) (G : mgraph) : wf G -> NoDup order -> (forall n, In n order <-> In n (node_ids G)) ->
  Permutation (node_ids (reset_indices_by order G)) (map N.of_nat (seq 1 (length (gnodes G)))) /\
  amap_id (reset_indices_by order G) /\
  exists f, (forall a b, f a = f b -> a = b) /\ (forall n, In n order -> f n = sigma_of order n) /\
            reset_indices_by order G = set_amap (relabel f G).
Proof.
  intros WG Ond Oin. pose proof WG as (Hnd & W2 & _).
  assert (P : Permutation (node_ids G) order) by (apply NoDup_Permutation; auto; intros x; symmetry; apply Oin).
  split; [|split].
  - unfold reset_indices_by. rewrite C09_Equiv.node_ids_set_amap. rewrite (C01_GraphLemmas.node_ids_relabel (sigma_of order) G).
    eapply Permutation_trans; [apply Permutation_map; exact P|].
    unfold sigma_of. rewrite (C08_Sort.mapping_of_map order Ond). rewrite <- (Permutation_length P). unfold node_ids. rewrite map_length.
    apply Permutation_refl.
  - apply C09_Indep.amap_id_set_amap.
  - exists (C09_Canon.tau order []). split; [intros a b; apply C09_Canon.tau_injective|]. split; [intros n I; apply C09_Canon.tau_sigma; exact I|].
    unfold reset_indices_by. f_equal. apply C09_Lists.relabel_ext.
    + intros n I. symmetry. apply C09_Canon.tau_sigma. apply Oin. exact I.
    + intros a b x I. destruct (W2 a b x I) as (Ia & Ib & _). split; symmetry; apply C09_Canon.tau_sigma; apply Oin; assumption.
Qed.
Theorem reset_indices_spec (G : mgraph) : wf G ->
  node_ids (reset_indices G) = map N.of_nat (seq 1 (length (gnodes G))) /\ amap_id (reset_indices G) /\
  exists f, (forall a b, f a = f b -> a = b) /\ reset_indices G = set_amap (relabel f G).
Proof.
  intros WG. pose proof WG as (Hnd & W2 & _). split; [|split].
  - unfold reset_indices, reset_indices_by. rewrite C09_Equiv.node_ids_set_amap. rewrite (C01_GraphLemmas.node_ids_relabel (sigma_of (node_ids G)) G).
    unfold sigma_of. rewrite (C08_Sort.mapping_of_map (node_ids G) Hnd). unfold node_ids. rewrite map_length. reflexivity.
  - apply C09_Indep.amap_id_set_amap.
  - destruct (reset_indices_by_spec (node_ids G) G WG Hnd (fun n => iff_refl _)) as (_ & _ & f & Fi & _ & E). exists f. split; auto.
Qed.

(** NormalizeAAM.extract_subgraph: the induced subgraph - well-formed, the kept atoms with their attributes, exactly the
    bonds between kept atoms *)
Theorem extract_subgraph_spec (G : mgraph) (keep : list N) : wf G ->
  wf (extract_subgraph G keep) /\
  (forall n, label (extract_subgraph G keep) n = if mem n keep then label G n else None) /\
  (forall a b x, In (a, b, x) (gedges (extract_subgraph G keep)) <-> In (a, b, x) (gedges G) /\ In a keep /\ In b keep).
Proof.
  intros WG. split; [apply C01_GraphLemmas.wf_induced; exact WG|]. split.
  - intros n. apply C01_GraphLemmas.label_induced.
  - intros a b x. apply C01_GraphLemmas.in_edges_induced.
Qed.

(** rsmi_balance_check at string level = the graph-level formula, relative to the CalcMolFormula contract for the two sides
    (equal formula strings <=> equal element counts with hydrogens and equal total charge: explicit premise, RDKit) *)
Theorem rsmi_balance_check_graph (formula : str -> option str) (a b fa fb : str) (G H : mgraph) :
  nosep GT a -> nosep GT b -> formula a = Some fa -> formula b = Some fb ->
  (fa = fb <-> (forall e, el_count e G = el_count e H) /\ total_charge G = total_charge H) ->
  rsmi_balance_check formula (a ++ GG ++ b) = Some (balancedb G H).
Proof.
  intros Ha Hb Ea Eb Hc. pose proof (C09_Str.rsmi_balance_check_spec formula a b Ha Hb fa fb Ea Eb) as S.
  pose proof (C09_Balance.balance_iff G H) as B.
  unfold rsmi_balance_check in *. rewrite C09_Str.split_gg_app in * by assumption.
  f_equal. destruct (balancedb G H) eqn:E.
  - assert (T : fa = fb) by (apply Hc; apply B; reflexivity). apply S in T. injection T as T. exact T.
  - destruct (C08_Model.str_eqb (formula_or_empty formula a) (formula_or_empty formula b)) eqn:E2; [|reflexivity].
    assert (T : fa = fb) by (apply S; reflexivity). apply Hc in T. apply B in T. congruence.
Qed.

(** validate_smiles: per mapper column one verdict per record, in record order, each the verdict of smiles_check on
    (that record's mapped string, that record's ground truth) - in this argument order; the count is the number of accepted
    records *)
Theorem validate_smiles_spec (m : str) (ia : bool) (ncols : nat) (rows : list orow) :
  length (validate_smiles m ia ncols rows) = ncols /\
  forall k, (k < ncols)%nat ->
    let c := nth k (validate_smiles m ia ncols rows) ([], 0%nat, 0%nat) in
    length (fst (fst c)) = length rows /\ snd c = length rows /\
    (forall i, (i < length rows)%nat ->
       nth i (fst (fst c)) false = smiles_check_full m ia (nth k (snd (nth i rows (None, []))) None) (fst (nth i rows (None, [])))) /\
    snd (fst c) = length (filter (fun b : bool => b) (fst (fst c))) /\ (snd (fst c) <= snd c)%nat.
Proof.
  split; [unfold validate_smiles; rewrite map_length, seq_length; reflexivity|].
  intros k Hk. cbv zeta. unfold validate_smiles.
  rewrite (nth_indep _ ([], 0%nat, 0%nat) (validate_column m ia 0 rows)) by (rewrite map_length, seq_length; exact Hk).
  rewrite (map_nth (fun k => validate_column m ia k rows) (seq 0 ncols) 0%nat k), seq_nth by exact Hk. simpl.
  repeat split.
  - rewrite map_length. reflexivity.
  - intros i Hi. set (F := fun r : orow => smiles_check_full m ia (nth k (snd r) None) (fst r)).
    set (d := ((None, []) : orow)).
    rewrite (nth_indep (map F rows) false (F d)) by (rewrite map_length; exact Hi).
    rewrite (map_nth F rows d i). reflexivity.
  - rewrite <- (map_length (fun r : orow => smiles_check_full m ia (nth k (snd r) None) (fst r)) rows).
    generalize (map (fun r : orow => smiles_check_full m ia (nth k (snd r) None) (fst r)) rows). intros l.
    induction l as [|b l IH]; simpl; [lia|]. destruct b; simpl; lia.
Qed.

(** check_pair: with ignore_tautomers=True it is smiles_check on (mapped, truth); otherwise it answers True exactly when the
    mapping is accepted against SOME enumerated tautomer of the truth (None when the enumeration failed); validate_smiles
    applies it record by record and column by column with the SAME method and flags *)
Theorem check_pair_spec (m : str) (ia : bool) (r1 r2 : ograph) (tauts : option (list ograph)) :
  check_pair m ia true r1 r2 tauts = Some (smiles_check_full m ia r1 r2) /\
  (forall l, tauts = Some l ->
     exists b, check_pair m ia false r1 r2 tauts = Some b /\
       (b = true <-> exists t, In t l /\ smiles_check_full m ia r1 t = true)) /\
  (tauts = None -> check_pair m ia false r1 r2 tauts = None).
Proof.
  split; [reflexivity|]. split.
  - intros l ->. eexists. split; [reflexivity|]. apply existsb_exists.
  - intros ->. reflexivity.
Qed.
Theorem validate_smiles_t_spec (m : str) (ia it : bool) (ncols : nat) (rows : list orowT) :
  length (validate_smiles_t m ia it ncols rows) = ncols /\
  forall k i, (k < ncols)%nat -> (i < length rows)%nat ->
    nth i (nth k (validate_smiles_t m ia it ncols rows) []) None =
    check_pair m ia it (nth k (snd (nth i rows (None, None, []))) None) (fst (fst (nth i rows (None, None, [])))) (snd (fst (nth i rows (None, None, [])))).
Proof.
  split; [unfold validate_smiles_t; rewrite map_length, seq_length; reflexivity|].
  intros k i Hk Hi. unfold validate_smiles_t.
  rewrite (nth_indep _ [] (validate_column_t m ia it 0 rows)) by (rewrite map_length, seq_length; exact Hk).
  rewrite (map_nth (fun k => validate_column_t m ia it k rows) (seq 0 ncols) 0%nat k), seq_nth by exact Hk. simpl.
  unfold validate_column_t.
  set (F := fun r : orowT => check_pair m ia it (nth k (snd r) None) (fst (fst r)) (snd (fst r))).
  set (d := ((None, None, []) : orowT)).
  rewrite (nth_indep (map F rows) None (F d)) by (rewrite map_length; exact Hi).
  rewrite (map_nth F rows d i). reflexivity.
Qed.

(** * Non-vacuity *)
Example ex_expand : expand_sides 4 [3; 0; 5; 0; 0; 3; 5] = ([3; 6; 5; 7], [8; 3; 5]).
Proof. reflexivity. Qed.
Example ex_expand_hyps : (forall m, In m ([3; 0; 5; 0] ++ [0; 3; 5]) -> 0 <= m) /\ NoDup (filter nz [3; 0; 5; 0]) /\ NoDup (filter nz [0; 3; 5]).
Proof.
  split; [|split].
  - intros m I. simpl in I. repeat destruct I as [I|I]; try lia; contradiction.
  - simpl. repeat constructor; simpl; intuition discriminate.
  - simpl. repeat constructor; simpl; intuition discriminate.
Qed.
Example ex_expand_unmapped : expand_numbers [0; 0; 0] = [1; 2; 3].
Proof. reflexivity. Qed.
Example ex_equiv_empty : check_equivariant_graph [its0; its0; its0] = ([(0, 1); (0, 2); (1, 2)]%nat, 3%nat).
Proof. vm_compute. reflexivity. Qed.
Example ex_reset : node_ids (reset_indices (extract_subgraph C09_Main.ex_H [7; 2]%N)) = [1; 2]%N /\ node_ids (reset_indices_by [2; 7]%N (extract_subgraph C09_Main.ex_H [7; 2]%N)) = [2; 1]%N /\
                   gedges (extract_subgraph C09_Main.ex_H [7; 1]%N) = [(1, 7, 2%Z)]%N /\ gedges (extract_subgraph C09_Main.ex_H [7; 2]%N) = [].
Proof. vm_compute. repeat split. Qed.
Example ex_validate : validate_smiles [82; 67]%N false 2 [(Some (C09_Main.ex_G, C09_Main.ex_H), [Some (C09_Main.ex_G, C09_Main.ex_H); None])]
                      = [([true], 1%nat, 1%nat); ([false], 0%nat, 1%nat)].
Proof. vm_compute. reflexivity. Qed.
Example ex_check_pair :
  check_pair [82; 67]%N false false (Some (C09_Main.ex_G, C09_Main.ex_H)) None (Some [None; Some (C09_Main.ex_G, C09_Main.ex_H)]) = Some true /\
  check_pair [82; 67]%N false false (Some (C09_Main.ex_G, C09_Main.ex_H)) None (Some [None]) = Some false /\
  check_pair [82; 67]%N false false (Some (C09_Main.ex_G, C09_Main.ex_H)) None None = None.
Proof. vm_compute. repeat split. Qed.
