(** C12 -- component-wise mode (find_rc_mapping(side='its', component=True), model [find_rc_component]):
    the combined mapping is a common induced mapping of the two (pruned) graphs.
    Ingredients: connected components by the saturation closure of lib/Reach.v are pairwise disjoint and closed under
    adjacency; the stable size sort is a permutation; every per-pair mapping is valid inside its pair of components
    (theorems of proof/C12_Search.v on the induced copies, transported through the orientation swap); mappings of
    different pairs never touch the same atom and no bond joins atoms of different components. *)
From Coq Require Import List NArith ZArith Bool Arith Lia Permutation.
From SK Require Import lib.LGraph lib.Mono lib.Reach model.C12_Model proof.C12_Search proof.C12_Proof proof.C12_Prune.
Import ListNotations.

(** edges join nodes of the graph (always true for a networkx graph) *)
Definition wfe (g : graph) : Prop :=
  forall a b x, In (a, b, x) (gedges g) -> In a (node_ids g) /\ In b (node_ids g).

(* ------------------------------------------------------------------ neighbours and adjacency *)
Lemma nbrs_spec (g : graph) u v : In v (nbrs g u) <-> exists x, In (u, v, x) (gedges g) \/ In (v, u, x) (gedges g).
Proof.
  unfold nbrs. rewrite in_flat_map. split.
  - intros ([[a b] x] & I & H). destruct (N.eqb_spec a u) as [->|Ha].
    + destruct H as [<-|[]]. exists x. now left.
    + destruct (N.eqb_spec b u) as [->|Hb]; [|destruct H]. destruct H as [<-|[]]. exists x. now right.
  - intros (x & [I|I]).
    + exists (u, v, x). split; [exact I|]. rewrite N.eqb_refl. now left.
    + exists (v, u, x). split; [exact I|]. destruct (N.eqb_spec v u) as [->|Hn]; [now left|]. rewrite N.eqb_refl. now left.
Qed.

Lemma nbrs_sym (g : graph) u v : In v (nbrs g u) -> In u (nbrs g v).
Proof. rewrite !nbrs_spec. intros (x & H). exists x. tauto. Qed.

Lemma nbrs_in (g : graph) : wfe g -> forall u v, In v (nbrs g u) -> In v (node_ids g).
Proof. intros W u v H. apply nbrs_spec in H. destruct H as (x & [I|I]); apply W in I; tauto. Qed.

Lemma find_edge_in {B} u v (es : list (N * N * B)) x : find_edge u v es = Some x ->
  In (u, v, x) es \/ In (v, u, x) es.
Proof.
  induction es as [|[[a b] y] r IH]; simpl; [discriminate|].
  destruct ((N.eqb a u && N.eqb b v) || (N.eqb a v && N.eqb b u)) eqn:E.
  - intros [= ->]. apply orb_prop in E. destruct E as [E|E]; apply andb_prop in E; destruct E as [E1 E2];
      apply N.eqb_eq in E1, E2; subst; [left|right]; now left.
  - intros H. destruct (IH H); [left|right]; now right.
Qed.

Lemma adj_nbrs (g : graph) u v x : LGraph.adj g u v = Some x -> In v (nbrs g u).
Proof. intros H. apply find_edge_in in H. apply nbrs_spec. exists x. exact H. Qed.

(* ------------------------------------------------------------------ connectivity is an equivalence *)
Section Conn.
Variable g : graph.
Notation C u x := (conn (nbrs g) [u] x).

Lemma conn_trans u x y : C u x -> C x y -> C u y.
Proof.
  intros Hux Hxy. induction Hxy as [z Iz|a b Ha IH Ib].
  - destruct Iz as [<-|[]]. exact Hux.
  - eapply conn_step; eauto.
Qed.

Lemma conn_sym u x : C u x -> C x u.
Proof.
  induction 1 as [z Iz|a b Ha IH Ib].
  - destruct Iz as [<-|[]]. constructor. now left.
  - apply (conn_trans b a u); [|exact IH]. eapply conn_step; [constructor; now left|]. now apply nbrs_sym.
Qed.

Hypothesis W : wfe g.

Lemma comp_closure_spec u : In u (node_ids g) -> forall x, In x (comp_closure g u) <-> C u x.
Proof.
  intros Hu x. unfold comp_closure.
  destruct (saturate (nbrs g) (S (n_nodes g)) [u]) as [R|] eqn:E.
  - apply (saturate_spec (S (n_nodes g)) [u]); [intros y [<-|[]]; constructor; now left|auto|exact E].
  - exfalso. revert E. apply (saturate_fuel (nbrs g) (nbrs_in g W)).
    + constructor; [intros []|constructor].
    + intros y [<-|[]]. exact Hu.
    + unfold n_nodes, node_ids. rewrite map_length. simpl. lia.
Qed.

Lemma comp_closure_incl u : In u (node_ids g) -> incl (comp_closure g u) (node_ids g).
Proof.
  intros Hu x Hx. apply (comp_closure_spec u Hu) in Hx.
  induction Hx as [z Iz|a b Ha IH Ib]; [destruct Iz as [<-|[]]; exact Hu|eapply nbrs_in; eauto].
Qed.

(** what the component list looks like *)
Definition closed (c : list N) : Prop := forall x v e, In x c -> LGraph.adj g x v = Some e -> In v c.

Inductive pdisj : list (list N) -> Prop :=
| pd_nil : pdisj []
| pd_cons c L : (forall d, In d L -> forall x, In x c -> ~ In x d) -> pdisj L -> pdisj (c :: L).

Lemma comps_go_spec todo : forall seen,
  incl todo (node_ids g) ->
  (forall x y, In x seen -> C x y -> In y seen) ->
  let L := comps_go g todo seen in
  (forall c, In c L -> incl c (node_ids g) /\ closed c /\ forall x, In x c -> ~ In x seen) /\ pdisj L.
Proof.
  induction todo as [|u rest IH]; intros seen Hin Hseen; simpl.
  - split; [intros c []|constructor].
  - assert (Hrest : incl rest (node_ids g)) by (intros y Hy; apply Hin; now right).
    destruct (LGraph.mem u seen) eqn:Em; [now apply IH|].
    assert (Hu : In u (node_ids g)) by (apply Hin; now left).
    assert (Hnu : ~ In u seen) by (intros I; apply LGraph.mem_spec in I; congruence).
    set (c := comp_closure g u).
    assert (Hc : forall x, In x c <-> C u x) by (apply comp_closure_spec; exact Hu).
    assert (Hcs : forall x, In x c -> ~ In x seen).
    { intros x Hx Hs. apply Hnu. apply (Hseen x u Hs). apply conn_sym. now apply Hc. }
    assert (Hseen' : forall x y, In x (c ++ seen) -> C x y -> In y (c ++ seen)).
    { intros x y Hx Hxy. apply in_or_app. apply in_app_or in Hx. destruct Hx as [Hx|Hx].
      - left. apply Hc. apply (conn_trans u x y); [now apply Hc|exact Hxy].
      - right. eapply Hseen; eauto. }
    destruct (IH (c ++ seen) Hrest Hseen') as (H1 & H2).
    split.
    + intros d [<-|Hd].
      * split; [now apply comp_closure_incl|]. split; [|exact Hcs].
        intros x v e Hx Hadj. apply Hc. eapply conn_step; [apply Hc; exact Hx|]. eapply adj_nbrs; eauto.
      * destruct (H1 d Hd) as (A & B & D). split; [exact A|]. split; [exact B|].
        intros x Hx Hs. apply (D x Hx). apply in_or_app. now right.
    + constructor; [|exact H2]. intros d Hd x Hx Hxd. destruct (H1 d Hd) as (_ & _ & D).
      apply (D x Hxd). apply in_or_app. now left.
Qed.

Theorem components_spec :
  (forall c, In c (components g) -> incl c (node_ids g) /\ closed c) /\ pdisj (components g).
Proof.
  destruct (comps_go_spec (node_ids g) [] (incl_refl _) (fun x y (H : In x []) _ => match H with end)) as (H1 & H2).
  split; [|exact H2]. intros c Hc. destruct (H1 c Hc) as (A & B & _). auto.
Qed.

End Conn.

(* ------------------------------------------------------------------ the stable size sort is a permutation *)
Lemma insert_desc_perm c l : Permutation (insert_desc c l) (c :: l).
Proof.
  induction l as [|d r IH]; simpl; [reflexivity|].
  destruct (length d <? length c); [reflexivity|].
  eapply perm_trans; [apply perm_skip; exact IH|apply perm_swap].
Qed.

Lemma sort_comps_perm l : Permutation (sort_comps l) l.
Proof.
  unfold sort_comps.
  assert (G : forall l acc, Permutation (fold_left (fun acc c => insert_desc c acc) l acc) (l ++ acc)).
  { induction l0 as [|c r IH]; intros acc; simpl; [reflexivity|].
    eapply perm_trans; [apply IH|]. eapply perm_trans; [apply Permutation_app_head, insert_desc_perm|].
    apply Permutation_sym, Permutation_middle. }
  rewrite <- (app_nil_r l) at 2. apply G.
Qed.

Lemma pdisj_perm L L' : Permutation L L' -> pdisj L -> pdisj L'.
Proof.
  induction 1 as [|c L L' P IH|c d L|L L' L'' P1 IH1 P2 IH2]; intros H.
  - exact H.
  - inversion H as [|? ? Hc HL]; subst. constructor; [|now apply IH].
    intros d Hd. apply Hc. eapply Permutation_in; [apply Permutation_sym; exact P|exact Hd].
  - inversion H as [|? ? Hd H']; subst. inversion H' as [|? ? Hc HL]; subst.
    constructor.
    + intros e [<-|He] x Hx Hxe; [apply (Hd c (or_introl eq_refl) x Hxe Hx)|apply (Hc e He x Hx Hxe)].
    + constructor; [|exact HL]. intros e He. apply Hd. now right.
  - auto.
Qed.

(* ------------------------------------------------------------------ induced copies *)
Lemma induced_nodes (g : graph) keep p : In p (node_ids (induced_sub g keep)) <-> In p (node_ids g) /\ In p keep.
Proof.
  unfold node_ids, induced_sub. simpl. rewrite !in_map_iff. split.
  - intros ([p' a] & <- & I). apply filter_In in I. destruct I as (I & Hm). simpl in *.
    split; [exists (p', a); auto|now apply LGraph.mem_spec].
  - intros (([p' a] & <- & I) & Hk). exists (p', a). split; [reflexivity|].
    apply filter_In. split; [exact I|]. simpl. now apply LGraph.mem_spec.
Qed.

Lemma induced_label (g : graph) keep p : In p keep -> label (induced_sub g keep) p = label g p.
Proof.
  intros I. unfold label, induced_sub. simpl. rewrite assoc_filter_keep. apply LGraph.mem_spec in I. now rewrite I.
Qed.

Lemma induced_adj (g : graph) keep p q : In p keep -> In q keep -> LGraph.adj (induced_sub g keep) p q = LGraph.adj g p q.
Proof.
  intros Ip Iq. unfold LGraph.adj, induced_sub. simpl. apply find_edge_filter_keep; now apply LGraph.mem_spec.
Qed.

Lemma induced_nodup (g : graph) keep : NoDup (node_ids g) -> NoDup (node_ids (induced_sub g keep)).
Proof. unfold node_ids, induced_sub. simpl. apply NoDup_map_fst_filter. Qed.

Lemma wfe_induced (g : graph) keep : wfe g -> wfe (induced_sub g keep).
Proof.
  intros W a b x I. unfold induced_sub in I. simpl in I. apply filter_In in I. destruct I as (I & Hm).
  apply andb_prop in Hm. destruct Hm as [Ha Hb]. apply LGraph.mem_spec in Ha, Hb. destruct (W a b x I) as (Na & Nb).
  split; apply induced_nodes; auto.
Qed.

Lemma wfe_prune prune wc (g : graph) : wfe g -> wfe (prune_graph prune wc g).
Proof. unfold prune_graph. destruct prune; [apply wfe_induced|auto]. Qed.

Section Valid.
Variable nm : option nattr -> option nattr -> bool.
Variable em : eattr -> eattr -> bool.
Hypothesis nm_sym : forall a b, nm a b = nm b a.
Hypothesis em_sym : forall a b, em a b = em b a.
Notation CI := (common_induced nm em).

Lemma ci_nil ga gb : CI ga gb [].
Proof. split; [constructor|]. split; [constructor|]. split; [intros ? ? []|intros ? ? ? ? []]. Qed.

Lemma ci_induced_lift g1 g2 k1 k2 m : CI (induced_sub g1 k1) (induced_sub g2 k2) m ->
  CI g1 g2 m /\ forall p h, In (p, h) m -> In p k1 /\ In h k2.
Proof.
  intros (H1 & H2 & H3 & H4).
  assert (K : forall p h, In (p, h) m -> In p k1 /\ In h k2).
  { intros p h I. destruct (H3 p h I) as (Hp & Hh & _). apply induced_nodes in Hp, Hh. tauto. }
  split; [|exact K]. split; [exact H1|]. split; [exact H2|]. split.
  - intros p h I. destruct (K p h I) as (Kp & Kh). destruct (H3 p h I) as (Hp & Hh & Hn).
    apply induced_nodes in Hp, Hh. rewrite (induced_label g1 k1 p Kp), (induced_label g2 k2 h Kh) in Hn. tauto.
  - intros p h p' h' I I' Hne. destruct (K p h I) as (Kp & Kh). destruct (K p' h' I') as (Kp' & Kh').
    specialize (H4 p h p' h' I I' Hne).
    now rewrite (induced_adj g1 k1 p p' Kp Kp'), (induced_adj g2 k2 h h' Kh Kh') in H4.
Qed.

Lemma search_valid pattern host mcs maps last tried : NoDup (node_ids pattern) ->
  search_subgraphs nm em pattern host mcs = (maps, last, tried) -> forall m, In m maps -> CI pattern host m.
Proof.
  intros Hn E m I. destruct mcs.
  - destruct (search_mcs_spec nm em pattern host Hn maps last tried E) as (S1 & _). now apply S1.
  - destruct (search_all_spec nm em pattern host Hn maps last tried E) as (S1 & _). now apply S1.
Qed.

Lemma comp_pair_valid g1 g2 mcs c1 c2 : NoDup (node_ids g1) -> NoDup (node_ids g2) ->
  CI g1 g2 (fst (comp_pair nm em g1 g2 mcs c1 c2)) /\
  forall p h, In (p, h) (fst (comp_pair nm em g1 g2 mcs c1 c2)) -> In p c1 /\ In h c2.
Proof.
  intros N1 N2. unfold comp_pair, prepare_orientation.
  pose proof (induced_nodup g1 c1 N1) as M1. pose proof (induced_nodup g2 c2 N2) as M2.
  destruct (n_nodes (induced_sub g1 c1) <=? n_nodes (induced_sub g2 c2)).
  - destruct (search_subgraphs nm em (induced_sub g1 c1) (induced_sub g2 c2) mcs) as [[maps last] tried] eqn:E.
    destruct maps as [|best r]; simpl; [split; [apply ci_nil|intros ? ? []]|].
    apply ci_induced_lift. eapply search_valid; [exact M1|exact E|now left].
  - destruct (search_subgraphs nm em (induced_sub g2 c2) (induced_sub g1 c1) mcs) as [[maps last] tried] eqn:E.
    destruct maps as [|best r]; simpl; [split; [apply ci_nil|intros ? ? []]|].
    apply ci_induced_lift. apply (ci_invert nm em nm_sym em_sym). eapply search_valid; [exact M2|exact E|now left].
Qed.

Lemma adj_none_outside (g : graph) c p q : closed g c -> In q c -> ~ In p c -> LGraph.adj g p q = None.
Proof.
  intros Hc Iq Np. destruct (LGraph.adj g p q) as [e|] eqn:E; [|reflexivity].
  exfalso. apply Np. apply (Hc q p e Iq). now rewrite adj_sym.
Qed.

Lemma ci_app g1 g2 c1 c2 acc m : closed g1 c1 -> closed g2 c2 -> CI g1 g2 acc -> CI g1 g2 m ->
  (forall p h, In (p, h) acc -> ~ In p c1 /\ ~ In h c2) -> (forall p h, In (p, h) m -> In p c1 /\ In h c2) ->
  CI g1 g2 (acc ++ m).
Proof.
  intros C1 C2 (A1 & A2 & A3 & A4) (M1 & M2 & M3 & M4) Ha Hm.
  split; [|split; [|split]].
  - rewrite map_app. apply nodup_app; auto. intros p Ia Im. apply in_map_iff in Ia, Im.
    destruct Ia as ([p1 h1] & <- & I1), Im as ([p2 h2] & E & I2). simpl in *. subst p2.
    apply (proj1 (Ha _ _ I1)). exact (proj1 (Hm _ _ I2)).
  - rewrite map_app. apply nodup_app; auto. intros h Ia Im. apply in_map_iff in Ia, Im.
    destruct Ia as ([p1 h1] & <- & I1), Im as ([p2 h2] & E & I2). simpl in *. subst h2.
    apply (proj2 (Ha _ _ I1)). exact (proj2 (Hm _ _ I2)).
  - intros p h I. apply in_app_or in I. destruct I; auto.
  - intros p h p' h' I I' Hne. apply in_app_or in I, I'. destruct I as [I|I], I' as [I'|I'].
    + now apply A4.
    + destruct (Ha _ _ I) as (Np & Nh). destruct (Hm _ _ I') as (Ip' & Ih').
      now rewrite (adj_none_outside g1 c1 p p' C1 Ip' Np), (adj_none_outside g2 c2 h h' C2 Ih' Nh).
    + destruct (Ha _ _ I') as (Np & Nh). destruct (Hm _ _ I) as (Ip & Ih).
      rewrite (adj_sym g1 p p'), (adj_sym g2 h h').
      now rewrite (adj_none_outside g1 c1 p' p C1 Ip Np), (adj_none_outside g2 c2 h' h C2 Ih Nh).
    + now apply M4.
Qed.

Lemma comp_fold_valid g1 g2 mcs : NoDup (node_ids g1) -> NoDup (node_ids g2) ->
  forall L1 L2 acc tried, pdisj L1 -> pdisj L2 ->
  (forall c, In c L1 -> closed g1 c) -> (forall c, In c L2 -> closed g2 c) ->
  CI g1 g2 acc ->
  (forall p h, In (p, h) acc -> (forall c, In c L1 -> ~ In p c) /\ (forall c, In c L2 -> ~ In h c)) ->
  CI g1 g2 (fst (comp_fold nm em g1 g2 mcs (combine L1 L2) acc tried)).
Proof.
  intros N1 N2. induction L1 as [|c1 r1 IH]; intros L2 acc tried P1 P2 G1 G2 Hacc Hout; [exact Hacc|].
  destruct L2 as [|c2 r2]; [exact Hacc|]. simpl.
  destruct (comp_pair nm em g1 g2 mcs c1 c2) as [m t] eqn:Ep.
  destruct (comp_pair_valid g1 g2 mcs c1 c2 N1 N2) as (Vm & Im). rewrite Ep in Vm, Im. simpl in Vm, Im.
  inversion P1 as [|? ? D1 P1']; subst. inversion P2 as [|? ? D2 P2']; subst.
  apply IH; auto.
  - intros c Hc. apply G1. now right.
  - intros c Hc. apply G2. now right.
  - apply (ci_app g1 g2 c1 c2); auto.
    + apply G1. now left.
    + apply G2. now left.
    + intros p h I. destruct (Hout p h I) as (O1 & O2). split; [apply O1|apply O2]; now left.
  - intros p h I. apply in_app_or in I. destruct I as [I|I].
    + destruct (Hout p h I) as (O1 & O2). split; intros c Hc; [apply O1|apply O2]; now right.
    + destruct (Im p h I) as (Ip & Ih). split; intros c Hc; [apply (D1 c Hc p Ip)|apply (D2 c Hc h Ih)].
Qed.

Theorem componentwise_valid g1 g2 mcs : NoDup (node_ids g1) -> NoDup (node_ids g2) -> wfe g1 -> wfe g2 ->
  CI g1 g2 (fst (componentwise nm em g1 g2 mcs)).
Proof.
  intros N1 N2 W1 W2. unfold componentwise.
  destruct (components_spec g1 W1) as (S1 & D1). destruct (components_spec g2 W2) as (S2 & D2).
  apply comp_fold_valid; [exact N1|exact N2| | | | | |].
  - eapply pdisj_perm; [apply Permutation_sym, sort_comps_perm|exact D1].
  - eapply pdisj_perm; [apply Permutation_sym, sort_comps_perm|exact D2].
  - intros c Hc. apply S1. eapply Permutation_in; [apply sort_comps_perm|exact Hc].
  - intros c Hc. apply S2. eapply Permutation_in; [apply sort_comps_perm|exact Hc].
  - apply ci_nil.
  - intros p h [].
Qed.

End Valid.

(** find_rc_mapping(side='its', component=True): one combined mapping, reported G1 -> G2, valid for the pruned graphs *)
Theorem component_valid defs prune wc (g1 g2 : graph) mcs :
  NoDup (node_ids g1) -> NoDup (node_ids g2) -> wfe g1 -> wfe g2 ->
  (forall m, In m (get_mappings G1toG2 (find_rc_component defs prune wc g1 g2 mcs)) ->
     common_induced (node_match defs) edge_match (prune_graph prune wc g1) (prune_graph prune wc g2) m /\
     length m = r_last (find_rc_component defs prune wc g1 g2 mcs)) /\
  (forall m, In m (get_mappings G2toG1 (find_rc_component defs prune wc g1 g2 mcs)) ->
     common_induced (node_match defs) edge_match (prune_graph prune wc g2) (prune_graph prune wc g1) m) /\
  length (get_mappings G1toG2 (find_rc_component defs prune wc g1 g2 mcs)) = 1.
Proof.
  intros N1 N2 W1 W2. unfold find_rc_component.
  pose proof (componentwise_valid (node_match defs) edge_match (node_match_sym defs) edge_match_sym
                (prune_graph prune wc g1) (prune_graph prune wc g2) mcs
                (prune_nodup prune wc g1 N1) (prune_nodup prune wc g2 N2) (wfe_prune prune wc g1 W1) (wfe_prune prune wc g2 W2)) as V.
  destruct (componentwise (node_match defs) edge_match (prune_graph prune wc g1) (prune_graph prune wc g2) mcs) as [combined tried].
  simpl in *. split; [|split; [|reflexivity]].
  - intros m [<-|[]]. split; [exact V|reflexivity].
  - intros m [<-|[]]. apply (ci_invert _ _ (node_match_sym defs) edge_match_sym). exact V.
Qed.

(* ------------------------------------------------------------------ the component list, stated without [pdisj] *)
Lemma pdisj_nth L : pdisj L -> forall i j, i < j -> j < length L -> forall x, In x (nth i L []) -> ~ In x (nth j L []).
Proof.
  induction 1 as [|c L Hc HL IH]; intros i j Hij Hj x Hx; [simpl in Hj; lia|].
  destruct j as [|j]; [lia|]. simpl in Hj. destruct i as [|i]; simpl in *.
  - apply (Hc (nth j L [])); [apply nth_In; lia|exact Hx].
  - apply (IH i j); [lia|lia|exact Hx].
Qed.

Lemma comps_go_cover (g : graph) (W : wfe g) todo : forall seen u, incl todo (node_ids g) -> In u todo ->
  In u seen \/ exists c, In c (comps_go g todo seen) /\ In u c.
Proof.
  induction todo as [|v rest IH]; intros seen u Hin Hu; [destruct Hu|]. simpl.
  assert (Hrest : incl rest (node_ids g)) by (intros y Hy; apply Hin; now right).
  destruct (LGraph.mem v seen) eqn:Em.
  - destruct Hu as [<-|Hu]; [left; now apply LGraph.mem_spec|now apply IH].
  - destruct Hu as [<-|Hu].
    + right. exists (comp_closure g v). split; [now left|].
      apply (comp_closure_spec g W v (Hin v (or_introl eq_refl))). constructor. now left.
    + destruct (IH (comp_closure g v ++ seen) u Hrest Hu) as [I|(c & Ic & Iu)].
      * apply in_app_or in I. destruct I as [I|I]; [right; exists (comp_closure g v); split; [now left|exact I]|now left].
      * right. exists c. split; [now right|exact Iu].
Qed.

Theorem components_partition (g : graph) : wfe g ->
  (forall c, In c (components g) -> incl c (node_ids g) /\
                                   forall x v e, In x c -> LGraph.adj g x v = Some e -> In v c) /\
  (forall i j, i < j -> j < length (components g) ->
               forall x, In x (nth i (components g) []) -> ~ In x (nth j (components g) [])) /\
  (forall u, In u (node_ids g) -> exists c, In c (components g) /\ In u c).
Proof.
  intros W. destruct (components_spec g W) as (S1 & D). split; [exact S1|]. split; [now apply pdisj_nth|].
  intros u Hu. destruct (comps_go_cover g W (node_ids g) [] u (incl_refl _) Hu) as [[]|H]. exact H.
Qed.

(* ------------------------------------------------------------------ non-vacuity *)
Module Example_component.
Open Scope N_scope.
Definition nd (i e : N) : N * nattr := (i, (Some e, [Some e])).
(** g1: C1-O2 . N3 . C4=C5      g2: C7=C8 . O9-C10   (sizes 2,1,2 against 2,2; equal sizes keep node order) *)
Definition g1 : graph := LG [nd 1 1; nd 2 2; nd 3 3; nd 4 1; nd 5 1] [((1,2), [Some 2%Z]); ((4,5), [Some 4%Z])].
Definition g2 : graph := LG [nd 7 1; nd 8 1; nd 9 2; nd 10 1] [((7,8), [Some 4%Z]); ((9,10), [Some 2%Z])].
Lemma g1_nodup : NoDup (node_ids g1). Proof. vm_compute. repeat constructor; simpl; intuition discriminate. Qed.
Lemma g2_nodup : NoDup (node_ids g2). Proof. vm_compute. repeat constructor; simpl; intuition discriminate. Qed.
Lemma g1_wfe : wfe g1. Proof. intros a b x [E|[E|[]]]; inversion E; subst; vm_compute; tauto. Qed.
Lemma g2_wfe : wfe g2. Proof. intros a b x [E|[E|[]]]; inversion E; subst; vm_compute; tauto. Qed.

Definition rc := find_rc_component [9] false 9 g1 g2 true.
Example component_nonvacuous :
  components g1 = [[2; 1]; [3]; [5; 4]] /\ sort_comps (components g1) = [[2; 1]; [5; 4]; [3]] /\
  get_mappings G1toG2 rc = [[(1, 7); (4, 10)]] /\ r_last rc = 2%nat /\
  common_induced (node_match [9]) edge_match g1 g2 [(1, 7); (4, 10)].
Proof.
  split; [vm_compute; reflexivity|]. split; [vm_compute; reflexivity|]. split; [vm_compute; reflexivity|].
  split; [vm_compute; reflexivity|].
  apply (proj1 (component_valid [9] false 9 g1 g2 true g1_nodup g2_nodup g1_wfe g2_wfe) [(1, 7); (4, 10)]).
  vm_compute. now left.
Qed.
End Example_component.
