(** C05 — SynReactor(partial=True), exhaustive strategy, no result limit (embed_threshold not given ... or any cap with
    [pmax_val = 0]): the SET of raw partial matches does not depend on the insertion order of the substrate's atoms and
    bonds nor on the orientation of the stored bonds — what a rewriting of the substrate SMILES changes besides the
    numbering (numbering: proof/C05_Partial.v).  Per pattern component the exhaustive search lists the same embeddings
    (or nothing, past the cap, for both writings); combinations and back-tracking only depend on these lists as sets. *)
From Coq Require Import List NArith ZArith Bool Arith Lia Permutation.
From SK Require Import lib.Tok lib.LGraph lib.Mono.
From SK Require model.C06_Model model.C11_Model.
From SK Require Import model.C03_Model model.C05_Model proof.C05_Proof proof.C05_Pipe proof.C05_Order proof.C05_Partial.
Import ListNotations.

Definition seteq {X} (l l' : list X) : Prop := forall x, In x l <-> In x l'.

Lemma flat_map_seteq {X Y} (f f' : X -> list Y) (l l' : list X) :
  seteq l l' -> (forall x, seteq (f x) (f' x)) -> seteq (flat_map f l) (flat_map f' l').
Proof.
  intros Hl Hf y. rewrite !in_flat_map. split; intros (x & Hx & Hy); exists x; split;
    try (apply Hl; exact Hx); try (apply Hf; exact Hy).
Qed.

Lemma flat_map_Forall2 {X X' Y} (R : X -> X' -> Prop) (f : X -> list Y) (f' : X' -> list Y) l l' :
  Forall2 R l l' -> (forall x x', R x x' -> seteq (f x) (f' x')) -> seteq (flat_map f l) (flat_map f' l').
Proof.
  intros HF Hf. induction HF as [|x x' r r' Hx _ IH]; simpl; [intros y; tauto|].
  intros y. rewrite !in_app_iff. rewrite (Hf x x' Hx y), (IH y). tauto.
Qed.

Lemma pbt_seteq (embs embs' : list (list mapping)) : Forall2 seteq embs embs' ->
  forall used acc, seteq (pbt embs used acc) (pbt embs' used acc).
Proof.
  induction 1 as [|lvl lvl' rest rest' Hl _ IH]; intros used acc; [intros m; tauto|].
  cbn [pbt]. apply flat_map_seteq; [exact Hl|]. intros emb.
  destruct (existsb _ (map snd emb)); [intros m; tauto | apply IH].
Qed.

Lemma combos_Forall2 {X} (R : X -> X -> Prop) (l l' : list X) : Forall2 R l l' ->
  forall k, Forall2 (Forall2 R) (combos k l) (combos k l').
Proof.
  induction 1 as [|x x' r r' Hx HF IH]; intros [|k]; simpl; try (repeat constructor).
  apply Forall2_app; [|apply IH].
  specialize (IH k). clear -Hx IH. induction IH; simpl; constructor; [constructor; assumption | assumption].
Qed.

Lemma Forall2_len {X Y} (R : X -> Y -> Prop) l l' : Forall2 R l l' -> length l = length l'.
Proof. induction 1; simpl; congruence. Qed.

Lemma match_all_k_seteq (embs embs' : list (list mapping)) : Forall2 seteq embs embs' ->
  seteq (match_all_k embs) (match_all_k embs').
Proof.
  intros HF. unfold match_all_k. rewrite <- (Forall2_len _ _ _ HF).
  apply flat_map_seteq; [intros k; tauto|]. intros k.
  apply (flat_map_Forall2 (Forall2 seteq)); [apply combos_Forall2; exact HF|].
  intros c c' Hc. apply pbt_seteq. exact Hc.
Qed.

Section WithThr.
Context {TH : Thr}.

(** two writings of one host at the level of the matcher's graphs *)
Definition same_c06 (H H' : C06_Model.graph) : Prop :=
  (forall u, C06_Model.lab H' u = C06_Model.lab H u) /\ (forall u v, LGraph.adj H' u v = LGraph.adj H u v) /\
  (forall u, In u (node_ids H) <-> In u (node_ids H')) /\ NoDup (node_ids H) /\ NoDup (node_ids H').

Lemma same_c06_sym H H' : same_c06 H H' -> same_c06 H' H.
Proof. intros (A & B & C & D & E). repeat split; auto; try (intros; symmetry; auto); apply C. Qed.

Lemma same_graph_c06 (host host' : hostg) : same_graph host host' -> same_c06 (host_c06 host) (host_c06 host').
Proof.
  intros (H1 & H2 & H3 & H4 & H5). repeat split.
  - intros u. rewrite !lab_host_c06, H1. reflexivity.
  - intros u v. rewrite !adj_host_c06, H2. reflexivity.
  - rewrite !node_ids_host_c06. apply H3.
  - rewrite !node_ids_host_c06. apply H3.
  - rewrite node_ids_host_c06. exact H4.
  - rewrite node_ids_host_c06. exact H5.
Qed.

(** find_subgraph_mappings, exhaustive strategy, no result limit: everything or nothing *)
Lemma find0_unfold strict (H P : C06_Model.graph) :
  C06_Model.find (monos_on' H P) (C06_Model.Cfg 0 0 thr_val strict false) H P =
  let it := monos_on' H P (node_ids H) (node_ids P) in
  if (thr_val <? C06_Model.lenN it)%N then [] else it.
Proof.
  unfold C06_Model.find; simpl. unfold C06_Model.find_all.
  rewrite all_loop_0 by lia. simpl.
  set (it := monos_on' _ _ _ _). clearbody it. unfold mapping, C06_Model.mapping in *.
  destruct (thr_val <? C06_Model.lenN it)%N eqn:E;
    [match goal with |- context [if ?c then _ else _] => destruct c end; reflexivity|]. rewrite E. reflexivity.
Qed.

Lemma find0_host_order strict (H H' P : C06_Model.graph) : same_c06 H H' ->
  seteq (C06_Model.find (monos_on' H P) (C06_Model.Cfg 0 0 thr_val strict false) H P)
        (C06_Model.find (monos_on' H' P) (C06_Model.Cfg 0 0 thr_val strict false) H' P).
Proof.
  intros HS.
  assert (Hone : forall G G', same_c06 G G' -> forall m,
            In m (monos_on' G P (node_ids G) (node_ids P)) -> In m (monos_on' G' P (node_ids G') (node_ids P))).
  { intros G G' (A & B & C & _ & _) m. rewrite !monos_on'_eq. unfold C06_Model.monos_on.
    apply monos_host_order; [apply C | exact A | exact B]. }
  assert (Hlen : C06_Model.lenN (monos_on' H P (node_ids H) (node_ids P)) = C06_Model.lenN (monos_on' H' P (node_ids H') (node_ids P))).
  { unfold C06_Model.lenN. f_equal. apply nodup_same_length.
    - rewrite monos_on'_eq. apply monos_nodup. apply HS.
    - rewrite monos_on'_eq. apply monos_nodup. apply HS.
    - intros m. split; [apply Hone; exact HS | apply Hone; apply same_c06_sym; exact HS]. }
  intros m. rewrite !find0_unfold. cbv zeta. rewrite <- Hlen.
  destruct (thr_val <? _)%N; [tauto|].
  split; [apply Hone; exact HS | apply Hone; apply same_c06_sym; exact HS].
Qed.

Lemma comp_embeddings_host_order (H H' P : C06_Model.graph) : pmax_val = 0%N -> same_c06 H H' ->
  Forall2 seteq (comp_embeddings 0%N H P) (comp_embeddings 0%N H' P).
Proof.
  intros Hm HS. unfold comp_embeddings, pcfg_of. rewrite Hm.
  induction (C06_Model.comps P) as [|pc r IH]; simpl; constructor; [|exact IH].
  apply find0_host_order. exact HS.
Qed.

Theorem partial_matches_host_order (host host' : hostg) (pat : molg) :
  pmax_val = 0%N -> same_graph host host' ->
  match partial_matches 0%N host pat, partial_matches 0%N host' pat with
  | Some r, Some r' => forall m, In m r <-> In m r'
  | None, None => True
  | _, _ => False
  end.
Proof.
  intros Hm HS. unfold partial_matches.
  destruct (C06_Model.comps (pat_c06 pat)) as [|c cs] eqn:E; [exact Logic.I|].
  unfold plimit. rewrite Hm. simpl.
  apply match_all_k_seteq. apply comp_embeddings_host_order; [exact Hm | apply same_graph_c06; exact HS].
Qed.

End WithThr.
