(** C02 (round 5) — compare_graphs (model/C02_Compare.v): exact characterisation, and the library's comparator as the judge of the
    idempotence clause. *)
From Coq Require Import List NArith ZArith Bool Lia.
From SK Require Import lib.LGraph lib.C01_GraphLemmas model.C01_Model model.C02_Model model.C02_Compare
                       proof.C02_Proof proof.C02_Opts proof.C02_OptsEquiv.
Import ListNotations.
Local Open Scope Z_scope.

(** * the equality tests decide equality *)
Lemma opt_eqb_spec {T} (eqb : T -> T -> bool) : (forall x y, eqb x y = true <-> x = y) ->
  forall a b, opt_eqb eqb a b = true <-> a = b.
Proof.
  intros H [x|] [y|]; simpl; try (split; [discriminate|discriminate]); [|tauto].
  rewrite H. split; [intros ->; reflexivity|intros [= ->]; reflexivity].
Qed.

Lemma list_eqb_spec {T} (eqb : T -> T -> bool) : (forall x y, eqb x y = true <-> x = y) ->
  forall a b, list_eqb eqb a b = true <-> a = b.
Proof.
  intros H a. induction a as [|x r IH]; intros [|y s]; simpl; try (split; [discriminate|discriminate]); [tauto|].
  rewrite andb_true_iff, H, IH. split; [intros [-> ->]; reflexivity|intros [= -> ->]; auto].
Qed.

Lemma bool_eqb_spec x y : Bool.eqb x y = true <-> x = y.
Proof. destruct x, y; simpl; intuition congruence. Qed.

Lemma nattr_eqb_spec a b : nattr_eqb a b = true <-> a = b.
Proof.
  unfold nattr_eqb. rewrite !andb_true_iff, N.eqb_eq, bool_eqb_spec, !Z.eqb_eq, (list_eqb_spec N.eqb N.eqb_eq).
  destruct a, b. simpl. split; [intros ((((-> & ->) & ->) & ->) & ->); reflexivity|intros [= -> -> -> -> ->]; auto].
Qed.

Lemma gh_eqb_spec (s t : nattr * nattr) : nattr_eqb (fst s) (fst t) && nattr_eqb (snd s) (snd t) = true <-> s = t.
Proof.
  rewrite andb_true_iff, !nattr_eqb_spec. destruct s, t. simpl. split; [intros [-> ->]; reflexivity|intros [= -> ->]; auto].
Qed.

Lemma xnode_eqb_spec a b : xnode_eqb a b = true <-> a = b.
Proof.
  unfold xnode_eqb.
  rewrite !andb_true_iff, !(opt_eqb_spec N.eqb N.eqb_eq), !(opt_eqb_spec Z.eqb Z.eqb_eq), (opt_eqb_spec Bool.eqb bool_eqb_spec),
    (opt_eqb_spec (list_eqb N.eqb) (list_eqb_spec N.eqb N.eqb_eq)), (opt_eqb_spec _ gh_eqb_spec).
  destruct a, b. simpl. split; [intros ((((((-> & ->) & ->) & ->) & ->) & ->) & ->); reflexivity|intros [= -> -> -> -> -> -> ->]; tauto].
Qed.

Lemma zz_eqb_spec (s t : Z * Z) : (fst s =? fst t) && (snd s =? snd t) = true <-> s = t.
Proof. rewrite andb_true_iff, !Z.eqb_eq. destruct s, t. simpl. split; [intros [-> ->]; reflexivity|intros [= -> ->]; auto]. Qed.

Lemma seledge_eqb_spec a b : seledge_eqb a b = true <-> a = b.
Proof.
  unfold seledge_eqb. rewrite !andb_true_iff, (opt_eqb_spec _ zz_eqb_spec), (opt_eqb_spec Z.eqb Z.eqb_eq), (opt_eqb_spec Bool.eqb bool_eqb_spec).
  destruct a as [[a1 a2] a3], b as [[b1 b2] b3]. simpl. split; [intros [[-> ->] ->]; reflexivity|intros [= -> -> ->]; auto].
Qed.

Lemma subset_spec l1 l2 : subset l1 l2 = true <-> forall n, In n l1 -> In n l2.
Proof.
  unfold subset. rewrite forallb_forall. split; intros H n I; [apply LGraph.mem_spec|apply LGraph.mem_spec]; apply H; exact I.
Qed.

(** * compare_graphs, characterised *)
Definition same_atoms (g1 g2 : xits) : Prop := forall n, In n (node_ids g1) <-> In n (node_ids g2).
Definition same_labels (NA : keysel) (g1 g2 : xits) : Prop :=
  forall n a b, label g1 n = Some a -> label g2 n = Some b -> sel_attr NA a = sel_attr NA b.
Definition same_pairs (g1 g2 : xits) : Prop := forall u v, adj g1 u v <> None <-> adj g2 u v <> None.
Definition same_bond_attrs (EA : esel) (g1 g2 : xits) : Prop :=
  forall u v x y, adj g1 u v = Some x -> adj g2 u v = Some y -> sel_edge EA x = sel_edge EA y.

Theorem compare_graphs_spec NA EA (g1 g2 : xits) : wf g1 -> wf g2 ->
  (compare_graphs_x NA EA g1 g2 = true <->
   same_atoms g1 g2 /\ same_labels NA g1 g2 /\ same_pairs g1 g2 /\ same_bond_attrs EA g1 g2).
Proof.
  intros W1 W2. unfold compare_graphs_x. rewrite !andb_true_iff, !subset_spec, !forallb_forall. split.
  - intros (((((S12 & S21) & HL) & P12) & P21) & HE). split; [|split; [|split]].
    + intros n. split; [apply S12|apply S21].
    + intros n a b L1 L2. specialize (HL (n, a) (assoc_in n (gnodes g1) L1)). simpl in HL. rewrite L2 in HL. apply xnode_eqb_spec. exact HL.
    + intros u v. split; intros A.
      * destruct (adj g1 u v) as [x|] eqn:A1; [|congruence]. apply (wf_adj_iff W1) in A1.
        destruct A1 as [A1|A1]; specialize (P12 _ A1); simpl in P12.
        -- destruct (adj g2 u v); [discriminate|discriminate].
        -- unfold adj in *. rewrite find_edge_sym. destruct (find_edge v u (gedges g2)); [discriminate|discriminate].
      * destruct (adj g2 u v) as [x|] eqn:A2; [|congruence]. apply (wf_adj_iff W2) in A2.
        destruct A2 as [A2|A2]; specialize (P21 _ A2); simpl in P21.
        -- destruct (adj g1 u v); [discriminate|discriminate].
        -- unfold adj in *. rewrite find_edge_sym. destruct (find_edge v u (gedges g1)); [discriminate|discriminate].
    + intros u v x y A1 A2. apply (wf_adj_iff W1) in A1. destruct A1 as [A1|A1]; specialize (HE _ A1); simpl in HE.
      * rewrite A2 in HE. apply seledge_eqb_spec. exact HE.
      * unfold adj in *. rewrite find_edge_sym in A2. rewrite A2 in HE. apply seledge_eqb_spec. exact HE.
  - intros (SA & SL & SP & SB). repeat split.
    + intros n I. apply SA. exact I.
    + intros n I. apply SA. exact I.
    + intros [n a] I. simpl. assert (label g1 n = Some a) as L1 by (apply assoc_nodup_in; [exact (proj1 W1)|exact I]).
      assert (In n (node_ids g2)) as I2 by (apply SA; eapply label_some_node; eauto).
      destruct (node_label_some I2) as (b & L2). rewrite L2. apply xnode_eqb_spec. eapply SL; eauto.
    + intros [[u v] x] I. assert (adj g1 u v = Some x) as A1 by (apply wf_in_adj; assumption).
      assert (adj g2 u v <> None) as A2 by (apply SP; congruence). destruct (adj g2 u v); [reflexivity|congruence].
    + intros [[u v] x] I. assert (adj g2 u v = Some x) as A2 by (apply wf_in_adj; assumption).
      assert (adj g1 u v <> None) as A1 by (apply SP; congruence). destruct (adj g1 u v); [reflexivity|congruence].
    + intros [[u v] x] I. assert (adj g1 u v = Some x) as A1 by (apply wf_in_adj; assumption).
      assert (adj g2 u v <> None) as A2 by (apply SP; congruence). destruct (adj g2 u v) as [y|] eqn:E; [|congruence].
      apply seledge_eqb_spec. eapply SB; eauto.
Qed.

(** graphs that are equal as labelled graphs compare equal under every selection *)
Corollary geq_compare NA EA (g1 g2 : xits) : wf g1 -> wf g2 -> geq g1 g2 -> compare_graphs_x NA EA g1 g2 = true.
Proof.
  intros W1 W2 [GL GA]. apply (compare_graphs_spec NA EA g1 g2 W1 W2). split; [|split; [|split]].
  - intros n. split; intros I; apply node_label_some in I; destruct I as (a & L); eapply label_some_node; [rewrite <- GL|rewrite GL]; exact L.
  - intros n a b L1 L2. rewrite GL, L2 in L1. injection L1 as ->. reflexivity.
  - intros u v. rewrite GA. tauto.
  - intros u v x y A1 A2. rewrite GA, A2 in A1. injection A1 as ->. reflexivity.
Qed.

(** with every attribute selected the comparator decides equality of labelled graphs *)
Lemma sel_all a : sel_attr K_all a = a.
Proof. destruct a. reflexivity. Qed.
Lemma sel_edge_all x y : sel_edge E_all x = sel_edge E_all y -> x = y.
Proof. destruct x as [[a b c] f], y as [[a' b' c'] f']. unfold sel_edge. simpl. intros [= -> -> -> ->]. reflexivity. Qed.

Corollary compare_all_geq (g1 g2 : xits) : wf g1 -> wf g2 -> (compare_graphs_x K_all E_all g1 g2 = true <-> geq g1 g2).
Proof.
  intros W1 W2. split; [|apply geq_compare; assumption].
  intros C. apply (compare_graphs_spec K_all E_all g1 g2 W1 W2) in C. destruct C as (SA & SL & SP & SB). split.
  - intros n. destruct (label g1 n) as [a|] eqn:L1; destruct (label g2 n) as [b|] eqn:L2.
    + f_equal. specialize (SL n a b L1 L2). rewrite !sel_all in SL. exact SL.
    + exfalso. assert (In n (node_ids g2)) as I by (apply SA; eapply label_some_node; eauto).
      destruct (node_label_some I) as (b & L). congruence.
    + exfalso. assert (In n (node_ids g1)) as I by (apply SA; eapply label_some_node; eauto).
      destruct (node_label_some I) as (a & L). congruence.
    + reflexivity.
  - intros u v. destruct (adj g1 u v) as [x|] eqn:A1; destruct (adj g2 u v) as [y|] eqn:A2.
    + f_equal. apply sel_edge_all. eapply SB; eauto.
    + exfalso. assert (adj g2 u v <> None) as X by (apply SP; congruence). congruence.
    + exfalso. assert (adj g1 u v <> None) as X by (apply SP; congruence). congruence.
    + reflexivity.
Qed.

(** the idempotence clause judged by the library's own comparator, under any selection *)
Theorem compare_rc_idem NA EA K d m (g : xits) : k_el K = true -> k_gh K = true -> wf g ->
  compare_graphs_x NA EA (get_rc_x K d m (get_rc_x K d m g)) (get_rc_x K d m g) = true.
Proof.
  intros Ke Kg W. apply geq_compare; [apply rcx_wf, rcx_wf; exact W|apply rcx_wf; exact W|apply rcx_idem; assumption].
Qed.

(** non-vacuity: the comparator distinguishes a graph from its centre, and accepts the centre of the centre *)
Example C02_compare_nonvacuous :
  wf (emb ex_its) /\ compare_graphs_x K_all E_all (get_rc_x K_default false false (emb ex_its)) (emb ex_its) = false /\
  compare_graphs_x K_all E_all (get_rc_x K_default false false (get_rc_x K_default false false (emb ex_its))) (get_rc_x K_default false false (emb ex_its)) = true /\
  compare_graphs_x (KS false false false false false false false) (ES false false false) (emb ex_its) (emb ex_its) = true.
Proof.
  split; [|vm_compute; repeat split; reflexivity].
  apply wf_intro.
  - unfold node_ids, emb, gmap. simpl. repeat constructor; simpl; intuition discriminate.
  - intros a b x I. unfold emb, gmap in I. simpl in I. repeat (destruct I as [I|I]; [inversion I; subst; simpl; intuition discriminate|]). destruct I.
  - unfold emb, gmap. simpl. repeat constructor.
Qed.
