(** C06 — non-interference over whole histories, edge-attribute names: two runs of the same script from
    states that agree on everything except the value of one EDGE-attribute name [k] answer every search that
    does not select [k] (in edge_attrs) identically. *)
From Coq Require Import List NArith Bool Arith Lia.
From SK Require Import lib.Tok lib.LGraph model.C06_Model model.C06_Attrs model.C06_Trace model.C06_Hist lib.C06_HistSpec
  proof.C06_Attrs proof.C06_Hist proof.C06_HistFrame.
Import ListNotations.

Definition edges_agree (k : N) (es1 es2 : list (N * N * rattrs)) : Prop :=
  Forall2 (fun e1 e2 : N * N * rattrs =>
             fst (fst e1) = fst (fst e2) /\ snd (fst e1) = snd (fst e2) /\
             dict_ok (snd e1) /\ dict_ok (snd e2) /\
             forall k', k' <> k -> aget k' (snd e1) = aget k' (snd e2)) es1 es2.

(** same nodes; edges with the same end points in the same order, well-formed dictionaries that agree off [k] *)
Definition agree_off_edge (k : N) (g1 g2 : rgraph) : Prop :=
  gnodes g1 = gnodes g2 /\ edges_agree k (gedges g1) (gedges g2).

Definition step_off_edge (k : N) (s : hstep) : Prop :=
  match s with
  | HEdit _ (EAddEdge _ _ d) => dict_ok d
  | HEdit _ _ => True
  | HSearch _ _ ea _ => ~ In k ea
  | HMutateResult => True
  end.

Lemma edges_agree_map k a b (f : rattrs -> rattrs) es1 es2 :
  (forall d1 d2, dict_ok d1 -> dict_ok d2 -> (forall k', k' <> k -> aget k' d1 = aget k' d2) ->
     dict_ok (f d1) /\ dict_ok (f d2) /\ forall k', k' <> k -> aget k' (f d1) = aget k' (f d2)) ->
  edges_agree k es1 es2 ->
  edges_agree k (map (fun e => let '(x, y, d) := e in if joins a b x y then (x, y, f d) else e) es1)
                (map (fun e => let '(x, y, d) := e in if joins a b x y then (x, y, f d) else e) es2).
Proof.
  intros Hf Ha. induction Ha as [|[[x1 y1] d1] [[x2 y2] d2] l1 l2 (E1 & E2 & O1 & O2 & D) _ IH]; simpl; [constructor|].
  simpl in E1, E2, O1, O2, D. subst x2 y2. constructor; [|exact IH].
  destruct (joins a b x1 y1); simpl.
  - destruct (Hf d1 d2 O1 O2 D) as (A & B & C). repeat split; assumption.
  - repeat split; assumption.
Qed.

Lemma edges_agree_filter k (q : N -> N -> bool) es1 es2 : edges_agree k es1 es2 ->
  edges_agree k (filter (fun e => let '(x, y, _) := e in q x y) es1) (filter (fun e => let '(x, y, _) := e in q x y) es2).
Proof.
  intros Ha. induction Ha as [|[[x1 y1] d1] [[x2 y2] d2] l1 l2 (E1 & E2 & O1 & O2 & D) _ IH]; simpl; [constructor|].
  simpl in E1, E2. subst x2 y2. destruct (q x1 y1); [constructor; [repeat split; assumption|exact IH]|exact IH].
Qed.

Lemma edges_agree_find k a b es1 es2 : edges_agree k es1 es2 ->
  match find_edge a b es1, find_edge a b es2 with Some _, Some _ | None, None => True | _, _ => False end.
Proof.
  intros Ha. induction Ha as [|[[x1 y1] d1] [[x2 y2] d2] l1 l2 (E1 & E2 & _) _ IH]; simpl; [exact Logic.I|].
  simpl in E1, E2. subst x2 y2.
  destruct ((N.eqb x1 a && N.eqb y1 b) || (N.eqb x1 b && N.eqb y1 a)); [exact Logic.I|exact IH].
Qed.

Lemma agree_off_edge_edit k e side g1 g2 : step_off_edge k (HEdit side e) -> agree_off_edge k g1 g2 ->
  agree_off_edge k (apply_edit e g1) (apply_edit e g2).
Proof.
  intros Hs [En Ee]. unfold agree_off_edge.
  destruct e as [u k0 v n|u k0|a b k0 v|a b d|a b|u l|u]; cbn [apply_edit map_node map_edge gnodes gedges].
  - rewrite En. split; [reflexivity|exact Ee].
  - rewrite En. split; [reflexivity|exact Ee].
  - split; [exact En|]. apply edges_agree_map; [|exact Ee]. intros d1 d2 O1 O2 D.
    split; [apply dict_set_ok; exact O1|split; [apply dict_set_ok; exact O2|]].
    intros k' Hk'. destruct (N.eq_dec k' k0) as [->|Hne].
    + rewrite !aget_dict_set_same. reflexivity.
    + rewrite !aget_dict_set_other by exact Hne. exact (D k' Hk').
  - pose proof (edges_agree_find k a b _ _ Ee) as Hf.
    destruct (find_edge a b (gedges g1)), (find_edge a b (gedges g2)); try destruct Hf; cbn [map_edge gnodes gedges].
    + split; [exact En|]. apply edges_agree_map; [|exact Ee]. intros d1 d2 O1 O2 D.
      exact (dict_update_agree k d d1 d2 O1 O2 D).
    + rewrite En. split; [reflexivity|]. apply Forall2_app; [exact Ee|]. constructor; [|constructor].
      simpl in Hs. repeat split; try exact Hs.
  - split; [exact En|]. exact (edges_agree_filter k (fun x y => negb (joins a b x y)) _ _ Ee).
  - unfold node_ids. rewrite En. destruct (LGraph.mem u (map fst (gnodes g2))); cbn [map_node gnodes gedges]; rewrite ?En.
    + split; [reflexivity|exact Ee].
    + split; [reflexivity|exact Ee].
  - rewrite En. split; [reflexivity|].
    exact (edges_agree_filter k (fun x y => negb (N.eqb x u) && negb (N.eqb y u)) _ _ Ee).
Qed.

Lemma project_agree_edge na ea k g1 g2 : ~ In k ea -> agree_off_edge k g1 g2 -> project na ea g1 = project na ea g2.
Proof.
  intros Hn [En Ee]. unfold project. rewrite En. f_equal.
  induction Ee as [|[[x1 y1] d1] [[x2 y2] d2] l1 l2 (E1 & E2 & _ & _ & D) _ IH]; simpl; [reflexivity|].
  simpl in E1, E2, D. subst x2 y2. rewrite IH. f_equal. f_equal. unfold proj_e.
  apply map_ext_in. intros k' Hin. apply D. intros ->. exact (Hn Hin).
Qed.

Theorem hist_noninterference_edge k : forall steps (H1 H2 P1 P2 : rgraph),
  agree_off_edge k H1 H2 -> agree_off_edge k P1 P2 -> Forall (step_off_edge k) steps ->
  run_hist H1 P1 steps = run_hist H2 P2 steps.
Proof.
  induction steps as [|s r IH]; intros H1 H2 P1 P2 AH AP Hs; [reflexivity|].
  inversion Hs as [|? ? Hs0 Hr]; subst.
  destruct s as [side e|swap na ea c|]; cbn [run_hist].
  - destruct side.
    + apply IH; [exact (agree_off_edge_edit k e true _ _ Hs0 AH)|exact AP|exact Hr].
    + apply IH; [exact AH|exact (agree_off_edge_edit k e false _ _ Hs0 AP)|exact Hr].
  - simpl in Hs0. rewrite (IH H1 H2 P1 P2 AH AP Hr). f_equal.
    destruct swap; apply run_tr_set_reads_projection; symmetry; apply (project_agree_edge na ea k); assumption.
  - apply IH; assumption.
Qed.

(** the instance: [g[a][b][k] = v] on a state with well-formed edge dictionaries is never seen by a script in
    which no search selects [k] among the edge attributes *)
Definition edges_ok (g : rgraph) : Prop := Forall (fun e : N * N * rattrs => dict_ok (snd e)) (gedges g).

Lemma agree_off_edge_refl k g : edges_ok g -> agree_off_edge k g g.
Proof.
  intros Hs. split; [reflexivity|]. unfold edges_agree, edges_ok in *.
  induction Hs as [|e l He _ IH]; constructor; [|exact IH]. repeat split; try exact He.
Qed.

Lemma agree_off_edge_set k a b v g : edges_ok g -> agree_off_edge k (apply_edit (ESetEdgeAttr a b k v) g) g.
Proof.
  intros Hs. split; [reflexivity|]. cbn [apply_edit map_edge gedges]. unfold edges_agree, edges_ok in *.
  induction Hs as [|[[x y] d] l He _ IH]; simpl; constructor; [|exact IH]. simpl in He.
  destruct (joins a b x y); simpl; repeat split; try exact He; try (apply dict_set_ok; exact He).
  intros k' Hk'. apply aget_dict_set_other. exact Hk'.
Qed.

Theorem hist_edge_edit_never_seen k a b v host_side (H P : rgraph) steps :
  edges_ok H -> edges_ok P -> Forall (step_off_edge k) steps ->
  run_hist H P (HEdit host_side (ESetEdgeAttr a b k v) :: steps) = run_hist H P steps.
Proof.
  intros SH SP Hs. destruct host_side; cbn [run_hist].
  - apply (hist_noninterference_edge k); [apply agree_off_edge_set; exact SH|apply agree_off_edge_refl; exact SP|exact Hs].
  - apply (hist_noninterference_edge k); [apply agree_off_edge_refl; exact SH|apply agree_off_edge_set; exact SP|exact Hs].
Qed.

(** non-vacuity: the script of proof/C06_HistFrame.v preceded by an edit of the unselected edge name 8 *)
Local Open Scope N_scope.
Example ex_hist_edge_never_seen :
  run_hist Hh Ph (HEdit true (ESetEdgeAttr 0 1 8 5) :: script7) = run_hist Hh Ph script7 /\
  run_hist Hh Ph (HEdit true (ESetEdgeAttr 0 1 3 5) :: script7) <> run_hist Hh Ph script7.
Proof.
  split.
  - apply (hist_edge_edit_never_seen 8 0 1 5 true Hh Ph script7).
    + unfold edges_ok, dict_ok. repeat constructor; simpl; intuition.
    + unfold edges_ok, dict_ok. repeat constructor; simpl; intuition.
    + unfold script7, dict_ok. repeat constructor; simpl; intuition; discriminate.
  - vm_compute. discriminate.
Qed.
