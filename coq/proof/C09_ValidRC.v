(** C09 — the validator's RC method accepts every renumbering as the parser delivers it: node ids renamed,
    atoms listed in any order, atom_map attributes rewritten.  (The atom_map copied into the ITS / centre nodes is
    not compared by node_match; get_rc itself never reads it.) *)
From Coq Require Import List NArith ZArith Bool Arith Lia Permutation.
From SK Require Import lib.LGraph lib.C01_GraphLemmas model.C01_Model model.C02_Model model.C09_Model
  proof.C01_Proof proof.C02_Proof proof.C09_Lists proof.C09_Valid proof.C09_Canon proof.C09_Equiv proof.C09_Main.
Import ListNotations.

(** forget the atom_map of an ITS node *)
Definition er (a : inode) : inode := IN (i_el a) (i_ch a) 0 (i_extra a) (i_G a) (i_H a).
Definition ern (ns : list (N * inode)) : list (N * inode) := map (fun p => (fst p, er (snd p))) ns.
Definition Emap (g : its) : its := LG (ern (gnodes g)) (gedges g).
(** same bonds, same atoms up to atom_map *)
Definition amap_eq (g g' : its) : Prop :=
  gedges g = gedges g' /\ forall n, option_map er (label g n) = option_map er (label g' n).

Lemma assoc_ern n ns : assoc n (ern ns) = option_map er (assoc n ns).
Proof. unfold ern. apply (assoc_map_val (fun _ a => er a)). Qed.
Lemma er_rc_attr a : er (rc_attr a) = IN (i_el a) (i_ch a) 0 None (i_G a) (i_H a).
Proof. reflexivity. Qed.

Section RcExt.
Variables g g' : its.
Hypothesis HE : amap_eq g g'.

Lemma is_h_ext u : is_h g u = is_h g' u.
Proof.
  destruct HE as (_ & HL). specialize (HL u). unfold is_h.
  destruct (label g u) as [a|], (label g' u) as [a'|]; simpl in HL; try discriminate; [|reflexivity].
  inversion HL. congruence.
Qed.
Lemma is_hh_ext u v : is_hh g u v = is_hh g' u v.
Proof. unfold is_hh. rewrite !is_h_ext. reflexivity. Qed.

Lemma ensure_ext n ns ns' : ern ns = ern ns' -> ern (ensure_node g n ns) = ern (ensure_node g' n ns').
Proof.
  intros En. unfold ensure_node, has_key.
  assert (Ek : option_map er (assoc n ns) = option_map er (assoc n ns')) by (rewrite <- !assoc_ern, En; reflexivity).
  destruct (assoc n ns) as [x|], (assoc n ns') as [x'|]; simpl in Ek; try discriminate; [exact En|].
  destruct HE as (_ & HL). specialize (HL n).
  destruct (label g n) as [a|], (label g' n) as [a'|]; simpl in HL; try discriminate; [|exact En].
  unfold ern in *. rewrite !map_app, En. simpl. f_equal. f_equal. f_equal. rewrite !er_rc_attr. inversion HL. congruence.
Qed.

Definition est (st : rc_state) : rc_state := (ern (fst st), snd st).
Lemma step_changed_ext st st' e : est st = est st' -> est (step_changed g st e) = est (step_changed g' st' e).
Proof.
  intros Es. destruct e as [[u v] x]. unfold step_changed. destruct (changed x); [|exact Es].
  assert (E1 : ern (fst st) = ern (fst st')) by (apply (f_equal fst) in Es; exact Es).
  assert (E2 : snd st = snd st') by (apply (f_equal snd) in Es; exact Es).
  unfold est. simpl. rewrite E2. f_equal. apply ensure_ext. apply ensure_ext. exact E1.
Qed.
Lemma step_hh_ext st st' e : est st = est st' -> est (step_hh g st e) = est (step_hh g' st' e).
Proof.
  intros Es. destruct e as [[u v] x]. unfold step_hh. rewrite is_hh_ext. destruct (is_hh g' u v); [|exact Es].
  assert (E1 : ern (fst st) = ern (fst st')) by (apply (f_equal fst) in Es; exact Es).
  assert (E2 : snd st = snd st') by (apply (f_equal snd) in Es; exact Es).
  unfold est. simpl. rewrite E2. f_equal. apply ensure_ext. apply ensure_ext. exact E1.
Qed.
Lemma fold_ext (s1 : rc_state -> N * N * iedge -> rc_state) s2 L :
  (forall st st' e, est st = est st' -> est (s1 st e) = est (s2 st' e)) ->
  forall st st', est st = est st' -> est (fold_left s1 L st) = est (fold_left s2 L st').
Proof. intros Hs. induction L as [|e L IH]; intros st st' Es; simpl; [exact Es|]. apply IH. apply Hs. exact Es. Qed.

Theorem rc_amap_ext : Emap (get_rc g) = Emap (get_rc g').
Proof.
  unfold get_rc. cbv zeta. destruct HE as (Eg & _). rewrite <- Eg.
  assert (E : est (fold_left (step_hh g) (gedges g) (fold_left (step_changed g) (gedges g) ([], []))) =
              est (fold_left (step_hh g') (gedges g) (fold_left (step_changed g') (gedges g) ([], [])))).
  { apply fold_ext; [apply step_hh_ext|]. apply fold_ext; [apply step_changed_ext|]. reflexivity. }
  pose proof (f_equal fst E) as E1. pose proof (f_equal snd E) as E2. unfold est in E1, E2. simpl in E1, E2.
  unfold Emap. simpl. f_equal; assumption.
Qed.
End RcExt.

(** isomorphism does not look at the atom_map *)
Lemma lbl_Emap g n : lbl (Emap g) n = er (lbl g n).
Proof. unfold lbl, label, Emap. simpl. rewrite assoc_ern. destruct (assoc n (gnodes g)); reflexivity. Qed.
Lemma node_match_er a b : node_match (er a) b = node_match a b.
Proof. reflexivity. Qed.
Lemma its_emb_Emap g1 g1' g2 f : Emap g1 = Emap g1' -> its_emb g1 g2 f -> its_emb g1' g2 f.
Proof.
  intros E (A & B & C).
  assert (Hn : node_ids g1 = node_ids g1').
  { apply (f_equal (fun g : its => node_ids g)) in E. unfold node_ids, Emap, ern in E. simpl in E. rewrite !map_map in E. exact E. }
  assert (He : gedges g1 = gedges g1') by (apply (f_equal (fun g : its => gedges g)) in E; exact E).
  assert (Hl : forall n x, node_match (lbl g1 n) x = node_match (lbl g1' n) x).
  { intros n x. rewrite <- (node_match_er (lbl g1 n)), <- (node_match_er (lbl g1' n)), <- !lbl_Emap, E. reflexivity. }
  split; [|split; [exact B|]].
  - intros u Iu. destruct (A u Iu) as (A1 & A2). rewrite <- Hn, <- Hl. auto.
  - intros u v Iu Iv Hne. specialize (C u v Iu Iv Hne). unfold adj in *. rewrite <- He. exact C.
Qed.
Lemma its_isomorphic_Emap g1 g1' g2 : Emap g1 = Emap g1' -> its_isomorphic g1 g2 -> its_isomorphic g1' g2.
Proof.
  intros E (L1 & L2 & f & Hf). split; [|split; [|exists f; eapply its_emb_Emap; eauto]].
  - apply (f_equal (fun g : its => length (gnodes g))) in E. unfold Emap, ern in E. simpl in E. rewrite !map_length in E. congruence.
  - apply (f_equal (fun g : its => length (gedges g))) in E. simpl in E. congruence.
Qed.

(* ------------------------------------------------------------------ the ITS of a renumbered, re-ordered, re-mapped pair *)
Lemma side_tuple_of_label (X X' : mgraph) n :
  option_map tuple_of (label X n) = option_map tuple_of (label X' n) -> side_tuple X n = side_tuple X' n.
Proof. unfold side_tuple. destruct (label X n), (label X' n); simpl; intros E; try discriminate; [inversion E; congruence|reflexivity]. Qed.

Lemma its_label_er (X Y X' Y' : mgraph) n :
  base_is_G X Y = base_is_G X' Y' ->
  option_map tuple_of (label X n) = option_map tuple_of (label X' n) ->
  option_map tuple_of (label Y n) = option_map tuple_of (label Y' n) ->
  option_map er (label (its_construct X Y) n) = option_map er (label (its_construct X' Y') n).
Proof.
  intros Eb Ex Ey. pose proof (side_tuple_of_label X X' n Ex) as Sx. pose proof (side_tuple_of_label Y Y' n Ey) as Sy.
  assert (En : forall m m', er (its_node X Y n m) = er (its_node X' Y' n m')).
  { intros m m'. unfold its_node, er. simpl. rewrite Sx, Sy. reflexivity. }
  rewrite !its_label. unfold its_base, its_other. rewrite Eb.
  destruct (base_is_G X' Y');
    destruct (label X n), (label X' n); simpl in Ex; try discriminate;
    destruct (label Y n), (label Y' n); simpl in Ey; try discriminate; simpl; try reflexivity; f_equal; apply En.
Qed.

Lemma label_tuple_rel (f : N -> N) (Hinj : forall a b, f a = f b -> a = b) (G G' : mgraph) n : wf G -> relabelled_by f G G' ->
  option_map tuple_of (label (set_amap G') n) = option_map tuple_of (label (relabel f G) n).
Proof.
  intros WG RG. pose proof (rel_wf f Hinj G G' WG RG) as (Hnd & _). destruct RG as (RP & _).
  unfold label at 1, set_amap. simpl.
  rewrite (assoc_map_val (fun k (a : gnode) => GN (g_el a) (g_arom a) (g_hc a) (g_ch a) (g_nb a) (Z.of_N k)) n (gnodes G')).
  rewrite (assoc_perm (gnodes G') (gnodes (relabel f G)) n Hnd RP). fold (label (relabel f G) n).
  destruct (label (relabel f G) n); reflexivity.
Qed.

Lemma its_amap_eq (f : N -> N) (G H G' H' : mgraph) : (forall a b, f a = f b -> a = b) -> wf G -> wf H ->
  relabelled_by f G G' -> relabelled_by f H H' ->
  amap_eq (its_construct (set_amap G') (set_amap H')) (its_construct (relabel f G) (relabel f H)).
Proof.
  intros Hinj WG WH RG RH. split.
  - rewrite !gedges_its. unfold its_edges, order_in, absent_in, adj. destruct RG as (_ & REG). destruct RH as (_ & REH).
    change (gedges (set_amap G')) with (gedges G'). change (gedges (set_amap H')) with (gedges H'). rewrite REG, REH. reflexivity.
  - intros n. apply its_label_er.
    + unfold base_is_G. destruct RG as (RPG & _). destruct RH as (RPH & _).
      assert (L1 : length (gnodes (set_amap G')) = length (gnodes (relabel f G))) by (unfold set_amap; simpl; rewrite map_length; apply Permutation_length; exact RPG).
      assert (L2 : length (gnodes (set_amap H')) = length (gnodes (relabel f H))) by (unfold set_amap; simpl; rewrite map_length; apply Permutation_length; exact RPH).
      rewrite L1, L2. reflexivity.
    + apply label_tuple_rel; auto.
    + apply label_tuple_rel; auto.
Qed.

(** RC method: every renumbering, as parsed from the renumbered string, is accepted *)
Theorem validator_renumbering_rc (f : N -> N) (G H G' H' : mgraph) : (forall a b, f a = f b -> a = b) -> wf G -> wf H ->
  relabelled_by f G G' -> relabelled_by f H H' -> smiles_check_rc (set_amap G') (set_amap H') G H = true.
Proof.
  intros Hinj WG WH RG RH. apply (validator_exact (set_amap G') (set_amap H') G H WG WH).
  apply (its_isomorphic_Emap (get_rc (its_construct (relabel f G) (relabel f H)))).
  - symmetry. apply rc_amap_ext. apply (its_amap_eq f); auto.
  - rewrite (construct_equivariant f Hinj), (rc_equivariant f Hinj). apply relabel_isomorphic. exact Hinj.
Qed.

(** non-vacuity: renumbered, re-ordered, atom_map rewritten *)
Definition ex_G' : mgraph :=
  LG [(4%N, GN 82%N false 1 (-1) None 4); (5%N, GN 70%N false 3 0 None 5); (6%N, GN 17013%N false 0 0 None 6)] [(5%N, 6%N, 2%Z)].
Definition ex_H' : mgraph :=
  LG [(6%N, GN 17013%N false 0 (-1) None 6); (5%N, GN 70%N false 3 0 None 5); (4%N, GN 82%N false 1 0 None 4)] [(5%N, 4%N, 2%Z)].
Example ex_rc_renumbered : smiles_check_rc ex_G' ex_H' ex_G ex_H = true /\ smiles_check_its ex_G' ex_H' ex_G ex_H = true.
Proof. vm_compute. auto. Qed.
