(** C11 (round 5) — deduplicate_matches_by_automorphisms with a SUBSET of the rule symmetries (docstring: "Any subset of the
    automorphism group is safe; a smaller subset only prunes less").  For a duplicate-free list of matches on the rule
    centre: whatever the full group keeps, every subset keeps too, and every match is still related to a kept one by a
    symmetry of the full group.  Stdlib lists. *)
From Coq Require Import List NArith ZArith Bool Arith Lia.
From SK Require Import lib.Tok lib.LGraph lib.Mono model.C11_Model proof.C11_Aut proof.C11_Dedup proof.C11_Main proof.C11_PruneClass.
Import ListNotations.

Section Sub.
Variable X : Type.
Variable key : X -> mapping.
Variable A' : list mapping.

(** an element that no earlier element (nor a previously kept one) is related to is kept - no transitivity needed *)
Lemma go_kept xs : forall seen ys, seen_ok X key A' seen ys ->
  forall x, In x xs ->
    (forall y, (In y ys \/ exists l1 l2, xs = l1 ++ x :: l2 /\ In y l1) -> ~ rel1 A' (key x) (key y)) ->
    In x (dedup_aut_go key A' xs seen).
Proof.
  induction xs as [|h r IH]; intros seen ys Hok x Hx Hfree; [destruct Hx|]. simpl.
  destruct (existsb (set_eqb (key h)) seen) eqn:Eh.
  - destruct Hx as [<-|Hx].
    + exfalso. apply (Hok (key h)) in Eh. destruct Eh as (y & Hy & R). exact (Hfree y (or_introl Hy) R).
    + apply (IH seen ys Hok x Hx). intros y [Hy|(l1 & l2 & E & Hy)]; apply Hfree; [left; exact Hy|].
      right. exists (h :: l1), l2. split; [rewrite E; reflexivity | right; exact Hy].
  - destruct Hx as [<-|Hx]; [left; reflexivity|]. right.
    apply (IH _ (h :: ys) (seen_ok_step X key A' seen ys h Hok) x Hx).
    intros y [[<-|Hy]|(l1 & l2 & E & Hy)]; apply Hfree.
    + right. destruct (in_split _ _ Hx) as (l1 & l2 & E). exists (h :: l1), l2. split; [rewrite E; reflexivity | left; reflexivity].
    + left. exact Hy.
    + right. exists (h :: l1), l2. split; [rewrite E; reflexivity | right; exact Hy].
Qed.
End Sub.

Theorem dedup_subset_safe (X : Type) (key : X -> mapping) (rc : graph) (raw : list X) (A' : list mapping) :
  simple_graph rc -> NoDup raw -> (forall x, In x raw -> on_nodes rc (key x)) ->
  (forall s, In s A' -> In s (rule_auts rc)) ->
  (forall x, In x (dedup_aut key (rule_auts rc) raw) -> In x (dedup_aut key A' raw)) /\
  (forall x, In x raw -> exists y, In y (dedup_aut key A' raw) /\ rel1 (rule_auts rc) (key x) (key y)).
Proof.
  intros Hg Hnd HD Hsub.
  assert (Hrel : forall m m', rel1 A' m m' -> rel1 (rule_auts rc) m m').
  { intros m m' [E|(s & Hs & E)]; [left; exact E | right; exists s; split; [apply Hsub; exact Hs | exact E]]. }
  split.
  - intros x Hx.
    apply (dedup_aut_first X key (rule_auts rc) (on_nodes rc) (rel1_rule_trans rc Hg) raw Hnd HD x) in Hx.
    destruct Hx as (Hin & Hfirst). unfold dedup_aut.
    apply (go_kept X key A' raw [] []); [| exact Hin |].
    + intros m. simpl. split; [discriminate | intros (y & [] & _)].
    + intros y [[]|(l1 & l2 & E & Hy)] R. exact (Hfirst l1 l2 E y Hy (Hrel _ _ R)).
  - intros x Hx. destruct (dedup_aut_complete X key A' raw x Hx) as (y & Hy & [E | [E | (s & Hs & E)]]).
    + exists y. split; [exact Hy|]. subst y. left. apply set_eqb_refl.
    + exists y. split; [exact Hy|]. left. exact E.
    + exists y. split; [exact Hy|]. right. exists s. split; [apply Hsub; exact Hs | exact E].
Qed.

(** non-vacuity: three matches on the path 1-2-3 (mirror symmetric): the full group drops the mirror image of the first
    match, the empty subset drops nothing; what the full group keeps is kept by the subset *)
Example ex_subset :
  dedup_aut (fun m : mapping => m) (rule_auts ex_path) ex_raw = [[(1, 7); (2, 8); (3, 9)]; [(1, 7); (2, 8); (3, 6)]]%N /\
  dedup_aut (fun m : mapping => m) [] ex_raw = ex_raw /\ length ex_raw = 3%nat.
Proof. vm_compute. repeat split. Qed.
