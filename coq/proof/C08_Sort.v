(** C08 — facts about the model's stable insertion sort [sort_by] and the relabelling tables. *)
From Coq Require Import List NArith ZArith Bool Arith Lia Permutation.
From SK Require Import lib.LGraph lib.IRSortKeys model.C08_Model.
From SK Require lib.IRInst.
Import ListNotations.

Lemma lexleb_refl a : lexleb a a = true.
Proof. destruct (IRInst.lexleb_total a a); auto. Qed.

Section SortBy.
Context {A : Type} (key : A -> list Z).

Lemma insert_by_perm x l : Permutation (insert_by key x l) (x :: l).
Proof.
  induction l as [|y r IH]; simpl; auto.
  destruct (lexleb (key x) (key y)); auto.
  eapply perm_trans; [apply perm_skip; exact IH|apply perm_swap].
Qed.
Lemma sort_by_perm l : Permutation (sort_by key l) l.
Proof.
  induction l as [|x l IH]; simpl; auto.
  eapply perm_trans; [apply insert_by_perm|]. auto.
Qed.
Lemma sort_by_in l x : In x (sort_by key l) <-> In x l.
Proof. split; apply Permutation_in; [|apply Permutation_sym]; apply sort_by_perm. Qed.
Lemma sort_by_length l : length (sort_by key l) = length l.
Proof. apply Permutation_length, sort_by_perm. Qed.

(* sortedness w.r.t. the key order *)
Inductive ksorted : list A -> Prop :=
| ks_nil : ksorted []
| ks_cons x l : ksorted l -> (forall y, In y l -> lexleb (key x) (key y) = true) -> ksorted (x :: l).

Lemma insert_by_sorted x l : ksorted l -> ksorted (insert_by key x l).
Proof.
  induction 1 as [|y r Hs IH Hy]; simpl.
  - constructor; [constructor|intros ? []].
  - destruct (lexleb (key x) (key y)) eqn:E.
    + constructor; [constructor; auto|].
      intros z [<-|Hz]; auto. eapply IRInst.lexleb_trans; [exact E|auto].
    + constructor; auto. intros z Hz. apply (Permutation_in _ (insert_by_perm x r)) in Hz.
      destruct Hz as [<-|Hz]; auto.
      destruct (IRInst.lexleb_total (key x) (key y)); congruence.
Qed.
Lemma sort_by_sorted l : ksorted (sort_by key l).
Proof. induction l; simpl; [constructor|apply insert_by_sorted; auto]. Qed.

(* two sorted lists with the same elements and pairwise distinct keys are equal *)
Lemma ksorted_unique l : ksorted l -> forall l', ksorted l' -> Permutation l l' ->
  (forall x y, In x l -> In y l -> key x = key y -> x = y) -> l = l'.
Proof.
  induction 1 as [|x l Hs IH Hx]; intros l' Hs' Hp Hinj.
  - apply Permutation_nil in Hp. auto.
  - destruct Hs' as [|z l' Hs' Hz]; [apply Permutation_sym, Permutation_nil in Hp; discriminate|].
    assert (x = z).
    { assert (Ix : In x (z :: l')) by (apply (Permutation_in _ Hp); left; auto).
      assert (Iz : In z (x :: l)) by (apply (Permutation_in _ (Permutation_sym Hp)); left; auto).
      destruct Ix as [E|Ix]; auto. destruct Iz as [E|Iz]; auto.
      apply Hinj; [left; auto|right; auto|].
      apply IRInst.lexleb_antisym; auto. }
    subst z. f_equal. apply IH; auto.
    + eapply Permutation_cons_inv; eauto.
    + intros; apply Hinj; auto; right; auto.
Qed.

Theorem sort_by_perm_eq l l' : Permutation l l' ->
  (forall x y, In x l -> In y l -> key x = key y -> x = y) -> sort_by key l = sort_by key l'.
Proof.
  intros Hp Hinj. apply ksorted_unique; try apply sort_by_sorted.
  - eapply perm_trans; [apply sort_by_perm|]. eapply perm_trans; [exact Hp|]. apply Permutation_sym, sort_by_perm.
  - intros x y Hx Hy. apply Hinj; apply sort_by_in; auto.
Qed.
End SortBy.

Lemma sort_by_map {A B} (f : A -> B) (key : B -> list Z) (l : list A) :
  sort_by key (map f l) = map f (sort_by (fun x => key (f x)) l).
Proof.
  induction l as [|x l IH]; simpl; auto. rewrite IH.
  generalize (sort_by (fun x0 => key (f x0)) l). intros r.
  induction r as [|y r IHr]; simpl; auto.
  destruct (lexleb (key (f x)) (key (f y))); simpl; auto. rewrite IHr. auto.
Qed.

(* ---------------- relabelling tables ---------------- *)
Definition inj_on (f : N -> N) (l : list N) : Prop := forall x y, In x l -> In y l -> f x = f y -> x = y.

Lemma assoc_combine_notin (x : N) (order vals : list N) : ~ In x order -> assoc x (combine order vals) = None.
Proof.
  revert vals. induction order as [|y order IH]; intros [|v vals] H; simpl; auto.
  destruct (N.eqb_spec x y) as [->|Hne]; [exfalso; apply H; left; auto|].
  apply IH. intro I. apply H. right. auto.
Qed.

Lemma map_apply_combine (order : list N) : forall vals : list N, NoDup order -> length vals = length order ->
  map (apply_map (combine order vals)) order = vals.
Proof.
  induction order as [|x order IH]; intros [|v vals] Hnd Hl; simpl in *; try discriminate; auto.
  inversion Hnd as [|? ? Hx Hnd']; subst.
  unfold apply_map at 1. simpl. rewrite N.eqb_refl. f_equal.
  rewrite <- (IH vals Hnd') at 2 by lia.
  apply map_ext_in. intros y Hy. unfold apply_map. simpl.
  destruct (N.eqb_spec y x) as [->|Hne]; [contradiction|reflexivity].
Qed.

Lemma NoDup_map_inj_on f l : NoDup (map f l) -> inj_on f l.
Proof.
  induction l as [|a l IH]; simpl; intros Hnd x y Hx Hy E; [contradiction|].
  inversion Hnd as [|? ? Ha Hnd']; subst.
  destruct Hx as [<-|Hx], Hy as [<-|Hy]; auto.
  - exfalso. apply Ha. rewrite E. apply in_map. auto.
  - exfalso. apply Ha. rewrite <- E. apply in_map. auto.
  - apply IH; auto.
Qed.

Lemma NoDup_targets n : NoDup (map N.of_nat (seq 1 n)).
Proof.
  apply FinFun.Injective_map_NoDup; [|apply seq_NoDup].
  intros a b E. apply Nnat.Nat2N.inj. exact E.
Qed.

Lemma mapping_of_map order : NoDup order ->
  map (apply_map (mapping_of order)) order = map N.of_nat (seq 1 (length order)).
Proof. intros H. apply map_apply_combine; auto. rewrite map_length, seq_length. auto. Qed.

Lemma mapping_of_inj order : NoDup order -> inj_on (apply_map (mapping_of order)) order.
Proof. intros H. apply NoDup_map_inj_on. rewrite mapping_of_map by auto. apply NoDup_targets. Qed.

Lemma inj_on_perm f l l' : Permutation l l' -> inj_on f l -> inj_on f l'.
Proof.
  intros Hp H x y Hx Hy. apply H; eapply Permutation_in; try apply Permutation_sym; eauto.
Qed.
