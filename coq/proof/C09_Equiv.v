(** C09 — the canonical reaction is atom-map-equivalent to the input: the ITS of the canonical graphs is isomorphic
    (typesGH and order pairs, i.e. what AAMValidator compares) to the ITS of the input graphs. *)
From Coq Require Import List NArith ZArith Bool Arith Lia Permutation.
From SK Require Import lib.LGraph lib.C01_GraphLemmas model.C01_Model model.C02_Model model.C09_Model
  proof.C01_Proof proof.C09_Lists proof.C09_Valid proof.C09_Canon.
Import ListNotations.

Lemma assoc_perm {V} (l l' : list (N * V)) k : NoDup (map fst l) -> Permutation l l' -> assoc k l = assoc k l'.
Proof.
  intros Hnd P. assert (Hnd' : NoDup (map fst l')) by (eapply Permutation_NoDup; [apply Permutation_map; exact P|exact Hnd]).
  apply option_ext. intros v. split; intros E; apply assoc_in in E; apply assoc_nodup_in; auto.
  - eapply Permutation_in; eauto.
  - eapply Permutation_in; [apply Permutation_sym; exact P|exact E].
Qed.

Lemma node_ids_set_amap (g : mgraph) : node_ids (set_amap g) = node_ids g.
Proof. unfold node_ids, set_amap. simpl. rewrite map_map. reflexivity. Qed.
Lemma wf_set_amap (g : mgraph) : wf g -> wf (set_amap g).
Proof. intros (A & B & C). split; [|split]; [rewrite node_ids_set_amap; exact A| |exact C]. intros a b x I. rewrite node_ids_set_amap. apply (B a b x I). Qed.
Lemma side_tuple_set_amap (g : mgraph) n : side_tuple (set_amap g) n = side_tuple g n.
Proof.
  unfold side_tuple, label, set_amap. simpl.
  rewrite (assoc_map_val (fun k (a : gnode) => GN (g_el a) (g_arom a) (g_hc a) (g_ch a) (g_nb a) (Z.of_N k)) n (gnodes g)).
  destruct (assoc n (gnodes g)); reflexivity.
Qed.
Lemma adj_set_amap (g : mgraph) u v : adj (set_amap g) u v = adj g u v.
Proof. reflexivity. Qed.

Section Rel.
Variable f : N -> N.
Hypothesis Hinj : forall a b, f a = f b -> a = b.
Variables G Gc : mgraph.
Hypothesis WG : wf G.
Hypothesis RG : relabelled_by f G Gc.

Lemma rel_node_ids n : In n (node_ids Gc) <-> In n (map f (node_ids G)).
Proof.
  destruct RG as (RP & _). rewrite <- (node_ids_relabel f G). unfold node_ids. split; intros I.
  - eapply Permutation_in; [apply Permutation_map; exact RP|exact I].
  - eapply Permutation_in; [apply Permutation_map; apply Permutation_sym; exact RP|exact I].
Qed.
Lemma rel_wf : wf Gc.
Proof.
  destruct RG as (RP & RE). destruct (wf_relabel Hinj WG) as (A & B & C). split; [|split].
  - eapply Permutation_NoDup; [apply Permutation_map; apply Permutation_sym; exact RP|exact A].
  - intros a b x I. rewrite RE in I. destruct (B a b x I) as (I1 & I2 & Hne). split; [|split; [|exact Hne]].
    + apply rel_node_ids. rewrite <- node_ids_relabel. exact I1.
    + apply rel_node_ids. rewrite <- node_ids_relabel. exact I2.
  - rewrite RE. exact C.
Qed.
Lemma rel_label n : label Gc (f n) = label G n.
Proof.
  destruct RG as (RP & _). unfold label. rewrite (assoc_perm (gnodes Gc) (gnodes (relabel f G))); auto.
  - apply (label_relabel Hinj).
  - destruct rel_wf as (A & _). exact A.
Qed.
Lemma rel_side_tuple n : side_tuple Gc (f n) = side_tuple G n.
Proof. unfold side_tuple. rewrite rel_label. reflexivity. Qed.
Lemma rel_adj u v : adj Gc (f u) (f v) = adj G u v.
Proof. destruct RG as (_ & RE). unfold adj. rewrite RE. apply (adj_relabel Hinj). Qed.
End Rel.

Lemma relabelled_exact f G : relabelled_by f G (relabel f G).
Proof. split; [apply Permutation_refl|reflexivity]. Qed.

Lemma length_filter_map {X Y} (g : X -> Y) (p : Y -> bool) (q : X -> bool) l :
  (forall x, In x l -> p (g x) = q x) -> length (filter p (map g l)) = length (filter q l).
Proof.
  induction l as [|x l IH]; simpl; intros Hx; [reflexivity|]. rewrite (Hx x (or_introl eq_refl)).
  destruct (q x); simpl; rewrite IH; auto.
Qed.

(** the ITS of two graphs relabelled by the same injective map (node lists possibly permuted, atom_map attributes
    rewritten) is isomorphic to the ITS of the originals *)
Theorem its_relabelled_isomorphic (f : N -> N) (G H Gc Hc : mgraph) :
  (forall a b, f a = f b -> a = b) -> wf G -> wf H -> relabelled_by f G Gc -> relabelled_by f H Hc ->
  its_isomorphic (its_construct (set_amap Gc) (set_amap Hc)) (its_construct G H).
Proof.
  intros Hinj WG WH RG RH.
  assert (WGc : wf (set_amap Gc)) by (apply wf_set_amap; apply (rel_wf f Hinj G Gc WG RG)).
  assert (WHc : wf (set_amap Hc)) by (apply wf_set_amap; apply (rel_wf f Hinj H Hc WH RH)).
  destruct (union G H WG WH) as (U1 & U2 & U3 & _ & WI).
  destruct (union (set_amap Gc) (set_amap Hc) WGc WHc) as (V1 & V2 & V3 & _ & WI').
  assert (Hmem : forall x, In x (node_ids (its_construct (set_amap Gc) (set_amap Hc))) <-> In x (map f (node_ids (its_construct G H)))).
  { intros x. rewrite V1, !node_ids_set_amap, (rel_node_ids f G Gc RG), (rel_node_ids f H Hc RH), !in_map_iff. split.
    - intros [(n & <- & I)|(n & <- & I)]; exists n; (split; [reflexivity|]); apply U1; auto.
    - intros (n & <- & I). apply U1 in I. destruct I as [I|I]; [left|right]; exists n; auto. }
  assert (Hadj : forall u v, adj (its_construct (set_amap Gc) (set_amap Hc)) (f u) (f v) = adj (its_construct G H) u v).
  { intros u v. apply option_ext. intros [a b s]. rewrite U3, V3. unfold order_in.
    rewrite !adj_set_amap, (rel_adj f Hinj G Gc RG), (rel_adj f Hinj H Hc RH). reflexivity. }
  split; [|split].
  - (* nodes *)
    assert (P : Permutation (node_ids (its_construct (set_amap Gc) (set_amap Hc))) (map f (node_ids (its_construct G H)))).
    { apply NoDup_Permutation; [destruct WI' as (A & _); exact A| |exact Hmem].
      apply FinFun.Injective_map_NoDup; [exact Hinj|destruct WI as (A & _); exact A]. }
    apply Permutation_length in P. unfold node_ids in P. rewrite !map_length in P. exact P.
  - (* edges *)
    rewrite !gedges_its. unfold its_edges. rewrite !app_length, !map_length. f_equal.
    + destruct RG as (_ & RE). unfold set_amap. simpl. rewrite RE. unfold relabel. simpl. apply map_length.
    + destruct RH as (_ & RE). unfold set_amap at 2. simpl. rewrite RE. unfold relabel. simpl.
      apply length_filter_map. intros [[a b] x] _. unfold absent_in. rewrite adj_set_amap, (rel_adj f Hinj G Gc RG). reflexivity.
  - exists f. split; [|split].
    + intros u Iu. split; [apply Hmem; apply in_map; exact Iu|].
      assert (Iu' : In (f u) (node_ids (its_construct (set_amap Gc) (set_amap Hc)))) by (apply Hmem; apply in_map; exact Iu).
      destruct (node_label_some Iu) as (a & Ea). destruct (node_label_some Iu') as (a' & Ea').
      unfold lbl. rewrite Ea, Ea'. destruct (U2 u a Ea) as (E1 & E2). destruct (V2 (f u) a' Ea') as (E1' & E2').
      unfold node_match. rewrite E1, E2, E1', E2', !side_tuple_set_amap.
      rewrite (rel_side_tuple f Hinj G Gc WG RG), (rel_side_tuple f Hinj H Hc WH RH), !nattr_eqb_refl. reflexivity.
    + intros u v _ _ E. apply Hinj. exact E.
    + intros u v _ _ _. rewrite Hadj. destruct (adj (its_construct G H) u v); auto. apply edge_match_refl.
Qed.
