(** C20 — call histories on one PathwayRealizability object: the object's state after ANY sequence of
    is_realizable / is_scaled_realizable / certificate / build / reload calls is the state of a fresh
    object (history independence), and a stored certificate is always a certificate of the flow that
    is loaded at that moment. *)
From Coq Require Import ZArith NArith List Lia.
Import ListNotations.
From SK Require Import model.C20_Model proof.C20_Spec proof.C20_Build proof.C20_Main.
Local Open Scope nat_scope.

(** ** Specification side: what a history means, read off the list of calls alone *)

(** the flow that is loaded after the calls [ops] (initially [fl]) *)
Fixpoint last_flow (fl : list Z) (ops : list pr_op) : list Z :=
  match ops with
  | [] => fl
  | OpLoad f :: ops' => last_flow f ops'
  | _ :: ops' => last_flow fl ops'
  end.

(** is a net built after the calls [ops] (initially [b])?  A reload clears it; an explicit build and a
    scaled search leave one behind; the other calls do not touch it. *)
Fixpoint built_after (b : bool) (ops : list pr_op) : bool :=
  match ops with
  | [] => b
  | OpLoad _ :: ops' => built_after false ops'
  | OpBuild :: ops' => built_after true ops'
  | OpScaled _ :: ops' => built_after true ops'
  | OpBorrow _ :: ops' => built_after true ops'
  | _ :: ops' => built_after b ops'
  end.

(** does the certificate field stem from a plain search (or is it empty)?  is_borrow_realizable leaves the sequence of its
    last search — found with borrowed tokens in both markings — behind; every other writer overwrites or clears it. *)
Fixpoint cert_plain (b : bool) (ops : list pr_op) : bool :=
  match ops with
  | [] => b
  | OpBorrow _ :: ops' => cert_plain false ops'
  | OpCert :: ops' => cert_plain b ops'
  | _ :: ops' => cert_plain true ops'
  end.

(** a fresh object: loaded with [fl], and built when [b] *)
Definition fresh (cf : pr_config) (V : list N) (E : list edge) (fl : list Z) (b : bool) : pr_state :=
  if b then do_build V E (pr_loaded fl) else pr_loaded fl.

(** the certificate field is empty or holds a sequence found by a search on the net of the loaded flow *)
Definition cert_of_flow (cf : pr_config) (V : list N) (E : list edge) (fl : list Z) (c : option (list N)) : Prop :=
  forall s, c = Some s ->
  exists ms md, bo_verdict (is_realizable (build_petri_net_from_flow V E fl) ms md) = Found s.

(** state = fresh object up to the certificate field *)
Definition like_fresh (cf : pr_config) (V : list N) (E : list edge) (fl : list Z) (b cp : bool) (st : pr_state) : Prop :=
  pr_flow st = fl /\ pr_built st = pr_built (fresh cf V E fl b) /\ (cp = true -> cert_of_flow cf V E fl (pr_cert st)) /\
  (cp = false -> b = true).        (* a borrow leaves a built object behind; only a reload un-builds, and it clears the field *)

(** ** The scaled search leaves exactly the fresh built state, whatever state it starts from *)

Lemma scaled_loop_state cf V E saved n : forall st k,
  fst (scaled_loop cf V E saved st k n) = fresh cf V E saved true.
Proof.
  induction n as [|n IH]; intros st k; simpl.
  - reflexivity.
  - unfold do_real, do_build, set_flow; simpl.
    destruct (bo_verdict (is_realizable _ (cfg_states cf) (cfg_depth cf))); simpl; try apply IH.
    reflexivity.
Qed.

(** … and its answer does not depend on the state it starts from *)
Lemma scaled_loop_ans cf V E saved n : forall st st' k,
  snd (scaled_loop cf V E saved st k n) = snd (scaled_loop cf V E saved st' k n).
Proof.
  induction n as [|n IH]; intros st st' k; simpl.
  - reflexivity.
  - unfold do_real, do_build, set_flow; simpl.
    destruct (bo_verdict (is_realizable _ (cfg_states cf) (cfg_depth cf))); simpl; try apply IH.
    reflexivity.
Qed.

(** ** The borrow search: flow untouched, net rebuilt from the flow, the SAVED markings put back *)

Lemma do_build_flow (cf : pr_config) V E st st' : pr_flow st = pr_flow st' -> do_build V E st = do_build V E st'.
Proof. intros H. unfold do_build. now rewrite H. Qed.

Lemma borrow_loop_state cf V E species M0s MTs combs : forall st,
  pr_built st = Some (Built (b_net (build_petri_net_from_flow V E (pr_flow st))) M0s MTs) ->
  let r := fst (borrow_loop cf V E species M0s MTs st combs) in
  pr_flow r = pr_flow st /\
  pr_built r = Some (Built (b_net (build_petri_net_from_flow V E (pr_flow st))) M0s MTs).
Proof.
  induction combs as [|comb combs IH]; intros st Hb; simpl.
  - split; [reflexivity|exact Hb].
  - destruct (bo_verdict (is_realizable _ (cfg_states cf) (cfg_depth cf))); simpl;
      try (split; reflexivity); apply (IH (PR _ _ _)); reflexivity.
Qed.

Lemma borrow_loop_ans cf V E species M0s MTs combs st st' :
  pr_flow st = pr_flow st' ->
  snd (borrow_loop cf V E species M0s MTs st combs) = snd (borrow_loop cf V E species M0s MTs st' combs).
Proof.
  intros H. destruct combs as [|comb combs]; simpl; [reflexivity|]. rewrite H. reflexivity.
Qed.

Lemma built_eta b : Built (b_net b) (b_M0 b) (b_MT b) = b.
Proof. now destruct b. Qed.

(** ** One call preserves "like a fresh object" *)

Definition flow_after (fl : list Z) (op : pr_op) : list Z := last_flow fl [op].
Definition built_after1 (b : bool) (op : pr_op) : bool := built_after b [op].
Definition cert_plain1 (b : bool) (op : pr_op) : bool := cert_plain b [op].

Lemma no_cert_of_flow cf V E fl : cert_of_flow cf V E fl None.
Proof. intros s Hs. discriminate. Qed.

Lemma step_like_fresh cf V E fl b cp st op :
  like_fresh cf V E fl b cp st ->
  like_fresh cf V E (flow_after fl op) (built_after1 b op) (cert_plain1 cp op) (fst (pr_step cf V E st op)).
Proof.
  intros (Hf & Hb & Hc & Hcb). unfold like_fresh, flow_after, built_after1, cert_plain1.
  destruct op as [ms md|k| | |f|mb]; simpl.
  - unfold do_real. destruct (pr_built st) as [bt|] eqn:Eb; simpl.
    + split; [exact Hf|split; [|split; [|discriminate]]].
      * rewrite <- Hb. reflexivity.
      * intros _ s Hs. destruct b; simpl in Hb; [|discriminate].
        injection Hb as ->. rewrite <- Hf.
        destruct (bo_verdict _) eqn:Ev; try discriminate. injection Hs as ->.
        exists ms, md. rewrite Hf in *. exact Ev.
    + split; [exact Hf|split; [rewrite Eb; exact Hb|split; [|discriminate]]].
      intros _. destruct b; simpl in Hb; [discriminate|].
      destruct cp; [exact (Hc eq_refl)|]. specialize (Hcb eq_refl). discriminate.
  - rewrite scaled_loop_state. rewrite Hf.
    split; [reflexivity|split; [reflexivity|split; [intros _; apply no_cert_of_flow|discriminate]]].
  - split; [exact Hf|split; [exact Hb|split; [exact Hc|exact Hcb]]].
  - unfold do_build. simpl. rewrite Hf.
    split; [reflexivity|split; [reflexivity|split; [intros _; apply no_cert_of_flow|discriminate]]].
  - split; [reflexivity|split; [reflexivity|split; [intros _; apply no_cert_of_flow|discriminate]]].
  - unfold do_borrow.
    assert (E0 : exists st0, (match pr_built st with None => do_build V E st | Some _ => st end) = st0 /\
                 pr_flow st0 = fl /\ pr_built st0 = Some (build_petri_net_from_flow V E fl)).
    { destruct (pr_built st) as [bt|] eqn:Eb.
      - exists st. split; [reflexivity|split; [exact Hf|]]. rewrite Eb. destruct b; simpl in Hb; [exact Hb|discriminate].
      - exists (do_build V E st). split; [reflexivity|]. unfold do_build. simpl. now rewrite Hf. }
    destruct E0 as (st0 & -> & Hf0 & Hb0). rewrite Hb0.
    pose proof (borrow_loop_state cf V E (sorted_vertices V) (b_M0 (build_petri_net_from_flow V E fl))
                  (b_MT (build_petri_net_from_flow V E fl))
                  (borrow_vectors mb (length (sorted_vertices V))) st0) as H.
    rewrite Hf0 in H. rewrite built_eta in H. specialize (H Hb0). destruct H as [H1 H2].
    split; [exact H1|split; [exact H2|split; [discriminate|reflexivity]]].
Qed.

Lemma exec_like_fresh cf V E ops : forall fl b cp st,
  like_fresh cf V E fl b cp st ->
  like_fresh cf V E (last_flow fl ops) (built_after b ops) (cert_plain cp ops) (pr_exec cf V E st ops).
Proof.
  induction ops as [|op ops IH]; intros fl b cp st H; simpl.
  - exact H.
  - unfold pr_exec. simpl. fold (pr_exec cf V E (fst (pr_step cf V E st op)) ops).
    pose proof (step_like_fresh cf V E fl b cp st op H) as H1.
    specialize (IH _ _ _ _ H1).
    unfold flow_after, built_after1, cert_plain1 in IH.
    destruct op; simpl in *; exact IH.
Qed.

Lemma loaded_like_fresh cf V E fl : like_fresh cf V E fl false true (pr_loaded fl).
Proof. split; [reflexivity|split; [reflexivity|split; [intros _; apply no_cert_of_flow|discriminate]]]. Qed.

(** ** The answers *)

(** the answer of a call is a function of the built net (is_realizable), of the flow alone (scaled and borrow
    search), of the certificate field (certificate) — never of anything else in the state *)
Lemma answer_like_fresh cf V E fl b cp st op :
  like_fresh cf V E fl b cp st ->
  snd (pr_step cf V E st op) =
  match op with
  | OpCert => ACert (pr_cert st)
  | _ => snd (pr_step cf V E (fresh cf V E fl b) op)
  end.
Proof.
  intros (Hf & Hb & Hc & _). destruct op as [ms md|k| | |f|mb]; simpl.
  - unfold do_real. rewrite Hb. destruct (pr_built (fresh cf V E fl b)); reflexivity.
  - rewrite Hf. replace (pr_flow (fresh cf V E fl b)) with fl by (destruct b; reflexivity).
    apply scaled_loop_ans.
  - reflexivity.
  - reflexivity.
  - reflexivity.
  - unfold do_borrow. destruct b; simpl in Hb |- *; rewrite Hb; simpl; rewrite ?Hb; simpl.
    + apply borrow_loop_ans. exact Hf.
    + rewrite Hf. apply borrow_loop_ans. exact Hf.
Qed.

(** ** Connecting [pr_run] (what the correspondence evaluates) with [pr_exec] / [pr_step] *)

Lemma pr_run_app cf V E ops1 : forall st ops2,
  pr_run cf V E st (ops1 ++ ops2) = pr_run cf V E st ops1 ++ pr_run cf V E (pr_exec cf V E st ops1) ops2.
Proof.
  induction ops1 as [|op ops1 IH]; intros st ops2; simpl.
  - reflexivity.
  - change (pr_exec cf V E st (op :: ops1)) with (pr_exec cf V E (fst (pr_step cf V E st op)) ops1).
    cbn [app pr_run]. destruct (pr_step cf V E st op) as [st' a]. cbn [fst app]. rewrite IH. reflexivity.
Qed.

Lemma pr_run_length cf V E ops : forall st, length (pr_run cf V E st ops) = length ops.
Proof.
  induction ops as [|op ops IH]; intros st; simpl; [reflexivity|].
  destruct (pr_step cf V E st op). simpl. now rewrite IH.
Qed.

Lemma pr_run_nth cf V E st ops1 op ops2 :
  nth_error (pr_run cf V E st (ops1 ++ op :: ops2)) (length ops1) =
  Some (snd (pr_step cf V E (pr_exec cf V E st ops1) op), fst (pr_step cf V E (pr_exec cf V E st ops1) op)).
Proof.
  rewrite pr_run_app. rewrite nth_error_app2 by (rewrite pr_run_length; lia).
  rewrite pr_run_length, Nat.sub_diag. simpl.
  destruct (pr_step cf V E (pr_exec cf V E st ops1) op). reflexivity.
Qed.

(** ** Main statements *)

Lemma main_history_state :
  forall (cf : pr_config) (V : list N) (E : list edge) (flow : list Z) (ops : list pr_op),
  let st := pr_exec cf V E (pr_loaded flow) ops in
  let fl := last_flow flow ops in
  pr_flow st = fl /\
  pr_built st = (if built_after false ops then Some (build_petri_net_from_flow V E fl) else None) /\
  (forall sq, cert_plain true ops = true -> pr_cert st = Some sq ->
     realizes E fl sq /\
     ((forall e, In e E -> NoDup (map fst (fst e))) -> Forall nonneg (markings_along E zero sq))).
Proof.
  intros cf V E flow ops st fl.
  destruct (exec_like_fresh cf V E ops flow false true _ (loaded_like_fresh cf V E flow)) as (Hf & Hb & Hc & _).
  fold st fl in Hf, Hb, Hc. split; [exact Hf|split].
  - rewrite Hb. unfold fresh. destruct (built_after false ops); reflexivity.
  - intros sq Hp Hs. destruct (Hc Hp sq Hs) as (ms & md & Hv).
    exact (main_realizable_sound V E fl ms md sq Hv).
Qed.

Lemma main_history_independence :
  forall (cf : pr_config) (V : list N) (E : list edge) (flow : list Z) (ops1 : list pr_op) (op : pr_op) (ops2 : list pr_op),
  let st := pr_exec cf V E (pr_loaded flow) ops1 in
  let fr := fresh cf V E (last_flow flow ops1) (built_after false ops1) in
  nth_error (pr_run cf V E (pr_loaded flow) (ops1 ++ op :: ops2)) (length ops1) =
    Some (snd (pr_step cf V E st op), fst (pr_step cf V E st op)) /\
  snd (pr_step cf V E st op) =
    match op with
    | OpCert => ACert (pr_cert st)
    | _ => snd (pr_step cf V E fr op)
    end /\
  pr_flow (fst (pr_step cf V E st op)) = pr_flow (fst (pr_step cf V E fr op)) /\
  pr_built (fst (pr_step cf V E st op)) = pr_built (fst (pr_step cf V E fr op)).
Proof.
  intros cf V E flow ops1 op ops2 st fr.
  pose proof (exec_like_fresh cf V E ops1 flow false true _ (loaded_like_fresh cf V E flow)) as H. fold st in H.
  split; [apply pr_run_nth|split; [exact (answer_like_fresh cf V E _ _ _ st op H)|]].
  pose proof (step_like_fresh cf V E _ _ _ st op H) as (Hf1 & Hb1 & _).
  assert (Hfr : like_fresh cf V E (last_flow flow ops1) (built_after false ops1) true fr).
  { unfold fr, fresh. destruct (built_after false ops1); simpl.
    - split; [reflexivity|split; [reflexivity|split; [intros _; apply no_cert_of_flow|discriminate]]].
    - apply loaded_like_fresh. }
  pose proof (step_like_fresh cf V E _ _ _ fr op Hfr) as (Hf2 & Hb2 & _).
  split; congruence.
Qed.

(** ** Non-vacuity: the catalyst pathway  {} -> X,  2X -> 2X + P,  P -> {},  X -> {}  with flow 1,1,1,1 is not
    realizable as it is, twice the flow is; after the scaled search the object still answers "not
    realizable" for the loaded flow, exactly like a fresh object. *)
Definition ex_V : list N := [0%N; 1%N].
Definition ex_E : list edge :=
  [ ([], [(0%N, 1%Z)]); ([(0%N, 2%Z)], [(0%N, 2%Z); (1%N, 1%Z)]); ([(1%N, 1%Z)], []); ([(0%N, 1%Z)], []) ].
Definition ex_flow : list Z := [1%Z; 1%Z; 1%Z; 1%Z].
Definition ex_ops : list pr_op :=
  [OpBuild; OpScaled 3; OpReal DEFAULT_MAX_STATES DEFAULT_MAX_DEPTH; OpCert;
   OpLoad [2%Z; 2%Z; 2%Z; 2%Z]; OpReal 1000 1000; OpBuild; OpReal 1000 1000; OpCert].
Definition ex_answers : list pr_ans := map fst (pr_run cfg_default ex_V ex_E (pr_loaded ex_flow) ex_ops).

Example ex_history_answers :
  ex_answers =
  [ADone; AScaled (Some 2%N); AReal NotFound; ACert None; ADone; AErr; ADone;
   AReal (Found [0;0;1;1;2;2;3;3]%N); ACert (Some [0;0;1;1;2;2;3;3]%N)].
Proof. vm_compute. reflexivity. Qed.

Example ex_history_state_nonvacuous :
  pr_cert (pr_exec cfg_default ex_V ex_E (pr_loaded ex_flow) ex_ops) = Some [0;0;1;1;2;2;3;3]%N /\
  last_flow ex_flow ex_ops = [2%Z; 2%Z; 2%Z; 2%Z] /\ built_after false ex_ops = true.
Proof. vm_compute. repeat split. Qed.

(** Non-vacuity for the borrow search: autocatalysis  A + X -> 2 X,  {} -> A,  X -> {}  with flow 1,1,1 is not realizable,
    with one borrowed X it is; the sequence the borrow search leaves in the certificate field ([feed; auto; out]) is NOT an
    ordering of the plain pathway (auto needs an X first) — [cert_plain] is false at that point — and a following plain
    search answers "not realizable" and clears the field, exactly like a fresh object. *)
Definition exb_V : list N := [0%N; 1%N].
Definition exb_E : list edge :=
  [ ([(0%N, 1%Z); (1%N, 1%Z)], [(1%N, 2%Z)]); ([], [(0%N, 1%Z)]); ([(1%N, 1%Z)], []) ].
Definition exb_flow : list Z := [1%Z; 1%Z; 1%Z].
Definition exb_ops : list pr_op :=
  [OpBuild; OpReal DEFAULT_MAX_STATES DEFAULT_MAX_DEPTH; OpBorrow 1; OpCert;
   OpReal DEFAULT_MAX_STATES DEFAULT_MAX_DEPTH; OpCert].
Definition exb_answers : list pr_ans := map fst (pr_run cfg_default exb_V exb_E (pr_loaded exb_flow) exb_ops).

Example ex_borrow_history :
  exb_answers = [ADone; AReal NotFound; ABorrow (Some [0%Z; 1%Z]); ACert (Some [1%N; 0%N; 2%N]); AReal NotFound; ACert None] /\
  cert_plain true (firstn 4 exb_ops) = false /\ cert_plain true exb_ops = true.
Proof. vm_compute. repeat split. Qed.
