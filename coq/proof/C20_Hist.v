(** C20 — call histories on one PathwayRealizability object: the object's state after ANY sequence of
    is_realizable / is_scaled_realizable / certificate / build / reload calls is the state of a fresh
    object (history independence), and a stored certificate is always a certificate of the flow that
    is loaded at that moment. *)
From Coq Require Import ZArith NArith List Lia.
Import ListNotations.
From SK Require Import model.C20_Model proof.C20_Spec proof.C20_Build proof.C20_Main.
Local Open Scope nat_scope.

(** ** Specification side: what a history means, read off the list of calls alone *)

(** the flow that is loaded after the calls [ops] (initially [fl]) *)
Fixpoint last_flow (fl : list Z) (ops : list pr_op) : list Z :=
  match ops with
  | [] => fl
  | OpLoad f :: ops' => last_flow f ops'
  | _ :: ops' => last_flow fl ops'
  end.

(** is a net built after the calls [ops] (initially [b])?  A reload clears it; an explicit build and a
    scaled search leave one behind; the other calls do not touch it. *)
Fixpoint built_after (b : bool) (ops : list pr_op) : bool :=
  match ops with
  | [] => b
  | OpLoad _ :: ops' => built_after false ops'
  | OpBuild :: ops' => built_after true ops'
  | OpScaled _ :: ops' => built_after true ops'
  | _ :: ops' => built_after b ops'
  end.

(** a fresh object: loaded with [fl], and built when [b] *)
Definition fresh (V : list N) (E : list edge) (fl : list Z) (b : bool) : pr_state :=
  if b then do_build V E (pr_loaded fl) else pr_loaded fl.

(** the certificate field is empty or holds a sequence found by a search on the net of the loaded flow *)
Definition cert_of_flow (V : list N) (E : list edge) (fl : list Z) (c : option (list N)) : Prop :=
  forall s, c = Some s ->
  exists ms md, bo_verdict (is_realizable (build_petri_net_from_flow V E fl) ms md) = Found s.

(** state = fresh object up to the certificate field *)
Definition like_fresh (V : list N) (E : list edge) (fl : list Z) (b : bool) (st : pr_state) : Prop :=
  pr_flow st = fl /\ pr_built st = pr_built (fresh V E fl b) /\ cert_of_flow V E fl (pr_cert st).

(** ** The scaled search leaves exactly the fresh built state, whatever state it starts from *)

Lemma scaled_loop_state V E saved n : forall st k,
  fst (scaled_loop V E saved st k n) = fresh V E saved true.
Proof.
  induction n as [|n IH]; intros st k; simpl.
  - reflexivity.
  - unfold do_real, do_build, set_flow; simpl.
    destruct (bo_verdict (is_realizable _ DEFAULT_MAX_STATES DEFAULT_MAX_DEPTH)); simpl; try apply IH.
    reflexivity.
Qed.

(** … and its answer does not depend on the state it starts from *)
Lemma scaled_loop_ans V E saved n : forall st st' k,
  snd (scaled_loop V E saved st k n) = snd (scaled_loop V E saved st' k n).
Proof.
  induction n as [|n IH]; intros st st' k; simpl.
  - reflexivity.
  - unfold do_real, do_build, set_flow; simpl.
    destruct (bo_verdict (is_realizable _ DEFAULT_MAX_STATES DEFAULT_MAX_DEPTH)); simpl; try apply IH.
    reflexivity.
Qed.

(** ** One call preserves "like a fresh object" *)

Definition flow_after (fl : list Z) (op : pr_op) : list Z := last_flow fl [op].
Definition built_after1 (b : bool) (op : pr_op) : bool := built_after b [op].

Lemma step_like_fresh V E fl b st op :
  like_fresh V E fl b st ->
  like_fresh V E (flow_after fl op) (built_after1 b op) (fst (pr_step V E st op)).
Proof.
  intros (Hf & Hb & Hc). unfold like_fresh, flow_after, built_after1.
  destruct op as [ms md|k| | |f]; simpl.
  - unfold do_real. destruct (pr_built st) as [bt|] eqn:Eb; simpl.
    + split; [exact Hf|split].
      * rewrite <- Hb. reflexivity.
      * intros s Hs. destruct b; simpl in Hb; [|discriminate].
        injection Hb as ->. rewrite <- Hf.
        destruct (bo_verdict _) eqn:Ev; try discriminate. injection Hs as ->.
        exists ms, md. rewrite Hf in *. exact Ev.
    + split; [exact Hf|split; [rewrite Eb; exact Hb|exact Hc]].
  - rewrite scaled_loop_state. rewrite Hf. split; [reflexivity|split; [reflexivity|]].
    intros s Hs. discriminate.
  - split; [exact Hf|split; [exact Hb|exact Hc]].
  - unfold do_build. simpl. rewrite Hf. split; [reflexivity|split; [reflexivity|]]. intros s Hs; discriminate.
  - split; [reflexivity|split; [reflexivity|]]. intros s Hs; discriminate.
Qed.

Lemma last_flow_app ops1 : forall fl ops2, last_flow fl (ops1 ++ ops2) = last_flow (last_flow fl ops1) ops2.
Proof. induction ops1 as [|op ops1 IH]; intros fl ops2; simpl; [reflexivity|]. destruct op; apply IH. Qed.

Lemma built_after_app ops1 : forall b ops2, built_after b (ops1 ++ ops2) = built_after (built_after b ops1) ops2.
Proof. induction ops1 as [|op ops1 IH]; intros b ops2; simpl; [reflexivity|]. destruct op; apply IH. Qed.

Lemma exec_like_fresh V E ops : forall fl b st,
  like_fresh V E fl b st ->
  like_fresh V E (last_flow fl ops) (built_after b ops) (pr_exec V E st ops).
Proof.
  induction ops as [|op ops IH]; intros fl b st H; simpl.
  - exact H.
  - unfold pr_exec. simpl. fold (pr_exec V E (fst (pr_step V E st op)) ops).
    pose proof (step_like_fresh V E fl b st op H) as H1.
    specialize (IH _ _ _ H1).
    unfold flow_after, built_after1 in IH.
    destruct op; simpl in *; exact IH.
Qed.

Lemma loaded_like_fresh V E fl : like_fresh V E fl false (pr_loaded fl).
Proof. split; [reflexivity|split; [reflexivity|]]. intros s Hs; discriminate. Qed.

(** ** The answers *)

(** the answer of a call is a function of the built net (is_realizable), of the flow alone (scaled
    search), of the certificate field (certificate) — never of anything else in the state *)
Lemma answer_like_fresh V E fl b st op :
  like_fresh V E fl b st ->
  snd (pr_step V E st op) =
  match op with
  | OpCert => ACert (pr_cert st)
  | _ => snd (pr_step V E (fresh V E fl b) op)
  end.
Proof.
  intros (Hf & Hb & Hc). destruct op as [ms md|k| | |f]; simpl.
  - unfold do_real. rewrite Hb. destruct (pr_built (fresh V E fl b)); reflexivity.
  - rewrite Hf. replace (pr_flow (fresh V E fl b)) with fl by (destruct b; reflexivity).
    apply scaled_loop_ans.
  - reflexivity.
  - reflexivity.
  - reflexivity.
Qed.

(** ** Connecting [pr_run] (what the correspondence evaluates) with [pr_exec] / [pr_step] *)

Lemma pr_run_app V E ops1 : forall st ops2,
  pr_run V E st (ops1 ++ ops2) = pr_run V E st ops1 ++ pr_run V E (pr_exec V E st ops1) ops2.
Proof.
  induction ops1 as [|op ops1 IH]; intros st ops2; simpl.
  - reflexivity.
  - change (pr_exec V E st (op :: ops1)) with (pr_exec V E (fst (pr_step V E st op)) ops1).
    cbn [app pr_run]. destruct (pr_step V E st op) as [st' a]. cbn [fst app]. rewrite IH. reflexivity.
Qed.

Lemma pr_run_length V E ops : forall st, length (pr_run V E st ops) = length ops.
Proof.
  induction ops as [|op ops IH]; intros st; simpl; [reflexivity|].
  destruct (pr_step V E st op). simpl. now rewrite IH.
Qed.

Lemma pr_run_nth V E st ops1 op ops2 :
  nth_error (pr_run V E st (ops1 ++ op :: ops2)) (length ops1) =
  Some (snd (pr_step V E (pr_exec V E st ops1) op), fst (pr_step V E (pr_exec V E st ops1) op)).
Proof.
  rewrite pr_run_app. rewrite nth_error_app2 by (rewrite pr_run_length; lia).
  rewrite pr_run_length, Nat.sub_diag. simpl.
  destruct (pr_step V E (pr_exec V E st ops1) op). reflexivity.
Qed.

(** ** Main statements *)

Lemma main_history_state :
  forall (V : list N) (E : list edge) (flow : list Z) (ops : list pr_op),
  let st := pr_exec V E (pr_loaded flow) ops in
  let fl := last_flow flow ops in
  pr_flow st = fl /\
  pr_built st = (if built_after false ops then Some (build_petri_net_from_flow V E fl) else None) /\
  (forall sq, pr_cert st = Some sq ->
     realizes E fl sq /\
     ((forall e, In e E -> NoDup (map fst (fst e))) -> Forall nonneg (markings_along E zero sq))).
Proof.
  intros V E flow ops st fl.
  destruct (exec_like_fresh V E ops flow false _ (loaded_like_fresh V E flow)) as (Hf & Hb & Hc).
  fold st fl in Hf, Hb, Hc. split; [exact Hf|split].
  - rewrite Hb. unfold fresh. destruct (built_after false ops); reflexivity.
  - intros sq Hs. destruct (Hc sq Hs) as (ms & md & Hv).
    exact (main_realizable_sound V E fl ms md sq Hv).
Qed.

Lemma main_history_independence :
  forall (V : list N) (E : list edge) (flow : list Z) (ops1 : list pr_op) (op : pr_op) (ops2 : list pr_op),
  let st := pr_exec V E (pr_loaded flow) ops1 in
  let fr := fresh V E (last_flow flow ops1) (built_after false ops1) in
  nth_error (pr_run V E (pr_loaded flow) (ops1 ++ op :: ops2)) (length ops1) =
    Some (snd (pr_step V E st op), fst (pr_step V E st op)) /\
  snd (pr_step V E st op) =
    match op with
    | OpCert => ACert (pr_cert st)
    | _ => snd (pr_step V E fr op)
    end /\
  pr_flow (fst (pr_step V E st op)) = pr_flow (fst (pr_step V E fr op)) /\
  pr_built (fst (pr_step V E st op)) = pr_built (fst (pr_step V E fr op)).
Proof.
  intros V E flow ops1 op ops2 st fr.
  pose proof (exec_like_fresh V E ops1 flow false _ (loaded_like_fresh V E flow)) as H. fold st in H.
  split; [apply pr_run_nth|split; [exact (answer_like_fresh V E _ _ st op H)|]].
  pose proof (step_like_fresh V E _ _ st op H) as (Hf1 & Hb1 & _).
  assert (Hfr : like_fresh V E (last_flow flow ops1) (built_after false ops1) fr).
  { unfold fr, fresh. destruct (built_after false ops1); simpl.
    - split; [reflexivity|split; [reflexivity|]]. intros s Hs; discriminate.
    - apply loaded_like_fresh. }
  pose proof (step_like_fresh V E _ _ fr op Hfr) as (Hf2 & Hb2 & _).
  split; congruence.
Qed.

(** ** Non-vacuity: the catalyst pathway  {} -> X,  2X -> 2X + P,  P -> {},  X -> {}  with flow 1,1,1,1 is not
    realizable as it is, twice the flow is; after the scaled search the object still answers "not
    realizable" for the loaded flow, exactly like a fresh object. *)
Definition ex_V : list N := [0%N; 1%N].
Definition ex_E : list edge :=
  [ ([], [(0%N, 1%Z)]); ([(0%N, 2%Z)], [(0%N, 2%Z); (1%N, 1%Z)]); ([(1%N, 1%Z)], []); ([(0%N, 1%Z)], []) ].
Definition ex_flow : list Z := [1%Z; 1%Z; 1%Z; 1%Z].
Definition ex_ops : list pr_op :=
  [OpBuild; OpScaled 3; OpReal DEFAULT_MAX_STATES DEFAULT_MAX_DEPTH; OpCert;
   OpLoad [2%Z; 2%Z; 2%Z; 2%Z]; OpReal 1000 1000; OpBuild; OpReal 1000 1000; OpCert].
Definition ex_answers : list pr_ans := map fst (pr_run ex_V ex_E (pr_loaded ex_flow) ex_ops).

Example ex_history_answers :
  ex_answers =
  [ADone; AScaled (Some 2%N); AReal NotFound; ACert None; ADone; AErr; ADone;
   AReal (Found [0;0;1;1;2;2;3;3]%N); ACert (Some [0;0;1;1;2;2;3;3]%N)].
Proof. vm_compute. reflexivity. Qed.

Example ex_history_state_nonvacuous :
  pr_cert (pr_exec ex_V ex_E (pr_loaded ex_flow) ex_ops) = Some [0;0;1;1;2;2;3;3]%N /\
  last_flow ex_flow ex_ops = [2%Z; 2%Z; 2%Z; 2%Z] /\ built_after false ex_ops = true.
Proof. vm_compute. repeat split. Qed.
