(** C02 — longest_radius_extension returns a simple path of unchanged bonds that starts in a centre atom;
    idempotence of get_rc with options needs typesGH in element_key when disconnected=True. *)
From Coq Require Import List NArith ZArith Bool Lia.
From SK Require Import lib.LGraph lib.C01_GraphLemmas model.C01_Model model.C02_Model proof.C02_Proof proof.C02_Opts.
Import ListNotations.
Local Open Scope Z_scope.

(** [zchain g u l]: u - l[0] - l[1] - ... is a chain of bonds with standard_order = 0 *)
Fixpoint zchain (g : its) (u : N) (l : list N) : Prop :=
  match l with
  | [] => True
  | v :: r => std0 g u v = true /\ zchain g v r
  end.

Definition ext_ok (g : its) (node : N) (vis ext : list N) : Prop :=
  zchain g node ext /\ NoDup ext /\ (forall x, In x ext -> ~ In x vis).

Lemma lre_dfs_spec (g : its) fuel : forall node visited path,
  exists ext, lre_dfs g fuel node visited path = path ++ ext /\ ext_ok g node (node :: visited) ext.
Proof.
  induction fuel as [|f IH]; intros node visited path.
  - exists []. simpl. rewrite app_nil_r. repeat split; [constructor|intros x []].
  - cbn [lre_dfs].
    assert (forall L longest,
              (exists ext, longest = path ++ ext /\ ext_ok g node (node :: visited) ext) ->
              exists ext,
                fold_left (fun longest nb =>
                             if std0 g node nb && negb (LGraph.mem nb (node :: visited))
                             then if (length longest <? length (lre_dfs g f nb (node :: visited) (path ++ [nb])))%nat
                                  then lre_dfs g f nb (node :: visited) (path ++ [nb]) else longest
                             else longest) L longest = path ++ ext /\ ext_ok g node (node :: visited) ext) as Hfold.
    { induction L as [|nb L IHL]; intros longest Hl; [exact Hl|]. cbn [fold_left]. apply IHL.
      destruct (std0 g node nb && negb (LGraph.mem nb (node :: visited))) eqn:C; [|exact Hl].
      destruct (length longest <? length (lre_dfs g f nb (node :: visited) (path ++ [nb])))%nat; [|exact Hl].
      apply andb_true_iff in C. destruct C as [Cz Cm]. apply negb_true_iff in Cm.
      assert (~ In nb (node :: visited)) as Hnb by (intros I; apply LGraph.mem_spec in I; congruence).
      destruct (IH nb (node :: visited) (path ++ [nb])) as (ext' & E & Hz & Hnd & Hdis).
      exists (nb :: ext'). split; [rewrite E, <- app_assoc; reflexivity|]. split; [|split].
      - simpl. auto.
      - constructor; [|exact Hnd]. intros I. apply (Hdis nb I). left. reflexivity.
      - intros x [<-|I]; [exact Hnb|]. intros J. apply (Hdis x I). right. exact J. }
    apply Hfold. exists []. rewrite app_nil_r. repeat split; [constructor|intros x []].
Qed.

(** the path: empty, or a centre atom followed by a duplicate-free chain of unchanged bonds *)
Theorem lre_path (g : its) (rcn : list N) :
  lre g rcn = [] \/
  exists n ext, In n rcn /\ lre g rcn = n :: ext /\ zchain g n ext /\ NoDup (n :: ext).
Proof.
  unfold lre.
  assert (forall L st, incl L rcn ->
            (snd st = [] \/ exists n ext, In n rcn /\ snd st = n :: ext /\ zchain g n ext /\ NoDup (n :: ext)) ->
            let r := snd (fold_left (fun (st : list N * list N) n =>
                                       let '(vis, best) := st in
                                       if LGraph.mem n vis then st
                                       else let p := lre_dfs g (S (length (gnodes g))) n vis [n] in
                                            (p ++ vis, if (length best <? length p)%nat then p else best)) L st) in
            r = [] \/ exists n ext, In n rcn /\ r = n :: ext /\ zchain g n ext /\ NoDup (n :: ext)) as H.
  { induction L as [|n L IHL]; intros [vis best] Hin Hst; [exact Hst|]. cbn [fold_left]. apply IHL; [intros x I; apply Hin; right; exact I|].
    destruct (LGraph.mem n vis) eqn:M; [exact Hst|]. cbn [snd].
    destruct (length best <? length (lre_dfs g (S (length (gnodes g))) n vis [n]))%nat; [|exact Hst].
    right. destruct (lre_dfs_spec g (S (length (gnodes g))) n vis [n]) as (ext & E & Hz & Hnd & Hdis).
    exists n, ext. split; [apply Hin; left; reflexivity|]. split; [exact E|]. split; [exact Hz|].
    constructor; [|exact Hnd]. intros I. apply (Hdis n I). left. reflexivity. }
  apply (H rcn ([], [])); [intros x I; exact I|left; reflexivity].
Qed.

(** every atom of the path is an atom of the ITS (wf) *)
Lemma std0_adj g u v : std0 g u v = true -> adj g u v <> None.
Proof. unfold std0. destruct (adj g u v); [discriminate|discriminate]. Qed.

(** non-vacuity: on ex_its the path 1-5-6-7 *)
Example C02_lre_nonvacuous :
  lre ex_its (node_ids (get_rc ex_its)) = [1; 5; 6; 7]%N /\ zchain ex_its 1%N [5; 6; 7]%N.
Proof. vm_compute. repeat split. Qed.

(** idempotence of the variants needs typesGH: an isolated charge-changing atom is in the disconnected centre, but with
    element_key = [element] it has lost typesGH there and is not in the centre of the centre *)
Definition cc1 : xits :=
  LG [(3%N, XN (Some 82%N) (Some (-1)) (Some 3) None None None (Some (NA 82%N false 1 (-1) [], NA 82%N false 2 0 [])))] [].
Theorem rcx_idem_needs_typesGH : exists (K : keysel) (g : xits),
  wf g /\ k_el K = true /\ length (gnodes (get_rc_x K true false g)) = 1%nat /\
  gnodes (get_rc_x K true false (get_rc_x K true false g)) = [].
Proof.
  exists (KS true false false false false false false), cc1. split; [|vm_compute; repeat split].
  apply wf_intro; simpl.
  - repeat constructor; simpl; intuition.
  - intros a b x [].
  - constructor.
Qed.

(** * maximality: from the first centre atom no simple chain of unchanged bonds is longer than the returned path *)
Definition dfs_step (g : its) (f : nat) (node : N) (visited path : list N) (longest : list N) (nb : N) : list N :=
  if std0 g node nb && negb (LGraph.mem nb (node :: visited))
  then if (length longest <? length (lre_dfs g f nb (node :: visited) (path ++ [nb])))%nat
       then lre_dfs g f nb (node :: visited) (path ++ [nb]) else longest
  else longest.

Lemma lre_dfs_S g f node visited path :
  lre_dfs g (S f) node visited path = fold_left (dfs_step g f node visited path) (nbrs g node) path.
Proof. reflexivity. Qed.

Lemma dfs_step_mono g f node visited path longest nb :
  (length longest <= length (dfs_step g f node visited path longest nb))%nat.
Proof.
  unfold dfs_step. destruct (std0 g node nb && negb (LGraph.mem nb (node :: visited))); [|lia].
  destruct (Nat.ltb_spec (length longest) (length (lre_dfs g f nb (node :: visited) (path ++ [nb])))); lia.
Qed.

Lemma dfs_fold_mono g f node visited path L : forall longest,
  (length longest <= length (fold_left (dfs_step g f node visited path) L longest))%nat.
Proof.
  induction L as [|nb L IH]; intros longest; simpl; [lia|].
  etransitivity; [apply (dfs_step_mono g f node visited path longest nb)|apply IH].
Qed.

Lemma lre_dfs_len_ge (g : its) fuel : forall node visited path ext,
  zchain g node ext -> NoDup ext -> (forall x, In x ext -> ~ In x (node :: visited)) -> (length ext <= fuel)%nat ->
  (length path + length ext <= length (lre_dfs g fuel node visited path))%nat.
Proof.
  induction fuel as [|f IH]; intros node visited path ext Hz Hnd Hdis Hlen.
  - destruct ext; simpl in *; lia.
  - rewrite lre_dfs_S. destruct ext as [|nb ext'].
    + simpl. rewrite Nat.add_0_r. apply dfs_fold_mono.
    + destruct Hz as [Hs Hz]. inversion Hnd as [|? ? Hni Hnd']; subst.
      assert (In nb (nbrs g node)) as Inb by (apply in_nbrs, std0_adj; exact Hs).
      apply in_split in Inb. destruct Inb as (L1 & L2 & ->). rewrite fold_left_app. cbn [fold_left].
      set (acc1 := fold_left (dfs_step g f node visited path) L1 path).
      etransitivity; [|apply dfs_fold_mono].
      assert (~ In nb (node :: visited)) as Hnb by (apply Hdis; left; reflexivity).
      unfold dfs_step at 1. rewrite Hs.
      assert (LGraph.mem nb (node :: visited) = false) as ->.
      { destruct (LGraph.mem nb (node :: visited)) eqn:M; [|reflexivity]. apply LGraph.mem_spec in M. contradiction. }
      cbn [negb andb].
      assert (length (path ++ [nb]) + length ext' <= length (lre_dfs g f nb (node :: visited) (path ++ [nb])))%nat as Hcur.
      { apply IH; [exact Hz|exact Hnd'| |simpl in Hlen; lia].
        intros x I [<-|J]; [contradiction|]. apply (Hdis x); [right; exact I|exact J]. }
      rewrite app_length in Hcur. simpl in Hcur. simpl.
      destruct (Nat.ltb_spec (length acc1) (length (lre_dfs g f nb (node :: visited) (path ++ [nb])))); lia.
Qed.

Lemma zchain_nodes (g : its) : wf g -> forall ext u, In u (node_ids g) -> zchain g u ext -> incl ext (node_ids g).
Proof.
  intros W. induction ext as [|v r IH]; intros u Iu Hz x I; [destruct I|]. destruct Hz as [Hs Hz].
  assert (In v (node_ids g)) as Iv.
  { apply std0_adj in Hs. destruct (adj g u v) as [e|] eqn:A; [|congruence]. apply (wf_adj_iff W) in A.
    destruct A as [A|A]; destruct (wf_edge_nodes W A) as (P & Q & _); assumption. }
  destruct I as [<-|I]; [exact Iv|]. exact (IH v Iv Hz x I).
Qed.

Theorem lre_longest_first (g : its) (n0 : N) (rest ext : list N) : wf g -> In n0 (node_ids g) ->
  zchain g n0 ext -> NoDup (n0 :: ext) -> (length (n0 :: ext) <= length (lre g (n0 :: rest)))%nat.
Proof.
  intros W I0 Hz Hnd. inversion Hnd as [|? ? Hni Hnd']; subst.
  assert (length (n0 :: ext) <= length (gnodes g))%nat as Hlen.
  { rewrite <- (map_length fst (gnodes g)). apply NoDup_incl_length; [exact Hnd|].
    intros x [<-|I]; [exact I0|]. exact (zchain_nodes g W ext n0 I0 Hz x I). }
  set (p := lre_dfs g (S (length (gnodes g))) n0 [] [n0]).
  assert (length (n0 :: ext) <= length p)%nat as Hp.
  { unfold p. change (length (n0 :: ext)) with (length [n0] + length ext)%nat. apply lre_dfs_len_ge; auto.
    - intros x I [<-|[]]. contradiction.
    - simpl in Hlen. lia. }
  unfold lre. cbn [fold_left LGraph.mem existsb]. fold p.
  assert (forall L (st : list N * list N),
            (length (snd st) <= length (snd (fold_left (fun (st : list N * list N) n =>
                                       let '(vis, best) := st in
                                       if LGraph.mem n vis then st
                                       else let p := lre_dfs g (S (length (gnodes g))) n vis [n] in
                                            (p ++ vis, if (length best <? length p)%nat then p else best)) L st)))%nat) as Hmono.
  { induction L as [|n L IH]; intros [vis best]; [simpl; lia|]. cbn [fold_left]. etransitivity; [|apply IH].
    destruct (LGraph.mem n vis); [simpl; lia|]. cbn [snd].
    destruct (Nat.ltb_spec (length best) (length (lre_dfs g (S (length (gnodes g))) n vis [n]))); lia. }
  etransitivity; [|apply Hmono]. cbn [snd].
  destruct (Nat.ltb_spec (length (@nil N)) (length p)); simpl in *; lia.
Qed.

Example C02_lre_longest_nonvacuous :
  wf ex_its /\ zchain ex_its 1%N [5; 6; 7]%N /\ NoDup [1; 5; 6; 7]%N /\
  length (lre ex_its (1%N :: [2; 3; 4; 8]%N)) = 4%nat.
Proof.
  split; [apply ex_its_wf|]. split; [vm_compute; repeat split|]. split; [|reflexivity].
  repeat constructor; simpl; intuition discriminate.
Qed.
