(** C06 — what the in-place edits of model/C06_Hist.v do (networkx semantics, stated pointwise):
    the edited entry has the new value, everything else is as before. *)
From Coq Require Import List NArith Bool Arith Lia.
From SK Require Import lib.LGraph model.C06_Model model.C06_Attrs model.C06_Hist proof.C06_Attrs proof.C06_Hist.
Import ListNotations.

Lemma label_map_node (g : rgraph) u f x :
  label (map_node u f g) x = if N.eqb x u then option_map f (label g x) else label g x.
Proof.
  unfold label, map_node. simpl. induction (gnodes g) as [|[k l] r IH]; simpl.
  - destruct (N.eqb x u); reflexivity.
  - destruct (N.eqb_spec k u) as [->|Hku]; simpl.
    + destruct (N.eqb_spec x u) as [->|Hxu]; [reflexivity|exact IH].
    + destruct (N.eqb_spec x k) as [->|Hxk].
      * destruct (N.eqb_spec k u); [contradiction|reflexivity].
      * exact IH.
Qed.

Lemma node_ids_map_node (g : rgraph) u f : node_ids (map_node u f g) = node_ids g.
Proof.
  unfold node_ids, map_node. simpl. rewrite map_map. apply map_ext. intros [k l]. simpl.
  destruct (N.eqb k u); reflexivity.
Qed.

(** [g.nodes[u][k] = v] *)
Theorem set_node_attr_spec (g : rgraph) u k v n :
  let g' := apply_edit (ESetNodeAttr u k v n) g in
  node_ids g' = node_ids g /\ gedges g' = gedges g /\
  (In u (node_ids g) -> aget k (fst (rlab g' u)) = v) /\
  (forall x k', x <> u \/ k' <> k -> aget k' (fst (rlab g' x)) = aget k' (fst (rlab g x))) /\
  (forall x, x <> u \/ k <> HCOUNT_KEY -> hc (rlab g' x) = hc (rlab g x)) /\
  (In u (node_ids g) -> k = HCOUNT_KEY -> hc (rlab g' u) = n).
Proof.
  cbv zeta. cbn [apply_edit]. split; [apply node_ids_map_node|split; [reflexivity|]].
  assert (Hl : forall x, rlab (map_node u (lab_set k v n) g) x =
                         if N.eqb x u then match label g x with Some l => lab_set k v n l | None => ([], None) end else rlab g x).
  { intros x. unfold rlab. rewrite label_map_node. destruct (N.eqb x u); [destruct (label g x); reflexivity|reflexivity]. }
  assert (Hin : In u (node_ids g) -> exists l, label g u = Some l).
  { intros Hu. destruct (label g u) eqn:E; [eexists; reflexivity|]. exfalso. exact (assoc_none_notin _ _ E Hu). }
  split; [|split; [|split]].
  - intros Hu. destruct (Hin Hu) as (l & El). rewrite Hl, N.eqb_refl, El. simpl. apply aget_dict_set_same.
  - intros x k' Hd. rewrite Hl. destruct (N.eqb_spec x u) as [->|Hxu]; [|reflexivity].
    destruct Hd as [Hd|Hd]; [contradiction|].
    unfold rlab. destruct (label g u) as [l|]; [|reflexivity]. simpl. apply aget_dict_set_other. exact Hd.
  - intros x Hd. rewrite Hl. destruct (N.eqb_spec x u) as [->|Hxu]; [|reflexivity].
    destruct Hd as [Hd|Hd]; [contradiction|].
    unfold rlab. destruct (label g u) as [l|]; [|reflexivity]. unfold hc, lab_set. simpl.
    destruct (N.eqb_spec k HCOUNT_KEY); [contradiction|reflexivity].
  - intros Hu ->. destruct (Hin Hu) as (l & El). rewrite Hl, N.eqb_refl, El. unfold hc, lab_set. simpl. reflexivity.
Qed.

(** two unordered pairs are the same pair *)
Definition same_pair (a b x y : N) : Prop := (x = a /\ y = b) \/ (x = b /\ y = a).
Lemma joins_spec a b x y : joins a b x y = true <-> same_pair a b x y.
Proof.
  unfold joins, same_pair. rewrite orb_true_iff, !andb_true_iff, !N.eqb_eq. reflexivity.
Qed.

(** [g.remove_edge(a, b)] *)
Theorem remove_edge_spec (g : rgraph) a b :
  let g' := apply_edit (ERemoveEdge a b) g in
  gnodes g' = gnodes g /\
  LGraph.adj g' a b = None /\
  (forall x y, ~ same_pair a b x y -> LGraph.adj g' x y = LGraph.adj g x y) /\
  length (gedges g') <= length (gedges g).
Proof.
  cbv zeta. cbn [apply_edit]. split; [reflexivity|]. unfold LGraph.adj. simpl.
  split; [|split].
  - induction (gedges g) as [|[[x y] d] r IH]; simpl; [reflexivity|].
    destruct (joins a b x y) eqn:Ej; simpl; [exact IH|].
    unfold joins in Ej. rewrite Ej. exact IH.
  - intros x y Hn. induction (gedges g) as [|[[p q] d] r IH]; simpl; [reflexivity|].
    destruct (joins a b p q) eqn:Ej; simpl.
    + rewrite IH. apply joins_spec in Ej.
      destruct ((N.eqb p x && N.eqb q y) || (N.eqb p y && N.eqb q x)) eqn:E; [|reflexivity].
      exfalso. apply Hn. rewrite orb_true_iff, !andb_true_iff, !N.eqb_eq in E. unfold same_pair in *.
      destruct Ej as [[-> ->]|[-> ->]], E as [[<- <-]|[<- <-]]; auto.
    + rewrite IH. reflexivity.
  - induction (gedges g) as [|e r IH]; simpl; [lia|]. destruct (let '(x, y, _) := e in negb (joins a b x y)); simpl; lia.
Qed.

Lemma find_edge_app1 {B} x y (es : list (N * N * B)) e :
  find_edge x y (es ++ [e]) = match find_edge x y es with Some z => Some z | None => find_edge x y [e] end.
Proof.
  induction es as [|[[p q] z] r IH]; [reflexivity|]. cbn [app find_edge].
  destruct ((N.eqb p x && N.eqb q y) || (N.eqb p y && N.eqb q x)); [reflexivity|exact IH].
Qed.

(** [g.add_edge(a, b, **d)] between two existing nodes that are not joined yet *)
Theorem add_edge_spec (g : rgraph) a b d :
  LGraph.adj g a b = None -> In a (node_ids g) -> In b (node_ids g) ->
  let g' := apply_edit (EAddEdge a b d) g in
  gnodes g' = gnodes g /\
  LGraph.adj g' a b = Some d /\
  (forall x y, ~ same_pair a b x y -> LGraph.adj g' x y = LGraph.adj g x y) /\
  length (gedges g') = S (length (gedges g)).
Proof.
  intros Hadj Ha Hb. cbv zeta. cbn [apply_edit]. unfold LGraph.adj in Hadj. rewrite Hadj.
  assert (En : ensure_node b (ensure_node a (gnodes g)) = gnodes g).
  { unfold ensure_node. change (map fst (gnodes g)) with (node_ids g).
    rewrite (proj2 (LGraph.mem_spec a (node_ids g)) Ha).
    change (map fst (gnodes g)) with (node_ids g). rewrite (proj2 (LGraph.mem_spec b (node_ids g)) Hb). reflexivity. }
  split; [exact En|]. unfold LGraph.adj. simpl.
  pose proof (fun x y => find_edge_app1 x y (gedges g) (a, b, d)) as Happ.
  split; [|split].
  - rewrite Happ, Hadj. simpl. rewrite !N.eqb_refl. reflexivity.
  - intros x y Hn. rewrite Happ. destruct (find_edge x y (gedges g)); [reflexivity|]. simpl.
    destruct ((N.eqb a x && N.eqb b y) || (N.eqb a y && N.eqb b x)) eqn:E; [|reflexivity].
    exfalso. apply Hn. rewrite orb_true_iff, !andb_true_iff, !N.eqb_eq in E. unfold same_pair.
    destruct E as [[<- <-]|[<- <-]]; auto.
  - rewrite app_length. simpl. lia.
Qed.

(** a bond moved in place keeps both counts (the validators a memo would typically use) *)
Corollary move_bond_counts (g : rgraph) a b c d0 :
  LGraph.adj (apply_edit (ERemoveEdge a b) g) b c = None -> In b (node_ids g) -> In c (node_ids g) ->
  let g' := apply_edit (EAddEdge b c d0) (apply_edit (ERemoveEdge a b) g) in
  gnodes g' = gnodes g /\ length (gedges g') <= S (length (gedges g)) /\ LGraph.adj g' b c = Some d0.
Proof.
  intros Hadj Hb Hc. cbv zeta.
  destruct (remove_edge_spec g a b) as (N1 & _ & _ & L1). cbv zeta in N1, L1.
  assert (Hb' : In b (node_ids (apply_edit (ERemoveEdge a b) g))) by (unfold node_ids; rewrite N1; exact Hb).
  assert (Hc' : In c (node_ids (apply_edit (ERemoveEdge a b) g))) by (unfold node_ids; rewrite N1; exact Hc).
  destruct (add_edge_spec _ b c d0 Hadj Hb' Hc') as (N2 & A2 & _ & L2). cbv zeta in N2, A2, L2.
  split; [rewrite N2; exact N1|split; [rewrite L2; lia|exact A2]].
Qed.

(** non-vacuity (host of proof/C06_Hist.v: chain 0-1-2, lone carbon 3) *)
Example ex_edit_specs :
  In 3%N (node_ids Hh) /\ aget 2 (fst (rlab (apply_edit (ESetNodeAttr 3 2 9 0) Hh) 3%N)) = 9%N /\
  hc (rlab (apply_edit (ESetNodeAttr 3 HCOUNT_KEY 4 2) Hh) 3%N) = 2%N /\
  LGraph.adj Hh 1%N 2%N <> None /\ LGraph.adj (apply_edit (ERemoveEdge 1 2) Hh) 2%N 1%N = None /\
  LGraph.adj (apply_edit (ERemoveEdge 1 2) Hh) 2%N 3%N = None /\
  LGraph.adj moved 3%N 2%N = Some [(3, 2)]%N /\ gnodes moved = gnodes Hh /\ length (gedges moved) = length (gedges Hh).
Proof. vm_compute. repeat split; try reflexivity; try discriminate. right. right. right. left. reflexivity. Qed.
