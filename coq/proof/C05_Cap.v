(** C05 — the embedding cap ([SynReactor(embed_threshold = k)] -> [find_subgraph_mappings(threshold = k)]).
    The cap is a parameter of the whole model ([thr_val]); every theorem of proof/C05_*.v holds for every cap.  This file
    is about what the cap itself does: how the option is read ([eff_thr]), that no strategy ever returns more than
    [thr_val] embeddings, and that a capped search answers with EVERYTHING or with NOTHING — never with "the first k
    embeddings in enumeration order", which would make the answer depend on how the inputs are written.  Which of the
    two it is, is decided by counts that do not depend on the writing. *)
From Coq Require Import List NArith ZArith Bool Arith Lia Permutation SetoidList SetoidPermutation.
From SK Require Import lib.Tok lib.LGraph lib.Mono.
From SK Require model.C06_Model model.C11_Model.
From SK Require Import lib.C06_Spec proof.C06_All proof.C06_Comp proof.C06_CompSem proof.C06_Main.
From SK Require Import model.C03_Model model.C05_Model proof.C05_Proof proof.C05_Glue proof.C05_Pipe proof.C05_Order proof.C05_Sub.
Import ListNotations.

(** ** reading the option *)
Lemma eff_thr_spec :
  eff_thr None = 5000%N /\ (forall k, eff_thr (Some k) = k) /\ eff_thr (Some 0%N) = 0%N /\
  (forall o, @thr_val (thr_of o) = eff_thr o).
Proof. repeat split. Qed.

Section WithThr.
Context {TH : Thr}.

(** ** the final guard: no strategy returns more than the cap *)
Lemma matches_le_cap strat host pat : (C06_Model.lenN (matches strat host pat) <= thr_val)%N.
Proof.
  unfold matches, C06_Model.find. cbn [C06_Model.c_pref cfg_of andb C06_Model.c_thr].
  match goal with |- context [if (thr_val <? C06_Model.lenN ?r)%N then _ else _] => destruct (N.ltb_spec thr_val (C06_Model.lenN r)) end.
  - unfold C06_Model.lenN. simpl. lia.
  - assumption.
Qed.

Lemma cap_zero strat host pat : thr_val = 0%N -> matches strat host pat = [].
Proof.
  intros E. pose proof (matches_le_cap strat host pat) as H. rewrite E in H.
  destruct (matches strat host pat); [reflexivity|]. unfold C06_Model.lenN in H. simpl in H. lia.
Qed.

(** ** all or nothing *)
Definition enum_all (host : hostg) (pat : molg) : list mapping :=
  C06_Model.monos_on (host_c06 host) (pat_c06 pat) (node_ids (host_c06 host)) (node_ids (pat_c06 pat)).

Lemma limit0 {X} thr (U : list X) : limit 0 thr U = if (thr <? C06_Model.lenN U)%N then [] else U.
Proof.
  unfold limit. simpl. destruct (thr <? C06_Model.lenN U)%N; [reflexivity|].
  unfold C06_Model.lenN. rewrite Nat2N.id. apply firstn_all.
Qed.

Lemma all_or_nothing_all host pat :
  matches 0%N host pat = if (thr_val <? C06_Model.lenN (enum_all host pat))%N then [] else enum_all host pat.
Proof. rewrite matches_all_unfold. cbv zeta. rewrite monos_on'_eq. reflexivity. Qed.

Lemma all_or_nothing_comp host pat :
  matches 1%N host pat = [] \/
  matches 1%N host pat = comp_unl (C06_Model.monos_on (host_c06 host) (pat_c06 pat)) true (host_c06 host) (pat_c06 pat).
Proof.
  rewrite matches_monos_on. change (cfg_of 1%N) with (C06_Model.Cfg 1 0 thr_val true false).
  destruct (find_comp_limits (C06_Model.monos_on (host_c06 host) (pat_c06 pat)) 0 thr_val true (host_c06 host) (pat_c06 pat)) as [E|[E _]].
  - rewrite E, limit0. destruct (thr_val <? _)%N; [left|right]; reflexivity.
  - left. exact E.
Qed.

Lemma all_or_nothing_bt host pat :
  matches 2%N host pat = [] \/
  matches 2%N host pat = comp_unl (C06_Model.monos_on (host_c06 host) (pat_c06 pat)) true (host_c06 host) (pat_c06 pat) \/
  matches 2%N host pat = enum_all host pat.
Proof.
  rewrite matches_monos_on. change (cfg_of 2%N) with (C06_Model.Cfg 2 0 thr_val true false).
  pose proof (find_bt_limits (C06_Model.monos_on (host_c06 host) (pat_c06 pat)) 0 thr_val true (host_c06 host) (pat_c06 pat)) as Hb.
  cbv zeta in Hb. destruct Hb as [E|[_ E]]; rewrite E, limit0.
  - destruct (thr_val <? _)%N; [left; reflexivity|]. unfold bt_unl_result.
    destruct (comp_unl _ true (host_c06 host) (pat_c06 pat)) eqn:Ec; [right; right; reflexivity|right; left; reflexivity].
  - destruct (thr_val <? _)%N; [left; reflexivity|right; right; reflexivity].
Qed.

(** ** whether the exhaustive search is capped does not depend on the writing of the substrate nor on the numbering *)
Lemma enum_all_count_host_order (host host' : hostg) (pat : molg) :
  same_graph host host' -> C06_Model.lenN (enum_all host pat) = C06_Model.lenN (enum_all host' pat).
Proof.
  intros HS. unfold enum_all.
  assert (Hone : forall h h' : hostg, same_graph h h' -> forall m,
            In m (C06_Model.monos_on (host_c06 h) (pat_c06 pat) (node_ids (host_c06 h)) (node_ids (pat_c06 pat))) ->
            In m (C06_Model.monos_on (host_c06 h') (pat_c06 pat) (node_ids (host_c06 h')) (node_ids (pat_c06 pat)))).
  { intros h h' (H1 & H2 & H3 & H4 & H5) m. unfold C06_Model.monos_on.
    apply monos_host_order.
    - intros x. rewrite !node_ids_host_c06. apply H3.
    - intros x. rewrite !lab_host_c06, H1. reflexivity.
    - intros x y. rewrite !adj_host_c06, H2. reflexivity. }
  unfold C06_Model.lenN. f_equal. apply nodup_same_length.
  - apply monos_nodup. rewrite node_ids_host_c06. apply HS.
  - apply monos_nodup. rewrite node_ids_host_c06. apply HS.
  - intros m. split; [apply Hone; exact HS | apply Hone; apply same_graph_sym; exact HS].
Qed.

Lemma enum_all_count_relabel sg pi (Hs : inj sg) (Hp : inj pi) (host : hostg) (pat : molg) :
  C06_Model.lenN (enum_all (relabel pi host) (relabel sg pat)) = C06_Model.lenN (enum_all host pat).
Proof.
  unfold enum_all. rewrite <- !monos_on'_eq.
  rewrite host_c06_relabel, pat_c06_relabel, !node_ids_relabel.
  rewrite (monos_on'_relabel sg pi Hs Hp). apply lenN_map.
Qed.

(** the capped exhaustive search: nothing for the base writing iff nothing for any re-ordered writing of the renumbered
    substrate with the renumbered pattern *)
Lemma capped_invariant sg pi (Hs : inj sg) (Hp : inj pi) (host host' : hostg) (pat : molg) :
  same_graph (relabel pi host) host' ->
  C06_Model.lenN (enum_all host' (relabel sg pat)) = C06_Model.lenN (enum_all host pat).
Proof.
  intros HS. rewrite <- (enum_all_count_host_order _ _ _ HS). apply enum_all_count_relabel; assumption.
Qed.

(** the same for ANY rewriting — substrate and pattern both re-ordered (node lists, bond lists, bond orientation): the
    two enumerations list the same monomorphisms, each exactly once up to the order of the pairs *)
Lemma PermutationA_length' {X} (eqA : X -> X -> Prop) l l' : PermutationA eqA l l' -> length l = length l'.
Proof. induction 1; simpl; congruence. Qed.

Lemma enum_all_count_any_order (host host' : hostg) (pat pat' : molg) :
  same_graph host host' -> same_graph pat pat' ->
  gwf (host_c06 host) -> gwf (pat_c06 pat) -> gwf (host_c06 host') -> gwf (pat_c06 pat') ->
  C06_Model.lenN (enum_all host' pat') = C06_Model.lenN (enum_all host pat).
Proof.
  intros HS PS Hw Pw Hw' Pw'. unfold enum_all, C06_Model.lenN. f_equal.
  destruct (proj1 (monos_on_oracle_ok _ _ Hw Pw)) as (S1 & C1 & N1).
  destruct (proj1 (monos_on_oracle_ok _ _ Hw' Pw')) as (S2 & C2 & N2).
  apply (PermutationA_length' (@Permutation (N * N))).
  apply NoDupA_equivlistA_PermutationA; [apply Permutation_Equivalence|exact N2|exact N1|].
  intros m. rewrite !InA_alt. split.
  - intros (m' & Pm & Im). apply S2 in Im.
    destruct (C1 m' (is_mono_same host' host pat' pat m' (same_graph_sym _ _ HS) (same_graph_sym _ _ PS) Im)) as (m'' & I'' & P'').
    exists m''. split; [etransitivity; eassumption|exact I''].
  - intros (m' & Pm & Im). apply S1 in Im.
    destruct (C2 m' (is_mono_same host host' pat pat' m' HS PS Im)) as (m'' & I'' & P'').
    exists m''. split; [etransitivity; eassumption|exact I''].
Qed.

Lemma capped_invariant_any sg pi (Hs : inj sg) (Hp : inj pi) (host host'' : hostg) (pat pat'' : molg) :
  same_graph (relabel pi host) host'' -> same_graph (relabel sg pat) pat'' ->
  gwf (host_c06 (relabel pi host)) -> gwf (pat_c06 (relabel sg pat)) -> gwf (host_c06 host'') -> gwf (pat_c06 pat'') ->
  C06_Model.lenN (enum_all host'' pat'') = C06_Model.lenN (enum_all host pat).
Proof.
  intros HS PS G1 G2 G3 G4. rewrite (enum_all_count_any_order _ _ _ _ HS PS G1 G2 G3 G4).
  apply enum_all_count_relabel; assumption.
Qed.

(** ** comp <= all whenever the EXHAUSTIVE search is not capped — no premise about the component-aware search: under a cap it
    returns its limit-free result or nothing *)
Lemma comp_subset_all_any_cap (host : hostg) (pat : molg) :
  gwf (host_c06 host) -> gwf (pat_c06 pat) ->
  (C06_Model.lenN (enum_all host pat) <= thr_val)%N ->
  forall m, In m (matches 1%N host pat) -> exists m', In m' (matches 0%N host pat) /\ Permutation m m'.
Proof.
  intros HwH HwP Hl m Hin.
  destruct (all_or_nothing_comp host pat) as [E|E]; rewrite E in Hin; [destruct Hin|].
  set (H := host_c06 host) in *. set (P := pat_c06 pat) in *.
  pose proof (monos_on_oracle_ok H P HwH HwP) as Hor.
  rewrite matches_monos_on. fold H P. change (cfg_of 0%N) with (C06_Model.Cfg 0 0 thr_val true false).
  destruct (all_exact (C06_Model.monos_on H P) thr_val true H P (proj1 Hor) Hl) as (_ & Hcomplete & _).
  pose proof (comp_unl_spec (C06_Model.monos_on H P) H P HwH HwP Hor true) as S. cbv zeta in S.
  destruct ((0 <? length (C06_Model.comps P))%nat && (length (C06_Model.comps P) <? length (C06_Model.comps H))%nat && true)%bool.
  - rewrite S in Hin. destruct Hin.
  - destruct (length (C06_Model.comps H) <? length (C06_Model.comps P))%nat.
    + apply Hcomplete. apply (proj1 S). exact Hin.
    + apply Hcomplete. apply (proj1 S m Hin).
Qed.

Lemma bt_subset_all_any_cap (host : hostg) (pat : molg) :
  gwf (host_c06 host) -> gwf (pat_c06 pat) ->
  (C06_Model.lenN (enum_all host pat) <= thr_val)%N ->
  forall m, In m (matches 2%N host pat) -> exists m', In m' (matches 0%N host pat) /\ Permutation m m'.
Proof.
  intros HwH HwP Hl m Hin.
  destruct (all_or_nothing_bt host pat) as [E|[E|E]]; rewrite E in Hin; [destruct Hin| |].
  - (* the limit-free component-aware result: as in [comp_subset_all_any_cap] *)
    set (H := host_c06 host) in *. set (P := pat_c06 pat) in *.
    pose proof (monos_on_oracle_ok H P HwH HwP) as Hor.
    rewrite matches_monos_on. fold H P. change (cfg_of 0%N) with (C06_Model.Cfg 0 0 thr_val true false).
    destruct (all_exact (C06_Model.monos_on H P) thr_val true H P (proj1 Hor) Hl) as (_ & Hcomplete & _).
    pose proof (comp_unl_spec (C06_Model.monos_on H P) H P HwH HwP Hor true) as S. cbv zeta in S.
    destruct ((0 <? length (C06_Model.comps P))%nat && (length (C06_Model.comps P) <? length (C06_Model.comps H))%nat && true)%bool.
    + rewrite S in Hin. destruct Hin.
    + destruct (length (C06_Model.comps H) <? length (C06_Model.comps P))%nat.
      * apply Hcomplete. apply (proj1 S). exact Hin.
      * apply Hcomplete. apply (proj1 S m Hin).
  - exists m. split; [|apply Permutation_refl]. rewrite all_or_nothing_all.
    apply N.ltb_ge in Hl. rewrite Hl. exact Hin.
Qed.

(** ** a capped exhaustive search gives no result at all (and the property [its_list] returns the empty list) *)
Lemma capped_results (host : hostg) (p : prepared) :
  (thr_val < C06_Model.lenN (enum_all host (p_pat p)))%N ->
  raw_of 0%N host p = [] /\ kept_of 0%N host p = [] /\ glued_of 0%N host p = [] /\
  forall ex, results_of ex 0%N host p = Some [].
Proof.
  intros Hlt.
  assert (E : raw_of 0%N host p = []).
  { unfold raw_of. rewrite all_or_nothing_all. apply N.ltb_lt in Hlt. rewrite Hlt. reflexivity. }
  assert (K : kept_of 0%N host p = []) by (unfold kept_of; rewrite E; reflexivity).
  assert (G : glued_of 0%N host p = []) by (unfold glued_of; rewrite K; reflexivity).
  repeat split; try assumption. intros ex. unfold results_of. rewrite G. destruct ex; reflexivity.
Qed.

End WithThr.

(** ** REFUTED under a cap: "the component-aware strategy returns a subset of the exhaustive strategy".
    Halogen exchange  [C:1][Cl:2].[C:3][Br:4]>>[C:1][Br:4].[C:3][Cl:2]  (centre, implicit mode) on ClCCBr.ClCCBr:
    4 embeddings for the exhaustive search (2 C-Cl x 2 C-Br), 2 for the component-aware one (the two bonds in different
    molecules).  With embed_threshold = 3 the documented guard empties the exhaustive result only. *)
Definition cx_host : hostg := (LG [(1%N, (NA 17260%N false (0)%Z (0)%Z [67%N])); (2%N, (NA 67%N false (2)%Z (0)%Z [67%N; 17260%N])); (3%N, (NA 67%N false (2)%Z (0)%Z [17010%N; 67%N])); (4%N, (NA 17010%N false (0)%Z (0)%Z [67%N])); (5%N, (NA 17260%N false (0)%Z (0)%Z [67%N])); (6%N, (NA 67%N false (2)%Z (0)%Z [67%N; 17260%N])); (7%N, (NA 67%N false (2)%Z (0)%Z [17010%N; 67%N])); (8%N, (NA 17010%N false (0)%Z (0)%Z [67%N]))] [(1%N, 2%N, (2)%Z); (2%N, 3%N, (2)%Z); (3%N, 4%N, (2)%Z); (5%N, 6%N, (2)%Z); (6%N, 7%N, (2)%Z); (7%N, 8%N, (2)%Z)]).
Definition cx_tpl : its := (LG [(1%N, IN (NA 67%N false (0)%Z (0)%Z [17260%N]) (NA 67%N false (0)%Z (0)%Z [17010%N]) 0%Z None); (4%N, IN (NA 17010%N false (0)%Z (0)%Z [67%N]) (NA 17010%N false (0)%Z (0)%Z [67%N]) 0%Z None); (2%N, IN (NA 17260%N false (0)%Z (0)%Z [67%N]) (NA 17260%N false (0)%Z (0)%Z [67%N]) 0%Z None); (3%N, IN (NA 67%N false (0)%Z (0)%Z [17010%N]) (NA 67%N false (0)%Z (0)%Z [17260%N]) 0%Z None)] [(1%N, 4%N, ((0)%Z, (2)%Z, (-2)%Z)); (1%N, 2%N, ((2)%Z, (0)%Z, (2)%Z)); (4%N, 3%N, ((2)%Z, (0)%Z, (2)%Z)); (2%N, 3%N, ((0)%Z, (2)%Z, (-2)%Z))]).
Definition cx_p : prepared :=
  match prepare false true cx_tpl with Some p => p | None => Prep (LG [] []) (LG [] []) (LG [] []) false (LG [] []) end.

Lemma comp_subset_capped_refuted :
  exists (host : hostg) (p : prepared),
    length (@glued_of (thr_of None) 0%N host p) = 4%nat /\ length (@glued_of (thr_of None) 1%N host p) = 2%nat /\
    p_flag p = false /\ @glued_of (thr_of (Some 3%N)) 0%N host p = [] /\
    length (@glued_of (thr_of (Some 3%N)) 1%N host p) = 2%nat /\
    @glued_of (thr_of (Some 3%N)) 2%N host p = @glued_of (thr_of (Some 3%N)) 1%N host p.
Proof. exists cx_host, cx_p. repeat split; vm_compute; reflexivity. Qed.

(** non-vacuity: the cap at exactly the number of embeddings keeps everything, one below empties, cap 0 empties *)
Example cap_examples :
  length (@matches (thr_of (Some 4%N)) 0%N cx_host (p_pat cx_p)) = 4%nat /\
  @matches (thr_of (Some 4%N)) 0%N cx_host (p_pat cx_p) = enum_all cx_host (p_pat cx_p) /\
  @matches (thr_of (Some 3%N)) 0%N cx_host (p_pat cx_p) = [] /\
  (@thr_val (thr_of (Some 3%N)) < C06_Model.lenN (enum_all cx_host (p_pat cx_p)))%N /\
  @matches (thr_of (Some 0%N)) 1%N cx_host (p_pat cx_p) = [] /\
  length (@matches (thr_of (Some 2%N)) 1%N cx_host (p_pat cx_p)) = 2%nat /\
  @matches (thr_of (Some 1%N)) 2%N cx_host (p_pat cx_p) = [].
Proof. repeat split; vm_compute; reflexivity. Qed.

(** non-vacuity of [comp_subset_all_any_cap] / [bt_subset_all_any_cap]: cap 4 = the number of embeddings; the premises hold,
    2 component-aware = fallback matches, each among the 4 exhaustive ones *)
Example subset_any_cap_example :
  C06_Model.gwfb (host_c06 cx_host) = true /\ C06_Model.gwfb (pat_c06 (p_pat cx_p)) = true /\
  (C06_Model.lenN (enum_all cx_host (p_pat cx_p)) <= @thr_val (thr_of (Some 4%N)))%N /\
  length (@matches (thr_of (Some 4%N)) 1%N cx_host (p_pat cx_p)) = 2%nat /\
  length (@matches (thr_of (Some 4%N)) 2%N cx_host (p_pat cx_p)) = 2%nat /\
  forallb (fun m => existsb (fun m' => C11_Model.set_eqb m m') (@matches (thr_of (Some 4%N)) 0%N cx_host (p_pat cx_p)))
          (@matches (thr_of (Some 4%N)) 1%N cx_host (p_pat cx_p)) = true.
Proof. repeat split; vm_compute; try reflexivity. discriminate. Qed.
