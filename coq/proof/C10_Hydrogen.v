(** C10 — proofs, part 3: hydrogen conversions (h_to_explicit / h_to_implicit): total hydrogen count. *)
From Coq Require Import String List NArith ZArith Bool Lia.
From SK Require Import lib.Tok lib.LGraph lib.StrJoin model.C10_Model proof.C10_Views.
Import ListNotations.
Local Open Scope Z_scope.

(** ** sums *)
Lemma hsum_app l1 l2 : hsum (l1 ++ l2) = hsum l1 + hsum l2.
Proof. induction l1 as [|p r IH]; simpl; [reflexivity|]. rewrite IH. lia. Qed.

Lemma hsum_upd_node n f l a :
  assoc n l = Some a -> hsum (upd_node n f l) = hsum l - node_h a + node_h (f a).
Proof.
  induction l as [|[k b] r IH]; simpl; [discriminate|].
  destruct (N.eqb_spec n k) as [->|Hne].
  - intros [= ->]. rewrite N.eqb_refl. simpl. lia.
  - intros H. destruct (N.eqb_spec k n); [congruence|]. simpl. rewrite (IH H). lia.
Qed.

Lemma hsum_set_node (g : gr) n f a :
  label g n = Some a -> total_h (set_node g n f) = total_h g - node_h a + node_h (f a).
Proof. apply hsum_upd_node. Qed.

Lemma hsum_filter_ne n l a :
  NoDup (map fst l) -> assoc n l = Some a ->
  hsum (filter (fun p => negb (N.eqb (fst p) n)) l) = hsum l - node_h a.
Proof.
  induction l as [|[k b] r IH]; simpl; [discriminate|]. intros Hnd. inversion Hnd as [|? ? Hnot Hnd']; subst.
  destruct (N.eqb_spec n k) as [->|Hne].
  - intros [= ->]. rewrite N.eqb_refl. simpl.
    assert (filter (fun p : N * natt => negb (N.eqb (fst p) k)) r = r) as ->; [|lia].
    clear -Hnot. induction r as [|[k' b'] r IH]; simpl; [reflexivity|].
    destruct (N.eqb_spec k' k) as [->|]; [exfalso; apply Hnot; left; reflexivity|]. simpl. rewrite IH; [reflexivity|].
    intros H. apply Hnot. right. exact H.
  - intros H. destruct (N.eqb_spec k n); [congruence|]. simpl. rewrite (IH Hnd' H). lia.
Qed.

(** ** h_to_explicit *)
Definition bounded (g : gr) (mx : N) : Prop := forall n, In n (node_ids g) -> (n <= mx)%N.

Lemma fold_max_ge l : forall acc n, (In n l \/ (n <= acc)%N) -> (n <= fold_left N.max l acc)%N.
Proof.
  induction l as [|x r IH]; simpl; intros acc n H.
  - destruct H as [[]|H]; exact H.
  - apply IH. destruct H as [[->|H]|H]; [right; lia|left; exact H|right; lia].
Qed.
Lemma bounded_max_id (g : gr) : bounded g (max_id g).
Proof. intros n H. unfold max_id. apply fold_max_ge. left. exact H. Qed.

Definition add_h1 (g : gr) (mx heavy : N) : gr := add_edge (add_node g (N.succ mx) H_att) heavy (N.succ mx) e_single.

Lemma fresh_succ (g : gr) mx : bounded g mx -> has_node g (N.succ mx) = false.
Proof.
  intros B. destruct (has_node g (N.succ mx)) eqn:E; [|reflexivity].
  apply has_node_in in E. apply B in E. lia.
Qed.

Lemma gnodes_add_h1 (g : gr) mx heavy :
  bounded g mx -> has_node g heavy = true -> gnodes (add_h1 g mx heavy) = gnodes g ++ [(N.succ mx, H_att)].
Proof.
  intros B Hh. unfold add_h1. rewrite gnodes_add_edge_exist.
  - rewrite add_node_fresh by (apply fresh_succ; exact B). reflexivity.
  - rewrite has_node_add_node, Hh. apply orb_true_r.
  - rewrite has_node_add_node, N.eqb_refl. reflexivity.
Qed.

Lemma add_h1_props (g : gr) mx heavy :
  bounded g mx -> has_node g heavy = true ->
  bounded (add_h1 g mx heavy) (N.succ mx) /\ label (add_h1 g mx heavy) heavy = label g heavy /\
  total_h (add_h1 g mx heavy) = total_h g + 1.
Proof.
  intros B Hh. pose proof (gnodes_add_h1 g mx heavy B Hh) as E. repeat split.
  - intros n. unfold node_ids. rewrite E, map_app, in_app_iff. simpl. intros [H|[<-|[]]]; [apply B in H|]; lia.
  - unfold label. rewrite E, assoc_app. destruct (assoc heavy (gnodes g)) eqn:A; [reflexivity|].
    apply has_node_label in Hh. destruct Hh as [a Ha]. unfold label in Ha. congruence.
  - unfold total_h. rewrite E, hsum_app. simpl. unfold node_h. simpl. lia.
Qed.

Lemma add_hs_props k heavy : forall (g : gr) mx,
  bounded g mx -> has_node g heavy = true ->
  let st := add_hs k heavy (g, mx) in
  bounded (fst st) (snd st) /\ label (fst st) heavy = label g heavy /\ total_h (fst st) = total_h g + Z.of_nat k.
Proof.
  induction k as [|k IH]; intros g mx B Hh; simpl.
  - repeat split; [exact B|lia].
  - fold (add_h1 g mx heavy). destruct (add_h1_props g mx heavy B Hh) as (B1 & L1 & T1).
    assert (has_node (add_h1 g mx heavy) heavy = true) as Hh1.
    { apply has_node_label. apply has_node_label in Hh. destruct Hh as [a Ha]. exists a. congruence. }
    destruct (IH _ _ B1 Hh1) as (B2 & L2 & T2). repeat split; [exact B2|congruence|].
    rewrite T2, T1. lia.
Qed.

Lemma node_h_dec_h c a : node_h (dec_h c a) = node_h a - c.
Proof. unfold node_h, dec_h, el_is_H. simpl. lia. Qed.

Lemma bounded_set_node (g : gr) mx n f : bounded g mx -> bounded (set_node g n f) mx.
Proof. intros B m. rewrite node_ids_set_node. apply B. Qed.

Lemma node_h_dec_h_its c a : node_h (dec_h_its c a) = node_h a - c.
Proof. unfold node_h, dec_h_its, el_is_H. simpl. lia. Qed.

(** the its=False instance is the loop body the later proofs talk about *)
Lemma hexp_step_gen_false st heavy : hexp_step_gen false st heavy = hexp_step st heavy.
Proof. destruct st as [g mx]. unfold hexp_step_gen, hexp_step, hexp_count. destruct (label g heavy); reflexivity. Qed.

Lemma hexp_step_props its (st : gr * N) heavy :
  bounded (fst st) (snd st) ->
  bounded (fst (hexp_step_gen its st heavy)) (snd (hexp_step_gen its st heavy)) /\
  total_h (fst (hexp_step_gen its st heavy)) = total_h (fst st).
Proof.
  destruct st as [g mx]. simpl. intros B. unfold hexp_step_gen.
  destruct (label g heavy) as [a|] eqn:La; [|split; [exact B|reflexivity]].
  cbv zeta. set (c := hexp_count its a).
  destruct (Z.leb_spec c 0) as [Hc|Hc]; [split; [exact B|reflexivity]|].
  assert (has_node g heavy = true) as Hh by (apply has_node_label; eauto).
  pose proof (add_hs_props (Z.to_nat c) heavy g mx B Hh) as P. cbv zeta in P.
  destruct (add_hs (Z.to_nat c) heavy (g, mx)) as [g1 mx1]. simpl in P. destruct P as (B1 & L1 & T1).
  simpl. split; [apply bounded_set_node; exact B1|].
  rewrite (hsum_set_node g1 heavy _ a) by congruence.
  destruct its; [rewrite node_h_dec_h_its|rewrite node_h_dec_h]; rewrite T1; lia.
Qed.

Lemma hexp_fold_props its ns : forall st : gr * N,
  bounded (fst st) (snd st) -> total_h (fst (fold_left (hexp_step_gen its) ns st)) = total_h (fst st).
Proof.
  induction ns as [|n r IH]; intros st B; simpl; [reflexivity|].
  destruct (hexp_step_props its st n B) as (B1 & T1). rewrite IH by exact B1. exact T1.
Qed.

Lemma gnodes_normalize (g : gr) : gnodes (normalize_edge_orders g) = gnodes g.
Proof. reflexivity. Qed.

(** making hydrogens explicit never changes the total hydrogen count — any graph, any node list, both modes *)
Theorem h_total_explicit (g : gr) (nodes : option (list N)) (its : bool) :
  total_h (h_to_explicit g nodes its) = total_h g.
Proof.
  unfold h_to_explicit.
  set (ns := match nodes with Some [] | None => node_ids g | Some l => l end).
  assert (total_h (fst (fold_left (hexp_step_gen its) ns (copy g, max_id g))) = total_h g) as E.
  { rewrite hexp_fold_props; [reflexivity|]. simpl. intros n H. apply (bounded_max_id g). exact H. }
  destruct its; [unfold total_h in *; rewrite gnodes_normalize|]; exact E.
Qed.

(** with its=False: the loop of the later proofs *)
Lemma fold_hexp_false l : forall st, fold_left (hexp_step_gen false) l st = fold_left hexp_step l st.
Proof. induction l as [|n r IH]; intros st; [reflexivity|]. simpl. rewrite hexp_step_gen_false. apply IH. Qed.
Lemma h_to_explicit_false (g : gr) (nodes : option (list N)) :
  h_to_explicit g nodes false = fst (fold_left hexp_step (exp_nodes g nodes) (copy g, max_id g)).
Proof. unfold h_to_explicit, exp_nodes. cbv zeta. rewrite fold_hexp_false. reflexivity. Qed.

(** ** h_to_implicit *)
Lemma is_H_set_node_inc (g : gr) x m : is_H (set_node g x inc_h) m = is_H g m.
Proof. unfold is_H. rewrite label_set_node. destruct (N.eqb m x), (label g m); reflexivity. Qed.

Lemma node_h_inc_h a : node_h (inc_h a) = node_h a + 1.
Proof. unfold node_h, inc_h, el_is_H. simpl. lia. Qed.

Lemma is_H_remove (g : gr) h m : m <> h -> is_H (remove_node g h) m = is_H g m.
Proof. intros H. unfold is_H. rewrite label_remove_node. destruct (N.eqb_spec m h); [congruence|reflexivity]. Qed.

Lemma nbrs_remove (g : gr) h n : n <> h -> nbrs (remove_node g h) n = filter (fun m => negb (N.eqb m h)) (nbrs g n).
Proof.
  intros Hn. unfold nbrs, remove_node. simpl. induction (gedges g) as [|[[a b] x] r IH]; [reflexivity|].
  simpl. destruct (N.eqb_spec a h) as [->|Ha]; simpl.
  - destruct (N.eqb_spec h n); [congruence|]. destruct (N.eqb_spec b n) as [->|]; simpl.
    + rewrite N.eqb_refl. simpl. exact IH.
    + exact IH.
  - destruct (N.eqb_spec b h) as [->|Hb]; simpl.
    + destruct (N.eqb_spec a n) as [->|]; simpl; [rewrite N.eqb_refl; simpl; exact IH|].
      destruct (N.eqb_spec h n); [congruence|exact IH].
    + destruct (N.eqb_spec a n) as [->|]; simpl.
      * destruct (N.eqb_spec b h); [congruence|]. simpl. f_equal. exact IH.
      * destruct (N.eqb_spec b n) as [->|]; simpl; [|exact IH].
        destruct (N.eqb_spec a h); [congruence|]. simpl. f_equal. exact IH.
Qed.

Lemma filter_filter {A} (p q : A -> bool) l : filter p (filter q l) = filter (fun x => q x && p x) l.
Proof. induction l as [|x r IH]; simpl; [reflexivity|]. destruct (q x); simpl; [destruct (p x)|]; rewrite ?IH; reflexivity. Qed.
Lemma filter_length_le {A} (p : A -> bool) l : (length (filter p l) <= length l)%nat.
Proof. induction l as [|x r IH]; simpl; [lia|]. destruct (p x); simpl; lia. Qed.

(** the graph after one loop iteration on hydrogen [h] whose single heavy neighbour is [x] *)
Definition fold1 (g : gr) (x h : N) : gr := remove_node (set_node g x inc_h) h.

Lemma himp_step_single (g : gr) h x : heavy_nbrs g h = [x] -> himp_step g h = fold1 g x h.
Proof. unfold himp_step, heavy_nbrs. intros ->. reflexivity. Qed.
Lemma himp_step_none (g : gr) h : heavy_nbrs g h = [] -> himp_step g h = g.
Proof. unfold himp_step, heavy_nbrs. intros ->. reflexivity. Qed.

Lemma heavy_nbrs_fold1 (g : gr) x h n :
  n <> h -> heavy_nbrs (fold1 g x h) n = filter (fun m => negb (N.eqb m h)) (heavy_nbrs g n).
Proof.
  intros Hn. unfold heavy_nbrs, fold1. rewrite nbrs_remove by exact Hn. simpl.
  rewrite !filter_filter. apply filter_ext_in. intros m _.
  destruct (N.eqb_spec m h) as [->|Hm]; simpl; [rewrite andb_false_r; reflexivity|].
  rewrite is_H_remove by exact Hm. rewrite is_H_set_node_inc, andb_true_r. reflexivity.
Qed.

(** the per-node domain condition, as a proposition about the current graph *)
Definition ok_at (g : gr) (n : N) (a : natt) : Prop :=
  el_is_H a = true ->
  dflt (a_hc a) 0 = 0 /\ (heavy_nbrs g n = [] \/ exists x, heavy_nbrs g n = [x] /\ has_node g x = true).
Definition dom (g : gr) : Prop := forall n a, label g n = Some a -> ok_at g n a.

Lemma h_dom_dom (g : gr) : h_dom g = true -> dom g.
Proof.
  unfold h_dom. rewrite forallb_forall. intros H n a Hl Hel. apply assoc_in in Hl.
  specialize (H _ Hl). unfold h_ok_node in H. simpl in H.
  rewrite Hel in H. simpl in H. apply andb_true_iff in H as [H1 H2]. split; [apply Z.eqb_eq; exact H1|].
  destruct (heavy_nbrs g n) as [|x [|y r]]; [left; reflexivity|right; exists x; auto|discriminate].
Qed.

Lemma node_ids_remove_node (g : gr) h : node_ids (remove_node g h) = filter (fun m => negb (N.eqb m h)) (node_ids g).
Proof.
  unfold node_ids, remove_node. simpl. induction (gnodes g) as [|[k a] r IH]; simpl; [reflexivity|].
  destruct (N.eqb k h); simpl; rewrite IH; reflexivity.
Qed.
Lemma has_node_remove_node (g : gr) h y : has_node (remove_node g h) y = if N.eqb y h then false else has_node g y.
Proof. unfold has_node. rewrite label_remove_node. destruct (N.eqb y h); reflexivity. Qed.

Lemma is_H_label (g : gr) h : is_H g h = true <-> exists a, label g h = Some a /\ el_is_H a = true.
Proof.
  unfold is_H. destruct (label g h) as [a|]; split; intros H; eauto; try discriminate.
  - destruct H as (b & [= <-] & Hb). exact Hb.
  - destruct H as (b & Hb & _). discriminate.
Qed.

Definition Inv (g : gr) (hs : list N) : Prop :=
  NoDup (node_ids g) /\ dom g /\ (forall h, In h hs -> is_H g h = true) /\ NoDup hs.

Lemma fold1_step (g : gr) x h a r :
  Inv g (h :: r) -> label g h = Some a -> el_is_H a = true -> heavy_nbrs g h = [x] -> has_node g x = true ->
  Inv (fold1 g x h) r /\ total_h (fold1 g x h) = total_h g.
Proof.
  intros (Hnd & Hdom & HH & Hhs) La Hel Hx Hhx.
  assert (is_H g x = false) as HxH.
  { assert (In x (heavy_nbrs g h)) as Hin by (rewrite Hx; left; reflexivity).
    unfold heavy_nbrs in Hin. apply filter_In in Hin. destruct Hin as [_ Hin]. apply negb_true_iff in Hin. exact Hin. }
  assert (x <> h) as Hxh.
  { intros ->. assert (is_H g h = true) as E by (apply HH; left; reflexivity). congruence. }
  destruct (Hdom h a La Hel) as [Hc _].
  apply has_node_label in Hhx. destruct Hhx as [ax Lx].
  split; [split; [|split; [|split]]|].
  - unfold fold1. rewrite node_ids_remove_node, node_ids_set_node. apply NoDup_filter. exact Hnd.
  - intros n a' Ln Hel'. unfold fold1 in Ln. rewrite label_remove_node in Ln.
    destruct (N.eqb_spec n h) as [|Hnh]; [discriminate|]. rewrite label_set_node in Ln.
    assert (n <> x) as Hnx.
    { intros ->. rewrite N.eqb_refl, Lx in Ln. simpl in Ln. injection Ln as <-.
      unfold is_H in HxH. rewrite Lx in HxH. unfold inc_h, el_is_H in Hel'. simpl in Hel'. unfold el_is_H in HxH. congruence. }
    destruct (N.eqb_spec n x); [congruence|].
    destruct (Hdom n a' Ln Hel') as [Hc' Hn']. split; [exact Hc'|].
    rewrite heavy_nbrs_fold1 by exact Hnh.
    destruct Hn' as [->|(y & -> & Hy)]; [left; reflexivity|]. simpl.
    destruct (N.eqb_spec y h) as [->|Hyh]; simpl; [left; reflexivity|]. right. exists y. split; [reflexivity|].
    unfold fold1. rewrite has_node_remove_node. destruct (N.eqb_spec y h); [congruence|]. rewrite has_node_set_node. exact Hy.
  - intros h' Hin. inversion Hhs as [|? ? Hnot Hr]; subst.
    assert (h' <> h) by (intros ->; contradiction).
    unfold fold1. rewrite is_H_remove by assumption. rewrite is_H_set_node_inc. apply HH. right. exact Hin.
  - inversion Hhs; assumption.
  - unfold fold1, total_h, remove_node. simpl.
    rewrite (hsum_filter_ne h _ a).
    + rewrite (hsum_upd_node x inc_h _ ax Lx). rewrite node_h_inc_h. unfold node_h at 3. rewrite Hel, Hc. lia.
    + rewrite fst_upd_node. exact Hnd.
    + rewrite assoc_upd_node. destruct (N.eqb_spec h x); [congruence|]. exact La.
Qed.

Lemma himp_fold_total hs : forall g : gr, Inv g hs -> total_h (fold_left himp_step hs g) = total_h g.
Proof.
  induction hs as [|h r IH]; intros g HI; simpl; [reflexivity|].
  destruct HI as (Hnd & Hdom & HH & Hhs).
  assert (is_H g h = true) as Hh by (apply HH; left; reflexivity).
  apply is_H_label in Hh. destruct Hh as (a & La & Hel).
  destruct (Hdom h a La Hel) as [Hc [Hn|(x & Hx & Hhx)]].
  - rewrite himp_step_none by exact Hn. apply IH. split; [exact Hnd|split; [exact Hdom|split]].
    + intros h' Hin. apply HH. right. exact Hin.
    + inversion Hhs; assumption.
  - rewrite (himp_step_single g h x Hx).
    destruct (fold1_step g x h a r (conj Hnd (conj Hdom (conj HH Hhs))) La Hel Hx Hhx) as [HI' T].
    rewrite IH by exact HI'. exact T.
Qed.

(** folding explicit hydrogens into hcount keeps the total hydrogen count, on the domain [h_dom]
    (stated on [copy g], the adjacency-ordered view networkx iterates) *)
Theorem h_total_implicit (g : gr) :
  NoDup (node_ids g) -> h_dom (copy g) = true -> total_h (h_to_implicit g) = total_h g.
Proof.
  intros Hnd Hd. unfold h_to_implicit. cbv zeta.
  rewrite himp_fold_total; [reflexivity|].
  split; [exact Hnd|split; [apply h_dom_dom; exact Hd|split]].
  - intros h Hin. apply filter_In in Hin. tauto.
  - apply NoDup_filter. exact Hnd.
Qed.

(** ** non-vacuity and the cases outside the domain *)
Local Open Scope string_scope.
Definition mk (el : string) (hc : Z) : natt := NA (Some (s2l el)) (Some false) (Some hc) (Some 0) (Some 0) None.
Definition e1 : eatt := EA (Some (OS 2)) None.
(** CH3-NH2 written implicitly, and CH4 with one of its hydrogens explicit (node 7) *)
Definition ex_methylamine : gr := LG [(1, mk "C" 3); (2, mk "N" 2)]%N [(1, 2, e1)]%N.
Definition ex_ch4_partial : gr := LG [(5, mk "C" 3); (7, mk "H" 0)]%N [(7, 5, e1)]%N.
(** diborane-like bridge B-H-B, H2, and a hydrogen that carries an hcount of its own *)
Definition ex_bridge : gr := LG [(1, mk "B" 2); (2, mk "H" 0); (3, mk "B" 2)]%N [(1, 2, e1); (2, 3, e1)]%N.
Definition ex_h2 : gr := LG [(1, mk "H" 0); (2, mk "H" 0)]%N [(1, 2, e1)]%N.
Definition ex_hh : gr := LG [(1, mk "C" 3); (2, mk "H" 1)]%N [(1, 2, e1)]%N.

Example h_total_explicit_ex :
  total_h ex_methylamine = 5 /\ total_h (h_to_explicit ex_methylamine None false) = 5 /\
  length (gnodes (h_to_explicit ex_methylamine None false)) = 7%nat.
Proof. vm_compute. auto. Qed.
Example h_total_implicit_ex :
  NoDup (node_ids ex_ch4_partial) /\ h_dom (copy ex_ch4_partial) = true /\
  total_h ex_ch4_partial = 4 /\ gnodes (h_to_implicit ex_ch4_partial) = [(5%N, mk "C" 4)].
Proof. split; [repeat constructor; simpl; intuition discriminate|vm_compute; auto]. Qed.
(** outside the domain the count does change: a bridging hydrogen is credited to both neighbours, and the
    hcount of a hydrogen node is dropped with it; H2 is in the domain and is kept by the repaired code *)
Example h_total_implicit_bridge :
  h_dom (copy ex_bridge) = false /\ total_h ex_bridge = 5 /\ total_h (h_to_implicit ex_bridge) = 6.
Proof. vm_compute. auto. Qed.
Example h_total_implicit_hh :
  h_dom (copy ex_hh) = false /\ total_h ex_hh = 5 /\ total_h (h_to_implicit ex_hh) = 4.
Proof. vm_compute. auto. Qed.
Example h_total_implicit_h2 :
  h_dom (copy ex_h2) = true /\ total_h (h_to_implicit ex_h2) = 2 /\
  (* the code as it was before repair 7497a0b lost the molecule *)
  gnodes (h_to_implicit_old ex_h2) = [].
Proof. vm_compute. auto. Qed.
