(** C16 — lemmas shared by the graph round trips: normalisation of positive coefficient lists, folds over binds,
    rebuilding a network by a sequence of [add] calls with explicit distinct ids. *)
From stdpp Require Import gmap strings sets pretty sorting.
From SK Require Import lib.Tok model.C15_Model proof.C15_Proof model.C16_Model proof.C16_Defs.
Local Open Scope string_scope.
Local Open Scope list_scope.

Lemma foldl_bind {A B C} (f : A → C → A) (g : B → list C) (l : list B) : ∀ a,
  foldl f a (l ≫= g) = foldl (λ a x, foldl f a (g x)) a l.
Proof. induction l as [|x l IH]; intros a; [done|]. cbn [mbind list_bind]. rewrite foldl_app. apply IH. Qed.

Lemma foldl_ext_in {A B} (f g : A → B → A) (l : list B) : (∀ a x, x ∈ l → f a x = g a x) → ∀ a, foldl f a l = foldl g a l.
Proof.
  induction l as [|x l IH]; intros Hfg a; [done|]. simpl. rewrite Hfg by left. apply IH. intros ???. apply Hfg. by right.
Qed.

Lemma fmap_fst_prod_map {A B C} (f : B → C) (l : list (A * B)) : (prod_map id f <$> l).*1 = l.*1.
Proof. induction l as [|[] ? IH]; [done|]. by rewrite !fmap_cons, IH. Qed.

(** * normalize on a list with distinct keys and positive counts *)
Definition nstep (acc : gmap string positive) (sc : string * Z) : gmap string positive :=
  if (0 <? sc.2)%Z then <[ sc.1 := match acc !! sc.1 with Some p => (p + Z.to_pos sc.2)%positive | None => Z.to_pos sc.2 end ]> acc
  else acc.
Lemma normalize_nstep l : normalize l = foldl nstep ∅ l.
Proof. unfold normalize. apply foldl_ext_in. by intros a [s c] _. Qed.

Lemma nstep_fold (l : list (string * Z)) : NoDup l.*1 → Forall (λ p, (0 < p.2)%Z) l →
  ∀ acc : gmap string positive, (∀ s, s ∈ l.*1 → acc !! s = None) →
  foldl nstep acc l = (list_to_map (prod_map id Z.to_pos <$> l) : gmap string positive) ∪ acc.
Proof.
  induction l as [|[s c] l IH]; intros Hnd Hpos acc Hacc.
  - simpl. by rewrite (left_id_L ∅ (∪)).
  - rewrite fmap_cons in Hnd. apply NoDup_cons in Hnd as [Hs Hnd]. apply Forall_cons in Hpos as [Hc Hpos].
    cbn [fst snd] in Hs, Hc. cbn [foldl]. rewrite fmap_cons. cbn [prod_map fst snd id]. rewrite list_to_map_cons.
    assert (nstep acc (s, c) = <[s := Z.to_pos c]> acc) as ->.
    { unfold nstep. simpl. rewrite (Hacc s) by set_solver. by rewrite (proj2 (Z.ltb_lt 0 c)) by done. }
    rewrite IH; [|done|done|].
    + apply map_eq. intros k. rewrite !lookup_union. destruct (decide (k = s)) as [->|Hk].
      * rewrite !lookup_insert, (Hacc s) by set_solver. rewrite (not_elem_of_list_to_map_1 _ s); [done|].
        by rewrite fmap_fst_prod_map.
      * by rewrite !lookup_insert_ne by done.
    + intros s' Hs'. rewrite lookup_insert_ne by set_solver. apply Hacc. set_solver.
Qed.

Lemma normalize_pos_map (sd : gmap string positive) : normalize (map_to_list (Z.pos <$> sd)) = sd.
Proof.
  rewrite normalize_nstep, nstep_fold.
  - rewrite (right_id_L ∅ (∪)). rewrite list_to_map_fmap, list_to_map_to_list. rewrite <-map_fmap_compose.
    apply map_eq. intros k. rewrite lookup_fmap. by destruct (sd !! k).
  - apply NoDup_fst_map_to_list.
  - apply Forall_forall. intros [s c] Hin. apply elem_of_map_to_list in Hin. rewrite lookup_fmap in Hin.
    destruct (sd !! s); simplify_eq/=. lia.
  - intros s _. apply lookup_empty.
Qed.

(** * rebuilding by explicit-id adds *)
Section rebuild.
  Context {A : Type} (fid : A → string) (fl fr : A → side) (frule : A → string).
  Definition rebuild_step (acc : net * option cerr) (x : A) : net * option cerr :=
    match acc with
    | (s, Some e) => (s, Some e)
    | (s, None) => let '(s', er, _) := add s (fl x) (fr x) (frule x) (Some (fid x)) in (s', of_err <$> er)
    end.
  Definition rebuilt (x : A) : string * rxn := (fid x, Rxn (norm_rule (frule x)) (fl x) (fr x)).
  Lemma rebuilt_fst (l : list A) : (rebuilt <$> l).*1 = fid <$> l.
  Proof. induction l as [|? ? IH]; [done|]. by rewrite !fmap_cons, IH. Qed.

  Lemma rebuild_fold (l : list A) : NoDup (fid <$> l) → Forall (λ x, ¬ (fl x = ∅ ∧ fr x = ∅)) l →
    ∀ s, (∀ x, x ∈ l → edges s !! fid x = None) →
    ∃ s', foldl rebuild_step (s, None) l = (s', None) ∧
          edges s' = (list_to_map (rebuilt <$> l) : gmap string rxn) ∪ edges s ∧
          species s' = species s ∪ ⋃ ((λ x, dom (fl x) ∪ dom (fr x)) <$> l) ∧ mol s' = mol s.
  Proof.
    induction l as [|x l IH]; intros Hnd Hne s Hfresh.
    - exists s. split; [done|]. simpl. rewrite (left_id_L ∅ (∪)). split; [done|]. split; [set_solver|done].
    - rewrite fmap_cons in Hnd. apply NoDup_cons in Hnd as [Hx Hnd]. apply Forall_cons in Hne as [Hxne Hne].
      cbn [foldl]. unfold rebuild_step at 2.
      rewrite add_explicit_ok; [|apply Hfresh; by left|].
      2:{ unfold rxn_empty. simpl. by apply bool_decide_eq_false. }
      cbn [fmap option_fmap option_map].
      destruct (IH Hnd Hne (register s (fid x) (Rxn (norm_rule (frule x)) (fl x) (fr x)))) as (s' & Hf & He & Hs & Hm).
      { intros y Hy. simpl. rewrite lookup_insert_ne.
        - apply Hfresh. by right.
        - intros E. apply Hx. rewrite E. apply elem_of_list_fmap. eauto. }
      exists s'. split; [exact Hf|]. split_and!.
      + rewrite He. cbn [edges register]. rewrite fmap_cons.
        change (list_to_map (rebuilt x :: (rebuilt <$> l))) with (<[fid x := Rxn (norm_rule (frule x)) (fl x) (fr x)]> (list_to_map (rebuilt <$> l) : gmap string rxn)).
        apply map_eq. intros k. rewrite !lookup_union. destruct (decide (k = fid x)) as [->|Hk].
        * rewrite !lookup_insert, (not_elem_of_list_to_map_1 _ (fid x)) by (by rewrite rebuilt_fst).
          rewrite (Hfresh x) by left. done.
        * by rewrite !lookup_insert_ne by done.
      + rewrite Hs. cbn [species register]. unfold rxn_species. cbn [r_lhs r_rhs]. rewrite fmap_cons, union_list_cons. set_solver.
      + by rewrite Hm.
  Qed.
End rebuild.

Lemma set_mol_edges s x m : edges (set_mol s x m) = edges s.
Proof. done. Qed.
