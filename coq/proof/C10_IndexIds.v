(** C10 — proofs, part 33: the positive side of the known finding smiles_to_graph:use_index_as_atom_map:partial-mapping-id-collision.
    MolToGraph.transform(drop_non_aam=False, use_index_as_atom_map=ui) loses no atom exactly when the ids it assigns are pairwise
    distinct: then the graph has one node per atom, in atom order, with these ids. *)
From Coq Require Import String List NArith ZArith Bool Lia.
From SK Require Import lib.Tok lib.LGraph lib.StrJoin model.C10_Model model.C10_Rxn proof.C10_Views proof.C10_Build proof.C10_Copy
  proof.C10_MolGraph.
Import ListNotations.
Local Open Scope Z_scope.

Lemma m2g_nodes_ids ui atoms : forall idx (g : gr) i2,
  NoDup (node_ids g ++ atom_ids ui idx atoms) -> gwf g ->
  (forall bi u, assoc bi i2 = Some u -> has_node g u = true) ->
  let st := m2g_nodes false ui idx atoms (g, i2) in
  node_ids (fst st) = node_ids g ++ atom_ids ui idx atoms /\ gedges (fst st) = gedges g /\ gwf (fst st) /\
  (forall bi u, assoc bi (snd st) = Some u -> has_node (fst st) u = true).
Proof.
  induction atoms as [|a r IH]; intros idx g i2 Hnd W Hi; cbn [m2g_nodes atom_ids].
  - cbv zeta. simpl. rewrite app_nil_r. auto.
  - simpl andb. cbv iota. cbn [fst snd].
    assert (has_node g (atom_id ui idx a) = false) as Hf.
    { apply not_true_is_false. intros H. apply has_node_in in H. apply NoDup_remove_2 in Hnd. apply Hnd. apply in_app_iff. left. exact H. }
    rewrite (add_node_fresh g _ _ Hf).
    set (g1 := LG (gnodes g ++ [(atom_id ui idx a, atom_att a)]) (gedges g)).
    assert (node_ids g1 = node_ids g ++ [atom_id ui idx a]) as E1 by (unfold node_ids, g1; simpl; rewrite map_app; reflexivity).
    destruct (IH (N.succ idx) g1 ((idx, atom_id ui idx a) :: i2)) as (A & B & C & D).
    + rewrite E1, <- app_assoc. exact Hnd.
    + unfold g1. rewrite <- (add_node_fresh g _ _ Hf). apply gwf_add_node, W.
    + intros bi u. simpl. destruct (N.eqb bi idx).
      * intros [= <-]. apply has_node_in. rewrite E1. apply in_app_iff. right. left. reflexivity.
      * intros H. apply Hi in H. apply has_node_in in H. apply has_node_in. rewrite E1. apply in_app_iff. left. exact H.
    + cbv zeta in *. rewrite A, E1, <- app_assoc. auto.
Qed.

Lemma fold_bonds_ids tbl l : forall g : gr, (forall bi u, assoc bi tbl = Some u -> has_node g u = true) ->
  gnodes (fold_left (m2g_bond tbl) l g) = gnodes g.
Proof.
  induction l as [|[[b e] o] r IH]; intros g H; [reflexivity|]. cbn [fold_left]. unfold m2g_bond at 2.
  destruct (assoc b tbl) as [u|] eqn:Ab; [|apply IH, H]. destruct (assoc e tbl) as [v|] eqn:Ae; [|apply IH, H].
  assert (gnodes (add_edge g u v (EA (Some (OS o)) None)) = gnodes g) as E by (apply gnodes_add_edge_exist; [apply (H b u Ab)|apply (H e v Ae)]).
  rewrite IH; [exact E|]. intros bi w Hw. unfold has_node, label. rewrite E. apply (H bi w Hw).
Qed.

Theorem index_ids_no_collision (m : rmol) (ui : bool) : nodupb (atom_ids ui 0 (fst m)) = true ->
  node_ids (mol_to_graph m false ui) = atom_ids ui 0 (fst m).
Proof.
  intros Hnd. apply nodupb_NoDup in Hnd. unfold mol_to_graph.
  destruct (m2g_nodes_ids ui (fst m) 0%N g_empty [] Hnd gwf_empty) as (A & _ & _ & D); [intros bi u; discriminate|].
  cbv zeta in A, D. unfold node_ids at 1. rewrite fold_bonds_ids by exact D. exact A.
Qed.

Lemma atom_ids_length ui l : forall idx, List.length (atom_ids ui idx l) = List.length l.
Proof. induction l as [|a r IH]; intros idx; [reflexivity|]. simpl. rewrite IH. reflexivity. Qed.

(** non-vacuity, both sides: [CH3:10][CH:20]=C keeps its three atoms, [CH3:2]C (the finding's witness) has colliding ids *)
Definition ex_partial_ok : rmol := ([RAt (s2l "C") false 3 0 10; RAt (s2l "C") false 1 0 20; RAt (s2l "C") false 2 0 0], [(0%N, 1%N, 2); (1%N, 2%N, 4)]).
Example index_ids_no_collision_ex :
  nodupb (atom_ids true 0 (fst ex_partial_ok)) = true /\ node_ids (mol_to_graph ex_partial_ok false true) = [10; 20; 3]%N /\
  nodupb (atom_ids true 0 [RAt (s2l "C") false 3 0 2; RAt (s2l "C") false 3 0 0]) = false.
Proof. vm_compute. repeat split. Qed.
