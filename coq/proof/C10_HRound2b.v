(** C10 — proofs, part 35 (round 6): on molecule graphs with bare hydrogens (H2, H+, lone H) explicit-then-implicit hands RDKit the
    same molecule. *)
From Coq Require Import String List NArith ZArith Bool Lia.
From SK Require Import lib.Tok lib.LGraph lib.StrJoin model.C10_Model model.C10_Rxn proof.C10_Views proof.C10_Build proof.C10_Copy
  proof.C10_MolGraph proof.C10_Hydrogen proof.C10_HRound proof.C10_HRoundIts proof.C10_G2MSpec proof.C10_G2MExt proof.C10_HRound2.
Import ListNotations.
Local Open Scope Z_scope.

Theorem h_roundtrip_bare_molecule (g : gr) (nodes : option (list N)) : gwfb g = true -> bare_H g -> no_tgh g = true ->
  (forall u v x, adj g u v = Some x -> u <> v /\ scalar_ord x) ->
  exists atoms b1 b2, graph_to_mol (h_to_implicit (h_to_explicit g nodes false)) = Some (atoms, b1) /\ graph_to_mol g = Some (atoms, b2) /\
                      forall i j, bond_find i j b1 = bond_find i j b2.
Proof.
  intros Hw Hb Ht Hm. pose proof (gwfb_gwf g Hw) as W. destruct (h_roundtrip_bare_mol g nodes Hw Hb Ht) as (A & B & C). cbv zeta in A, B, C.
  set (g' := h_to_implicit (h_to_explicit g nodes false)) in *.
  assert (gwf g') as W' by (apply h_to_implicit_gwf, h_to_explicit_gwf, W).
  apply (graph_to_mol_ext g' g W' W); [|exact A|exact B|exact C].
  intros u v x Ax. rewrite C in Ax. apply (Hm u v x Ax).
Qed.

Example h_roundtrip_bare_molecule_ex :
  graph_to_mol (h_to_implicit (h_to_explicit ex_bare None false)) = graph_to_mol ex_bare /\ graph_to_mol ex_bare <> None.
Proof. vm_compute. split; [reflexivity|discriminate]. Qed.
