(** C09 — the exact back-end on a CANONICAL graph returns the identity order, for EVERY graph (round 6).

    Let q0 be the best leaf of the search on g and h a presentation of g renamed by pi with pi q0 = [1; 2; ...; N] and
    atom_map = node id (what the parser returns for the canonical string).  The search tree of h is the image of the tree of
    g; at depth j the target cell of the path to pi q0 contains no individualised vertex, i.e. only ids > j, and it contains
    j + 1: the child visited FIRST (children are visited in increasing atom_map = id).  So pi q0 = [1..N] is the first leaf of
    the whole depth-first enumeration, its label is the minimal one, and [visit] replaces the best leaf only by a strictly
    smaller label: nauty_perm h = [1..N].  No hypothesis on the automorphisms of g. *)
From Coq Require Import List NArith ZArith Bool Arith Lia Permutation.
From SK Require Import lib.LGraph lib.IRSortKeys lib.IRCore lib.IRSearch model.C08_Model
  proof.C08_Spec proof.C08_IR proof.C08_Nauty proof.C08_Equiv proof.C08_Auts proof.C08_Sort.
From SK Require lib.IRInst.
Import ListNotations.

(** * small list facts *)
Lemma app_eq_len {X} : forall (l1 m1 l2 m2 : list X), l1 ++ l2 = m1 ++ m2 -> length l1 = length m1 -> l1 = m1 /\ l2 = m2.
Proof.
  induction l1 as [|x l1 IH]; intros [|y m1] l2 m2 E Hl; simpl in *; try discriminate; auto.
  injection E as -> E. destruct (IH m1 l2 m2 E) as [-> ->]; [lia|]. auto.
Qed.

(** the head of a sorted list is its strict minimum *)
Lemma sort_head (key : N -> list Z) (l : list N) (m : N) : In m l ->
  (forall w, In w l -> w <> m -> lexleb (key w) (key m) = false) -> exists tl, sort_by key l = m :: tl.
Proof.
  intros Im Hmin. pose proof (sort_by_sorted key l) as Hs. pose proof (sort_by_perm key l) as Hp.
  destruct (sort_by key l) as [|x tl] eqn:E.
  - apply Permutation_nil in Hp. subst l. destruct Im.
  - exists tl. f_equal.
    assert (Ix : In x l) by (apply (Permutation_in _ Hp); left; reflexivity).
    assert (Im' : In m (x :: tl)) by (apply (Permutation_in _ (Permutation_sym Hp)); exact Im).
    destruct Im' as [Ex|It]; [exact Ex|].
    inversion Hs as [|? ? _ Hx]; subst.
    destruct (N.eq_dec x m) as [Ex|Hne]; [exact Ex|].
    specialize (Hx m It). rewrite (Hmin x Ix Hne) in Hx. discriminate.
Qed.

(** folding [visit] over leaves whose labels are all >= the current best label keeps the best leaf *)
Lemma fold_visit_keep (k : graph) : forall (l : list (list N)) (a : nacc) bl bp,
  fst a = Some (bl, bp) -> (forall q, In q l -> strleb bl (nlabel k q) = true) ->
  fst (fold_left (visit strleb (nlabel k)) l a) = Some (bl, bp).
Proof.
  induction l as [|p l IH]; intros a bl bp Ha Hl; [exact Ha|]. cbn [fold_left]. apply IH.
  - unfold visit. rewrite Ha.
    assert (E : ltb strleb (nlabel k p) bl = false).
    { unfold ltb. rewrite (Hl p (or_introl eq_refl)). cbn [negb]. apply andb_false_r. }
    rewrite E. destruct (eqb strleb (nlabel k p) bl); cbn [fst]; try exact Ha; reflexivity.
  - intros q I. apply Hl. right. exact I.
Qed.

Section Path.
Variable pi : N -> N.
Hypothesis pi_inj : forall x y, pi x = pi y -> x = y.
Variables g h : graph.
Hypothesis Hg : wf g.
Hypothesis Hq : geq_cov (relabel pi g) h.
(** in h the atom_map of every atom is its node id (the parser's reading of a fully numbered string) *)
Hypothesis Hk : forall w, In w (node_ids g) -> amkey h (pi w) = Z.of_N (pi w).
Variable q0 : list N.
Hypothesis Hq0 : Permutation q0 (node_ids g).
Hypothesis Hid : map pi q0 = map N.of_nat (seq 1 (length q0)).

Let nodes := node_ids g.
Let Hnd : NoDup nodes := proj1 Hg.

(** positions: an atom after the prefix pre ++ [v] of q0 has a larger image than v *)
Lemma later_larger pre v r w : q0 = pre ++ v :: r -> In w q0 -> ~ In w pre -> w <> v -> (pi v < pi w)%N.
Proof.
  intros E Iw Np Nv. rewrite E in Iw. apply in_app_or in Iw. destruct Iw as [Iw|[Iw|Iw]]; [contradiction|congruence|].
  pose proof Hid as H. rewrite E in H. rewrite map_app, app_length in H. cbn [map length] in H.
  replace (length pre + S (length r))%nat with (length pre + (1 + length r))%nat in H by lia.
  rewrite seq_app, map_app in H. cbn [seq map] in H.
  apply app_eq_len in H; [|rewrite !map_length, seq_length; reflexivity]. destruct H as [_ H]. injection H as Hv Hr.
  assert (I' : In (pi w) (map pi r)) by (apply in_map; exact Iw). rewrite Hr in I'. apply in_map_iff in I'.
  destruct I' as (j & Ej & Ij). apply in_seq in Ij. rewrite Hv, <- Ej. lia.
Qed.

Lemma path : forall fuel P P' pre, partR pi P P' -> vpart nodes P -> pre_ok P pre ->
  In q0 (leaves2 _ lexleb (sigN g) (rfuel g) (children g) fuel P pre) ->
  exists rest, leaves2 _ lexleb (sigN h) (rfuel g) (children h) fuel P' (map pi pre) = map pi q0 :: rest.
Proof.
  induction fuel as [|f IH]; intros P P' pre HP HV [Hpn Hpre] Hin; [destruct Hin|].
  cbn [leaves2] in *.
  pose proof (refine_rel lexleb IRInst.lexleb_total IRInst.lexleb_trans IRInst.lexleb_antisym (sigN g) (sigN h)
                (sigN_rel pi pi_inj g h Hg Hq) (rfuel g) HP) as HR.
  pose proof (refine_vpart _ lexleb IRInst.lexleb_total IRInst.lexleb_trans IRInst.lexleb_antisym (sigN g) nodes (rfuel g) P HV) as HV1.
  assert (Hpre1 : forall x, In x pre -> In [x] (refine lexleb (sigN g) (rfuel g) P)) by (intros; apply refine_single; auto).
  set (P1 := refine lexleb (sigN g) (rfuel g) P) in *. set (P1' := refine lexleb (sigN h) (rfuel g) P') in *.
  rewrite (first_big_rel HR). destruct (first_big P1) as [i|] eqn:Efb.
  - apply in_flat_map in Hin. destruct Hin as (v & Hv & Hin).
    apply (Permutation_in _ (children_perm g _)) in Hv.
    destruct (first_big_spec _ _ Efb) as [Hi Hbig].
    assert (Hnc : NoDup (concat P1)) by (apply (vpart_nodup nodes Hnd); exact HV1).
    assert (Hnotpre : forall w, In w (nth i P1 []) -> ~ In w pre).
    { intros w Iw Ip. assert (E : nth i P1 [] = [w]).
      { apply (single_cell_unique P1); auto. apply nth_In; auto. }
      rewrite E in Hbig. simpl in Hbig. lia. }
    destruct (individualise_props nodes _ i v Hnd HV1 Efb Hv) as [HVi _].
    assert (Hok : pre_ok (individualise P1 i v) (pre ++ [v])).
    { split.
      - apply NoDup_app_intro; auto; [constructor; [intros []|constructor]|].
        intros x H1 [E0|[]]. subst x. exact (Hnotpre v Hv H1).
      - intros x Hx. apply in_app_or in Hx. destruct Hx as [Hx|[<-|[]]]; [apply individualise_single; auto|apply individualise_new]. }
    destruct (leaves2_prefix _ _ _ _ _ _ _ _ _ Hin) as (r & Er). rewrite <- app_assoc in Er. cbn [app] in Er.
    (* the first child in h is pi v *)
    assert (Hc : cellR pi (nth i P1 []) (nth i P1' [])).
    { apply (@Forall2_nth _ _ (cellR pi) [] [] i _ _ HR). unfold cellR. simpl. auto. }
    unfold cellR in Hc.
    assert (Hcell_nodes : forall w, In w (nth i P1 []) -> In w nodes).
    { intros w Iw. apply (Permutation_in _ (proj1 HV1)). apply (in_concat_cell P1 (nth i P1 [])); auto. apply nth_In; auto. }
    destruct (sort_head (fun x => [amkey h x]) (nth i P1' []) (pi v)) as (tl & Etl).
    { apply (Permutation_in _ Hc). apply in_map. exact Hv. }
    { intros w' Iw' Hne. apply (Permutation_in _ (Permutation_sym Hc)) in Iw'. apply in_map_iff in Iw'.
      destruct Iw' as (w & <- & Iw).
      assert (Hwv : w <> v) by (intros ->; apply Hne; reflexivity).
      assert (Hlt : (pi v < pi w)%N).
      { apply (later_larger pre v r w Er); auto. apply (Permutation_in _ (Permutation_sym Hq0)). apply Hcell_nodes. exact Iw. }
      rewrite (Hk w (Hcell_nodes w Iw)), (Hk v (Hcell_nodes v Hv)). simpl.
      destruct (Z.ltb_spec (Z.of_N (pi w)) (Z.of_N (pi v))); [lia|]. destruct (Z.ltb_spec (Z.of_N (pi v)) (Z.of_N (pi w))); [reflexivity|lia]. }
    assert (Etl' : children h (nth i P1' []) = pi v :: tl) by exact Etl.
    rewrite Etl'. cbn [flat_map].
    destruct (IH (individualise P1 i v) (individualise P1' i (pi v)) (pre ++ [v])
                (individualise_rel pi_inj i v HR) HVi Hok Hin) as (rest & Erest).
    rewrite map_app in Erest. cbn [map] in Erest. rewrite Erest. cbn [app]. eexists. reflexivity.
  - destruct Hin as [Hin|[]]. rewrite <- Hin. cbn [leaves2]. rewrite (discrete_concat HR Efb), (mkleaf_map pi pi_inj). eexists. reflexivity.
Qed.
End Path.

(** the exact back-end returns the image of the best leaf, i.e. the identity order 1..N, on every presentation of the canonical graph *)
Theorem nauty_perm_canonical (pi : N -> N) (g h : graph) :
  (forall x y, pi x = pi y -> x = y) -> wf g -> NoDup (node_ids h) -> geq_cov (relabel pi g) h ->
  (forall w, In w (node_ids g) -> amkey h (pi w) = Z.of_N (pi w)) ->
  map pi (nauty_perm g) = map N.of_nat (seq 1 (length (nauty_perm g))) ->
  nauty_perm h = map pi (nauty_perm g).
Proof.
  intros pi_inj Hg Hnh Hq Hk Hid. pose proof (proj1 Hg) as Hng.
  destruct (nauty_perm_leaf g Hng) as [Lq0 Elab].
  destruct (fuel_rel pi g h Hq) as [Erf Esf].
  destruct (path pi pi_inj g h Hg Hq Hk (nauty_perm g) (nauty_perm_perm g Hng) Hid (sfuel g) (init_partition g) (init_partition h) []
              (init_rel pi pi_inj g h Hg Hq) (init_vpart g)) as (rest & Elv).
  { split; [constructor|intros x []]. }
  { exact Lq0. }
  cbn [map] in Elv.
  set (p0 := map pi (nauty_perm g)) in *.
  assert (Efold : nauty_acc h = fold_left (visit strleb (nlabel h)) (p0 :: rest) (None, [])).
  { unfold nauty_acc. rewrite nsearch_is_fold, Erf, Esf, Elv. reflexivity. }
  (* the best label of h is the label of p0 *)
  assert (Elh : nauty_label h = Some (nlabel h p0)).
  { rewrite (nauty_label_rel pi pi_inj g h Hg Hq), Elab. unfold p0. rewrite (nlabel_rel pi pi_inj g h Hg Hq). reflexivity. }
  pose proof (fold_inv h (p0 :: rest) [] (None, [])) as Hinv. rewrite app_nil_r, <- Efold in Hinv.
  assert (I0 : inv h [] (None, [])) by (unfold inv; cbn [fst]; intros q []).
  specialize (Hinv I0). unfold inv in Hinv.
  unfold nauty_label in Elh. destruct (fst (nauty_acc h)) as [[bl bp]|] eqn:Ea; [|discriminate].
  cbn [option_map fst] in Elh. injection Elh as ->.
  unfold nauty_perm. rewrite Efold. cbn [fold_left]. unfold visit at 2. cbn [fst].
  rewrite (fold_visit_keep h rest _ (nlabel h p0) p0); [reflexivity|reflexivity|].
  intros q I. apply (proj1 (Hinv q (or_intror I))).
Qed.
