(** C01 — _create_light_weight_graph for EVERY flag combination: whenever the ids of the kept atoms are pairwise distinct and
    no two bonds join the same pair of ids (the hypotheses of theorem C01_mol_to_graph_general), the light-weight builder
    returns the labels and bonds of transform *)
From Coq Require Import List NArith ZArith Bool Lia Arith.
From SK Require Import lib.LGraph lib.C01_GraphLemmas model.C01_Model model.C02_Model model.C01_String model.C01_DecRaw model.C01_Builders model.C01_M2GIdx
  proof.C01_Proof proof.C01_StringProof proof.C01_StringPipe proof.C01_NbrsProof proof.C01_BuildersProof proof.C01_LightProof proof.C01_M2GGeneral.
Import ListNotations.

Section LightGen.
Variable m : rmol.
Variables drop use : bool.
Hypothesis Hn : NoDup (map fst (gen_nodes drop use m)).
Hypothesis Hs : simple (gen_bonds drop use m).
Let atoms := rm_atoms m.
Let bs := rm_bonds m.
Let kept (a : ratom) : bool := kept_atom drop a.
Let idf (i : nat) (a : ratom) : N := atom_id use i a.

Lemma enum_nth i a : nth_error atoms i = Some a -> nth_error (enumerate atoms) i = Some (i, a).
Proof. intros E. unfold enumerate. rewrite nth_error_enumerate_from, E. reflexivity. Qed.

Lemma gen_keys : map fst (gen_nodes drop use m) =
  map (fun ia : nat * ratom => atom_id use (fst ia) (snd ia)) (filter (fun ia : nat * ratom => kept_atom drop (snd ia)) (enumerate atoms)).
Proof.
  unfold gen_nodes. fold atoms. induction (enumerate atoms) as [|[i a] l IH]; [reflexivity|]. cbn [flat_map filter fst snd].
  destruct (kept_atom drop a); cbn [app map fst]; rewrite IH; reflexivity.
Qed.

Lemma ids_distinct i j a b : nth_error atoms i = Some a -> nth_error atoms j = Some b ->
  kept a = true -> kept b = true -> idf i a = idf j b -> i = j.
Proof.
  intros Ei Ej Ka Kb E. pose proof Hn as H. rewrite gen_keys in H.
  apply (nodup_filter_index (fun ia : nat * ratom => atom_id use (fst ia) (snd ia)) (fun ia : nat * ratom => kept_atom drop (snd ia))
           (enumerate atoms) H i j (i, a) (j, b) (enum_nth i a Ei) (enum_nth j b Ej) Ka Kb E).
Qed.

Lemma kept_cond b : negb drop || negb (N.eqb (ra_map b) 0) = kept b.
Proof. unfold kept, kept_atom. destruct drop, (N.eqb (ra_map b) 0); reflexivity. Qed.

(** * nodes *)
Definition is_atom_id (n : N) : Prop := exists i a, nth_error atoms i = Some a /\ kept a = true /\ idf i a = n.

Lemma inner_nodes_g id L : forall st,
  let st' := fold_left (lw_edge drop use atoms id) L st in
  (forall n x, assoc n (fst st) = Some x -> assoc n (fst st') = Some x) /\
  (forall n x, assoc n (fst st') = Some x -> assoc n (fst st) = Some x \/ n = id \/ is_atom_id n).
Proof.
  induction L as [|[j o] L IH]; intros st; [cbn; split; auto|]. cbn [fold_left].
  set (st1 := lw_edge drop use atoms id st (j, o)).
  assert ((forall n x, assoc n (fst st) = Some x -> assoc n (fst st1) = Some x) /\
          (forall n x, assoc n (fst st1) = Some x -> assoc n (fst st) = Some x \/ n = id \/ is_atom_id n)) as [K1 K2].
  { unfold st1, lw_edge. destruct (nth_error atoms j) as [b|] eqn:Ej; [|split; auto]. rewrite kept_cond.
    destruct (kept b) eqn:Kb; [|split; auto]. cbn [fst]. split.
    - intros n x A. rewrite !ensure_assoc, A. reflexivity.
    - intros n x A. rewrite !ensure_assoc in A. destruct (assoc n (fst st)) as [y|]; [left; exact A|].
      destruct (N.eqb_spec n id) as [->|]; [right; left; reflexivity|].
      destruct (N.eqb_spec n (atom_id use j b)) as [->|]; [|discriminate]. right. right. exists j, b. auto. }
  destruct (IH st1) as [I1 I2]. split.
  - intros n x A. apply I1. apply K1. exact A.
  - intros n x A. destruct (I2 n x A) as [B|[B|B]]; [|auto|auto]. apply K2 in B. exact B.
Qed.

Definition GInv1 (st : lw_state) (s : nat) : Prop :=
  forall i a, (i < s)%nat -> nth_error atoms i = Some a -> kept a = true -> assoc (idf i a) (fst st) = Some (Some (atom_node a)).
Definition GInv2 (st : lw_state) : Prop := forall n x, assoc n (fst st) = Some x -> is_atom_id n.

Lemma skip_cond a : drop && N.eqb (ra_map a) 0 = negb (kept a).
Proof. unfold kept, kept_atom. rewrite negb_involutive. reflexivity. Qed.

Lemma step_nodes_g st s a : nth_error atoms s = Some a -> GInv1 st s -> GInv2 st ->
  GInv1 (lw_atom drop use atoms bs st (s, a)) (S s) /\ GInv2 (lw_atom drop use atoms bs st (s, a)).
Proof.
  intros Es I1 I2. unfold lw_atom. rewrite skip_cond. destruct (kept a) eqn:Ka; cbn [negb].
  - set (st0 := (upsert (atom_id use s a) (Some (atom_node a)) (fst st), snd st)).
    destruct (inner_nodes_g (atom_id use s a) (atom_bonds bs s) st0) as [K1 K2]. split.
    + intros i c Hi Ei Kc. apply K1. unfold st0. cbn [fst]. rewrite upsert_assoc.
      destruct (N.eqb_spec (idf i c) (atom_id use s a)) as [E|Ne].
      * assert (i = s) as -> by (apply (ids_distinct i s c a Ei Es Kc Ka E)). rewrite Es in Ei. inversion Ei. reflexivity.
      * apply (I1 i c); [|exact Ei|exact Kc]. destruct (Nat.eq_dec i s) as [->|]; [rewrite Es in Ei; inversion Ei; subst; unfold idf in Ne; congruence|lia].
    + intros n x A. destruct (K2 n x A) as [B|[->|B]]; [| |exact B].
      * unfold st0 in B. cbn [fst] in B. rewrite upsert_assoc in B. destruct (N.eqb_spec n (atom_id use s a)) as [->|]; [exists s, a; auto|apply (I2 n x B)].
      * exists s, a. auto.
  - split; [|exact I2]. intros i c Hi Ei Kc. destruct (Nat.eq_dec i s) as [->|Hne].
    + rewrite Es in Ei. inversion Ei; subst c. congruence.
    + apply (I1 i c); [lia|exact Ei|exact Kc].
Qed.

Lemma fold_nodes_g l : forall s st, (forall k, nth_error l k = nth_error atoms (s + k)) -> GInv1 st s -> GInv2 st ->
  GInv1 (fold_left (lw_atom drop use atoms bs) (combine (seq s (length l)) l) st) (s + length l) /\
  GInv2 (fold_left (lw_atom drop use atoms bs) (combine (seq s (length l)) l) st).
Proof.
  induction l as [|a l IH]; intros s st Hl I1 I2.
  - cbn. rewrite Nat.add_0_r. auto.
  - cbn [length seq combine fold_left].
    assert (nth_error atoms s = Some a) as Es by (specialize (Hl 0%nat); cbn in Hl; rewrite Nat.add_0_r in Hl; auto).
    destruct (step_nodes_g st s a Es I1 I2) as [J1 J2].
    replace (s + S (length l))%nat with (S s + length l)%nat by lia. apply IH; [|exact J1|exact J2].
    intros k. specialize (Hl (S k)). cbn in Hl. rewrite Hl. f_equal. lia.
Qed.

Lemma gen_nodes_in n g : In (n, g) (gen_nodes drop use m) <->
  exists i a, nth_error atoms i = Some a /\ kept a = true /\ n = idf i a /\ g = atom_node a.
Proof.
  unfold gen_nodes. fold atoms. rewrite in_flat_map. split.
  - intros ([i a] & Iia & K). cbn [fst snd] in K. destruct (kept_atom drop a) eqn:Ka; [|destruct K]. destruct K as [K|[]]. inversion K; subst.
    apply In_nth_error in Iia. destruct Iia as (k & Ek). unfold enumerate in Ek. rewrite nth_error_enumerate_from in Ek.
    destruct (nth_error atoms k) as [a'|] eqn:E'; [|discriminate]. cbn in Ek.
    assert (k = i /\ a' = a) as [-> ->] by (inversion Ek; auto). exists i, a. auto.
  - intros (i & a & Ei & Ka & -> & ->). exists (i, a). split; [eapply nth_error_In; apply (enum_nth i a Ei)|]. cbn [fst snd]. unfold kept in Ka. rewrite Ka. left. reflexivity.
Qed.

Theorem light_labels_g g' : light_graph drop use m = Some g' -> forall n, label g' n = option_map Some (assoc n (gen_nodes drop use m)).
Proof.
  unfold light_graph. destruct (drop && negb use); [discriminate|]. intros E. inversion E; subst g'. clear E. intros n. unfold label. cbn [gnodes]. unfold enumerate.
  destruct (fold_nodes_g atoms 0 ([], []) (fun k => eq_refl)) as [I1 I2]; [intros i a Hi; lia|intros k x A; discriminate|].
  fold atoms bs in I1, I2 |- *. cbn [plus] in I1.
  destruct (assoc n (gen_nodes drop use m)) as [g|] eqn:L.
  - apply assoc_in in L. apply gen_nodes_in in L. destruct L as (i & a & Ei & Ka & -> & ->). cbn [option_map].
    apply (I1 i a); [|exact Ei|exact Ka]. apply nth_error_Some. rewrite Ei. discriminate.
  - cbn [option_map]. destruct (assoc n (fst (fold_left (lw_atom drop use atoms bs) (combine (seq 0 (length atoms)) atoms) ([], [])))) as [x|] eqn:A; [|reflexivity].
    exfalso. destruct (I2 n x A) as (i & a & Ei & Ka & En). apply assoc_none in L. apply L. apply in_map_iff.
    exists (n, atom_node a). split; [reflexivity|]. apply gen_nodes_in. exists i, a. auto.
Qed.

(** * bonds *)
Lemma lookup_gix (l : list ratom) i : forall s,
  lookup_idx i (flat_map (fun ia : nat * ratom => if kept_atom drop (snd ia) then [(fst ia, atom_id use (fst ia) (snd ia))] else [])
                         (combine (seq s (length l)) l)) =
  if (i <? s)%nat then None
  else match nth_error l (i - s) with Some a => if kept_atom drop a then Some (atom_id use i a) else None | None => None end.
Proof.
  induction l as [|a l IH]; intros s.
  - cbn [length seq combine flat_map lookup_idx]. destruct (i <? s)%nat; [reflexivity|]. destruct (i - s)%nat; reflexivity.
  - cbn [length seq combine flat_map fst snd]. destruct (Nat.ltb_spec i s) as [Hlt|Hge].
    + destruct (kept_atom drop a); cbn [app lookup_idx].
      * destruct (Nat.eqb_spec i s); [lia|]. rewrite IH. destruct (Nat.ltb_spec i (S s)); [reflexivity|lia].
      * rewrite IH. destruct (Nat.ltb_spec i (S s)); [reflexivity|lia].
    + destruct (Nat.eq_dec i s) as [->|Hne].
      * rewrite Nat.sub_diag. cbn [nth_error]. destruct (kept_atom drop a); cbn [app lookup_idx].
        -- rewrite Nat.eqb_refl. reflexivity.
        -- rewrite IH. destruct (Nat.ltb_spec s (S s)); [reflexivity|lia].
      * replace (i - s)%nat with (S (i - S s)) by lia. cbn [nth_error].
        destruct (kept_atom drop a); cbn [app lookup_idx].
        -- destruct (Nat.eqb_spec i s); [lia|]. rewrite IH. destruct (Nat.ltb_spec i (S s)); [lia|reflexivity].
        -- rewrite IH. destruct (Nat.ltb_spec i (S s)); [lia|reflexivity].
Qed.

Lemma gen_ix_spec i : lookup_idx i (gen_ix drop use m) =
  match nth_error atoms i with Some a => if kept a then Some (idf i a) else None | None => None end.
Proof. unfold gen_ix, enumerate. fold atoms. rewrite (lookup_gix atoms i 0). cbn. rewrite Nat.sub_0_r. reflexivity. Qed.

Definition gbond_lt (s : nat) (u v : N) (o : Z) : Prop :=
  exists i j a b, (In (i, j, o) bs \/ In (j, i, o) bs) /\ nth_error atoms i = Some a /\ nth_error atoms j = Some b /\
    kept a = true /\ kept b = true /\ idf i a = u /\ idf j b = v /\ (i < s \/ j < s)%nat.

Lemma gen_bonds_in u v o : In (u, v, o) (gen_bonds drop use m) <->
  exists i j a b, In (i, j, o) bs /\ nth_error atoms i = Some a /\ nth_error atoms j = Some b /\
    kept a = true /\ kept b = true /\ idf i a = u /\ idf j b = v.
Proof.
  unfold gen_bonds. rewrite in_flat_map. split.
  - intros ([[i j] x] & Ib & K). cbn [fst snd] in K. rewrite !gen_ix_spec in K.
    destruct (nth_error atoms i) as [a|] eqn:Ei; [|destruct K]. destruct (kept a) eqn:Ka; [|destruct K].
    destruct (nth_error atoms j) as [b|] eqn:Ej; [|destruct K]. destruct (kept b) eqn:Kb; [|destruct K].
    destruct K as [K|[]]. inversion K; subst. exists i, j, a, b. auto 10.
  - intros (i & j & a & b & Ib & Ei & Ej & Ka & Kb & <- & <-). exists (i, j, o). split; [exact Ib|]. cbn [fst snd].
    rewrite !gen_ix_spec, Ei, Ej, Ka, Kb. left. reflexivity.
Qed.

Lemma gfinal_bonds u v o : find_edge u v (gen_bonds drop use m) = Some o <-> gbond_lt (length atoms) u v o.
Proof.
  rewrite (find_edge_iff (simple_consistent Hs)), !gen_bonds_in. split.
  - intros [(i & j & a & b & Ib & Ei & Ej & Ka & Kb & Eu & Ev)|(i & j & a & b & Ib & Ei & Ej & Ka & Kb & Eu & Ev)].
    + exists i, j, a, b. repeat split; auto. left. apply nth_error_Some. congruence.
    + exists j, i, b, a. repeat split; auto. left. apply nth_error_Some. congruence.
  - intros (i & j & a & b & [Ib|Ib] & Ei & Ej & Ka & Kb & Eu & Ev & _).
    + left. exists i, j, a, b. auto 10.
    + right. exists j, i, b, a. auto 10.
Qed.

Lemma gbond_lt_mono s s' u v o : (s <= s')%nat -> gbond_lt s u v o -> gbond_lt s' u v o.
Proof. intros Hle (i & j & a & b & K1 & K2 & K3 & K4 & K5 & K6 & K7 & K8). exists i, j, a, b. repeat split; auto. lia. Qed.

Lemma gbond_lt_all s u v o : gbond_lt s u v o -> gbond_lt (length atoms) u v o.
Proof.
  intros (i & j & a & b & K1 & Ei & K3 & K4 & K5 & K6 & K7 & K8). exists i, j, a, b. repeat split; auto. left. apply nth_error_Some. congruence.
Qed.

Lemma gbond_unique s s' u v o o' : gbond_lt s u v o -> gbond_lt s' u v o' -> o = o'.
Proof. intros B1 B2. apply gbond_lt_all, gfinal_bonds in B1. apply gbond_lt_all, gfinal_bonds in B2. congruence. Qed.

Lemma atom_bonds_in_g k j o : In (j, o) (atom_bonds bs k) <-> In (k, j, o) bs \/ In (j, k, o) bs.
Proof.
  unfold atom_bonds. rewrite in_flat_map. split.
  - intros ([[x y] z] & Ib & Ij). destruct (Nat.eqb_spec x k) as [->|Nx].
    + destruct Ij as [E|[]]. inversion E; subst. left. exact Ib.
    + destruct (Nat.eqb_spec y k) as [->|Ny]; [|destruct Ij]. destruct Ij as [E|[]]. inversion E; subst. right. exact Ib.
  - intros [Ib|Ib].
    + exists (k, j, o). split; [exact Ib|]. rewrite Nat.eqb_refl. left. reflexivity.
    + exists (j, k, o). split; [exact Ib|]. destruct (Nat.eqb_spec j k) as [->|N]; [left; reflexivity|]. rewrite Nat.eqb_refl. left. reflexivity.
Qed.

Fixpoint gval (id : N) (L : list (nat * Z)) (u v : N) : option Z :=
  match L with
  | [] => None
  | (j, o) :: r =>
      match gval id r u v with
      | Some x => Some x
      | None => match nth_error atoms j with
                | Some b => if kept b && pair_eq id (atom_id use j b) u v then Some o else None
                | None => None
                end
      end
  end.

Lemma inner_edges_g id L u v : forall st,
  find_edge u v (snd (fold_left (lw_edge drop use atoms id) L st)) =
  match gval id L u v with Some x => Some x | None => find_edge u v (snd st) end.
Proof.
  induction L as [|[j o] L IH]; intros st; [reflexivity|]. cbn [fold_left gval]. rewrite IH.
  destruct (gval id L u v); [reflexivity|]. unfold lw_edge. destruct (nth_error atoms j) as [b|]; [|reflexivity]. rewrite kept_cond.
  destruct (kept b); cbn [andb]; [|reflexivity]. cbn [snd]. rewrite upsert_edge_find. destruct (pair_eq id (atom_id use j b) u v); reflexivity.
Qed.

Lemma gval_some id L u v x : gval id L u v = Some x ->
  exists j b, In (j, x) L /\ nth_error atoms j = Some b /\ kept b = true /\ pair_eq id (atom_id use j b) u v = true.
Proof.
  induction L as [|[j o] L IH]; cbn [gval]; [discriminate|]. destruct (gval id L u v) as [y|] eqn:V.
  - intros E. inversion E; subst y. destruct (IH eq_refl) as (j' & b & I & K). exists j', b. split; [right; exact I|exact K].
  - destruct (nth_error atoms j) as [b|] eqn:Ej; [|discriminate]. destruct (kept b && pair_eq id (atom_id use j b) u v) eqn:C; [|discriminate].
    intros E. inversion E; subst x. apply andb_true_iff in C. destruct C as [C1 C2]. exists j, b. split; [left; reflexivity|auto].
Qed.

Lemma gval_exists id L u v j b o : In (j, o) L -> nth_error atoms j = Some b -> kept b = true -> pair_eq id (atom_id use j b) u v = true ->
  gval id L u v <> None.
Proof.
  induction L as [|[j' o'] L IH]; intros I Ej Kb P; [destruct I|]. cbn [gval]. destruct (gval id L u v) eqn:V; [discriminate|].
  destruct I as [E|I]; [inversion E; subst; rewrite Ej, Kb, P; discriminate|]. exfalso. apply (IH I Ej Kb P). reflexivity.
Qed.

Definition GEInv (E : list (N * N * Z)) (s : nat) : Prop := forall u v o, find_edge u v E = Some o <-> gbond_lt s u v o.

Lemma step_edges_g st s a : nth_error atoms s = Some a -> GEInv (snd st) s -> GEInv (snd (lw_atom drop use atoms bs st (s, a))) (S s).
Proof.
  intros Es I u v o. unfold lw_atom. rewrite skip_cond. destruct (kept a) eqn:Ka; cbn [negb].
  - rewrite inner_edges_g. cbn [snd]. split.
    + destruct (gval (atom_id use s a) (atom_bonds bs s) u v) as [x|] eqn:V.
      * intros E. inversion E; subst x. destruct (gval_some _ _ _ _ _ V) as (j & b & Ij & Ej & Kb & P).
        apply atom_bonds_in_g in Ij. apply pair_eq_spec in P. destruct P as [[<- <-]|[<- <-]].
        -- exists s, j, a, b. repeat split; auto; try tauto; try (left; lia); try (right; lia).
        -- exists j, s, b, a. repeat split; auto; try tauto; try (left; lia); try (right; lia).
      * intros E. apply I in E. apply (gbond_lt_mono s); [lia|exact E].
    + intros B. pose proof B as (i & j & c & d & K1 & Ei & Ej & Kc & Kd & Eu & Ev & Hlt).
      assert ((i = s \/ j = s) \/ gbond_lt s u v o) as [Inc|Old].
      { destruct (Nat.eq_dec i s); [left; left; assumption|]. destruct (Nat.eq_dec j s); [left; right; assumption|].
        right. exists i, j, c, d. repeat split; auto. lia. }
      * assert (gval (atom_id use s a) (atom_bonds bs s) u v <> None) as NV.
        { destruct Inc as [-> | ->].
          - rewrite Es in Ei. inversion Ei; subst c. apply (gval_exists _ _ u v j d o); auto.
            + apply atom_bonds_in_g. tauto.
            + apply pair_eq_spec. left. auto.
          - rewrite Es in Ej. inversion Ej; subst d. apply (gval_exists _ _ u v i c o); auto.
            + apply atom_bonds_in_g. tauto.
            + apply pair_eq_spec. right. auto. }
        destruct (gval (atom_id use s a) (atom_bonds bs s) u v) as [x|] eqn:V; [|congruence]. f_equal.
        destruct (gval_some _ _ _ _ _ V) as (j' & b' & Ij & Ej' & Kb' & P). apply atom_bonds_in_g in Ij. apply pair_eq_spec in P.
        assert (gbond_lt (S s) u v x) as Bx.
        { destruct P as [[<- <-]|[<- <-]].
          - exists s, j', a, b'. repeat split; auto; try tauto; try (left; lia); try (right; lia).
          - exists j', s, b', a. repeat split; auto; try tauto; try (left; lia); try (right; lia). }
        apply (gbond_unique _ _ u v x o Bx B).
      * destruct (gval (atom_id use s a) (atom_bonds bs s) u v) as [x|] eqn:V; [|apply I; exact Old]. f_equal.
        destruct (gval_some _ _ _ _ _ V) as (j' & b' & Ij & Ej' & Kb' & P). apply atom_bonds_in_g in Ij. apply pair_eq_spec in P.
        assert (gbond_lt (S s) u v x) as Bx.
        { destruct P as [[<- <-]|[<- <-]].
          - exists s, j', a, b'. repeat split; auto; try tauto; try (left; lia); try (right; lia).
          - exists j', s, b', a. repeat split; auto; try tauto; try (left; lia); try (right; lia). }
        apply (gbond_unique _ _ u v x o Bx B).
  - rewrite (I u v o). split; [apply gbond_lt_mono; lia|].
    intros (i & j & c & d & K1 & Ei & Ej & Kc & Kd & Eu & Ev & Hlt). exists i, j, c, d. repeat split; auto.
    destruct Hlt as [H|H]; [destruct (Nat.eq_dec i s) as [->|]; [|left; lia]|destruct (Nat.eq_dec j s) as [->|]; [|right; lia]].
    + rewrite Es in Ei. inversion Ei; subst c. congruence.
    + rewrite Es in Ej. inversion Ej; subst d. congruence.
Qed.

Lemma fold_edges_g l : forall s st, (forall k, nth_error l k = nth_error atoms (s + k)) -> GEInv (snd st) s ->
  GEInv (snd (fold_left (lw_atom drop use atoms bs) (combine (seq s (length l)) l) st)) (s + length l).
Proof.
  induction l as [|a l IH]; intros s st Hl I.
  - cbn. rewrite Nat.add_0_r. exact I.
  - cbn [length seq combine fold_left].
    assert (nth_error atoms s = Some a) as Es by (specialize (Hl 0%nat); cbn in Hl; rewrite Nat.add_0_r in Hl; auto).
    replace (s + S (length l))%nat with (S s + length l)%nat by lia. apply IH; [|apply step_edges_g; assumption].
    intros k. specialize (Hl (S k)). cbn in Hl. rewrite Hl. f_equal. lia.
Qed.

Theorem light_bonds_g g' : light_graph drop use m = Some g' -> forall u v, adj g' u v = find_edge u v (gen_bonds drop use m).
Proof.
  unfold light_graph. destruct (drop && negb use); [discriminate|]. intros E. inversion E; subst g'. clear E. intros u v. unfold adj. cbn [gedges]. unfold enumerate.
  fold atoms bs.
  assert (GEInv (snd (fold_left (lw_atom drop use atoms bs) (combine (seq 0 (length atoms)) atoms) ([], []))) (0 + length atoms)) as I.
  { apply fold_edges_g; [reflexivity|]. intros a b o. cbn. split; [discriminate|]. intros (i & j & _ & _ & _ & _ & _ & _ & _ & _ & _ & [H|H]); lia. }
  cbn [plus] in I. apply option_ext. intros o. rewrite (I u v o), gfinal_bonds. reflexivity.
Qed.

(** C01_light_builder_general *)
Theorem light_is_transform_general : drop && negb use = false ->
  exists g g', mol_to_graph drop use m = Some g /\ light_graph drop use m = Some g' /\
    (forall n, label g' n = option_map Some (label g n)) /\ (forall u v, adj g' u v = adj g u v).
Proof.
  intros Ef. exists (LG (gen_nodes drop use m) (gen_bonds drop use m)).
  destruct (light_graph drop use m) as [g'|] eqn:EL; [|unfold light_graph in EL; rewrite Ef in EL; discriminate].
  exists g'. split; [apply mol_to_graph_general; assumption|]. split; [reflexivity|]. split.
  - intros n. apply (light_labels_g g' EL n).
  - intros u v. apply (light_bonds_g g' EL u v).
Qed.
End LightGen.

(** summary for the classmethod: all three builders *)
Lemma builders_agree (m : rmol) (drop use : bool) :
  NoDup (map fst (gen_nodes drop use m)) -> simple (gen_bonds drop use m) -> drop && negb use = false ->
  exists g g', mol_to_graph drop use m = Some g /\ detailed_graph drop use m = Some g /\ light_graph drop use m = Some g' /\
    g = LG (gen_nodes drop use m) (gen_bonds drop use m) /\
    (forall n, label g' n = option_map Some (label g n)) /\ (forall u v, adj g' u v = adj g u v).
Proof.
  intros Hn Hs Ef. destruct (light_is_transform_general m drop use Hn Hs Ef) as (g & g' & E1 & E2 & L & A).
  exists g, g'. split; [exact E1|]. split; [rewrite C01_BuildersProof.detailed_is_transform; exact E1|]. split; [exact E2|].
  split; [|split; [exact L|exact A]]. rewrite (mol_to_graph_general drop use m Ef Hn Hs) in E1. inversion E1. reflexivity.
Qed.
