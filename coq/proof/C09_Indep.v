(** C09 — the canonical form does not depend on the presentation (numbering, atom order) of the input, and is a fixed
    point, RELATIVE to the corresponding property of the graph canonicaliser (explicit premise) and for reactions
    whose product atoms all have a reactant partner. *)
From Coq Require Import List NArith ZArith Bool Arith Lia Permutation.
From SK Require Import lib.LGraph lib.C01_GraphLemmas model.C01_Model model.C09_Model
  proof.C09_Lists proof.C09_Canon proof.C09_Equiv proof.C09_Main.
Import ListNotations.

(** the same graph up to the insertion order of the nodes *)
Definition same_upto_order (X Y : mgraph) : Prop := Permutation (gnodes X) (gnodes Y) /\ gedges X = gedges Y.
Lemma suo_sym X Y : same_upto_order X Y -> same_upto_order Y X.
Proof. intros (A & B). split; [apply Permutation_sym; exact A|symmetry; exact B]. Qed.
Lemma suo_trans X Y Z : same_upto_order X Y -> same_upto_order Y Z -> same_upto_order X Z.
Proof. intros (A & B) (C & D). split; [eapply Permutation_trans; eauto|congruence]. Qed.
Lemma suo_set_amap X Y : same_upto_order X Y -> same_upto_order (set_amap X) (set_amap Y).
Proof. intros (A & B). split; [unfold set_amap; simpl; apply Permutation_map; exact A|exact B]. Qed.
Lemma suo_relabel f X Y : same_upto_order X Y -> same_upto_order (relabel f X) (relabel f Y).
Proof. intros (A & B). split; unfold relabel; simpl; [apply Permutation_map; exact A|rewrite B; reflexivity]. Qed.

Lemma set_amap_relabel_set_amap f (X : mgraph) : set_amap (relabel f (set_amap X)) = set_amap (relabel f X).
Proof. unfold set_amap, relabel. simpl. f_equal. rewrite !map_map. apply map_ext. intros [n a]. reflexivity. Qed.
Lemma relabel_relabel {A B} f g (X : lgraph A B) : relabel f (relabel g X) = relabel (fun n => f (g n)) X.
Proof. unfold relabel. simpl. f_equal; rewrite map_map; apply map_ext; [intros [n a]|intros [[a b] x]]; reflexivity. Qed.

Lemma amap_id_set_amap (X : mgraph) : amap_id (set_amap X).
Proof.
  intros n a E. unfold label, set_amap in E. simpl in E.
  rewrite (assoc_map_val (fun k (a : gnode) => GN (g_el a) (g_arom a) (g_hc a) (g_ch a) (g_nb a) (Z.of_N k)) n (gnodes X)) in E.
  destruct (assoc n (gnodes X)); [|discriminate]. simpl in E. inversion E. reflexivity.
Qed.

Lemma chain (f1 f2 p : N -> N) (Z X' X'' : mgraph) : wf Z ->
  relabelled_by p Z X' -> relabelled_by f2 (set_amap X') X'' -> (forall n, In n (node_ids Z) -> f2 (p n) = f1 n) ->
  same_upto_order (set_amap X'') (set_amap (relabel f1 Z)).
Proof.
  intros WZ R1 R2 Hf.
  eapply suo_trans; [apply suo_set_amap; exact R2|]. rewrite set_amap_relabel_set_amap.
  eapply suo_trans; [apply suo_set_amap; apply suo_relabel; exact R1|]. rewrite relabel_relabel.
  rewrite (relabel_ext (fun n => f2 (p n)) f1 Z).
  - split; [apply Permutation_refl|reflexivity].
  - exact Hf.
  - intros a b x I. destruct WZ as (_ & W2 & _). destruct (W2 a b x I) as (Ia & Ib & _). auto.
Qed.

Theorem presentation_independent (G H G2' H2' Gc1 Gc2 : mgraph) (order1 order2 : list N) (p : N -> N) :
  parsed G -> parsed H -> (forall n, In n (node_ids H) -> In n (node_ids G)) -> (exists s, In s (node_ids H)) ->
  (forall a b, p a = p b -> a = b) -> (forall n, In n (node_ids G) -> p n <> 0%N) ->
  relabelled_by p G G2' -> relabelled_by p H H2' ->
  enumerates order1 G -> relabelled_by (sigma_of order1) G Gc1 ->
  enumerates order2 (set_amap G2') -> relabelled_by (sigma_of order2) (set_amap G2') Gc2 ->
  (forall n, In n (node_ids G) -> sigma_of order2 (p n) = sigma_of order1 n) ->
  exists (pairs1 pairs2 : list (N * N)) (Hc1 Hc2 : mgraph),
    canonicalise_with Gc1 H = Some (set_amap Gc1, pairs1, set_amap Hc1) /\
    canonicalise_with Gc2 (set_amap H2') = Some (set_amap Gc2, pairs2, set_amap Hc2) /\
    same_upto_order (set_amap Gc2) (set_amap Gc1) /\ same_upto_order (set_amap Hc2) (set_amap Hc1).
Proof.
  intros (WG & AG & PG) (WH & AH & PH) Hsub (s & Is) Pinj Ppos RG2 RH2 (O1 & I1) R1 (O2 & I2) R2 Inv.
  assert (Hs1 : exists s, In s (node_ids G) /\ In s (node_ids H)) by (exists s; auto).
  destruct (canonicalise_with_spec G H Gc1 order1 WG WH AG AH PG PH O1 I1 R1 Hs1) as (Hc1 & E1 & RF1 & EH1 & Fs1 & _).
  set (f1 := C09_Canon.f H Gc1 order1) in *.
  (* the second presentation is a parsed reaction *)
  assert (WG2 : wf (set_amap G2')) by (apply wf_set_amap; apply (rel_wf p Pinj G G2' WG RG2)).
  assert (WH2 : wf (set_amap H2')) by (apply wf_set_amap; apply (rel_wf p Pinj H H2' WH RH2)).
  assert (PG2 : pos_ids (set_amap G2')).
  { intros n I. rewrite node_ids_set_amap in I. apply (rel_node_ids p G G2' RG2) in I. apply in_map_iff in I.
    destruct I as (m & <- & Im). apply Ppos. exact Im. }
  assert (PH2 : pos_ids (set_amap H2')).
  { intros n I. rewrite node_ids_set_amap in I. apply (rel_node_ids p H H2' RH2) in I. apply in_map_iff in I.
    destruct I as (m & <- & Im). apply Ppos. apply Hsub. exact Im. }
  assert (Hs2 : exists s, In s (node_ids (set_amap G2')) /\ In s (node_ids (set_amap H2'))).
  { exists (p s). rewrite !node_ids_set_amap. split.
    - apply (rel_node_ids p G G2' RG2). apply in_map. apply Hsub. exact Is.
    - apply (rel_node_ids p H H2' RH2). apply in_map. exact Is. }
  destruct (canonicalise_with_spec (set_amap G2') (set_amap H2') Gc2 order2 WG2 WH2 (amap_id_set_amap G2') (amap_id_set_amap H2')
              PG2 PH2 O2 I2 R2 Hs2) as (Hc2 & E2 & RF2 & EH2 & Fs2 & _).
  set (f2 := C09_Canon.f (set_amap H2') Gc2 order2) in *.
  assert (Hf : forall n, In n (node_ids G) -> f2 (p n) = f1 n).
  { intros n I. rewrite Fs2.
    - rewrite Inv by exact I. symmetry. apply Fs1. apply I1. exact I.
    - apply I2. rewrite node_ids_set_amap. apply (rel_node_ids p G G2' RG2). apply in_map. exact I. }
  exists (aam_pairs Gc1 H), (aam_pairs Gc2 (set_amap H2')), Hc1, Hc2.
  split; [exact E1|]. split; [exact E2|]. split.
  - eapply suo_trans; [apply (chain f1 f2 p G G2' Gc2 WG RG2 RF2 Hf)|]. apply suo_sym. apply suo_set_amap. exact RF1.
  - rewrite EH1. apply (chain f1 f2 p H H2' Hc2 WH RH2).
    + rewrite EH2. apply relabelled_exact.
    + intros n I. apply Hf. apply Hsub. exact I.
Qed.

Lemma tau_pos order extras n : tau order extras n <> 0%N.
Proof.
  unfold tau. destruct (assoc n (tau_list order extras)) as [x|] eqn:E; [|lia].
  apply assoc_in in E. assert (I : In x (map snd (tau_list order extras))) by (change x with (snd (n, x)); apply in_map; exact E).
  rewrite tau_list_vals in I. apply in_app_or in I. destruct I as [I|I]; apply in_map_iff in I; destruct I as (i & <- & Ii); apply in_seq in Ii; lia.
Qed.

(** fixed point: running the canonicaliser on its own output returns it (up to node insertion order), provided the
    graph canonicaliser maps every canonical id of the reactant graph to itself *)
Theorem fixed_point (G H Gc1 : mgraph) (order1 : list N) :
  parsed G -> parsed H -> (forall n, In n (node_ids H) -> In n (node_ids G)) -> (exists s, In s (node_ids H)) ->
  enumerates order1 G -> relabelled_by (sigma_of order1) G Gc1 ->
  exists (pairs1 : list (N * N)) (Gc1' Hc1' : mgraph),
    canonicalise_with Gc1 H = Some (Gc1', pairs1, Hc1') /\
    forall (order2 : list N) (Gc2 : mgraph),
      enumerates order2 Gc1' -> relabelled_by (sigma_of order2) Gc1' Gc2 ->
      (forall m, In m (node_ids Gc1') -> sigma_of order2 m = m) ->
      exists (pairs2 : list (N * N)) (Hc2' : mgraph),
        canonicalise_with Gc2 Hc1' = Some (set_amap Gc2, pairs2, Hc2') /\
        same_upto_order (set_amap Gc2) Gc1' /\ same_upto_order Hc2' Hc1'.
Proof.
  intros PG PH Hsub Hs En1 R1.
  pose proof PG as (WG & AG & PG'). pose proof PH as (WH & AH & PH'). pose proof En1 as (O1 & I1). destruct Hs as (s & Is).
  assert (Hs1 : exists s, In s (node_ids G) /\ In s (node_ids H)) by (exists s; auto).
  destruct (canonicalise_with_spec G H Gc1 order1 WG WH AG AH PG' PH' O1 I1 R1 Hs1) as (Hc1 & E1 & RF1 & EH1 & Fs1 & _).
  set (f1 := C09_Canon.f H Gc1 order1) in *.
  exists (aam_pairs Gc1 H), (set_amap Gc1), (set_amap Hc1). split; [exact E1|].
  intros order2 Gc2 En2 R2 Hid.
  assert (Inv : forall n, In n (node_ids G) -> sigma_of order2 (f1 n) = sigma_of order1 n).
  { intros n I. rewrite Hid; [apply Fs1; apply I1; exact I|].
    rewrite node_ids_set_amap. apply (rel_node_ids f1 G Gc1 RF1). apply in_map. exact I. }
  destruct (presentation_independent G H Gc1 (relabel f1 H) Gc1 Gc2 order1 order2 f1 PG PH Hsub (ex_intro _ s Is)
              (fun a b => tau_injective _ _ a b) (fun n _ => tau_pos _ _ n) RF1 (relabelled_exact f1 H) En1 R1 En2 R2 Inv)
    as (pairs1 & pairs2 & Hc1' & Hc2 & E1' & E2 & S1 & S2).
  rewrite E1 in E1'. subst Hc1.
  assert (Ec : set_amap (relabel f1 H) = set_amap Hc1') by congruence.
  exists pairs2, (set_amap Hc2). split; [exact E2|]. split; [exact S1|]. rewrite Ec. exact S2.
Qed.

(* ------------------------------------------------------------------ non-vacuity *)
Lemma ex_ren_inj a b : ex_ren a = ex_ren b -> a = b.
Proof.
  unfold ex_ren.
  destruct (N.eqb_spec a 1), (N.eqb_spec a 2), (N.eqb_spec a 7), (N.eqb_spec b 1), (N.eqb_spec b 2), (N.eqb_spec b 7); lia.
Qed.
Example ex_indep_hyps :
  parsed ex_G /\ parsed ex_H /\ (forall n, In n (node_ids ex_H) -> In n (node_ids ex_G)) /\ (exists s, In s (node_ids ex_H)) /\
  (forall a b, ex_ren a = ex_ren b -> a = b) /\ (forall n, In n (node_ids ex_G) -> ex_ren n <> 0%N) /\
  enumerates ex_order ex_G /\ enumerates (map ex_ren ex_order) (set_amap (relabel ex_ren ex_G)) /\
  (forall n, In n (node_ids ex_G) -> sigma_of (map ex_ren ex_order) (ex_ren n) = sigma_of ex_order n).
Proof.
  split; [exact ex_G_parsed|]. split; [exact ex_H_parsed|].
  split; [simpl; intuition|]. split; [exists 1%N; simpl; auto|]. split; [exact ex_ren_inj|].
  split; [intros n I; simpl in I; intuition (subst; discriminate)|]. split; [exact ex_order_enumerates|].
  split.
  - split; [simpl; nodup_N|]. intros n. simpl. intuition.
  - intros n I. simpl in I. intuition (subst; reflexivity).
Qed.
Example ex_fixed_point_hyps :
  let Gc1' := set_amap (canon_rebuild ex_order ex_G) in
  enumerates [1%N; 2%N; 3%N] Gc1' /\ (forall m, In m (node_ids Gc1') -> sigma_of [1%N; 2%N; 3%N] m = m).
Proof.
  split; [split; [nodup_N|intros n; simpl; intuition]|]. intros m I. simpl in I. intuition (subst; reflexivity).
Qed.
