(** C08 — value objects built on signatures: SynGraph / CanonicalGraph / SynRule equality (model: C08_Model
    syngraph_eqb, cangraph_eqb, synrule_eqb) holds exactly for isomorphic content with the exact back-end, and only
    for isomorphic content with every back-end.  From C08_Sound (equal => isomorphic) and C08_Invariant. *)
From Coq Require Import List NArith ZArith Bool Arith Lia Permutation.
From SK Require Import lib.LGraph lib.StrJoin.
From SK Require Import model.C08_Model proof.C08_Spec proof.C08_Sort proof.C08_Faithful proof.C08_Cov proof.C08_SigFun
                       proof.C08_Render proof.C08_Nauty proof.C08_Sound proof.C08_Invariant.
Import ListNotations.

Lemma str_eqb_spec a : forall b, str_eqb a b = true <-> a = b.
Proof.
  induction a as [|x a IH]; intros [|y b]; simpl; split; intros H; try discriminate; auto.
  - apply andb_prop in H. destruct H as [H1 H2]. apply N.eqb_eq in H1. apply IH in H2. subst. reflexivity.
  - inversion H; subst. rewrite N.eqb_refl. apply IH. reflexivity.
Qed.

(* ---------------- iso_cov is an equivalence on well-formed graphs ---------------- *)
Lemma iso_cov_refl g : wf g -> iso_cov g g.
Proof.
  intros Hg. exists (fun x => x). split; [intros x y _ _ E; exact E|].
  rewrite (relabel_id_on (fun x => x) g Hg); auto. apply geq_cov_refl.
Qed.
Lemma iso_cov_sym g h : wf g -> wf h -> iso_cov g h -> iso_cov h g.
Proof.
  intros Hg Hh (f & Hf & Hq). apply (common_form_iso h g (fun x => x) f); auto.
  - intros x y _ _ E. exact E.
  - rewrite (relabel_id_on (fun x => x) h Hh); auto. apply geq_cov_sym. exact Hq.
Qed.
Lemma iso_cov_trans g h k : iso_cov g h -> iso_cov h k -> iso_cov g k.
Proof.
  intros (f & Hf & Hq) (f' & Hf' & Hq'). exists (fun x => f' (f x)). split.
  - intros x y Hx Hy E. apply Hf; auto. apply Hf'; auto.
    + apply (Permutation_in _ (geq_cov_ids _ _ Hq)). rewrite node_ids_relabel. apply in_map. exact Hx.
    + apply (Permutation_in _ (geq_cov_ids _ _ Hq)). rewrite node_ids_relabel. apply in_map. exact Hy.
  - rewrite <- (relabel_compose f f' g). eapply geq_cov_trans; [apply relabel_geq_cov; exact Hq|exact Hq'].
Qed.

(* ---------------- canonical graphs are well formed ---------------- *)
Lemma eqb_inj_on f (nodes : list N) x y : C08_Spec.inj_on f nodes -> In x nodes -> In y nodes -> N.eqb (f x) (f y) = N.eqb x y.
Proof.
  intros Hi Hx Hy. destruct (N.eqb_spec x y) as [->|H]; [apply N.eqb_refl|].
  apply N.eqb_neq. intro E. apply H. apply Hi; auto.
Qed.
Lemma find_edge_map_none f (l : list (N * N * eattr)) a b (nodes : list N) :
  C08_Spec.inj_on f nodes -> In a nodes -> In b nodes ->
  (forall c d x, In (c, d, x) l -> In c nodes /\ In d nodes) ->
  find_edge a b l = None -> find_edge (f a) (f b) (map (fun e => let '(c, d, x) := e in (f c, f d, x)) l) = None.
Proof.
  intros Hi Ha Hb. induction l as [|[[c d] x] l IH]; intros Hin Hn; simpl in *; auto.
  destruct (Hin c d x (or_introl eq_refl)) as [Hc Hd].
  destruct ((N.eqb c a && N.eqb d b) || (N.eqb c b && N.eqb d a)) eqn:E; [discriminate|].
  rewrite !(eqb_inj_on f nodes) by auto. rewrite E. apply IH; auto. intros c0 d0 x0 I0. apply (Hin c0 d0 x0). right. exact I0.
Qed.

Lemma wf_relabel f (g : graph) : wf g -> C08_Spec.inj_on f (node_ids g) -> wf (relabel f g).
Proof.
  intros (Hnd & Hend & Hu) Hi. split; [|split].
  - rewrite node_ids_relabel. apply NoDup_map_inj_on'; auto.
  - intros a b x I. unfold relabel in I. cbn [gedges] in I. apply in_map_iff in I. destruct I as ([[c d] y] & E & I).
    inversion E; subst. destruct (Hend _ _ _ I) as (Hc & Hd & Hne). rewrite node_ids_relabel.
    split; [apply in_map; auto|]. split; [apply in_map; auto|]. intro Q. apply Hne. apply Hi; auto.
  - intros l1 a b x l2 E. unfold relabel in E. cbn [gedges] in E.
    apply map_eq_app in E. destruct E as (m1 & m2 & E0 & E1 & E2).
    destruct m2 as [|[[c d] y] m2]; [discriminate|]. simpl in E2. inversion E2 as [[Ea Eb Ex El]]. clear E2. subst a b x l2 l1.
    destruct (Hu _ _ _ _ _ E0) as [N1 N2].
    assert (Hc : In c (node_ids g) /\ In d (node_ids g)).
    { destruct (Hend c d y) as (A & B & _); auto. rewrite E0. apply in_or_app. right. left. reflexivity. }
    assert (Hin : forall l, incl l (gedges g) -> forall c0 d0 x0, In (c0, d0, x0) l -> In c0 (node_ids g) /\ In d0 (node_ids g)).
    { intros l Hl c0 d0 x0 I. destruct (Hend c0 d0 x0 (Hl _ I)) as (A & B & _). auto. }
    split; apply (find_edge_map_none f _ c d (node_ids g)); try tauto.
    + apply Hin. rewrite E0. intros e I. apply in_or_app. left. exact I.
    + apply Hin. rewrite E0. intros e I. apply in_or_app. right. right. exact I.
Qed.

Lemma wf_same_edges (g k : graph) : wf g -> Permutation (gnodes k) (gnodes g) -> gedges k = gedges g -> wf k.
Proof.
  intros (Hnd & Hend & Hu) Hp He.
  assert (Hids : Permutation (node_ids k) (node_ids g)) by (apply Permutation_map; exact Hp).
  split; [|split].
  - eapply Permutation_NoDup; [apply Permutation_sym; exact Hids|exact Hnd].
  - intros a b x I. rewrite He in I. destruct (Hend _ _ _ I) as (A & B & C).
    split; [|split]; auto; apply (Permutation_in _ (Permutation_sym Hids)); auto.
  - intros l1 a b x l2 E. rewrite He in E. eauto.
Qed.
Lemma wf_faithful g cg : wf g -> faithful g cg -> wf cg.
Proof.
  intros Hg (f & Hf & Hp & He). apply (wf_same_edges (relabel f g)); auto. apply wf_relabel; auto.
Qed.
Lemma faithful_iso g cg : wf g -> faithful g cg -> iso_cov g cg.
Proof.
  intros Hg Hf. destruct (faithful_geq_cov _ _ Hf) as (f & Hi & Hq). exists f. split; auto. apply geq_cov_sym. exact Hq.
Qed.

(* ---------------- SynGraph ---------------- *)
Section VO.
Variable D : Type.
Variable digest : str -> D.

Theorem syngraph_nauty g h : wf g -> wf h -> els_ok g -> els_ok h ->
  (digest (ser_nauty g) = digest (ser_nauty h) -> ser_nauty g = ser_nauty h) ->
  (digest (ser_nauty g) = digest (ser_nauty h) <-> iso_cov g h).
Proof.
  intros Hg Hh Eg Eh Hd. split.
  - intros E. apply (signature_sound_nauty D digest g h); auto.
  - intros Hi. apply (signature_invariant_nauty D digest g h); auto.
Qed.

(* CanonicalGraph hashes the canonical graph once more *)
Theorem cangraph_nauty g h : wf g -> wf h -> els_ok g -> els_ok h ->
  (digest (ser_nauty (canon_nauty g)) = digest (ser_nauty (canon_nauty h)) -> ser_nauty (canon_nauty g) = ser_nauty (canon_nauty h)) ->
  (digest (ser_nauty (canon_nauty g)) = digest (ser_nauty (canon_nauty h)) <-> iso_cov g h).
Proof.
  intros Hg Hh Eg Eh Hd.
  pose proof (faithful_nauty g (proj1 Hg)) as Fg. pose proof (faithful_nauty h (proj1 Hh)) as Fh.
  pose proof (wf_faithful _ _ Hg Fg) as Wg. pose proof (wf_faithful _ _ Hh Fh) as Wh.
  pose proof (faithful_els_ok _ _ Fg Eg) as Kg. pose proof (faithful_els_ok _ _ Fh Eh) as Kh.
  rewrite (syngraph_nauty (canon_nauty g) (canon_nauty h) Wg Wh Kg Kh Hd). split; intros Hi.
  - eapply iso_cov_trans; [apply faithful_iso; eauto|]. eapply iso_cov_trans; [exact Hi|].
    apply iso_cov_sym; auto. apply faithful_iso; auto.
  - eapply iso_cov_trans; [apply iso_cov_sym; [exact Hg|exact Wg|apply faithful_iso; eauto]|].
    eapply iso_cov_trans; [exact Hi|]. apply faithful_iso; auto.
Qed.

(* every back-end: equal wrappers only for isomorphic content ([canon] faithful: generic, wl/morgan, nauty) *)
Theorem vo_sound (canon canon' : graph -> graph) g h : wf g -> wf h -> els_ok g -> els_ok h ->
  faithful g (canon g) -> faithful h (canon' h) ->
  (digest (serialise (canon g)) = digest (serialise (canon' h)) -> serialise (canon g) = serialise (canon' h)) ->
  digest (serialise (canon g)) = digest (serialise (canon' h)) -> iso_cov g h.
Proof. intros Hg Hh Eg Eh Fg Fh Hd E. apply (sound_faithful g h (canon g) (canon' h)); auto. Qed.

(* SynRule: (rc, left, right) *)
Definition rule_ok (a : graph * graph * graph) : Prop :=
  (wf (fst (fst a)) /\ els_ok (fst (fst a))) /\ (wf (snd (fst a)) /\ els_ok (snd (fst a))) /\ (wf (snd a) /\ els_ok (snd a)).
Definition rule_iso (a b : graph * graph * graph) : Prop :=
  iso_cov (snd (fst a)) (snd (fst b)) /\ iso_cov (snd a) (snd b) /\ iso_cov (fst (fst a)) (fst (fst b)).
Definition rule_sig_eq (a b : graph * graph * graph) : Prop :=
  (digest (ser_nauty (snd (fst a))), digest (ser_nauty (snd a))) = (digest (ser_nauty (snd (fst b))), digest (ser_nauty (snd b)))
  /\ digest (ser_nauty (fst (fst a))) = digest (ser_nauty (fst (fst b))).

Theorem synrule_nauty a b : rule_ok a -> rule_ok b ->
  (forall g h, digest (ser_nauty g) = digest (ser_nauty h) -> ser_nauty g = ser_nauty h) ->
  (rule_sig_eq a b <-> rule_iso a b).
Proof.
  intros ((W1 & K1) & (W2 & K2) & (W3 & K3)) ((W1' & K1') & (W2' & K2') & (W3' & K3')) Hd.
  unfold rule_sig_eq, rule_iso. split.
  - intros [E1 E2]. inversion E1 as [[E3 E4]].
    repeat split; [apply (syngraph_nauty _ _ W2 W2' K2 K2' (Hd _ _))|apply (syngraph_nauty _ _ W3 W3' K3 K3' (Hd _ _))
                  |apply (syngraph_nauty _ _ W1 W1' K1 K1' (Hd _ _))]; auto.
  - intros (I1 & I2 & I3).
    apply (syngraph_nauty _ _ W2 W2' K2 K2' (Hd _ _)) in I1. apply (syngraph_nauty _ _ W3 W3' K3 K3' (Hd _ _)) in I2.
    apply (syngraph_nauty _ _ W1 W1' K1 K1' (Hd _ _)) in I3. rewrite I1, I2. auto.
Qed.
End VO.

(* ---------------- the digest-free verdicts that the correspondence evaluates ---------------- *)
Theorem syngraph_eqb_nauty g h : wf g -> wf h -> els_ok g -> els_ok h ->
  (syngraph_eqb ser_nauty g h = true <-> iso_cov g h).
Proof.
  intros Hg Hh Eg Eh. unfold syngraph_eqb. rewrite str_eqb_spec.
  apply (syngraph_nauty str (fun s => s) g h); auto.
Qed.
Theorem cangraph_eqb_nauty g h : wf g -> wf h -> els_ok g -> els_ok h ->
  (cangraph_eqb canon_nauty ser_nauty g h = true <-> iso_cov g h).
Proof.
  intros Hg Hh Eg Eh. unfold cangraph_eqb. rewrite str_eqb_spec.
  apply (cangraph_nauty str (fun s => s) g h); auto.
Qed.
Theorem synrule_eqb_nauty a b : rule_ok a -> rule_ok b -> (synrule_eqb ser_nauty a b = true <-> rule_iso a b).
Proof.
  intros Ha Hb. rewrite <- (synrule_nauty str (fun s => s) a b Ha Hb (fun _ _ E => E)).
  unfold synrule_eqb, rule_sig_eq. rewrite !andb_true_iff, !str_eqb_spec. split.
  - intros [[E1 E2] E3]. rewrite E1, E2. auto.
  - intros [E1 E2]. pose proof (f_equal fst E1) as H1. pose proof (f_equal snd E1) as H2. cbn [fst snd] in H1, H2. auto.
Qed.
Theorem syngraph_eqb_sound_generic g h : wf g -> wf h -> els_ok g -> els_ok h -> syngraph_eqb ser_generic g h = true -> iso_cov g h.
Proof.
  intros Hg Hh Eg Eh E. apply str_eqb_spec in E.
  apply (vo_sound str (fun s => s) canon_generic canon_generic g h); auto; apply faithful_generic; [apply Hg|apply Hh].
Qed.
Theorem cangraph_eqb_sound_generic g h : wf g -> wf h -> els_ok g -> els_ok h ->
  cangraph_eqb canon_generic ser_generic g h = true -> iso_cov g h.
Proof.
  intros Hg Hh Eg Eh E. apply str_eqb_spec in E.
  pose proof (faithful_generic g (proj1 Hg)) as Fg. pose proof (faithful_generic h (proj1 Hh)) as Fh.
  pose proof (wf_faithful _ _ Hg Fg) as Wg. pose proof (wf_faithful _ _ Hh Fh) as Wh.
  assert (Hi : iso_cov (canon_generic g) (canon_generic h)).
  { apply (vo_sound str (fun s => s) canon_generic canon_generic); auto.
    - apply (faithful_els_ok _ _ Fg Eg). - apply (faithful_els_ok _ _ Fh Eh).
    - apply faithful_generic. apply Wg. - apply faithful_generic. apply Wh. }
  eapply iso_cov_trans; [apply faithful_iso; eauto|]. eapply iso_cov_trans; [exact Hi|].
  apply iso_cov_sym; auto. apply faithful_iso; auto.
Qed.

Theorem synrule_nauty_flat (D : Type) (digest : str -> D) (rc l r rc' l' r' : graph) :
  wf rc -> wf l -> wf r -> wf rc' -> wf l' -> wf r' ->
  els_ok rc -> els_ok l -> els_ok r -> els_ok rc' -> els_ok l' -> els_ok r' ->
  (forall g h, digest (ser_nauty g) = digest (ser_nauty h) -> ser_nauty g = ser_nauty h) ->
  ((digest (ser_nauty l), digest (ser_nauty r)) = (digest (ser_nauty l'), digest (ser_nauty r'))
   /\ digest (ser_nauty rc) = digest (ser_nauty rc')
   <-> iso_cov l l' /\ iso_cov r r' /\ iso_cov rc rc').
Proof.
  intros. apply (synrule_nauty D digest (rc, l, r) (rc', l', r')); auto; unfold rule_ok; cbn [fst snd]; auto.
Qed.
Theorem synrule_eqb_nauty_flat (rc l r rc' l' r' : graph) :
  wf rc -> wf l -> wf r -> wf rc' -> wf l' -> wf r' ->
  els_ok rc -> els_ok l -> els_ok r -> els_ok rc' -> els_ok l' -> els_ok r' ->
  (synrule_eqb ser_nauty (rc, l, r) (rc', l', r') = true <-> iso_cov l l' /\ iso_cov r r' /\ iso_cov rc rc').
Proof.
  intros. apply (synrule_eqb_nauty (rc, l, r) (rc', l', r')); unfold rule_ok; cbn [fst snd]; auto.
Qed.

Theorem vo_model_verdicts g h : wf g -> wf h -> els_ok g -> els_ok h ->
  (syngraph_eqb ser_nauty g h = true <-> iso_cov g h) /\
  (cangraph_eqb canon_nauty ser_nauty g h = true <-> iso_cov g h) /\
  (syngraph_eqb ser_generic g h = true -> iso_cov g h) /\
  (cangraph_eqb canon_generic ser_generic g h = true -> iso_cov g h).
Proof.
  intros Hg Hh Eg Eh. split; [apply syngraph_eqb_nauty; auto|]. split; [apply cangraph_eqb_nauty; auto|].
  split; [apply syngraph_eqb_sound_generic; auto|apply cangraph_eqb_sound_generic; auto].
Qed.

(* canonicalising a canonical graph changes nothing on the covered attributes; hence CanonicalGraph's hash (the
   signature of the canonical graph) is the signature of the raw graph *)
Theorem nauty_idempotent g : wf g -> els_ok g ->
  geq_cov (canon_nauty g) (canon_nauty (canon_nauty g)) /\ ser_nauty (canon_nauty g) = ser_nauty g.
Proof.
  intros Hg Eg.
  pose proof (faithful_nauty g (proj1 Hg)) as Fg.
  pose proof (wf_faithful _ _ Hg Fg) as Wg.
  destruct (nauty_invariant g (canon_nauty g) Hg Wg Eg (faithful_iso _ _ Hg Fg)) as [H1 H2].
  split; [exact H1|]. unfold ser_nauty. symmetry. exact H2.
Qed.

(* for the record: the attribute-sort back-end is NOT invariant under renumbering (nothing in C08 claims it):
   so_g and so_h are isomorphic (inv_ex) and get different generic serialisations *)
Example generic_not_invariant : iso_cov so_g so_h /\ ser_generic so_g <> ser_generic so_h.
Proof. split; [apply inv_ex|]. vm_compute. discriminate. Qed.

(* non-vacuity: the renumbered pair of C08_Sound/C08_Invariant compares equal, a mutant compares unequal *)
Definition so_m : graph :=
  LG [(1%N, NA [79%N] false 0 1 None); (2%N, NA [67%N] false 0 0 None); (9%N, NA [67%N] false 0 0 None)]
     [(1%N, 9%N, EA 4 None); (2%N, 9%N, EA 2 None)].
Example vo_ex : syngraph_eqb ser_nauty so_g so_h = true /\ cangraph_eqb canon_nauty ser_nauty so_g so_h = true
                /\ syngraph_eqb ser_nauty so_g so_m = false
                /\ synrule_eqb ser_nauty (so_g, so_g, so_h) (so_h, so_h, so_g) = true
                /\ synrule_eqb ser_nauty (so_g, so_g, so_h) (so_m, so_h, so_g) = false.
Proof. vm_compute. repeat split. Qed.

Print Assumptions syngraph_nauty.
Print Assumptions cangraph_nauty.
Print Assumptions synrule_nauty.
Print Assumptions cangraph_eqb_sound_generic.
Print Assumptions nauty_idempotent.
