(** C04 — default (explicit-hydrogen) mode: a rule whose atoms are the non-hydrogen atoms of a template describing (A, B),
    with hydrogen counts = number of bonds to the template's hydrogen atoms on each side, describes the pair of
    implicit-hydrogen forms (h_to_implicit A, h_to_implicit B). *)
From Coq Require Import List NArith ZArith Bool Lia Permutation.
From SK Require Import lib.Tok lib.LGraph model.C03_Model model.C04_Model proof.C03_Proof proof.C03_Glue proof.C03_Backward
                       proof.C03_Skeleton proof.C03_StripCounts proof.C03_StripExact
                       proof.C04_Glue proof.C04_Template proof.C04_Fold.
Import ListNotations.
Local Open Scope Z_scope.

(** * counting bonds in a simple edge list *)
Lemma cnt_none (es : list (N * N * Z)) h x : find_edge h x es = None -> cnt es h x = 0.
Proof.
  unfold cnt. induction es as [|[[a b] o] r IH]; simpl; [reflexivity|].
  change ((N.eqb a h && N.eqb b x) || (N.eqb a x && N.eqb b h)) with (peq a b h x).
  destruct (peq a b h x); [discriminate|]. exact IH.
Qed.
Lemma cnt_cons a b o (r : list (N * N * Z)) h x : cnt ((a, b, o) :: r) h x = (if peq a b h x then 1 else 0) + cnt r h x.
Proof. unfold cnt. cbn [filter fst snd]. destruct (peq a b h x); cbn [length]; lia. Qed.
Lemma cnt_simple (es : list (N * N * Z)) h x : simpleP (pairs es) ->
  cnt es h x = match find_edge h x es with Some _ => 1 | None => 0 end.
Proof.
  induction es as [|[[a b] o] r IH]; [reflexivity|]. intros (Hne & Hr & Hs). rewrite cnt_cons. cbn [find_edge].
  change ((N.eqb a h && N.eqb b x) || (N.eqb a x && N.eqb b h)) with (peq a b h x).
  destruct (peq a b h x) eqn:E.
  - rewrite cnt_none; [reflexivity|].
    apply find_edge_none_all. intros u v z I. apply (peq_false_trans u v a b h x); [|exact E].
    apply Hr. unfold pairs. change (u, v) with (fst (u, v, z)). apply in_map. exact I.
  - rewrite (IH Hs). lia.
Qed.
Lemma sum_cnt_ext es es' R x : (forall h, In h R -> cnt es h x = cnt es' h x) -> sum_cnt es R x = sum_cnt es' R x.
Proof. induction R as [|h r IH]; simpl; intros H; [reflexivity|]. rewrite (H h) by auto. rewrite IH; auto. Qed.
Lemma sum_cnt_perm es R R' x : Permutation R R' -> sum_cnt es R x = sum_cnt es R' x.
Proof. intros P. induction P; simpl; try lia. Qed.
Lemma sum_cnt_zero es R x : (forall h, In h R -> cnt es h x = 0) -> sum_cnt es R x = 0.
Proof. induction R as [|h r IH]; simpl; intros H; [reflexivity|]. rewrite (H h) by auto. rewrite IH; auto. Qed.
Lemma find_edge_mkeepe (es : list (N * N * Z)) R u v : ~ In u R -> ~ In v R -> find_edge u v (filter (mkeepe R) es) = find_edge u v es.
Proof.
  intros Hu Hv. induction es as [|[[a b] o] r IH]; simpl; [reflexivity|].
  change ((N.eqb a u && N.eqb b v) || (N.eqb a v && N.eqb b u)) with (peq a b u v).
  unfold mkeepe at 1. cbn [fst snd]. destruct (peq a b u v) eqn:E.
  - assert (mem a R = false /\ mem b R = false) as [Ea Eb].
    { unfold peq in E. apply orb_prop in E. destruct E as [E|E]; apply andb_prop in E; destruct E as [E1 E2];
        apply N.eqb_eq in E1; apply N.eqb_eq in E2; subst; split;
        match goal with |- mem ?z R = false => destruct (mem z R) eqn:Em; [apply mem_spec in Em; contradiction|reflexivity] end. }
    rewrite Ea, Eb. simpl. change ((N.eqb a u && N.eqb b v) || (N.eqb a v && N.eqb b u)) with (peq a b u v). rewrite E. reflexivity.
  - destruct (negb (mem a R) && negb (mem b R)); simpl; [|exact IH].
    change ((N.eqb a u && N.eqb b v) || (N.eqb a v && N.eqb b u)) with (peq a b u v). rewrite E. exact IH.
Qed.
Lemma find_edge_keepe (es : list (N * N * iedge)) R u v : ~ In u R -> ~ In v R -> find_edge u v (filter (keepe R) es) = find_edge u v es.
Proof.
  intros Hu Hv. induction es as [|[[a b] o] r IH]; simpl; [reflexivity|].
  change ((N.eqb a u && N.eqb b v) || (N.eqb a v && N.eqb b u)) with (peq a b u v).
  unfold keepe at 1. cbn [fst snd]. destruct (peq a b u v) eqn:E.
  - assert (mem a R = false /\ mem b R = false) as [Ea Eb].
    { unfold peq in E. apply orb_prop in E. destruct E as [E|E]; apply andb_prop in E; destruct E as [E1 E2];
        apply N.eqb_eq in E1; apply N.eqb_eq in E2; subst; split;
        match goal with |- mem ?z R = false => destruct (mem z R) eqn:Em; [apply mem_spec in Em; contradiction|reflexivity] end. }
    rewrite Ea, Eb. simpl. change ((N.eqb a u && N.eqb b v) || (N.eqb a v && N.eqb b u)) with (peq a b u v). rewrite E. reflexivity.
  - destruct (negb (mem a R) && negb (mem b R)); simpl; [|exact IH].
    change ((N.eqb a u && N.eqb b v) || (N.eqb a v && N.eqb b u)) with (peq a b u v). rewrite E. exact IH.
Qed.
Lemma find_edge_endpoint_removed (es : list (N * N * Z)) R u v : In u R -> find_edge u v (filter (mkeepe R) es) = None.
Proof.
  intros Hu. apply find_edge_none_all. intros a b z I. apply filter_In in I. destruct I as [_ K]. unfold mkeepe in K. cbn [fst snd] in K.
  apply andb_prop in K. destruct K as [K1 K2]. apply negb_true_iff in K1, K2.
  unfold peq. destruct (N.eqb_spec a u) as [->|]; [apply mem_spec in Hu; congruence|].
  destruct (N.eqb_spec b u) as [->|]; [apply mem_spec in Hu; congruence|]. simpl. rewrite andb_false_r. reflexivity.
Qed.

(** * consequences of [folded_to] *)
Section Folded.
  Variables (g g' : hostg) (R : list N).
  Hypothesis F : folded_to g R g'.
  Hypothesis Hw : wf_hostb g = true.

  Lemma folded_ids : node_ids g' = map fst (filter (hkeepn R) (gnodes g)).
  Proof. destruct F as [F1 _]. unfold node_ids. rewrite F1, map_map. reflexivity. Qed.
  Lemma folded_in_ids n : In n (node_ids g') <-> In n (node_ids g) /\ ~ In n R.
  Proof.
    rewrite folded_ids. split.
    - intros I. apply in_map_iff in I. destruct I as ([k a] & E & I). simpl in E; subst. apply filter_In in I. destruct I as [I K].
      split; [unfold node_ids; change n with (fst (n, a)); apply in_map; exact I|].
      unfold hkeepn in K. cbn [fst] in K. apply negb_true_iff in K. intros J. apply mem_spec in J. congruence.
    - intros [I NI]. unfold node_ids in I. apply in_map_iff in I. destruct I as ([k a] & E & I). simpl in E; subst.
      apply in_map_iff. exists (n, a). split; [reflexivity|]. apply filter_In. split; [exact I|].
      unfold hkeepn. cbn [fst]. apply negb_true_iff. destruct (mem n R) eqn:E; [apply mem_spec in E; contradiction|reflexivity].
  Qed.
  Lemma folded_nodup : NoDup (node_ids g').
  Proof. rewrite folded_ids. apply NoDup_map_filter. exact (wf_host_nodup g Hw). Qed.
  Lemma folded_label_in n : In n R -> label g' n = None.
  Proof.
    intros I. destruct (label g' n) as [a|] eqn:E; [|reflexivity]. exfalso.
    apply label_some_in in E. apply folded_in_ids in E. tauto.
  Qed.
  Lemma folded_adj u v : adj g' u v = if mem u R || mem v R then None else adj g u v.
  Proof.
    destruct F as [_ F2]. unfold adj. rewrite F2.
    destruct (mem u R) eqn:Eu; simpl.
    - apply find_edge_endpoint_removed. apply mem_spec. exact Eu.
    - destruct (mem v R) eqn:Ev.
      + rewrite find_edge_sym. apply find_edge_endpoint_removed. apply mem_spec. exact Ev.
      + apply find_edge_mkeepe; intros J; apply mem_spec in J; congruence.
  Qed.
  Lemma folded_order u v : order_in g' u v = if mem u R || mem v R then 0 else order_in g u v.
  Proof. unfold order_in. rewrite folded_adj. destruct (mem u R || mem v R); reflexivity. Qed.
  Lemma folded_wf : wf_hostb g' = true.
  Proof.
    unfold wf_hostb. apply andb_true_intro; split; [apply andb_true_intro; split|].
    - apply NoDup_nodupb. exact folded_nodup.
    - apply simple_b_of_P. destruct F as [_ F2]. rewrite F2. apply simpleP_filter. apply host_simple. exact Hw.
    - apply forallb_forall. intros [[a b] o] I. destruct F as [_ F2]. rewrite F2 in I. apply filter_In in I. destruct I as [I _].
      simpl. apply Z.ltb_lt. exact (wf_host_orders g a b o Hw I).
  Qed.
  Lemma folded_closed : closed g -> closed g'.
  Proof.
    intros C u v o I. destruct F as [_ F2]. rewrite F2 in I. apply filter_In in I. destruct I as [I K].
    unfold mkeepe in K. cbn [fst snd] in K. apply andb_prop in K. destruct K as [K1 K2]. apply negb_true_iff in K1, K2.
    destruct (C u v o I) as [Iu Iv]. split; apply folded_in_ids; (split; [assumption|]); intros J; apply mem_spec in J; congruence.
  Qed.
End Folded.

Lemma nodup_app {X} (l1 l2 : list X) : NoDup l1 -> NoDup l2 -> (forall x, In x l1 -> ~ In x l2) -> NoDup (l1 ++ l2).
Proof.
  induction l1 as [|y r IH]; simpl; intros H1 H2 Hd; [exact H2|]. inversion H1; subst. constructor.
  - intros I. apply in_app_or in I. destruct I as [I|I]; [contradiction|]. exact (Hd y (or_introl eq_refl) I).
  - apply IH; auto.
Qed.
Lemma sum_cnt_app es l1 l2 x : sum_cnt es (l1 ++ l2) x = sum_cnt es l1 x + sum_cnt es l2 x.
Proof. induction l1 as [|h r IH]; simpl; [reflexivity|]. rewrite IH. lia. Qed.
Lemma cnt_nonneg es h x : 0 <= cnt es h x.
Proof. unfold cnt. lia. Qed.
Lemma sum_cnt_nonneg es R x : 0 <= sum_cnt es R x.
Proof. induction R as [|h r IH]; simpl; [lia|]. pose proof (cnt_nonneg es h x). lia. Qed.

(** * the bridge *)
Definition foldable (g : hostg) : Prop :=
  forall h, is_H_h g h = true -> nbrs g h <> [] /\ forall x, In x (nbrs g h) -> is_H_h g x = false /\ has_node g x = true.

Section Bridge.
  Variables (A B : hostg) (tpl rc : its) (R : list N).
  Hypothesis PW : pair_wf A B.
  Hypothesis CA : closed A.
  Hypothesis CB : closed B.
  Hypothesis D : describes A B tpl.
  (** default-mode way of writing the reaction: no implicit hydrogen change, counts not negative, every hydrogen atom
      bonded to non-hydrogen atoms on both sides *)
  Hypothesis E1 : forall n x y, label A n = Some x -> label B n = Some y -> a_hc x = a_hc y.
  Hypothesis E2 : forall n x, label A n = Some x -> 0 <= a_hc x.
  Hypothesis FA : foldable A.
  Hypothesis FB : foldable B.
  (** a hydrogen atom that is an atom of the template is there with all its bonds (the others are spectators) *)
  Hypothesis E3 : forall h, is_H_h A h = true -> In h (node_ids tpl) ->
    forall k, adj A h k <> None \/ adj B h k <> None -> exists x, adj tpl h k = Some x.
  (** the rule: the template without its hydrogen atoms [R], counts = bonds to [R] on each side *)
  Hypothesis RH : forall h, In h R <-> In h (node_ids tpl) /\ is_H_h A h = true.
  Hypothesis RN : NoDup R.
  Hypothesis RCn : NoDup (node_ids rc).
  Hypothesis RCi : forall k, In k (node_ids rc) <-> In k (node_ids tpl) /\ ~ In k R.
  Hypothesis RCa : forall k a0, label tpl k = Some a0 -> ~ In k R ->
    exists a, label rc k = Some a /\ a_el (iG a) = a_el (iG a0) /\ a_el (iH a) = a_el (iH a0) /\
              a_ch (iG a) = a_ch (iG a0) /\ a_ch (iH a) = a_ch (iH a0) /\
              a_hc (iG a) = sum_cnt (gedges (side0 iG eG tpl)) R k /\ a_hc (iH a) = sum_cnt (gedges (side0 iH eH tpl)) R k.
  Hypothesis RCe : gedges rc = filter (keepe R) (gedges tpl).

  Let HA := pw_A _ _ PW.
  Let HB := pw_B _ _ PW.
  Let Hwr := d_wf _ _ _ D.
  Let A' := h_to_implicit_host A.
  Let B' := h_to_implicit_host B.
  Let RA := rev (h_nodes_h A).
  Let RB := rev (h_nodes_h B).
  Let SA : (forall x, In x RA <-> is_H_h A x = true) /\ NoDup RA /\ folded_to A RA A' := fold_host_spec A (wf_host_nodup A HA) FA.
  Let SB : (forall x, In x RB <-> is_H_h B x = true) /\ NoDup RB /\ folded_to B RB B' := fold_host_spec B (wf_host_nodup B HB) FB.

  Lemma isH_AB h : is_H_h B h = is_H_h A h.
  Proof.
    unfold is_H_h. destruct (label A h) as [x|] eqn:Ex.
    - destruct (in_ids_label B h (proj1 (pw_ids _ _ PW h) (label_some_in A h x Ex))) as [y Ey]. rewrite Ey.
      rewrite (pw_el _ _ PW h x y Ex Ey). reflexivity.
    - destruct (label B h) as [y|] eqn:Ey; [|reflexivity]. exfalso. apply (label_none A h Ex). apply (pw_ids _ _ PW h).
      exact (label_some_in B h y Ey).
  Qed.
  Lemma R_RA h : In h R -> In h RA.
  Proof. intros I. apply (proj1 SA h). exact (proj2 (proj1 (RH h) I)). Qed.
  Lemma RA_RB h : In h RA <-> In h RB.
  Proof.
    split; intros I.
    - apply (proj1 SB h). rewrite isH_AB. apply (proj1 SA h). exact I.
    - apply (proj1 SA h). rewrite <- isH_AB. apply (proj1 SB h). exact I.
  Qed.
  Lemma mem_RB h : mem h RB = mem h RA.
  Proof. destruct (mem h RB) eqn:E1', (mem h RA) eqn:E2'; try reflexivity.
    - apply mem_spec in E1'. apply RA_RB in E1'. apply mem_spec in E1'. congruence.
    - apply mem_spec in E2'. apply RA_RB in E2'. apply mem_spec in E2'. congruence.
  Qed.
  (** an atom of the template that is not one of its hydrogen atoms is no hydrogen atom at all *)
  Lemma tpl_notR_notRA k : In k (node_ids tpl) -> ~ In k R -> ~ In k RA.
  Proof. intros It NI I. apply NI. apply RH. split; [exact It|]. exact (proj1 (proj1 SA k) I). Qed.

  (** the hydrogen atoms of A: those of the template, then the spectators *)
  Definition spect (L : list N) : list N := filter (fun h => negb (mem h R)) L.
  Lemma perm_split L : NoDup L -> (forall h, In h R -> In h L) -> Permutation L (R ++ spect L).
  Proof.
    intros NL Hin. apply NoDup_Permutation; [exact NL| |].
    - apply nodup_app; [exact RN|apply NoDup_filter; exact NL|]. intros x I J. apply filter_In in J. destruct J as [_ J].
      apply negb_true_iff in J. apply mem_spec in I. congruence.
    - intros x. rewrite in_app_iff. unfold spect. rewrite filter_In. split.
      + intros I. destruct (mem x R) eqn:E; [left; apply mem_spec; exact E|right; split; [exact I|reflexivity]].
      + intros [I|[I _]]; [exact (Hin x I)|exact I].
  Qed.
  Lemma perm_RA : Permutation RA (R ++ spect RA).
  Proof. apply perm_split; [exact (proj1 (proj2 SA))|exact R_RA]. Qed.
  Lemma perm_RB : Permutation RB (R ++ spect RB).
  Proof. apply perm_split; [exact (proj1 (proj2 SB))|]. intros h I. apply RA_RB. exact (R_RA h I). Qed.
  Lemma perm_spect : Permutation (spect RA) (spect RB).
  Proof.
    apply NoDup_Permutation; [apply NoDup_filter; exact (proj1 (proj2 SA))|apply NoDup_filter; exact (proj1 (proj2 SB))|].
    intros x. unfold spect. rewrite !filter_In. rewrite (RA_RB x). reflexivity.
  Qed.
  Lemma spect_not_tpl h : In h (spect RA) -> is_H_h A h = true /\ ~ In h (node_ids tpl).
  Proof.
    intros I. unfold spect in I. apply filter_In in I. destruct I as [I K]. pose proof (proj1 (proj1 SA h) I) as Hh.
    split; [exact Hh|]. intros It. apply negb_true_iff in K. assert (In h R) by (apply RH; auto). apply mem_spec in H. congruence.
  Qed.

  (** bonds of a template side to a hydrogen atom = bonds of the molecule to it *)
  Lemma side0_edges sn se : gedges (side0 sn se tpl) = gedges (dec_side sn se tpl).
  Proof. reflexivity. Qed.
  Lemma tpl_simpleP : simpleP (pairs (gedges tpl)).
  Proof. apply simpleP_of_b. exact (wf_rc_simple tpl Hwr). Qed.

  Lemma cnt_side_G h k : In h R -> cnt (gedges (side0 iG eG tpl)) h k = cnt (gedges A) h k.
  Proof.
    intros I. rewrite side0_edges. pose proof (proj1 (RH h) I) as [Ih Hh].
    assert (SD : simpleP (pairs (gedges (dec_side iG eG tpl)))).
    { apply simpleP_of_b. unfold dec_side; cbn [gedges].
      exact (simple_flat_sub (fun x : iedge => 0 <? eG x) eG (gedges tpl) (wf_rc_simple tpl Hwr)). }
    rewrite (cnt_simple _ h k SD), (cnt_simple _ h k (host_simple A HA)).
    fold (adj (dec_side iG eG tpl) h k). rewrite (dec_adj iG eG tpl h k tpl_simpleP). fold (adj A h k).
    destruct (adj A h k) as [o|] eqn:Ea.
    - assert (NN : adj A h k <> None \/ adj B h k <> None) by (left; rewrite Ea; discriminate).
      destruct (E3 h Hh Ih k NN) as [x Ex]. rewrite Ex.
      unfold adj in Ex. apply find_edge_in in Ex. destruct Ex as (p & q & J & Hp).
      destruct (d_edges _ _ _ D p q x J) as (_ & _ & Eg & _). rewrite (order_in_peq A p q h k Hp) in Eg.
      destruct (order_in_pos A h k o HA Ea) as [Eo Ho]. destruct (Z.ltb_spec 0 (eG x)); [reflexivity|lia].
    - destruct (adj tpl h k) as [x|] eqn:Ex; [|reflexivity].
      unfold adj in Ex. apply find_edge_in in Ex. destruct Ex as (p & q & J & Hp).
      destruct (d_edges _ _ _ D p q x J) as (_ & _ & Eg & _). rewrite (order_in_peq A p q h k Hp) in Eg.
      unfold order_in in Eg. rewrite Ea in Eg. destruct (Z.ltb_spec 0 (eG x)); [lia|reflexivity].
  Qed.
  Lemma cnt_side_H h k : In h R -> cnt (gedges (side0 iH eH tpl)) h k = cnt (gedges B) h k.
  Proof.
    intros I. rewrite side0_edges. pose proof (proj1 (RH h) I) as [Ih Hh].
    assert (SD : simpleP (pairs (gedges (dec_side iH eH tpl)))).
    { apply simpleP_of_b. unfold dec_side; cbn [gedges].
      exact (simple_flat_sub (fun x : iedge => 0 <? eH x) eH (gedges tpl) (wf_rc_simple tpl Hwr)). }
    rewrite (cnt_simple _ h k SD), (cnt_simple _ h k (host_simple B HB)).
    fold (adj (dec_side iH eH tpl) h k). rewrite (dec_adj iH eH tpl h k tpl_simpleP). fold (adj B h k).
    destruct (adj B h k) as [o|] eqn:Ea.
    - assert (NN : adj A h k <> None \/ adj B h k <> None) by (right; rewrite Ea; discriminate).
      destruct (E3 h Hh Ih k NN) as [x Ex]. rewrite Ex.
      unfold adj in Ex. apply find_edge_in in Ex. destruct Ex as (p & q & J & Hp).
      destruct (d_edges _ _ _ D p q x J) as (_ & _ & _ & Eg). rewrite (order_in_peq B p q h k Hp) in Eg.
      destruct (order_in_pos B h k o HB Ea) as [Eo Ho]. destruct (Z.ltb_spec 0 (eH x)); [reflexivity|lia].
    - destruct (adj tpl h k) as [x|] eqn:Ex; [|reflexivity].
      unfold adj in Ex. apply find_edge_in in Ex. destruct Ex as (p & q & J & Hp).
      destruct (d_edges _ _ _ D p q x J) as (_ & _ & _ & Eg). rewrite (order_in_peq B p q h k Hp) in Eg.
      unfold order_in in Eg. rewrite Ea in Eg. destruct (Z.ltb_spec 0 (eH x)); [lia|reflexivity].
  Qed.

  Lemma sum_G k : sum_cnt (gedges (side0 iG eG tpl)) R k = hsum A R k.
  Proof. unfold hsum. apply sum_cnt_ext. intros h I. apply cnt_side_G. exact I. Qed.
  Lemma sum_H k : sum_cnt (gedges (side0 iH eH tpl)) R k = hsum B R k.
  Proof. unfold hsum. apply sum_cnt_ext. intros h I. apply cnt_side_H. exact I. Qed.

  (** a spectator hydrogen has the same bonds on both sides *)
  Lemma spect_cnt h k : In h (spect RA) -> cnt (gedges A) h k = cnt (gedges B) h k.
  Proof.
    intros I. destruct (spect_not_tpl h I) as [Hh NT].
    rewrite (cnt_simple _ h k (host_simple A HA)), (cnt_simple _ h k (host_simple B HB)).
    fold (adj A h k). fold (adj B h k).
    assert (E : order_in A h k = order_in B h k).
    { destruct (Z.eq_dec (order_in A h k) (order_in B h k)) as [E|NE]; [exact E|]. exfalso.
      destruct (d_cover_e _ _ _ D h k NE) as [x Ex]. unfold adj in Ex. apply find_edge_in in Ex. destruct Ex as (p & q & J & Hp).
      destruct (d_edges _ _ _ D p q x J) as (Ip & Iq & _). apply NT.
      unfold peq in Hp. apply orb_prop in Hp. destruct Hp as [Hp|Hp]; apply andb_prop in Hp; destruct Hp as [H1 H2];
        apply N.eqb_eq in H1; apply N.eqb_eq in H2; subst; assumption. }
    rewrite (order_in_eq_adj A B h k HA HB E). reflexivity.
  Qed.
  Definition hS (k : N) : Z := hsum A (spect RA) k.
  Lemma hsum_A k : hsum A RA k = hsum A R k + hS k.
  Proof. unfold hsum, hS, hsum. rewrite (sum_cnt_perm (gedges A) RA (R ++ spect RA) k perm_RA). apply sum_cnt_app. Qed.
  Lemma hsum_B k : hsum B RB k = hsum B R k + hS k.
  Proof.
    unfold hsum, hS, hsum. rewrite (sum_cnt_perm (gedges B) RB (R ++ spect RB) k perm_RB), sum_cnt_app. f_equal.
    rewrite <- (sum_cnt_perm (gedges B) (spect RA) (spect RB) k perm_spect). symmetry. apply sum_cnt_ext. intros h I. apply spect_cnt. exact I.
  Qed.
  Lemma hS_nonneg k : 0 <= hS k.
  Proof. apply sum_cnt_nonneg. Qed.

  Let FAA : folded_to A RA A' := proj2 (proj2 SA).
  Let FBB : folded_to B RB B' := proj2 (proj2 SB).

  Lemma notin_RB n : ~ In n RA -> ~ In n RB.
  Proof. intros H I. apply H. apply RA_RB. exact I. Qed.

  Lemma pair_folded : pair_wf A' B'.
  Proof.
    constructor.
    - exact (folded_wf A A' RA FAA HA).
    - exact (folded_wf B B' RB FBB HB).
    - intros n. rewrite (folded_in_ids A A' RA FAA n), (folded_in_ids B B' RB FBB n).
      split; intros [I NI]; (split; [apply (pw_ids _ _ PW); exact I|]); intros J; apply NI; apply RA_RB; exact J.
    - intros n x' y' Ex' Ey'.
      assert (NI : ~ In n RA).
      { intros I. rewrite (folded_label_in A A' RA FAA n I) in Ex'. discriminate. }
      rewrite (folded_label A RA A' n FAA NI) in Ex'. rewrite (folded_label B RB B' n FBB (notin_RB n NI)) in Ey'.
      destruct (label A n) as [x|] eqn:Ex; [|discriminate]. destruct (label B n) as [y|] eqn:Ey; [|discriminate].
      simpl in Ex', Ey'. inversion Ex'; inversion Ey'; subst. simpl. exact (pw_el _ _ PW n x y Ex Ey).
  Qed.

  Lemma order_A' u v : ~ In u RA -> ~ In v RA -> order_in A' u v = order_in A u v.
  Proof.
    intros Hu Hv. rewrite (folded_order A A' RA FAA u v).
    destruct (mem u RA) eqn:E; [apply mem_spec in E; contradiction|]. destruct (mem v RA) eqn:E'; [apply mem_spec in E'; contradiction|]. reflexivity.
  Qed.
  Lemma order_B' u v : ~ In u RA -> ~ In v RA -> order_in B' u v = order_in B u v.
  Proof.
    intros Hu Hv. rewrite (folded_order B B' RB FBB u v), !mem_RB.
    destruct (mem u RA) eqn:E; [apply mem_spec in E; contradiction|]. destruct (mem v RA) eqn:E'; [apply mem_spec in E'; contradiction|]. reflexivity.
  Qed.

  Lemma rc_edge_in u v x : In (u, v, x) (gedges rc) -> In (u, v, x) (gedges tpl) /\ ~ In u R /\ ~ In v R.
  Proof.
    rewrite RCe. intros I. apply filter_In in I. destruct I as [I K]. unfold keepe in K. cbn [fst snd] in K.
    apply andb_prop in K. destruct K as [K1 K2]. apply negb_true_iff in K1, K2.
    split; [exact I|]. split; intros J; apply mem_spec in J; congruence.
  Qed.

  Theorem rule_fits_folded : fits A' B' rc.
  Proof.
    constructor.
    - unfold wf_rcb. apply andb_true_intro; split; [apply andb_true_intro; split|].
      + apply NoDup_nodupb. exact RCn.
      + apply simple_b_of_P. rewrite RCe. apply simpleP_filter. exact tpl_simpleP.
      + apply forallb_forall. intros [[u v] x] I. destruct (rc_edge_in u v x I) as [I0 _].
        destruct (wf_rc_nonneg tpl u v x Hwr I0). simpl. apply andb_true_intro; split; apply Z.leb_le; assumption.
    - intros k a I.
      assert (Ik : In k (node_ids rc)) by (unfold node_ids; change k with (fst (k, a)); apply in_map; exact I).
      destruct (proj1 (RCi k) Ik) as [It NI]. destruct (in_ids_label tpl k It) as [a0 Ea0].
      destruct (RCa k a0 Ea0 NI) as (a' & Ea' & C1 & C2 & C3 & C4 & C5 & C6).
      rewrite (label_in rc k a RCn I) in Ea'. inversion Ea'; subst a'.
      destruct (d_nodes _ _ _ D k a0 (assoc_in k (gnodes tpl) Ea0)) as (x & y & Ex & Ey & N1 & N2 & N3 & N4 & _ & _).
      pose proof (tpl_notR_notRA k It NI) as NA.
      exists (bumpk (hsum A RA k) x), (bumpk (hsum B RB k) y).
      split; [rewrite (folded_label A RA A' k FAA NA), Ex; reflexivity|].
      split; [rewrite (folded_label B RB B' k FBB (notin_RB k NA)), Ey; reflexivity|].
      unfold node_fit, bumpk, set_hc; simpl. rewrite C1, C2, C3, C4, C5, C6, sum_G, sum_H, hsum_A, hsum_B.
      pose proof (E2 k x Ex). pose proof (E1 k x y Ex Ey). pose proof (hS_nonneg k). repeat split; auto; lia.
    - intros u v x I. destruct (rc_edge_in u v x I) as (I0 & Nu & Nv).
      destruct (d_edges _ _ _ D u v x I0) as (Iu & Iv & Eg & Eh).
      split; [apply RCi; auto|]. split; [apply RCi; auto|].
      rewrite (order_A' u v (tpl_notR_notRA u Iu Nu) (tpl_notR_notRA v Iv Nv)), (order_B' u v (tpl_notR_notRA u Iu Nu) (tpl_notR_notRA v Iv Nv)). auto.
  Qed.

  (** an atom outside the template has no bond to a hydrogen atom of the template *)
  Lemma no_H_bond_outside n : ~ In n (node_ids tpl) -> hsum A R n = 0 /\ hsum B R n = 0.
  Proof.
    intros NT.
    assert (K : forall (X : hostg), (forall h k, In h R -> adj X h k <> None -> exists x, adj tpl h k = Some x) -> hsum X R n = 0).
    { intros X HE. unfold hsum. apply sum_cnt_zero. intros h I.
      destruct (find_edge h n (gedges X)) as [o|] eqn:Ef; [|apply cnt_none; exact Ef]. exfalso.
      destruct (HE h n I) as [x Ex]; [unfold adj; rewrite Ef; discriminate|].
      unfold adj in Ex. apply find_edge_in in Ex. destruct Ex as (p & q & J & Hp).
      destruct (d_edges _ _ _ D p q x J) as (Ip & Iq & _). apply NT.
      unfold peq in Hp. apply orb_prop in Hp. destruct Hp as [Hp|Hp]; apply andb_prop in Hp; destruct Hp as [H1 H2];
        apply N.eqb_eq in H1; apply N.eqb_eq in H2; subst; assumption. }
    split; apply K; intros h k I Ne; destruct (proj1 (RH h) I) as [Ih Hh].
    - exact (E3 h Hh Ih k (or_introl Ne)).
    - exact (E3 h Hh Ih k (or_intror Ne)).
  Qed.

  Theorem rule_describes_folded : describes A' B' rc.
  Proof.
    constructor.
    - exact rule_fits_folded.
    - intros u v NE.
      destruct (in_dec N.eq_dec u RA) as [Iu|Nu].
      { exfalso. apply NE. rewrite (folded_order A A' RA FAA u v), (folded_order B B' RB FBB u v), mem_RB.
        apply mem_spec in Iu. rewrite Iu. reflexivity. }
      destruct (in_dec N.eq_dec v RA) as [Iv|Nv].
      { exfalso. apply NE. rewrite (folded_order A A' RA FAA u v), (folded_order B B' RB FBB u v), !mem_RB.
        apply mem_spec in Iv. rewrite Iv, !orb_true_r. reflexivity. }
      rewrite (order_A' u v Nu Nv), (order_B' u v Nu Nv) in NE.
      destruct (d_cover_e _ _ _ D u v NE) as [x Ex]. exists x. unfold adj. rewrite RCe.
      rewrite (find_edge_keepe (gedges tpl) R u v); [exact Ex| |]; intros J; [apply Nu|apply Nv]; apply R_RA; exact J.
    - intros n x' y' Ex' Ey' NE.
      assert (NI : ~ In n RA).
      { intros I. rewrite (folded_label_in A A' RA FAA n I) in Ex'. discriminate. }
      rewrite (folded_label A RA A' n FAA NI) in Ex'. rewrite (folded_label B RB B' n FBB (notin_RB n NI)) in Ey'.
      destruct (label A n) as [x|] eqn:Ex; [|discriminate]. destruct (label B n) as [y|] eqn:Ey; [|discriminate].
      simpl in Ex', Ey'. inversion Ex'; inversion Ey'; subst x' y'.
      apply RCi. split; [|intros J; apply NI; apply R_RA; exact J].
      destruct (in_dec N.eq_dec n (node_ids tpl)) as [I|NT]; [exact I|]. exfalso. apply NE.
      destruct (no_H_bond_outside n NT) as [ZA ZB]. rewrite hsum_A, hsum_B, ZA, ZB.
      destruct (sel_dec x y) as [E|NE']; [|exfalso; exact (NT (d_cover_n _ _ _ D n x y Ex Ey NE'))].
      unfold sel, bumpk, set_hc in *; simpl. inversion E. congruence.
  Qed.
End Bridge.
