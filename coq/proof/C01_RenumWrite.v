(** C01 — renumbering commutes with the hydrogen bookkeeping of its_to_rsmi (pointwise / extensional form) *)
From Coq Require Import List NArith ZArith Bool Lia Arith Permutation.
From SK Require Import lib.LGraph lib.C01_GraphLemmas model.C01_Model model.C02_Model model.C01_String model.C01_Renum
  proof.C01_Proof proof.C02_Proof proof.C01_StringHyd proof.C01_StringHydExt proof.C01_StringRenum proof.C01_RenumCentre proof.C01_StringPipe.
Import ListNotations.
Local Open Scope Z_scope.

Lemma filter_map_length {X Y} (p : Y -> bool) (h : X -> Y) (l : list X) :
  length (filter p (map h l)) = length (filter (fun x => p (h x)) l).
Proof. induction l as [|a l IH]; [reflexivity|]. cbn [map filter]. destruct (p (h a)); cbn [length]; rewrite IH; reflexivity. Qed.

Lemma NoDup_map_inj (f : N -> N) (Hinj : forall a b, f a = f b -> a = b) (l : list N) : NoDup l -> NoDup (map f l).
Proof.
  induction 1 as [|x l Hx Hn IH]; [constructor|]. cbn [map]. constructor; [|exact IH].
  intros F. apply in_map_iff in F. destruct F as (y & E & Iy). apply Hinj in E. subst y. contradiction.
Qed.

Section IhRenum.
Variable f : N -> N.
Hypothesis Hinj : forall a b, f a = f b -> a = b.
Variable g : mgraph.
Hypothesis W : wf g.
Hypothesis Am : amap_id g.
Variable pres : list Z.
Hypothesis Hpos : forall z, In z pres -> 0 <= z.

Definition Fz (z : Z) : Z := Z.of_N (f (Z.to_N z)).
Definition g' : mgraph := set_amap (relabel f g).
Definition pres' : list Z := map Fz pres.
Definition re (m : N) (a : gnode) : gnode := GN (g_el a) (g_arom a) (g_hc a) (g_ch a) (g_nb a) (Z.of_N m).

Lemma label_g' n : label g' (f n) = option_map (re (f n)) (label g n).
Proof. unfold g'. rewrite (label_set_amap (relabel f g) (f n)), (label_relabel Hinj). reflexivity. Qed.

Lemma label_g'_out m : ~ In m (map f (node_ids g)) -> label g' m = None.
Proof.
  intros Hm. destruct (label g' m) as [a|] eqn:L; [|reflexivity]. exfalso. apply Hm.
  apply label_some_node in L. unfold g', node_ids, set_amap in L. cbn [gnodes] in L. rewrite map_map in L. cbn [fst] in L.
  change (map (fun x : N * gnode => fst x) (gnodes (relabel f g))) with (node_ids (relabel f g)) in L.
  rewrite node_ids_relabel in L. exact L.
Qed.

Lemma adj_g' u v : adj g' (f u) (f v) = adj g u v.
Proof. unfold g'. change (adj (set_amap (relabel f g)) (f u) (f v)) with (adj (relabel f g) (f u) (f v)). apply (adj_relabel Hinj). Qed.

Lemma nbrs_g' u : nbrs g' (f u) = map f (nbrs g u).
Proof. unfold g'. change (nbrs (set_amap (relabel f g)) (f u)) with (nbrs (relabel f g) (f u)). apply (nbrs_relabel Hinj). Qed.

Lemma wf_g' : wf g'.
Proof.
  pose proof (wf_relabel Hinj W) as Wr. unfold g'. apply wf_intro.
  - unfold node_ids, set_amap. cbn [gnodes]. rewrite map_map. cbn [fst]. apply Wr.
  - intros a b x I. change (gedges (set_amap (relabel f g))) with (gedges (relabel f g)) in I.
    destruct (wf_edge_nodes Wr I) as (Ha & Hb & Hab). unfold node_ids, set_amap. cbn [gnodes]. rewrite map_map. cbn [fst]. auto.
  - change (gedges (set_amap (relabel f g))) with (gedges (relabel f g)). apply wf_simple. exact Wr.
Qed.

Lemma is_Hn_g' n : is_Hn g' (f n) = is_Hn g n.
Proof. unfold is_Hn. rewrite label_g'. destruct (label g n); reflexivity. Qed.

Lemma count_h_g' n : count_h g' (f n) = count_h g n.
Proof.
  unfold count_h. f_equal. rewrite nbrs_g', filter_map_length. apply f_equal.
  apply filter_ext. intros m. apply is_Hn_g'.
Qed.

Lemma memZ_spec z l : memZ z l = true <-> In z l.
Proof.
  unfold memZ. rewrite existsb_exists. split.
  - intros (y & Iy & E). apply Z.eqb_eq in E. subst. exact Iy.
  - intros I. exists z. split; [exact I|apply Z.eqb_refl].
Qed.

Lemma memZ_pres' h : memZ (Z.of_N (f h)) pres' = memZ (Z.of_N h) pres.
Proof.
  destruct (memZ (Z.of_N (f h)) pres') eqn:E1, (memZ (Z.of_N h) pres) eqn:E2; try reflexivity; exfalso.
  - apply memZ_spec in E1. unfold pres' in E1. apply in_map_iff in E1. destruct E1 as (z & Ez & Iz).
    unfold Fz in Ez. apply N2Z.inj, Hinj in Ez. pose proof (Hpos z Iz) as Pz.
    assert (z = Z.of_N h) as -> by (rewrite <- Ez; rewrite Z2N.id; [reflexivity|exact Pz]).
    apply memZ_spec in Iz. congruence.
  - apply memZ_spec in E2. assert (In (Z.of_N (f h)) pres') as I'.
    { unfold pres'. apply in_map_iff. exists (Z.of_N h). split; [unfold Fz; rewrite N2Z.id; reflexivity|exact E2]. }
    apply memZ_spec in I'. congruence.
Qed.

Lemma preserved_g' h' : In h' (preserved g' pres') <-> exists h, h' = f h /\ In h (preserved g pres).
Proof.
  rewrite (preserved_spec g' pres' h' wf_g'). split.
  - intros (a' & L & Ha & Hm).
    assert (In h' (map f (node_ids g))) as Ih.
    { destruct (in_dec N.eq_dec h' (map f (node_ids g))) as [I|I]; [exact I|]. rewrite (label_g'_out h' I) in L. discriminate. }
    apply in_map_iff in Ih. destruct Ih as (h & <- & _). exists h. split; [reflexivity|].
    rewrite label_g' in L. destruct (label g h) as [a|] eqn:La; [|discriminate]. cbn [option_map] in L. inversion L; subst a'.
    apply (preserved_spec g pres h W). exists a. split; [exact La|]. split; [exact Ha|].
    cbn [re g_amap] in Hm. rewrite memZ_pres' in Hm. rewrite (Am h a La). exact Hm.
  - intros (h & -> & Ih). apply (preserved_spec g pres h W) in Ih. destruct Ih as (a & La & Ha & Hm).
    exists (re (f h) a). split; [rewrite label_g', La; reflexivity|]. split; [exact Ha|].
    cbn [re g_amap]. rewrite memZ_pres'. rewrite (Am h a La) in Hm. exact Hm.
Qed.

Lemma mem_preserved_g' n : mem (f n) (preserved g' pres') = mem n (preserved g pres).
Proof.
  destruct (mem (f n) (preserved g' pres')) eqn:E1, (mem n (preserved g pres)) eqn:E2; try reflexivity; exfalso.
  - apply mem_spec, preserved_g' in E1. destruct E1 as (h & E & Ih). apply Hinj in E. subst h. apply mem_spec in Ih. congruence.
  - apply mem_spec in E2. assert (In (f n) (preserved g' pres')) as I' by (apply preserved_g'; eauto).
    apply mem_spec in I'. congruence.
Qed.

Lemma count_pres_g' n : count_pres g' pres' (f n) = count_pres g pres n.
Proof.
  unfold count_pres. f_equal.
  rewrite (filter_length_same_members (fun h' => mem (f n) (nbrs g' h')) (preserved g' pres') (map f (preserved g pres))).
  - rewrite filter_map_length. apply f_equal. apply filter_ext. intros h. rewrite nbrs_g'. apply (mem_map_inj Hinj).
  - apply preserved_nodup. exact wf_g'.
  - apply NoDup_map_inj; [exact Hinj|apply preserved_nodup; exact W].
  - intros x. rewrite preserved_g', in_map_iff. split; intros (h & A & B); exists h; auto.
Qed.

Lemma has_heavy_g' n : has_heavy g' (f n) = has_heavy g n.
Proof.
  unfold has_heavy. rewrite nbrs_g'. induction (nbrs g n) as [|m l IH]; [reflexivity|].
  cbn [map existsb]. rewrite is_Hn_g', IH. reflexivity.
Qed.

Lemma ih_removed_g' n : ih_removed g' pres' (f n) = ih_removed g pres n.
Proof. unfold ih_removed. rewrite is_Hn_g', mem_preserved_g', has_heavy_g'. reflexivity. Qed.

(** C01_implicit_hydrogen_renumber *)
Theorem implicit_hydrogen_renumber :
  (forall n, label (implicit_hydrogen g' pres') (f n) = option_map (re (f n)) (label (implicit_hydrogen g pres) n)) /\
  (forall m, ~ In m (map f (node_ids g)) -> label (implicit_hydrogen g' pres') m = None) /\
  (forall u v, adj (implicit_hydrogen g' pres') (f u) (f v) = adj (implicit_hydrogen g pres) u v).
Proof.
  destruct (implicit_hydrogen_spec g' pres' wf_g') as (L1 & A1 & _).
  destruct (implicit_hydrogen_spec g pres W) as (L2 & A2 & _).
  split; [|split].
  - intros n. rewrite L1, L2, label_g'. destruct (label g n) as [a|]; [|reflexivity]. cbn [option_map].
    change (is_H (re (f n) a)) with (is_H a). destruct (is_H a).
    + rewrite mem_preserved_g', has_heavy_g'. destruct (mem n (preserved g pres) || negb (has_heavy g n)); reflexivity.
    + rewrite count_h_g', count_pres_g'. reflexivity.
  - intros m Hm. rewrite L1, (label_g'_out m Hm). reflexivity.
  - intros u v. rewrite A1, A2, !ih_removed_g', adj_g'. reflexivity.
Qed.
End IhRenum.

(** * its_to_graphs of the renumbered ITS *)
Lemma hlist_map_aux (f : N -> N) (l : list (N * inode)) :
  (forall n b, In (n, b) l -> i_amap b = Z.of_N n) ->
  map (fun p : N * inode => i_amap (snd p))
      (filter (fun p : N * inode => N.eqb (i_el (snd p)) EL_H) (map (fun p : N * inode => T (f (fst p), snd p)) l)) =
  map (Fz f) (map (fun p : N * inode => i_amap (snd p)) (filter (fun p : N * inode => N.eqb (i_el (snd p)) EL_H) l)).
Proof.
  induction l as [|[n b] l IH]; intros H; [reflexivity|].
  assert (i_amap b = Z.of_N n) as Eb by (apply H; left; reflexivity).
  assert (forall n0 b0, In (n0, b0) l -> i_amap b0 = Z.of_N n0) as H' by (intros n0 b0 I0; apply H; right; exact I0).
  cbn [map filter fst snd T with_iamap i_el]. destruct (N.eqb (i_el b) EL_H); cbn [map snd i_amap]; rewrite (IH H'); [|reflexivity].
  f_equal. unfold Fz. rewrite Eb, N2Z.id. reflexivity.
Qed.

Section WriteRenum.
Variable f : N -> N.
Hypothesis Hinj : forall a b, f a = f b -> a = b.
Variable J : its.
Hypothesis WJ : wf J.
Hypothesis AJ : forall n a, label J n = Some a -> i_amap a = Z.of_N n.

Definition J' : its := set_iamap (relabel f J).

Lemma decompose_set_iamap (K : its) : its_decompose (set_iamap K) = its_decompose K.
Proof. unfold its_decompose, dec_side, set_iamap. cbn [gnodes gedges]. rewrite !map_map. reflexivity. Qed.

Lemma decompose_J' :
  its_decompose J' = (set_amap (relabel f (fst (its_decompose J))), set_amap (relabel f (snd (its_decompose J)))).
Proof. unfold J'. rewrite decompose_set_iamap. apply (decompose_equivariant f). Qed.

Lemma hlist_J' : hlist J' = map (Fz f) (hlist J).
Proof.
  unfold hlist, J'. rewrite get_rc_set_iamap, (rc_equivariant f Hinj), set_iamap_nodes.
  unfold relabel. cbn [gnodes]. rewrite map_map. apply hlist_map_aux.
  intros n b I. destruct (proj2 (rc_NInv J) n b I) as (a & L & ->). cbn [rc_attr i_amap]. apply (AJ n a L).
Qed.

Lemma hlist_nonneg z : In z (hlist J) -> 0 <= z.
Proof.
  unfold hlist. intros I. apply in_map_iff in I. destruct I as ([n b] & <- & Ib). apply filter_In in Ib. destruct Ib as [Ib _].
  destruct (proj2 (rc_NInv J) n b Ib) as (a & L & ->). cbn [snd rc_attr i_amap]. rewrite (AJ n a L). lia.
Qed.

(** C01_its_to_graphs_renumber: what its_to_rsmi hands to GraphToMol for the renumbered ITS is, atom by atom and bond by
    bond, what it hands over for the original ITS, renumbered *)
Theorem its_to_graphs_renumber :
  let A := its_to_graphs J in let B := its_to_graphs J' in
  (forall n, label (fst B) (f n) = option_map (re (f n)) (label (fst A) n)) /\
  (forall u v, adj (fst B) (f u) (f v) = adj (fst A) u v) /\
  (forall n, label (snd B) (f n) = option_map (re (f n)) (label (snd A) n)) /\
  (forall u v, adj (snd B) (f u) (f v) = adj (snd A) u v).
Proof.
  cbv zeta. unfold its_to_graphs. rewrite decompose_J', hlist_J'. cbn [fst snd].
  assert (wf (fst (its_decompose J)) /\ wf (snd (its_decompose J))) as [Wg Wh] by (split; apply dec_wf; exact WJ).
  assert (amap_id (fst (its_decompose J)) /\ amap_id (snd (its_decompose J))) as [Ag Ah] by (split; apply dec_amap_id).
  unfold smi_graph. destruct (hlist J) as [|z0 zs] eqn:EH; cbn [map].
  - repeat split; intros; first [apply (label_g' f Hinj)|apply (adj_g' f Hinj)].
  - assert (forall z, In z (z0 :: zs) -> 0 <= z) as Hpos by (intros z Iz; apply hlist_nonneg; rewrite EH; exact Iz).
    destruct (implicit_hydrogen_renumber f Hinj _ Wg Ag (z0 :: zs) Hpos) as (L1 & _ & A1).
    destruct (implicit_hydrogen_renumber f Hinj _ Wh Ah (z0 :: zs) Hpos) as (L2 & _ & A2).
    repeat split; assumption.
Qed.
End WriteRenum.

(** non-vacuity: hydrogenation of ethene with explicit mapped H2, maps shifted by 10 *)
Definition ex_hr : rmol :=
  RM [RA 70%N false 2 0 1%N [70%N]; RA 70%N false 2 0 2%N [70%N]; RA EL_H false 0 0 3%N [EL_H]; RA EL_H false 0 0 4%N [EL_H]]
     [(0%nat, 1%nat, 4); (2%nat, 3%nat, 2)].
Definition ex_hp : rmol :=
  RM [RA 70%N false 2 0 1%N [70%N; EL_H]; RA EL_H false 0 0 3%N [70%N]; RA 70%N false 2 0 2%N [70%N; EL_H]; RA EL_H false 0 0 4%N [70%N]]
     [(0%nat, 1%nat, 2); (0%nat, 2%nat, 2); (2%nat, 3%nat, 2)].
Definition ex_hJ : its := its_construct (graph_of ex_hr) (graph_of ex_hp).
Example C01_its_to_graphs_renumber_nonvacuous :
  hlist ex_hJ <> [] /\ (forall n a, label ex_hJ n = Some a -> i_amap a = Z.of_N n) /\
  hlist (set_iamap (relabel (N.add 10) ex_hJ)) = map (Fz (N.add 10)) (hlist ex_hJ) /\
  option_map g_hc (label (snd (its_to_graphs (set_iamap (relabel (N.add 10) ex_hJ)))) 11%N) = Some 2 /\
  adj (snd (its_to_graphs (set_iamap (relabel (N.add 10) ex_hJ)))) 11%N 13%N = Some 2.
Proof.
  split; [discriminate|]. split; [|repeat split].
  intros n a L. apply assoc_in in L. cbn in L.
  repeat (destruct L as [E|L]; [inversion E; reflexivity|]). destruct L.
Qed.
