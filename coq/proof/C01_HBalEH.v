(** C01 — h_to_explicit on an ITS (rsmi_to_its(explicit_hydrogen=True), as repaired by /repo 61e730e) conserves the number of
    hydrogens on BOTH sides.  This is the law the first defect violated: the product half kept its hcount while the
    hydrogens were added as atoms on both sides. *)
From Coq Require Import List NArith ZArith Bool Lia Arith.
From SK Require Import lib.LGraph lib.C01_GraphLemmas model.C01_Model model.C02_Model model.C01_String model.C01_HBal
  proof.C01_Proof proof.C01_StringEH proof.C01_StringEHwf proof.C01_StringPipe proof.C01_HBalProof.
Import ListNotations.
Local Open Scope Z_scope.

Section Side.
Variable sel : inode -> nattr.
Hypothesis sel_h : a_el (sel h_inode) = EL_H.
Hypothesis sel_dec : forall a c, sel (hx_dec a c) = set_hc_n (sel a) (a_hc (sel a) - c).

Let F (p : N * inode) : Z := iw sel (snd p).

Lemma sum_map_upd (u : inode -> inode) h b (ns : list (N * inode)) :
  NoDup (map fst ns) -> assoc h ns = Some b ->
  sumZ F (map (fun q => if N.eqb (fst q) h then (fst q, u (snd q)) else q) ns) = sumZ F ns - iw sel b + iw sel (u b).
Proof.
  induction ns as [|[k a] r IH]; intros Hn L; [discriminate|]. inversion Hn as [|? ? Hk Hr]; subst.
  cbn [map fst snd]. rewrite !sumZ_cons. cbn [assoc] in L. destruct (N.eqb_spec h k) as [->|Hne].
  - inversion L; subst a. rewrite N.eqb_refl. unfold F at 1 3. cbn [snd fst].
    assert (map (fun q : N * inode => if N.eqb (fst q) k then (fst q, u (snd q)) else q) r = r) as ->; [|lia].
    rewrite <- (map_id r) at 2. apply map_ext_in. intros [k' a'] I'. cbn [fst snd].
    destruct (N.eqb_spec k' k) as [->|]; [|reflexivity]. exfalso. apply Hk. apply in_map_iff. exists (k, a'). auto.
  - destruct (N.eqb_spec k h); [congruence|]. rewrite (IH Hr L). lia.
Qed.

Lemma sum_new (new : list N) : sumZ F (map (fun n' => (n', h_inode)) new) = Z.of_nat (length new).
Proof.
  induction new as [|x l IH]; [reflexivity|]. cbn [map length]. rewrite sumZ_cons, IH. unfold F, iw. cbn [snd]. rewrite sel_h, N.eqb_refl. lia.
Qed.

Lemma sumZ_app {X} (f : X -> Z) l1 l2 : sumZ f (l1 ++ l2) = sumZ f l1 + sumZ f l2.
Proof. induction l1 as [|a l IH]; [reflexivity|]. cbn [app]. rewrite !sumZ_cons, IH. lia. Qed.

Lemma hx_step_balance st h : hx_inv st -> h_safe sel (st_nodes st) ->
  sumZ F (st_nodes (hx_step st h)) = sumZ F (st_nodes st) /\ h_safe sel (st_nodes (hx_step st h)).
Proof.
  destruct st as [[ns es] mx]. unfold hx_inv, st_nodes, st_edges, st_max. cbn [fst snd]. intros (Hn & _) Sf. unfold hx_step.
  destruct (assoc h ns) as [b|] eqn:Lh; [|cbn [fst]; auto].
  destruct (hx_count b <=? 0) eqn:Ec; [cbn [fst]; auto|]. cbn [fst]. apply Z.leb_gt in Ec.
  assert (a_el (sel b) <> EL_H) as Nh by (intros E; specialize (Sf h b (assoc_in _ _ Lh) E); lia).
  split.
  - rewrite sumZ_app, (sum_map_upd (fun a => hx_dec a (hx_count b)) h b ns Hn Lh), sum_new, map_length, seq_length.
    unfold iw. rewrite sel_dec. cbn [set_hc_n a_el a_hc]. destruct (N.eqb_spec (a_el (sel b)) EL_H); [contradiction|].
    rewrite Z2Nat.id by lia. lia.
  - intros n a Ia Ea. apply in_app_iff in Ia. destruct Ia as [Ia|Ia].
    + apply in_map_iff in Ia. destruct Ia as ([k a0] & E & I0). cbn [fst snd] in E. destruct (N.eqb_spec k h) as [->|Hne].
      * inversion E; subst n a. assert (assoc h ns = Some a0) as Lh' by (apply assoc_nodup_in; assumption). assert (a0 = b) as -> by congruence.
        rewrite sel_dec in Ea. cbn [set_hc_n a_el] in Ea. contradiction.
      * inversion E; subst. apply (Sf n a I0 Ea).
    + apply in_map_iff in Ia. destruct Ia as (n' & E & _). inversion E; subst. cbn. lia.
Qed.

Lemma hx_fold_balance l : forall st, hx_inv st -> h_safe sel (st_nodes st) ->
  sumZ F (st_nodes (fold_left hx_step l st)) = sumZ F (st_nodes st).
Proof.
  induction l as [|h r IH]; intros st Hi Hs; [reflexivity|]. cbn [fold_left].
  destruct (hx_step_balance st h Hi Hs) as [E S']. rewrite (IH _ (hx_step_inv st h Hi) S'). exact E.
Qed.

Theorem h_to_explicit_side_balance (I : its) : wf I -> h_safe sel (gnodes I) ->
  its_h_total sel (fst (h_to_explicit_its I)) = its_h_total sel I.
Proof.
  intros W Sf. unfold its_h_total, h_to_explicit_its.
  set (mx0 := fold_left N.max (node_ids I) 0%N).
  assert (hx_inv (gnodes I, gedges I, mx0)) as H0.
  { unfold hx_inv, st_nodes, st_edges, st_max. cbn [fst snd]. split; [apply W|]. split; [|split].
    - intros k Ik. apply fold_max_ge. left. exact Ik.
    - apply wf_simple. exact W.
    - intros a b x Ia. apply (wf_edge_nodes W Ia). }
  pose proof (hx_fold_balance (node_ids I) _ H0 Sf) as E.
  destruct (fold_left hx_step (node_ids I) (gnodes I, gedges I, mx0)) as [[ns es] mx]. unfold st_nodes in E. cbn [fst snd gnodes] in *. exact E.
Qed.
End Side.

(** the count on a side of the ITS is the hydrogen total of that side's decomposed graph *)
Lemma sum_over_assoc {V} (f : V -> Z) (l : list (N * V)) : NoDup (map fst l) ->
  sumZ (fun n => match assoc n l with Some a => f a | None => 0 end) (map fst l) = sumZ (fun p => f (snd p)) l.
Proof.
  induction l as [|[k a] r IH]; intros Hn; [reflexivity|]. inversion Hn as [|? ? Hk Hr]; subst.
  cbn [map fst]. rewrite !sumZ_cons. cbn [assoc snd]. rewrite N.eqb_refl. f_equal. rewrite <- (IH Hr).
  apply sumZ_ext_in. intros n In_. destruct (N.eqb_spec n k) as [->|]; [contradiction|reflexivity].
Qed.

Lemma its_h_total_dec sn se (I : its) : wf I -> h_total (dec_side sn se I) = its_h_total sn I.
Proof.
  intros W. unfold h_total, its_h_total.
  assert (node_ids (dec_side sn se I) = node_ids I) as -> by (unfold node_ids, dec_side; cbn [gnodes]; rewrite map_map; reflexivity).
  unfold node_ids. rewrite <- (sum_over_assoc (iw sn) (gnodes I) (proj1 W)). apply sumZ_ext_in. intros n _.
  unfold h_weight. rewrite dec_label. unfold label. destruct (assoc n (gnodes I)) as [a|]; [|reflexivity]. reflexivity.
Qed.

(** C01_h_to_explicit_balance *)
Theorem h_to_explicit_balance (I : its) : wf I ->
  (h_safe i_G (gnodes I) ->
     h_total (fst (its_decompose (fst (h_to_explicit_its I)))) = h_total (fst (its_decompose I))) /\
  (h_safe i_H (gnodes I) ->
     h_total (snd (its_decompose (fst (h_to_explicit_its I)))) = h_total (snd (its_decompose I))).
Proof.
  intros W. pose proof (h_to_explicit_its_wf I W) as WJ. unfold its_decompose. cbn [fst snd].
  split; intros Sf; rewrite !its_h_total_dec by assumption; apply h_to_explicit_side_balance; try assumption; reflexivity.
Qed.

(** non-vacuity (the ITS of C01_h_to_explicit_its_nonvacuous: CH3-OH -> CH3-OH2+) and a witness of the first defect: expanding
    the reactant-side count on both sides without touching the product half creates hydrogens on the product side *)
Example C01_h_to_explicit_balance_nonvacuous :
  wf ex_eh /\ h_safe i_G (gnodes ex_eh) /\ h_safe i_H (gnodes ex_eh) /\
  h_total (fst (its_decompose ex_eh)) = h_total (fst (its_decompose (fst (h_to_explicit_its ex_eh)))) /\
  h_total (snd (its_decompose ex_eh)) = h_total (snd (its_decompose (fst (h_to_explicit_its ex_eh)))) /\
  gnodes (fst (h_to_explicit_its ex_eh)) <> gnodes ex_eh.
Proof.
  destruct C01_h_to_explicit_its_nonvacuous as (W & _).
  split; [exact W|]. split; [|split].
  - intros n a Ia Ea. cbn in Ia. repeat (destruct Ia as [E|Ia]; [inversion E; subst; cbn in Ea; discriminate|]). destruct Ia.
  - intros n a Ia Ea. cbn in Ia. repeat (destruct Ia as [E|Ia]; [inversion E; subst; cbn in Ea; discriminate|]). destruct Ia.
  - split; [reflexivity|]. split; [reflexivity|discriminate].
Qed.
