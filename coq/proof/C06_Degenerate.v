(** C06 — degenerate inputs: the empty pattern has exactly one embedding (the empty map) into every host,
    for every strategy; a non-empty pattern has none into the empty host. *)
From Coq Require Import List NArith Bool Arith Lia.
From SK Require Import lib.LGraph lib.Mono lib.Reach model.C06_Model lib.C06_Spec proof.C06_Comps.
Import ListNotations.

Definition empty_graph : graph := LG [] [].

Theorem empty_pattern (strat maxr T : N) (strict pref : bool) (H : graph) :
  (1 <= T)%N ->
  find (monos_on H empty_graph) (Cfg strat maxr T strict pref) H empty_graph = [[]].
Proof.
  intros HT. unfold find. cbn [c_pref c_thr c_strat c_maxr c_strict].
  assert (Eq : quick_pre_filter H empty_graph T = false) by reflexivity.
  rewrite Eq, andb_false_r.
  assert (Eall : find_all (monos_on H empty_graph) maxr T H empty_graph = [[]]).
  { unfold find_all, monos_on, monos. cbn [node_ids gnodes empty_graph map extend all_loop].
    destruct (capped maxr (N.succ 0)); [reflexivity|].
    destruct (N.ltb_spec T (N.succ 0)); [lia|reflexivity]. }
  assert (Ecomp : find_comp (monos_on H empty_graph) maxr T strict H empty_graph = [[]]) by reflexivity.
  destruct strat as [|[p|p|]]; unfold find_bt; rewrite ?Ecomp, ?Eall; cbv iota.
  all: match goal with |- (if ?b then _ else _) = _ =>
         assert (Hb : b = false) by (apply N.ltb_ge; exact HT); rewrite Hb end; reflexivity.
Qed.

Lemma comps_nonempty (g : graph) : gwf g -> node_ids g <> [] -> comps g <> [].
Proof.
  intros Hg Hne E. destruct (node_ids g) as [|x r] eqn:En; [congruence|].
  destruct (comps_cover g Hg x) as (c & Hc & _); [rewrite En; left; reflexivity|].
  rewrite E in Hc. destruct Hc.
Qed.

Theorem empty_host (enum : list N -> list N -> list mapping) (c : cfg) (P : graph) :
  gwf P -> node_ids P <> [] ->
  enum [] (node_ids P) = [] ->
  find enum c empty_graph P = [].
Proof.
  intros WP Hne He. unfold find.
  destruct (c_pref c && quick_pre_filter empty_graph P (c_thr c)); [reflexivity|].
  assert (Eall : forall maxr thr, find_all enum maxr thr empty_graph P = []).
  { intros maxr thr. unfold find_all. cbn [node_ids gnodes empty_graph map]. rewrite He. reflexivity. }
  assert (Ecomp : forall maxr thr strict, find_comp enum maxr thr strict empty_graph P = []).
  { intros maxr thr strict. unfold find_comp.
    pose proof (comps_nonempty P WP Hne) as Hc.
    change (comps empty_graph) with (@nil (list N)). cbn [length].
    destruct (comps P) as [|pc r]; [congruence|]. cbn [length Nat.eqb Nat.ltb Nat.leb]. apply Eall. }
  destruct (c_strat c) as [|[p|p|]]; unfold find_bt; rewrite ?Ecomp, ?Eall; cbv iota; destruct (c_thr c <? lenN [])%N; reflexivity.
Qed.

(** the verified enumerator lists nothing for an empty host and a non-empty pattern *)
Lemma monos_on_empty_host (H P : graph) pn : pn <> [] -> monos_on H P [] pn = [].
Proof. intros Hne. destruct pn as [|p r]; [congruence|]. reflexivity. Qed.

(** non-vacuity *)
Local Open Scope N_scope.
Definition Pone : graph := LG [ (5, ([1], 0)) ] [].
Example ex_degenerate :
  find (monos_on Pone empty_graph) (Cfg 1 0 5000 true false) Pone empty_graph = [[]] /\
  find (monos_on Pone empty_graph) (Cfg 0 0 0 true false) Pone empty_graph = [] /\
  find (monos_on empty_graph Pone) (Cfg 2 0 5000 true false) empty_graph Pone = [] /\
  find (monos_on empty_graph empty_graph) (Cfg 0 0 5000 true true) empty_graph empty_graph = [[]].
Proof. vm_compute. repeat split; reflexivity. Qed.
