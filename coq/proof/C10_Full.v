(** C10 — proofs, part 19: the FULL export (core=False).  For an atom-balanced pair of molecule graphs the whole ITS is in
    the domain of the GML round trip, the reactant / product graphs themselves carry its two sides, and so the rule written
    from the reaction string (smart_to_gml core=False: sides = the molecule graphs) and the rule written from the ITS
    (its_to_gml core=False: sides = its_decompose) read back to the same ITS — the ITS itself. *)
From Coq Require Import String List NArith ZArith Bool Lia.
From SK Require Import lib.Tok lib.LGraph lib.StrJoin model.C10_Model proof.C10_Proof proof.C10_Views proof.C10_Build
  proof.C10_Copy proof.C10_GmlRead proof.C10_GmlWrite proof.C10_Centre proof.C10_Routes proof.C10_Routes2 proof.C10_Smart.
Import ListNotations.
Local Open Scope Z_scope.

Section Full.
Variables G H : gr.
Hypothesis HG : mol_ok G = true.
Hypothesis HH : mol_ok H = true.
Hypothesis Hbal : balanced G H = true.
Variable eo : list (N * N).
Hypothesis Heo : forall u v, pair_in u v eo = has_edge G u v || has_edge H u v.
Hypothesis HsG : forall u v x, adj G u v = Some x -> e_std x = None.
Hypothesis HsH : forall u v x, adj H u v = Some x -> e_std x = None.
Let I := its_construct G H eo.
Let WG := mol_ok_gwf G HG.
Let WH := mol_ok_gwf H HH.

Lemma bal_sym : balanced H G = true -> True. Proof. auto. Qed.

Lemma I_label_G n a : label G n = Some a ->
  exists b a', label H n = Some a' /\ label I n = Some b /\
               a_tgh b = Some (tg_of G n, tg_of H n) /\ a_el b = Some (tg_el (tg_of G n)) /\ a_ch b = Some (tg_ch (tg_of G n)).
Proof.
  intros La. destruct (bal_GH G H Hbal n a La) as (a' & Lb & _).
  pose proof (I_label G H HG HH Hbal eo Heo n) as LI. fold I in LI. rewrite La in LI.
  assert (exists b0, assoc n (its_nodes G H) = Some b0) as [b0 Eb] by (rewrite (its_nodes_label G H Hbal n), La; eauto).
  rewrite Eb in LI. simpl in LI. exists (its_node G H n b0), a'. split; [exact Lb|split; [exact LI|]].
  unfold its_node. destruct (tg_of G n) as [[[e ar] h] c]. simpl. auto.
Qed.
Lemma I_label_none n : label G n = None -> label I n = None.
Proof. intros L. pose proof (I_label G H HG HH Hbal eo Heo n) as LI. fold I in LI. rewrite L in LI. exact LI. Qed.

Lemma tg_of_mol X n a : mol_ok X = true -> label X n = Some a ->
  exists e q, a_el a = Some e /\ a_ch a = Some q /\ elem_str e /\ tg_el (tg_of X n) = e /\ tg_ch (tg_of X n) = q.
Proof.
  intros HX L. destruct (mol_ok_node X n a HX L) as (e & q & E1 & E2 & E3). exists e, q. unfold tg_of. rewrite L, E1, E2. simpl. auto.
Qed.

Theorem full_IOK : IOK I.
Proof.
  split; [apply (I_gwf G H HG HH eo)|split].
  - intros n b L. destruct (label G n) as [a|] eqn:La; [|rewrite (I_label_none n La) in L; discriminate].
    destruct (I_label_G n a La) as (b' & a' & Lb & LI & T & E1 & E2). rewrite LI in L. injection L as <-.
    destruct (tg_of_mol G n a HG La) as (e & q & Ea & Eq & Es & Te & Tq).
    destruct (tg_of_mol H n a' HH Lb) as (e' & q' & Ea' & Eq' & _ & Te' & Tq').
    destruct (bal_GH G H Hbal n a La) as (a2 & Lb2 & Eel). rewrite Lb in Lb2. injection Lb2 as <-. rewrite Ea, Ea' in Eel. simpl in Eel.
    destruct (tg_of G n) as [[[e1 ar1] h1] q1]. destruct (tg_of H n) as [[[e2 ar2] h2] q2].
    simpl in Te, Tq, Te', Tq', E1, E2. assert (e2 = e1) as -> by congruence. rewrite <- Te in Es.
    exists e1, ar1, h1, q1, ar2, h2, q2. auto.
  - intros u v x A. pose proof (I_adj G H eo Heo u v) as AI. fold I in AI. rewrite A in AI.
    destruct (has_edge G u v || has_edge H u v) eqn:E; [|discriminate]. unfold its_d in AI. injection AI as ->.
    exists (scal_order G u v), (scal_order H u v).
    destruct (edge_ends_G G H HG HH Hbal u v E) as [Hu Hv].
    assert (has_node I u = true /\ has_node I v = true) as [HIu HIv].
    { split; apply has_node_label.
      - apply has_node_label in Hu. destruct Hu as [a La]. destruct (I_label_G u a La) as (b & _ & _ & LI & _). eauto.
      - apply has_node_label in Hv. destruct Hv as [a La]. destruct (I_label_G v a La) as (b & _ & _ & LI & _). eauto. }
    destruct (scal_order_cases G u v HG) as [[A1 S1]|[A1 S1]]; destruct (scal_order_cases H u v HH) as [[A2 S2]|[A2 S2]].
    + exfalso. unfold has_edge in E. rewrite A1, A2 in E. discriminate.
    + rewrite S1. repeat split; auto; [unfold ord_ok; destruct S2 as [->|[->|[->| ->]]]; reflexivity|right; destruct S2 as [->|[->|[->| ->]]]; discriminate].
    + rewrite S2. repeat split; auto; [unfold ord_ok; destruct S1 as [->|[->|[->| ->]]]; reflexivity|left; destruct S1 as [->|[->|[->| ->]]]; discriminate].
    + repeat split; auto; [unfold ord_ok; destruct S1 as [->|[->|[->| ->]]]; reflexivity|unfold ord_ok; destruct S2 as [->|[->|[->| ->]]]; reflexivity|left; destruct S1 as [->|[->|[->| ->]]]; discriminate].
Qed.

(** the molecule graphs carry the two sides of their ITS *)
Lemma dd_I j u v : dd I j u v = (let X := if j then H else G in
                                 match adj X u v with Some y => Some (EA (e_ord y) None) | None => None end).
Proof.
  cbv zeta. unfold dd. pose proof (I_adj G H eo Heo u v) as AI. fold I in AI. rewrite AI.
  destruct (has_edge G u v || has_edge H u v) eqn:E.
  - unfold its_d, ord_of. simpl. unfold scal_order.
    destruct j.
    + destruct (adj H u v) as [y|] eqn:A; [|reflexivity]. destruct (mol_ok_edge H u v y HH A) as (o & Eo & Ho). rewrite Eo.
      destruct Ho as [->|[->|[->| ->]]]; reflexivity.
    + destruct (adj G u v) as [y|] eqn:A; [|reflexivity]. destruct (mol_ok_edge G u v y HG A) as (o & Eo & Ho). rewrite Eo.
      destruct Ho as [->|[->|[->| ->]]]; reflexivity.
  - apply orb_false_iff in E. unfold has_edge in E. destruct E as [E1 E2].
    destruct j; [destruct (adj H u v)|destruct (adj G u v)]; try discriminate; reflexivity.
Qed.

Lemma mol_side (j : bool) : side_like I j (if j then H else G).
Proof.
  split.
  - destruct j; assumption.
  - intros n L. destruct (label G n) as [a|] eqn:La.
    + destruct (I_label_G n a La) as (b & _ & _ & LI & _). congruence.
    + destruct j; [|exact La]. apply has_node_false, not_true_is_false. intros Hn. apply (bal_HG G H Hbal), has_node_label in Hn.
      destruct Hn; congruence.
  - intros n b L. destruct (label G n) as [a|] eqn:La; [|rewrite (I_label_none n La) in L; discriminate].
    destruct (I_label_G n a La) as (b' & a' & Lb & LI & T & _). rewrite LI in L. injection L as <-.
    destruct j; unfold T_of, tG_of, tH_of; rewrite T.
    + destruct (tg_of_mol H n a' HH Lb) as (e & q & Ea & Eq & _ & Te & Tq). exists a'. rewrite Te, Tq. auto.
    + destruct (tg_of_mol G n a HG La) as (e & q & Ea & Eq & _ & Te & Tq). exists a. rewrite Te, Tq. auto.
  - intros u v. rewrite dd_I. cbv zeta. destruct j.
    + destruct (adj H u v) as [y|] eqn:A; [|reflexivity]. rewrite <- (HsH u v y A). destruct y; reflexivity.
    + destruct (adj G u v) as [y|] eqn:A; [|reflexivity]. rewrite <- (HsG u v y A). destruct y; reflexivity.
Qed.

Theorem two_routes_full :
  let A := gml_to_its (smart_to_gml G H eo false false false) in
  let B := gml_to_its (its_to_gml I false false false) in
  (forall n, has_node A n = has_node I n /\ has_node B n = has_node I n) /\
  (forall n a, label I n = Some a ->
     let x := Some (gml_node n (tg_el (tG_of a)) (tg_ch (tG_of a)) (tg_ch (tH_of a))) in label A n = x /\ label B n = x) /\
  (forall u v, adj A u v = adj I u v /\ adj B u v = adj I u v).
Proof.
  intros A B.
  destruct (gml_pipeline I G H full_IOK (mol_side false) (mol_side true)) as (A1 & A2 & A3).
  destruct (gml_roundtrip_iok I full_IOK) as (B1 & B2 & B3). cbv zeta in *.
  assert (A = snd (gml_to_nx [(SLeft, side_entries G (find_changed G H)); (SContext, context_entries I (find_changed G H) false);
                               (SRight, side_entries H (find_changed G H))])) as EA by reflexivity.
  rewrite <- EA in A1, A2, A3. fold B in B1, B2, B3.
  split; [|split].
  - intros n. auto.
  - intros n a L. cbv zeta. auto.
  - intros u v. auto.
Qed.
End Full.

Lemma std_free_adj g u v x : std_free g = true -> adj g u v = Some x -> e_std x = None.
Proof.
  unfold std_free. rewrite forallb_forall. intros H A. apply find_some_in in A. destruct A as (a & b & Hin & _).
  specialize (H _ Hin). simpl in H. destruct (e_std x); [discriminate|reflexivity].
Qed.

Theorem two_routes_full_b (r p : gr) (eo : list (N * N)) :
  mol_ok r = true -> mol_ok p = true -> balanced r p = true -> eo_covers r p eo = true ->
  std_free r = true -> std_free p = true ->
  let I := its_construct r p eo in
  let A := gml_to_its (smart_to_gml r p eo false false false) in
  let B := gml_to_its (its_to_gml I false false false) in
  (forall n, has_node A n = has_node I n /\ has_node B n = has_node I n) /\
  (forall n a, label I n = Some a ->
     let x := Some (gml_node n (tg_el (tG_of a)) (tg_ch (tG_of a)) (tg_ch (tH_of a))) in label A n = x /\ label B n = x) /\
  (forall u v, adj A u v = adj I u v /\ adj B u v = adj I u v).
Proof.
  intros Hr Hp Hb He Sr Sp. apply (two_routes_full r p Hr Hp Hb eo (eo_covers_spec r p eo He)).
  - intros u v x. apply std_free_adj. exact Sr.
  - intros u v x. apply std_free_adj. exact Sp.
Qed.

Example two_routes_full_ex :
  std_free ex_r = true /\ std_free ex_p = true /\
  node_ids (gml_to_its (smart_to_gml ex_r ex_p (union_pairs ex_r ex_p) false false false)) <> [] /\
  adj (gml_to_its (smart_to_gml ex_r ex_p (union_pairs ex_r ex_p) false false false)) 3%N 4%N
  = adj (its_construct ex_r ex_p (union_pairs ex_r ex_p)) 3%N 4%N /\
  adj (its_construct ex_r ex_p (union_pairs ex_r ex_p)) 3%N 4%N = Some (EA (Some (OP 2 2)) (Some 0)).
Proof. vm_compute. repeat split. discriminate. Qed.
