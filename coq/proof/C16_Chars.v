(** C16 — text-level lemmas: strip / split / join / decimal printing, and the side printer/parser inverse
    [from_chars (pre ++ fmt_side sd ++ post) = Some sd]. *)
From stdpp Require Import gmap strings sets pretty sorting.
From Coq Require Import Ascii.
From SK Require Import lib.Tok model.C15_Model proof.C15_Proof model.C16_Model proof.C16_Defs.
Local Open Scope string_scope.
Local Open Scope list_scope.

(** * strings and character lists *)
Lemma to_of_chars l : to_chars (of_chars l) = l.
Proof. apply list_ascii_of_string_of_list_ascii. Qed.
Lemma of_to_chars s : of_chars (to_chars s) = s.
Proof. apply string_of_list_ascii_of_string. Qed.
Lemma to_chars_app s1 s2 : to_chars (s1 +:+ s2) = to_chars s1 ++ to_chars s2.
Proof. induction s1 as [|a s1 IH]; simpl; [done|]. by rewrite <-IH. Qed.
Lemma to_chars_inj s1 s2 : to_chars s1 = to_chars s2 → s1 = s2.
Proof. intros E. by rewrite <-(of_to_chars s1), <-(of_to_chars s2), E. Qed.

(** * character classes *)
Definition spaces (l : chars) : Prop := Forall (λ a, py_space a = true) l.
(** characters of a printed term: label characters (anything but white space and + * | >) *)
Definition tok_chars (l : chars) : Prop := Forall (λ a, label_char a = true) l.

Local Ltac ascii_cases a := destruct a as [[] [] [] [] [] [] [] []]; try done.
Lemma label_char_plain a : label_char a = true →
  py_space a = false ∧ is_char "+" a = false ∧ is_char "*" a = false ∧ is_char "|" a = false ∧ is_char ">" a = false.
Proof. ascii_cases a. Qed.
Lemma is_alpha_label a : is_alpha a = true → label_char a = true ∧ is_digit a = false.
Proof. ascii_cases a. Qed.
Lemma is_digit_label a : is_digit a = true → label_char a = true.
Proof. ascii_cases a. Qed.
Lemma space_plain a : py_space a = true →
  is_char "+" a = false ∧ is_char "|" a = false ∧ is_char ">" a = false.
Proof. ascii_cases a. Qed.
Lemma is_char_true c a : is_char c a = true ↔ a = c.
Proof. unfold is_char. by rewrite bool_decide_eq_true. Qed.
Lemma is_char_false c a : is_char c a = false ↔ a ≠ c.
Proof. unfold is_char. by rewrite bool_decide_eq_false. Qed.

(** * take_while / drop_while / strip *)
Lemma take_while_app P x a y : Forall (λ c, P c = true) x → P a = false → take_while P (x ++ a :: y) = x.
Proof. induction 1 as [|c x Hc _ IH]; intros Ha; simpl; [by rewrite Ha|]. by rewrite Hc, IH. Qed.
Lemma take_while_all P x : Forall (λ c, P c = true) x → take_while P x = x.
Proof. induction 1 as [|c x Hc _ IH]; simpl; [done|]. by rewrite Hc, IH. Qed.
Lemma drop_while_app P x a y : Forall (λ c, P c = true) x → P a = false → drop_while P (x ++ a :: y) = a :: y.
Proof. induction 1 as [|c x Hc _ IH]; intros Ha; simpl; [by rewrite Ha|]. by rewrite Hc, IH. Qed.
Lemma drop_while_all P x : Forall (λ c, P c = true) x → drop_while P x = [].
Proof. induction 1 as [|c x Hc _ IH]; simpl; [done|]. by rewrite Hc. Qed.
Lemma drop_while_app_r P u b w : P b = false → drop_while P (u ++ b :: w) = drop_while P u ++ b :: w.
Proof.
  intros Hb. induction u as [|a u IH]; simpl; [by rewrite Hb|].
  destruct (P a); [done|done].
Qed.

(** non-empty, first and last character are not white space *)
Definition edge_clean (l : chars) : Prop :=
  (∃ a t, l = a :: t ∧ py_space a = false) ∧ (∃ t b, l = t ++ [b] ∧ py_space b = false).

Lemma rstrip_app_nonspace x b y : py_space b = false → rstrip (x ++ b :: y) = x ++ b :: rstrip y.
Proof.
  intros Hb. unfold rstrip. rewrite reverse_app, reverse_cons, <-(assoc_L (++)). simpl.
  rewrite drop_while_app_r by done. rewrite reverse_app, reverse_cons, reverse_involutive.
  by rewrite <-(assoc_L (++)).
Qed.
Lemma rstrip_spaces y : spaces y → rstrip y = [].
Proof.
  intros Hy. unfold rstrip. rewrite drop_while_all; [done|]. by apply Forall_reverse.
Qed.
Lemma strip_pad pre core post : spaces pre → spaces post → edge_clean core → strip (pre ++ core ++ post) = core.
Proof.
  intros Hpre Hpost [(a & t & -> & Ha) (t' & b & Ht' & Hb)]. unfold strip, lstrip.
  change ((a :: t) ++ post) with (a :: (t ++ post)). rewrite drop_while_app by done.
  change (a :: t ++ post) with ((a :: t) ++ post). rewrite Ht', <-(assoc_L (++)). simpl.
  rewrite rstrip_app_nonspace by done. by rewrite rstrip_spaces.
Qed.
Lemma strip_clean core : edge_clean core → strip core = core.
Proof. intros H. rewrite <-(strip_pad [] core []) at 2; [by rewrite app_nil_r|constructor|constructor|done]. Qed.

Lemma tok_edge_clean l : l ≠ [] → tok_chars l → edge_clean l.
Proof.
  intros Hne Hl. split.
  - destruct l as [|a t]; [done|]. exists a, t. split; [done|]. by apply label_char_plain, (Forall_inv Hl).
  - destruct l as [|b t _] using rev_ind; [done|]. exists t, b. split; [done|].
    apply Forall_app in Hl as [_ Hb]. by apply label_char_plain, (Forall_inv Hb).
Qed.

(** * split_by / py_words / join *)
Lemma split_by_free P x : Forall (λ c, P c = false) x → split_by P x = [x].
Proof. induction 1 as [|c x Hc _ IH]; simpl; [done|]. by rewrite Hc, IH. Qed.
Lemma split_by_app P x a y : Forall (λ c, P c = false) x → P a = true → split_by P (x ++ a :: y) = x :: split_by P y.
Proof. induction 1 as [|c x Hc _ IH]; intros Ha; simpl; [by rewrite Ha|]. by rewrite Hc, IH. Qed.

Lemma py_words_tok l : l ≠ [] → tok_chars l → py_words l = [l].
Proof.
  intros Hne Hl. unfold py_words. rewrite split_by_free.
  - by rewrite filter_cons_True, filter_nil by done.
  - eapply Forall_impl; [exact Hl|]. intros a Ha. by apply label_char_plain.
Qed.
Lemma replace_star_tok l : tok_chars l → replace_star l = l.
Proof.
  induction 1 as [|a l Ha _ IH]; [done|]. unfold replace_star in *. rewrite fmap_cons, IH.
  apply label_char_plain in Ha as (_ & _ & -> & _). done.
Qed.

Definition plus_sep : chars := to_chars " + ".
(** splitting the printed side at '+' and stripping the pieces gives back the terms *)
Lemma split_join_terms ts : ts ≠ [] → Forall (λ t, t ≠ [] ∧ tok_chars t) ts →
  ∀ pre post, spaces pre → spaces post →
  strip <$> split_by (is_char "+") (pre ++ join plus_sep ts ++ post) = ts.
Proof.
  induction ts as [|t ts IH]; [done|]. intros _ Hts pre post Hpre Hpost.
  apply Forall_cons in Hts as [[Hne Ht] Hts].
  assert (Forall (λ c, is_char "+" c = false) t) as Htp.
  { eapply Forall_impl; [exact Ht|]. intros a Ha. by apply label_char_plain. }
  assert (∀ l, spaces l → Forall (λ c, is_char "+" c = false) l) as Hsp.
  { intros l Hl. eapply Forall_impl; [exact Hl|]. intros a Ha. by apply space_plain. }
  destruct ts as [|t2 ts].
  - simpl. rewrite split_by_free.
    + simpl. by rewrite strip_pad by auto using tok_edge_clean.
    + rewrite !Forall_app; auto.
  - change (join plus_sep (t :: t2 :: ts)) with (t ++ plus_sep ++ join plus_sep (t2 :: ts)).
    unfold plus_sep at 1. change (to_chars " + ") with ([" "%char] ++ "+"%char :: [" "%char]).
    replace (pre ++ (t ++ ([" "%char] ++ "+"%char :: [" "%char]) ++ join plus_sep (t2 :: ts)) ++ post)
      with ((pre ++ t ++ [" "%char]) ++ "+"%char :: ([" "%char] ++ join plus_sep (t2 :: ts) ++ post)).
    2:{ rewrite <-?(assoc_L (++)). simpl. by rewrite <-?(assoc_L (++)). }
    rewrite split_by_app; [| |done].
    + rewrite fmap_cons. rewrite strip_pad; [|first [done|by repeat constructor|by apply tok_edge_clean]..].
      f_equal. apply IH; [done|done|by repeat constructor|done].
    + rewrite !Forall_app. split_and!; auto; by repeat constructor.
Qed.

(** * decimal printing *)
Definition dstep (acc : N) (a : ascii) : N := (10 * acc + digit_val a)%N.
Lemma digit_val_char d : (d < 10)%N → digit_val (pretty_N_char d) = d ∧ is_digit (pretty_N_char d) = true.
Proof.
  intros Hd.
  assert (d = 0 ∨ d = 1 ∨ d = 2 ∨ d = 3 ∨ d = 4 ∨ d = 5 ∨ d = 6 ∨ d = 7 ∨ d = 8 ∨ d = 9)%N as Hc by lia.
  repeat (destruct Hc as [->|Hc]; [by vm_compute|]). subst. by vm_compute.
Qed.
Lemma pretty_N_go_chars x : ∀ s, ∃ ds p,
  to_chars (pretty_N_go x s) = ds ++ to_chars s ∧ Forall (λ a, is_digit a = true) ds ∧
  (∀ acc, foldl dstep acc ds = acc * p + x)%N ∧ ((0 < x)%N → ds ≠ []).
Proof.
  induction (N.lt_wf_0 x) as [x _ IH]. intros s.
  destruct (decide (x = 0%N)) as [->|Hx].
  - exists [], 1%N. rewrite pretty_N_go_0. split_and!; [done|constructor|intros; simpl; lia|lia].
  - rewrite pretty_N_go_step by lia.
    destruct (IH (x `div` 10)%N (N.div_lt x 10 ltac:(lia) eq_refl) (String (pretty_N_char (x `mod` 10)) s))
      as (ds & p & Hds & Hdig & Hval & _).
    destruct (digit_val_char (x `mod` 10)%N) as [Hv Hd]; [by apply N.mod_lt|].
    exists (ds ++ [pretty_N_char (x `mod` 10)]), (10 * p)%N. split_and!.
    + rewrite Hds. simpl. by rewrite <-(assoc_L (++)).
    + apply Forall_app. split; [done|by repeat constructor].
    + intros acc. rewrite foldl_app. cbn [foldl]. unfold dstep at 1. rewrite Hval, Hv.
      pose proof (N.div_mod' x 10). lia.
    + intros _. by destruct ds.
Qed.
Lemma pretty_pos_chars (c : positive) : ∃ ds,
  to_chars (pretty (Npos c)) = ds ∧ ds ≠ [] ∧ Forall (λ a, is_digit a = true) ds ∧ digits_val ds = Npos c.
Proof.
  unfold pretty, pretty_N. rewrite decide_False by done.
  destruct (pretty_N_go_chars (Npos c) "") as (ds & p & Hds & Hdig & Hval & Hne).
  exists ds. simpl in Hds. rewrite app_nil_r in Hds. split_and!; [done|by apply Hne|done|].
  unfold digits_val. change (λ acc a, (10 * acc + digit_val a)%N) with dstep. rewrite Hval. lia.
Qed.

(** * one printed term *)
Definition term_chars (p : string * positive) : chars := to_chars (fmt_term p).

Lemma valid_label_chars s : valid_label s = true →
  ∃ a t, to_chars s = a :: t ∧ is_alpha a = true ∧ tok_chars (a :: t).
Proof.
  unfold valid_label. destruct (to_chars s) as [|a t]; [done|]. intros [Ha Ht]%andb_true_iff.
  exists a, t. split_and!; [done|done|]. constructor; [by apply is_alpha_label|].
  apply Forall_forall. intros c Hc. rewrite forallb_forall in Ht. apply Ht. by apply elem_of_list_In.
Qed.

Lemma term_chars_tok p : valid_label p.1 = true → term_chars p ≠ [] ∧ tok_chars (term_chars p).
Proof.
  intros (a & t & Hs & Ha & Htok)%valid_label_chars. unfold term_chars, fmt_term.
  destruct (decide _).
  - rewrite Hs. done.
  - rewrite to_chars_app, Hs. destruct (pretty_pos_chars p.2) as (ds & -> & Hne & Hdig & _). split.
    + by destruct ds.
    + apply Forall_app. split; [|done]. eapply Forall_impl; [exact Hdig|]. intros c. apply is_digit_label.
Qed.

Lemma coef_split_term p : valid_label p.1 = true →
  coef_split (term_chars p) = if decide (p.2 = 1%positive) then None else Some (Npos p.2, to_chars p.1).
Proof.
  intros (a & t & Hs & Ha & Htok)%valid_label_chars. unfold term_chars, fmt_term, coef_split.
  destruct (is_alpha_label _ Ha) as [_ Hnd].
  destruct (decide _).
  - rewrite Hs. simpl. by rewrite Hnd.
  - rewrite to_chars_app, Hs. destruct (pretty_pos_chars p.2) as (ds & -> & Hne & Hdig & Hval).
    rewrite take_while_app, drop_while_app by done. destruct ds as [|d ds]; [done|]. by rewrite Ha, Hval.
Qed.

Lemma term_chars_head p : valid_label p.1 = true →
  ∃ a t, term_chars p = a :: t ∧ (is_alpha a = true ∨ is_digit a = true).
Proof.
  intros (a & t & Hs & Ha & Htok)%valid_label_chars. unfold term_chars, fmt_term. destruct (decide _).
  - rewrite Hs. eauto.
  - rewrite to_chars_app, Hs. destruct (pretty_pos_chars p.2) as (ds & -> & Hne & Hdig & _).
    destruct ds as [|d ds]; [done|]. apply Forall_inv in Hdig. exists d, (ds ++ a :: t). eauto.
Qed.

Lemma proc_part_term out p : valid_label p.1 = true →
  proc_part out (term_chars p) = Some (side_add out p.1 (Z.pos p.2)).
Proof.
  intros Hv. destruct (term_chars_tok p Hv) as [Hne Htok]. unfold proc_part.
  rewrite replace_star_tok, strip_clean, py_words_tok by auto using tok_edge_clean.
  rewrite coef_split_term by done. destruct (decide _) as [Hc|Hc].
  - rewrite Hc. f_equal. f_equal. unfold term_chars, fmt_term. rewrite decide_True by done. apply of_to_chars.
  - by rewrite of_to_chars.
Qed.

(** * a whole side *)
Definition side_items (sd : side) : list (string * positive) := sort_by_key (map_to_list sd).
Definition side_chars (sd : side) : chars := to_chars (fmt_side sd).

Lemma side_items_perm sd : side_items sd ≡ₚ map_to_list sd.
Proof. apply merge_sort_Permutation. Qed.

Lemma side_chars_nonempty sd : sd ≠ ∅ → side_chars sd = join plus_sep (term_chars <$> side_items sd).
Proof.
  intros Hne. unfold side_chars, fmt_side. rewrite decide_False by done. rewrite to_of_chars.
  reflexivity.
Qed.

Lemma foldl_side_add (l : list (string * positive)) : NoDup l.*1 → ∀ out : gmap string positive, (∀ s, s ∈ l.*1 → out !! s = None) →
  foldl (λ o p, side_add o p.1 (Z.pos p.2)) out l = (list_to_map l : gmap string positive) ∪ out.
Proof.
  induction l as [|[s c] l IH]; intros Hnd out Hout; simpl.
  - by rewrite (left_id_L ∅ (∪)).
  - apply NoDup_cons in Hnd as [Hs Hnd].
    assert (side_add out s (Z.pos c) = <[s:=c]> out) as ->.
    { unfold side_add, side. by rewrite (Hout s) by set_solver. }
    rewrite IH; [|done|].
    + change (list_to_map ((s,c)::l)) with (<[s:=c]> (list_to_map l : gmap string positive)).
      apply map_eq. intros k. rewrite !lookup_union. destruct (decide (k = s)) as [->|Hk].
      * rewrite !lookup_insert, (Hout s), (not_elem_of_list_to_map_1 _ s) by set_solver. done.
      * by rewrite !lookup_insert_ne by done.
    + intros s' Hs'. rewrite lookup_insert_ne by set_solver. apply Hout. set_solver.
Qed.

Lemma proc_parts_terms (l : list (string * positive)) : Forall (λ p, valid_label p.1 = true) l → ∀ out,
  foldl (λ acc p, acc ≫= λ out, proc_part out p) (Some out) (term_chars <$> l)
  = Some (foldl (λ o p, side_add o p.1 (Z.pos p.2)) out l).
Proof.
  induction 1 as [|p l Hp _ IH]; intros out; simpl; [done|]. by rewrite proc_part_term, IH.
Qed.

Lemma empty_sign_edge_clean : edge_clean (to_chars empty_sign).
Proof. split; [by eexists _, _|]. exists (removelast (to_chars empty_sign)), (ascii_of_N 133). by vm_compute. Qed.

Lemma join_Forall (P : ascii → Prop) sep ts : Forall P sep → Forall (Forall P) ts → Forall P (join sep ts).
Proof.
  intros Hsep. induction 1 as [|t ts Ht Hts IH]; [constructor|]. destruct ts as [|t2 ts]; [done|].
  change (join sep (t :: t2 :: ts)) with (t ++ sep ++ join sep (t2 :: ts)). rewrite !Forall_app. auto.
Qed.

Lemma join_edge_clean ts : ts ≠ [] → Forall (λ t, t ≠ [] ∧ tok_chars t) ts → edge_clean (join plus_sep ts).
Proof.
  intros Hne Hts. split.
  - destruct ts as [|t ts]; [done|]. apply Forall_cons in Hts as [[Hn Ht] _].
    destruct t as [|a t]; [done|]. apply Forall_inv in Ht. apply label_char_plain in Ht as [Ha _].
    destruct ts; simpl; eauto.
  - induction ts as [|t ts IH]; [done|]. apply Forall_cons in Hts as [[Hn Ht] Hts].
    destruct ts as [|t2 ts].
    + simpl. destruct (tok_edge_clean t Hn Ht) as [_ H]. done.
    + destruct IH as (u & b & Hu & Hb); [done|done|].
      change (join plus_sep (t :: t2 :: ts)) with (t ++ plus_sep ++ join plus_sep (t2 :: ts)).
      rewrite Hu. exists (t ++ plus_sep ++ u), b. split; [|done]. by rewrite <-!(assoc_L (++)).
Qed.

Lemma side_terms_ok sd : side_labels_ok sd = true →
  Forall (λ p, valid_label p.1 = true) (side_items sd) ∧
  Forall (λ t, t ≠ [] ∧ tok_chars t) (term_chars <$> side_items sd).
Proof.
  unfold side_labels_ok. rewrite bool_decide_eq_true. intros Hok.
  assert (Forall (λ p : string * positive, valid_label p.1 = true) (side_items sd)) as H.
  { apply Forall_forall. intros [s c] Hin. rewrite side_items_perm in Hin. apply elem_of_map_to_list in Hin.
    by apply (Hok s c). }
  split; [done|]. apply Forall_fmap. eapply Forall_impl; [exact H|]. intros p Hp. by apply term_chars_tok.
Qed.

Lemma side_items_nonempty sd : sd ≠ ∅ → side_items sd ≠ [].
Proof.
  intros Hne Hnil. apply Hne. apply map_to_list_empty_iff. apply Permutation_nil_r. by rewrite <-side_items_perm, Hnil.
Qed.

Lemma side_chars_edge_clean sd : side_labels_ok sd = true → edge_clean (side_chars sd).
Proof.
  intros Hok. destruct (decide (sd = ∅)) as [->|Hne].
  - apply empty_sign_edge_clean.
  - rewrite side_chars_nonempty by done. apply join_edge_clean; [|by apply side_terms_ok].
    intros Hnil%fmap_nil_inv. by apply side_items_nonempty in Hnil.
Qed.

(** characters that never occur in a printed side *)
Definition bar_gt_free (l : chars) : Prop := Forall (λ a, is_char "|" a = false ∧ is_char ">" a = false) l.
Lemma side_chars_bar_gt_free sd : side_labels_ok sd = true → bar_gt_free (side_chars sd).
Proof.
  intros Hok. destruct (decide (sd = ∅)) as [->|Hne].
  - unfold bar_gt_free. by repeat constructor.
  - rewrite side_chars_nonempty by done. apply join_Forall; [by repeat constructor|].
    destruct (side_terms_ok sd Hok) as [_ H]. eapply Forall_impl; [exact H|]. intros t [_ Ht].
    eapply Forall_impl; [exact Ht|]. intros a Ha. by apply label_char_plain.
Qed.

Lemma filter_Forall_id {A} (P : A → Prop) `{∀ x, Decision (P x)} (l : list A) : Forall P l → filter P l = l.
Proof. induction 1; [done|]. rewrite filter_cons_True by done. by f_equal. Qed.

Lemma side_items_nodup sd : NoDup (side_items sd).*1.
Proof. rewrite side_items_perm. apply NoDup_fst_map_to_list. Qed.
Lemma side_items_to_map sd : (list_to_map (side_items sd) : gmap string positive) = sd.
Proof.
  rewrite (list_to_map_proper _ (map_to_list sd)); [apply list_to_map_to_list|apply side_items_nodup|apply side_items_perm].
Qed.

Lemma from_chars_side sd pre post : side_labels_ok sd = true → spaces pre → spaces post →
  from_chars (pre ++ side_chars sd ++ post) = Some sd.
Proof.
  intros Hok Hpre Hpost. unfold from_chars. rewrite strip_pad by auto using side_chars_edge_clean.
  destruct (decide (sd = ∅)) as [->|Hne].
  - rewrite decide_True; [done|by right].
  - destruct (side_terms_ok sd Hok) as [Hv Ht].
    assert (term_chars <$> side_items sd ≠ []) as Hnn.
    { intros Hnil%fmap_nil_inv. by apply side_items_nonempty in Hnil. }
    rewrite decide_False.
    2:{ rewrite side_chars_nonempty by done. intros [Hnil|Hsign].
        - destruct (join_edge_clean _ Hnn Ht) as [(a & t & Ha & _) _]. by rewrite Hnil in Ha.
        - inversion Hv as [E|p ps Hp Hps E]; [by rewrite <-E in Hnn|]. rewrite <-E, fmap_cons in Hsign.
          destruct (term_chars_head p Hp) as (a & t & Ha & Hhead). rewrite Ha in Hsign.
          destruct (term_chars <$> ps); simpl in Hsign; injection Hsign as -> _; by destruct Hhead. }
    rewrite side_chars_nonempty by done.
    pose proof (split_join_terms _ Hnn Ht [] [] ltac:(constructor) ltac:(constructor)) as Hsp.
    rewrite app_nil_r in Hsp. simpl in Hsp. rewrite Hsp.
    rewrite filter_Forall_id by (eapply Forall_impl; [exact Ht|]; by intros t [? _]).
    rewrite proc_parts_terms by done. rewrite foldl_side_add.
    + f_equal. rewrite (right_id_L ∅ (∪)). apply side_items_to_map.
    + apply side_items_nodup.
    + intros s _. apply lookup_empty.
Qed.
