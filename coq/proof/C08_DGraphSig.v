(** C08 — directed inputs: NautyCanonicalizer.graph_signature on a DiGraph (model [dgraph_sig_label], the two-triangle label
    of the canonical digraph read in the order 1..N) is the minimal label of the search, invariant under isomorphism of
    digraphs and sound: equal labels make two digraphs isomorphic as digraphs.  Mirrors C08_GraphSig.v. *)
From Coq Require Import String List NArith ZArith Bool Arith Lia Permutation.
From SK Require Import lib.LGraph lib.IRSortKeys lib.IRCore lib.IRSearch lib.StrJoin.
From SK Require Import model.C08_Model model.C08_Digraph proof.C08_Spec proof.C08_DSpec proof.C08_Sort proof.C08_Faithful proof.C08_Cov
                       proof.C08_SigFun proof.C08_Render proof.C08_IR proof.C08_Nauty proof.C08_Sound proof.C08_Equiv proof.C08_Invariant
                       proof.C08_GraphSig proof.C08_DSer proof.C08_DNauty proof.C08_DEquiv proof.C08_DInvariant.
From SK Require lib.IRInst.
Import ListNotations.
Open Scope string_scope. Open Scope list_scope. Open Scope nat_scope.

Notation ix p := (apply_map (mapping_of p)).

Theorem dgraph_sig_label_min g : dwf g -> dgraph_sig_label g = dnlabel g (dnauty_perm g).
Proof.
  intros Hg. pose proof (proj1 Hg) as Ng. pose proof (dnauty_perm_perm g Ng) as Pp.
  set (p := dnauty_perm g) in *.
  assert (Np : NoDup p) by (eapply Permutation_NoDup; [apply Permutation_sym; exact Pp|exact Ng]).
  assert (Hi : C08_Spec.inj_on (ix p) (node_ids g)) by (apply inj_on_same; eapply inj_on_perm; [exact Pp|apply mapping_of_inj; auto]).
  unfold dgraph_sig_label, dcanon_nauty. fold p.
  assert (Es : sorted_ids (relabel (ix p) g) = map (ix p) p).
  { unfold sorted_ids. rewrite (mapping_of_map p Np). apply sort_ids_perm_seq.
    rewrite node_ids_relabel. rewrite <- (mapping_of_map p Np). apply Permutation_map. apply Permutation_sym. exact Pp. }
  rewrite Es.
  set (pi := extend (ix p) (node_ids g)).
  assert (pi_inj : forall x y, pi x = pi y -> x = y) by (apply extend_inj; exact Hi).
  assert (E1 : relabel (ix p) g = relabel pi g).
  { symmetry. apply drelabel_ext_on; auto. intros x I. apply extend_on. exact I. }
  assert (E2 : map (ix p) p = map pi p).
  { apply map_ext_in. intros x I. symmetry. apply extend_on. apply (Permutation_in _ Pp). exact I. }
  rewrite E1, E2. apply (dnlabel_rel pi pi_inj g (relabel pi g) Hg (dgeq_cov_refl _)).
Qed.

Theorem dgraph_sig_label_min_both g : dwf g ->
  dgraph_sig_label g = dnlabel g (dnauty_perm g) /\ dnauty_label g = Some (dnlabel g (dnauty_perm g)).
Proof. intros Hg. split; [apply dgraph_sig_label_min; auto|apply (dnauty_perm_leaf g (proj1 Hg))]. Qed.

Lemma diso_label_eq g h : dwf g -> dwf h -> diso_cov g h -> dnauty_label h = dnauty_label g.
Proof.
  intros Hg Hh (f & Hf & Hq0).
  set (pi := extend f (node_ids g)).
  assert (pi_inj : forall x y, pi x = pi y -> x = y) by (apply extend_inj; exact Hf).
  assert (Hq : dgeq_cov (relabel pi g) h).
  { rewrite (drelabel_ext_on pi f g Hg); auto. intros x I. apply extend_on. exact I. }
  apply (dnauty_label_rel pi pi_inj g h Hg Hq).
Qed.

Theorem dgraph_sig_invariant g h : dwf g -> dwf h -> diso_cov g h -> dgraph_sig_label g = dgraph_sig_label h.
Proof.
  intros Hg Hh Hi. rewrite !dgraph_sig_label_min by auto.
  destruct (dnauty_perm_leaf g (proj1 Hg)) as [_ Ep]. destruct (dnauty_perm_leaf h (proj1 Hh)) as [_ Eq].
  pose proof (diso_label_eq g h Hg Hh Hi) as E. rewrite Ep, Eq in E. inversion E. reflexivity.
Qed.

(* ---------------- the label determines the number of nodes ---------------- *)
Lemma dnlabel_as_join g p : p <> [] ->
  dnlabel g p = join 124%N (map (node_str g) p ++ [] :: (match map (dedge_bit g) (dpairs p) with [] => [[]] | l => l end)).
Proof.
  intros Hp. unfold dnlabel, node_seg. change (lit "||") with [124%N; 124%N].
  rewrite join_app2; [|destruct p; [congruence|discriminate]|discriminate].
  f_equal. cbn [app]. f_equal.
  destruct (map (dedge_bit g) (dpairs p)) as [|b l]; [reflexivity|].
  change (join 124%N ([] :: b :: l)) with ([] ++ 124%N :: join 124%N (b :: l)). reflexivity.
Qed.

Lemma dnlabel_length g h p q : (forall v, In v p -> el_ok (el (attr_of g v))) -> (forall v, In v q -> el_ok (el (attr_of h v))) ->
  dnlabel g p = dnlabel h q -> length p = length q.
Proof.
  intros Hp Hq E.
  destruct p as [|p0 p], q as [|q0 q]; auto.
  - exfalso. unfold dnlabel, node_seg in E. simpl in E. rewrite node_str_cov in E. unfold NS, ncov in E.
    destruct (attr_of h q0). change (lit "||") with [124%N; 124%N] in E.
    destruct (map (node_str h) q); simpl in E.
    + apply (f_equal (@length N)) in E. rewrite !app_length in E. simpl in E. rewrite !app_length in E. simpl in E. lia.
    + apply (f_equal (@length N)) in E. rewrite !app_length in E. simpl in E. rewrite !app_length in E. simpl in E. lia.
  - exfalso. unfold dnlabel, node_seg in E. simpl in E. rewrite node_str_cov in E. unfold NS, ncov in E.
    destruct (attr_of g p0). change (lit "||") with [124%N; 124%N] in E.
    destruct (map (node_str g) p); simpl in E.
    + apply (f_equal (@length N)) in E. rewrite !app_length in E. simpl in E. rewrite !app_length in E. simpl in E. lia.
    + apply (f_equal (@length N)) in E. rewrite !app_length in E. simpl in E. rewrite !app_length in E. simpl in E. lia.
  - rewrite !dnlabel_as_join in E by discriminate.
    assert (NSg : forall k r, (forall v, In v r -> el_ok (el (attr_of k v))) ->
              Forall (nosep 124%N) (map (node_str k) r) /\ Forall (fun x => x <> []) (map (node_str k) r)).
    { intros k r Hr. split; apply Forall_forall; intros x I; apply in_map_iff in I; destruct I as (v & <- & I); rewrite node_str_cov.
      - apply NS_nosep. unfold ncov. cbn [fst]. apply Hr. exact I.
      - unfold NS, ncov. destruct (attr_of k v). simpl. intro E0. apply (f_equal (@length N)) in E0. rewrite app_length in E0. simpl in E0. lia. }
    assert (EBg : forall k r, Forall (nosep 124%N) (match map (dedge_bit k) (dpairs r) with [] => [[]] | l => l end)).
    { intros k r. destruct (map (dedge_bit k) (dpairs r)) as [|b l] eqn:El; [repeat constructor; intros []|].
      rewrite <- El. apply Forall_forall. intros x I. apply in_map_iff in I. destruct I as (ab & <- & _).
      rewrite dedge_bit_cov. apply EB_nosep. }
    destruct (NSg g (p0 :: p) Hp) as [A1 A2]. destruct (NSg h (q0 :: q) Hq) as [B1 B2].
    apply join_inj in E.
    + apply first_nil_len in E; auto. rewrite !map_length in E. exact E.
    + apply Forall_app. split; auto. constructor; [intros []|apply EBg].
    + apply Forall_app. split; auto. constructor; [intros []|apply EBg].
    + discriminate.
    + discriminate.
Qed.

(* ---------------- two digraphs with equal labels ---------------- *)
Section TwoDigraphs.
Variables g h : graph.
Hypothesis Hg : dwf g.
Hypothesis Hh : dwf h.

Definition dzrel2 (p q : list N) : Prop :=
  (forall a a', In (a, a') (combine p q) -> ncov (attr_of g a) = ncov (attr_of h a')) /\
  (forall a a' b b', In (a, a') (combine p q) -> In (b, b') (combine p q) -> a <> b ->
     option_map ecov (arc g a b) = option_map ecov (arc h a' b')).

Lemma dhalf2 p q : Permutation p (node_ids g) -> Permutation q (node_ids h) -> length p = length q -> dzrel2 p q ->
  (forall c, In c (cov_nodes (relabel (ix p) g)) -> In c (cov_nodes (relabel (ix q) h))) /\
  (forall c, In c (dcov_edges (relabel (ix p) g)) -> In c (dcov_edges (relabel (ix q) h))).
Proof.
  intros Hp Hq Hl [Z1 Z2].
  pose proof (proj1 Hg) as Hnd. pose proof (proj1 Hh) as Hnd'.
  assert (Hn : NoDup p) by (eapply Permutation_NoDup; [apply Permutation_sym; exact Hp|exact Hnd]).
  assert (Hn' : NoDup q) by (eapply Permutation_NoDup; [apply Permutation_sym; exact Hq|exact Hnd']).
  assert (Hex : forall a, In a (node_ids g) -> exists a', In (a, a') (combine p q) /\ In a' (node_ids h) /\ ix p a = ix q a').
  { intros a Ia. apply (Permutation_in _ (Permutation_sym Hp)) in Ia. destruct (in_combine_ex p q a Hl Ia) as (a' & I).
    exists a'. split; auto. split; [apply (Permutation_in _ Hq); eapply in_combine_r; eauto|apply ix_combine; auto]. }
  split.
  - intros c I. rewrite cov_nodes_relabel in *. apply in_map_iff in I. destruct I as (d & <- & I).
    unfold cov_nodes in I. apply in_map_iff in I. destruct I as ([a att] & <- & I).
    assert (Ia : In a (node_ids g)) by (unfold node_ids; change a with (fst (a, att)); apply in_map; exact I).
    destruct (Hex a Ia) as (a' & Iz & Ia' & Ei).
    unfold node_ids in Ia'. apply in_map_iff in Ia'. destruct Ia' as ([a2 att'] & E2 & I'). cbn [fst] in E2. subst a2.
    apply in_map_iff. exists (covn (a', att')). split.
    + unfold rn, covn. cbn [fst snd]. rewrite <- Ei. f_equal.
      pose proof (Z1 a a' Iz) as H.
      pose proof (attr_of_in g (a, att) Hnd I) as H1. pose proof (attr_of_in h (a', att') Hnd' I') as H2.
      cbn [fst snd] in H1, H2. rewrite H1, H2 in H. symmetry. exact H.
    + unfold cov_nodes. apply in_map. exact I'.
  - intros c I. apply in_dcov_edges in I. destruct I as (u & v & x & I & ->).
    unfold relabel in I. cbn [gedges] in I. apply in_map_iff in I. destruct I as ([[a b] x0] & E & I). inversion E; subst. clear E.
    pose proof (proj1 (proj2 Hg)) as Hend. destruct (Hend _ _ _ I) as (Ia & Ib & Hne).
    destruct (Hex a Ia) as (a' & Iza & Ia' & Eia). destruct (Hex b Ib) as (b' & Izb & Ib' & Eib).
    pose proof (Z2 a a' b b' Iza Izb Hne) as H. rewrite (dwf_arc g Hg a b x I) in H. cbn [option_map] in H.
    destruct (arc h a' b') as [y|] eqn:Ey; [|discriminate]. cbn [option_map] in H. assert (Hxy : ecov x = ecov y) by congruence.
    unfold arc in Ey. apply find_arc_in in Ey.
    apply in_dcov_edges. exists (ix q a'), (ix q b'), y. split.
    + unfold relabel. cbn [gedges]. apply in_map_iff. exists (a', b', y). auto.
    + rewrite Eia, Eib, Hxy. reflexivity.
Qed.
End TwoDigraphs.

Lemma dlabel_zrel2 g h p q : els_ok g -> els_ok h -> NoDup p -> NoDup q -> length p = length q ->
  dnlabel g p = dnlabel h q -> dzrel2 g h p q.
Proof.
  intros Eg Eh Np Nq Hl E.
  destruct (dnlabel_inj g h p q Hl (fun v _ => attr_el_ok g Eg v) (fun v _ => attr_el_ok h Eh v) E) as [E1 E2]. split.
  - intros a a' I. exact (map_eq_combine _ _ _ _ E1 a a' I).
  - intros a a' b b' Ia Ib Hne.
    exact (map_eq_combine _ _ _ _ E2 _ _ (dpairs_combine p q Np Nq Hl a a' b b' Ia Ib Hne)).
Qed.

Theorem dequal_labels_iso g h p q : dwf g -> dwf h -> els_ok g -> els_ok h ->
  Permutation p (node_ids g) -> Permutation q (node_ids h) -> dnlabel g p = dnlabel h q -> diso_cov g h.
Proof.
  intros Hg Hh Eg Eh Pp Pq E.
  assert (Hl : length p = length q).
  { apply (dnlabel_length g h); auto; intros v _; apply attr_el_ok; auto. }
  assert (Np : NoDup p) by (eapply Permutation_NoDup; [apply Permutation_sym; exact Pp|apply Hg]).
  assert (Nq : NoDup q) by (eapply Permutation_NoDup; [apply Permutation_sym; exact Pq|apply Hh]).
  destruct (dhalf2 g h Hg Hh p q Pp Pq Hl (dlabel_zrel2 g h p q Eg Eh Np Nq Hl E)) as [A1 A2].
  destruct (dhalf2 h g Hh Hg q p Pq Pp (eq_sym Hl) (dlabel_zrel2 h g q p Eh Eg Nq Np (eq_sym Hl) (eq_sym E))) as [B1 B2].
  assert (Ip : C08_Spec.inj_on (ix p) (node_ids g)).
  { apply inj_on_same. eapply inj_on_perm; [exact Pp|]. apply mapping_of_inj. exact Np. }
  assert (Iq : C08_Spec.inj_on (ix q) (node_ids h)).
  { apply inj_on_same. eapply inj_on_perm; [exact Pq|]. apply mapping_of_inj. exact Nq. }
  pose proof (dsimple_relabel (ix p) g Hg Ip) as S1. pose proof (dsimple_relabel (ix q) h Hh Iq) as S2.
  apply (dcommon_form_iso g h (ix p) (ix q)); auto.
  split; apply NoDup_Permutation.
  - apply (NoDup_map_inv fst). rewrite <- node_ids_cov. apply S1.
  - apply (NoDup_map_inv fst). rewrite <- node_ids_cov. apply S2.
  - intros c. split; auto.
  - apply (NoDup_map_inv fst). apply S1.
  - apply (NoDup_map_inv fst). apply S2.
  - intros c. split; auto.
Qed.

Theorem dgraph_sig_sound g h : dwf g -> dwf h -> els_ok g -> els_ok h -> dgraph_sig_label g = dgraph_sig_label h -> diso_cov g h.
Proof.
  intros Hg Hh Eg Eh E. rewrite !dgraph_sig_label_min in E by auto.
  apply (dequal_labels_iso g h (dnauty_perm g) (dnauty_perm h)); auto; apply dnauty_perm_perm; [apply Hg|apply Hh].
Qed.

Theorem dgraph_signature_spec (D : Type) (digest : str -> D) g h : dwf g -> dwf h -> els_ok g -> els_ok h ->
  (digest (dgraph_sig_label g) = digest (dgraph_sig_label h) -> dgraph_sig_label g = dgraph_sig_label h) ->
  (digest (dgraph_sig_label g) = digest (dgraph_sig_label h) <-> diso_cov g h).
Proof.
  intros Hg Hh Eg Eh Hd. split.
  - intros E. apply dgraph_sig_sound; auto.
  - intros Hi. f_equal. apply dgraph_sig_invariant; auto.
Qed.

(* non-vacuity: the witness pair of repair R5b gets one label, the transposed digraph another *)
Example dgs_ex : dgraph_sig_label dn_g = dgraph_sig_label dn_h /\ dgraph_sig_label dn_g <> dgraph_sig_label dn_t.
Proof. split; [vm_compute; reflexivity|vm_compute; discriminate]. Qed.

Print Assumptions dgraph_signature_spec.
