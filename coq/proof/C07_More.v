(** C07 — round 5: get_mappings under relabelling (non-emptiness), and pre-check / get_mappings on the same history.  Stdlib lists. *)
From Coq Require Import List NArith Bool Arith Lia.
From SK Require Import lib.Tok lib.LGraph lib.Mono model.C07_Model
  proof.C07_Spec proof.C07_History proof.C07_Filters proof.C07_Main proof.C07_WL proof.C07_Relabel proof.C07_Final proof.C07_Extra
  proof.C07_Entry proof.C07_Sym proof.C07_Cache.
Import ListNotations.

Section More.
Variable vf2b : bool -> (attrs -> attrs -> bool) -> (attrs -> attrs -> bool) -> graph -> graph -> bool.
Variable enum : (attrs -> attrs -> bool) -> (attrs -> attrs -> bool) -> graph -> graph -> list mapping.
Hypothesis VB : vf2b_contract vf2b.
Hypothesis EN : enum_contract enum.

(** whether get_mappings finds the pattern does not depend on the node numbering of the host or of the pattern
    (gs' is gs with the host, resp. the pattern, renamed by r injective on its nodes; caches arbitrary but consistent) *)
Theorem maps_relabel_invariant e r gs gs' hi pi c c' : cache_inv gs c -> cache_inv gs' c' -> gwf (gnth gs hi) -> gwf (gnth gs pi) ->
  e_mm e <> Some 0%N ->
  (gnth gs' hi = grelabel r (gnth gs hi) /\ inj_on r (node_ids (gnth gs hi)) /\ gnth gs' pi = gnth gs pi) \/
  (gnth gs' pi = grelabel r (gnth gs pi) /\ inj_on r (node_ids (gnth gs pi)) /\ gnth gs' hi = gnth gs hi) ->
  (fst (get_mappings vf2b enum e hi (gnth gs' hi) pi (gnth gs' pi) c') <> [] <->
   fst (get_mappings vf2b enum e hi (gnth gs hi) pi (gnth gs pi) c) <> []).
Proof.
  intros Hc Hc' WH WP Hmm D.
  rewrite (embeddings_iff vf2b enum VB EN gs e hi pi c Hc WH WP Hmm).
  destruct D as [(E1 & Ri & E2)|(E1 & Ri & E2)].
  - assert (WH' : gwf (gnth gs' hi)) by (rewrite E1; apply gwf_relabel; auto).
    assert (WP' : gwf (gnth gs' pi)) by (rewrite E2; exact WP).
    rewrite (embeddings_iff vf2b enum VB EN gs' e hi pi c' Hc' WH' WP' Hmm), E1, E2. apply contained_relabel_host_iff; auto.
  - assert (WP' : gwf (gnth gs' pi)) by (rewrite E1; apply gwf_relabel; auto).
    assert (WH' : gwf (gnth gs' hi)) by (rewrite E2; exact WH).
    rewrite (embeddings_iff vf2b enum VB EN gs' e hi pi c' Hc' WH' WP' Hmm), E1, E2. apply contained_relabel_pat_iff; auto.
Qed.

(** _pre_check and get_mappings on the same arguments: a result is returned only if _pre_check passes, and _pre_check passes whenever
    a result could be returned *)
Theorem maps_implies_pre_check gs e hi pi c c' : cache_inv gs c -> cache_inv gs c' -> gwf (gnth gs hi) -> gwf (gnth gs pi) ->
  fst (get_mappings vf2b enum e hi (gnth gs hi) pi (gnth gs pi) c) <> [] -> fst (pre_check e hi (gnth gs hi) pi (gnth gs pi) c') = true.
Proof.
  intros Hc Hc' WH WP Hn. rewrite (pre_fst gs e hi pi c' Hc'). rewrite (maps_fst vf2b enum gs e hi pi c Hc) in Hn.
  unfold get_mappings_p in Hn. destruct (pre_check_p e (gnth gs hi) (gnth gs pi)); [reflexivity|]. simpl in Hn. congruence.
Qed.
End More.

(* example: C-O-C renamed by +10 still contains C-O *)
From SK Require Import proof.C07_Examples.
Definition rP10 (x : N) : N := (x + 10)%N.
Definition gsR : list graph := [gCO; gOC; gCOm; grelabel rP10 gCOC].
Example ex_maps_relabel : fst (get_mappings has_mono (monos_g true) eFull 3 (gnth gsR 3) 0 (gnth gsR 0) []) <> [].
Proof.
  apply (maps_relabel_invariant has_mono (monos_g true) has_mono_contract monos_g_contract eFull rP10 gsA gsR 3 0 [] []
           (cache_inv_nil gsA) (cache_inv_nil gsR) (wfA 3 ltac:(lia)) (wfA 0 ltac:(lia))); [discriminate | | ].
  - left. split; [reflexivity|]. split; [intros a b _ _ E; unfold rP10 in E; lia | reflexivity].
  - vm_compute. discriminate.
Qed.
