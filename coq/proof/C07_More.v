(** C07 — round 5: get_mappings under relabelling (non-emptiness), and pre-check / get_mappings on the same history.  Stdlib lists. *)
From Coq Require Import List NArith Bool Arith Lia.
From SK Require Import lib.Tok lib.LGraph lib.Mono model.C07_Model
  proof.C07_Spec proof.C07_History proof.C07_Filters proof.C07_Main proof.C07_WL proof.C07_Relabel proof.C07_Final proof.C07_Extra
  proof.C07_Entry proof.C07_Sym proof.C07_Cache.
Import ListNotations.

Section More.
Variable vf2b : bool -> (attrs -> attrs -> bool) -> (attrs -> attrs -> bool) -> graph -> graph -> bool.
Variable enum : (attrs -> attrs -> bool) -> (attrs -> attrs -> bool) -> graph -> graph -> list mapping.
Hypothesis VB : vf2b_contract vf2b.
Hypothesis EN : enum_contract enum.

(** whether get_mappings finds the pattern does not depend on the node numbering of the host or of the pattern
    (gs' is gs with the host, resp. the pattern, renamed by r injective on its nodes; caches arbitrary but consistent) *)
Theorem maps_relabel_invariant e r gs gs' hi pi c c' : cache_inv gs c -> cache_inv gs' c' -> gwf (gnth gs hi) -> gwf (gnth gs pi) ->
  e_mm e <> Some 0%N ->
  (gnth gs' hi = grelabel r (gnth gs hi) /\ inj_on r (node_ids (gnth gs hi)) /\ gnth gs' pi = gnth gs pi) \/
  (gnth gs' pi = grelabel r (gnth gs pi) /\ inj_on r (node_ids (gnth gs pi)) /\ gnth gs' hi = gnth gs hi) ->
  (fst (get_mappings vf2b enum e hi (gnth gs' hi) pi (gnth gs' pi) c') <> [] <->
   fst (get_mappings vf2b enum e hi (gnth gs hi) pi (gnth gs pi) c) <> []).
Proof.
  intros Hc Hc' WH WP Hmm D.
  rewrite (embeddings_iff vf2b enum VB EN gs e hi pi c Hc WH WP Hmm).
  destruct D as [(E1 & Ri & E2)|(E1 & Ri & E2)].
  - assert (WH' : gwf (gnth gs' hi)) by (rewrite E1; apply gwf_relabel; auto).
    assert (WP' : gwf (gnth gs' pi)) by (rewrite E2; exact WP).
    rewrite (embeddings_iff vf2b enum VB EN gs' e hi pi c' Hc' WH' WP' Hmm), E1, E2. apply contained_relabel_host_iff; auto.
  - assert (WP' : gwf (gnth gs' pi)) by (rewrite E1; apply gwf_relabel; auto).
    assert (WH' : gwf (gnth gs' hi)) by (rewrite E2; exact WH).
    rewrite (embeddings_iff vf2b enum VB EN gs' e hi pi c' Hc' WH' WP' Hmm), E1, E2. apply contained_relabel_pat_iff; auto.
Qed.

(** _pre_check and get_mappings on the same arguments: a result is returned only if _pre_check passes, and _pre_check passes whenever
    a result could be returned *)
Theorem maps_implies_pre_check gs e hi pi c c' : cache_inv gs c -> cache_inv gs c' -> gwf (gnth gs hi) -> gwf (gnth gs pi) ->
  fst (get_mappings vf2b enum e hi (gnth gs hi) pi (gnth gs pi) c) <> [] -> fst (pre_check e hi (gnth gs hi) pi (gnth gs pi) c') = true.
Proof.
  intros Hc Hc' WH WP Hn. rewrite (pre_fst gs e hi pi c' Hc'). rewrite (maps_fst vf2b enum gs e hi pi c Hc) in Hn.
  unfold get_mappings_p in Hn. destruct (pre_check_p e (gnth gs hi) (gnth gs pi)); [reflexivity|]. simpl in Hn. congruence.
Qed.
End More.

(* example: C-O-C renamed by +10 still contains C-O *)
From SK Require Import proof.C07_Examples.
Definition rP10 (x : N) : N := (x + 10)%N.
Definition gsR : list graph := [gCO; gOC; gCOm; grelabel rP10 gCOC].
Example ex_maps_relabel : fst (get_mappings has_mono (monos_g true) eFull 3 (gnth gsR 3) 0 (gnth gsR 0) []) <> [].
Proof.
  apply (maps_relabel_invariant has_mono (monos_g true) has_mono_contract monos_g_contract eFull rP10 gsA gsR 3 0 [] []
           (cache_inv_nil gsA) (cache_inv_nil gsR) (wfA 3 ltac:(lia)) (wfA 0 ltac:(lia))); [discriminate | | ].
  - left. split; [reflexivity|]. split; [intros a b _ _ E; unfold rP10 in E; lia | reflexivity].
  - vm_compute. discriminate.
Qed.

(* ------------------------------------------------------------------ symmetry under equal hydrogen-count SUMS *)
(** total hydrogen count of a graph (absent = 0) *)
Definition sum_hc (g : graph) : N := fold_right N.add 0%N (map (fun u => hc (nlabel g u)) (node_ids g)).

Lemma sum_map_perm {X} (w : X -> N) l l' : Permutation.Permutation l l' ->
  fold_right N.add 0%N (map w l) = fold_right N.add 0%N (map w l').
Proof. induction 1; simpl; lia. Qed.

Lemma sum_le_pointwise {X} (a b : X -> N) l : (forall x, In x l -> (a x <= b x)%N) ->
  (fold_right N.add 0 (map a l) <= fold_right N.add 0 (map b l))%N.
Proof.
  induction l as [|x r IH]; simpl; intros H; [lia|].
  pose proof (H x (or_introl eq_refl)). assert (forall y, In y r -> (a y <= b y)%N) by (intros y I; apply H; right; exact I).
  specialize (IH H1). lia.
Qed.

Lemma sum_le_eq {X} (a b : X -> N) l : (forall x, In x l -> (a x <= b x)%N) ->
  fold_right N.add 0%N (map a l) = fold_right N.add 0%N (map b l) -> forall x, In x l -> a x = b x.
Proof.
  induction l as [|y r IH]; simpl; intros H E x I; [destruct I|].
  pose proof (H y (or_introl eq_refl)) as Hy.
  assert (Hr : forall z, In z r -> (a z <= b z)%N) by (intros z Iz; apply H; right; exact Iz).
  pose proof (sum_le_pointwise a b r Hr) as Hs.
  destruct I as [<-|I]; [lia|]. apply IH; auto. lia.
Qed.

Section SymSum.
Variable vf2b : bool -> (attrs -> attrs -> bool) -> (attrs -> attrs -> bool) -> graph -> graph -> bool.
Hypothesis VB : vf2b_contract vf2b.

Lemma iso_flip_sum e g1 g2 : gwf g1 -> gwf g2 -> sum_hc g1 = sum_hc g2 ->
  (exists f, iso_map (nm_eng e) (em_eng e) g1 g2 f) -> exists f, iso_map (nm_eng e) (em_eng e) g2 g1 f.
Proof.
  intros W1 W2 Es (f & Hi).
  pose proof (iso_sizes _ _ _ _ _ W1 W2 Hi) as En.
  destruct Hi as (He & On). pose proof He as (E1 & E2 & E3).
  (* the image of the nodes of g2 is a permutation of the nodes of g1 *)
  assert (Hp : Permutation.Permutation (map f (node_ids g2)) (node_ids g1)).
  { apply Permutation.NoDup_Permutation_bis.
    - eapply emb_image_nodup; eauto. apply gwf_nodup; auto.
    - rewrite map_length, <- !n_nodes_ids. lia.
    - eapply emb_image_incl; eauto. }
  (* pointwise hc g2 u <= hc g1 (f u), equal totals => equal everywhere *)
  assert (Hle : forall u, In u (node_ids g2) -> (hc (nlabel g2 u) <= hc (nlabel g1 (f u)))%N).
  { intros u Iu. destruct (E1 u Iu) as (_ & Hn). apply nm_eng_spec in Hn. tauto. }
  assert (Heq : forall u, In u (node_ids g2) -> hc (nlabel g2 u) = hc (nlabel g1 (f u))).
  { apply sum_le_eq; [exact Hle|]. fold (sum_hc g2). rewrite <- Es. unfold sum_hc.
    rewrite <- (sum_map_perm (fun h => hc (nlabel g1 h)) _ _ Hp), map_map. reflexivity. }
  destruct (iso_inverse _ _ _ _ _ (conj He On)) as ((He' & On') & Gl & Gr).
  exists (finv f (node_ids g2)). split; [|exact On'].
  pose proof (proj1 He') as Hdom. revert He'. apply emb_weaken.
  - intros h Ih Hn. unfold flip2 in Hn. apply nm_eng_spec in Hn. apply nm_eng_spec. destruct Hn as (A & _).
    destruct (Hdom h Ih) as (Ig & _). split; [intros k Ik; symmetry; auto|].
    rewrite (Heq _ Ig), (Gr h Ih). lia.
  - intros b b'. unfold flip2. rewrite !em_eng_spec. intros A k Ik. symmetry. auto.
Qed.

(** (2b, full strength) isomorphic is symmetric whenever the two graphs carry the same TOTAL hydrogen count (absent = 0) — in
    particular for a graph and any relabelled copy, for isomers, and for graphs without hcount annotations: a label-preserving
    bijection with hcount(pattern node) <= hcount(host node) everywhere and equal totals has equality everywhere, so its inverse is an
    isomorphism the other way *)
Theorem symmetric_sum gs e i j c c' : cache_inv gs c -> cache_inv gs c' -> gwf (gnth gs i) -> gwf (gnth gs j) ->
  sum_hc (gnth gs i) = sum_hc (gnth gs j) ->
  fst (isomorphic vf2b e i (gnth gs i) j (gnth gs j) c) = fst (isomorphic vf2b e j (gnth gs j) i (gnth gs i) c').
Proof.
  intros Hc Hc' Wi Wj Es. apply bool_iff.
  rewrite (iso_verdict vf2b VB gs e i j c Hc Wi Wj), (iso_verdict vf2b VB gs e j i c' Hc' Wj Wi).
  split; apply iso_flip_sum; auto.
Qed.

(** the round-2 statement (all hydrogen counts equal to one constant k, or absent) is the special case of equal orders; for
    different orders both verdicts are False *)
Lemma hc_all_sum k g : hc_all k g -> sum_hc g = (N.of_nat (n_nodes g) * k)%N.
Proof.
  unfold hc_all, sum_hc. rewrite n_nodes_ids. induction (node_ids g) as [|u r IH]; intros H; [simpl; lia|].
  change (fold_right N.add 0%N (map (fun u0 => hc (nlabel g u0)) (u :: r))) with (hc (nlabel g u) + fold_right N.add 0%N (map (fun u0 => hc (nlabel g u0)) r))%N.
  rewrite (H u (or_introl eq_refl)), IH by (intros v Iv; apply H; right; exact Iv). simpl length. lia.
Qed.
End SymSum.

(** example: CH3-OH against a renumbered copy (hydrogen counts 3 and 1: not constant, equal totals) — symmetric; against CH2-O
    (totals 4 and 2) the two directions differ: the hypothesis is needed *)
Definition aCH3 : attrs := [(0, 3); (1, 1); (2, 3)]%N.
Definition aOH : attrs := [(0, 1); (1, 2); (2, 3)]%N.
Definition aCH2 : attrs := [(0, 2); (1, 1); (2, 3)]%N.
Definition gMeOH : graph := LG [(1, aCH3); (2, aOH)]%N [(1, 2, b1)]%N.
Definition gMeOH' : graph := LG [(8, aOH); (9, aCH3)]%N [(9, 8, b1)]%N.
Definition gCH2O : graph := LG [(4, aCH2); (5, aO)]%N [(4, 5, b1)]%N.
Definition gsH : list graph := [gMeOH; gMeOH'; gCH2O].
Lemma wfH k : (k < 3)%nat -> gwf (gnth gsH k).
Proof. intros Hk. destruct k as [|[|[|k]]]; [wf_small | wf_small | wf_small | lia]. Qed.
Example ex_symmetric_sum :
  fst (isomorphic has_mono eFull 0 (gnth gsH 0) 1 (gnth gsH 1) []) = fst (isomorphic has_mono eFull 1 (gnth gsH 1) 0 (gnth gsH 0) []) /\
  sum_hc (gnth gsH 0) = 4%N /\ sum_hc (gnth gsH 2) = 2%N /\
  fst (isomorphic has_mono eFull 0 (gnth gsH 0) 2 (gnth gsH 2) []) = true /\ fst (isomorphic has_mono eFull 2 (gnth gsH 2) 0 (gnth gsH 0) []) = false.
Proof.
  split; [|repeat split; vm_compute; reflexivity].
  apply (symmetric_sum has_mono has_mono_contract gsH eFull 0 1 [] [] (cache_inv_nil gsH) (cache_inv_nil gsH) (wfH 0 ltac:(lia)) (wfH 1 ltac:(lia))).
  vm_compute. reflexivity.
Qed.
