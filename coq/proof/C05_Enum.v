(** C05 — the result set does not depend on the ENUMERATION ORDER of the matcher.
    The model instantiates VF2 with the verified enumerator of lib/Mono.v, which lists matches in node-list order;
    networkx's VF2 lists the same matches (contract) in its own order, and writes each match as a dict whose item order
    is its own too.  The symmetry pruning keeps the FIRST match of every class, so WHICH representatives are kept
    depends on that order.  This file proves that it does not matter: for any two listings of the same matches — any
    order of the list, any order of the pairs inside a match, repetitions allowed — the graphs glued from the kept
    matches correspond one to one up to [obs_eq].  (Pattern without explicit X-H bonds: one glue per kept match.) *)
From Coq Require Import List NArith ZArith Bool Arith Lia Permutation.
From SK Require Import lib.Tok lib.LGraph lib.Mono.
From SK Require model.C06_Model model.C11_Model.
From SK Require proof.C11_Dedup proof.C03_Proof.
From SK Require Import model.C03_Model model.C05_Model proof.C05_Proof proof.C05_Glue proof.C05_Pipe proof.C05_Order proof.C05_Sub
     proof.C05_Set proof.C05_Result.
Import ListNotations.

(** what is needed of the rule graph and of the listed matches (all of it holds for the raw matches of a writing that
    satisfies [side_okb0]: [mono_facts]) *)
Definition rc_ok (rc : its) : Prop :=
  NoDup (node_ids rc) /\ simple_edgesb (gedges rc) = true /\
  (forall a b x, In (a, b, x) (gedges rc) -> In a (node_ids rc) /\ In b (node_ids rc)).
Definition match_ok (host : hostg) (rc : its) (k : mapping) : Prop :=
  NoDup (map fst k) /\ NoDup (map snd k) /\
  forall q h, In (q, h) k -> (exists pn, label rc q = Some pn) /\ (exists hn, label host h = Some hn).

Definition glue1 (host : hostg) (rc : its) (m : mapping) : list its :=
  match glue host rc m with Some T => [T] | None => [] end.

Lemma match_ok_items host rc k k' : same_items k k' -> NoDup (map fst k') -> NoDup (map snd k') -> match_ok host rc k -> match_ok host rc k'.
Proof.
  intros E F S (_ & _ & L). split; [exact F|]. split; [exact S|]. intros q h I. apply L. apply E. exact I.
Qed.

(** every listed match that glues is represented, up to [obs_eq], by a KEPT match *)
Lemma kept_covers_gen (host : hostg) (rc : its) (raw : list mapping) (k2 : mapping) (T2 : its) :
  rc_ok rc -> (forall m, In m raw -> match_ok host rc m) -> In k2 raw -> glue host rc k2 = Some T2 ->
  exists k' T', In k' (prune rc raw) /\ glue host rc k' = Some T' /\ obs_eq T2 T'.
Proof.
  intros (Rn & Rs & Rc) Hok Hraw2 Hg2.
  destruct (Hok k2 Hraw2) as (K2f & K2v & K2ok).
  destruct (prune_complete rc raw k2 Hraw2) as (k' & Hk' & Hcase).
  assert (Hraw' : In k' raw) by (exact (C11_Dedup.subseq_in _ _ _ (prune_subseq _ _) Hk')).
  destruct (Hok k' Hraw') as (K'f & K'v & K'ok).
  exists k'.
  destruct Hcase as [E | [E | (s & Hs & E)]].
  - subst k'. exists T2. split; [exact Hk'|]. split; [exact Hg2 | apply obs_eq_refl].
  - pose proof (proj1 (C11_Dedup.set_eqb_spec k2 k') E) as E2.
    destruct (obs_transfer _ _ T2
               (glue_obs host host rc rc k2 k' (obs_eq_refl _) (obs_eq_refl _) Rs Rs K2f K2v K'f K'v E2 K2ok) Hg2) as (T' & Hg' & O').
    exists T'. split; [exact Hk'|]. split; [exact Hg' | exact O'].
  - pose proof (proj1 (C11_Dedup.set_eqb_spec k2 (C11_Model.act s k')) E) as E2.
    destruct (obs_transfer _ _ T2
                (glue_obs host host rc rc k2 (C11_Model.act s k') (obs_eq_refl _) (obs_eq_refl _) Rs Rs K2f K2v
                   (act_nodup_fst _ s k' Rn Rs Rc Hs K'f)
                   (eq_ind_r (fun l => NoDup l) K'v (act_snd s k')) E2 K2ok) Hg2) as (T3 & Hg3 & O3).
    pose proof (glue_aut rc s Rn Rs Rc Hs host k' K'f K'v K'ok) as Ha.
    rewrite Hg3 in Ha. destruct (glue host rc k') as [T'|]; [|destruct Ha].
    exists T'. split; [exact Hk'|]. split; [reflexivity|]. eapply obs_eq_trans; [exact O3 | apply obs_eq_sym; exact Ha].
Qed.

(** two listings of the same matches: every match of the one is, as a set of pairs, a match of the other *)
Definition same_listing (raw raw' : list mapping) : Prop :=
  (forall m, In m raw -> exists m', In m' raw' /\ same_items m m') /\
  (forall m', In m' raw' -> exists m, In m raw /\ same_items m' m).

Theorem glued_independent_of_enumeration (host : hostg) (rc : its) (raw raw' : list mapping) :
  rc_ok rc -> (forall m, In m raw -> match_ok host rc m) -> (forall m, In m raw' -> match_ok host rc m) ->
  same_listing raw raw' ->
  forall T, In T (flat_map (glue1 host rc) (prune rc raw)) ->
    exists T', In T' (flat_map (glue1 host rc) (prune rc raw')) /\ obs_eq T T'.
Proof.
  intros R Hok Hok' (L1 & _) T HT.
  apply in_flat_map in HT. destruct HT as (k & Hk & HT).
  unfold glue1 in HT. destruct (glue host rc k) as [T0|] eqn:Hg; [|destruct HT]. destruct HT as [<-|[]].
  assert (Hraw : In k raw) by (exact (C11_Dedup.subseq_in _ _ _ (prune_subseq _ _) Hk)).
  destruct (L1 k Hraw) as (k2 & Hraw2 & Ek).
  destruct (Hok k Hraw) as (Kf & Kv & Kok). destruct (Hok' k2 Hraw2) as (K2f & K2v & K2ok).
  destruct R as (Rn & Rs & Rc).
  destruct (obs_transfer _ _ T0
              (glue_obs host host rc rc k k2 (obs_eq_refl _) (obs_eq_refl _) Rs Rs Kf Kv K2f K2v Ek Kok) Hg) as (T2 & Hg2 & O2).
  destruct (kept_covers_gen host rc raw' k2 T2 (conj Rn (conj Rs Rc)) Hok' Hraw2 Hg2) as (k' & T' & Hk' & Hg' & O').
  exists T'. split; [|eapply obs_eq_trans; eassumption].
  apply in_flat_map. exists k'. split; [exact Hk'|]. unfold glue1. rewrite Hg'. left. reflexivity.
Qed.

(** [same_listing] is symmetric, so the correspondence goes both ways; a permutation of the list is a special case *)
Lemma same_listing_sym raw raw' : same_listing raw raw' -> same_listing raw' raw.
Proof. intros (A & B). split; assumption. Qed.

Lemma same_listing_perm raw raw' : Permutation raw raw' -> same_listing raw raw'.
Proof.
  intros P. split; intros m I; exists m; (split; [|intros ph; tauto]).
  - exact (Permutation_in _ P I).
  - exact (Permutation_in _ (Permutation_sym P) I).
Qed.

Section WithThr.
Context {TH : Thr}.

(** the glued graphs of the pipeline ARE the graphs glued from the kept matches (no explicit X-H bond in the pattern) *)
Lemma glued_of_glue1 strat host p : p_flag p = false ->
  glued_of strat host p = flat_map (glue1 host (p_rc p)) (prune (p_rc p) (raw_of strat host p)).
Proof.
  intros Hf. unfold glued_of, kept_of. apply flat_map_ext. intros m.
  unfold glue_all, glue_base, glue1. rewrite Hf. simpl. destruct (glue host (p_rc p) m); reflexivity.
Qed.

(** for the exhaustive strategy of a writing that satisfies [side_ok]: ANY other listing of its raw matches (the one VF2
    produces, say) leads to the same result set *)
Theorem glued_any_listing (host : hostg) (p : prepared) (raw' : list mapping) :
  side_ok host p -> same_listing (raw_of 0%N host p) raw' ->
  (forall m, In m raw' -> NoDup (map fst m) /\ NoDup (map snd m)) ->
  (forall T, In T (glued_of 0%N host p) -> exists T', In T' (flat_map (glue1 host (p_rc p)) (prune (p_rc p) raw')) /\ obs_eq T T') /\
  (forall T', In T' (flat_map (glue1 host (p_rc p)) (prune (p_rc p) raw')) -> exists T, In T (glued_of 0%N host p) /\ obs_eq T' T).
Proof.
  intros S L Hnd.
  assert (R : rc_ok (p_rc p)) by (split; [exact (so_rc_nodup _ _ S)|split; [exact (so_rc_simple _ _ S)|exact (so_rc_closed _ _ S)]]).
  assert (Hok : forall m, In m (raw_of 0%N host p) -> match_ok host (p_rc p) m).
  { intros m I. exact (mono_facts host p m S (raw_is_mono host p m S I)). }
  assert (Hok' : forall m, In m raw' -> match_ok host (p_rc p) m).
  { intros m' I. destruct (proj2 L m' I) as (m & Im & E). destruct (Hnd m' I) as [F V].
    apply (match_ok_items host (p_rc p) m m'); [intros ph; symmetry; apply E | exact F | exact V | exact (Hok m Im)]. }
  rewrite (glued_of_glue1 0%N host p (so_flag _ _ S)). split.
  - apply glued_independent_of_enumeration; assumption.
  - apply glued_independent_of_enumeration; try assumption. apply same_listing_sym. exact L.
Qed.

End WithThr.
