(** C16 — the predicates used in the theorem statements (all boolean / decidable) and the witnesses. *)
From stdpp Require Import gmap strings sets pretty sorting.
From Coq Require Import Ascii.
From SK Require Import lib.Tok model.C15_Model model.C16_Model.
Local Open Scope string_scope.

(** the reactions of a network as a multiset (list up to permutation) of (rule, reactants, products) *)
Definition rxns_of (H : net) : list rxn := (map_to_list (edges H)).*2.

(** [A-Za-z][A-Za-z0-9_]* *)
Definition label_char (a : ascii) : bool := is_alpha a || is_digit a || is_char "_" a.
Definition valid_label (s : string) : bool :=
  match to_chars s with a :: t => is_alpha a && forallb label_char t | [] => false end.
(** a rule name survives  "| rule=<name>"  iff it is non-empty and blank-free *)
Definition valid_rule (s : string) : bool :=
  match to_chars s with [] => false | l => forallb (λ a, negb (py_space a)) l end.

Definition side_labels_ok (sd : side) : bool := bool_decide (map_Forall (λ s _, valid_label s = true) sd).
Definition strings_domain (H : net) : bool :=
  bool_decide (map_Forall (λ _ rx, valid_rule (r_rule rx) = true ∧ side_labels_ok (r_lhs rx) = true
                                   ∧ side_labels_ok (r_rhs rx) = true) (edges H)).

(** witness outside the label domain: coefficient 2 on the label "_x" prints as "2_x", which parses as ONE species *)
Definition W_label : net := mk_net [] [(None, "r", [("_x", 2%Z)], [("B", 1%Z)])] [].
Definition W_label_back : net := (rxns_to_hypergraph (hypergraph_to_rxn_strings W_label true false true) "r" true false).1.

Lemma label_domain_refuted :
  ∃ H : net, (rxns_to_hypergraph (hypergraph_to_rxn_strings H true false true) "r" true false).2 = None
             ∧ ¬ rxns_of (rxns_to_hypergraph (hypergraph_to_rxn_strings H true false true) "r" true false).1 ≡ₚ rxns_of H.
Proof.
  exists W_label. split; [by vm_compute|].
  intros HP. apply Permutation_length in HP as HL.
  assert (Hs : ∀ rx, rx ∈ rxns_of W_label → r_lhs rx !! "_x" = Some 2%positive).
  { intros rx. vm_compute. intros Hin. apply elem_of_list_singleton in Hin. by subst rx. }
  assert (Hin : Rxn "r" {["2_x" := 1%positive]} {["B" := 1%positive]} ∈ rxns_of W_label).
  { rewrite <-HP. vm_compute. apply elem_of_list_singleton. f_equal; by apply map_eq; intros i; vm_compute. }
  apply Hs in Hin. by vm_compute in Hin.
Qed.
