(** C16 — the predicates used in the theorem statements (all boolean / decidable) and the witnesses. *)
From stdpp Require Import gmap strings sets pretty sorting.
From Coq Require Import Ascii.
From SK Require Import lib.Tok model.C15_Model model.C16_Model proof.C15_Proof.
Local Open Scope string_scope.

Global Instance rxn_eq_dec : EqDecision rxn.
Proof. solve_decision. Defined.
Global Instance cerr_eq_dec : EqDecision cerr.
Proof. solve_decision. Defined.

(** * Decidable well-formedness of a network (implied by the store invariant [Inv] of C15: [Inv_wf16]) *)
(** no stored reaction is empty or has an empty rule name *)
Definition wf_rxns (H : net) : Prop := map_Forall (λ _ rx, rxn_empty rx = false ∧ r_rule rx ≠ "") (edges H).
(** the species that occur in some stored reaction *)
Definition occurring (H : net) : gset string := ⋃ (rxn_species <$> (map_to_list (edges H)).*2).
(** occurring species are registered and have a non-empty index entry *)
Definition wf_species (H : net) : Prop :=
  set_Forall (λ x, x ∈ species H ∧ (default ∅ (s_in H !! x) ≠ ∅ ∨ default ∅ (s_out H !! x) ≠ ∅)) (occurring H).
(** the insertion-order list is a duplicate-free enumeration of the ids *)
Definition wf_order (H : net) : Prop := NoDup (order H) ∧ list_to_set (order H) = dom (edges H).
Definition wf16 (H : net) : Prop := wf_rxns H ∧ wf_species H ∧ wf_order H ∧ dom (mol H) ⊆ species H.
Global Instance wf16_dec H : Decision (wf16 H).
Proof. unfold wf16, wf_rxns, wf_species, wf_order. apply _. Defined.

Lemma elem_of_occurring H x : x ∈ occurring H ↔ ∃ e rx, edges H !! e = Some rx ∧ x ∈ rxn_species rx.
Proof.
  unfold occurring. rewrite elem_of_union_list. split.
  - intros (X & HX & Hx). apply elem_of_list_fmap in HX as (rx & -> & Hrx).
    apply elem_of_list_fmap in Hrx as ([e rx'] & -> & Hin). apply elem_of_map_to_list in Hin. eauto.
  - intros (e & rx & He & Hx). exists (rxn_species rx). split; [|done].
    apply elem_of_list_fmap. exists rx. split; [done|]. apply elem_of_list_fmap. exists (e, rx). split; [done|].
    by apply elem_of_map_to_list.
Qed.

Lemma Inv_wf16 H : Inv H → wf16 H.
Proof.
  intros HI. split_and!.
  - intros e rx He. split; [by eapply inv_nonempty|by eapply inv_rule].
  - intros x Hx. apply elem_of_occurring in Hx as (e & rx & He & Hx). split.
    + apply (inv_occ _ HI). by exists e, rx.
    + rewrite (inv_in _ HI), (inv_out _ HI). apply elem_of_union in Hx as [Hx|Hx]; [right|left].
      * intros Hem. assert (e ∈ consumers (edges H) x) as Hc by (apply elem_of_consumers; eauto). set_solver.
      * intros Hem. assert (e ∈ producers (edges H) x) as Hc by (apply elem_of_producers; eauto). set_solver.
  - split; [apply HI|]. apply set_eq. intros e. rewrite elem_of_list_to_set, elem_of_dom. apply HI.
  - apply HI.
Qed.

(** * Preconditions of the three round trips *)
(** string node ids: no species node gets the same id as a reaction node (automatic with the default prefixes
    "S:" / "R:" is NOT assumed here: the statement is about any prefix pair) *)
Definition bip_names_ok (fl : bflags) (H : net) : Prop :=
  f_int fl = true ∨
  set_Forall (λ s, set_Forall (λ e, default "" (f_sp fl) +:+ s ≠ default "" (f_rp fl) +:+ e) (dom (edges H))) (species H).
Global Instance bip_names_ok_dec fl H : Decision (bip_names_ok fl H).
Proof. unfold bip_names_ok. apply _. Defined.

(** every reaction has reactants and products *)
Definition two_sided (H : net) : Prop := map_Forall (λ _ rx, r_lhs rx ≠ ∅ ∧ r_rhs rx ≠ ∅) (edges H).
Global Instance two_sided_dec H : Decision (two_sided H).
Proof. unfold two_sided. apply _. Defined.
Definition stoich_of (rx : rxn) : side * side := (r_lhs rx, r_rhs rx).

(** the reactions of a network as a multiset (list up to permutation) of (rule, reactants, products) *)
Definition rxns_of (H : net) : list rxn := (map_to_list (edges H)).*2.

(** the label domain of the text format: what the parser's glued-coefficient pattern (digits, then a letter, then anything)
    and its separators accept, i.e. a letter followed by any 7-bit ASCII characters except white space and the four characters
    the format itself uses: '+' (term separator), '*' (coefficient separator), '|' (suffix separator), '>' (arrow).
    Covers identifiers, formulae and SMILES-like labels such as CC(=O)O, C#C, Fe(OH)3, c1ccccc1, C[C@H](N)C(=O)O. *)
Definition is_ascii7 (a : ascii) : bool := (code a <? 128)%N.
Definition label_char (a : ascii) : bool :=
  is_ascii7 a && negb (py_space a) && negb (is_char "+" a) && negb (is_char "*" a) && negb (is_char "|" a) && negb (is_char ">" a).
Definition valid_label (s : string) : bool :=
  match to_chars s with a :: t => is_alpha a && forallb label_char t | [] => false end.
(** a rule name survives  "| rule=<name>"  iff it is non-empty and blank-free (7-bit ASCII, as all text in this model:
    Python's str methods and re classes treat further Unicode code points as white space) *)
Definition valid_rule (s : string) : bool :=
  match to_chars s with [] => false | l => forallb (λ a, is_ascii7 a && negb (py_space a)) l end.

Definition side_labels_ok (sd : side) : bool := bool_decide (map_Forall (λ s _, valid_label s = true) sd).
Definition strings_domain (H : net) : bool :=
  bool_decide (map_Forall (λ _ rx, valid_rule (r_rule rx) = true ∧ side_labels_ok (r_lhs rx) = true
                                   ∧ side_labels_ok (r_rhs rx) = true) (edges H)).

(** witness outside the label domain: coefficient 2 on the label "_x" prints as "2_x", which parses as ONE species *)
Definition W_label : net := mk_net [] [(None, "r", [("_x", 2%Z)], [("B", 1%Z)])] [].
Definition W_label_back : net := (rxns_to_hypergraph (hypergraph_to_rxn_strings W_label true false true) "r" true false).1.

Lemma label_domain_refuted :
  ∃ H : net, (rxns_to_hypergraph (hypergraph_to_rxn_strings H true false true) "r" true false).2 = None
             ∧ ¬ rxns_of (rxns_to_hypergraph (hypergraph_to_rxn_strings H true false true) "r" true false).1 ≡ₚ rxns_of H.
Proof.
  exists W_label. split; [by vm_compute|].
  intros HP. apply Permutation_length in HP as HL.
  assert (Hs : ∀ rx, rx ∈ rxns_of W_label → r_lhs rx !! "_x" = Some 2%positive).
  { intros rx. vm_compute. intros Hin. apply elem_of_list_singleton in Hin. by subst rx. }
  assert (Hin : Rxn "r" {["2_x" := 1%positive]} {["B" := 1%positive]} ∈ rxns_of W_label).
  { rewrite <-HP. vm_compute. apply elem_of_list_singleton. f_equal; by apply map_eq; intros i; vm_compute. }
  apply Hs in Hin. by vm_compute in Hin.
Qed.
