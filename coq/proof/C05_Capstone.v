(** C05 — part 16: the per-writing premise [side_ok_c] is itself invariant under renumbering, so that for a writing
    accepted by the monitors the set-level theorems need nothing that the run function has not evaluated. *)
From Coq Require Import List NArith ZArith Bool Arith Lia Permutation.
From SK Require Import lib.Tok lib.LGraph lib.Mono.
From SK Require model.C06_Model model.C11_Model.
From SK Require Import lib.C06_Spec proof.C06_Comp.
From SK Require Import model.C03_Model model.C05_Model proof.C05_Proof proof.C05_Glue proof.C05_Pipe proof.C05_Comp proof.C05_Order
  proof.C05_Set proof.C05_Result proof.C05_AllStrat.
Import ListNotations.
Local Open Scope nat_scope.

Section WithThr.
Context {TH : Thr}.


Section BoundEquiv.
  Variables sg pi : N -> N.
  Hypothesis sg_inj : inj sg.
  Hypothesis pi_inj : inj pi.
  Variables enum enum' : list N -> list N -> list C06_Model.mapping.
  Hypothesis Henum : forall hn pn, enum' (map pi hn) (map sg pn) = map (mv sg pi) (enum hn pn).
  Variable H P : C06_Model.graph.

  Lemma c_percc_of_relabel pc :
    c_percc_of enum' (relabel pi H) (map sg pc) = map (tag sg pi) (c_percc_of enum H pc).
  Proof.
    unfold c_percc_of, c_cands, c_percc. rewrite (comps_relabel pi pi_inj H), (index_from_map (map pi) (C06_Model.comps H) 0).
    rewrite map_length.
    change (map (fun ix : nat * list N => (fst ix, map pi (snd ix))) (C06_Model.index_from 0 (C06_Model.comps H)))
      with (map (tagc pi) (C06_Model.index_from 0 (C06_Model.comps H))).
    rewrite (filter_len_map pi (length pc) (C06_Model.index_from 0 (C06_Model.comps H))).
    rewrite flat_map_map', map_flat_map'. apply flat_map_ext. intros [i hc]. unfold tagc; simpl.
    rewrite Henum, !map_map. reflexivity.
  Qed.

  Lemma c_bt_unl_map ordered : forall used acc,
    c_bt_unl (map (map (tag sg pi)) ordered) used (mv sg pi acc) = map (mv sg pi) (c_bt_unl ordered used acc).
  Proof.
    induction ordered as [|lvl rest IH]; intros used acc; simpl; [reflexivity|].
    rewrite flat_map_map', map_flat_map'. apply flat_map_ext. intros [hi m]. unfold tag; simpl.
    rewrite (clash_mv sg pi sg_inj). destruct (C06_Model.memnat hi used || C06_Model.clash m acc)%bool; [reflexivity|].
    replace (mv sg pi m ++ mv sg pi acc) with (mv sg pi (m ++ acc)) by (unfold mv; rewrite map_app; reflexivity).
    apply IH.
  Qed.

  Lemma c_comp_bound_relabel :
    c_comp_bound enum' true (relabel pi H) (relabel sg P) = c_comp_bound enum true H P.
  Proof.
    unfold c_comp_bound. rewrite (comps_relabel sg sg_inj P), map_map.
    assert (E1 : map (fun pc => C06_Model.lenN (c_percc_of enum' (relabel pi H) (map sg pc))) (C06_Model.comps P)
                 = map (fun pc => C06_Model.lenN (c_percc_of enum H pc)) (C06_Model.comps P)).
    { apply map_ext. intros pc. rewrite c_percc_of_relabel. unfold C06_Model.lenN. rewrite map_length. reflexivity. }
    rewrite E1. f_equal.
    unfold c_comp_unl. rewrite (comps_relabel pi pi_inj H), (comps_relabel sg sg_inj P), !map_length.
    destruct (length (C06_Model.comps P) =? 0); [reflexivity|].
    destruct (length (C06_Model.comps H) <? length (C06_Model.comps P)).
    - rewrite !node_ids_relabel, Henum. unfold C06_Model.lenN. rewrite map_length. reflexivity.
    - destruct ((length (C06_Model.comps P) <? length (C06_Model.comps H)) && true)%bool; [reflexivity|].
      rewrite map_map.
      assert (E2 : map (fun pc => c_percc_of enum' (relabel pi H) (map sg pc)) (C06_Model.comps P)
                   = map (map (tag sg pi)) (map (c_percc_of enum H) (C06_Model.comps P))).
      { rewrite map_map. apply map_ext. intros pc. apply c_percc_of_relabel. }
      rewrite E2, (sort_len_map (tag sg pi)).
      pose proof (c_bt_unl_map (C06_Model.sort_len (map (c_percc_of enum H) (C06_Model.comps P))) [] []) as Hb.
      simpl (mv sg pi []) in Hb. rewrite Hb. unfold C06_Model.lenN. rewrite map_length. reflexivity.
  Qed.
End BoundEquiv.

Lemma gwf_relabel f (Hf : inj f) (g : C06_Model.graph) : gwf g -> gwf (relabel f g).
Proof.
  intros [Hnd Hed]. split.
  - rewrite (node_ids_relabel _ _ f g). apply FinFun.Injective_map_NoDup; [exact Hf | exact Hnd].
  - intros a b x I. unfold relabel in I; simpl in I. apply in_map_iff in I. destruct I as ([[a0 b0] x0] & E & I).
    inversion E; subst. destruct (Hed a0 b0 _ I) as (Ia & Ib & Hne).
    rewrite (node_ids_relabel _ _ f g). split; [apply in_map; exact Ia|]. split; [apply in_map; exact Ib|].
    intros Eq. apply Hne. apply Hf. exact Eq.
Qed.

(** the premises of one writing hold for the renumbered writing *)
Lemma side_okb_c_relabel sg pi (Hs : inj sg) (Hp : inj pi) (host : hostg) (p : prepared) :
  side_okb_c host p = true -> side_ok_c (relabel pi host) (relabel_prep sg p).
Proof.
  intros Hb. unfold side_okb_c, side_okb_c_with in Hb. apply andb_prop in Hb. destruct Hb as [Hb1 Hb2].
  pose proof (side_okb_ok host p Hb1) as S.
  assert (Henum : forall hn pn, monos_on' (relabel pi (host_c06 host)) (relabel sg (pat_c06 (p_pat p))) (map pi hn) (map sg pn)
                                = map (mv sg pi) (monos_on' (host_c06 host) (pat_c06 (p_pat p)) hn pn))
    by (intros; apply monos_on'_relabel; assumption).
  split.
  - constructor; unfold relabel_prep; cbn [p_rc p_l p_r p_flag p_pat].
    + exact (so_flag _ _ S).
    + rewrite host_c06_relabel. apply gwf_relabel; [exact Hp | exact (so_host _ _ S)].
    + rewrite pat_c06_relabel. apply gwf_relabel; [exact Hs | exact (so_pat _ _ S)].
    + rewrite host_c06_relabel, pat_c06_relabel, <- monos_on'_eq, !node_ids_relabel, Henum.
      unfold C06_Model.lenN. rewrite map_length. pose proof (so_count _ _ S) as Hc. rewrite <- monos_on'_eq in Hc. exact Hc.
    + rewrite (node_ids_relabel _ _ sg (p_rc p)). apply FinFun.Injective_map_NoDup; [exact Hs | exact (so_rc_nodup _ _ S)].
    + unfold relabel; simpl. rewrite (simple_relabel sg Hs). exact (so_rc_simple _ _ S).
    + intros a b x I. unfold relabel in I; simpl in I. apply in_map_iff in I. destruct I as ([[a0 b0] x0] & E & I).
      inversion E; subst. destruct (so_rc_closed _ _ S a0 b0 _ I) as [Ia Ib].
      rewrite (node_ids_relabel _ _ sg (p_rc p)). split; apply in_map; assumption.
    + intros u I. rewrite (node_ids_relabel _ _ sg (p_pat p)) in I. apply in_map_iff in I. destruct I as (u0 & <- & I).
      rewrite (node_ids_relabel _ _ sg (p_rc p)). apply in_map. exact (so_pat_rc _ _ S u0 I).
  - unfold relabel_prep; cbn [p_pat]. rewrite host_c06_relabel, pat_c06_relabel.
    rewrite <- (comp_bound_ext (monos_on' (relabel pi (host_c06 host)) (relabel sg (pat_c06 (p_pat p)))) _ true _ _
                  (fun hn pn => monos_on'_eq _ _ hn pn)).
    rewrite <- c_comp_bound_eq.
    rewrite (c_comp_bound_relabel sg pi Hs Hp (monos_on' (host_c06 host) (pat_c06 (p_pat p))) _ Henum).
    apply N.leb_le. exact Hb2.
Qed.

(** ** capstones: nothing is assumed about a writing that the run function has not evaluated *)
End WithThr.
From SK Require Import proof.C05_Prep proof.C05_PrepOrder proof.C05_Final proof.C05_Rewrite.
Section WithThr2.
Context {TH : Thr}.

(** prepared rules, every strategy: [side_okb_c] on the base writing and on the other writing, as evaluated *)
Theorem glued_set_checked strat (sg pi : N -> N) (Hs : inj sg) (Hp : inj pi) (host0 host : hostg) (p0 p : prepared) :
  is_strat strat -> side_okb_c host0 p0 = true -> side_okb_c host p = true ->
  same_graph (relabel pi host0) host -> same_graph (relabel sg (p_rc p0)) (p_rc p) -> same_graph (relabel sg (p_pat p0)) (p_pat p) ->
  (forall T, In T (glued_of strat host0 p0) -> exists T', In T' (glued_of strat host p) /\ obs_eq (relabel pi T) T') /\
  (forall T', In T' (glued_of strat host p) -> exists T, In T (glued_of strat host0 p0) /\ obs_eq (relabel pi T) T').
Proof.
  intros Hst S0 S Hh Hr Hpt.
  exact (glued_set_rewriting_any strat sg pi Hs Hp host0 host p0 p Hst (side_okb_c_relabel sg pi Hs Hp host0 p0 S0) (side_okb_c_ok _ _ S) Hh Hr Hpt).
Qed.

(** from the template, implicit-hydrogen mode: a writing accepted by [rewriting_okb], [side_okb_c] on both writings *)
Theorem pipeline_checked_implicit strat inv (host0 host : hostg) (tpl0 tpl : its) (pi sg : list (N * N)) (p0 : prepared) :
  is_strat strat ->
  rewriting_okb host0 tpl0 (host, tpl, pi, sg) = true ->
  prepare inv true tpl0 = Some p0 -> p_flag p0 = false -> side_okb_c host0 p0 = true ->
  exists p, prepare inv true tpl = Some p /\ p_flag p = false /\
    pipeline inv true false strat host0 tpl0 = Some (glued_of strat host0 p0) /\
    pipeline inv true false strat host tpl = Some (glued_of strat host p) /\
    (side_okb_c host p = true ->
     (forall T, In T (glued_of strat host0 p0) -> exists T', In T' (glued_of strat host p) /\ obs_eq (relabel (apply_map pi) T) T') /\
     (forall T', In T' (glued_of strat host p) -> exists T, In T (glued_of strat host0 p0) /\ obs_eq (relabel (apply_map pi) T) T')).
Proof.
  intros Hst Hrw Hprep Hflag S0.
  destruct (rewriting_okb_ok host0 host tpl0 tpl pi sg Hrw) as (Ipi & Isg & Hh & Ht & Hw0 & Hw).
  destruct (pipeline_set_invariant strat (apply_map sg) (apply_map pi) inv host0 host tpl0 tpl p0 Hst Isg Ipi Hprep Hflag Hw0 Hw Hh Ht)
    as (p & A & B & C & D & E).
  exists p. split; [exact A|]. split; [exact B|]. split; [exact C|]. split; [exact D|].
  intros S. exact (E (side_okb_c_relabel (apply_map sg) (apply_map pi) Isg Ipi host0 p0 S0) (side_okb_c_ok _ _ S)).
Qed.

(** the default configuration, hydrogen-free templates *)
End WithThr2.
From SK Require Import proof.C05_Default.
Section WithThr3.
Context {TH : Thr}.
Theorem pipeline_checked_default strat inv (host0 host : hostg) (tpl0 tpl : its) (pi sg : list (N * N)) :
  is_strat strat ->
  rewriting_okb host0 tpl0 (host, tpl, pi, sg) = true ->
  nodupb (node_ids tpl0) = true -> noHb tpl0 = true -> nohp tpl0 ->
  nodupb (node_ids tpl) = true -> noHb tpl = true -> nohp tpl ->
  side_okb_c host0 (prep_default inv tpl0) = true -> side_okb_c host (prep_default inv tpl) = true ->
  pipeline inv false true strat host0 tpl0 = Some (glued_of strat host0 (prep_default inv tpl0)) /\
  pipeline inv false true strat host tpl = Some (glued_of strat host (prep_default inv tpl)) /\
  (forall T, In T (glued_of strat host0 (prep_default inv tpl0)) ->
     exists T', In T' (glued_of strat host (prep_default inv tpl)) /\ obs_eq (relabel (apply_map pi) T) T') /\
  (forall T', In T' (glued_of strat host (prep_default inv tpl)) ->
     exists T, In T (glued_of strat host0 (prep_default inv tpl0)) /\ obs_eq (relabel (apply_map pi) T) T').
Proof.
  intros Hst Hrw A1 A2 A3 B1 B2 B3 S0 S.
  destruct (rewriting_okb_ok host0 host tpl0 tpl pi sg Hrw) as (Ipi & Isg & Hh & Ht & Hw0 & Hw).
  destruct (pipeline_default_set_invariant strat (apply_map sg) (apply_map pi) inv host0 host tpl0 tpl Hst Isg Ipi A1 A2 A3 Hw0 B1 B2 B3 Hw Hh Ht)
    as (P1 & P2 & P3).
  split; [exact P1|]. split; [exact P2|].
  exact (P3 (side_okb_c_relabel (apply_map sg) (apply_map pi) Isg Ipi host0 (prep_default inv tpl0) S0) (side_okb_c_ok _ _ S)).
Qed.

End WithThr3.
